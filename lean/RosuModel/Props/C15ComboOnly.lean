/-
  Props/C15ComboOnly.lean — C15, the converse of `first_after_break_new_combo` (Props/C15Map.lean): `post_process_breaks`
  changes NOTHING but new-combo flags, and the flag of object `i` is changed only when the break cursor advanced AT `i`
  (`force_new_combo` is reset after every object — also after a hold note, which has no flag: a hold CONSUMES the force).
  All for every `[Scalar F]`, no arithmetic law; the "no earlier object lies after that break" clause needs the breaks in
  end-time order and the order fact `x ≤ y < z → x < z` (the same hypotheses as `first_after_break_new_combo`).
-/
import RosuModel.Props.C15Map
set_option linter.unusedSectionVars false
namespace Rosu.C15
open Rosu Scalar

variable {F P : Type} [Scalar F] [Scalar P]

/-- the kind with its new-combo flag erased ("everything of the kind except the flag"). -/
def clearFlag : HitObjectKind F P → HitObjectKind F P
  | .circle c => .circle { c with newCombo := false }
  | .slider s => .slider { s with newCombo := false }
  | .spinner s => .spinner { s with newCombo := false }
  | .hold h => .hold h

/-- the break cursor (`curr_break`) BEFORE object `i` is looked at. -/
def cursorAt (breaks : List (BreakPeriod F)) : List (HitObject F P) → Nat → Nat → Nat
  | [], cur, _ => cur
  | _ :: _, cur, 0 => cur
  | h :: rest, cur, i + 1 => cursorAt breaks rest (skipBreaks breaks h.startTime (breaks.length + 1) cur false).1 i

/-- `force_new_combo` at the `match` of object `i`. -/
def forcedAt (breaks : List (BreakPeriod F)) : List (HitObject F P) → Nat → Nat → Bool
  | [], _, _ => false
  | h :: _, cur, 0 => (skipBreaks breaks h.startTime (breaks.length + 1) cur false).2
  | h :: rest, cur, i + 1 => forcedAt breaks rest (skipBreaks breaks h.startTime (breaks.length + 1) cur false).1 i

theorem clearFlag_orNewCombo (k : HitObjectKind F P) (f : Bool) : clearFlag (k.orNewCombo f) = clearFlag k := by
  cases k <;> rfl

theorem kindNewCombo_orNewCombo (k : HitObjectKind F P) (f : Bool) :
    kindNewCombo (k.orNewCombo f) = (kindNewCombo k || (f && !isHold k)) := by
  cases k <;> simp [HitObjectKind.orNewCombo, kindNewCombo, isHold]

/-- one step of the walk from a fresh `force = false`: it forces iff the break under the cursor ends before `t`. -/
theorem skipBreaks_force_iff (breaks : List (BreakPeriod F)) (t : F) (n cur : Nat) :
    (skipBreaks breaks t (n + 1) cur false).2 = true ↔ ∃ b, breaks[cur]? = some b ∧ lt b.endTime t = true := by
  cases hb : breaks[cur]? with
  | none =>
    have hs : skipBreaks breaks t (n + 1) cur false = (cur, false) := by rw [skipBreaks]; simp [hb]
    rw [hs]; simp
  | some b =>
    by_cases hlt : lt b.endTime t = true
    · have hs : skipBreaks breaks t (n + 1) cur false = skipBreaks breaks t n (cur + 1) true := by
        rw [skipBreaks]; simp [hb, hlt]
      rw [hs]
      have := (skipBreaks_spec breaks t n (cur + 1) true).2.1
      constructor
      · intro _; exact ⟨b, rfl, hlt⟩
      · intro _; exact this.mpr (Or.inl rfl)
    · have hs : skipBreaks breaks t (n + 1) cur false = (cur, false) := by rw [skipBreaks]; simp [hb, hlt]
      rw [hs]
      constructor
      · intro h; cases h
      · rintro ⟨b', hb', hlt'⟩; cases hb'; exact absurd hlt' hlt

theorem cursorAt_ge (breaks : List (BreakPeriod F)) (hs : List (HitObject F P)) (cur i : Nat) :
    cur ≤ cursorAt breaks hs cur i := by
  induction hs generalizing cur i with
  | nil => exact Nat.le_refl _
  | cons x rest ih =>
    cases i with
    | zero => exact Nat.le_refl _
    | succ k =>
      have := (skipBreaks_spec breaks x.startTime (breaks.length + 1) cur false).1
      exact Nat.le_trans this (ih _ k)

/-- the object `post_process_breaks` leaves at position `i`. -/
theorem postProcessBreaks_getElem? (breaks : List (BreakPeriod F)) (hs : List (HitObject F P)) (cur i : Nat)
    (h : HitObject F P) (hi : hs[i]? = some h) :
    (postProcessBreaks breaks hs cur)[i]? = some { h with kind := h.kind.orNewCombo (forcedAt breaks hs cur i) } := by
  induction hs generalizing cur i with
  | nil => simp at hi
  | cons x rest ih =>
    rw [postProcessBreaks_cons]
    cases i with
    | zero =>
      simp only [List.getElem?_cons_zero, Option.some.injEq] at hi
      subst hi; rfl
    | succ k =>
      simp only [List.getElem?_cons_succ] at hi ⊢
      exact ih _ k hi

/-- `forced i` is true exactly when the cursor advances at `i`: the break under the cursor (the first one not yet
consumed) ends before object `i` starts. -/
theorem forcedAt_iff (breaks : List (BreakPeriod F)) (hs : List (HitObject F P)) (cur i : Nat) :
    forcedAt breaks hs cur i = true ↔
      ∃ h b, hs[i]? = some h ∧ breaks[cursorAt breaks hs cur i]? = some b ∧ lt b.endTime h.startTime = true := by
  induction hs generalizing cur i with
  | nil => simp [forcedAt]
  | cons x rest ih =>
    cases i with
    | zero =>
      simp only [forcedAt, cursorAt, List.getElem?_cons_zero, Option.some.injEq]
      rw [skipBreaks_force_iff]
      constructor
      · rintro ⟨b, h1, h2⟩; exact ⟨x, b, rfl, h1, h2⟩
      · rintro ⟨h, b, rfl, h1, h2⟩; exact ⟨b, h1, h2⟩
    | succ k =>
      simp only [forcedAt, cursorAt, List.getElem?_cons_succ]
      exact ih _ k

/-- **postProcessBreaks_flags** — `hs' = post_process_breaks(hs)` has the same length; at every index start time, samples and
the kind up to its flag are those of `hs[i]` (a hold stays the very same kind); the flag is `flag hs[i] || forced i` (for a
hold: `false` before and after), and `forced i` holds iff the break under the cursor ends before `hs[i]` starts. -/
theorem postProcessBreaks_flags (breaks : List (BreakPeriod F)) (hs : List (HitObject F P)) (cur : Nat) :
    (postProcessBreaks breaks hs cur).length = hs.length ∧
    ∀ i h, hs[i]? = some h →
      ∃ h', (postProcessBreaks breaks hs cur)[i]? = some h' ∧
        h'.startTime = h.startTime ∧ h'.samples = h.samples ∧ clearFlag h'.kind = clearFlag h.kind ∧
        isHold h'.kind = isHold h.kind ∧ (isHold h.kind = true → h'.kind = h.kind) ∧
        kindNewCombo h'.kind = (kindNewCombo h.kind || (forcedAt breaks hs cur i && !isHold h.kind)) ∧
        (forcedAt breaks hs cur i = true ↔
          ∃ b, breaks[cursorAt breaks hs cur i]? = some b ∧ lt b.endTime h.startTime = true) := by
  refine ⟨?_, ?_⟩
  · induction hs generalizing cur with
    | nil => rfl
    | cons x rest ih => rw [postProcessBreaks_cons]; simp [ih]
  intro i h hi
  refine ⟨_, postProcessBreaks_getElem? breaks hs cur i h hi, rfl, rfl, clearFlag_orNewCombo _ _,
    orNewCombo_isHold _ _, ?_, kindNewCombo_orNewCombo _ _, ?_⟩
  · intro hh; cases hk : h.kind <;> simp_all [isHold, HitObjectKind.orNewCombo]
  · rw [forcedAt_iff]
    constructor
    · rintro ⟨h0, b, e, h1, h2⟩; rw [hi] at e; cases e; exact ⟨b, h1, h2⟩
    · rintro ⟨b, h1, h2⟩; exact ⟨h, b, hi, h1, h2⟩

/-- **forced_consumed_by_hold** — one break, a hold after it, then any object: the hold takes the pending force with it
(`force_new_combo = false` at the end of EVERY iteration), both objects come out unchanged. -/
theorem forced_consumed_by_hold (b : BreakPeriod F) (hd c : HitObject F P)
    (hhold : isHold hd.kind = true) (_hafter : lt b.endTime hd.startTime = true) :
    postProcessBreaks [b] [hd, c] 0 = [hd, c] := by
  rw [postProcessBreaks_cons, postProcessBreaks_cons]
  have e1 : skipBreaks [b] hd.startTime ([b].length + 1) 0 false = (1, true) := by
    simp [skipBreaks, _hafter]
  rw [e1]
  have e2 : skipBreaks [b] c.startTime ([b].length + 1) 1 false = (1, false) := by
    simp [skipBreaks]
  simp only [e2]
  have k1 : hd.kind.orNewCombo true = hd.kind := by
    cases hk : hd.kind <;> simp_all [isHold, HitObjectKind.orNewCombo]
  have k2 : c.kind.orNewCombo false = c.kind := by
    cases hk : c.kind <;> simp [HitObjectKind.orNewCombo]
  rw [k1, k2]
  rfl

/-- what the cursor semantics give without any hypothesis on the breaks: a flag that changed was `false`, is `true`, the
object is no hold and the break UNDER THE CURSOR (not consumed by an earlier object) ends before it. -/
theorem changed_flag_cursor (breaks : List (BreakPeriod F)) (hs : List (HitObject F P)) (cur i : Nat)
    (h h' : HitObject F P) (hi : hs[i]? = some h) (hi' : (postProcessBreaks breaks hs cur)[i]? = some h')
    (hne : kindNewCombo h'.kind ≠ kindNewCombo h.kind) :
    kindNewCombo h.kind = false ∧ kindNewCombo h'.kind = true ∧ isHold h.kind = false ∧
      ∃ b, breaks[cursorAt breaks hs cur i]? = some b ∧ lt b.endTime h.startTime = true := by
  rw [postProcessBreaks_getElem? breaks hs cur i h hi] at hi'
  cases hi'
  simp only [kindNewCombo_orNewCombo] at hne ⊢
  have hf := forcedAt_iff breaks hs cur i
  cases hfa : forcedAt breaks hs cur i with
  | false => simp [hfa] at hne
  | true =>
    obtain ⟨h0, b, e, h1, h2⟩ := hf.mp hfa
    rw [hi] at e; cases e
    cases hk : kindNewCombo h.kind <;> cases hh : isHold h.kind <;> simp_all

/-- under the hypotheses of `first_after_break_new_combo` (breaks in end-time order, `x ≤ y < z → x < z` on `N`): when the
cursor break `b` ends before object `i`, no earlier object starts after `b`. -/
theorem cursor_break_first (N : F → Prop)
    (hle_lt : ∀ x y z : F, N x → N y → N z → lt y x = false → lt y z = true → lt x z = true)
    (breaks : List (BreakPeriod F)) (hNb : ∀ b ∈ breaks, N b.endTime)
    (hsorted : breaks.Pairwise (fun b₁ b₂ => lt b₂.endTime b₁.endTime = false)) :
    ∀ (hs : List (HitObject F P)) (cur i : Nat) (b : BreakPeriod F), (∀ x ∈ hs, N x.startTime) →
      breaks[cursorAt breaks hs cur i]? = some b →
      ∀ j hj, j < i → hs[j]? = some hj → lt b.endTime hj.startTime = false := by
  intro hs
  induction hs with
  | nil => intro cur i b _ _ j hj _ e; simp at e
  | cons x rest ih =>
    intro cur i b hNh hb j hj hji e
    cases i with
    | zero => omega
    | succ k =>
      simp only [cursorAt] at hb
      cases j with
      | succ j' =>
        simp only [List.getElem?_cons_succ] at e
        exact ih _ k b (fun y hy => hNh y (by simp [hy])) hb j' hj (by omega) e
      | zero =>
        simp only [List.getElem?_cons_zero, Option.some.injEq] at e
        subst e
        have hge := cursorAt_ge breaks rest (skipBreaks breaks x.startTime (breaks.length + 1) cur false).1 k
        have hstop := skipBreaks_stops breaks x.startTime (breaks.length + 1) cur false (by omega)
        obtain ⟨hclen, hbc⟩ := List.getElem?_eq_some_iff.mp hb
        by_cases heq : (skipBreaks breaks x.startTime (breaks.length + 1) cur false).1 = cursorAt breaks rest
            (skipBreaks breaks x.startTime (breaks.length + 1) cur false).1 k
        · rw [← heq] at hb; exact hstop b hb
        · have hlt : (skipBreaks breaks x.startTime (breaks.length + 1) cur false).1 < cursorAt breaks rest
              (skipBreaks breaks x.startTime (breaks.length + 1) cur false).1 k := by omega
          have hc' : (skipBreaks breaks x.startTime (breaks.length + 1) cur false).1 < breaks.length := by omega
          have hst := hstop _ (List.getElem?_eq_getElem hc')
          have hpw := (List.pairwise_iff_getElem.mp hsorted) _ _ hc' hclen hlt
          rw [hbc] at hpw
          cases hx : lt b.endTime x.startTime with
          | false => rfl
          | true =>
            have := hle_lt _ _ _ (hNb _ (List.getElem_mem hc')) (hNb _ (hbc ▸ List.getElem_mem hclen))
              (hNh x (by simp)) hpw hx
            rw [this] at hst; cases hst

/-- the full clause (any order of the breaks). -/
def only_first_after_break_forced_statement (F P : Type) [Scalar F] [Scalar P] : Prop :=
  ∀ (breaks : List (BreakPeriod F)) (hs : List (HitObject F P)) (i : Nat) (h h' : HitObject F P),
    hs[i]? = some h → (postProcessBreaks breaks hs 0)[i]? = some h' → kindNewCombo h'.kind ≠ kindNewCombo h.kind →
    kindNewCombo h.kind = false ∧ kindNewCombo h'.kind = true ∧
      ∃ b ∈ breaks, lt b.endTime h.startTime = true ∧
        ∀ j hj, j < i → hs[j]? = some hj → lt b.endTime hj.startTime = false

/-- **only_first_after_break_forced** — a flag that `post_process_breaks` changed was `false`, is `true`, and its object is
the FIRST one (in list order) that starts after some break `b`; for breaks in end-time order (as in
`first_after_break_new_combo`; without it see `changed_flag_cursor`, which is unconditional). -/
theorem only_first_after_break_forced_partial (N : F → Prop)
    (hle_lt : ∀ x y z : F, N x → N y → N z → lt y x = false → lt y z = true → lt x z = true)
    (breaks : List (BreakPeriod F)) (hs : List (HitObject F P))
    (hNb : ∀ b ∈ breaks, N b.endTime) (hNh : ∀ x ∈ hs, N x.startTime)
    (hsorted : breaks.Pairwise (fun b₁ b₂ => lt b₂.endTime b₁.endTime = false))
    (i : Nat) (h h' : HitObject F P) (hi : hs[i]? = some h) (hi' : (postProcessBreaks breaks hs 0)[i]? = some h')
    (hne : kindNewCombo h'.kind ≠ kindNewCombo h.kind) :
    kindNewCombo h.kind = false ∧ kindNewCombo h'.kind = true ∧ isHold h.kind = false ∧
      ∃ b ∈ breaks, lt b.endTime h.startTime = true ∧
        ∀ j hj, j < i → hs[j]? = some hj → lt b.endTime hj.startTime = false := by
  obtain ⟨a1, a2, a3, b, hb, hlt⟩ := changed_flag_cursor breaks hs 0 i h h' hi hi' hne
  exact ⟨a1, a2, a3, b, List.mem_of_getElem? hb, hlt,
    cursor_break_first N hle_lt breaks hNb hsorted hs 0 i b hNh hb⟩

/-! ### kernel-evaluated examples on the toy integers `Z` -/

-- break (1000,2000); circle 500, hold 2500, circle 3000: nothing changes — the hold consumed the force
example : postProcessBreaks [zBreak 1000 2000] [zCircle 500, zHold 2500, zCircle 3000] 0
    = [zCircle 500, zHold 2500, zCircle 3000] := rfl
example : (postProcessBreaks [zBreak 1000 2000] [zCircle 500, zHold 2500, zCircle 3000] 0).map
    (fun h => kindNewCombo h.kind) = [false, false, false] := by decide
example : (List.range 3).map (forcedAt [zBreak 1000 2000] [zCircle 500, zHold 2500, zCircle 3000] 0)
    = [false, true, false] := by decide
example : (List.range 3).map (cursorAt [zBreak 1000 2000] [zCircle 500, zHold 2500, zCircle 3000] 0)
    = [0, 0, 1] := by decide
-- the hypotheses of `forced_consumed_by_hold` are satisfiable
example : postProcessBreaks [zBreak 1000 2000] [zHold 2500, zCircle 3000] 0 = [zHold 2500, zCircle 3000] :=
  forced_consumed_by_hold _ _ _ rfl rfl
-- … and those of `only_first_after_break_forced_partial`: circle 2500 after the break gets forced (flag changes)
example : kindNewCombo (zCircle 2500).kind = false ∧ kindNewCombo ({ zCircle 2500 with kind := (zCircle 2500).kind.orNewCombo true } : HitObject Z Z).kind = true ∧
    isHold (zCircle 2500).kind = false ∧
    ∃ b ∈ [zBreak 1000 2000], lt b.endTime (zCircle 2500).startTime = true ∧
      ∀ j hj, j < 1 → [zCircle 500, zCircle 2500, zCircle 3000][j]? = some hj → lt b.endTime hj.startTime = false :=
  only_first_after_break_forced_partial (fun _ => True) z_le_lt [zBreak 1000 2000] [zCircle 500, zCircle 2500, zCircle 3000]
    (fun _ _ => trivial) (fun _ _ => trivial) (by simp) 1 (zCircle 2500) _ rfl rfl (by decide)

/- Remark: `hsorted` is not needed: Props/C15ComboOnlyAny.lean proves the clause for ANY listing of the breaks from one
NaN-free order law (`ChainLaw`), which IEEE `<` satisfies on all values — `only_first_after_break_forced_float` is
`only_first_after_break_forced_statement Float Float32`, unconditional. -/

#print axioms postProcessBreaks_flags
#print axioms forced_consumed_by_hold
#print axioms changed_flag_cursor
#print axioms only_first_after_break_forced_partial

end Rosu.C15
