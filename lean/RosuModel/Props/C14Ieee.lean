/-
  Props/C14Ieee.lean — the three order facts `max_zero_nonneg` (Props/C14.lean) takes as hypotheses (`hirr`, `hasym`,
  `hnan`: a comparison with a NaN on the left is false) hold of IEEE `<` for the driver's `Float` / `Float32`
  (Lemmas/FloatModelOrder.lean): a spinner's / slider's `max(x, 0)` is never below zero, and is never NaN.
-/
import RosuModel.Props.C14
import RosuModel.Lemmas.FloatModelCompare
namespace Rosu.C14
open Rosu

theorem max_zero_nonneg_ieee {α : Type} [Scalar α] [FMO.IeeeOrd α] (x : α) :
    Scalar.lt (Scalar.max x 0) (0 : α) = false :=
  max_zero_nonneg x FMO.lt_irrefl FMO.lt_asymm FMO.lt_nan_left

/-- `max x 0` is never below 0, for IEEE doubles (spinner duration `max (end − start) 0`, slider length `max l 0`). -/
theorem max_zero_nonneg_float (x : Float) : Scalar.lt (Scalar.max x 0) (0 : Float) = false := max_zero_nonneg_ieee x
theorem max_zero_nonneg_float32 (x : Float32) : Scalar.lt (Scalar.max x 0) (0 : Float32) = false := max_zero_nonneg_ieee x

/-- … and in the ordinary sense: `0 <= max x 0`, and `max x 0` is a number even for a NaN `x` (IEEE maxNum). -/
theorem max_zero_ge_float (x : Float) :
    Scalar.le (0 : Float) (Scalar.max x 0) = true ∧ Scalar.isNaN (Scalar.max x 0) = false :=
  ⟨FMO.le_max_right x 0 (by decide +kernel), FMO.max_not_nan_right x 0 (by decide +kernel)⟩

theorem max_zero_ge_float32 (x : Float32) :
    Scalar.le (0 : Float32) (Scalar.max x 0) = true ∧ Scalar.isNaN (Scalar.max x 0) = false :=
  ⟨FMO.le_max_right x 0 (by decide +kernel), FMO.max_not_nan_right x 0 (by decide +kernel)⟩

end Rosu.C14
