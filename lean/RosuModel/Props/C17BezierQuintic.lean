/-
  Props/C17BezierQuintic.lean — C17, Bezier segments of SIX control points (quintic; exact arithmetic, DESIGN.md 5.17).

  For a flat quintic piece `[a, b, c, d, e, f]` the merged subdivided polygon has 11 points `l₀ … l₅ = r₀ … r₅` and
  `bezier_approximate` pushes `a` and four smoothed vertices (`flatPiece_quintic`)
      w₁ = ¼(l₁ + 2l₂ + l₃) = (9a + 15b + 7c + d)/32                       (the cubic's `w₁` of `a b c d`),
      w₂ = ¼(l₃ + 2l₄ + l₅) = (9a + 33b + 46c + 30d + 9e + f)/128,
      w₃ = ¼(r₀ + 2r₁ + r₂) = (a + 9b + 30c + 46d + 33e + 9f)/128,
      w₄ = ¼(r₂ + 2r₃ + r₄) = (c + 7d + 15e + 9f)/32                       (the cubic's `w₂` of `c d e f`).
  With the second differences `Δ₁ … Δ₄` the only parameters with linear precision are `sᵢ = i/5`, and
      w₁ − B(1/5) = −(4643Δ₁ + 3371Δ₂ +  704Δ₃ +  32Δ₄)/100000      (Σ|α| = 7/80),
      w₂ − B(2/5) = −(2979Δ₁ + 6513Δ₂ + 4537Δ₃ + 971Δ₄)/400000      (Σ|α| = 3/80),
  and symmetrically for `w₃`, `w₄`. `bezier_is_flat_enough` gives `|Δⱼ|² ≤ 1/4 = (2·tol)²`, hence (`comb4_sq_le`)
      |wᵢ − B(sᵢ)|² ≤ (7/80)²·(1/4) = 49/25600 = (7·tol/40)²                 (`flat_piece_quintic_within`),
  i.e. `K = 2·Σ|αⱼ| = 7/40 ≤ 1`. Through `bezier_reduction`: `bezier_within_tolerance_quintic` — the tolerance statement
  for control polygons of at most SIX points, for every `tol` with `tol² ≥ 49/25600`, in particular `0.25`.
-/
import RosuModel.Props.C17BezierQuartic
set_option linter.unusedSectionVars false
namespace Rosu.C17
open Rosu Rosu.Curve Rosu.Bez

/-! ### 1. what `bezier_approximate` pushes for a quintic -/

section Structural
variable {P : Type} [Scalar P]

/-- `l₅ = r₀`, the split point of the quintic (de Casteljau apex at `1/2`). -/
def quinticApex (a b c d e f : Pos P) : Pos P := midP (quarticApex a b c d e) (quarticApex b c d e f)

/-- second smoothed vertex: `0.25·(l₃ + 2 l₄ + l₅)`. -/
def quinticW2 (a b c d e f : Pos P) : Pos P :=
  (cubicApex a b c d + (quarticApex a b c d e).smul (2 : P) + quinticApex a b c d e f).smul (0.25 : P)

/-- third smoothed vertex: `0.25·(r₀ + 2 r₁ + r₂)`. -/
def quinticW3 (a b c d e f : Pos P) : Pos P :=
  (quinticApex a b c d e f + (quarticApex b c d e f).smul (2 : P) + cubicApex c d e f).smul (0.25 : P)

/-- **a quintic piece pushes exactly five vertices** (every arithmetic): `a`, then the smoothing rule on the triples
`(l₁, l₂, l₃)`, `(l₃, l₄, l₅)`, `(r₀, r₁, r₂)`, `(r₂, r₃, r₄)` of the 11-point merged polygon. The outer two are the cubic
vertices of `a b c d` and of `c d e f`. -/
theorem flatPiece_quintic (a b c d e f : Pos P) :
    flatPiece [a, b, c, d, e, f]
      = [a, cubicW1 a b c d, quinticW2 a b c d e f, quinticW3 a b c d e f, cubicW2 c d e f] := rfl

end Structural

/-! ### 2. exact arithmetic -/

section Exact
variable {P K : Type} [Scalar P] [Field K] [LinearOrder K] [IsStrictOrderedRing K] {φ : P → K}

theorem phi_five (E : ExactScalar φ) : φ (5 : P) = 5 := by rw [E.lit]; norm_num

theorem phi_one_fifth (E : ExactScalar φ) : φ ((1 : P) / (5 : P)) = 1 / 5 := by rw [E.div, E.one, phi_five E]
theorem phi_two_fifths (E : ExactScalar φ) : φ ((2 : P) / (5 : P)) = 2 / 5 := by rw [E.div, E.two, phi_five E]
theorem phi_three_fifths (E : ExactScalar φ) : φ ((3 : P) / (5 : P)) = 3 / 5 := by rw [E.div, phi_three E, phi_five E]
theorem phi_four_fifths (E : ExactScalar φ) : φ ((4 : P) / (5 : P)) = 4 / 5 := by rw [E.div, phi_four E, phi_five E]

/-- `w₂ = (9a + 33b + 46c + 30d + 9e + f)/128`. -/
theorem quinticW2_x (E : ExactScalar φ) (a b c d e f : Pos P) :
    φ (quinticW2 a b c d e f).x
      = (9 * φ a.x + 33 * φ b.x + 46 * φ c.x + 30 * φ d.x + 9 * φ e.x + φ f.x) / 128 := by
  simp only [quinticW2, quinticApex, quarticApex, cubicApex, Pos.smul_x, Pos.add_x, E.mul, E.add, E.two,
    phi_quarter E, midP_x E, lerp]; ring

theorem quinticW2_y (E : ExactScalar φ) (a b c d e f : Pos P) :
    φ (quinticW2 a b c d e f).y
      = (9 * φ a.y + 33 * φ b.y + 46 * φ c.y + 30 * φ d.y + 9 * φ e.y + φ f.y) / 128 := by
  simp only [quinticW2, quinticApex, quarticApex, cubicApex, Pos.smul_y, Pos.add_y, E.mul, E.add, E.two,
    phi_quarter E, midP_y E, lerp]; ring

/-- `w₃ = (a + 9b + 30c + 46d + 33e + 9f)/128`. -/
theorem quinticW3_x (E : ExactScalar φ) (a b c d e f : Pos P) :
    φ (quinticW3 a b c d e f).x
      = (φ a.x + 9 * φ b.x + 30 * φ c.x + 46 * φ d.x + 33 * φ e.x + 9 * φ f.x) / 128 := by
  simp only [quinticW3, quinticApex, quarticApex, cubicApex, Pos.smul_x, Pos.add_x, E.mul, E.add, E.two,
    phi_quarter E, midP_x E, lerp]; ring

theorem quinticW3_y (E : ExactScalar φ) (a b c d e f : Pos P) :
    φ (quinticW3 a b c d e f).y
      = (φ a.y + 9 * φ b.y + 30 * φ c.y + 46 * φ d.y + 33 * φ e.y + 9 * φ f.y) / 128 := by
  simp only [quinticW3, quinticApex, quarticApex, cubicApex, Pos.smul_y, Pos.add_y, E.mul, E.add, E.two,
    phi_quarter E, midP_y E, lerp]; ring

/-- the exact quintic in Bernstein form. -/
theorem bez_quintic (a b c d e f s : K) :
    bez [a, b, c, d, e, f] s = (1 - s) ^ 5 * a + 5 * (1 - s) ^ 4 * s * b + 10 * (1 - s) ^ 3 * s ^ 2 * c
      + 10 * (1 - s) ^ 2 * s ^ 3 * d + 5 * (1 - s) * s ^ 4 * e + s ^ 5 * f := by
  simp only [bez, List.length, evalBez, dcStep, stepWith, lerp, List.headD]; ring

/-- **`bezierEval` on a quintic** (exact arithmetic): total, and equal to the Bernstein form coordinate-wise. -/
theorem bezierEval_quintic (E : ExactScalar φ) (s : P) (a b c d e f : Pos P) :
    ∃ q, bezierEval s 6 [a, b, c, d, e, f] = some q ∧
      φ q.x = (1 - φ s) ^ 5 * φ a.x + 5 * (1 - φ s) ^ 4 * φ s * φ b.x + 10 * (1 - φ s) ^ 3 * φ s ^ 2 * φ c.x
        + 10 * (1 - φ s) ^ 2 * φ s ^ 3 * φ d.x + 5 * (1 - φ s) * φ s ^ 4 * φ e.x + φ s ^ 5 * φ f.x ∧
      φ q.y = (1 - φ s) ^ 5 * φ a.y + 5 * (1 - φ s) ^ 4 * φ s * φ b.y + 10 * (1 - φ s) ^ 3 * φ s ^ 2 * φ c.y
        + 10 * (1 - φ s) ^ 2 * φ s ^ 3 * φ d.y + 5 * (1 - φ s) * φ s ^ 4 * φ e.y + φ s ^ 5 * φ f.y := by
  obtain ⟨q, hq, hx, hy⟩ := bezierEval_exact E s [a, b, c, d, e, f] (by simp)
  refine ⟨q, hq, ?_, ?_⟩
  · rw [hx]; exact bez_quintic _ _ _ _ _ _ _
  · rw [hy]; exact bez_quintic _ _ _ _ _ _ _

/-- **vector identity for `w₁`**: `w₁ − B(1/5) = −(4643Δ₁ + 3371Δ₂ + 704Δ₃ + 32Δ₄)/100000`. -/
theorem quinticW1_sub_curve (E : ExactScalar φ) (a b c d e f q : Pos P)
    (hq : bezierEval ((1 : P) / (5 : P)) 6 [a, b, c, d, e, f] = some q) :
    φ (cubicW1 a b c d).x - φ q.x
      = -(4643 / 100000) * (φ a.x - 2 * φ b.x + φ c.x) + -(3371 / 100000) * (φ b.x - 2 * φ c.x + φ d.x) + -(22 / 3125) * (φ c.x - 2 * φ d.x + φ e.x) + -(1 / 3125) * (φ d.x - 2 * φ e.x + φ f.x) ∧
    φ (cubicW1 a b c d).y - φ q.y
      = -(4643 / 100000) * (φ a.y - 2 * φ b.y + φ c.y) + -(3371 / 100000) * (φ b.y - 2 * φ c.y + φ d.y) + -(22 / 3125) * (φ c.y - 2 * φ d.y + φ e.y) + -(1 / 3125) * (φ d.y - 2 * φ e.y + φ f.y) := by
  obtain ⟨q', hq', hx, hy⟩ := bezierEval_quintic E ((1 : P) / (5 : P)) a b c d e f
  rw [hq] at hq'; cases hq'
  rw [phi_one_fifth E] at hx hy
  rw [hx, hy, cubicW1_x E, cubicW1_y E]
  constructor <;> ring

/-- **vector identity for `w₂`**: `w₂ − B(2/5) = −(2979Δ₁ + 6513Δ₂ + 4537Δ₃ + 971Δ₄)/400000`. -/
theorem quinticW2_sub_curve (E : ExactScalar φ) (a b c d e f q : Pos P)
    (hq : bezierEval ((2 : P) / (5 : P)) 6 [a, b, c, d, e, f] = some q) :
    φ (quinticW2 a b c d e f).x - φ q.x
      = -(2979 / 400000) * (φ a.x - 2 * φ b.x + φ c.x) + -(6513 / 400000) * (φ b.x - 2 * φ c.x + φ d.x) + -(4537 / 400000) * (φ c.x - 2 * φ d.x + φ e.x) + -(971 / 400000) * (φ d.x - 2 * φ e.x + φ f.x) ∧
    φ (quinticW2 a b c d e f).y - φ q.y
      = -(2979 / 400000) * (φ a.y - 2 * φ b.y + φ c.y) + -(6513 / 400000) * (φ b.y - 2 * φ c.y + φ d.y) + -(4537 / 400000) * (φ c.y - 2 * φ d.y + φ e.y) + -(971 / 400000) * (φ d.y - 2 * φ e.y + φ f.y) := by
  obtain ⟨q', hq', hx, hy⟩ := bezierEval_quintic E ((2 : P) / (5 : P)) a b c d e f
  rw [hq] at hq'; cases hq'
  rw [phi_two_fifths E] at hx hy
  rw [hx, hy, quinticW2_x E, quinticW2_y E]
  constructor <;> ring

/-- **vector identity for `w₃`**: `w₃ − B(3/5) = −(971Δ₁ + 4537Δ₂ + 6513Δ₃ + 2979Δ₄)/400000`. -/
theorem quinticW3_sub_curve (E : ExactScalar φ) (a b c d e f q : Pos P)
    (hq : bezierEval ((3 : P) / (5 : P)) 6 [a, b, c, d, e, f] = some q) :
    φ (quinticW3 a b c d e f).x - φ q.x
      = -(971 / 400000) * (φ a.x - 2 * φ b.x + φ c.x) + -(4537 / 400000) * (φ b.x - 2 * φ c.x + φ d.x) + -(6513 / 400000) * (φ c.x - 2 * φ d.x + φ e.x) + -(2979 / 400000) * (φ d.x - 2 * φ e.x + φ f.x) ∧
    φ (quinticW3 a b c d e f).y - φ q.y
      = -(971 / 400000) * (φ a.y - 2 * φ b.y + φ c.y) + -(4537 / 400000) * (φ b.y - 2 * φ c.y + φ d.y) + -(6513 / 400000) * (φ c.y - 2 * φ d.y + φ e.y) + -(2979 / 400000) * (φ d.y - 2 * φ e.y + φ f.y) := by
  obtain ⟨q', hq', hx, hy⟩ := bezierEval_quintic E ((3 : P) / (5 : P)) a b c d e f
  rw [hq] at hq'; cases hq'
  rw [phi_three_fifths E] at hx hy
  rw [hx, hy, quinticW3_x E, quinticW3_y E]
  constructor <;> ring

/-- **vector identity for `w₄`**: `w₄ − B(4/5) = −(32Δ₁ + 704Δ₂ + 3371Δ₃ + 4643Δ₄)/100000`. -/
theorem quinticW4_sub_curve (E : ExactScalar φ) (a b c d e f q : Pos P)
    (hq : bezierEval ((4 : P) / (5 : P)) 6 [a, b, c, d, e, f] = some q) :
    φ (cubicW2 c d e f).x - φ q.x
      = -(1 / 3125) * (φ a.x - 2 * φ b.x + φ c.x) + -(22 / 3125) * (φ b.x - 2 * φ c.x + φ d.x) + -(3371 / 100000) * (φ c.x - 2 * φ d.x + φ e.x) + -(4643 / 100000) * (φ d.x - 2 * φ e.x + φ f.x) ∧
    φ (cubicW2 c d e f).y - φ q.y
      = -(1 / 3125) * (φ a.y - 2 * φ b.y + φ c.y) + -(22 / 3125) * (φ b.y - 2 * φ c.y + φ d.y) + -(3371 / 100000) * (φ c.y - 2 * φ d.y + φ e.y) + -(4643 / 100000) * (φ d.y - 2 * φ e.y + φ f.y) := by
  obtain ⟨q', hq', hx, hy⟩ := bezierEval_quintic E ((4 : P) / (5 : P)) a b c d e f
  rw [hq] at hq'; cases hq'
  rw [phi_four_fifths E] at hx hy
  rw [hx, hy, cubicW2_x E, cubicW2_y E]
  constructor <;> ring

/-! ### 3. the distance bound -/

theorem abs_neg_pos {a : K} (h : 0 < a) : |(-a)| = a := by rw [abs_neg, abs_of_pos h]

/-- squared-norm triangle inequality for a combination of FOUR plane vectors:
`|αu + βv + γw + δz|² ≤ (|α| + |β| + |γ| + |δ|)²·M` whenever `|u|², |v|², |w|², |z|² ≤ M`. -/
theorem comb4_sq_le (α β γ δ x₁ y₁ x₂ y₂ x₃ y₃ x₄ y₄ M : K) (h₁ : x₁ * x₁ + y₁ * y₁ ≤ M)
    (h₂ : x₂ * x₂ + y₂ * y₂ ≤ M) (h₃ : x₃ * x₃ + y₃ * y₃ ≤ M) (h₄ : x₄ * x₄ + y₄ * y₄ ≤ M) :
    (α * x₁ + β * x₂ + γ * x₃ + δ * x₄) * (α * x₁ + β * x₂ + γ * x₃ + δ * x₄)
        + (α * y₁ + β * y₂ + γ * y₃ + δ * y₄) * (α * y₁ + β * y₂ + γ * y₃ + δ * y₄)
      ≤ (|α| + |β| + |γ| + |δ|) * (|α| + |β| + |γ| + |δ|) * M := by
  have c₁₂ := cross_le α β x₁ y₁ x₂ y₂ M h₁ h₂
  have c₁₃ := cross_le α γ x₁ y₁ x₃ y₃ M h₁ h₃
  have c₁₄ := cross_le α δ x₁ y₁ x₄ y₄ M h₁ h₄
  have c₂₃ := cross_le β γ x₂ y₂ x₃ y₃ M h₂ h₃
  have c₂₄ := cross_le β δ x₂ y₂ x₄ y₄ M h₂ h₄
  have c₃₄ := cross_le γ δ x₃ y₃ x₄ y₄ M h₃ h₄
  have k₁ := mul_le_mul_of_nonneg_left h₁ (mul_self_nonneg α)
  have k₂ := mul_le_mul_of_nonneg_left h₂ (mul_self_nonneg β)
  have k₃ := mul_le_mul_of_nonneg_left h₃ (mul_self_nonneg γ)
  have k₄ := mul_le_mul_of_nonneg_left h₄ (mul_self_nonneg δ)
  have e₁ := abs_mul_abs_self α
  have e₂ := abs_mul_abs_self β
  have e₃ := abs_mul_abs_self γ
  have e₄ := abs_mul_abs_self δ
  have e : (α * x₁ + β * x₂ + γ * x₃ + δ * x₄) * (α * x₁ + β * x₂ + γ * x₃ + δ * x₄)
        + (α * y₁ + β * y₂ + γ * y₃ + δ * y₄) * (α * y₁ + β * y₂ + γ * y₃ + δ * y₄)
      = α * α * (x₁ * x₁ + y₁ * y₁) + β * β * (x₂ * x₂ + y₂ * y₂) + γ * γ * (x₃ * x₃ + y₃ * y₃)
        + δ * δ * (x₄ * x₄ + y₄ * y₄)
        + α * β * (2 * (x₁ * x₂ + y₁ * y₂)) + α * γ * (2 * (x₁ * x₃ + y₁ * y₃)) + α * δ * (2 * (x₁ * x₄ + y₁ * y₄))
        + β * γ * (2 * (x₂ * x₃ + y₂ * y₃)) + β * δ * (2 * (x₂ * x₄ + y₂ * y₄))
        + γ * δ * (2 * (x₃ * x₄ + y₃ * y₄)) := by ring
  have e' : (|α| + |β| + |γ| + |δ|) * (|α| + |β| + |γ| + |δ|) * M
      = |α| * |α| * M + |β| * |β| * M + |γ| * |γ| * M + |δ| * |δ| * M
        + |α| * |β| * (M + M) + |α| * |γ| * (M + M) + |α| * |δ| * (M + M)
        + |β| * |γ| * (M + M) + |β| * |δ| * (M + M) + |γ| * |δ| * (M + M) := by ring
  rw [e, e', e₁, e₂, e₃, e₄]
  linarith

/-- **what `bezier_is_flat_enough` says of a quintic** (exact arithmetic): the four second differences have squared
length at most `1/4 = (2·BEZIER_TOLERANCE)²`. -/
theorem flat_quintic_second_differences (E : ExactScalar φ) (a b c d e f : Pos P)
    (h : bezierIsFlatEnough [a, b, c, d, e, f] = true) :
    (φ a.x - 2 * φ b.x + φ c.x) * (φ a.x - 2 * φ b.x + φ c.x)
        + (φ a.y - 2 * φ b.y + φ c.y) * (φ a.y - 2 * φ b.y + φ c.y) ≤ 1 / 4 ∧
    (φ b.x - 2 * φ c.x + φ d.x) * (φ b.x - 2 * φ c.x + φ d.x)
        + (φ b.y - 2 * φ c.y + φ d.y) * (φ b.y - 2 * φ c.y + φ d.y) ≤ 1 / 4 ∧
    (φ c.x - 2 * φ d.x + φ e.x) * (φ c.x - 2 * φ d.x + φ e.x)
        + (φ c.y - 2 * φ d.y + φ e.y) * (φ c.y - 2 * φ d.y + φ e.y) ≤ 1 / 4 ∧
    (φ d.x - 2 * φ e.x + φ f.x) * (φ d.x - 2 * φ e.x + φ f.x)
        + (φ d.y - 2 * φ e.y + φ f.y) * (φ d.y - 2 * φ e.y + φ f.y) ≤ 1 / 4 := by
  obtain ⟨f1, h⟩ := flat_cons _ _ _ _ h
  obtain ⟨f2, h⟩ := flat_cons _ _ _ _ h
  obtain ⟨f3, h⟩ := flat_cons _ _ _ _ h
  exact ⟨flat_triple_second_difference E _ _ _ f1, flat_triple_second_difference E _ _ _ f2,
    flat_triple_second_difference E _ _ _ f3, flat_triple_second_difference E _ _ _ h⟩

/-- **the quintic estimate, sharpest form** (exact arithmetic): every vertex `bezier_approximate` pushes for a quintic
that passes `bezier_is_flat_enough` has a point `q = B(s)`, `s ∈ {0, 1/5, 2/5, 3/5, 4/5}`, of the piece's own curve with
`|v − q|² ≤ 49/25600 = (7·BEZIER_TOLERANCE / 40)²`. The constant is `K = 2·Σ|αⱼ| = 2·8750/100000 = 7/40` (outer
vertices; the inner two have `2·15000/400000 = 3/40`). -/
theorem flat_piece_quintic_within (E : ExactScalar φ) (a b c d e f : Pos P)
    (hflat : bezierIsFlatEnough [a, b, c, d, e, f] = true) : ∀ v ∈ flatPiece [a, b, c, d, e, f],
    ∃ s q, Scalar.le (0 : P) s = true ∧ Scalar.le s (1 : P) = true ∧ bezierEval s 6 [a, b, c, d, e, f] = some q ∧
      φ (Pos.lengthSquared (v - q)) ≤ 49 / 25600 := by
  obtain ⟨hd1, hd2, hd3, hd4⟩ := flat_quintic_second_differences E a b c d e f hflat
  have hK1 : (|(-(4643 / 100000) : K)| + |(-(3371 / 100000) : K)| + |(-(22 / 3125) : K)| + |(-(1 / 3125) : K)|)
      * (|(-(4643 / 100000) : K)| + |(-(3371 / 100000) : K)| + |(-(22 / 3125) : K)| + |(-(1 / 3125) : K)|) * (1 / 4) = 49 / 25600 := by
    rw [abs_neg_pos (by norm_num : (0 : K) < 4643 / 100000), abs_neg_pos (by norm_num : (0 : K) < 3371 / 100000), abs_neg_pos (by norm_num : (0 : K) < 22 / 3125), abs_neg_pos (by norm_num : (0 : K) < 1 / 3125)]
    norm_num
  have hK2 : (|(-(2979 / 400000) : K)| + |(-(6513 / 400000) : K)| + |(-(4537 / 400000) : K)| + |(-(971 / 400000) : K)|)
      * (|(-(2979 / 400000) : K)| + |(-(6513 / 400000) : K)| + |(-(4537 / 400000) : K)| + |(-(971 / 400000) : K)|) * (1 / 4) = 9 / 25600 := by
    rw [abs_neg_pos (by norm_num : (0 : K) < 2979 / 400000), abs_neg_pos (by norm_num : (0 : K) < 6513 / 400000), abs_neg_pos (by norm_num : (0 : K) < 4537 / 400000), abs_neg_pos (by norm_num : (0 : K) < 971 / 400000)]
    norm_num
  have hK3 : (|(-(971 / 400000) : K)| + |(-(4537 / 400000) : K)| + |(-(6513 / 400000) : K)| + |(-(2979 / 400000) : K)|)
      * (|(-(971 / 400000) : K)| + |(-(4537 / 400000) : K)| + |(-(6513 / 400000) : K)| + |(-(2979 / 400000) : K)|) * (1 / 4) = 9 / 25600 := by
    rw [abs_neg_pos (by norm_num : (0 : K) < 971 / 400000), abs_neg_pos (by norm_num : (0 : K) < 4537 / 400000), abs_neg_pos (by norm_num : (0 : K) < 6513 / 400000), abs_neg_pos (by norm_num : (0 : K) < 2979 / 400000)]
    norm_num
  have hK4 : (|(-(1 / 3125) : K)| + |(-(22 / 3125) : K)| + |(-(3371 / 100000) : K)| + |(-(4643 / 100000) : K)|)
      * (|(-(1 / 3125) : K)| + |(-(22 / 3125) : K)| + |(-(3371 / 100000) : K)| + |(-(4643 / 100000) : K)|) * (1 / 4) = 49 / 25600 := by
    rw [abs_neg_pos (by norm_num : (0 : K) < 1 / 3125), abs_neg_pos (by norm_num : (0 : K) < 22 / 3125), abs_neg_pos (by norm_num : (0 : K) < 3371 / 100000), abs_neg_pos (by norm_num : (0 : K) < 4643 / 100000)]
    norm_num
  intro v hv
  rw [flatPiece_quintic] at hv
  simp only [List.mem_cons, List.not_mem_nil, or_false] at hv
  rcases hv with e0 | e0 | e0 | e0 | e0
  · subst e0
    refine ⟨0, v, ?_, ?_, flatPiece_head_exact E v [b, c, d, e, f], ?_⟩
    · rw [E.le_iff]
    · rw [E.le_iff, E.zero, E.one]; exact zero_le_one
    · rw [phi_lengthSquared_sub E]; simp only [sub_self, mul_zero, add_zero]; norm_num
  · subst e0
    obtain ⟨q, hq, _, _⟩ := bezierEval_quintic E ((1 : P) / (5 : P)) a b c d e f
    obtain ⟨ex, ey⟩ := quinticW1_sub_curve E a b c d e f q hq
    refine ⟨(1 : P) / (5 : P), q, ?_, ?_, hq, ?_⟩
    · rw [E.le_iff, E.zero, phi_one_fifth E]; norm_num
    · rw [E.le_iff, E.one, phi_one_fifth E]; norm_num
    · rw [phi_lengthSquared_sub E, ex, ey, ← hK1]
      exact comb4_sq_le _ _ _ _ _ _ _ _ _ _ _ _ _ hd1 hd2 hd3 hd4
  · subst e0
    obtain ⟨q, hq, _, _⟩ := bezierEval_quintic E ((2 : P) / (5 : P)) a b c d e f
    obtain ⟨ex, ey⟩ := quinticW2_sub_curve E a b c d e f q hq
    refine ⟨(2 : P) / (5 : P), q, ?_, ?_, hq, ?_⟩
    · rw [E.le_iff, E.zero, phi_two_fifths E]; norm_num
    · rw [E.le_iff, E.one, phi_two_fifths E]; norm_num
    · rw [phi_lengthSquared_sub E, ex, ey]
      refine le_trans (comb4_sq_le _ _ _ _ _ _ _ _ _ _ _ _ _ hd1 hd2 hd3 hd4) ?_
      rw [hK2]; norm_num
  · subst e0
    obtain ⟨q, hq, _, _⟩ := bezierEval_quintic E ((3 : P) / (5 : P)) a b c d e f
    obtain ⟨ex, ey⟩ := quinticW3_sub_curve E a b c d e f q hq
    refine ⟨(3 : P) / (5 : P), q, ?_, ?_, hq, ?_⟩
    · rw [E.le_iff, E.zero, phi_three_fifths E]; norm_num
    · rw [E.le_iff, E.one, phi_three_fifths E]; norm_num
    · rw [phi_lengthSquared_sub E, ex, ey]
      refine le_trans (comb4_sq_le _ _ _ _ _ _ _ _ _ _ _ _ _ hd1 hd2 hd3 hd4) ?_
      rw [hK3]; norm_num
  · subst e0
    obtain ⟨q, hq, _, _⟩ := bezierEval_quintic E ((4 : P) / (5 : P)) a b c d e f
    obtain ⟨ex, ey⟩ := quinticW4_sub_curve E a b c d e f q hq
    refine ⟨(4 : P) / (5 : P), q, ?_, ?_, hq, ?_⟩
    · rw [E.le_iff, E.zero, phi_four_fifths E]; norm_num
    · rw [E.le_iff, E.one, phi_four_fifths E]; norm_num
    · rw [phi_lengthSquared_sub E, ex, ey, ← hK4]
      exact comb4_sq_le _ _ _ _ _ _ _ _ _ _ _ _ _ hd1 hd2 hd3 hd4

/-- **`flat_piece_within_tolerance_statement` holds for polygons of at most six points** (exact arithmetic), for every
tolerance with `tol² ≥ 49/25600` (`|tol| ≥ 7/160`), in particular `tol = BEZIER_TOLERANCE = 0.25`. -/
theorem flat_piece_within_tolerance_quintic (E : ExactScalar φ) (tol : P) (htol : 49 / 25600 ≤ φ tol * φ tol) :
    flat_piece_within_tolerance_upto P 6 tol := by
  intro Q hQ hne hflat w hw
  by_cases h5 : Q.length ≤ 5
  · exact flat_piece_within_tolerance_quartic E tol (le_trans (by norm_num) htol) Q h5 hne hflat w hw
  · match Q, hQ, h5 with
    | [a, b, c, d, e, f], _, _ =>
      obtain ⟨s, q, hs0, hs1, hq, hd⟩ := flat_piece_quintic_within E a b c d e f hflat w hw
      exact ⟨s, q, hs0, hs1, hq, by rw [E.le_iff, E.mul]; exact le_trans hd htol⟩
    | [], _, h5 => simp at h5
    | [_], _, h5 => simp at h5
    | [_, _], _, h5 => simp at h5
    | [_, _, _], _, h5 => simp at h5
    | [_, _, _, _], _, h5 => simp at h5
    | [_, _, _, _, _], _, h5 => simp at h5
    | _ :: _ :: _ :: _ :: _ :: _ :: _ :: _, hQ, _ => simp only [List.length_cons] at hQ; omega

/-- the Rust constant `BEZIER_TOLERANCE = 0.25` is an admissible tolerance for quintics. -/
theorem quarter_admissible_quintic (E : ExactScalar φ) : (49 : K) / 25600 ≤ φ (0.25 : P) * φ (0.25 : P) := by
  rw [phi_quarter E]; norm_num

/-! ### 4. the whole segment -/

/-- **C17 for Bezier segments of at most six control points, sharpest form** (exact arithmetic): every vertex
`approximate_bezier` pushes has a point `q = B(t)`, `0 ≤ t ≤ 1`, of the EXACT curve of the segment with
`|v − q|² ≤ 49/25600 = (7·0.25/40)²` — any fuel on which the flattening succeeds, any scratch contents. -/
theorem bezier_quintic_within (E : ExactScalar φ) (fuel : Nat) (pts out : List (Pos P)) (b b' : BezierBuffers P)
    (h6 : pts.length ≤ 6) (hap : approximateBezier fuel pts b = .ok (out, b')) :
    ∀ v ∈ out, ∃ t q, Scalar.le (0 : P) t = true ∧ Scalar.le t (1 : P) = true ∧
      bezierEval t pts.length pts = some q ∧ φ (Pos.lengthSquared (v - q)) ≤ 49 / 25600 := by
  refine bezier_reduction E (fun v q => φ (Pos.lengthSquared (v - q)) ≤ 49 / 25600) (fun v => ?_) pts.length
    (fun Q hQ hne hflat w hw => ?_) fuel pts out b b' rfl hap
  · rw [phi_lengthSquared_sub E]; simp only [sub_self, mul_zero, add_zero]; norm_num
  · have h160 : φ ((7 : P) / (160 : P)) * φ ((7 : P) / (160 : P)) = 49 / 25600 := by
      rw [E.div, E.lit, E.lit]; norm_num
    obtain ⟨s, q, hs0, hs1, hq, hd⟩ :=
      flat_piece_within_tolerance_quintic E ((7 : P) / (160 : P)) (le_of_eq h160.symm) Q (by omega) hne hflat w hw
    rw [E.le_iff, E.mul, h160] at hd
    exact ⟨s, q, hs0, hs1, hq, hd⟩

/-- **`bezier_within_tolerance_statement` holds for control polygons of at most six points** (exact arithmetic), for
every tolerance with `tol² ≥ 49/25600`, in particular `tol = BEZIER_TOLERANCE = 0.25`
(`bezier_within_tolerance_quarter_quintic`); the actual distance is at most `7·0.25/40`. -/
theorem bezier_within_tolerance_quintic (E : ExactScalar φ) (tol : P) (htol : 49 / 25600 ≤ φ tol * φ tol) :
    bezier_within_tolerance_upto P 6 tol := by
  intro fuel pts out b b' h6 hap v hv
  obtain ⟨t, q, h0, h1, hq, hd⟩ := bezier_quintic_within E fuel pts out b b' h6 hap v hv
  exact ⟨t, q, h0, h1, hq, by rw [E.le_iff, E.mul]; exact le_trans hd htol⟩

theorem bezier_within_tolerance_quarter_quintic (E : ExactScalar φ) : bezier_within_tolerance_upto P 6 (0.25 : P) :=
  bezier_within_tolerance_quintic E _ (quarter_admissible_quintic E)

end Exact

/-! ### non-vacuity: the rational instance (`exactScalar_rat`), evaluated by the kernel -/

section NonVacuity
open Rosu.ToyRat

/-- a quintic that passes `bezier_is_flat_enough` (all second differences `(0, −1/16)`), and one that does not. -/
def flatQuintic : List (Pos Rat) :=
  [⟨0, 0⟩, ⟨1 / 5, 1 / 8⟩, ⟨2 / 5, 3 / 16⟩, ⟨3 / 5, 3 / 16⟩, ⟨4 / 5, 1 / 8⟩, ⟨1, 0⟩]
def bentQuintic : List (Pos Rat) := [⟨0, 0⟩, ⟨1, 1⟩, ⟨2, 0⟩, ⟨3, 1⟩, ⟨4, 0⟩, ⟨5, 1⟩]

example : bezierIsFlatEnough flatQuintic = true ∧ bezierIsFlatEnough bentQuintic = false := by decide +kernel

/-- the five vertices pushed for the flat quintic, the curve at `1/5`, `2/5`; squared offsets
`(27/256 − 1/10)² = 49/1638400` and `(39/256 − 3/20)² = 9/1638400`, both `≤ 49/25600`. -/
example : flatPiece flatQuintic
    = [⟨0, 0⟩, ⟨1 / 5, 27 / 256⟩, ⟨2 / 5, 39 / 256⟩, ⟨3 / 5, 39 / 256⟩, ⟨4 / 5, 27 / 256⟩] := by decide +kernel
example : bezierEval (1 / 5 : Rat) 6 flatQuintic = some ⟨1 / 5, 1 / 10⟩ := by decide +kernel
example : bezierEval (2 / 5 : Rat) 6 flatQuintic = some ⟨2 / 5, 3 / 20⟩ := by decide +kernel

/-- the hypothesis of `flat_piece_quintic_within` is satisfiable, and the conclusion is not trivial (`v ≠ q`). -/
example : ∀ v ∈ flatPiece flatQuintic, ∃ s q, Scalar.le (0 : Rat) s = true ∧ Scalar.le s (1 : Rat) = true ∧
    bezierEval s 6 flatQuintic = some q ∧ Pos.lengthSquared (v - q) ≤ 49 / 25600 :=
  flat_piece_quintic_within exactScalar_rat _ _ _ _ _ _ (by decide +kernel)

/-- the bound is attained up to the choice of the curve point: parallel second differences of length `1/2` put `w₁` at
distance exactly `7/160` from `B(1/5)`. -/
def extremalQuintic : List (Pos Rat) := [⟨0, 0⟩, ⟨1, -1⟩, ⟨2, -3 / 2⟩, ⟨3, -3 / 2⟩, ⟨4, -1⟩, ⟨5, 0⟩]
example : bezierIsFlatEnough extremalQuintic = true := by decide +kernel
example : ∃ q, bezierEval (1 / 5 : Rat) 6 extremalQuintic = some q ∧
    Pos.lengthSquared (cubicW1 (⟨0, 0⟩ : Pos Rat) ⟨1, -1⟩ ⟨2, -3 / 2⟩ ⟨3, -3 / 2⟩ - q) = 49 / 25600 := by
  decide +kernel

/-- `bezier_within_tolerance_quintic` applies to a run that succeeds on the non-flat quintic. -/
example : ∃ out b', approximateBezier 120 bentQuintic {} = .ok (out, b') ∧ 5 < out.length ∧
    ∀ v ∈ out, ∃ t q, Scalar.le (0 : Rat) t = true ∧ Scalar.le t (1 : Rat) = true ∧
      bezierEval t 6 bentQuintic = some q ∧
      Scalar.le (Pos.lengthSquared (v - q)) ((1 / 4 : Rat) * (1 / 4 : Rat)) = true := by
  have hok : (match approximateBezier 120 bentQuintic ({} : BezierBuffers Rat) with
      | .ok r => decide (5 < r.1.length)
      | .error _ => false) = true := by decide +kernel
  cases hr : approximateBezier 120 bentQuintic ({} : BezierBuffers Rat) with
  | error e => rw [hr] at hok; cases hok
  | ok r =>
    obtain ⟨out, b'⟩ := r
    rw [hr] at hok
    exact ⟨out, b', rfl, by simpa using hok,
      bezier_within_tolerance_quintic exactScalar_rat (1 / 4 : Rat) (by decide +kernel) 120 bentQuintic out {} b'
        (by decide) hr⟩

/-- the statements for the Rust constant `0.25` (the literal of the `Scalar` class), on the rational instance. -/
example : bezier_within_tolerance_upto Rat 6 quarterRat := bezier_within_tolerance_quarter_quintic exactScalar_rat
example : flat_piece_within_tolerance_upto Rat 6 quarterRat :=
  flat_piece_within_tolerance_quintic exactScalar_rat _ (quarter_admissible_quintic exactScalar_rat)

end NonVacuity

end Rosu.C17
