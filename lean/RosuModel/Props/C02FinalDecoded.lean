/-
  Props/C02FinalDecoded.lean — `decoded_finalized`: every DECODED map whose `[HitObjects]` lines came in chronological
  order satisfies `Finalized` (Props/C02Final.lean); every `Scalar`, no law.

  * `CoreInv` — invariant of the hit-object core of the decoder state, kept by every `parse_hit_objects` call (accepted or
    rejected, any mode) and by every other parser: the pushed objects obey the forcing rule "first object / directly after a
    spinner ⇒ `new_combo`" (`ForcedCombos true`), each has combo offset 0 unless `new_combo` and `repeat_count + 2` node lists
    (`LineShaped`), and when the last pushed object is a spinner the remembered type has the spinner bit
    (`coreInv_decoded`: through the framing driver, for every byte string).
  * through `From<HitObjectsState>`: the order (sorted), the break flags (`finalize_breaks_fixed`: the finalised list is a
    fixed point of `post_process_breaks`), the velocities (`finalize_velocity`) hold of EVERY decoded map; the forcing rule
    is about file order, so it needs the pushed objects to be chronological — then the stable sort moves nothing
    (`sort_chronological_id`). Without that hypothesis `Finalized` fails of decoded maps (spinner at 0, circle at 100, plain
    circle at 50: after the sort the plain circle directly follows the spinner without `new_combo`) — this is the domain
    restriction "chronological" of the property.
-/
import RosuModel.Lemmas.DecodedSliders
import RosuModel.Props.C02Final
set_option linter.unusedSectionVars false
namespace Rosu.C02
open Rosu Scalar SliderRt

section
variable {F P : Type} [Scalar F] [Scalar P] [Cvt P F]

/-! ### the invariant of the line decoder -/

/-- the forcing flag the NEXT line would see, from the list alone: `b` for the empty list, else "the last is a spinner". -/
def lastFlag : Bool → List (HitObject F P) → Bool
  | b, [] => b
  | _, h :: hs => lastFlag (isSpinnerKind h.kind) hs

omit [Scalar F] [Scalar P] [Cvt P F] in
theorem lastFlag_snoc (b : Bool) (hs : List (HitObject F P)) (o : HitObject F P) :
    lastFlag b (hs ++ [o]) = isSpinnerKind o.kind := by
  induction hs generalizing b with
  | nil => rfl
  | cons x xs ih => simp only [List.cons_append, lastFlag]; exact ih _

omit [Scalar F] [Scalar P] [Cvt P F] in
theorem forcedCombos_snoc (b : Bool) (hs : List (HitObject F P)) (o : HitObject F P) (h : ForcedCombos b hs)
    (ho : lastFlag b hs = true → lineNewCombo o.kind = true) : ForcedCombos b (hs ++ [o]) := by
  induction hs generalizing b with
  | nil => exact ⟨ho, trivial⟩
  | cons x xs ih => exact ⟨h.1, ih _ h.2 ho⟩

structure CoreInv (core : HOCore F P) : Prop where
  forced : ForcedCombos true core.hitObjects
  shaped : ∀ h ∈ core.hitObjects, LineShaped h
  flag : lastFlag true core.hitObjects = true → forcedOf core = true

theorem coreInv_empty : CoreInv ({} : HOCore F P) := ⟨trivial, fun _ h => (by cases h), fun _ => rfl⟩

/-- pushing an object whose kind obeys the three rules keeps the invariant. -/
theorem coreInv_push (st st' : HOCore F P) (hd : Header F P) (k : HitObjectKind F P) (b : SampleBankInfo)
    (hI : CoreInv st) (e1 : st'.hitObjects = st.hitObjects) (e2 : st'.lastObject = st.lastObject)
    (hk1 : forcedOf st = true → lineNewCombo k = true)
    (hk2 : ∀ (t : F) (s : List HitSampleInfo), LineShaped (⟨t, k, s⟩ : HitObject F P))
    (hk3 : isSpinnerKind k = true → testBit (maskedType hd.ty0) typeSpinner = true) :
    CoreInv (pushObject st' hd k b) := by
  refine ⟨?_, ?_, ?_⟩
  · show ForcedCombos true (st'.hitObjects ++ [_])
    rw [e1]
    exact forcedCombos_snoc _ _ _ hI.forced (fun hl => hk1 (hI.flag hl))
  · intro h hh
    have hh' : h ∈ st'.hitObjects ++ [_] := hh
    rw [e1] at hh'
    rcases List.mem_append.mp hh' with hh' | hh'
    · exact hI.shaped h hh'
    · simp only [List.mem_singleton] at hh'
      subst hh'
      exact hk2 _ _
  · intro hl
    have hl' : lastFlag true (st'.hitObjects ++ [_]) = true := hl
    rw [lastFlag_snoc] at hl'
    show (Option.isNone (some (maskedType hd.ty0)) || testBit (maskedType hd.ty0) typeSpinner) = true
    simp only [Option.isNone_some, Bool.false_or]
    exact hk3 hl'

omit [Scalar F] [Scalar P] [Cvt P F] in
theorem forcedNewCombo_eq (st : HOCore F P) (ty0 : Int) : forcedNewCombo st ty0 = (forcedOf st || newComboOf ty0) := rfl

omit [Scalar F] [Scalar P] [Cvt P F] in
theorem storedComboOffset_zero (st : HOCore F P) (ty0 : Int) (h : forcedNewCombo st ty0 = false) :
    storedComboOffset ty0 = 0 := by
  rw [forcedNewCombo_eq, Bool.or_eq_false_iff] at h
  unfold storedComboOffset
  simp [h.2]

theorem classify_spinner (ty : Int) (h : classify ty = some .spinner) : testBit ty typeSpinner = true := by
  unfold classify at h
  split at h
  · cases h
  · split at h
    · cases h
    · split at h
      · assumption
      · split at h <;> cases h

/-- **one `[HitObjects]` line keeps the invariant** — accepted or rejected, any mode, any state. -/
theorem parseHitObjectLine_coreInv (mode : GameMode) (st : HOCore F P) (line : Str) (h : CoreInv st) :
    CoreInv (parseHitObjectLine mode st line).1 := by
  unfold parseHitObjectLine
  split
  · exact h
  · rename_i hd _
    split
    · exact h
    · -- circle
      split
      · exact h
      · rename_i k b hb
        have hk : k = .circle { pos := hd.pos, newCombo := forcedNewCombo st hd.ty0, comboOffset := storedComboOffset hd.ty0 } := by
          unfold buildCircle at hb
          split at hb
          · cases hb
          · cases hb; rfl
        subst hk
        refine coreInv_push st st hd _ b h rfl rfl ?_ ?_ ?_
        · intro hf
          show forcedNewCombo st hd.ty0 = true
          rw [forcedNewCombo_eq, hf]; rfl
        · intro t s
          show forcedNewCombo st hd.ty0 = false → storedComboOffset hd.ty0 = 0
          exact storedComboOffset_zero st hd.ty0
        · intro hs; cases hs
    · -- slider
      split
      · rename_i st' hb
        have hf := C14.buildSlider_frame mode st hd
        rw [hb] at hf
        simp only [] at hf ⊢
        exact ⟨by rw [hf.1]; exact h.forced, by rw [hf.1]; exact h.shaped,
          by rw [hf.1]; intro hl; have := h.flag hl; unfold forcedOf lastWasSpinner at this ⊢; rw [hf.2]; exact this⟩
      · rename_i st' k b hb
        have hf := C14.buildSlider_frame mode st hd
        rw [hb] at hf
        simp only [] at hf
        obtain ⟨s, hs, _, hnc, hco, hr0, _, hlen, _⟩ := C14.slider_fields mode st st' hd k b hb
        subst hs
        refine coreInv_push st st' hd _ b h hf.1 hf.2 ?_ ?_ ?_
        · intro hfo
          show s.newCombo = true
          rw [hnc, forcedNewCombo_eq, hfo]; rfl
        · intro t sm
          show (s.newCombo = false → s.comboOffset = 0) ∧ s.nodeSamples.length = nodeCount s
          refine ⟨fun hn => ?_, ?_⟩
          · rw [hco]; rw [hnc] at hn; exact storedComboOffset_zero st hd.ty0 hn
          · rw [hlen]; unfold nodeCount; omega
        · intro hs; cases hs
    · -- spinner
      rename_i hcls
      split
      · exact h
      · rename_i k b hb
        have hc := C14.buildSpinner_class hd k b hb
        refine coreInv_push st st hd k b h rfl rfl ?_ ?_ ?_
        · intro _
          cases k <;> first | rfl | cases hc
        · intro t s
          cases k <;> first | trivial | cases hc
        · intro _
          exact classify_spinner _ hcls
    · -- hold
      split
      · exact h
      · rename_i k b hb
        have hc := C14.buildHold_class hd k b hb
        refine coreInv_push st st hd k b h rfl rfl ?_ ?_ ?_
        · intro _
          cases k <;> first | rfl | cases hc
        · intro t s
          cases k <;> first | trivial | cases hc
        · intro hs
          cases k with
          | hold _ => cases hs
          | circle _ => cases hc
          | slider _ => cases hc
          | spinner _ => cases hc

/-! ### through the framing driver -/

theorem coreInv_step (sec : Section) (st : BeatmapState F P) (l : Str) (h : CoreInv st.hitObjects.core) :
    CoreInv (BeatmapState.step sec st l).hitObjects.core := by
  cases sec <;> first | exact h | exact parseHitObjectLine_coreInv _ _ _ h

/-- **every decoded byte string leaves the hit-object core in a state satisfying `CoreInv`.** -/
theorem coreInv_decoded (bs : List UInt8) (st : BeatmapState F P) (h : decodeBytes beatmapDecoder bs = .ok st) :
    CoreInv st.hitObjects.core := by
  obtain ⟨ls, rfl, _⟩ := DecodedInv.decodeBytes_lines _ bs st h
  exact DecodedInv.frame_invariant_lines (beatmapDecoder : LineDecoder (BeatmapState F P))
    (fun st => CoreInv st.hitObjects.core) (fun _ => True) (fun _ _ => coreInv_empty)
    (fun s st l _ hst => coreInv_step s st l hst) ls (fun _ _ => True.intro)

/-! ### through the finaliser -/

section Finish
variable [Trig F] [Trig P]

omit [Scalar F] [Scalar P] [Cvt P F] [Trig F] [Trig P] in
theorem kindSim_spinner (a b : HitObjectKind F P) (h : C15.KindSim a b) : isSpinnerKind b = isSpinnerKind a := by
  cases a <;> cases b <;> first | rfl | exact h.elim

omit [Scalar F] [Scalar P] [Cvt P F] [Trig F] [Trig P] in
theorem kindSim_lineNewCombo (a b : HitObjectKind F P) (h : C15.KindSim a b) (hn : lineNewCombo a = true) :
    lineNewCombo b = true := by
  cases a <;> cases b <;> first | rfl | exact h.elim | exact h.2 hn | exact h.2.1 hn

omit [Scalar F] [Scalar P] [Cvt P F] [Trig F] [Trig P] in
theorem forcedCombos_sim (b : Bool) (as bs : List (HitObject F P)) (h : C15.Pointwise C15.ObjSim as bs)
    (hf : ForcedCombos b as) : ForcedCombos b bs := by
  induction h generalizing b with
  | nil => trivial
  | cons hab _ ih =>
    refine ⟨fun hb => kindSim_lineNewCombo _ _ hab.2.1 (hf.1 hb), ?_⟩
    rw [kindSim_spinner _ _ hab.2.1]
    exact ih _ hf.2

omit [Scalar F] [Scalar P] [Cvt P F] [Trig F] [Trig P] in
theorem lineShaped_sim (a b : HitObject F P) (h : C15.ObjSim a b) (hs : LineShaped a) : LineShaped b := by
  obtain ⟨_, hk, _⟩ := h
  unfold LineShaped at hs ⊢
  cases ha : a.kind <;> cases hb : b.kind <;> rw [ha, hb] at hk <;> rw [ha] at hs <;>
    simp only [C15.KindSim] at hk <;> try exact hk.elim
  · rename_i c c'
    simp only [] at hs ⊢
    intro hn
    obtain ⟨e, hm⟩ := hk
    rw [e]
    apply hs
    cases hc : c.newCombo with
    | false => rfl
    | true => rw [hm hc] at hn; cases hn
  · rename_i s s'
    simp only [] at hs ⊢
    obtain ⟨e, hm, hl⟩ := hk
    refine ⟨fun hn => ?_, ?_⟩
    · rw [e]
      apply hs.1
      cases hc : s.newCombo with
      | false => rfl
      | true => rw [hm hc] at hn; cases hn
    · rw [hl, hs.2]
      unfold nodeCount
      rw [e]
  · trivial
  · trivial

omit [Scalar F] [Scalar P] [Cvt P F] [Trig F] [Trig P] in
theorem pointwise_times (as bs : List (HitObject F P)) (h : C15.Pointwise C15.ObjSim as bs) :
    bs.map (·.startTime) = as.map (·.startTime) := by
  induction h with
  | nil => rfl
  | cons hab _ ih => simp only [List.map_cons, ih, hab.1]

omit [Scalar F] [Scalar P] [Cvt P F] [Trig F] [Trig P] in
theorem finSim_or_fixed (k k' : HitObjectKind F P) (f : Bool) (h : C15.FinSim (k.orNewCombo f) k') :
    k'.orNewCombo f = k' := by
  cases k with
  | circle c =>
    simp only [HitObjectKind.orNewCombo, C15.FinSim] at h
    subst h
    simp [HitObjectKind.orNewCombo]
  | spinner c =>
    simp only [HitObjectKind.orNewCombo, C15.FinSim] at h
    subst h
    simp [HitObjectKind.orNewCombo]
  | hold c =>
    simp only [HitObjectKind.orNewCombo, C15.FinSim] at h
    subst h
    rfl
  | slider s =>
    cases k' with
    | slider s' =>
      simp only [HitObjectKind.orNewCombo, C15.FinSim] at h
      obtain ⟨e, _⟩ := h
      have hn : s'.newCombo = (s.newCombo || f) := by rw [e]
      simp only [HitObjectKind.orNewCombo, HitObjectKind.slider.injEq]
      have : (s'.newCombo || f) = s'.newCombo := by rw [hn]; cases s.newCombo <;> cases f <;> rfl
      rw [this]
    | circle _ => simp only [HitObjectKind.orNewCombo, C15.FinSim] at h; cases h
    | spinner _ => simp only [HitObjectKind.orNewCombo, C15.FinSim] at h; cases h
    | hold _ => simp only [HitObjectKind.orNewCombo, C15.FinSim] at h; cases h

/-- a list that is, up to velocity / node samples / sample lists, the output of `post_process_breaks` is a fixed point of
`post_process_breaks` (same breaks, same pointer). -/
theorem breaks_fixed_of_finSim (breaks : List (BreakPeriod F)) :
    ∀ (hs : List (HitObject F P)) (cur : Nat) (r : List (HitObject F P)),
      C15.Pointwise (fun a b : HitObject F P => b.startTime = a.startTime ∧ C15.FinSim a.kind b.kind ∧
        ∃ sp : SamplePoint F, b.samples = a.samples.map sp.apply) (postProcessBreaks breaks hs cur) r →
      postProcessBreaks breaks r cur = r
  | [], _, r, h => by cases h; rfl
  | x :: rest, cur, r, h => by
    rw [postProcessBreaks_cons] at h
    cases h with
    | cons hab htl =>
      rename_i b bs
      obtain ⟨ht, hk, _⟩ := hab
      simp only [] at ht hk
      rw [postProcessBreaks_cons]
      rw [show skipBreaks breaks b.startTime (breaks.length + 1) cur false =
        skipBreaks breaks x.startTime (breaks.length + 1) cur false from by rw [ht]]
      rw [finSim_or_fixed _ _ _ hk, breaks_fixed_of_finSim breaks rest _ bs htl]

/-- **finalize_breaks_fixed** — the finalised objects carry the forced flags of the breaks they were processed with. -/
theorem finalize_breaks_fixed (mode : GameMode) (sm : F) (cp : ControlPoints F) (breaks : List (BreakPeriod F))
    (hs r : List (HitObject F P)) (bufs : CurveBuffers P F)
    (h : finalizeObjects mode sm cp (postProcessBreaks breaks hs 0) bufs = .ok r) : postProcessBreaks breaks r 0 = r :=
  breaks_fixed_of_finSim breaks hs 0 r (C15.finalizeObjects_pointwise _ _ _ _ _ _ h)

/-- **finalize_velocity** — every slider of the finalised list has the velocity `velocityAt` of the control points the
finaliser ran with, at its own start time. -/
theorem finalize_velocity (mode : GameMode) (sm : F) (cp : ControlPoints F) (hs r : List (HitObject F P))
    (bufs : CurveBuffers P F) (h : finalizeObjects mode sm cp hs bufs = .ok r) :
    ∀ x ∈ r, ∀ s, x.kind = .slider s → s.velocity = velocityAt P mode sm cp x.startTime := by
  intro x hx s hk
  have hv := finalizeObjects_view mode sm cp hs r bufs h
  have hm : objView x ∈ hs.map (velView mode sm cp) := by rw [← hv]; exact List.mem_map_of_mem hx
  obtain ⟨y, _, hy⟩ := List.mem_map.mp hm
  unfold objView velView at hy
  injection hy with e1 e2
  rw [hk] at e2
  cases hyk : y.kind with
  | slider sy =>
    rw [hyk] at e2
    simp only [stripKind, HitObjectKind.slider.injEq] at e2
    have := congrArg HitObjectSlider.velocity e2
    simp only [] at this
    rw [← this, e1]
  | circle c => rw [hyk] at e2; simp [stripKind] at e2
  | spinner c => rw [hyk] at e2; simp [stripKind] at e2
  | hold c => rw [hyk] at e2; simp [stripKind] at e2

/-- the finaliser's inputs, read off a finished `Beatmap`. -/
theorem finish_objects (st : BeatmapState F P) (m : Beatmap F P) (hf : st.finish = .ok m) :
    finalizeObjects m.general.mode m.difficulty.sliderMultiplier m.controlPoints
      (postProcessBreaks m.events.breaks (sortByStartTime st.hitObjects.core.hitObjects) 0) emptyBuffers = .ok m.hitObjects ∧
    C15.Pointwise C15.ObjSim (sortByStartTime st.hitObjects.core.hitObjects) m.hitObjects := by
  unfold BeatmapState.finish at hf
  cases hho : st.hitObjects.finish with
  | error e => simp [hho, bind, Except.bind] at hf
  | ok ho =>
    simp only [hho, bind, Except.bind, pure, Except.pure] at hf
    injection hf with hf
    subst hf
    refine ⟨?_, (C15.finalize_perm st.hitObjects ho hho).2⟩
    unfold HitObjectsState.finish at hho
    simp only [bind, Except.bind, pure, Except.pure] at hho
    split at hho
    · cases hho
    · rename_i objs heq
      injection hho with hho
      subst hho
      exact heq

/-- **decoded_finalized** — decode any bytes; if the objects the `[HitObjects]` lines pushed are in chronological order
(`total_cmp` on start times — the domain of the property) and finalisation succeeds, the decoded map is `Finalized`. -/
theorem decoded_finalized (bs : List UInt8) (st : BeatmapState F P) (m : Beatmap F P)
    (h1 : decodeBytes beatmapDecoder bs = .ok st) (h2 : st.finish = .ok m)
    (hchron : Chronological st.hitObjects.core.hitObjects) : Finalized m := by
  obtain ⟨hfin, hpw⟩ := finish_objects st m h2
  have hI := coreInv_decoded bs st h1
  rw [sort_chronological_id _ hchron] at hpw
  refine ⟨chronological_of_times _ _ (pointwise_times _ _ hpw) hchron, finalize_breaks_fixed _ _ _ _ _ _ _ hfin,
    finalize_velocity _ _ _ _ _ _ hfin, forcedCombos_sim _ _ _ hpw hI.forced, ?_⟩
  intro x hx
  obtain ⟨a, ha, hsim⟩ := DecodedSliders.pointwise_mem hpw x hx
  exact lineShaped_sim a x hsim (hI.shaped a ha)

/-- the three clauses of `Finalized` that do not depend on file order hold of EVERY decoded map. -/
theorem decoded_finalized_unordered (st : BeatmapState F P) (m : Beatmap F P) (h2 : st.finish = .ok m) :
    Chronological m.hitObjects ∧ postProcessBreaks m.events.breaks m.hitObjects 0 = m.hitObjects ∧
    (∀ h ∈ m.hitObjects, ∀ s, h.kind = .slider s →
      s.velocity = velocityAt P m.general.mode m.difficulty.sliderMultiplier m.controlPoints h.startTime) := by
  obtain ⟨hfin, hpw⟩ := finish_objects st m h2
  exact ⟨chronological_of_times _ _ (pointwise_times _ _ hpw) (C15.sorted_nondecreasing _),
    finalize_breaks_fixed _ _ _ _ _ _ _ hfin, finalize_velocity _ _ _ _ _ _ hfin⟩

end Finish

end

end Rosu.C02
