/-
  Props/C12Ieee.lean — the IEEE hypothesis structures of C12 (timing-point lines) discharged, in the kernel, for the
  scalars the driver actually runs (`Float` = f64, `Float32` = f32; Model/FloatInst.lean).

  Props/C12.lean and Props/C12Exact.lean took every IEEE fact as an explicit hypothesis (`NaNLaw`, `ClampLaws`,
  `TpClampLaws`, `NanLaws`, `FiniteSelfGroup`) because `Float` was believed to be opaque to the kernel. In Lean 4.33 it is
  not (Lemmas/FloatModelOrder.lean): comparisons are structural on the unpacked value, literals evaluate, and
  `x − x = +0` for finite `x` needs no rounding argument. So all five hold of `Float` (and of `Float32`), and the headline
  theorems follow for the driver's instance with **no hypothesis left**:
  `clamps_float`, `clamps_ordinary_float`, `stored_not_nan_float`, `nan_inherited_line_float`, `pending_eq_groups_float`.
-/
import RosuModel.Props.C12Exact
import RosuModel.Lemmas.FloatModelCompare
set_option linter.unusedSectionVars false
namespace Rosu.C12
open Rosu Rosu.FMO

/-! ## the law structures, for every scalar with IEEE comparisons -/

section Generic
variable {F : Type} [Scalar F] [IeeeOrd F]

/-- a NaN is not `< 0` (nor `<` anything). -/
theorem nanLaw_ieee : NaNLaw F := fun x h => lt_nan_left x 0 h

/-- `ClampLaws lo hi` is just `¬ hi < lo`: `<` is irreflexive. -/
theorem clampLaws_ieee {lo hi : F} (h : Scalar.lt hi lo = false) : ClampLaws lo hi :=
  ⟨h, lt_irrefl lo, lt_irrefl hi⟩

end Generic

/-! ## `Float` (f64): the instance the decoder runs on -/

/-- **`NaNLaw Float`**. -/
theorem nanLaw_float : NaNLaw Float := nanLaw_ieee

/-- **`TpClampLaws Float`**: the three literal ranges `[6, 60000]`, `[0.1, 10]`, `[0.01, 10]` are ordered (evaluated by the
kernel on the actual literals) and `<` is irreflexive. -/
theorem tpClampLaws_float : TpClampLaws Float where
  beat := clampLaws_ieee (by decide +kernel)
  sv := clampLaws_ieee (by decide +kernel)
  scroll := clampLaws_ieee (by decide +kernel)

/-- the numerator `100` is finite and not zero. -/
theorem hundred_finite_float : isFiniteNonzero (100 : Float).toModel.unpack = true := by decide +kernel

/-- **`NanLaws Float`**: the six literals are numbers, `100 / −b` is a number for every number `b` (in particular for
`b < 0`), comparisons with NaN are false, numbers are comparable, `0.1 ≤ 1 ≤ 10`, `0.01 ≤ 1`. -/
theorem nanLaws_float : NanLaws Float where
  nan_lt_zero := nanLaw_float
  lit6 := by decide +kernel
  lit60000 := by decide +kernel
  lit01 := by decide +kernel
  lit10 := by decide +kernel
  lit001 := by decide +kernel
  lit1 := by decide +kernel
  div_neg b h := isNaN_div_float _ _ hundred_finite_float (by rw [isNaN_neg_float]; exact (not_nan_of_lt h).1)
  total a b ha hb h := le_of_not_lt a b ha hb h
  one_ge_01 := by decide +kernel
  one_le_10 := by decide +kernel
  one_ge_001 := by decide +kernel

/-- the decoder's limit `±(2³¹−1)` is finite. -/
theorem maxParse_finite_float : (maxParseValue : Float).toModel.unpack.isFinite = true := by decide +kernel
theorem neg_maxParse_finite_float : (-(maxParseValue : Float)).toModel.unpack.isFinite = true := by decide +kernel

/-- a time that passed the parser's three tests is finite. -/
theorem inRange_finite_float {t : Float} (h : InRange t) : t.toModel.unpack.isFinite = true :=
  finite_of_bounds_float _ _ t neg_maxParse_finite_float maxParse_finite_float h.2.2 h.1 h.2.1

/-- a finite time is in its own group: `t − t = +0`, and `|+0| ≥ ε` is false. -/
theorem sameGroup_self_finite_float (t : Float) (h : t.toModel.unpack.isFinite = true) : sameGroup t t = true := by
  unfold sameGroup
  rw [sub_self_float t h, abs_pzero64_ge_eps]; rfl

/-- … and so are `±∞` and NaN: `t − t` is NaN, `|NaN| ≥ ε` is false, and the decoder's test is the *negation* of `≥`. So for
IEEE doubles every time is in its own group — the range check is not even needed (the remark "false for ±∞ and NaN" at
`FiniteSelfGroup` in Props/C12Exact.lean is about `|t − t| < ε`, which is not what the decoder tests). -/
theorem sameGroup_self_nonfinite_float (t : Float) (h : t.toModel.unpack.isFinite = false) : sameGroup t t = true := by
  unfold sameGroup
  rw [sub_self_nonfinite_float t h]
  decide +kernel

/-- **every IEEE double is in its own group.** -/
theorem sameGroup_self_float (t : Float) : sameGroup t t = true := by
  cases h : t.toModel.unpack.isFinite
  · exact sameGroup_self_nonfinite_float t h
  · exact sameGroup_self_finite_float t h

/-- **`FiniteSelfGroup Float`**. -/
theorem finiteSelfGroup_float : FiniteSelfGroup Float :=
  fun t h => sameGroup_self_finite_float t (inRange_finite_float h)

/-! ### the headline theorems for the driver's instance, no hypothesis left -/

/-- `clamp_within` (C12) for the three ranges of the decoder. -/
theorem clamp_within_beat_float (x : Float) : Within (6 : Float) 60000 (Scalar.clamp x 6 60000) :=
  (clamp_within tpClampLaws_float.beat x).1
theorem clamp_within_sv_float (x : Float) : Within (0.1 : Float) 10 (Scalar.clamp x 0.1 10) :=
  (clamp_within tpClampLaws_float.sv x).1
theorem clamp_within_scroll_float (x : Float) : Within (0.01 : Float) 10 (Scalar.clamp x 0.01 10) :=
  (clamp_within tpClampLaws_float.scroll x).1

/-- **clamps** for IEEE doubles. -/
theorem clamps_float (st0 : TimingPointsState Float Float32)
    (h0 : Inv (clampPred st0.general.mode) st0) (strs : List Str) :
    CpAll (clampPred st0.general.mode) (runStrs st0 strs).finish.2 :=
  clamps tpClampLaws_float st0 h0 strs

/-- **clamps, in the ordinary sense** (`lo <= y ∧ y <= hi`, and nothing stored is NaN) for IEEE doubles. -/
theorem clamps_ordinary_float (st0 : TimingPointsState Float Float32)
    (h0 : Inv (ordPred st0.general.mode) st0) (strs : List Str) :
    CpAll (ordPred st0.general.mode) (runStrs st0 strs).finish.2 :=
  clamps_ordinary nanLaws_float tpClampLaws_float st0 h0 strs

theorem clamps_ordinary_fresh_float (strs : List Str) :
    CpAll (ordPred (TimingPointsState.create : TimingPointsState Float Float32).general.mode)
      (runStrs (TimingPointsState.create : TimingPointsState Float Float32) strs).finish.2 :=
  clamps_ordinary_fresh nanLaws_float tpClampLaws_float strs

/-- **no stored value is NaN** for IEEE doubles: after decoding any lines from a fresh state. -/
theorem stored_not_nan_float (strs : List Str) :
    let cp := (runStrs (TimingPointsState.create : TimingPointsState Float Float32) strs).finish.2
    (∀ p ∈ cp.timingPoints, Scalar.isNaN p.time = false ∧ Scalar.isNaN p.beatLen = false) ∧
    (∀ p ∈ cp.difficultyPoints, Scalar.isNaN p.time = false ∧ Scalar.isNaN p.sliderVelocity = false) ∧
    (∀ p ∈ cp.effectPoints, Scalar.isNaN p.time = false ∧ Scalar.isNaN p.scrollSpeed = false) ∧
    (∀ p ∈ cp.samplePoints, Scalar.isNaN p.time = false) :=
  stored_not_nan nanLaws_float tpClampLaws_float strs

/-- `nan_inherited_point` for IEEE doubles. -/
theorem nan_inherited_point_float {g : GeneralState Float Float32} {fields : List Str} {r : TpLine Float}
    (h : parseTpRaw g fields = .ok r) (hn : Scalar.isNaN r.beatLen = true) :
    r.difficultyPoint.generateTicks = false ∧ r.difficultyPoint.sliderVelocity = 1 ∧ r.speedMultiplier = 1 :=
  nan_inherited_point_one nanLaw_float nanLaws_float.one_ge_01 nanLaws_float.one_le_10 h hn

/-- **a NaN beat length on an inherited line**, for IEEE doubles. -/
theorem nan_inherited_line_float {g : GeneralState Float Float32} {line : Str} {r : TpLine Float}
    (h : parseTpRaw g (splitOn ',' (trimComment line)) = .ok r) (hn : Scalar.isNaN r.beatLen = true)
    (htc : r.timingChange = false) :
    parseTpFields g line = .ok r ∧
    r.difficultyPoint.generateTicks = false ∧ r.difficultyPoint.sliderVelocity = 1 ∧
    (∀ mode, (r.effectPoint mode).scrollSpeed = 1) :=
  nan_inherited_line nanLaws_float h hn htc

/-- **pending_eq_groups** for IEEE doubles, for every sequence of lines, no hypothesis about the numbers. -/
theorem pending_eq_groups_float (st0 : TimingPointsState Float Float32)
    (h0 : st0.pending = Pending.empty) (strs : List Str) :
    (runStrs st0 strs).finish.2 =
      (groupsOf st0.pendingTime (acceptedLines st0.general strs)).foldl
        (addGroup st0.general.mode) st0.controlPoints :=
  pending_eq_groups_finite finiteSelfGroup_float st0 h0 strs

/-! ## `Float32` (f32): the same law structures -/

theorem nanLaw_float32 : NaNLaw Float32 := nanLaw_ieee

theorem tpClampLaws_float32 : TpClampLaws Float32 where
  beat := clampLaws_ieee (by decide +kernel)
  sv := clampLaws_ieee (by decide +kernel)
  scroll := clampLaws_ieee (by decide +kernel)

theorem hundred_finite_float32 : isFiniteNonzero (100 : Float32).toModel.unpack = true := by decide +kernel

theorem nanLaws_float32 : NanLaws Float32 where
  nan_lt_zero := nanLaw_float32
  lit6 := by decide +kernel
  lit60000 := by decide +kernel
  lit01 := by decide +kernel
  lit10 := by decide +kernel
  lit001 := by decide +kernel
  lit1 := by decide +kernel
  div_neg b h := isNaN_div_float32 _ _ hundred_finite_float32 (by rw [isNaN_neg_float32]; exact (not_nan_of_lt h).1)
  total a b ha hb h := le_of_not_lt a b ha hb h
  one_ge_01 := by decide +kernel
  one_le_10 := by decide +kernel
  one_ge_001 := by decide +kernel

theorem maxParse_finite_float32 : (maxParseValue : Float32).toModel.unpack.isFinite = true := by decide +kernel
theorem neg_maxParse_finite_float32 : (-(maxParseValue : Float32)).toModel.unpack.isFinite = true := by decide +kernel

theorem inRange_finite_float32 {t : Float32} (h : InRange t) : t.toModel.unpack.isFinite = true :=
  finite_of_bounds_float32 _ _ t neg_maxParse_finite_float32 maxParse_finite_float32 h.2.2 h.1 h.2.1

theorem sameGroup_self_finite_float32 (t : Float32) (h : t.toModel.unpack.isFinite = true) : sameGroup t t = true := by
  unfold sameGroup
  rw [sub_self_float32 t h, abs_pzero32_ge_eps]; rfl

theorem sameGroup_self_float32 (t : Float32) : sameGroup t t = true := by
  cases h : t.toModel.unpack.isFinite
  · unfold sameGroup
    rw [sub_self_nonfinite_float32 t h]
    decide +kernel
  · exact sameGroup_self_finite_float32 t h

theorem finiteSelfGroup_float32 : FiniteSelfGroup Float32 := fun t _ => sameGroup_self_float32 t

/-! ## non-vacuity: the statements speak about the driver's values -/

example : InRange (1500 : Float) := by
  refine ⟨?_, ?_, ?_⟩ <;> decide +kernel

example : sameGroup (1500 : Float) (1500 : Float) = true := finiteSelfGroup_float _ (by
  refine ⟨?_, ?_, ?_⟩ <;> decide +kernel)

end Rosu.C12
