/-
  Lemmas/SliderObject.lean — the whole hit-object line of a slider: what `encode_hit_objects` writes
  (`encodeObject_slider`), its shape (`slider_line_shape`), the slider prelude (`sliderPrelude_line`) and the line
  against `parse_hit_objects` in any decoder state (`slider_line_roundtrip`).
-/
import RosuModel.Lemmas.SliderLine
set_option linter.unusedSectionVars false
namespace Rosu
namespace SliderRt
open Rosu Encode EncodeLines Scalar RtObjects C14

section
variable {F P : Type} [Scalar F] [Scalar P] [Cvt P F] [Trig F] [Trig P] {RF : F → Prop} {RP : P → Prop}

/-- the optional length as `parse_hit_objects` stores it: `max(len, 0)`, absent when below `f64::EPSILON`. -/
def lenOf (d : F) : Option F :=
  if le (Scalar.eps : F) (Scalar.abs (Scalar.max d 0)) then some (Scalar.max d 0) else none

/-- the six fields after the hit sound: path, span count, length, node sounds, node banks, bank string. -/
def sliderFields (mode : GameMode) (h : HitObject F P) (s : HitObjectSlider F P) (dist : F) : List Str :=
  [pathText s.pos s.path.controlPoints, showInt (s.repeatCount + 1), showF dist, soundsText s, banksText s,
   getSampleBank h.samples false mode]

/-- the line of a slider (without the terminator); `dist` is the length written. -/
def sliderLine (mode : GameMode) (h : HitObject F P) (s : HitObjectSlider F P) (dist : F) : Str :=
  joinComma (coreFields s.pos.x s.pos.y h.startTime (objectTypeOf h) (soundTypeOf h.samples) ++ sliderFields mode h s dist)

/-- **a slider the line format carries**: integral position within ±131072, start time within the parse limit, combo
offset 0..7, a representable path (`RepPath`, which excludes finding F17), 0..8999 repeats, and a written length `dist`
— the expected length if there is one, otherwise the length of the computed curve — that is representable and within
±131072 (`distRep`). The bound is the decoder's limit on the length field; the real encoder violates it for a slider
without a length whose computed curve is longer than 131072 — finding **F20** (witness
`0,0,1000,2,0,L|131072:131072|-131072:-131072|131072:131072,1`: the line written is rejected on re-read). -/
structure RepSlider (RF : F → Prop) (RP : P → Prop) (mode : GameMode) (h : HitObject F P) (s : HitObjectSlider F P)
    (dist : F) : Prop where
  x : RepCoord RP s.pos.x
  y : RepCoord RP s.pos.y
  time : RF h.startTime ∧ InLimit h.startTime
  comboOffset : 0 ≤ s.comboOffset ∧ s.comboOffset < 8
  path : RepPath RP s.pos s.path.controlPoints
  repeats : 0 ≤ s.repeatCount ∧ s.repeatCount < 9000
  distRep : RF dist ∧ InCoord dist
  written : s.path.expectedDist = some dist ∨ (s.path.expectedDist = none ∧ curveDist s = .ok dist)
  samples : RepSamples h.samples mode

theorem addPathData_eq (LP : CodecLaws P RP) (LC : CoordLaws F P RP) (mode : GameMode) (s : HitObjectSlider F P) (dist : F)
    (hp : RepPath RP s.pos s.path.controlPoints)
    (hw : s.path.expectedDist = some dist ∨ (s.path.expectedDist = none ∧ curveDist s = .ok dist)) :
    addPathData s s.pos mode =
      .ok (pathText s.pos s.path.controlPoints ++ [','] ++ showInt (s.repeatCount + 1) ++ [','] ++ showF dist ++ [','] ++
        (soundsText s ++ [',']) ++ (banksText s ++ [','])) := by
  have h1 := (path_roundtrip (F := F) LP LC s.pos s.path.controlPoints hp {}).1
  unfold addPathData
  rcases hw with hw | ⟨hw, hc⟩
  · simp only [hw, h1, bind, Except.bind, pure, Except.pure, nodeSoundsPart_eq, nodeBanksPart_eq]
  · simp only [hw, hc, h1, bind, Except.bind, pure, Except.pure, nodeSoundsPart_eq, nodeBanksPart_eq]

theorem encodeObject_slider (LP : CodecLaws P RP) (LC : CoordLaws F P RP) (mode : GameMode) (h : HitObject F P)
    (s : HitObjectSlider F P) (dist : F) (hk : h.kind = .slider s) (hp : RepPath RP s.pos s.path.controlPoints)
    (hw : s.path.expectedDist = some dist ∨ (s.path.expectedDist = none ∧ curveDist s = .ok dist)) :
    encodeObject mode h = .ok (sliderLine mode h s dist ++ EncodeLines.nl) := by
  unfold encodeObject
  simp only [hk, addPathData_eq (F := F) LP LC mode s dist hp hw, bind, Except.bind, pure, Except.pure, sliderLine,
    sliderFields, coreFields, joinComma, List.cons_append, List.nil_append, List.flatMap_cons, List.flatMap_nil,
    List.append_assoc, List.append_nil, Encode.nl, EncodeLines.nl]

theorem joinBar_lineChars (l : List Str) (h : ∀ x ∈ l, ∀ c ∈ x, LineChar c) : ∀ c ∈ joinBar l, LineChar c :=
  joinBar_chars l LineChar (lineChar_of_path (Or.inr rfl)) h

theorem slider_line_shape (LF : CodecLaws F RF) (LP : CodecLaws P RP) (LC : CoordLaws F P RP) (mode : GameMode)
    (h : HitObject F P) (s : HitObjectSlider F P) (dist : F) (hr : RepSlider RF RP mode h s dist) :
    '\n' ∉ sliderLine mode h s dist ∧ RecordLine (trimEnd (sliderLine mode h s dist)) ∧
    trimComment (trimEnd (sliderLine mode h s dist)) = sliderLine mode h s dist ∧
    splitOn ',' (sliderLine mode h s dist) =
      coreFields s.pos.x s.pos.y h.startTime (objectTypeOf h) (soundTypeOf h.samples) ++ sliderFields mode h s dist := by
  obtain ⟨c0, r0, hx0, _⟩ := LP.head hr.x.rep
  have e2 : coreFields s.pos.x s.pos.y h.startTime (objectTypeOf h) (soundTypeOf h.samples) ++ sliderFields mode h s dist =
      (c0 :: r0) :: [showP s.pos.y, showF h.startTime, showInt (objectTypeOf h), showNat (soundTypeOf h.samples),
        pathText s.pos s.path.controlPoints, showInt (s.repeatCount + 1), showF dist, soundsText s, banksText s] ++
        [bankPre (normalBankOf h.samples) (addBankOf h.samples) (customOf h.samples mode) (volumeOf h.samples mode) ++ ':' :: fileNameOf h.samples] := by
    unfold coreFields sliderFields
    rw [getSampleBank_eq, bankStr_eq, showP, hx0]
    rfl
  unfold sliderLine
  rw [e2]
  have hfield : ∀ {x : Str}, FieldChars x → ∀ c ∈ x, LineChar c := fun hx c hc => lineChar_of_field (hx c hc)
  apply line_facts' c0 r0 _ _ _ (by rw [← hx0]; exact hfield (fieldChars_print LP hr.x.rep)) _
    (hfield (fieldChars_bankPre _ _ _ _)) hr.samples.file
  intro x hx
  simp only [List.mem_cons, List.not_mem_nil, or_false] at hx
  rcases hx with hx | hx | hx | hx | hx | hx | hx | hx | hx <;> rw [hx]
  · exact hfield (fieldChars_print LP hr.y.rep)
  · exact hfield (fieldChars_print LF hr.time.1)
  · exact hfield (fieldChars_intDigits _)
  · exact hfield (fieldChars_decDigits _)
  · intro c hc
    exact lineChar_of_path ((path_roundtrip (F := F) LP LC s.pos s.path.controlPoints hr.path {}).2.1 c hc)
  · exact hfield (fieldChars_intDigits _)
  · exact hfield (fieldChars_print LF hr.distRep.1)
  · apply joinBar_lineChars
    intro p hp
    simp only [List.mem_map] at hp
    obtain ⟨i, _, rfl⟩ := hp
    exact hfield (fieldChars_decDigits _)
  · apply joinBar_lineChars
    intro p hp
    simp only [List.mem_map] at hp
    obtain ⟨i, _, rfl⟩ := hp
    exact hfield (banksStr_chars _ _)

/-- the object's own bank string read with `banks_only`. -/
theorem readExtras_banksOnly (samples : List HitSampleInfo) (mode : GameMode) (hs : RepSamples samples mode) :
    readExtras [getSampleBank samples false mode] true = (objInfo samples, true) := by
  show ({} : SampleBankInfo).readCustomSampleBanks (splitOn ':' (getSampleBank samples false mode)) true = _
  rw [getSampleBank_eq, splitOn_bankStr _ _ _ _ _ hs.file.noColon, read_banks _ _ _ _ true (Or.inl rfl)]
  rfl

/-- **the slider prelude**: repeat count, length, bank info and node samples read from the fields after the path. -/
theorem sliderPrelude_line (LF : CodecLaws F RF) (mode : GameMode) (h : HitObject F P) (s : HitObjectSlider F P) (dist : F)
    (hrep : 0 ≤ s.repeatCount ∧ s.repeatCount < 9000) (hdist : RF dist ∧ InCoord dist) (hs : RepSamples h.samples mode)
    (pos : Pos P) (t : F) (ty snd : Int) :
    (sliderPrelude (⟨pos, t, ty, snd, sliderFields mode h s dist⟩ : Header F P) : Option (SliderPrelude F)) =
      some { pointStr := pathText s.pos s.path.controlPoints, repeatCount := s.repeatCount, len := lenOf dist,
             nodeSamples := decodedNodes s h.samples, bankInfo := objInfo h.samples } := by
  have h1 : i32Parse (showInt (s.repeatCount + 1)) = some (s.repeatCount + 1) :=
    i32Parse_intDigits _ (by unfold i32Max; omega) (by unfold i32Max; omega)
  have h2 : ¬ (s.repeatCount + 1 > 9000) := by omega
  have h3 : storedRepeatCount (s.repeatCount + 1) = s.repeatCount := by
    unfold storedRepeatCount
    have : ¬ (s.repeatCount + 1 - 1 < 0) := by omega
    simp only [this, if_false]; omega
  have h4 : (s.repeatCount.toNat + 2) = nodeCount s := by unfold nodeCount; omega
  have h5 := buildNodeSamples_line s h.samples snd
  unfold sliderPrelude
  simp only [sliderFields, h1, h2, if_false, parseLength, showF, coordParse_print LF hdist.1 hdist.2, List.drop_succ_cons,
    List.drop_zero, readExtras_banksOnly h.samples mode hs, List.head?_cons, h3, h4, h5, lenOf]

/-- the state after an accepted slider line: the object is appended, the masked type remembered, `curve_points` moved
into the slider (left empty) and `vertices` left as the last `convert_points` call filled it. -/
def sliderPushed (st : HOCore F P) (vs : List (PathControlPoint P)) (t : F) (k : HitObjectKind F P)
    (samples : List HitSampleInfo) : HOCore F P :=
  { st with lastObject := some 2, curvePoints := [], vertices := vs, hitObjects := st.hitObjects ++ [⟨t, k, samples⟩] }

/-- the slider that comes back. -/
def decodedSlider (mode : GameMode) (st : HOCore F P) (h : HitObject F P) (s : HitObjectSlider F P) (dist : F) :
    HitObjectSlider F P :=
  { pos := s.pos, newCombo := st.lastObject.isNone || lastWasSpinner st || s.newCombo,
    comboOffset := if s.newCombo then s.comboOffset else 0,
    path := { mode := mode, controlPoints := st.curvePoints ++ s.path.controlPoints, expectedDist := lenOf dist },
    nodeSamples := decodedNodes s h.samples, repeatCount := s.repeatCount, velocity := 1 }

/-- **slider_line_roundtrip** (C04 + C02 for one slider line, under the codec laws): the line `encode_hit_objects`
writes for a representable slider is LF-free, a record line, accepted by `parse_hit_objects` in any state, and the
object pushed is a slider at the same start time and position with the same combo data (as for circles), the same
control points (after whatever the state's `curve_points` held — empty in every reachable state), the same repeat
count, the written length as the decoder stores it (`lenOf`), one node sample list per node (`decodedNodes`) and the
object's samples from the hit-sound byte and the two banks. -/
theorem slider_line_roundtrip (LF : CodecLaws F RF) (LP : CodecLaws P RP) (LC : CoordLaws F P RP) (mode : GameMode)
    (h : HitObject F P) (s : HitObjectSlider F P) (dist : F) (hk : h.kind = .slider s) (hr : RepSlider RF RP mode h s dist)
    (st : HOCore F P) :
    encodeObject mode h = .ok (sliderLine mode h s dist ++ EncodeLines.nl) ∧ '\n' ∉ sliderLine mode h s dist ∧
    RecordLine (trimEnd (sliderLine mode h s dist)) ∧
    ∃ vs, parseHitObjectLine mode st (trimEnd (sliderLine mode h s dist)) =
      (sliderPushed st vs h.startTime (.slider (decodedSlider mode st h s dist))
        ((objInfo h.samples).convertSoundType (soundTypeOf h.samples : Nat)), true) := by
  obtain ⟨h1, h2, h3, h4⟩ := slider_line_shape LF LP LC mode h s dist hr
  refine ⟨encodeObject_slider (F := F) LP LC mode h s dist hk hr.path hr.written, h1, h2, ?_⟩
  have hty : objectTypeOf h = orBits (orBits (wrapI32 (s.comboOffset * 16)) (if s.newCombo then 4 else 0)) 2 := by
    unfold objectTypeOf; rw [hk]
  obtain ⟨b1, b2, b3, b4, b5, b6⟩ := slider_type_bits s.comboOffset (mem_range8 _ hr.comboOffset.1 hr.comboOffset.2) s.newCombo
  rw [← hty] at b1 b2 b3 b4 b5 b6
  have hd := parseHeader_core LF LP (trimEnd (sliderLine mode h s dist)) s.pos.x s.pos.y h.startTime (objectTypeOf h)
    (soundTypeOf h.samples) (sliderFields mode h s dist) hr.x hr.y hr.time ⟨b1, b2⟩ (soundTypeOf_lt _) (by rw [h3, h4])
  have hpre := sliderPrelude_line LF mode h s dist hr.repeats hr.distRep hr.samples ⟨s.pos.x, s.pos.y⟩ h.startTime
    (objectTypeOf h) (soundTypeOf h.samples : Nat)
  obtain ⟨_, _, _, hc1, hc2⟩ := path_roundtrip (F := F) LP LC s.pos s.path.controlPoints hr.path st.scratch
  have hpos : (⟨s.pos.x, s.pos.y⟩ : Pos P) = s.pos := by cases s.pos; rfl
  rw [hpos] at hpre
  cases hcv : convertPathStr F st.scratch (pathText s.pos s.path.controlPoints) s.pos with
  | mk sc ok =>
    rw [hcv] at hc1 hc2
    simp only at hc1 hc2
    subst hc1
    refine ⟨sc.vertices, ?_⟩
    unfold parseHitObjectLine
    rw [hd]
    simp only [b3, hpos]
    unfold buildSlider
    simp only [hpre, hcv]
    simp only [pushObject, b4, forcedNewCombo, storedComboOffset, b5, b6, sliderPushed, decodedSlider,
      HOCore.withScratch, hc2, HOCore.scratch]

end

end SliderRt
end Rosu
