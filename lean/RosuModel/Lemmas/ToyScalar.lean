/-
  Lemmas/ToyScalar.lean — a tiny decidable `Scalar` instance over `Int`, used only to give
  non-vacuity examples and `decide`-checked counterexamples for theorems stated for every
  `[Scalar F]`. Keys are the integers themselves, `eps = 1` (so "|a − b| < eps" means `a = b`),
  there is no NaN, decimal literals truncate. Core Lean only.
-/
import RosuModel.Model.Scalar
import RosuModel.Model.Num
namespace Rosu

structure Z where
  v : Int
  deriving DecidableEq, Repr

instance : Scalar Z where
  add a b := ⟨a.v + b.v⟩
  sub a b := ⟨a.v - b.v⟩
  mul a b := ⟨a.v * b.v⟩
  div a b := ⟨a.v / b.v⟩
  neg a := ⟨-a.v⟩
  ofNat n := ⟨n⟩
  ofSci m s e := ⟨if s then (m : Int) / (10 ^ e : Nat) else (m : Int) * (10 ^ e : Nat)⟩
  lt a b := decide (a.v < b.v)
  le a b := decide (a.v ≤ b.v)
  eq a b := decide (a.v = b.v)
  isNaN _ := false
  abs a := ⟨a.v.natAbs⟩
  sqrt a := a
  ceil a := a
  eps := ⟨1⟩
  ofInt n := ⟨n⟩
  toI32 a := a.v
  toUsize a := a.v.toNat
  totalKey a := a.v
  parse s := (i32FromStr s).map Z.mk
  print _ := []

end Rosu
