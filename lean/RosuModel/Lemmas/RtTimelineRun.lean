/-
  Lemmas/RtTimelineRun.lean — the decoder's state machine over the values written, group by group:
  `run_block` (the lines of one encoder group open one decoder group: the previous one is flushed, the slots hold the group's
  `resolve`), and `dec_run` (over all groups: the re-decoded collection is `decGroups` — per encoder group, `C12.addGroup` of
  the values read from its lines). Needs of floats only: `|t − t| < ε`, and `|t − u| < ε → t = u` (`GroupLaws`).
-/
import RosuModel.Lemmas.RtTimelineAdd
namespace Rosu
namespace RtTiming
open Rosu Encode Scalar
set_option linter.unusedSectionVars false

variable {F P : Type} [Scalar F] [Scalar P]

/-- exact-arithmetic reading of the decoder's grouping test `(time − pending_time).abs() >= EPSILON`. -/
structure GroupLaws (F : Type) [Scalar F] : Prop where
  same_refl : ∀ x : F, sameGroup x x = true
  same_eq : ∀ x y : F, sameGroup x y = true → x = y

theorem flushInto_empty (cp : ControlPoints F) : flushInto cp Pending.empty = cp := rfl

theorem runTpLines_append (st : TimingPointsState F P) (a b : List (TpLine F)) :
    C12.runTpLines st (a ++ b) = C12.runTpLines (C12.runTpLines st a) b := by
  simp [C12.runTpLines, List.foldl_append]

/-- lines at the time of the open group only feed the pending slots. -/
theorem run_same (st : TimingPointsState F P) (A : List (TpLine F)) (hT : ∀ l ∈ A, l.time = st.pendingTime)
    (hrefl : sameGroup st.pendingTime st.pendingTime = true) :
    C12.runTpLines st A = { st with pending := A.foldl (C12.stepPending st.general.mode) st.pending } := by
  induction A generalizing st with
  | nil => rfl
  | cons a rest ih =>
    have ha : a.time = st.pendingTime := hT a (by simp)
    have h1 : applyTpLine st a =
        { st with pending := C12.stepPending st.general.mode st.pending a, pendingTime := a.time } := by
      rw [C12.applyTpLine_eq st a (by rw [ha]; exact hrefl)]
      rw [ha, hrefl]
      rfl
    rw [C12.runTpLines, List.foldl_cons, ← C12.runTpLines, h1, ih]
    · rw [ha]
      rfl
    · intro l hl
      rw [hT l (by simp [hl]), ha]
    · show sameGroup a.time a.time = true
      rw [ha]; exact hrefl

/-- **run_block.** The values read from the lines of one encoder group (all at time `T`, at least one), fed to a state whose
open group is at a different time (or is empty): the open group is flushed and the slots afterwards hold exactly the
group's `resolve` (first timing line for the timing point, last inherited line — else the first timing line — for the other
three kinds). -/
theorem run_block (st : TimingPointsState F P) (A : List (TpLine F)) (T : F) (hne : A ≠ [])
    (hT : ∀ l ∈ A, l.time = T) (hrefl : sameGroup T T = true)
    (h : st.pending = Pending.empty ∨ sameGroup T st.pendingTime = false) :
    C12.runTpLines st A =
      { st with controlPoints := flushInto st.controlPoints st.pending, pending := C12.resolve st.general.mode A,
                pendingTime := T } := by
  cases A with
  | nil => exact absurd rfl hne
  | cons a rest =>
    have ha : a.time = T := hT a (by simp)
    have h1 : applyTpLine st a =
        { st with controlPoints := flushInto st.controlPoints st.pending,
                  pending := C12.stepPending st.general.mode Pending.empty a, pendingTime := T } := by
      rw [C12.applyTpLine_eq st a (by rw [ha]; exact hrefl), ha]
      cases hs : sameGroup T st.pendingTime with
      | false => rfl
      | true =>
        rcases h with h | h
        · simp only [if_true, h, flushInto_empty]
        · rw [hs] at h; cases h
    rw [C12.runTpLines, List.foldl_cons, ← C12.runTpLines, h1, run_same _ rest (fun l hl => hT l (by simp [hl])) hrefl]
    simp only []
    rw [← C12.group_pending_eq_resolve, List.foldl_cons]

/-- the re-decoded collection, group by group: per encoder group, `C12.addGroup` of the values read from its lines
(nothing for a group that wrote no line). -/
def decGroups (mode : GameMode) (cp : ControlPoints F) (dflt : SampleBank) :
    List (Group F) → Props F → ControlPoints F → ControlPoints F
  | [], _, cpd => cpd
  | g :: rest, last, cpd =>
    decGroups mode cp dflt rest (groupStep mode cp g last).2
      (C12.addGroup mode cpd ((groupStep mode cp g last).1.map (Entry.read dflt)))

theorem groupStep_times (mode : GameMode) (cp : ControlPoints F) (g : Group F) (last : Props F)
    (hwf : ∀ t, g.timing = some t → g.time = t.time) : ∀ e ∈ (groupStep mode cp g last).1, e.time = g.time := by
  intro e he
  obtain ⟨_, hk⟩ := groupStep_form mode cp g last e he
  rcases hk with ⟨_, t, ht, h1, _⟩ | ⟨_, h1, _⟩
  · rw [h1, hwf t ht]
  · exact h1

/-- **dec_run.** The decoder's state machine over the values written for strictly increasing groups (a timing group sits
at its timing point's time), from a state whose open group lies before all of them (or is empty): after the final flush the
collection is `decGroups` of the collection the state would have flushed to. -/
theorem dec_run (G : GroupLaws F) (mode : GameMode) (cp : ControlPoints F) (dflt : SampleBank) (gs : List (Group F))
    (hs : C13.SortedBy (fun g : Group F => totalKey g.time) gs)
    (hwf : ∀ g ∈ gs, ∀ t, g.timing = some t → g.time = t.time) (last : Props F) (st : TimingPointsState F P)
    (hm : st.general.mode = mode)
    (hp : st.pending = Pending.empty ∨ ∀ g ∈ gs, totalKey st.pendingTime < totalKey g.time) :
    (C12.runTpLines st ((groupEntries mode cp gs last).map (Entry.read dflt))).finish.2 =
      decGroups mode cp dflt gs last st.finish.2 := by
  induction gs generalizing last st with
  | nil => rfl
  | cons g rest ih =>
    obtain ⟨hg, hrest⟩ := C13.sortedBy_cons.mp hs
    simp only [groupEntries, List.map_append, runTpLines_append, decGroups]
    cases hE : (groupStep mode cp g last).1 with
    | nil =>
      simp only [List.map_nil, C12.addGroup_nil]
      have : C12.runTpLines st [] = st := rfl
      rw [this]
      apply ih hrest (fun g' hg' => hwf g' (by simp [hg'])) _ st hm
      rcases hp with hp | hp
      · exact Or.inl hp
      · exact Or.inr (fun g' hg' => hp g' (by simp [hg']))
    | cons e es =>
      have hne : ((e :: es).map (Entry.read dflt)) ≠ [] := by simp
      have hT : ∀ l ∈ (e :: es).map (Entry.read dflt), l.time = g.time := by
        intro l hl
        obtain ⟨e', he', rfl⟩ := List.mem_map.mp hl
        have := groupStep_times mode cp g last (hwf g (by simp)) e' (by rw [hE]; exact he')
        exact this
      have hdiff : st.pending = Pending.empty ∨ sameGroup g.time st.pendingTime = false := by
        rcases hp with hp | hp
        · exact Or.inl hp
        · right
          cases hsg : sameGroup g.time st.pendingTime with
          | false => rfl
          | true =>
            have := G.same_eq _ _ hsg
            have hk := hp g (by simp)
            rw [this] at hk
            omega
      rw [run_block st _ g.time hne hT (G.same_refl _) hdiff]
      have key := ih hrest (fun g' hg' => hwf g' (by simp [hg'])) (groupStep mode cp g last).2
        { st with controlPoints := flushInto st.controlPoints st.pending,
                  pending := C12.resolve st.general.mode ((e :: es).map (Entry.read dflt)), pendingTime := g.time }
        hm (Or.inr (fun g' hg' => hg g' hg'))
      rw [key, hm]
      rfl

end RtTiming
end Rosu
