/-
  Lemmas/RtTimelineStep.lean — one encoder group against the decoder: what the lines of a group `resolve` to
  (`resolve_step`), what the winning line carries (`winner_facts`), and the effective-value functions of a collection
  (`svK`, `kiaiK`) with their behaviour under the group's add (`addGroup_values`).
-/
import RosuModel.Lemmas.RtTimelineGroups
namespace Rosu
namespace RtTiming
open Rosu Encode Scalar
set_option linter.unusedSectionVars false

variable {F : Type} [Scalar F]

/-! ### effective values by key -/

def dsvK (l : List (DifficultyPoint F)) (k : Int) : F :=
  valueAt DifficultyPoint.key (·.sliderVelocity) DifficultyPoint.default l k
def scrollK (l : List (EffectPoint F)) (k : Int) : F :=
  valueAt EffectPoint.key (·.scrollSpeed) EffectPoint.default l k
def kiaiK (l : List (EffectPoint F)) (k : Int) : Bool :=
  valueAt EffectPoint.key (·.kiai) EffectPoint.default l k

/-- the slider-velocity field by key: scroll speed in taiko / mania, slider velocity otherwise. -/
def svK (mode : GameMode) (cp : ControlPoints F) (k : Int) : F :=
  match mode with
  | .taiko | .mania => scrollK cp.effectPoints k
  | _ => dsvK cp.difficultyPoints k

/-- the kiai flag in effect at a time. -/
def kiaiAt (cp : ControlPoints F) (u : F) : Bool := ((cp.effectPointAt u).map (·.kiai)).getD false

theorem svFor_eq_svK (mode : GameMode) (cp : ControlPoints F) (u : F) : svFor mode cp u = svK mode cp (totalKey u) := by
  have hd : ∀ o : Option (DifficultyPoint F), (o.map (·.sliderVelocity)).getD (1 : F) =
      (o.getD DifficultyPoint.default).sliderVelocity := by intro o; cases o <;> rfl
  have he : ∀ o : Option (EffectPoint F), (o.map (·.scrollSpeed)).getD (1 : F) =
      (o.getD EffectPoint.default).scrollSpeed := by intro o; cases o <;> rfl
  cases mode
  · exact hd _
  · exact he _
  · exact hd _
  · exact he _

theorem kiaiAt_eq_kiaiK (cp : ControlPoints F) (u : F) : kiaiAt cp u = kiaiK cp.effectPoints (totalKey u) := by
  unfold kiaiAt kiaiK valueAt ControlPoints.effectPointAt
  cases lookupChecked EffectPoint.key (totalKey u) cp.effectPoints <;> rfl

/-- on a sorted list the lookup does not change while no stored key is crossed. -/
theorem lookup_const {α : Type} {key : α → Int} {l : List α} (hs : C13.SortedBy key l) (t k : Int)
    (h : ∀ p ∈ l, (key p ≤ t ↔ key p ≤ k)) : lookupChecked key k l = lookupChecked key t l := by
  rw [C13.lookupChecked_spec k hs, C13.lookupChecked_spec t hs]
  exact (lastLE_congr key l t k h).symm

/-! ### the group's lines, resolved -/

variable {P : Type} [Scalar P]

/-- the line that wins the difficulty / effect / sample slots of the group: the inherited line when one is written, else the
timing line. -/
def winnerOf (mode : GameMode) (cp : ControlPoints F) (g : Group F) (last : Props F) (dflt : SampleBank) : TpLine F :=
  let props := Props.new g.time cp last g.timing.isSome mode
  match g.timing with
  | some t =>
    if props.isRedundant { props with sliderVelocity := 1 } then Entry.read dflt ⟨t.time, t.beatLen, props, true⟩
    else Entry.read dflt ⟨g.time, (-100 : F) / props.sliderVelocity, props, false⟩
  | none => Entry.read dflt ⟨g.time, (-100 : F) / props.sliderVelocity, props, false⟩

/-- a group writes no line only if it has no timing point and its properties are redundant. -/
theorem groupStep_nil (mode : GameMode) (cp : ControlPoints F) (g : Group F) (last : Props F)
    (h : (groupStep mode cp g last).1 = []) :
    g.timing = none ∧ (Props.new g.time cp last g.timing.isSome mode).isRedundant last = true := by
  unfold groupStep at h
  simp only [] at h
  cases ht : g.timing with
  | none =>
    rw [ht] at h
    simp only [Option.isSome_none] at h ⊢
    refine ⟨trivial, ?_⟩
    by_cases hr : (Props.new g.time cp last false mode).isRedundant last = true
    · exact hr
    · simp [hr] at h
  | some t =>
    rw [ht] at h
    simp only [Option.isSome_some] at h
    split at h <;> simp at h

/-- **resolve_step.** The values read from the lines of a group that wrote at least one line resolve to: the timing point
read from the timing line (if the group has one), and the difficulty / effect / sample points of the winning line. -/
theorem resolve_step (mode : GameMode) (cp : ControlPoints F) (g : Group F) (last : Props F) (dflt : SampleBank)
    (hne : (groupStep mode cp g last).1 ≠ []) :
    C12.resolve mode ((groupStep mode cp g last).1.map (Entry.read dflt)) =
      { timing := g.timing.map (fun t =>
          (Entry.read dflt ⟨t.time, t.beatLen, Props.new g.time cp last g.timing.isSome mode, true⟩).timingPoint),
        difficulty := some (winnerOf mode cp g last dflt).difficultyPoint,
        effect := some ((winnerOf mode cp g last dflt).effectPoint mode),
        sample := some (winnerOf mode cp g last dflt).samplePoint } := by
  unfold groupStep winnerOf at *
  simp only [] at hne ⊢
  cases ht : g.timing with
  | none =>
    rw [ht] at hne
    simp only [Option.isSome_none] at hne ⊢
    by_cases hr : (Props.new g.time cp last false mode).isRedundant last = true
    · simp [hr] at hne
    · simp only [hr, Bool.false_eq_true, if_false, List.map_cons, List.map_nil, Option.map_none]
      rfl
  | some t =>
    simp only [Option.isSome_some, Option.map_some]
    by_cases hr : (Props.new g.time cp last true mode).isRedundant
        { Props.new g.time cp last true mode with sliderVelocity := 1 } = true
    · simp only [hr, if_true, List.map_cons, List.map_nil]
      rfl
    · simp only [hr, Bool.false_eq_true, if_false, List.map_cons, List.map_nil]
      rfl

/-- what the timing-round-trip needs of the values of a collection (exact arithmetic): sorted lists; signature numerators
`≥ 1`; timing points with a beat length that is a fixpoint of the decoder's clamp and not negative; every slider velocity
(scroll speed in taiko / mania), and the default `1`, invertible through `-100 / v` and a fixpoint of its clamp. -/
structure TimelineHyps (mode : GameMode) (cp : ControlPoints F) : Prop where
  sorted : C13.Sorted cp
  sig : ∀ t ∈ cp.timingPoints, 1 ≤ t.timeSignature.numerator
  beat : ∀ t ∈ cp.timingPoints, clamp t.beatLen (6 : F) (60000 : F) = t.beatLen ∧ lt t.beatLen (0 : F) = false
  sv : ∀ v ∈ (1 : F) :: svSource mode cp, SvInverse v ∧
    (match mode with
     | .taiko | .mania => clamp v (0.01 : F) (10 : F) = v
     | _ => clamp v (0.1 : F) (10 : F) = v)

theorem props_sig_ne_zero {mode : GameMode} {cp : ControlPoints F} (H : TimelineHyps mode cp) (time : F) (last : Props F)
    (upd : Bool) : (Props.new time cp last upd mode).timingSignature ≠ 0 := by
  obtain ⟨_, h2, _⟩ := props_new_fields time cp last upd mode
  rw [h2]
  cases h : cp.timingPointAt time with
  | none => simp [TimeSignature.simpleQuadruple]
  | some t =>
    have := H.sig t (lookupSaturating_mem _ _ _ t h)
    simp only [Option.map_some, Option.getD_some]
    omega

/-- **winner_facts.** The winning line of a group sits at the group's time, carries the slider velocity (scroll speed) and
the kiai flag of the group's properties. -/
theorem winner_facts (E : EpsLaws F) {mode : GameMode} {cp : ControlPoints F} (H : TimelineHyps mode cp) (g : Group F)
    (hwf : ∀ t, g.timing = some t → g.time = t.time ∧ t ∈ cp.timingPoints) (last : Props F) (dflt : SampleBank) :
    let props := Props.new g.time cp last g.timing.isSome mode
    (winnerOf mode cp g last dflt).time = g.time ∧
    (winnerOf mode cp g last dflt).speedMultiplier = props.sliderVelocity ∧
    (winnerOf mode cp g last dflt).kiai = flagKiai props.effectFlags := by
  have hsv : ∀ upd, SvInverse (Props.new g.time cp last upd mode).sliderVelocity := by
    intro upd
    rw [(props_new_fields g.time cp last upd mode).1]
    exact (H.sv _ (svFor_mem mode cp g.time)).1
  have inh : ∀ upd, let p := Props.new g.time cp last upd mode
      (Entry.read dflt ⟨g.time, (-100 : F) / p.sliderVelocity, p, false⟩ : TpLine F).time = g.time ∧
      (Entry.read dflt ⟨g.time, (-100 : F) / p.sliderVelocity, p, false⟩ : TpLine F).speedMultiplier = p.sliderVelocity ∧
      (Entry.read dflt ⟨g.time, (-100 : F) / p.sliderVelocity, p, false⟩ : TpLine F).kiai = flagKiai p.effectFlags := by
    intro upd
    obtain ⟨_, r2, r3, _⟩ := inherited_entry_rt mode g.time (Props.new g.time cp last upd mode) (hsv upd) dflt
    exact ⟨r2, r3, rfl⟩
  unfold winnerOf
  simp only []
  cases ht : g.timing with
  | none => exact inh false
  | some t =>
    simp only [Option.isSome_some]
    split
    · rename_i hr
      obtain ⟨h1, h2⟩ := hwf t ht
      refine ⟨h1.symm, ?_, rfl⟩
      rw [suppressed_after_timing E _ hr]
      simp only [Entry.read, readBack, (H.beat t h2).2, Bool.false_eq_true, if_false]
    · exact inh true

end RtTiming
end Rosu
