/-
  Lemmas/RtTimingLine.lean — ONE `[TimingPoints]` line under the codec laws: the text
  `time,beat,signature,bank,custom,volume,0|1,flags` that `encode_timing_points` writes (`tpLine`), its characters,
  its split into eight fields, and what `parse_timing_points` reads back from it (`parseTpFields_tpLine`).
  The block (groups, redundancy suppression) is in Lemmas/RtTiming.lean.
-/
import RosuModel.Lemmas.CodecLaws
import RosuModel.Lemmas.ToyCodec
import RosuModel.Model.Encode
import RosuModel.Model.TimingDecode
namespace Rosu
namespace RtTiming
open Rosu Encode EncodeLines Scalar
set_option linter.unusedSectionVars false

variable {F P : Type} [Scalar F] [Scalar P] {R : F → Prop}

/-! ### a printed positive integer does not start with `0` -/

theorem digitChar_ne_zero : ∀ d, d < 10 → 1 ≤ d → Char.ofNat ('0'.toNat + d) ≠ '0' := by decide

theorem decDigitsAux_head_ne_zero (fuel n : Nat) (acc : Str) (h1 : 1 ≤ n) (hf : n < fuel) :
    (decDigitsAux fuel n acc).head? ≠ some '0' := by
  induction fuel generalizing n acc with
  | zero => omega
  | succ f ih =>
    unfold decDigitsAux
    by_cases hn : n < 10
    · simp only [hn, if_true, Nat.mod_eq_of_lt hn, List.head?_cons]
      intro e
      exact digitChar_ne_zero n hn h1 (Option.some.inj e)
    · simp only [hn, if_false]
      exact ih (n / 10) _ (by omega) (by omega)

/-- `Display for u32` of a positive number has no leading zero (the decoder keeps 4/4 for a signature field
that starts with `0`). -/
theorem decDigits_head_ne_zero (n : Nat) (h : 1 ≤ n) : (decDigits n).head? ≠ some '0' :=
  decDigitsAux_head_ne_zero (n + 1) n [] h (by omega)

theorem intDigits_natCast (n : Nat) : intDigits (n : Int) = decDigits n := by
  have : ¬ ((n : Int) < 0) := by omega
  simp [intDigits, this]

theorem i32ParseE_decDigits (n : Nat) (h : (n : Int) ≤ i32Max) : i32ParseE (decDigits n) = .ok (n : Int) := by
  rw [← intDigits_natCast]
  exact i32ParseE_intDigits _ (by unfold i32Max; omega) h

/-! ### the line -/

/-- the six fields after time and beat length, comma separated, without the line terminator. -/
def tailStr (p : Props F) (tc : Bool) : Str :=
  showNat p.timingSignature ++ ',' :: (showNat p.sampleBank ++ ',' :: (showInt p.customSampleBank ++ ',' ::
    (showInt p.sampleVolume ++ ',' :: (b01 tc ++ ',' :: showNat p.effectFlags))))

/-- `time,beat,signature,bank,custom,volume,0|1,flags` (without the line terminator); `a`, `b` are the two printed
floats. -/
def tpLine (a b : Str) (p : Props F) (tc : Bool) : Str := a ++ ',' :: (b ++ ',' :: tailStr p tc)

/-- what `write!(.., "{},{},", a, b)` followed by `output_control_point_at` writes is that line plus `\n`. -/
theorem tpLine_eq (a b : Str) (p : Props F) (tc : Bool) :
    a ++ [','] ++ b ++ [','] ++ propsTail p tc = tpLine a b p tc ++ EncodeLines.nl := by
  cases tc <;> simp [tpLine, tailStr, propsTail, b01, Encode.nl, EncodeLines.nl, List.append_assoc]

theorem b01_chars (tc : Bool) : ∀ c ∈ b01 tc, isDig c = true := by
  cases tc <;> decide

theorem tailStr_chars (p : Props F) (tc : Bool) : ∀ c ∈ tailStr p tc, numChar c = true ∨ c = ',' := by
  intro c hc
  have dig : ∀ {c : Char}, isDig c = true → numChar c = true := fun h => by simp [numChar, h]
  have int : ∀ (v : Int) {c : Char}, c ∈ intDigits v → numChar c = true := fun v c h => ZC.numChar_of_intDigits v c h
  simp only [tailStr, showNat, showInt, List.mem_append, List.mem_cons] at hc
  rcases hc with h | h | h | h | h | h | h | h | h | h | h
  · exact Or.inl (dig (decDigits_isDig _ c h))
  · exact Or.inr h
  · exact Or.inl (dig (decDigits_isDig _ c h))
  · exact Or.inr h
  · exact Or.inl (int _ h)
  · exact Or.inr h
  · exact Or.inl (int _ h)
  · exact Or.inr h
  · exact Or.inl (dig (b01_chars tc c h))
  · exact Or.inr h
  · exact Or.inl (dig (decDigits_isDig _ c h))

theorem tpLine_chars (a b : Str) (p : Props F) (tc : Bool) (ha : ∀ c ∈ a, numChar c = true) (hb : ∀ c ∈ b, numChar c = true) :
    ∀ c ∈ tpLine a b p tc, numChar c = true ∨ c = ',' := by
  intro c hc
  simp only [tpLine, List.mem_append, List.mem_cons] at hc
  rcases hc with h | h | h | h | h
  · exact Or.inl (ha c h)
  · exact Or.inr h
  · exact Or.inl (hb c h)
  · exact Or.inr h
  · exact tailStr_chars p tc c h

theorem tpLine_not_mem (a b : Str) (p : Props F) (tc : Bool) (ha : ∀ c ∈ a, numChar c = true) (hb : ∀ c ∈ b, numChar c = true)
    (d : Char) (hd : numChar d = false) (hd2 : d ≠ ',') : d ∉ tpLine a b p tc := by
  intro hm
  rcases tpLine_chars a b p tc ha hb d hm with h | h
  · rw [hd] at h; cases h
  · exact hd2 h

theorem trimEnd_tpLine (a b : Str) (p : Props F) (tc : Bool) (ha : ∀ c ∈ a, numChar c = true) (hb : ∀ c ∈ b, numChar c = true) :
    trimEnd (tpLine a b p tc) = tpLine a b p tc := by
  apply trimEnd_no_ws
  intro c hc
  rcases tpLine_chars a b p tc ha hb c hc with h | h
  · exact numChar_not_ws h
  · subst h; decide

theorem trimComment_tpLine (a b : Str) (p : Props F) (tc : Bool) (ha : ∀ c ∈ a, numChar c = true) (hb : ∀ c ∈ b, numChar c = true) :
    trimComment (tpLine a b p tc) = tpLine a b p tc := by
  rw [trimComment_of_not_hasDS _ (hasDS_of_no_slash _ (tpLine_not_mem a b p tc ha hb '/' (by decide) (by decide))),
    trimEnd_tpLine a b p tc ha hb]

/-- the eight fields `split(',')` yields. -/
theorem splitOn_tpLine (a b : Str) (p : Props F) (tc : Bool) (ha : ',' ∉ a) (hb : ',' ∉ b) :
    splitOn ',' (tpLine a b p tc) =
      [a, b, showNat p.timingSignature, showNat p.sampleBank, showInt p.customSampleBank, showInt p.sampleVolume, b01 tc,
        showNat p.effectFlags] := by
  have hb01 : ',' ∉ b01 tc := by cases tc <;> decide
  simp only [tpLine, tailStr, showNat, showInt]
  rw [splitOn_append_sep ',' _ _ ha, splitOn_append_sep ',' _ _ hb,
    splitOn_append_sep ',' _ _ (decDigits_not_mem _ _ (by decide)), splitOn_append_sep ',' _ _ (decDigits_not_mem _ _ (by decide)),
    splitOn_append_sep ',' _ _ (intDigits_not_mem _ _ (by decide)), splitOn_append_sep ',' _ _ (intDigits_not_mem _ _ (by decide)),
    splitOn_append_sep ',' _ _ hb01, splitOn_no_sep ',' _ (decDigits_not_mem _ _ (by decide))]

/-! ### the field parsers on printed values -/

/-- the beat-length field's own limits: `f64::from(∓MAX_PARSE_VALUE)` (a NaN passes, as in the Rust). -/
def BeatLimit (b : F) : Prop := lt b (ofInt (-i32Max) : F) = false ∧ lt (ofInt i32Max : F) b = false

theorem parseBeatLen_print (L : CodecLaws F R) {b : F} (hb : R b) (hl : BeatLimit b) :
    (parseBeatLen (Scalar.print b) : Except TpErr F) = .ok b := by
  unfold parseBeatLen
  rw [L.trim_print hb, L.parse_print b hb]
  simp [hl.1, hl.2]

theorem parseTimeSignature_decDigits (n : Nat) (h1 : 1 ≤ n) (h2 : (n : Int) ≤ i32Max) :
    parseTimeSignature (some (decDigits n)) = .ok ⟨n⟩ := by
  unfold parseTimeSignature
  have hh : ((decDigits n).head? == some '0') = false := by
    have := decDigits_head_ne_zero n h1
    cases h : (decDigits n).head? with
    | none => rfl
    | some c =>
      rw [h] at this
      have : c ≠ '0' := fun e => this (by rw [e])
      simpa using this
  have h3 : (1 : Int) ≤ (n : Int) := by omega
  simp [hh, i32ParseE_decDigits n h2, TimeSignature.new, h3]

theorem optI32_decDigits (n : Nat) (h : (n : Int) ≤ i32Max) : optI32 (some (decDigits n)) = .ok (some (n : Int)) := by
  simp [optI32, i32ParseE_decDigits n h]

theorem optI32_intDigits (v : Int) (hlo : -i32Max ≤ v) (hhi : v ≤ i32Max) : optI32 (some (intDigits v)) = .ok (some v) := by
  simp [optI32, i32ParseE_intDigits v hlo hhi]

theorem parseEffectFlags_decDigits (n : Nat) (h : (n : Int) ≤ i32Max) :
    parseEffectFlags (some (decDigits n)) = .ok (flagKiai n, flagOmitFirstBarLine n) := by
  simp [parseEffectFlags, i32FromStr_decDigits n h]

theorem b01_head (tc : Bool) : ((b01 tc).head? == some '1') = tc := by cases tc <;> decide

/-! ### representable line contents -/

/-- the integer fields a line can carry: a signature numerator the decoder accepts (`≥ 1`, within its `i32` limit and
therefore printed without a leading `0`), and bank / custom bank / volume / flags within the parse limit ±(2³¹−1). -/
structure RepProps (p : Props F) : Prop where
  sig : 1 ≤ p.timingSignature ∧ (p.timingSignature : Int) ≤ i32Max
  bank : (p.sampleBank : Int) ≤ i32Max
  custom : -i32Max ≤ p.customSampleBank ∧ p.customSampleBank ≤ i32Max
  volume : -i32Max ≤ p.sampleVolume ∧ p.sampleVolume ≤ i32Max
  flags : (p.effectFlags : Int) ≤ i32Max

/-- the sample set `parse_timing_points` stores for a bank number (unknown numbers read as the section default,
`None` as `Normal`). -/
def bankRead (dflt : SampleBank) (n : Nat) : SampleBank :=
  let b := (SampleBank.ofInt (n : Int)).getD dflt
  if b == SampleBank.none then SampleBank.normal else b

/-- the locals of `parse_timing_points` after reading the line written for `(ta, tb, p, tc)`. -/
def readBack (dflt : SampleBank) (ta tb : F) (p : Props F) (tc : Bool) : TpLine F :=
  { time := ta, beatLen := tb, speedMultiplier := if lt tb (0 : F) then (100 : F) / (-tb) else 1,
    timeSignature := ⟨p.timingSignature⟩, sampleSet := bankRead dflt p.sampleBank,
    customSampleBank := p.customSampleBank, sampleVolume := p.sampleVolume, timingChange := tc,
    kiai := flagKiai p.effectFlags, omitFirstBarLine := flagOmitFirstBarLine p.effectFlags }

theorem parseTpRaw_fields (L : CodecLaws F R) (g : GeneralState F P) (ta tb : F) (p : Props F) (tc : Bool)
    (hta : R ta) (hla : InLimit ta) (htb : R tb) (hlb : BeatLimit tb) (hp : RepProps p) :
    parseTpRaw g [Scalar.print ta, Scalar.print tb, showNat p.timingSignature, showNat p.sampleBank,
      showInt p.customSampleBank, showInt p.sampleVolume, b01 tc, showNat p.effectFlags] =
      .ok (readBack g.defaultSampleBank ta tb p tc) := by
  unfold parseTpRaw
  simp only [scalarParse_print L hta hla, parseBeatLen_print L htb hlb, showNat, showInt,
    List.getElem?_cons_zero, List.getElem?_cons_succ,
    parseTimeSignature_decDigits _ hp.sig.1 hp.sig.2, optI32_decDigits _ hp.bank,
    optI32_intDigits _ hp.custom.1 hp.custom.2, optI32_intDigits _ hp.volume.1 hp.volume.2,
    parseEffectFlags_decDigits _ hp.flags, b01_head]
  rfl

/-- **one line, read back**: `parse_timing_points`' field parser accepts the end-trimmed line written for a
representable `(time, beat, props, 0|1)` and reads exactly those values (under the codec laws). A NaN beat length
is only admitted on an inherited line — exactly the decoder's rule. -/
theorem parseTpFields_tpLine (L : CodecLaws F R) (g : GeneralState F P) (ta tb : F) (p : Props F) (tc : Bool)
    (hta : R ta) (hla : InLimit ta) (htb : R tb) (hlb : BeatLimit tb) (hn : tc = true → isNaN tb = false) (hp : RepProps p) :
    parseTpFields g (trimEnd (tpLine (Scalar.print ta) (Scalar.print tb) p tc)) =
      .ok (readBack g.defaultSampleBank ta tb p tc) := by
  have ha := L.print_clean ta hta
  have hb := L.print_clean tb htb
  unfold parseTpFields
  rw [trimEnd_tpLine _ _ p tc ha hb, trimComment_tpLine _ _ p tc ha hb,
    splitOn_tpLine _ _ p tc (L.not_mem hta ',' (by decide)) (L.not_mem htb ',' (by decide)),
    parseTpRaw_fields L g ta tb p tc hta hla htb hlb hp]
  simp only [checkNaN, readBack]
  cases tc with
  | false => simp
  | true => simp [hn rfl]

/-- the line is LF-free, and (end-trimmed) neither a section header nor a skipped line: it starts with a number
character. -/
theorem tpLine_shape (L : CodecLaws F R) (ta tb : F) (p : Props F) (tc : Bool) (hta : R ta) (htb : R tb) :
    '\n' ∉ tpLine (Scalar.print ta) (Scalar.print tb) p tc ∧
    RecordLine (trimEnd (tpLine (Scalar.print ta) (Scalar.print tb) p tc)) := by
  have ha := L.print_clean ta hta
  have hb := L.print_clean tb htb
  refine ⟨tpLine_not_mem _ _ p tc ha hb '\n' (by decide) (by decide), ?_⟩
  rw [trimEnd_tpLine _ _ p tc ha hb]
  obtain ⟨c, r, hc, hn⟩ := L.head hta
  unfold tpLine
  rw [hc, List.cons_append]
  obtain ⟨h1, h2, h3⟩ := numChar_isAlnum_or hn
  exact recordLine_of_head c _ h1 h2 h3

end RtTiming
end Rosu
