/-
  Lemmas/FloatCodecLawsText.lean — the text side of the real number codec of Model/FloatCodec.lean (core Lean only):
  * `renderDecimal d k` is non-empty, consists of ASCII digits and at most one `.`, starts with a digit;
  * `parseDecimal (renderDecimal d k) = some (m', e')` with `m' · 10^e' = d · 10^k` (`parseDecimal_renderDecimal`,
    stated by cross-multiplication over `Nat`), through the trailing-zero stripping and the three positional
    forms `ddd000`, `ddd.ddd`, `0.000ddd`;
  * `printBits f b` is non-empty and made of number characters (`printBits_clean`, `printBits_ne_nil`) — for every
    format and every bit pattern, NaN included.
-/
import RosuModel.Model.FloatCodec
import RosuModel.Lemmas.CodecLaws
namespace Rosu
namespace FCL

/-! ### decimal digits of a natural number -/

theorem natDigits_eq (n : Nat) : natDigits n = Nat.toDigits 10 n := by
  simp [natDigits]

theorem natDigits_isDig (n : Nat) : ∀ c ∈ natDigits n, isDig c = true := by
  intro c hc
  rw [natDigits_eq] at hc
  have h := Nat.isDigit_of_mem_toDigits (by decide) (by decide) hc
  simp only [Char.isDigit, Bool.and_eq_true, decide_eq_true_eq] at h
  rw [isDig_iff]
  have h1 := h.1; have h2 := h.2
  simp only [UInt32.le_iff_toNat_le] at h1 h2
  exact ⟨h1, h2⟩

theorem natDigits_ne_nil (n : Nat) : natDigits n ≠ [] := by
  rw [natDigits_eq]; exact Nat.toDigits_ne_nil

theorem digitsToNat_eq (s : Str) : digitsToNat s = Nat.ofDigitChars 10 s 0 := by
  unfold digitsToNat Nat.ofDigitChars
  congr 1
  funext a c
  show a * 10 + _ = 10 * a + _
  rw [Nat.mul_comm]; rfl

theorem digitsToNat_natDigits (n : Nat) : digitsToNat (natDigits n) = n := by
  rw [digitsToNat_eq, natDigits_eq]; exact Nat.ofDigitChars_ten_toDigits

theorem digitsToNat_append (a b : Str) : digitsToNat (a ++ b) = digitsToNat a * 10 ^ b.length + digitsToNat b := by
  rw [digitsToNat_eq, digitsToNat_eq, digitsToNat_eq, Nat.ofDigitChars_append,
    Nat.ofDigitChars_eq_ofDigitChars_zero, Nat.mul_comm]

theorem digitsToNat_zeros (n : Nat) : digitsToNat (List.replicate n '0') = 0 := by
  rw [digitsToNat_eq, Nat.ofDigitChars_replicate_zero]; simp

/-- number of decimal digits: `10^(len-1) ≤ n < 10^len` for `n > 0`. -/
theorem natDigits_length_bounds (n : Nat) (hn : 0 < n) :
    n < 10 ^ (natDigits n).length ∧ 10 ^ ((natDigits n).length - 1) ≤ n := by
  have hl : (natDigits n).length = n.repr.length := by
    rw [natDigits_eq, ← Nat.toList_repr, String.length_toList]
  have hpos : 0 < n.repr.length := Nat.length_repr_pos
  constructor
  · rw [hl]; exact (Nat.length_repr_le_iff hpos).1 (Nat.le_refl _)
  · rw [hl]
    by_cases h1 : n.repr.length = 1
    · rw [h1]; exact hn
    · have hk : 0 < n.repr.length - 1 := by omega
      refine Nat.le_of_not_lt fun hlt => ?_
      have := (Nat.length_repr_le_iff hk).2 hlt
      omega

theorem toString_length (n : Nat) : (toString n).length = (natDigits n).length := by
  rw [natDigits_eq, ← Nat.toList_repr, String.length_toList]; rfl

/-! ### `spanDigits`, `parseDecimal` on the positional forms -/

theorem digitVal_of_not_isDig {c : Char} (h : isDig c = false) : digitVal c = none := by
  unfold digitVal
  have : ¬ (48 ≤ c.toNat ∧ c.toNat ≤ 57) := by
    intro h'; rw [(isDig_iff c).2 h'] at h; cases h
  simp only [show '0'.toNat = 48 from rfl, show '9'.toNat = 57 from rfl, this, if_false]

theorem spanDigits_digits (a : Str) (ha : ∀ c ∈ a, isDig c = true) (rest : Str)
    (hr : ∀ c r, rest = c :: r → isDig c = false) : spanDigits (a ++ rest) = (a, rest) := by
  induction a with
  | nil =>
    cases rest with
    | nil => rfl
    | cons c r => simp [spanDigits, digitVal_of_not_isDig (hr c r rfl)]
  | cons x xs ih =>
    have hx : isDig x = true := ha x (by simp)
    have := ih (fun c hc => ha c (by simp [hc]))
    simp [spanDigits, isDig_digitVal hx, this]

theorem spanDigits_all (a : Str) (ha : ∀ c ∈ a, isDig c = true) : spanDigits a = (a, []) := by
  simpa using spanDigits_digits a ha [] (by simp)

theorem parseDecimal_int (a : Str) (ha : ∀ c ∈ a, isDig c = true) (hne : a ≠ []) :
    parseDecimal a = some (digitsToNat a, 0) := by
  unfold parseDecimal
  simp only [spanDigits_all a ha]
  cases a with
  | nil => exact absurd rfl hne
  | cons x xs => simp

theorem parseDecimal_frac (a b : Str) (ha : ∀ c ∈ a, isDig c = true) (hb : ∀ c ∈ b, isDig c = true) (hne : a ≠ []) :
    parseDecimal (a ++ '.' :: b) = some (digitsToNat (a ++ b), -(b.length : Int)) := by
  have h1 : spanDigits (a ++ '.' :: b) = (a, '.' :: b) :=
    spanDigits_digits a ha _ (by intro c r h; cases h; decide)
  unfold parseDecimal
  simp only [h1, spanDigits_all b hb]
  cases a with
  | nil => exact absurd rfl hne
  | cons x xs => simp

/-! ### `renderDecimal` -/

theorem strip_spec (fuel : Nat) : ∀ (d : Nat) (k : Int), 0 < d →
    0 < (renderDecimal.strip d k fuel).1 ∧ k ≤ (renderDecimal.strip d k fuel).2 ∧
      (renderDecimal.strip d k fuel).1 * 10 ^ ((renderDecimal.strip d k fuel).2 - k).toNat = d := by
  induction fuel with
  | zero => intro d k hd; simp [renderDecimal.strip, hd]
  | succ fuel ih =>
    intro d k hd
    unfold renderDecimal.strip
    by_cases h : (d != 0 && d % 10 == 0) = true
    · rw [if_pos h]
      simp only [Bool.and_eq_true, bne_iff_ne, ne_eq, beq_iff_eq] at h
      have hd' : 0 < d / 10 := by omega
      obtain ⟨h1, h2, h3⟩ := ih (d / 10) (k + 1) hd'
      refine ⟨h1, by omega, ?_⟩
      generalize renderDecimal.strip (d / 10) (k + 1) fuel = r at h1 h2 h3 ⊢
      have e : (r.2 - k).toNat = (r.2 - (k + 1)).toNat + 1 := by omega
      rw [e, Nat.pow_succ, ← Nat.mul_assoc, h3]
      omega
    · rw [if_neg h]; simp [hd]

theorem renderDecimal_eq (d : Nat) (k : Int) : renderDecimal d k =
    (if (renderDecimal.strip d k 40).2 ≥ 0 then
      natDigits (renderDecimal.strip d k 40).1 ++ List.replicate (renderDecimal.strip d k 40).2.toNat '0'
    else if (natDigits (renderDecimal.strip d k 40).1).length > (-(renderDecimal.strip d k 40).2).toNat then
      (natDigits (renderDecimal.strip d k 40).1).take
          ((natDigits (renderDecimal.strip d k 40).1).length - (-(renderDecimal.strip d k 40).2).toNat) ++ ['.'] ++
        (natDigits (renderDecimal.strip d k 40).1).drop
          ((natDigits (renderDecimal.strip d k 40).1).length - (-(renderDecimal.strip d k 40).2).toNat)
    else str "0." ++ List.replicate ((-(renderDecimal.strip d k 40).2).toNat -
        (natDigits (renderDecimal.strip d k 40).1).length) '0' ++ natDigits (renderDecimal.strip d k 40).1) := rfl

/-- the three positional forms, for stripped digits `d'` and exponent `k'`. -/
theorem renderForm (d' : Nat) (k' : Int) (s : Str)
    (hs : s = (if k' ≥ 0 then natDigits d' ++ List.replicate k'.toNat '0'
      else if (natDigits d').length > (-k').toNat then
        (natDigits d').take ((natDigits d').length - (-k').toNat) ++ ['.'] ++
          (natDigits d').drop ((natDigits d').length - (-k').toNat)
      else str "0." ++ List.replicate ((-k').toNat - (natDigits d').length) '0' ++ natDigits d')) :
    (∃ c r, s = c :: r ∧ isDig c = true) ∧ (∀ c ∈ s, isDig c = true ∨ c = '.') ∧
      parseDecimal s = some (if k' ≥ 0 then (d' * 10 ^ k'.toNat, 0) else (d', k')) := by
  have hdig := natDigits_isDig d'
  have hne := natDigits_ne_nil d'
  have hval := digitsToNat_natDigits d'
  generalize natDigits d' = ds at *
  have hz : ∀ n, ∀ c ∈ List.replicate n '0', isDig c = true := by
    intro n c hc; rw [List.eq_of_mem_replicate hc]; decide
  obtain ⟨x, xs, hx⟩ : ∃ x xs, ds = x :: xs := by
    cases ds with
    | nil => exact absurd rfl hne
    | cons x xs => exact ⟨x, xs, rfl⟩
  by_cases hk : k' ≥ 0
  · rw [if_pos hk] at hs
    rw [if_pos hk]
    have hall : ∀ c ∈ s, isDig c = true := by
      intro c hc; rw [hs, List.mem_append] at hc
      rcases hc with hc | hc
      · exact hdig c hc
      · exact hz _ c hc
    refine ⟨⟨x, xs ++ List.replicate k'.toNat '0', by rw [hs, hx]; rfl, hdig x (by simp [hx])⟩,
      fun c hc => Or.inl (hall c hc), ?_⟩
    rw [parseDecimal_int s hall (by rw [hs, hx]; simp), hs, digitsToNat_append, digitsToNat_zeros, hval]
    simp
  · rw [if_neg hk] at hs
    rw [if_neg hk]
    by_cases hl : ds.length > (-k').toNat
    · rw [if_pos hl] at hs
      have hs' : s = ds.take (ds.length - (-k').toNat) ++ '.' :: ds.drop (ds.length - (-k').toNat) := by
        rw [hs]; simp
      have hta : ∀ c ∈ ds.take (ds.length - (-k').toNat), isDig c = true :=
        fun c hc => hdig c (List.mem_of_mem_take hc)
      have hdr : ∀ c ∈ ds.drop (ds.length - (-k').toNat), isDig c = true :=
        fun c hc => hdig c (List.mem_of_mem_drop hc)
      have htn : ds.take (ds.length - (-k').toNat) ≠ [] := by
        intro h; have := congrArg List.length h; simp at this; omega
      refine ⟨?_, ?_, ?_⟩
      · obtain ⟨n, hn⟩ : ∃ n, ds.length - (-k').toNat = n + 1 := ⟨ds.length - (-k').toNat - 1, by omega⟩
        refine ⟨x, xs.take n ++ '.' :: ds.drop (ds.length - (-k').toNat), ?_, hdig x (by simp [hx])⟩
        rw [hs', hn, hx]; rfl
      · intro c hc; rw [hs', List.mem_append, List.mem_cons] at hc
        rcases hc with hc | hc | hc
        · exact Or.inl (hta c hc)
        · exact Or.inr hc
        · exact Or.inl (hdr c hc)
      · rw [hs', parseDecimal_frac _ _ hta hdr htn, List.take_append_drop, hval]
        congr 2
        simp only [List.length_drop]; omega
    · rw [if_neg hl] at hs
      have hs' : s = ['0'] ++ '.' :: (List.replicate ((-k').toNat - ds.length) '0' ++ ds) := by
        rw [hs]; simp [str]
      have hb : ∀ c ∈ List.replicate ((-k').toNat - ds.length) '0' ++ ds, isDig c = true := by
        intro c hc; rw [List.mem_append] at hc
        rcases hc with hc | hc
        · exact hz _ c hc
        · exact hdig c hc
      refine ⟨⟨'0', _, hs', by decide⟩, ?_, ?_⟩
      · intro c hc
        simp only [hs', List.mem_append, List.mem_cons, List.not_mem_nil, or_false] at hc
        rcases hc with hc | hc | hc | hc
        · rw [hc]; exact Or.inl (by decide)
        · exact Or.inr hc
        · exact Or.inl (hz _ c hc)
        · exact Or.inl (hdig c hc)
      · have h0 : ∀ c ∈ ['0'], isDig c = true := by
          intro c hc
          simp only [List.mem_cons, List.not_mem_nil, or_false] at hc
          rw [hc]; decide
        rw [hs', parseDecimal_frac _ _ h0 hb (by simp)]
        congr 2
        · rw [← List.append_assoc, digitsToNat_append,
            show ['0'] ++ List.replicate ((-k').toNat - ds.length) '0' = List.replicate ((-k').toNat - ds.length + 1) '0' from by
              simp [List.replicate_succ],
            digitsToNat_zeros, hval]
          simp
        · simp only [List.length_append, List.length_replicate]; omega

theorem renderDecimal_head (d : Nat) (k : Int) : ∃ c r, renderDecimal d k = c :: r ∧ isDig c = true :=
  (renderForm _ _ _ (renderDecimal_eq d k)).1

theorem renderDecimal_chars (d : Nat) (k : Int) : ∀ c ∈ renderDecimal d k, isDig c = true ∨ c = '.' :=
  (renderForm _ _ _ (renderDecimal_eq d k)).2.1

/-- **`parseDecimal ∘ renderDecimal`**: the rendered positional decimal of `d · 10^k` (`d > 0`) parses to a mantissa
and exponent `(m', e')` denoting the same rational: `m' · 10^e' = d · 10^k`, cross-multiplied over `Nat`
(`10 ^ x.toNat` is the numerator part and `10 ^ (-x).toNat` the denominator part of `10^x`). -/
theorem parseDecimal_renderDecimal (d : Nat) (k : Int) (hd : 0 < d) :
    ∃ m' e', parseDecimal (renderDecimal d k) = some (m', e') ∧ 0 < m' ∧
      m' * 10 ^ e'.toNat * 10 ^ (-k).toNat = d * 10 ^ k.toNat * 10 ^ (-e').toNat := by
  obtain ⟨h1, h2, h3⟩ := strip_spec 40 d k hd
  have hp := (renderForm _ _ _ (renderDecimal_eq d k)).2.2
  generalize renderDecimal.strip d k 40 = r at h1 h2 h3 hp
  obtain ⟨d', k'⟩ := r
  simp only at h1 h2 h3 hp
  by_cases hk : k' ≥ 0
  · rw [if_pos hk] at hp
    refine ⟨_, _, hp, Nat.mul_pos h1 (Nat.pow_pos (by decide)), ?_⟩
    rw [← h3]
    simp only [Int.toNat_zero, Int.neg_zero, Nat.pow_zero, Nat.mul_one, Nat.mul_assoc, ← Nat.pow_add]
    congr 2; omega
  · rw [if_neg hk] at hp
    refine ⟨_, _, hp, h1, ?_⟩
    rw [← h3]
    simp only [Nat.mul_assoc, ← Nat.pow_add]
    congr 2; omega

/-! ### `printBits` is non-empty and clean -/

theorem numChar_of_isDig {c : Char} (h : isDig c = true) : numChar c = true := by simp [numChar, h]

theorem renderDecimal_clean (d : Nat) (k : Int) : ∀ c ∈ renderDecimal d k, numChar c = true := by
  intro c hc
  rcases renderDecimal_chars d k c hc with h | h
  · exact numChar_of_isDig h
  · rw [h]; decide

theorem renderDecimal_ne_nil (d : Nat) (k : Int) : renderDecimal d k ≠ [] := by
  obtain ⟨c, r, h, _⟩ := renderDecimal_head d k
  rw [h]; simp

/-- the body `printBits` writes after the sign. -/
def body (f : FloatFmt) (mag : Nat) : Str :=
  if mag == f.infBits then str "inf"
  else if mag == 0 then str "0"
  else renderDecimal (shortestDigits f mag).1 (shortestDigits f mag).2

theorem printBits_eq (f : FloatFmt) (b : Nat) : printBits f b =
    if b % f.signBit > f.infBits then str "NaN"
    else if b ≥ f.signBit then '-' :: body f (b % f.signBit) else body f (b % f.signBit) := by
  unfold printBits body
  simp only []

theorem body_clean (f : FloatFmt) (mag : Nat) : ∀ c ∈ body f mag, numChar c = true := by
  unfold body
  split
  · decide
  · split
    · decide
    · exact renderDecimal_clean _ _

theorem body_ne_nil (f : FloatFmt) (mag : Nat) : body f mag ≠ [] := by
  unfold body
  split
  · decide
  · split
    · decide
    · exact renderDecimal_ne_nil _ _

/-- **`printBits_clean`**: every character `printBits` writes is a number character — any format, any pattern. -/
theorem printBits_clean (f : FloatFmt) (b : Nat) : ∀ c ∈ printBits f b, numChar c = true := by
  rw [printBits_eq]
  split
  · decide
  · split
    · intro c hc
      rcases List.mem_cons.1 hc with h | h
      · rw [h]; decide
      · exact body_clean f _ c h
    · exact body_clean f _

/-- **`printBits_ne_nil`**. -/
theorem printBits_ne_nil (f : FloatFmt) (b : Nat) : printBits f b ≠ [] := by
  rw [printBits_eq]
  split
  · decide
  · split
    · simp
    · exact body_ne_nil f _

end FCL
end Rosu
