/-
  Lemmas/HoGrammarSpec.lean — `HoSpec`: a declarative reference grammar for one `[HitObjects]` line.

  Written from the text of property C14, the osu! legacy file-format rules and the independent Python
  reference `lib/refho.py` — NOT from the control flow of `parse_hit_objects`. The line is looked at as
  an indexed list of comma-separated fields; every field has a *meaning function* (`Option`-valued:
  `none` = malformed) that is defined on its own, and `specLine` assembles the meanings, naming the
  reason (`Reject`) when a line is not a hit object. Nothing here is stateful: the decoder state the
  line depends on is the explicit context `Ctx` (game mode, remembered type of the previous accepted
  line, control points left in the path buffer), and the state change is the function `step`.

  Primitives taken as given (the "number parser is abstract"): `Scalar.parse`, `trim`, the `i32`
  readers `i32FromStr` / `i32Parse`, `splitOn`, `trimComment`, the `Scalar` comparisons and casts.
  Re-used declarative pieces of Props/C14Split.lean: `cutSegments` (where a path string is cut),
  `isSplit` / `emitRange` / `typeFirst` (what a repeated point does). Re-used data constructors:
  `HitSampleInfo.new`, `PathType.newFromStr` (type letters), `effectivePathType` (perfect-curve downgrade).

  `Props/C14Grammar.lean` proves `parse_eq_reference`: the model parser computes exactly this.
-/
import RosuModel.Props.C14Split
namespace Rosu.C14.HoSpec
open Rosu Scalar

variable {F P : Type} [Scalar F] [Scalar P] [Cvt P F]

/-! ### why a line is rejected — the complete list -/

inductive Reject
  /-- fewer than five comma-separated fields (after the `//` comment and trailing blanks are cut) -/
  | tooFewFields
  /-- `x` / `y`: not a float literal, NaN, or outside ±131072 -/
  | badX
  | badY
  /-- start time: not a float literal, NaN, or outside ±2147483647 -/
  | badTime
  /-- type field: not an `i32` literal (sign and digits only — blanks are NOT trimmed here) -/
  | badType
  /-- hit-sound field: not an `i32` literal (not trimmed either) -/
  | badSound
  /-- none of the kind bits circle (1), slider (2), spinner (8), hold (128) is set -/
  | noKind
  /-- the sample field `normal:addition[:custom[:volume[:file]]]` of the object is malformed -/
  | badSampleTail
  /-- a slider without path and repeat fields -/
  | sliderTooFewFields
  /-- repeat field: not an `i32` literal after trimming, or magnitude beyond `i32::MAX` -/
  | badRepeat
  /-- repeat field above 9000 -/
  | repeatTooLarge
  /-- length field present but not a float within ±131072 -/
  | badLength
  /-- one of the first `repeats + 2` pieces of the edge-set field is a malformed sample field -/
  | badEdgeSet
  /-- the path string is malformed (empty piece, unreadable point, later segment without any vertex) -/
  | badPath
  /-- a spinner without an end-time field -/
  | spinnerNoEnd
  /-- spinner / hold end time: not a float literal, NaN, or outside ±2147483647 -/
  | badEndTime
  deriving DecidableEq, Repr

/-- an absent mandatory thing rejects with the given reason. -/
def need {α : Type} (o : Option α) (r : Reject) : Except Reject α :=
  match o with
  | some a => .ok a
  | none => .error r

/-- a condition that must hold, else the line is rejected with the given reason. -/
def check (b : Bool) (r : Reject) : Except Reject Unit := if b then .ok () else .error r

/-- every element must be well formed. -/
def allSome {α : Type} : List (Option α) → Option (List α)
  | [] => some []
  | none :: _ => none
  | some a :: rest => (allSome rest).map (a :: ·)

/-! ### fields and numbers -/

/-- the fields of a line: cut the `//` comment and trailing blanks, split at every comma. -/
def fieldsOf (line : Str) : List Str := splitOn ',' (trimComment line)

/-- an optional field that also counts as absent when it is empty (edge sounds, edge sets, hold tail). -/
def nonEmptyField (fs : List Str) (i : Nat) : Option Str :=
  match fs[i]? with
  | some s => if s.isEmpty then none else some s
  | none => none

/-- `v` is a number (not NaN) with `-lim ≤ v ≤ lim`, phrased with the comparison the code has. -/
def withinLimit {α : Type} [Scalar α] (v lim : α) : Bool := !(lt v (-lim)) && !(lt lim v) && !(isNaN v)

/-- a float field: blanks around it are ignored, it must be a literal of the number parser and lie within ±`lim`. -/
def number {α : Type} [Scalar α] (s : Str) (lim : α) : Option α :=
  match (Scalar.parse (trim s) : Option α) with
  | some v => if withinLimit v lim then some v else none
  | none => none

/-- a coordinate of the object: an `f32` within ±131072, truncated towards zero to an integer. -/
def coordinate (s : Str) : Option P :=
  (number s (Scalar.ofInt 131072 : P)).map fun v => Scalar.ofInt (Scalar.toI32 v)

/-- a time: an `f64` within ±(2³¹ − 1). -/
def time (s : Str) : Option F := number s (Scalar.ofInt 2147483647 : F)

/-! ### the type field: kind bits, new-combo bit, combo-offset bits -/

/-- kind of the object, by flag precedence circle (bit 0) > slider (bit 1) > spinner (bit 3) > hold (bit 7),
read off the type value *as written* (the combo bits play no part). -/
def kindOf (ty : Int) : Option ObjClass :=
  if testBit ty 0 then some .circle
  else if testBit ty 1 then some .slider
  else if testBit ty 3 then some .spinner
  else if testBit ty 7 then some .hold
  else none

/-- the new-combo flag: bit 2 (value 4). -/
def newComboFlag (ty : Int) : Bool := testBit ty 2

/-- the combo offset: bits 4, 5, 6 (values 16, 32, 64) read as a number 0..7. -/
def comboOffsetBits (ty : Int) : Int :=
  (if testBit ty 4 then 1 else 0) + (if testBit ty 5 then 2 else 0) + (if testBit ty 6 then 4 else 0)

/-- what the decoder remembers of an accepted line: its type with the new-combo and combo-offset bits cleared. -/
def rememberedType (ty : Int) : Int := ty - (if testBit ty 2 then 4 else 0) - 16 * comboOffsetBits ty

/-- the decoder-relevant context of a line. -/
structure Ctx (P : Type) where
  mode : GameMode
  /-- remembered type of the previous accepted line (`none`: this is the first object) -/
  lastType : Option Int := none
  /-- control points an earlier line left in the path buffer (always `[]` in a state the decoder
  reaches from its initial state, `leftover_stays_empty`) -/
  leftover : List (PathControlPoint P) := []

/-- "directly follows a spinner" **as the code implements it**: the previous accepted line had the
spinner bit (8) in its type — whatever kind precedence made of it (a type `9` line is a circle, and the
object after it still gets a forced new combo). -/
def afterSpinner (ctx : Ctx P) : Bool :=
  match ctx.lastType with
  | some t => testBit t 3
  | none => false

/-- new combo of a circle or slider: its own flag, or forced for the first object / after a spinner. -/
def startsCombo (ctx : Ctx P) (ty : Int) : Bool := ctx.lastType.isNone || afterSpinner ctx || newComboFlag ty

/-- the combo offset counts only together with the new-combo flag. -/
def comboOffset (ty : Int) : Int := if newComboFlag ty then comboOffsetBits ty else 0

/-! ### samples -/

/-- a bank code: 0 = not specified, 1 = normal, 2 = soft, 3 = drum, anything else counts as normal. -/
def bankOfCode (n : Int) : Option SampleBank :=
  if n = 0 then none else if n = 2 then some .soft else if n = 3 then some .drum else some .normal

/-- an optional integer piece: absent is fine, present must be an `i32` (trimmed, not `i32::MIN`). -/
def optInt (ps : List Str) (i : Nat) : Option (Option Int) :=
  match ps[i]? with
  | none => some none
  | some s => (i32Parse s).map some

/-- **the sample field** `normal:addition[:custom[:volume[:file]]]`, already split at `:`, read over the
defaults `base`. An empty first piece (or no piece) leaves the defaults. Otherwise both bank codes are
mandatory integers; an unspecified addition bank falls back to the normal bank. With `banksOnly` (the
tail of a slider line) the remaining pieces are not looked at. Otherwise custom index and volume are
optional integers (negative volume = 0), and the file name is the fifth piece — the file name of `base`
is dropped as soon as the banks are given. -/
def sampleField (base : SampleBankInfo) (ps : List Str) (banksOnly : Bool) : Option SampleBankInfo :=
  match ps[0]? with
  | none => some base
  | some p0 =>
    if p0.isEmpty then some base else
    match i32Parse p0, (ps[1]?).bind i32Parse with
    | some n, some a =>
      let banks : SampleBankInfo :=
        { base with bankForNormal := bankOfCode n
                    bankForAddition := (bankOfCode a).orElse fun _ => bankOfCode n }
      if banksOnly then some banks else
      match optInt ps 2, optInt ps 3 with
      | some c, some v =>
        some { banks with
          customSampleBank := c.getD base.customSampleBank
          volume := match v with
            | some v => if v < 0 then 0 else v
            | none => base.volume
          filename := if v.isSome then ps[4]? else none }
      | _, _ => none
    | _, _ => none

/-- the optional sample field at index `i` of the line (absent: all defaults). -/
def sampleFieldAt (fs : List Str) (i : Nat) (banksOnly : Bool) : Option SampleBankInfo :=
  match fs[i]? with
  | none => some {}
  | some s => sampleField {} (splitOn ':' s) banksOnly

/-- the additions in the order they are listed: finish (bit 2), whistle (bit 1), clap (bit 3). -/
def additionTable : List (Nat × HitSampleDefaultName) := [(2, .finish), (1, .whistle), (3, .clap)]

/-- **the sample list** of a sound byte under a sample field: first the base sample — the custom file
if a non-empty name is given (bank unspecified, custom index 1), otherwise the normal sample, marked
*layered* when the byte is non-zero but has the NORMAL bit (bit 0) clear — then one addition per set bit. -/
def samplesOf (info : SampleBankInfo) (snd : Int) : List HitSampleInfo :=
  let base : HitSampleInfo :=
    match info.filename.filter (fun f => !f.isEmpty) with
    | some f => HitSampleInfo.new (.file f) none 1 info.volume
    | none =>
      { HitSampleInfo.new (.default .normal) info.bankForNormal info.customSampleBank info.volume with
        isLayered := snd != 0 && !testBit snd 0 }
  base :: additionTable.filterMap fun (bit, name) =>
    if testBit snd bit then some (HitSampleInfo.new (.default name) info.bankForAddition info.customSampleBank info.volume)
    else none

/-! ### slider fields -/

/-- repeats after the `−1` of the legacy format, never negative. -/
def repeatsOf (r : Int) : Int := max 0 (r - 1)

/-- one sample set per node: head, every repeat, tail. -/
def nodeCountOf (r : Int) : Nat := (repeatsOf r).toNat + 2

/-- the length field: absent = natural length; present = must be a float within ±131072, and a value
whose `max(·, 0)` is below `f64::EPSILON` (zero, negative) also means natural length. -/
def lengthField (s : Option Str) : Option (Option F) :=
  match s with
  | none => some none
  | some s =>
    (number s (Scalar.ofInt 131072 : F)).map fun l =>
      if le (Scalar.eps : F) (Scalar.abs (Scalar.max l 0)) then some (Scalar.max l 0) else none

/-- sample field of node `i`: the `i`-th `|`-piece of the edge-set field read over the object's own
banks, or the object's banks when the field is absent/empty or has no such piece. -/
def nodeInfo (base : SampleBankInfo) (edgeSets : Option (List Str)) (i : Nat) : Option SampleBankInfo :=
  match edgeSets.bind (·[i]?) with
  | none => some base
  | some s => sampleField base (splitOn ':' s) false

/-- sound byte of node `i`: the `i`-th `|`-piece of the edge-sound field (an unreadable piece is 0, it
does not reject), or the object's own sound byte. -/
def nodeSound (snd : Int) (edgeSounds : Option (List Str)) (i : Nat) : Int :=
  match edgeSounds.bind (·[i]?) with
  | none => snd
  | some s => (HitSoundType.parse s).getD 0

/-- the node sample sets of a slider; pieces beyond the node count are ignored. -/
def nodeSamples (base : SampleBankInfo) (snd : Int) (nodes : Nat) (edgeSounds edgeSets : Option Str) :
    Option (List (List HitSampleInfo)) :=
  allSome ((List.range nodes).map fun i =>
    (nodeInfo base (edgeSets.map (splitOn '|')) i).map fun info =>
      samplesOf info (nodeSound snd (edgeSounds.map (splitOn '|')) i))

/-! ### the path string `T|x:y|x:y|T|x:y…` -/

/-- a path point `x:y` (further `:`-pieces are ignored): `f64` coordinates within ±131072, truncated,
relative to the object's position. -/
def point (F : Type) [Scalar F] (offset : Pos P) (s : Str) : Option (PathControlPoint P) :=
  let ps := splitOn ':' s
  match (ps[0]?).bind (number · (Scalar.ofInt 131072 : F)), (ps[1]?).bind (number · (Scalar.ofInt 131072 : F)) with
  | some x, some y =>
    some { pos := (⟨Scalar.ofInt (Scalar.toI32 x), Scalar.ofInt (Scalar.toI32 y)⟩ : Pos P) - offset, pathType := none }
  | _, _ => none

/-- **one segment** (type piece first, then its points) with the point handed over from the next
segment. Its vertices are: the origin (first segment only), its own points, the handed-over point. The
type letter gives the path type, downgraded for perfect curves by looking at ALL vertices. The control
points it contributes are its own vertices (not the handed-over one), the first one typed, cut at
repeated points by the rule of `isSplit`/`emitRange` (Props/C14Split.lean). A later segment that
consists of its type piece alone contributes the handed-over point instead (the float grammar never
lets this happen: the piece after the previous segment's letter would have to read as a point); with
no vertex at all the segment is malformed. -/
def segment (F : Type) [Scalar F] [Cvt P F] (offset : Pos P) (first : Bool) (seg : List Str × Option Str) :
    Option (List (PathControlPoint P)) :=
  match seg.1 with
  | [] => none
  | letter :: pts =>
    match allSome (pts.map (point F offset)),
          (match seg.2 with
           | none => some []
           | some e => (point F offset e).map fun v => [v]) with
    | some own, some handed =>
      let vertices := segVertices first own handed
      if vertices.isEmpty then none else
      let ty := effectivePathType (PathType.newFromStr letter) vertices
      let ownCount := vertices.length - handed.length
      some (if ownCount = 0 then (typeFirst ty vertices).take 1
            else emitRange ty ownCount (typeFirst ty vertices) 0 ownCount)
    | _, _ => none

/-- **the path**: split at `|`; no piece after the first may be empty; cut before every piece that
starts with an ASCII letter (`cutSegments`); every segment must be well formed; the control points are
what was left in the buffer followed by the segments' contributions. -/
def path (F : Type) [Scalar F] [Cvt P F] (leftover : List (PathControlPoint P)) (offset : Pos P) (s : Str) :
    Option (List (PathControlPoint P)) :=
  match splitOn '|' s with
  | [] => none
  | p0 :: rest =>
    if rest.any (·.isEmpty) then none else
    match cutSegments [p0] rest with
    | [] => none
    | s0 :: more =>
      (allSome (segment F offset true s0 :: more.map (segment F offset false))).map fun parts =>
        leftover ++ parts.flatten

/-! ### the line -/

/-- the five leading fields, and all fields of the line. -/
structure Head (F P : Type) where
  x : P
  y : P
  time : F
  ty : Int
  sound : Int
  fields : List Str

/-- an accepted line: the object and the type the decoder remembers. -/
structure Accepted (F P : Type) where
  obj : HitObject F P
  remembered : Int

def accept (hd : Head F P) (kind : HitObjectKind F P) (info : SampleBankInfo) : Accepted F P :=
  { obj := { startTime := hd.time, kind := kind, samples := samplesOf info hd.sound }
    remembered := rememberedType hd.ty }

/-- `x,y,time,type,hitSound` — the sound is reduced to a byte. -/
def head (line : Str) : Except Reject (Head F P) := do
  let fs := fieldsOf line
  check (decide (5 ≤ fs.length)) .tooFewFields
  let x ← need ((fs[0]?).bind coordinate) .badX
  let y ← need ((fs[1]?).bind coordinate) .badY
  let t ← need ((fs[2]?).bind time) .badTime
  let ty ← need ((fs[3]?).bind i32FromStr) .badType
  let snd ← need ((fs[4]?).bind HitSoundType.parse) .badSound
  pure { x := x, y := y, time := t, ty := ty, sound := snd, fields := fs }

/-- circle: `…,sampleField?`. -/
def circle (ctx : Ctx P) (hd : Head F P) : Except Reject (Accepted F P) := do
  let info ← need (sampleFieldAt hd.fields 5 false) .badSampleTail
  pure (accept hd (.circle { pos := ⟨hd.x, hd.y⟩, newCombo := startsCombo ctx hd.ty, comboOffset := comboOffset hd.ty }) info)

/-- slider: `…,path,repeats[,length[,edgeSounds[,edgeSets[,sampleField]]]]`. The path is judged last:
it is the only field whose failure is observable in the state (`step`). -/
def slider (ctx : Ctx P) (hd : Head F P) : Except Reject (Accepted F P) := do
  let fs := hd.fields
  let pathS ← need fs[5]? .sliderTooFewFields
  let repS ← need fs[6]? .sliderTooFewFields
  let r ← need (i32Parse repS) .badRepeat
  check (decide (r ≤ 9000)) .repeatTooLarge
  let len ← need (lengthField fs[7]? : Option (Option F)) .badLength
  let info ← need (sampleFieldAt fs 10 true) .badSampleTail
  let nodes ← need (nodeSamples info hd.sound (nodeCountOf r) (nonEmptyField fs 8) (nonEmptyField fs 9)) .badEdgeSet
  let cps ← need (path F ctx.leftover ⟨hd.x, hd.y⟩ pathS) .badPath
  pure (accept hd (.slider
    { pos := ⟨hd.x, hd.y⟩, newCombo := startsCombo ctx hd.ty, comboOffset := comboOffset hd.ty
      path := { mode := ctx.mode, controlPoints := cps, expectedDist := len }
      nodeSamples := nodes, repeatCount := repeatsOf r, velocity := 1 }) info)

/-- spinner: `…,endTime[,sampleField]`. Centre of the playfield, duration never negative, its own
new-combo flag only (never forced). -/
def spinner (hd : Head F P) : Except Reject (Accepted F P) := do
  let endS ← need hd.fields[5]? .spinnerNoEnd
  let e ← need (time endS : Option F) .badEndTime
  let info ← need (sampleFieldAt hd.fields 6 false) .badSampleTail
  pure (accept hd (.spinner { pos := ⟨(512 : P) / 2, (384 : P) / 2⟩, duration := Scalar.max (e - hd.time) 0
                              newCombo := newComboFlag hd.ty }) info)

/-- hold: `…,endTime:sampleField` in ONE field (absent or empty: ends where it starts). Only `x` is kept. -/
def holdField (hd : Head F P) : Except Reject (F × SampleBankInfo) :=
  match nonEmptyField hd.fields 5 with
  | none => pure (hd.time, {})
  | some s => do
    let ps := splitOn ':' s
    let e ← need ((ps[0]?).bind (time (F := F))) .badEndTime
    let info ← need (sampleField {} (ps.drop 1) false) .badSampleTail
    pure (e, info)

def hold (hd : Head F P) : Except Reject (Accepted F P) := do
  let r ← holdField hd
  pure (accept hd (.hold { posX := hd.x, duration := Scalar.max hd.time r.1 - hd.time }) r.2)

/-- the kind-specific part. -/
def body (ctx : Ctx P) (hd : Head F P) : Except Reject (Accepted F P) :=
  match kindOf hd.ty with
  | none => .error .noKind
  | some .circle => circle ctx hd
  | some .slider => slider ctx hd
  | some .spinner => spinner hd
  | some .hold => hold hd

/-- **the reference grammar**: what one `[HitObjects]` line means in context `ctx`. -/
def specLine (ctx : Ctx P) (line : Str) : Except Reject (Accepted F P) :=
  match (head line : Except Reject (Head F P)) with
  | .error r => .error r
  | .ok hd => body ctx hd

/-! ### the state change -/

/-- the decoder state a line can depend on or change (everything of `HOCore` except the scratch
buffer `vertices`, which is cleared before every use). -/
structure View (F P : Type) where
  lastObject : Option Int
  curvePoints : List (PathControlPoint P)
  hitObjects : List (HitObject F P)

def ctxOf (mode : GameMode) (v : View F P) : Ctx P := { mode := mode, lastType := v.lastObject, leftover := v.curvePoints }

def isSliderObj (o : HitObject F P) : Bool :=
  match o.kind with
  | .slider _ => true
  | _ => false

/-- **what a line does to the state.** Accepted: the object is appended, its masked type remembered, and
a slider takes the path buffer with it. Rejected: nothing changes — except that a slider line whose
only malformation is its path empties the path buffer. -/
def step (mode : GameMode) (v : View F P) (line : Str) : View F P × Bool :=
  match (specLine (ctxOf mode v) line : Except Reject (Accepted F P)) with
  | .ok a =>
    ({ lastObject := some a.remembered
       curvePoints := if isSliderObj a.obj then [] else v.curvePoints
       hitObjects := v.hitObjects ++ [a.obj] }, true)
  | .error r => ({ v with curvePoints := if r = .badPath then [] else v.curvePoints }, false)

end Rosu.C14.HoSpec
