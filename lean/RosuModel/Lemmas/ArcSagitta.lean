/-
  Lemmas/ArcSagitta.lean — real analysis and plane geometry behind the circular-arc tolerance (C17).
  Pure Mathlib, no model.

  * `sin_le_mul_sin_div`: `sin u ≤ k · sin (u / k)` for `0 ≤ u ≤ π`, `1 ≤ k` (concavity of `sin` on `[0, π]`).
  * `one_sub_cos_le_sq_mul`: `1 − cos x ≤ k² (1 − cos y)` for `0 ≤ x ≤ k·y`, `x ≤ 2π`, `0 ≤ y ≤ π`, `1 ≤ k`.
  * `sagitta_le_of_points`: the rule "`n ≥ θ/(2φ)` **points**" (so `n − 1` intervals) only gives the sagitta
    `r (1 − cos (θ/(n−1)/2)) ≤ (n/(n−1))² · r (1 − cos φ)`;
    `sagitta_le_of_intervals`: `m ≥ θ/(2φ)` **intervals** give `r (1 − cos (θ/m/2)) ≤ r (1 − cos φ)`.
  * `chord_sagitta` (+ `chord_sagitta_tight`): the Hausdorff distance between a circular arc of opening `δ`, `|δ| ≤ 2π`, and
    its chord is (at most, and at the arc's midpoint at least) the sagitta `r (1 − cos (δ/2))`.
-/
import Mathlib.Analysis.SpecialFunctions.Trigonometric.Inverse
import Mathlib.Analysis.SpecialFunctions.Trigonometric.Bounds
import Mathlib.Analysis.Convex.SpecificFunctions.Deriv
namespace Rosu.ArcSagitta
open Real

/-! ### `1 − cos` under scaling of the angle -/

/-- concavity of `sin` on `[0, π]`: `sin u ≤ k · sin (u / k)` for `k ≥ 1`. -/
theorem sin_le_mul_sin_div {u k : ℝ} (hu0 : 0 ≤ u) (huπ : u ≤ π) (hk : 1 ≤ k) :
    sin u ≤ k * sin (u / k) := by
  have hk0 : 0 < k := by linarith
  have ha : 0 ≤ 1 / k := by positivity
  have hb : 0 ≤ 1 - 1 / k := by rw [sub_nonneg, div_le_one hk0]; exact hk
  have hab : 1 / k + (1 - 1 / k) = 1 := by ring
  have hc := strictConcaveOn_sin_Icc.concaveOn.2 (show u ∈ Set.Icc 0 π from ⟨hu0, huπ⟩)
    (show (0 : ℝ) ∈ Set.Icc 0 π from ⟨le_refl 0, pi_pos.le⟩) ha hb hab
  simp only [smul_eq_mul, mul_zero, add_zero, sin_zero] at hc
  have h1 : 1 / k * u = u / k := by ring
  rw [h1] at hc
  calc sin u = k * (1 / k * sin u) := by field_simp
    _ ≤ k * sin (u / k) := by gcongr

/-- `1 − cos x = 2 sin² (x/2)`. -/
theorem one_sub_cos_eq (x : ℝ) : 1 - cos x = 2 * sin (x / 2) ^ 2 := by
  have h := cos_two_mul' (x / 2)
  have h2 := sin_sq_add_cos_sq (x / 2)
  have : 2 * (x / 2) = x := by ring
  rw [this] at h
  nlinarith [h, h2]

/-- stretching the angle by a factor at most `k ≥ 1` stretches `1 − cos` by at most `k²`. -/
theorem one_sub_cos_le_sq_mul {x y k : ℝ} (hx0 : 0 ≤ x) (hx2 : x ≤ 2 * π) (hyπ : y ≤ π)
    (hk : 1 ≤ k) (hxy : x ≤ k * y) : 1 - cos x ≤ k ^ 2 * (1 - cos y) := by
  have hk0 : 0 < k := by linarith
  rw [one_sub_cos_eq x, one_sub_cos_eq y]
  have h1 : sin (x / 2) ≤ k * sin (x / 2 / k) :=
    sin_le_mul_sin_div (by linarith) (by linarith) hk
  have hle : x / 2 / k ≤ y / 2 := by
    rw [div_le_iff₀ hk0]; linarith
  have h0 : 0 ≤ x / 2 / k := by positivity
  have h2 : sin (x / 2 / k) ≤ sin (y / 2) :=
    sin_le_sin_of_le_of_le_pi_div_two (by linarith [pi_pos]) (by linarith) hle
  have hs0 : 0 ≤ sin (x / 2) := sin_nonneg_of_nonneg_of_le_pi (by linarith) (by linarith)
  have hs1 : 0 ≤ sin (x / 2 / k) := sin_nonneg_of_nonneg_of_le_pi h0 (by linarith [pi_pos])
  have h3 : sin (x / 2) ≤ k * sin (y / 2) := le_trans h1 (by gcongr)
  have h4 : sin (x / 2) ^ 2 ≤ (k * sin (y / 2)) ^ 2 := by gcongr
  nlinarith [h4]

/-- `1 − cos (2y) = 2 (1 − cos y)(1 + cos y)`: doubling the angle multiplies `1 − cos` by `2 (1 + cos y) < 4`. -/
theorem one_sub_cos_two_mul (y : ℝ) : 1 - cos (2 * y) = 2 * (1 - cos y) * (1 + cos y) := by
  rw [cos_two_mul]; ring

/-- `1 − cos y ≤ y²/2`. -/
theorem one_sub_cos_le_sq_div_two (y : ℝ) : 1 - cos y ≤ y ^ 2 / 2 := by
  linarith [one_sub_sq_div_two_le_cos (x := y)]

/-! ### the point-count rule -/

/-- **`n` points for `θ ≤ n · 2φ`** (the rule of `approximate_circular_arc`: `n = ⌈θ / (2φ)⌉` is used as the number of
*points*): the step is `θ/(n−1) ≤ (n/(n−1)) · 2φ` and the sagitta at most `(n/(n−1))²` times the one of `2φ`. -/
theorem sagitta_le_of_points {r φ θ : ℝ} {n : ℕ} (hn : 2 ≤ n) (hr : 0 ≤ r) (hφ0 : 0 ≤ φ) (hφπ : φ ≤ π)
    (hθ0 : 0 ≤ θ) (hθ : θ ≤ n * (2 * φ)) :
    r * (1 - cos (θ / ((n : ℝ) - 1) / 2)) ≤ ((n : ℝ) / ((n : ℝ) - 1)) ^ 2 * (r * (1 - cos φ)) := by
  have hn' : (2 : ℝ) ≤ n := by exact_mod_cast hn
  have hd : (0 : ℝ) < (n : ℝ) - 1 := by linarith
  have hk : 1 ≤ (n : ℝ) / ((n : ℝ) - 1) := by rw [le_div_iff₀ hd]; linarith
  have hk2 : (n : ℝ) / ((n : ℝ) - 1) ≤ 2 := by rw [div_le_iff₀ hd]; linarith
  have hx : θ / ((n : ℝ) - 1) / 2 ≤ (n : ℝ) / ((n : ℝ) - 1) * φ := by
    rw [div_div, div_le_iff₀ (by positivity)]
    have : (n : ℝ) / ((n : ℝ) - 1) * φ * (((n : ℝ) - 1) * 2) = n * (2 * φ) := by field_simp
    rw [this]; exact hθ
  have hx2 : θ / ((n : ℝ) - 1) / 2 ≤ 2 * π := by
    have : (n : ℝ) / ((n : ℝ) - 1) * φ ≤ 2 * π := by gcongr
    exact le_trans hx this
  have h := one_sub_cos_le_sq_mul (x := θ / ((n : ℝ) - 1) / 2) (y := φ) (by positivity) hx2 hφπ hk hx
  have h' : r * (1 - cos (θ / ((n : ℝ) - 1) / 2)) ≤ r * (((n : ℝ) / ((n : ℝ) - 1)) ^ 2 * (1 - cos φ)) := by
    gcongr
  linarith [h', mul_left_comm r (((n : ℝ) / ((n : ℝ) - 1)) ^ 2) (1 - cos φ)]

/-- **`m` intervals for `θ ≤ m · 2φ`** (what the comment in the code intends): each step is at most `2φ` and the
sagitta at most the one of `2φ`. -/
theorem sagitta_le_of_intervals {r φ θ m : ℝ} (hm : 0 < m) (hr : 0 ≤ r) (hφπ : φ ≤ π)
    (hθ0 : 0 ≤ θ) (hθ : θ ≤ m * (2 * φ)) :
    r * (1 - cos (θ / m / 2)) ≤ r * (1 - cos φ) := by
  have hx : θ / m / 2 ≤ φ := by
    rw [div_div, div_le_iff₀ (by positivity)]; linarith
  have := cos_le_cos_of_nonneg_of_le_pi (x := θ / m / 2) (y := φ) (by positivity) hφπ hx
  gcongr

/-! ### arc and chord: the Hausdorff distance is the sagitta -/

/-- the point at angle `a` of the circle with centre `c` and radius `r`. -/
noncomputable def circPt (c : ℝ × ℝ) (r a : ℝ) : ℝ × ℝ := (c.1 + r * cos a, c.2 + r * sin a)

/-- the point `(1 − l) p + l q` of the segment `p q`. -/
def segPt (p q : ℝ × ℝ) (l : ℝ) : ℝ × ℝ := ((1 - l) * p.1 + l * q.1, (1 - l) * p.2 + l * q.2)

/-- squared Euclidean distance (Mathlib's `dist` on `ℝ × ℝ` is the sup metric, so it is not used). -/
def sqDist (p q : ℝ × ℝ) : ℝ := (p.1 - q.1) ^ 2 + (p.2 - q.2) ^ 2

/-- Euclidean distance in the plane. -/
noncomputable def eDist (p q : ℝ × ℝ) : ℝ := √(sqDist p q)

theorem eDist_le_of_sqDist_le {p q : ℝ × ℝ} {b : ℝ} (hb : 0 ≤ b) (h : sqDist p q ≤ b ^ 2) : eDist p q ≤ b :=
  (sqrt_le_left hb).2 h

theorem le_eDist_of_le_sqDist {p q : ℝ × ℝ} {b : ℝ} (h : b ^ 2 ≤ sqDist p q) : b ≤ eDist p q :=
  le_sqrt_of_sq_le h

theorem segPt_symm (p q : ℝ × ℝ) (l : ℝ) : segPt q p (1 - l) = segPt p q l := by
  unfold segPt; ext <;> simp only <;> ring

theorem segPt_zero (p q : ℝ × ℝ) : segPt p q 0 = p := by unfold segPt; ext <;> simp
theorem segPt_one (p q : ℝ × ℝ) : segPt p q 1 = q := by unfold segPt; ext <;> simp

/-- in coordinates centred at the mid-angle `m` of the arc (`h` the half opening, `s` the offset of the arc point, `l` the
chord parameter): squared distance arc point – chord point. -/
theorem sqDist_arc_chord (c : ℝ × ℝ) (r m h s l : ℝ) :
    sqDist (circPt c r (m + s)) (segPt (circPt c r (m - h)) (circPt c r (m + h)) l) =
      r ^ 2 * ((cos s - cos h) ^ 2 + (sin s - (2 * l - 1) * sin h) ^ 2) := by
  simp only [sqDist, circPt, segPt, cos_add, sin_add, cos_sub, sin_sub]
  linear_combination (r ^ 2 * ((cos s - cos h) ^ 2 + (sin s - (2 * l - 1) * sin h) ^ 2)) * (cos_sq_add_sin_sq m)

private theorem sq_bound {r a b : ℝ} (h0 : 0 ≤ a) (h1 : a ≤ b) : r ^ 2 * (a ^ 2 + 0 ^ 2) ≤ (r * b) ^ 2 := by
  have : a ^ 2 ≤ b ^ 2 := by gcongr
  nlinarith [sq_nonneg r, this]

/-- every arc point is within the sagitta of the chord. -/
theorem core_arc_to_chord (c : ℝ × ℝ) (r m h s : ℝ) (hh0 : 0 ≤ h) (hhπ : h ≤ π) (hs : |s| ≤ h) :
    ∃ l, 0 ≤ l ∧ l ≤ 1 ∧
      sqDist (circPt c r (m + s)) (segPt (circPt c r (m - h)) (circPt c r (m + h)) l) ≤ (r * (1 - cos h)) ^ 2 := by
  have hcs : cos h ≤ cos s := by
    have := cos_le_cos_of_nonneg_of_le_pi (abs_nonneg s) hhπ hs
    rwa [cos_abs] at this
  have hc1 : cos s ≤ 1 := cos_le_one s
  by_cases hq : h ≤ π / 2
  · -- the foot of the perpendicular lies on the chord
    have hsin : |sin s| ≤ |sin h| := by
      rw [abs_sin_eq_sin_abs_of_abs_le_pi (le_trans hs hhπ), abs_of_nonneg (sin_nonneg_of_nonneg_of_le_pi hh0 hhπ)]
      exact sin_le_sin_of_le_of_le_pi_div_two (by linarith [abs_nonneg s, pi_pos]) hq hs
    have hμ : |sin s / sin h| ≤ 1 := by
      rw [abs_div]; exact div_le_one_of_le₀ hsin (abs_nonneg _)
    have hfoot : sin s / sin h * sin h = sin s := by
      by_cases hz : sin h = 0
      · rw [hz, abs_zero] at hsin
        have : sin s = 0 := abs_eq_zero.mp (le_antisymm hsin (abs_nonneg _))
        rw [hz, this]; simp
      · exact div_mul_cancel₀ _ hz
    obtain ⟨hμ1, hμ2⟩ := abs_le.mp hμ
    refine ⟨(1 + sin s / sin h) / 2, by linarith, by linarith, ?_⟩
    rw [sqDist_arc_chord]
    have : sin s - (2 * ((1 + sin s / sin h) / 2) - 1) * sin h = 0 := by
      have : 2 * ((1 + sin s / sin h) / 2) - 1 = sin s / sin h := by ring
      rw [this, hfoot]; ring
    rw [this]
    exact sq_bound (by linarith) (by linarith)
  · -- more than a half circle: the midpoint of the chord will do
    have hch : cos h ≤ 0 := cos_nonpos_of_pi_div_two_le_of_le (by linarith) (by linarith [pi_pos])
    refine ⟨1 / 2, by norm_num, by norm_num, ?_⟩
    rw [sqDist_arc_chord]
    have h1 : (cos s - cos h) ^ 2 + (sin s - (2 * (1 / 2) - 1) * sin h) ^ 2 ≤ (1 - cos h) ^ 2 := by
      nlinarith [sin_sq_add_cos_sq s, mul_nonneg (neg_nonneg.2 hch) (sub_nonneg.2 hc1)]
    rw [mul_pow]
    exact mul_le_mul_of_nonneg_left h1 (sq_nonneg r)

/-- every chord point is within the sagitta of the arc. -/
theorem core_chord_to_arc (c : ℝ × ℝ) (r m h l : ℝ) (hh0 : 0 ≤ h) (hhπ : h ≤ π) (hl0 : 0 ≤ l) (hl1 : l ≤ 1) :
    ∃ s, |s| ≤ h ∧
      sqDist (circPt c r (m + s)) (segPt (circPt c r (m - h)) (circPt c r (m + h)) l) ≤ (r * (1 - cos h)) ^ 2 := by
  have hsh : 0 ≤ sin h := sin_nonneg_of_nonneg_of_le_pi hh0 hhπ
  have hsh1 : sin h ≤ 1 := sin_le_one h
  have hx1 : (2 * l - 1) * sin h ≤ sin h := by nlinarith
  have hx2 : -sin h ≤ (2 * l - 1) * sin h := by nlinarith
  have hxI : (2 * l - 1) * sin h ∈ Set.Icc (-1 : ℝ) 1 := ⟨by linarith, by linarith⟩
  have hsin : sin (arcsin ((2 * l - 1) * sin h)) = (2 * l - 1) * sin h := sin_arcsin hxI.1 hxI.2
  have habs : |arcsin ((2 * l - 1) * sin h)| ≤ h := by
    rw [abs_le]
    by_cases hq : h ≤ π / 2
    · constructor
      · rw [le_arcsin_iff_sin_le ⟨by linarith [pi_pos], by linarith [pi_pos]⟩ hxI, sin_neg]; exact hx2
      · rw [arcsin_le_iff_le_sin hxI ⟨by linarith [pi_pos], hq⟩]; exact hx1
    · exact ⟨by linarith [neg_pi_div_two_le_arcsin ((2 * l - 1) * sin h)],
        by linarith [arcsin_le_pi_div_two ((2 * l - 1) * sin h)]⟩
  refine ⟨arcsin ((2 * l - 1) * sin h), habs, ?_⟩
  have hcs : cos h ≤ cos (arcsin ((2 * l - 1) * sin h)) := by
    have := cos_le_cos_of_nonneg_of_le_pi (abs_nonneg _) hhπ habs
    rwa [cos_abs] at this
  rw [sqDist_arc_chord, hsin, sub_self]
  exact sq_bound (by linarith) (by linarith [cos_le_one (arcsin ((2 * l - 1) * sin h))])

/-- the midpoint of the arc is at least the sagitta away from every point of the chord line: the bound is attained. -/
theorem core_tight (c : ℝ × ℝ) (r m h l : ℝ) :
    (r * (1 - cos h)) ^ 2 ≤ sqDist (circPt c r m) (segPt (circPt c r (m - h)) (circPt c r (m + h)) l) := by
  have := sqDist_arc_chord c r m h 0 l
  rw [add_zero, cos_zero, sin_zero] at this
  rw [this, mul_pow]
  apply mul_le_mul_of_nonneg_left _ (sq_nonneg r)
  nlinarith [sq_nonneg (0 - (2 * l - 1) * sin h)]

/-- `chord_sagitta` for a counter-clockwise opening `0 ≤ δ ≤ 2π`. -/
theorem chord_sagitta_nonneg (c : ℝ × ℝ) (r α δ : ℝ) (hr : 0 ≤ r) (hδ0 : 0 ≤ δ) (hδ : δ ≤ 2 * π) :
    (∀ u, 0 ≤ u → u ≤ 1 → ∃ l, 0 ≤ l ∧ l ≤ 1 ∧
      eDist (circPt c r (α + u * δ)) (segPt (circPt c r α) (circPt c r (α + δ)) l) ≤ r * (1 - cos (δ / 2))) ∧
    (∀ l, 0 ≤ l → l ≤ 1 → ∃ u, 0 ≤ u ∧ u ≤ 1 ∧
      eDist (circPt c r (α + u * δ)) (segPt (circPt c r α) (circPt c r (α + δ)) l) ≤ r * (1 - cos (δ / 2))) := by
  have hb : 0 ≤ r * (1 - cos (δ / 2)) := mul_nonneg hr (by linarith [cos_le_one (δ / 2)])
  have e1 : α = (α + δ / 2) - δ / 2 := by ring
  have e2 : α + δ = (α + δ / 2) + δ / 2 := by ring
  constructor
  · intro u hu0 hu1
    have hs : |(u - 1 / 2) * δ| ≤ δ / 2 := by rw [abs_le]; constructor <;> nlinarith
    obtain ⟨l, hl0, hl1, hd⟩ := core_arc_to_chord c r (α + δ / 2) (δ / 2) ((u - 1 / 2) * δ) (by linarith)
      (by linarith) hs
    refine ⟨l, hl0, hl1, eDist_le_of_sqDist_le hb ?_⟩
    have e3 : α + u * δ = (α + δ / 2) + (u - 1 / 2) * δ := by ring
    rw [e3, e2]; nth_rewrite 2 [e1]; exact hd
  · intro l hl0 hl1
    obtain ⟨s, hs, hd⟩ := core_chord_to_arc c r (α + δ / 2) (δ / 2) l (by linarith) (by linarith) hl0 hl1
    obtain ⟨hs1, hs2⟩ := abs_le.mp hs
    by_cases hz : δ = 0
    · have hs0 : s = 0 := by rw [hz] at hs1 hs2; linarith
      refine ⟨0, le_refl 0, zero_le_one, eDist_le_of_sqDist_le hb ?_⟩
      have e3 : α + 0 * δ = (α + δ / 2) + s := by rw [hs0, hz]; ring
      rw [e3, e2]; nth_rewrite 2 [e1]; exact hd
    · have hpos : 0 < δ := lt_of_le_of_ne hδ0 (Ne.symm hz)
      have hq1 : -(1 / 2) ≤ s / δ := by rw [le_div_iff₀ hpos]; linarith
      have hq2 : s / δ ≤ 1 / 2 := by rw [div_le_iff₀ hpos]; linarith
      refine ⟨1 / 2 + s / δ, by linarith, by linarith, eDist_le_of_sqDist_le hb ?_⟩
      have e3 : α + (1 / 2 + s / δ) * δ = (α + δ / 2) + s := by field_simp; ring
      rw [e3, e2]; nth_rewrite 2 [e1]; exact hd

/-- **`chord_sagitta`**: a circular arc from angle `α` to `α + δ` (either sense, `|δ| ≤ 2π`) and its chord are within
Hausdorff distance `r (1 − cos (δ/2))` — the sagitta — of each other: every point `α + uδ`, `u ∈ [0,1]`, of the arc has a
point of the chord within the sagitta, and every point of the chord has a point of the arc within the sagitta. -/
theorem chord_sagitta (c : ℝ × ℝ) (r α δ : ℝ) (hr : 0 ≤ r) (hδ : |δ| ≤ 2 * π) :
    (∀ u, 0 ≤ u → u ≤ 1 → ∃ l, 0 ≤ l ∧ l ≤ 1 ∧
      eDist (circPt c r (α + u * δ)) (segPt (circPt c r α) (circPt c r (α + δ)) l) ≤ r * (1 - cos (δ / 2))) ∧
    (∀ l, 0 ≤ l → l ≤ 1 → ∃ u, 0 ≤ u ∧ u ≤ 1 ∧
      eDist (circPt c r (α + u * δ)) (segPt (circPt c r α) (circPt c r (α + δ)) l) ≤ r * (1 - cos (δ / 2))) := by
  obtain ⟨hδ1, hδ2⟩ := abs_le.mp hδ
  rcases le_total 0 δ with h0 | h0
  · exact chord_sagitta_nonneg c r α δ hr h0 hδ2
  · obtain ⟨ha, hb⟩ := chord_sagitta_nonneg c r (α + δ) (-δ) hr (by linarith) (by linarith)
    have ec : cos (-δ / 2) = cos (δ / 2) := by rw [neg_div, cos_neg]
    have e0 : α + δ + -δ = α := by ring
    rw [ec, e0] at ha hb
    constructor
    · intro u hu0 hu1
      obtain ⟨l, hl0, hl1, hd⟩ := ha (1 - u) (by linarith) (by linarith)
      refine ⟨1 - l, by linarith, by linarith, ?_⟩
      have e3 : α + δ + (1 - u) * -δ = α + u * δ := by ring
      rw [e3, ← segPt_symm] at hd
      exact hd
    · intro l hl0 hl1
      obtain ⟨u, hu0, hu1, hd⟩ := hb (1 - l) (by linarith) (by linarith)
      refine ⟨1 - u, by linarith, by linarith, ?_⟩
      have e3 : α + δ + u * -δ = α + (1 - u) * δ := by ring
      rw [e3, segPt_symm] at hd
      exact hd

/-- **`chord_sagitta_tight`**: the bound of `chord_sagitta` is attained: the midpoint of the arc is at distance at least
`r (1 − cos (δ/2))` from every point of the chord (indeed of the whole chord line). -/
theorem chord_sagitta_tight (c : ℝ × ℝ) (r α δ l : ℝ) :
    r * (1 - cos (δ / 2)) ≤
      eDist (circPt c r (α + 1 / 2 * δ)) (segPt (circPt c r α) (circPt c r (α + δ)) l) := by
  apply le_eDist_of_le_sqDist
  have e1 : α = (α + 1 / 2 * δ) - δ / 2 := by ring
  have e2 : α + δ = (α + 1 / 2 * δ) + δ / 2 := by ring
  have := core_tight c r (α + 1 / 2 * δ) (δ / 2) l
  rw [← e1, ← e2] at this
  exact this

end Rosu.ArcSagitta
