/-
  Lemmas/UtfSpec.lean — encoders against the decoders of Model/Utf.lean: where the byte 0x0A can
  occur in an encoded text, and round trips. Used by C10.
-/
import RosuModel.Lemmas.LinesSpec
namespace Rosu

theorem ofNat_beq_lf (n : Nat) : (UInt8.ofNat n == 0x0A) = (n % 256 == 10) := by
  rw [Bool.eq_iff_iff]
  simp only [beq_iff_eq]
  rw [← UInt8.toNat_inj, UInt8.toNat_ofNat']
  simp

theorem char_valid (c : Char) : c.toNat < 0xD800 ∨ (0xDFFF < c.toNat ∧ c.toNat < 0x110000) := by
  have := c.valid
  simp [UInt32.isValidChar, Nat.isValidChar] at this
  exact this

theorem char_eq_lf (c : Char) : (c == '\n') = (c.toNat == 10) := by
  rw [Bool.eq_iff_iff]
  simp only [beq_iff_eq]
  constructor
  · intro h; subst h; rfl
  · intro h
    apply Char.ext
    apply UInt32.toNat_inj.mp
    exact h

/-! ### UTF-16 -/

def isLFu (u : Nat) : Bool := u == 10
def isLFc (c : Char) : Bool := c == '\n'

/-- the lines of a text: cut after every U+000A. -/
def textLines (t : Str) : List Str := linesBy isLFc t

theorem map_consHead {α β : Type} (f : List α → List β) (a : α) (L : List (List α)) :
    (consHead a L).map f = match L with
      | [] => [f [a]]
      | l :: ls => f (a :: l) :: ls.map f := by
  cases L <;> rfl

theorem ofNat_beq_zero (n : Nat) : (UInt8.ofNat n == 0) = (n % 256 == 0) := by
  rw [Bool.eq_iff_iff]
  simp only [beq_iff_eq]
  rw [← UInt8.toNat_inj, UInt8.toNat_ofNat']
  simp

def enc16 (le : Bool) : Encoding := if le then .utf16le else .utf16be

theorem flatMap_unitBytes_even (le : Bool) (us : List Nat) : (us.flatMap (unitBytes le)).length % 2 = 0 := by
  induction us with
  | nil => rfl
  | cons u us ih =>
    have : (unitBytes le u).length = 2 := by cases le <;> simp [unitBytes]
    simp only [List.flatMap_cons, List.length_append, this]
    omega

/-- UTF-16LE: code units other than U+000A never end the line, whatever bytes they contain. -/
theorem scanLE_units_skip (buf : List UInt8) (l : List Nat) (x : List UInt8) (hb : buf.length % 2 = 0)
    (hl : ∀ u ∈ l, u < 65536 ∧ isLFu u = false) :
    scanLE buf (l.flatMap (unitBytes true) ++ x) = scanLE (buf ++ l.flatMap (unitBytes true)) x := by
  induction l generalizing buf with
  | nil => simp
  | cons u l ih =>
    obtain ⟨hu, h10⟩ := hl u (by simp)
    have h10' : u ≠ 10 := by simpa [isLFu] using h10
    have ih' := fun b hb => ih b hb (fun v hv => hl v (by simp [hv]))
    simp only [List.flatMap_cons, unitBytes, if_true, List.cons_append, List.nil_append]
    by_cases hlo : u % 256 = 10
    · -- the low byte is 0x0A at an even index, but the byte after it is not 0x00
      have hhi : ¬ u / 256 % 256 = 0 := by omega
      have e : scanLE buf (UInt8.ofNat (u % 256) :: UInt8.ofNat (u / 256) :: (l.flatMap (unitBytes true) ++ x)) =
          scanLE (buf ++ [UInt8.ofNat (u % 256), UInt8.ofNat (u / 256)]) (l.flatMap (unitBytes true) ++ x) := by
        simp [scanLE, ofNat_beq_zero, hlo, hb, hhi]
      rw [e, ih' _ (by simp; omega)]
      simp
    · have e : scanLE buf (UInt8.ofNat (u % 256) :: UInt8.ofNat (u / 256) :: (l.flatMap (unitBytes true) ++ x)) =
          scanLE (buf ++ [UInt8.ofNat (u % 256), UInt8.ofNat (u / 256)]) (l.flatMap (unitBytes true) ++ x) := by
        have hodd : ¬ (buf.length + 1) % 2 = 0 := by omega
        cases hr : l.flatMap (unitBytes true) ++ x <;> simp [scanLE, ofNat_beq_lf, hlo, hodd]
      rw [e, ih' _ (by simp; omega)]
      simp

theorem scanLE_lf (buf x : List UInt8) (hb : buf.length % 2 = 0) :
    scanLE buf (unitBytes true 10 ++ x) = (buf ++ unitBytes true 10, x) := by
  simp [unitBytes, scanLE, hb]

/-- UTF-16BE likewise. -/
theorem scanBE_units_skip (buf : List UInt8) (l : List Nat) (x : List UInt8) (hb : buf.length % 2 = 0)
    (hl : ∀ u ∈ l, u < 65536 ∧ isLFu u = false) :
    scanBE buf (l.flatMap (unitBytes false) ++ x) = scanBE (buf ++ l.flatMap (unitBytes false)) x := by
  induction l generalizing buf with
  | nil => simp
  | cons u l ih =>
    obtain ⟨hu, h10⟩ := hl u (by simp)
    have h10' : u ≠ 10 := by simpa [isLFu] using h10
    have ih' := fun b hb => ih b hb (fun v hv => hl v (by simp [hv]))
    simp only [List.flatMap_cons, unitBytes, Bool.false_eq_true, if_false, List.cons_append, List.nil_append]
    have c1 : (buf.length % 2 == 1) = false := by simp; omega
    have c2 : (UInt8.ofNat (u % 256) == 0x0A &&
        ((buf ++ [UInt8.ofNat (u / 256)]).length % 2 == 1 &&
          (buf ++ [UInt8.ofNat (u / 256)]).getLast? == some 0)) = false := by
      rw [ofNat_beq_lf, Nat.mod_mod]
      by_cases hlo : u % 256 = 10
      · have hhi : (UInt8.ofNat (u / 256) == 0) = false := by
          rw [ofNat_beq_zero]; simp; omega
        simp [hhi]
      · simp [hlo]
    have e : scanBE buf (UInt8.ofNat (u / 256) :: UInt8.ofNat (u % 256) :: (l.flatMap (unitBytes false) ++ x)) =
        scanBE (buf ++ [UInt8.ofNat (u / 256), UInt8.ofNat (u % 256)]) (l.flatMap (unitBytes false) ++ x) := by
      rw [scanBE, c1]
      simp only [Bool.false_and, Bool.and_false, Bool.false_eq_true, if_false]
      rw [scanBE, c2]
      simp
    rw [e, ih' _ (by simp; omega)]
    simp

theorem scanBE_lf (buf x : List UInt8) (hb : buf.length % 2 = 0) :
    scanBE buf (unitBytes false 10 ++ x) = (buf ++ unitBytes false 10, x) := by
  have h1 : (buf.length + 1) % 2 = 1 := by omega
  have h0 : ¬ buf.length % 2 = 1 := by omega
  simp [unitBytes, scanBE, h1]

theorem scan16_units_skip (le : Bool) (l : List Nat) (x : List UInt8)
    (hl : ∀ u ∈ l, u < 65536 ∧ isLFu u = false) :
    (if le then scanLE [] (l.flatMap (unitBytes le) ++ x) else scanBE [] (l.flatMap (unitBytes le) ++ x)) =
      (if le then scanLE (l.flatMap (unitBytes le)) x else scanBE (l.flatMap (unitBytes le)) x) := by
  cases le with
  | true => simpa using scanLE_units_skip [] l x rfl hl
  | false => simpa using scanBE_units_skip [] l x rfl hl

/-- `read_line` on an aligned stream of UTF-16 code units cuts exactly after the first U+000A unit. -/
theorem rawSpec_units (le : Bool) (us : List Nat) (h : ∀ u ∈ us, u < 65536) :
    rawSpec (enc16 le) (us.flatMap (unitBytes le)) none =
      match splitG isLFu us with
      | (p, some rest) => (.ok (some (p.flatMap (unitBytes le))), rest.flatMap (unitBytes le))
      | (p, none) => (if p.isEmpty then .ok none else .ok (some (p.flatMap (unitBytes le))), []) := by
  unfold enc16
  rw [rawSpec_utf16]
  cases hs : splitG isLFu us with
  | mk p o =>
    cases o with
    | some rest =>
      obtain ⟨p', x, e1, e2, e3, e4⟩ := splitG_some_form _ _ _ _ hs
      have hx : x = 10 := by simpa [isLFu] using e2
      subst hx
      have hl : ∀ u ∈ p', u < 65536 ∧ isLFu u = false := fun u hu =>
        ⟨h u (by rw [e4, e1]; simp [hu]), e3 u hu⟩
      have hev := flatMap_unitBytes_even le p'
      have hbytes : us.flatMap (unitBytes le) =
          p'.flatMap (unitBytes le) ++ (unitBytes le 10 ++ rest.flatMap (unitBytes le)) := by
        rw [e4, e1]; simp [List.flatMap_append]
      have hsc := scan16_units_skip le p' (unitBytes le 10 ++ rest.flatMap (unitBytes le)) hl
      rw [← hbytes] at hsc
      have hne : (p.flatMap (unitBytes le)).isEmpty = false := by
        rw [e1]; cases le <;> simp [List.flatMap_append, unitBytes]
      have hp : p.flatMap (unitBytes le) = p'.flatMap (unitBytes le) ++ unitBytes le 10 := by
        rw [e1]; simp [List.flatMap_append]
      cases le with
      | true =>
        simp only [if_true] at hsc ⊢
        rw [hsc, scanLE_lf _ _ hev, ← hp]
        simp [hne]
      | false =>
        simp only [Bool.false_eq_true, if_false] at hsc ⊢
        rw [hsc, scanBE_lf _ _ hev, ← hp]
        simp [hne]
    | none =>
      obtain ⟨e1, e2⟩ := splitG_none_form _ _ _ hs
      subst e1
      have hl : ∀ u ∈ p, u < 65536 ∧ isLFu u = false := fun u hu => ⟨h u hu, e2 u hu⟩
      have hsc := scan16_units_skip le p [] hl
      simp only [List.append_nil] at hsc
      have hem : (p.flatMap (unitBytes le)).isEmpty = p.isEmpty := by
        cases p with
        | nil => rfl
        | cons a as => cases le <;> simp [unitBytes]
      cases le with
      | true =>
        simp only [if_true] at hsc ⊢
        rw [hsc]; simp [scanLE, hem]
      | false =>
        simp only [Bool.false_eq_true, if_false] at hsc ⊢
        rw [hsc]; simp [scanBE, hem]

/-- **UTF-16, both byte orders, every aligned unit stream:** the lines are the decoded,
end-trimmed unit-level lines; no error. -/
theorem linesSpec_units (le : Bool) (us : List Nat) (h : ∀ u ∈ us, u < 65536) :
    linesSpec (enc16 le) none (us.flatMap (unitBytes le)) =
      ((linesBy isLFu us).map (fun l => currLine (enc16 le) (l.flatMap (unitBytes le))), none) := by
  suffices hs : ∀ n, ∀ us : List Nat, us.length ≤ n → (∀ u ∈ us, u < 65536) →
      linesSpec (enc16 le) none (us.flatMap (unitBytes le)) =
        ((linesBy isLFu us).map (fun l => currLine (enc16 le) (l.flatMap (unitBytes le))), none) from
    hs _ us (Nat.le_refl _) h
  intro n
  induction n with
  | zero =>
    intro us hl _
    have : us = [] := List.eq_nil_of_length_eq_zero (by omega)
    subst this
    simp [linesSpec_nil, linesBy]
  | succ n ih =>
    intro us hl hu
    rw [linesSpec_unfold, linesBy_splitG, rawSpec_units le us hu]
    cases hs : splitG isLFu us with
    | mk p o =>
      cases o with
      | some rest =>
        obtain ⟨p', x, e1, _, _, e4⟩ := splitG_some_form _ _ _ _ hs
        have hlen : rest.length ≤ n := by
          have : us.length = p.length + rest.length := by rw [e4]; simp
          have : 0 < p.length := by rw [e1]; simp
          omega
        simp only []
        rw [ih rest hlen (fun u hu' => hu u (by rw [e4]; simp [hu']))]
        simp
      | none =>
        simp only []
        by_cases hp : p.isEmpty = true
        · simp [hp]
        · simp [hp, linesSpec_nil]

/-- the unit-level lines of a text are the units of its lines. -/
theorem linesBy_utf16Units (t : Str) :
    linesBy isLFu (utf16Units t) = (textLines t).map utf16Units := by
  induction t with
  | nil => rfl
  | cons c cs ih =>
    unfold textLines utf16Units at *
    simp only [List.flatMap_cons, linesBy, isLFc, char_eq_lf]
    by_cases h10 : c.toNat = 10
    · simp [charUnits, h10, linesBy, isLFu, ih]
    · have h10' : (c.toNat == 10) = false := by simpa using h10
      simp only [h10', Bool.false_eq_true, if_false, map_consHead]
      by_cases hb : c.toNat < 0x10000
      · simp only [charUnits, hb, if_true, List.cons_append, List.nil_append, linesBy, isLFu, h10',
          Bool.false_eq_true, if_false, ih]
        cases linesBy isLFc cs <;> simp [consHead, charUnits, hb]
      · have e1 : (0xD800 + (c.toNat - 0x10000) / 1024 == 10) = false := by
          simp only [beq_eq_false_iff_ne, ne_eq]; omega
        have e2 : (0xDC00 + (c.toNat - 0x10000) % 1024 == 10) = false := by
          simp only [beq_eq_false_iff_ne, ne_eq]; omega
        simp only [charUnits, hb, if_false, List.cons_append, List.nil_append, linesBy, isLFu, e1, e2,
          Bool.false_eq_true, ih]
        cases linesBy isLFc cs <;> simp [consHead, charUnits, hb]

/-- pairing bytes back into the code units they came from. -/
theorem u16s_unitBytes (le : Bool) (us : List Nat) (h : ∀ u ∈ us, u < 65536) :
    u16s le (us.flatMap (unitBytes le)) = us := by
  induction us with
  | nil => simp [u16s]
  | cons u us ih =>
    have hu : u < 65536 := h u (by simp)
    have ih' := ih (fun x hx => h x (by simp [hx]))
    cases le with
    | true =>
      simp only [List.flatMap_cons, unitBytes, if_true, List.cons_append, List.nil_append, u16s, ih',
        UInt8.toNat_ofNat']
      congr 1; omega
    | false =>
      simp only [List.flatMap_cons, unitBytes, Bool.false_eq_true, if_false, List.cons_append, List.nil_append,
        u16s, ih', UInt8.toNat_ofNat']
      congr 1; omega

theorem utf16Units_lt (t : Str) : ∀ u ∈ utf16Units t, u < 65536 := by
  induction t with
  | nil => simp [utf16Units]
  | cons c cs ih =>
    unfold utf16Units at *
    simp only [List.flatMap_cons, List.mem_append]
    intro u hu
    cases hu with
    | inr h => exact ih u h
    | inl h =>
      have hv := char_valid c
      unfold charUnits at h
      split at h
      · simp at h; omega
      · simp at h; omega

theorem decodeUtf16_cons_bmp (u : Nat) (rest : List Nat) (h : (isHigh u || isLow u) = false) :
    decodeUtf16 (u :: rest) = Char.ofNat u :: decodeUtf16 rest := by
  cases rest with
  | nil => simp [decodeUtf16, h]
  | cons u2 r => simp [decodeUtf16, h]

theorem decodeUtf16_cons_pair (u u2 : Nat) (rest : List Nat) (h1 : isHigh u = true) (h2 : isLow u = false)
    (h3 : isLow u2 = true) :
    decodeUtf16 (u :: u2 :: rest) =
      Char.ofNat (0x10000 + ((u - 0xD800) <<< 10) + (u2 - 0xDC00)) :: decodeUtf16 rest := by
  simp [decodeUtf16, h1, h2, h3]

/-- `char::decode_utf16` inverts `str::encode_utf16`. -/
theorem decodeUtf16_utf16Units (t : Str) : decodeUtf16 (utf16Units t) = t := by
  induction t with
  | nil => simp [utf16Units, decodeUtf16]
  | cons c cs ih =>
    unfold utf16Units at *
    have hv := char_valid c
    simp only [List.flatMap_cons]
    by_cases hb : c.toNat < 0x10000
    · have hs : (isHigh c.toNat || isLow c.toNat) = false := by
        simp only [isHigh, isLow, Bool.or_eq_false_iff, Bool.and_eq_false_iff, decide_eq_false_iff_not]
        omega
      simp only [charUnits, hb, if_true, List.cons_append, List.nil_append]
      rw [decodeUtf16_cons_bmp _ _ hs, ih, Char.ofNat_toNat]
    · have h1 : isHigh (0xD800 + (c.toNat - 0x10000) / 1024) = true := by
        simp only [isHigh, Bool.and_eq_true, decide_eq_true_eq]; omega
      have h2 : isLow (0xD800 + (c.toNat - 0x10000) / 1024) = false := by
        simp only [isLow, Bool.and_eq_false_iff, decide_eq_false_iff_not]; omega
      have h3 : isLow (0xDC00 + (c.toNat - 0x10000) % 1024) = true := by
        simp only [isLow, Bool.and_eq_true, decide_eq_true_eq]; omega
      simp only [charUnits, hb, if_false, List.cons_append, List.nil_append]
      rw [decodeUtf16_cons_pair _ _ _ h1 h2 h3, ih]
      have e : ∀ x : Nat, x <<< 10 = x * 1024 := fun x => by rw [Nat.shiftLeft_eq]
      have key : 0x10000 + ((0xD800 + (c.toNat - 0x10000) / 1024 - 0xD800) <<< 10) +
          (0xDC00 + (c.toNat - 0x10000) % 1024 - 0xDC00) = c.toNat := by
        rw [e]; omega
      rw [key, Char.ofNat_toNat]


/-! ### UTF-8 -/

theorem u8_shl6 (a : Nat) : a <<< 6 = a * 64 := by rw [Nat.shiftLeft_eq]
theorem u8_shl12 (a : Nat) : a <<< 12 = a * 4096 := by rw [Nat.shiftLeft_eq]
theorem u8_shl18 (a : Nat) : a <<< 18 = a * 262144 := by rw [Nat.shiftLeft_eq]
theorem u8_and31 (x : Nat) : x &&& 0x1F = x % 32 := Nat.and_two_pow_sub_one_eq_mod x 5
theorem u8_and63 (x : Nat) : x &&& 0x3F = x % 64 := Nat.and_two_pow_sub_one_eq_mod x 6
theorem u8_and15 (x : Nat) : x &&& 0x0F = x % 16 := Nat.and_two_pow_sub_one_eq_mod x 4
theorem u8_and7 (x : Nat) : x &&& 0x07 = x % 8 := Nat.and_two_pow_sub_one_eq_mod x 3

theorem u8_or2 (x y : Nat) (hy : y < 64) : (x <<< 6 ||| y) = x * 64 + y := by
  rw [← Nat.shiftLeft_add_eq_or_of_lt (by simpa using hy), u8_shl6]

theorem u8_or3 (x y z : Nat) (hy : y < 64) (hz : z < 64) :
    (x <<< 12 ||| y <<< 6 ||| z) = x * 4096 + y * 64 + z := by
  have h1 : x <<< 12 ||| y <<< 6 = (x * 64 + y) <<< 6 := by
    rw [← Nat.shiftLeft_add_eq_or_of_lt (by rw [u8_shl6]; show y * 64 < 4096; omega), u8_shl12, u8_shl6, u8_shl6]; omega
  rw [h1, u8_or2 _ _ hz]; omega

theorem u8_or4 (w x y z : Nat) (hx : x < 64) (hy : y < 64) (hz : z < 64) :
    (w <<< 18 ||| x <<< 12 ||| y <<< 6 ||| z) = w * 262144 + x * 4096 + y * 64 + z := by
  have h1 : w <<< 18 ||| x <<< 12 = (w * 64 + x) <<< 12 := by
    rw [← Nat.shiftLeft_add_eq_or_of_lt (by rw [u8_shl12]; show x * 4096 < 262144; omega), u8_shl18, u8_shl12, u8_shl12]; omega
  rw [h1, u8_or3 _ _ _ hy hz]; omega

theorem u8_enc1 (c : Char) (h : c.toNat ≤ 127) : String.utf8EncodeChar c = [UInt8.ofNat c.toNat] := by
  have hv : c.val.toNat = c.toNat := rfl
  simp only [String.utf8EncodeChar, hv]
  rw [if_pos h]

theorem u8_enc2 (c : Char) (h1 : 127 < c.toNat) (h2 : c.toNat ≤ 2047) :
    String.utf8EncodeChar c = [UInt8.ofNat (c.toNat / 64 % 32 + 192), UInt8.ofNat (c.toNat % 64 + 128)] := by
  have hv : c.val.toNat = c.toNat := rfl
  simp only [String.utf8EncodeChar, hv]
  rw [if_neg (by omega), if_pos h2]

theorem u8_enc3 (c : Char) (h1 : 2047 < c.toNat) (h2 : c.toNat ≤ 65535) :
    String.utf8EncodeChar c =
      [UInt8.ofNat (c.toNat / 4096 % 16 + 224), UInt8.ofNat (c.toNat / 64 % 64 + 128),
        UInt8.ofNat (c.toNat % 64 + 128)] := by
  have hv : c.val.toNat = c.toNat := rfl
  simp only [String.utf8EncodeChar, hv]
  rw [if_neg (by omega), if_neg (by omega), if_pos h2]

theorem u8_enc4 (c : Char) (h1 : 65535 < c.toNat) :
    String.utf8EncodeChar c =
      [UInt8.ofNat (c.toNat / 262144 % 8 + 240), UInt8.ofNat (c.toNat / 4096 % 64 + 128),
        UInt8.ofNat (c.toNat / 64 % 64 + 128), UInt8.ofNat (c.toNat % 64 + 128)] := by
  have hv : c.val.toNat = c.toNat := rfl
  simp only [String.utf8EncodeChar, hv]
  rw [if_neg (by omega), if_neg (by omega), if_neg (by omega)]

theorem u8_ofNat_eq_char (c : Char) (n : Nat) (h : n = c.toNat) : Char.ofNat n = c := by
  subst h; exact Char.ofNat_toNat c

theorem u8_step1 (c : Char) (fuel : Nat) (rest : List UInt8) (h : c.toNat ≤ 127) :
    utf8LossyFuel (fuel + 1) (String.utf8EncodeChar c ++ rest) = c :: utf8LossyFuel fuel rest := by
  rw [u8_enc1 c h]
  have f1 : UInt8.ofNat c.toNat < 0x80 := by
    simp only [UInt8.lt_iff_toNat_lt, UInt8.toNat_ofNat', UInt8.toNat_ofNat]; omega
  have f2 : Char.ofNat (UInt8.ofNat c.toNat).toNat = c :=
    u8_ofNat_eq_char c _ (by rw [UInt8.toNat_ofNat']; omega)
  simp only [List.cons_append, List.nil_append, utf8LossyFuel, f1, f2, if_true]

theorem u8_step2 (c : Char) (fuel : Nat) (rest : List UInt8) (h1 : 127 < c.toNat) (h2 : c.toNat ≤ 2047) :
    utf8LossyFuel (fuel + 1) (String.utf8EncodeChar c ++ rest) = c :: utf8LossyFuel fuel rest := by
  rw [u8_enc2 c h1 h2]
  have f1 : ¬ (UInt8.ofNat (c.toNat / 64 % 32 + 192) < 0x80) := by
    simp only [UInt8.lt_iff_toNat_lt, UInt8.toNat_ofNat', UInt8.toNat_ofNat]; omega
  have f2 : (0xC2 ≤ UInt8.ofNat (c.toNat / 64 % 32 + 192) && UInt8.ofNat (c.toNat / 64 % 32 + 192) ≤ 0xDF) = true := by
    simp only [Bool.and_eq_true, decide_eq_true_eq, UInt8.le_iff_toNat_le, UInt8.toNat_ofNat', UInt8.toNat_ofNat]; omega
  have f3 : isCont (UInt8.ofNat (c.toNat % 64 + 128)) = true := by
    simp only [isCont, Bool.and_eq_true, decide_eq_true_eq, UInt8.le_iff_toNat_le, UInt8.toNat_ofNat', UInt8.toNat_ofNat]; omega
  have f4 : cp2 (UInt8.ofNat (c.toNat / 64 % 32 + 192)) (UInt8.ofNat (c.toNat % 64 + 128)) = c := by
    simp only [cp2, UInt8.toNat_ofNat', u8_and31, u8_and63]
    rw [u8_or2 _ _ (by omega)]
    exact u8_ofNat_eq_char c _ (by omega)
  simp only [List.cons_append, List.nil_append, utf8LossyFuel, f1, f2, f3, f4, if_true, if_false]

theorem u8_step3 (c : Char) (fuel : Nat) (rest : List UInt8) (h1 : 2047 < c.toNat) (h2 : c.toNat ≤ 65535) :
    utf8LossyFuel (fuel + 1) (String.utf8EncodeChar c ++ rest) = c :: utf8LossyFuel fuel rest := by
  rw [u8_enc3 c h1 h2]
  have hv := char_valid c
  have f1 : ¬ (UInt8.ofNat (c.toNat / 4096 % 16 + 224) < 0x80) := by
    simp only [UInt8.lt_iff_toNat_lt, UInt8.toNat_ofNat', UInt8.toNat_ofNat]; omega
  have f2 : (0xC2 ≤ UInt8.ofNat (c.toNat / 4096 % 16 + 224) && UInt8.ofNat (c.toNat / 4096 % 16 + 224) ≤ 0xDF) = false := by
    simp only [Bool.and_eq_false_iff, decide_eq_false_iff_not, UInt8.le_iff_toNat_le, UInt8.toNat_ofNat', UInt8.toNat_ofNat]; omega
  have f3 : (0xE0 ≤ UInt8.ofNat (c.toNat / 4096 % 16 + 224) && UInt8.ofNat (c.toNat / 4096 % 16 + 224) ≤ 0xEF) = true := by
    simp only [Bool.and_eq_true, decide_eq_true_eq, UInt8.le_iff_toNat_le, UInt8.toNat_ofNat', UInt8.toNat_ofNat]; omega
  have f4 : secondOk (UInt8.ofNat (c.toNat / 4096 % 16 + 224)) (UInt8.ofNat (c.toNat / 64 % 64 + 128)) = true := by
    simp only [secondOk, isCont, beq_iff_eq, ← UInt8.toNat_inj, UInt8.le_iff_toNat_le, UInt8.toNat_ofNat',
      UInt8.toNat_ofNat]
    repeat' split
    all_goals (simp only [Bool.and_eq_true, decide_eq_true_eq]; omega)
  have f5 : isCont (UInt8.ofNat (c.toNat % 64 + 128)) = true := by
    simp only [isCont, Bool.and_eq_true, decide_eq_true_eq, UInt8.le_iff_toNat_le, UInt8.toNat_ofNat', UInt8.toNat_ofNat]; omega
  have f6 : cp3 (UInt8.ofNat (c.toNat / 4096 % 16 + 224)) (UInt8.ofNat (c.toNat / 64 % 64 + 128))
      (UInt8.ofNat (c.toNat % 64 + 128)) = c := by
    simp only [cp3, UInt8.toNat_ofNat', u8_and15, u8_and63]
    rw [u8_or3 _ _ _ (by omega) (by omega)]
    exact u8_ofNat_eq_char c _ (by omega)
  simp only [List.cons_append, List.nil_append, utf8LossyFuel, f1, f2, f3, f4, f5, f6, if_true, if_false,
    Bool.not_true, Bool.false_eq_true]

theorem u8_step4 (c : Char) (fuel : Nat) (rest : List UInt8) (h1 : 65535 < c.toNat) :
    utf8LossyFuel (fuel + 1) (String.utf8EncodeChar c ++ rest) = c :: utf8LossyFuel fuel rest := by
  rw [u8_enc4 c h1]
  have hv := char_valid c
  have f1 : ¬ (UInt8.ofNat (c.toNat / 262144 % 8 + 240) < 0x80) := by
    simp only [UInt8.lt_iff_toNat_lt, UInt8.toNat_ofNat', UInt8.toNat_ofNat]; omega
  have f2 : (0xC2 ≤ UInt8.ofNat (c.toNat / 262144 % 8 + 240) && UInt8.ofNat (c.toNat / 262144 % 8 + 240) ≤ 0xDF) = false := by
    simp only [Bool.and_eq_false_iff, decide_eq_false_iff_not, UInt8.le_iff_toNat_le, UInt8.toNat_ofNat', UInt8.toNat_ofNat]; omega
  have f3 : (0xE0 ≤ UInt8.ofNat (c.toNat / 262144 % 8 + 240) && UInt8.ofNat (c.toNat / 262144 % 8 + 240) ≤ 0xEF) = false := by
    simp only [Bool.and_eq_false_iff, decide_eq_false_iff_not, UInt8.le_iff_toNat_le, UInt8.toNat_ofNat', UInt8.toNat_ofNat]; omega
  have f3' : (0xF0 ≤ UInt8.ofNat (c.toNat / 262144 % 8 + 240) && UInt8.ofNat (c.toNat / 262144 % 8 + 240) ≤ 0xF4) = true := by
    simp only [Bool.and_eq_true, decide_eq_true_eq, UInt8.le_iff_toNat_le, UInt8.toNat_ofNat', UInt8.toNat_ofNat]; omega
  have f4 : secondOk (UInt8.ofNat (c.toNat / 262144 % 8 + 240)) (UInt8.ofNat (c.toNat / 4096 % 64 + 128)) = true := by
    simp only [secondOk, isCont, beq_iff_eq, ← UInt8.toNat_inj, UInt8.le_iff_toNat_le, UInt8.toNat_ofNat',
      UInt8.toNat_ofNat]
    repeat' split
    all_goals (simp only [Bool.and_eq_true, decide_eq_true_eq]; omega)
  have f5 : isCont (UInt8.ofNat (c.toNat / 64 % 64 + 128)) = true := by
    simp only [isCont, Bool.and_eq_true, decide_eq_true_eq, UInt8.le_iff_toNat_le, UInt8.toNat_ofNat', UInt8.toNat_ofNat]; omega
  have f5' : isCont (UInt8.ofNat (c.toNat % 64 + 128)) = true := by
    simp only [isCont, Bool.and_eq_true, decide_eq_true_eq, UInt8.le_iff_toNat_le, UInt8.toNat_ofNat', UInt8.toNat_ofNat]; omega
  have f6 : cp4 (UInt8.ofNat (c.toNat / 262144 % 8 + 240)) (UInt8.ofNat (c.toNat / 4096 % 64 + 128))
      (UInt8.ofNat (c.toNat / 64 % 64 + 128)) (UInt8.ofNat (c.toNat % 64 + 128)) = c := by
    simp only [cp4, UInt8.toNat_ofNat', u8_and7, u8_and63]
    rw [u8_or4 _ _ _ _ (by omega) (by omega) (by omega)]
    exact u8_ofNat_eq_char c _ (by omega)
  simp only [List.cons_append, List.nil_append, utf8LossyFuel, f1, f2, f3, f3', f4, f5, f5', f6, if_true, if_false,
    Bool.not_true, Bool.false_eq_true]

/-- one character of valid UTF-8 decodes to itself and consumes one unit of fuel. -/
theorem utf8LossyFuel_char (c : Char) (fuel : Nat) (rest : List UInt8) :
    utf8LossyFuel (fuel + 1) (String.utf8EncodeChar c ++ rest) = c :: utf8LossyFuel fuel rest := by
  by_cases a : c.toNat ≤ 127
  · exact u8_step1 c fuel rest a
  · by_cases b : c.toNat ≤ 2047
    · exact u8_step2 c fuel rest (by omega) b
    · by_cases d : c.toNat ≤ 65535
      · exact u8_step3 c fuel rest (by omega) d
      · exact u8_step4 c fuel rest (by omega)

theorem utf8EncodeChar_length_pos (c : Char) : 0 < (String.utf8EncodeChar c).length := by
  by_cases a : c.toNat ≤ 127
  · rw [u8_enc1 c a]; simp
  · by_cases b : c.toNat ≤ 2047
    · rw [u8_enc2 c (by omega) b]; simp
    · by_cases d : c.toNat ≤ 65535
      · rw [u8_enc3 c (by omega) d]; simp
      · rw [u8_enc4 c (by omega)]; simp

theorem utf8LossyFuel_utf8Encode (s : Str) (fuel : Nat) (h : (utf8Encode s).length ≤ fuel) :
    utf8LossyFuel fuel (utf8Encode s) = s := by
  induction s generalizing fuel with
  | nil => cases fuel <;> simp [utf8Encode, utf8LossyFuel]
  | cons c cs ih =>
    unfold utf8Encode at *
    simp only [List.flatMap_cons, List.length_append] at h ⊢
    have := utf8EncodeChar_length_pos c
    cases fuel with
    | zero => omega
    | succ n => rw [utf8LossyFuel_char, ih n (by omega)]

/-- **valid UTF-8 decodes to itself**: the lossy decoder inverts the encoder on every text. -/
theorem utf8Lossy_utf8Encode (s : Str) : utf8Lossy (utf8Encode s) = s :=
  utf8LossyFuel_utf8Encode s _ (Nat.le_refl _)

/-- the byte 0x0A occurs in UTF-8 only as the encoding of U+000A. -/
theorem utf8EncodeChar_noLF (c : Char) (h : c.toNat ≠ 10) : ∀ b ∈ String.utf8EncodeChar c, isLFb b = false := by
  intro b hb
  by_cases a : c.toNat ≤ 127
  · rw [u8_enc1 c a] at hb
    simp only [List.mem_cons, List.not_mem_nil, or_false] at hb; subst hb
    simp only [isLFb, ofNat_beq_lf, beq_eq_false_iff_ne, ne_eq]; omega
  · by_cases b2 : c.toNat ≤ 2047
    · rw [u8_enc2 c (by omega) b2] at hb
      simp only [List.mem_cons, List.not_mem_nil, or_false] at hb
      rcases hb with rfl | rfl <;> (simp only [isLFb, ofNat_beq_lf, beq_eq_false_iff_ne, ne_eq]; omega)
    · by_cases d : c.toNat ≤ 65535
      · rw [u8_enc3 c (by omega) d] at hb
        simp only [List.mem_cons, List.not_mem_nil, or_false] at hb
        rcases hb with rfl | rfl | rfl <;> (simp only [isLFb, ofNat_beq_lf, beq_eq_false_iff_ne, ne_eq]; omega)
      · rw [u8_enc4 c (by omega)] at hb
        simp only [List.mem_cons, List.not_mem_nil, or_false] at hb
        rcases hb with rfl | rfl | rfl | rfl <;> (simp only [isLFb, ofNat_beq_lf, beq_eq_false_iff_ne, ne_eq]; omega)

/-- the byte-level lines of a UTF-8 text are the encodings of its lines. -/
theorem rawLines_utf8Encode (t : Str) : rawLines (utf8Encode t) = (textLines t).map utf8Encode := by
  induction t with
  | nil => rfl
  | cons c cs ih =>
    unfold rawLines textLines utf8Encode at *
    simp only [List.flatMap_cons, linesBy, isLFc, char_eq_lf]
    by_cases h10 : c.toNat = 10
    · have : String.utf8EncodeChar c = [0x0A] := by
        rw [u8_enc1 c (by omega), h10]; rfl
      simp [this, h10, linesBy, isLFb, ih]
    · have h10' : (c.toNat == 10) = false := by simpa using h10
      simp only [h10', Bool.false_eq_true, if_false, map_consHead]
      rw [linesBy_append_nonLF _ _ _ (utf8EncodeChar_noLF c h10)
        (by have := utf8EncodeChar_length_pos c; intro e; rw [e] at this; simp at this), ih]
      cases linesBy isLFc cs <;> simp

end Rosu
