/-
  Lemmas/UtfSpec.lean — encoders against the decoders of Model/Utf.lean: where the byte 0x0A can
  occur in an encoded text, and round trips. Used by C10.
-/
import RosuModel.Lemmas.LinesSpec
namespace Rosu

theorem ofNat_beq_lf (n : Nat) : (UInt8.ofNat n == 0x0A) = (n % 256 == 10) := by
  rw [Bool.eq_iff_iff]
  simp only [beq_iff_eq]
  rw [← UInt8.toNat_inj, UInt8.toNat_ofNat']
  simp

theorem char_valid (c : Char) : c.toNat < 0xD800 ∨ (0xDFFF < c.toNat ∧ c.toNat < 0x110000) := by
  have := c.valid
  simp [UInt32.isValidChar, Nat.isValidChar] at this
  exact this

theorem char_eq_lf (c : Char) : (c == '\n') = (c.toNat == 10) := by
  rw [Bool.eq_iff_iff]
  simp only [beq_iff_eq]
  constructor
  · intro h; subst h; rfl
  · intro h
    apply Char.ext
    apply UInt32.toNat_inj.mp
    exact h

/-! ### UTF-16 -/

def isLFu (u : Nat) : Bool := u == 10
def isLFc (c : Char) : Bool := c == '\n'

/-- a code unit is harmless for the byte-level line search: it is U+000A itself or neither of
its bytes is 0x0A. -/
def okUnit (u : Nat) : Bool := u == 10 || (u % 256 != 10 && (u / 256) % 256 != 10)

/-- the lines of a text: cut after every U+000A. -/
def textLines (t : Str) : List Str := linesBy isLFc t

theorem map_consHead {α β : Type} (f : List α → List β) (a : α) (L : List (List α)) :
    (consHead a L).map f = match L with
      | [] => [f [a]]
      | l :: ls => f (a :: l) :: ls.map f := by
  cases L <;> rfl

theorem rawLinesLE_units (us : List Nat) (h : us.all okUnit = true) :
    rawLinesLE (us.flatMap (unitBytes true)) = (linesBy isLFu us).map (fun l => l.flatMap (unitBytes true)) ∧
    leDangling (us.flatMap (unitBytes true)) = false := by
  induction us with
  | nil => simp [rawLinesLE, leDangling, linesBy]
  | cons u us ih =>
    simp only [List.all_cons, Bool.and_eq_true] at h
    obtain ⟨i1, i2⟩ := ih h.2
    have hu := h.1
    simp only [List.flatMap_cons, unitBytes, if_true, List.cons_append, List.nil_append, rawLinesLE, leDangling,
      ofNat_beq_lf, Nat.mod_mod, linesBy, isLFu]
    by_cases h10 : u = 10
    · subst h10
      simp [i1, i2, unitBytes]
    · have hlo : (u % 256 == 10) = false := by
        simp only [okUnit, Bool.or_eq_true, beq_iff_eq, h10, false_or, Bool.and_eq_true, bne_iff_ne] at hu
        simpa using hu.1
      have hhi : (u / 256 % 256 == 10) = false := by
        simp only [okUnit, Bool.or_eq_true, beq_iff_eq, h10, false_or, Bool.and_eq_true, bne_iff_ne] at hu
        simpa using hu.2
      have h10' : (u == 10) = false := by simpa using h10
      simp only [hlo, h10', Bool.false_eq_true, if_false]
      refine ⟨?_, ?_⟩
      · -- two bytes pushed onto the first line
        have e : rawLinesLE (UInt8.ofNat (u / 256) :: List.flatMap (unitBytes true) us) =
            consHead (UInt8.ofNat (u / 256)) (rawLinesLE (List.flatMap (unitBytes true) us)) := by
          cases hr : List.flatMap (unitBytes true) us <;> simp [rawLinesLE, ofNat_beq_lf, hhi]
        rw [e, i1, map_consHead]
        cases linesBy isLFu us <;> simp [consHead, unitBytes]
      · have e : leDangling (UInt8.ofNat (u / 256) :: List.flatMap (unitBytes true) us) =
            leDangling (List.flatMap (unitBytes true) us) := by
          cases hr : List.flatMap (unitBytes true) us <;> simp [leDangling, ofNat_beq_lf, hhi]
        rw [e, i2]

theorem rawLines_units (us : List Nat) (h : us.all okUnit = true) :
    rawLines (us.flatMap (unitBytes false)) = (linesBy isLFu us).map (fun l => l.flatMap (unitBytes false)) := by
  induction us with
  | nil => simp [rawLines, linesBy]
  | cons u us ih =>
    simp only [List.all_cons, Bool.and_eq_true] at h
    have i1 := ih h.2
    have hu := h.1
    unfold rawLines at i1 ⊢
    simp only [List.flatMap_cons, unitBytes, Bool.false_eq_true, if_false, List.cons_append, List.nil_append,
      linesBy, isLFb, ofNat_beq_lf, Nat.mod_mod, isLFu]
    by_cases h10 : u = 10
    · subst h10
      simp [i1, consHead, unitBytes]
    · have hlo : (u % 256 == 10) = false := by
        simp only [okUnit, Bool.or_eq_true, beq_iff_eq, h10, false_or, Bool.and_eq_true, bne_iff_ne] at hu
        simpa using hu.1
      have hhi : (u / 256 % 256 == 10) = false := by
        simp only [okUnit, Bool.or_eq_true, beq_iff_eq, h10, false_or, Bool.and_eq_true, bne_iff_ne] at hu
        simpa using hu.2
      have h10' : (u == 10) = false := by simpa using h10
      simp only [hlo, hhi, h10', Bool.false_eq_true, if_false, i1, map_consHead]
      cases linesBy isLFu us <;> simp [consHead, unitBytes]

/-- the unit-level lines of a text are the units of its lines. -/
theorem linesBy_utf16Units (t : Str) :
    linesBy isLFu (utf16Units t) = (textLines t).map utf16Units := by
  induction t with
  | nil => rfl
  | cons c cs ih =>
    unfold textLines utf16Units at *
    simp only [List.flatMap_cons, linesBy, isLFc, char_eq_lf]
    by_cases h10 : c.toNat = 10
    · simp [charUnits, h10, linesBy, isLFu, ih]
    · have h10' : (c.toNat == 10) = false := by simpa using h10
      simp only [h10', Bool.false_eq_true, if_false, map_consHead]
      by_cases hb : c.toNat < 0x10000
      · simp only [charUnits, hb, if_true, List.cons_append, List.nil_append, linesBy, isLFu, h10',
          Bool.false_eq_true, if_false, ih]
        cases linesBy isLFc cs <;> simp [consHead, charUnits, hb]
      · have e1 : (0xD800 + (c.toNat - 0x10000) / 1024 == 10) = false := by
          simp only [beq_eq_false_iff_ne, ne_eq]; omega
        have e2 : (0xDC00 + (c.toNat - 0x10000) % 1024 == 10) = false := by
          simp only [beq_eq_false_iff_ne, ne_eq]; omega
        simp only [charUnits, hb, if_false, List.cons_append, List.nil_append, linesBy, isLFu, e1, e2,
          Bool.false_eq_true, ih]
        cases linesBy isLFc cs <;> simp [consHead, charUnits, hb]

/-- pairing bytes back into the code units they came from. -/
theorem u16s_unitBytes (le : Bool) (us : List Nat) (h : ∀ u ∈ us, u < 65536) :
    u16s le (us.flatMap (unitBytes le)) = us := by
  induction us with
  | nil => simp [u16s]
  | cons u us ih =>
    have hu : u < 65536 := h u (by simp)
    have ih' := ih (fun x hx => h x (by simp [hx]))
    cases le with
    | true =>
      simp only [List.flatMap_cons, unitBytes, if_true, List.cons_append, List.nil_append, u16s, ih',
        UInt8.toNat_ofNat']
      congr 1; omega
    | false =>
      simp only [List.flatMap_cons, unitBytes, Bool.false_eq_true, if_false, List.cons_append, List.nil_append,
        u16s, ih', UInt8.toNat_ofNat']
      congr 1; omega

theorem utf16Units_lt (t : Str) : ∀ u ∈ utf16Units t, u < 65536 := by
  induction t with
  | nil => simp [utf16Units]
  | cons c cs ih =>
    unfold utf16Units at *
    simp only [List.flatMap_cons, List.mem_append]
    intro u hu
    cases hu with
    | inr h => exact ih u h
    | inl h =>
      have hv := char_valid c
      unfold charUnits at h
      split at h
      · simp at h; omega
      · simp at h; omega

theorem decodeUtf16_cons_bmp (u : Nat) (rest : List Nat) (h : (isHigh u || isLow u) = false) :
    decodeUtf16 (u :: rest) = Char.ofNat u :: decodeUtf16 rest := by
  cases rest with
  | nil => simp [decodeUtf16, h]
  | cons u2 r => simp [decodeUtf16, h]

theorem decodeUtf16_cons_pair (u u2 : Nat) (rest : List Nat) (h1 : isHigh u = true) (h2 : isLow u = false)
    (h3 : isLow u2 = true) :
    decodeUtf16 (u :: u2 :: rest) =
      Char.ofNat (0x10000 + ((u - 0xD800) <<< 10) + (u2 - 0xDC00)) :: decodeUtf16 rest := by
  simp [decodeUtf16, h1, h2, h3]

/-- `char::decode_utf16` inverts `str::encode_utf16`. -/
theorem decodeUtf16_utf16Units (t : Str) : decodeUtf16 (utf16Units t) = t := by
  induction t with
  | nil => simp [utf16Units, decodeUtf16]
  | cons c cs ih =>
    unfold utf16Units at *
    have hv := char_valid c
    simp only [List.flatMap_cons]
    by_cases hb : c.toNat < 0x10000
    · have hs : (isHigh c.toNat || isLow c.toNat) = false := by
        simp only [isHigh, isLow, Bool.or_eq_false_iff, Bool.and_eq_false_iff, decide_eq_false_iff_not]
        omega
      simp only [charUnits, hb, if_true, List.cons_append, List.nil_append]
      rw [decodeUtf16_cons_bmp _ _ hs, ih, Char.ofNat_toNat]
    · have h1 : isHigh (0xD800 + (c.toNat - 0x10000) / 1024) = true := by
        simp only [isHigh, Bool.and_eq_true, decide_eq_true_eq]; omega
      have h2 : isLow (0xD800 + (c.toNat - 0x10000) / 1024) = false := by
        simp only [isLow, Bool.and_eq_false_iff, decide_eq_false_iff_not]; omega
      have h3 : isLow (0xDC00 + (c.toNat - 0x10000) % 1024) = true := by
        simp only [isLow, Bool.and_eq_true, decide_eq_true_eq]; omega
      simp only [charUnits, hb, if_false, List.cons_append, List.nil_append]
      rw [decodeUtf16_cons_pair _ _ _ h1 h2 h3, ih]
      have e : ∀ x : Nat, x <<< 10 = x * 1024 := fun x => by rw [Nat.shiftLeft_eq]
      have key : 0x10000 + ((0xD800 + (c.toNat - 0x10000) / 1024 - 0xD800) <<< 10) +
          (0xDC00 + (c.toNat - 0x10000) % 1024 - 0xDC00) = c.toNat := by
        rw [e]; omega
      rw [key, Char.ofNat_toNat]


/-! ### UTF-8 -/

theorem u8_shl6 (a : Nat) : a <<< 6 = a * 64 := by rw [Nat.shiftLeft_eq]
theorem u8_shl12 (a : Nat) : a <<< 12 = a * 4096 := by rw [Nat.shiftLeft_eq]
theorem u8_shl18 (a : Nat) : a <<< 18 = a * 262144 := by rw [Nat.shiftLeft_eq]
theorem u8_and31 (x : Nat) : x &&& 0x1F = x % 32 := Nat.and_two_pow_sub_one_eq_mod x 5
theorem u8_and63 (x : Nat) : x &&& 0x3F = x % 64 := Nat.and_two_pow_sub_one_eq_mod x 6
theorem u8_and15 (x : Nat) : x &&& 0x0F = x % 16 := Nat.and_two_pow_sub_one_eq_mod x 4
theorem u8_and7 (x : Nat) : x &&& 0x07 = x % 8 := Nat.and_two_pow_sub_one_eq_mod x 3

theorem u8_or2 (x y : Nat) (hy : y < 64) : (x <<< 6 ||| y) = x * 64 + y := by
  rw [← Nat.shiftLeft_add_eq_or_of_lt (by simpa using hy), u8_shl6]

theorem u8_or3 (x y z : Nat) (hy : y < 64) (hz : z < 64) :
    (x <<< 12 ||| y <<< 6 ||| z) = x * 4096 + y * 64 + z := by
  have h1 : x <<< 12 ||| y <<< 6 = (x * 64 + y) <<< 6 := by
    rw [← Nat.shiftLeft_add_eq_or_of_lt (by rw [u8_shl6]; show y * 64 < 4096; omega), u8_shl12, u8_shl6, u8_shl6]; omega
  rw [h1, u8_or2 _ _ hz]; omega

theorem u8_or4 (w x y z : Nat) (hx : x < 64) (hy : y < 64) (hz : z < 64) :
    (w <<< 18 ||| x <<< 12 ||| y <<< 6 ||| z) = w * 262144 + x * 4096 + y * 64 + z := by
  have h1 : w <<< 18 ||| x <<< 12 = (w * 64 + x) <<< 12 := by
    rw [← Nat.shiftLeft_add_eq_or_of_lt (by rw [u8_shl12]; show x * 4096 < 262144; omega), u8_shl18, u8_shl12, u8_shl12]; omega
  rw [h1, u8_or3 _ _ _ hy hz]; omega

theorem u8_enc1 (c : Char) (h : c.toNat ≤ 127) : String.utf8EncodeChar c = [UInt8.ofNat c.toNat] := by
  have hv : c.val.toNat = c.toNat := rfl
  simp only [String.utf8EncodeChar, hv]
  rw [if_pos h]

theorem u8_enc2 (c : Char) (h1 : 127 < c.toNat) (h2 : c.toNat ≤ 2047) :
    String.utf8EncodeChar c = [UInt8.ofNat (c.toNat / 64 % 32 + 192), UInt8.ofNat (c.toNat % 64 + 128)] := by
  have hv : c.val.toNat = c.toNat := rfl
  simp only [String.utf8EncodeChar, hv]
  rw [if_neg (by omega), if_pos h2]

theorem u8_enc3 (c : Char) (h1 : 2047 < c.toNat) (h2 : c.toNat ≤ 65535) :
    String.utf8EncodeChar c =
      [UInt8.ofNat (c.toNat / 4096 % 16 + 224), UInt8.ofNat (c.toNat / 64 % 64 + 128),
        UInt8.ofNat (c.toNat % 64 + 128)] := by
  have hv : c.val.toNat = c.toNat := rfl
  simp only [String.utf8EncodeChar, hv]
  rw [if_neg (by omega), if_neg (by omega), if_pos h2]

theorem u8_enc4 (c : Char) (h1 : 65535 < c.toNat) :
    String.utf8EncodeChar c =
      [UInt8.ofNat (c.toNat / 262144 % 8 + 240), UInt8.ofNat (c.toNat / 4096 % 64 + 128),
        UInt8.ofNat (c.toNat / 64 % 64 + 128), UInt8.ofNat (c.toNat % 64 + 128)] := by
  have hv : c.val.toNat = c.toNat := rfl
  simp only [String.utf8EncodeChar, hv]
  rw [if_neg (by omega), if_neg (by omega), if_neg (by omega)]

theorem u8_ofNat_eq_char (c : Char) (n : Nat) (h : n = c.toNat) : Char.ofNat n = c := by
  subst h; exact Char.ofNat_toNat c

theorem u8_step1 (c : Char) (fuel : Nat) (rest : List UInt8) (h : c.toNat ≤ 127) :
    utf8LossyFuel (fuel + 1) (String.utf8EncodeChar c ++ rest) = c :: utf8LossyFuel fuel rest := by
  rw [u8_enc1 c h]
  have f1 : UInt8.ofNat c.toNat < 0x80 := by
    simp only [UInt8.lt_iff_toNat_lt, UInt8.toNat_ofNat', UInt8.toNat_ofNat]; omega
  have f2 : Char.ofNat (UInt8.ofNat c.toNat).toNat = c :=
    u8_ofNat_eq_char c _ (by rw [UInt8.toNat_ofNat']; omega)
  simp only [List.cons_append, List.nil_append, utf8LossyFuel, f1, f2, if_true]

theorem u8_step2 (c : Char) (fuel : Nat) (rest : List UInt8) (h1 : 127 < c.toNat) (h2 : c.toNat ≤ 2047) :
    utf8LossyFuel (fuel + 1) (String.utf8EncodeChar c ++ rest) = c :: utf8LossyFuel fuel rest := by
  rw [u8_enc2 c h1 h2]
  have f1 : ¬ (UInt8.ofNat (c.toNat / 64 % 32 + 192) < 0x80) := by
    simp only [UInt8.lt_iff_toNat_lt, UInt8.toNat_ofNat', UInt8.toNat_ofNat]; omega
  have f2 : (0xC2 ≤ UInt8.ofNat (c.toNat / 64 % 32 + 192) && UInt8.ofNat (c.toNat / 64 % 32 + 192) ≤ 0xDF) = true := by
    simp only [Bool.and_eq_true, decide_eq_true_eq, UInt8.le_iff_toNat_le, UInt8.toNat_ofNat', UInt8.toNat_ofNat]; omega
  have f3 : isCont (UInt8.ofNat (c.toNat % 64 + 128)) = true := by
    simp only [isCont, Bool.and_eq_true, decide_eq_true_eq, UInt8.le_iff_toNat_le, UInt8.toNat_ofNat', UInt8.toNat_ofNat]; omega
  have f4 : cp2 (UInt8.ofNat (c.toNat / 64 % 32 + 192)) (UInt8.ofNat (c.toNat % 64 + 128)) = c := by
    simp only [cp2, UInt8.toNat_ofNat', u8_and31, u8_and63]
    rw [u8_or2 _ _ (by omega)]
    exact u8_ofNat_eq_char c _ (by omega)
  simp only [List.cons_append, List.nil_append, utf8LossyFuel, f1, f2, f3, f4, if_true, if_false]

theorem u8_step3 (c : Char) (fuel : Nat) (rest : List UInt8) (h1 : 2047 < c.toNat) (h2 : c.toNat ≤ 65535) :
    utf8LossyFuel (fuel + 1) (String.utf8EncodeChar c ++ rest) = c :: utf8LossyFuel fuel rest := by
  rw [u8_enc3 c h1 h2]
  have hv := char_valid c
  have f1 : ¬ (UInt8.ofNat (c.toNat / 4096 % 16 + 224) < 0x80) := by
    simp only [UInt8.lt_iff_toNat_lt, UInt8.toNat_ofNat', UInt8.toNat_ofNat]; omega
  have f2 : (0xC2 ≤ UInt8.ofNat (c.toNat / 4096 % 16 + 224) && UInt8.ofNat (c.toNat / 4096 % 16 + 224) ≤ 0xDF) = false := by
    simp only [Bool.and_eq_false_iff, decide_eq_false_iff_not, UInt8.le_iff_toNat_le, UInt8.toNat_ofNat', UInt8.toNat_ofNat]; omega
  have f3 : (0xE0 ≤ UInt8.ofNat (c.toNat / 4096 % 16 + 224) && UInt8.ofNat (c.toNat / 4096 % 16 + 224) ≤ 0xEF) = true := by
    simp only [Bool.and_eq_true, decide_eq_true_eq, UInt8.le_iff_toNat_le, UInt8.toNat_ofNat', UInt8.toNat_ofNat]; omega
  have f4 : secondOk (UInt8.ofNat (c.toNat / 4096 % 16 + 224)) (UInt8.ofNat (c.toNat / 64 % 64 + 128)) = true := by
    simp only [secondOk, isCont, beq_iff_eq, ← UInt8.toNat_inj, UInt8.le_iff_toNat_le, UInt8.toNat_ofNat',
      UInt8.toNat_ofNat]
    repeat' split
    all_goals (simp only [Bool.and_eq_true, decide_eq_true_eq]; omega)
  have f5 : isCont (UInt8.ofNat (c.toNat % 64 + 128)) = true := by
    simp only [isCont, Bool.and_eq_true, decide_eq_true_eq, UInt8.le_iff_toNat_le, UInt8.toNat_ofNat', UInt8.toNat_ofNat]; omega
  have f6 : cp3 (UInt8.ofNat (c.toNat / 4096 % 16 + 224)) (UInt8.ofNat (c.toNat / 64 % 64 + 128))
      (UInt8.ofNat (c.toNat % 64 + 128)) = c := by
    simp only [cp3, UInt8.toNat_ofNat', u8_and15, u8_and63]
    rw [u8_or3 _ _ _ (by omega) (by omega)]
    exact u8_ofNat_eq_char c _ (by omega)
  simp only [List.cons_append, List.nil_append, utf8LossyFuel, f1, f2, f3, f4, f5, f6, if_true, if_false,
    Bool.not_true, Bool.false_eq_true]

theorem u8_step4 (c : Char) (fuel : Nat) (rest : List UInt8) (h1 : 65535 < c.toNat) :
    utf8LossyFuel (fuel + 1) (String.utf8EncodeChar c ++ rest) = c :: utf8LossyFuel fuel rest := by
  rw [u8_enc4 c h1]
  have hv := char_valid c
  have f1 : ¬ (UInt8.ofNat (c.toNat / 262144 % 8 + 240) < 0x80) := by
    simp only [UInt8.lt_iff_toNat_lt, UInt8.toNat_ofNat', UInt8.toNat_ofNat]; omega
  have f2 : (0xC2 ≤ UInt8.ofNat (c.toNat / 262144 % 8 + 240) && UInt8.ofNat (c.toNat / 262144 % 8 + 240) ≤ 0xDF) = false := by
    simp only [Bool.and_eq_false_iff, decide_eq_false_iff_not, UInt8.le_iff_toNat_le, UInt8.toNat_ofNat', UInt8.toNat_ofNat]; omega
  have f3 : (0xE0 ≤ UInt8.ofNat (c.toNat / 262144 % 8 + 240) && UInt8.ofNat (c.toNat / 262144 % 8 + 240) ≤ 0xEF) = false := by
    simp only [Bool.and_eq_false_iff, decide_eq_false_iff_not, UInt8.le_iff_toNat_le, UInt8.toNat_ofNat', UInt8.toNat_ofNat]; omega
  have f3' : (0xF0 ≤ UInt8.ofNat (c.toNat / 262144 % 8 + 240) && UInt8.ofNat (c.toNat / 262144 % 8 + 240) ≤ 0xF4) = true := by
    simp only [Bool.and_eq_true, decide_eq_true_eq, UInt8.le_iff_toNat_le, UInt8.toNat_ofNat', UInt8.toNat_ofNat]; omega
  have f4 : secondOk (UInt8.ofNat (c.toNat / 262144 % 8 + 240)) (UInt8.ofNat (c.toNat / 4096 % 64 + 128)) = true := by
    simp only [secondOk, isCont, beq_iff_eq, ← UInt8.toNat_inj, UInt8.le_iff_toNat_le, UInt8.toNat_ofNat',
      UInt8.toNat_ofNat]
    repeat' split
    all_goals (simp only [Bool.and_eq_true, decide_eq_true_eq]; omega)
  have f5 : isCont (UInt8.ofNat (c.toNat / 64 % 64 + 128)) = true := by
    simp only [isCont, Bool.and_eq_true, decide_eq_true_eq, UInt8.le_iff_toNat_le, UInt8.toNat_ofNat', UInt8.toNat_ofNat]; omega
  have f5' : isCont (UInt8.ofNat (c.toNat % 64 + 128)) = true := by
    simp only [isCont, Bool.and_eq_true, decide_eq_true_eq, UInt8.le_iff_toNat_le, UInt8.toNat_ofNat', UInt8.toNat_ofNat]; omega
  have f6 : cp4 (UInt8.ofNat (c.toNat / 262144 % 8 + 240)) (UInt8.ofNat (c.toNat / 4096 % 64 + 128))
      (UInt8.ofNat (c.toNat / 64 % 64 + 128)) (UInt8.ofNat (c.toNat % 64 + 128)) = c := by
    simp only [cp4, UInt8.toNat_ofNat', u8_and7, u8_and63]
    rw [u8_or4 _ _ _ _ (by omega) (by omega) (by omega)]
    exact u8_ofNat_eq_char c _ (by omega)
  simp only [List.cons_append, List.nil_append, utf8LossyFuel, f1, f2, f3, f3', f4, f5, f5', f6, if_true, if_false,
    Bool.not_true, Bool.false_eq_true]

/-- one character of valid UTF-8 decodes to itself and consumes one unit of fuel. -/
theorem utf8LossyFuel_char (c : Char) (fuel : Nat) (rest : List UInt8) :
    utf8LossyFuel (fuel + 1) (String.utf8EncodeChar c ++ rest) = c :: utf8LossyFuel fuel rest := by
  by_cases a : c.toNat ≤ 127
  · exact u8_step1 c fuel rest a
  · by_cases b : c.toNat ≤ 2047
    · exact u8_step2 c fuel rest (by omega) b
    · by_cases d : c.toNat ≤ 65535
      · exact u8_step3 c fuel rest (by omega) d
      · exact u8_step4 c fuel rest (by omega)

theorem utf8EncodeChar_length_pos (c : Char) : 0 < (String.utf8EncodeChar c).length := by
  by_cases a : c.toNat ≤ 127
  · rw [u8_enc1 c a]; simp
  · by_cases b : c.toNat ≤ 2047
    · rw [u8_enc2 c (by omega) b]; simp
    · by_cases d : c.toNat ≤ 65535
      · rw [u8_enc3 c (by omega) d]; simp
      · rw [u8_enc4 c (by omega)]; simp

theorem utf8LossyFuel_utf8Encode (s : Str) (fuel : Nat) (h : (utf8Encode s).length ≤ fuel) :
    utf8LossyFuel fuel (utf8Encode s) = s := by
  induction s generalizing fuel with
  | nil => cases fuel <;> simp [utf8Encode, utf8LossyFuel]
  | cons c cs ih =>
    unfold utf8Encode at *
    simp only [List.flatMap_cons, List.length_append] at h ⊢
    have := utf8EncodeChar_length_pos c
    cases fuel with
    | zero => omega
    | succ n => rw [utf8LossyFuel_char, ih n (by omega)]

/-- **valid UTF-8 decodes to itself**: the lossy decoder inverts the encoder on every text. -/
theorem utf8Lossy_utf8Encode (s : Str) : utf8Lossy (utf8Encode s) = s :=
  utf8LossyFuel_utf8Encode s _ (Nat.le_refl _)

/-- the byte 0x0A occurs in UTF-8 only as the encoding of U+000A. -/
theorem utf8EncodeChar_noLF (c : Char) (h : c.toNat ≠ 10) : ∀ b ∈ String.utf8EncodeChar c, isLFb b = false := by
  intro b hb
  by_cases a : c.toNat ≤ 127
  · rw [u8_enc1 c a] at hb
    simp only [List.mem_cons, List.not_mem_nil, or_false] at hb; subst hb
    simp only [isLFb, ofNat_beq_lf, beq_eq_false_iff_ne, ne_eq]; omega
  · by_cases b2 : c.toNat ≤ 2047
    · rw [u8_enc2 c (by omega) b2] at hb
      simp only [List.mem_cons, List.not_mem_nil, or_false] at hb
      rcases hb with rfl | rfl <;> (simp only [isLFb, ofNat_beq_lf, beq_eq_false_iff_ne, ne_eq]; omega)
    · by_cases d : c.toNat ≤ 65535
      · rw [u8_enc3 c (by omega) d] at hb
        simp only [List.mem_cons, List.not_mem_nil, or_false] at hb
        rcases hb with rfl | rfl | rfl <;> (simp only [isLFb, ofNat_beq_lf, beq_eq_false_iff_ne, ne_eq]; omega)
      · rw [u8_enc4 c (by omega)] at hb
        simp only [List.mem_cons, List.not_mem_nil, or_false] at hb
        rcases hb with rfl | rfl | rfl | rfl <;> (simp only [isLFb, ofNat_beq_lf, beq_eq_false_iff_ne, ne_eq]; omega)

/-- the byte-level lines of a UTF-8 text are the encodings of its lines. -/
theorem rawLines_utf8Encode (t : Str) : rawLines (utf8Encode t) = (textLines t).map utf8Encode := by
  induction t with
  | nil => rfl
  | cons c cs ih =>
    unfold rawLines textLines utf8Encode at *
    simp only [List.flatMap_cons, linesBy, isLFc, char_eq_lf]
    by_cases h10 : c.toNat = 10
    · have : String.utf8EncodeChar c = [0x0A] := by
        rw [u8_enc1 c (by omega), h10]; rfl
      simp [this, h10, linesBy, isLFb, ih]
    · have h10' : (c.toNat == 10) = false := by simpa using h10
      simp only [h10', Bool.false_eq_true, if_false, map_consHead]
      rw [linesBy_append_nonLF _ _ _ (utf8EncodeChar_noLF c h10)
        (by have := utf8EncodeChar_length_pos c; intro e; rw [e] at this; simp at this), ih]
      cases linesBy isLFc cs <;> simp

end Rosu
