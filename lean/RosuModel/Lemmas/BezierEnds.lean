/-
  Lemmas/BezierEnds.lean — the end points survive de Casteljau subdivision **exactly**, for every `Scalar`
  instance (no arithmetic law): `bezier_subdivide` writes `points[0]` into `l[0]` and `points[count-1]` into
  `r[count-1]` before any averaging touches them and never overwrites those cells; hence the top of the
  `to_flatten` stack keeps the first control point of the segment through every subdivision, and the first point
  `approximate_bspline` pushes is the segment's first control point itself.
-/
import RosuModel.Model.Curve
import RosuModel.Lemmas.Outcome
namespace Rosu
open Rosu.Curve

section Inv
variable {α β : Type}

theorem Outcome.bind_eq_ok {x : Outcome α} {f : α → Outcome β} {b : β}
    (h : (x >>= f) = .ok b) : ∃ a, x = .ok a ∧ f a = .ok b := by
  cases x with
  | error e => cases h
  | ok a => exact ⟨a, rfl, h⟩

theorem setI_ok {l l' : List α} {i : Nat} {x : α} (h : setI l i x = .ok l') :
    i < l.length ∧ l' = l.set i x := by
  unfold setI at h
  split at h
  · cases h; exact ⟨‹_›, rfl⟩
  · cases h

theorem usub_ok {a b c : Nat} (h : usub a b = .ok c) : b ≤ a ∧ c = a - b := by
  unfold usub at h
  split at h
  · cases h; exact ⟨‹_›, rfl⟩
  · cases h

theorem copyPrefix_ok {dst src out : List α} {n : Nat} (h : copyPrefix dst src n = .ok out) :
    n ≤ dst.length ∧ n ≤ src.length ∧ out = src.take n ++ dst.drop n := by
  unfold copyPrefix at h
  split at h
  · cases h; exact ⟨(‹_ ∧ _›).1, (‹_ ∧ _›).2, rfl⟩
  · cases h

theorem sliceTo_ok {l out : List α} {n : Nat} (h : sliceTo l n = .ok out) : n ≤ l.length ∧ out = l.take n := by
  unfold sliceTo at h
  split at h
  · cases h; exact ⟨‹_›, rfl⟩
  · cases h

theorem copyFromSlice_ok {dst src out : List α} (h : copyFromSlice dst src = .ok out) :
    dst.length = src.length ∧ out = src := by
  unfold copyFromSlice at h
  split at h
  · cases h; exact ⟨‹_›, rfl⟩
  · cases h

end Inv

variable {P : Type} [Scalar P]

/-! ### `bezier_subdivide` keeps the end points -/

/-- the cells of `l` below `count - 1 - i` and the cells of `r` above `i` are not written by the remaining rounds
`i, i-1, …, 1` of the outer loop. -/
theorem subdivOuter_frame (count : Nat) : ∀ (i : Nat) (l r mid l2 r2 m2 : List (Pos P)),
    subdivOuter count i (l, r, mid) = .ok (l2, r2, m2) →
    (∀ k, k + i + 1 < count → l2[k]? = l[k]?) ∧ (∀ k, i < k → r2[k]? = r[k]?) := by
  intro i
  induction i with
  | zero =>
    intro l r mid l2 r2 m2 h
    simp only [subdivOuter, Outcome.pure_eq_ok] at h
    cases h
    exact ⟨fun _ _ => rfl, fun _ _ => rfl⟩
  | succ i ih =>
    intro l r mid l2 r2 m2 h
    simp only [subdivOuter] at h
    obtain ⟨m0, _, h⟩ := Outcome.bind_eq_ok h
    obtain ⟨u1, hu1, h⟩ := Outcome.bind_eq_ok h
    obtain ⟨u2, hu2, h⟩ := Outcome.bind_eq_ok h
    obtain ⟨l1, hl1, h⟩ := Outcome.bind_eq_ok h
    obtain ⟨mi, _, h⟩ := Outcome.bind_eq_ok h
    obtain ⟨r1, hr1, h⟩ := Outcome.bind_eq_ok h
    obtain ⟨mid1, _, h⟩ := Outcome.bind_eq_ok h
    obtain ⟨_, e1⟩ := usub_ok hu1
    obtain ⟨_, e2⟩ := usub_ok hu2
    obtain ⟨_, el⟩ := setI_ok hl1
    obtain ⟨_, er⟩ := setI_ok hr1
    obtain ⟨ihl, ihr⟩ := ih _ _ _ _ _ _ h
    subst e1 e2 el er
    constructor
    · intro k hk
      rw [ihl k (by omega), List.getElem?_set_ne (by omega)]
    · intro k hk
      rw [ihr k (by omega), List.getElem?_set_ne (by omega)]

/-- **left half starts at `p0`, right half ends at `pn`, exactly**: after `bezier_subdivide(points, l, r, _)`,
`l[0]` is `points[0]` and `r[count-1]` is `points[count-1]` — the very values, no arithmetic applied to them
(`(a + a)/2 = a` is never needed: the end cells are copied before the first averaging round). -/
theorem bezierSubdivide_ends (points l r mid l2 r2 m2 : List (Pos P))
    (h : bezierSubdivide points l r mid = .ok (l2, r2, m2)) :
    points ≠ [] ∧ l2[0]? = points[0]? ∧ r2[points.length - 1]? = points[points.length - 1]? := by
  unfold bezierSubdivide at h
  simp only [] at h
  obtain ⟨mid0, hcp, h⟩ := Outcome.bind_eq_ok h
  obtain ⟨st, hout, h⟩ := Outcome.bind_eq_ok h
  obtain ⟨l1, r1, mid1⟩ := st
  simp only [] at h
  obtain ⟨m0, hm0, h⟩ := Outcome.bind_eq_ok h
  obtain ⟨u, hu, h⟩ := Outcome.bind_eq_ok h
  obtain ⟨l3, hl3, h⟩ := Outcome.bind_eq_ok h
  obtain ⟨r3, hr3, h⟩ := Outcome.bind_eq_ok h
  simp only [Outcome.pure_eq_ok] at h
  cases h
  obtain ⟨hc1, eu⟩ := usub_ok hu
  obtain ⟨hl3lt, el3⟩ := setI_ok hl3
  obtain ⟨hr3lt, er3⟩ := setI_ok hr3
  obtain ⟨_, _, emid0⟩ := copyPrefix_ok hcp
  subst eu el3 er3 emid0
  have hne : points ≠ [] := by intro h0; subst h0; simp at hc1
  refine ⟨hne, ?_, ?_⟩
  · -- the left end
    rcases Nat.lt_or_ge 1 points.length with h2 | h2
    · -- count ≥ 2: the first outer round wrote `l[0] := midpoints[0] = points[0]`
      obtain ⟨i, hi⟩ : ∃ i, points.length - 1 = i + 1 := ⟨points.length - 2, by omega⟩
      rw [hi] at hout
      simp only [subdivOuter] at hout
      obtain ⟨a0, ha0, hout⟩ := Outcome.bind_eq_ok hout
      obtain ⟨u1, hu1, hout⟩ := Outcome.bind_eq_ok hout
      obtain ⟨u2, hu2, hout⟩ := Outcome.bind_eq_ok hout
      obtain ⟨l0, hl0, hout⟩ := Outcome.bind_eq_ok hout
      obtain ⟨ai, _, hout⟩ := Outcome.bind_eq_ok hout
      obtain ⟨r0, _, hout⟩ := Outcome.bind_eq_ok hout
      obtain ⟨mm, _, hout⟩ := Outcome.bind_eq_ok hout
      obtain ⟨_, e1⟩ := usub_ok hu1
      obtain ⟨_, e2⟩ := usub_ok hu2
      obtain ⟨hlt0, el0⟩ := setI_ok hl0
      subst e1 e2 el0
      have hfr := (subdivOuter_frame points.length i _ _ _ _ _ _ hout).1 0 (by omega)
      have hidx : points.length - (i + 1) - 1 = 0 := by omega
      rw [hidx] at hfr hlt0
      rw [List.getElem?_set_ne (by omega), hfr, List.getElem?_set_self hlt0]
      rw [getI_ok_iff] at ha0
      rw [← ha0, List.getElem?_append_left (by simp; omega), List.getElem?_take_of_lt (by omega)]
    · -- count = 1: no round runs, `l[0] := midpoints[0] = points[0]`
      have hc : points.length = 1 := by omega
      rw [hc] at hout hl3lt ⊢
      simp only [Nat.sub_self, subdivOuter, Outcome.pure_eq_ok] at hout
      cases hout
      rw [List.getElem?_set_self hl3lt]
      rw [getI_ok_iff] at hm0
      rw [← hm0, List.getElem?_append_left (by simp; omega), List.getElem?_take_of_lt (by omega)]
  · -- the right end
    rcases Nat.lt_or_ge 1 points.length with h2 | h2
    · obtain ⟨i, hi⟩ : ∃ i, points.length - 1 = i + 1 := ⟨points.length - 2, by omega⟩
      rw [hi] at hout ⊢
      simp only [subdivOuter] at hout
      obtain ⟨a0, _, hout⟩ := Outcome.bind_eq_ok hout
      obtain ⟨u1, _, hout⟩ := Outcome.bind_eq_ok hout
      obtain ⟨u2, _, hout⟩ := Outcome.bind_eq_ok hout
      obtain ⟨l0, _, hout⟩ := Outcome.bind_eq_ok hout
      obtain ⟨ai, hai, hout⟩ := Outcome.bind_eq_ok hout
      obtain ⟨r0, hr0, hout⟩ := Outcome.bind_eq_ok hout
      obtain ⟨mm, _, hout⟩ := Outcome.bind_eq_ok hout
      obtain ⟨hlt0, er0⟩ := setI_ok hr0
      subst er0
      have hfr := (subdivOuter_frame points.length i _ _ _ _ _ _ hout).2 (i + 1) (by omega)
      rw [List.getElem?_set_ne (by omega), hfr, List.getElem?_set_self hlt0]
      rw [getI_ok_iff] at hai
      rw [← hai, List.getElem?_append_left (by simp; omega), List.getElem?_take_of_lt (by omega)]
    · have hc : points.length = 1 := by omega
      rw [hc] at hout ⊢
      simp only [Nat.sub_self, subdivOuter, Outcome.pure_eq_ok] at hout
      cases hout
      rw [List.getElem?_set_self hr3lt]
      rw [getI_ok_iff] at hm0
      rw [← hm0, List.getElem?_append_left (by simp; omega), List.getElem?_take_of_lt (by omega)]

/-! ### the flattening loop starts at the top of the stack -/

/-- a flat piece is never empty and starts with the first control point of its parent. -/
theorem bezierApproximate_head (pts l r mid piece l' r' mid' : List (Pos P))
    (h : bezierApproximate pts l r mid = .ok (piece, l', r', mid')) :
    ∃ p0 rest, pts[0]? = some p0 ∧ piece = p0 :: rest := by
  unfold bezierApproximate at h
  simp only [] at h
  obtain ⟨st, _, h⟩ := Outcome.bind_eq_ok h
  obtain ⟨l1, r1, m1⟩ := st
  simp only [] at h
  obtain ⟨p0, hp0, h⟩ := Outcome.bind_eq_ok h
  obtain ⟨ls, _, h⟩ := Outcome.bind_eq_ok h
  obtain ⟨rs, _, h⟩ := Outcome.bind_eq_ok h
  simp only [Outcome.pure_eq_ok] at h
  cases h
  exact ⟨p0, _, (getI_ok_iff _ _ _).mp hp0, rfl⟩

/-- **the first point the `while let Some(parent) = to_flatten.pop()` loop pushes is `top[0]`**, the first control
point of the curve on top of the stack — through any number of subdivisions (the left child replaces the parent
on top, and its first point is the parent's first point: `bezierSubdivide_ends`). -/
theorem bsplineLoop_head (p : Nat) : ∀ (fuel : Nat) (st : BsplineState P) (top : List (Pos P))
    (stack : List (List (Pos P))) (out : List (Pos P)) (b : BezierBuffers P),
    st.stack = top :: stack → bsplineLoop p fuel st = .ok (out, b) →
    ∃ p0, top[0]? = some p0 ∧ out.head? = some p0 := by
  intro fuel
  induction fuel with
  | zero =>
    intro st top stack out b hst h
    simp only [bsplineLoop, hst] at h
    cases h
  | succ fuel ih =>
    intro st top stack out b hst h
    simp only [bsplineLoop, hst] at h
    split at h
    · -- flat: the piece is pushed first
      obtain ⟨r1, hap, h⟩ := Outcome.bind_eq_ok h
      obtain ⟨piece, l, r, mid⟩ := r1
      simp only [] at h
      obtain ⟨r2, _, h⟩ := Outcome.bind_eq_ok h
      obtain ⟨rest, bufs⟩ := r2
      simp only [Outcome.pure_eq_ok] at h
      cases h
      obtain ⟨p0, tl, hp0, hpiece⟩ := bezierApproximate_head _ _ _ _ _ _ _ _ hap
      exact ⟨p0, hp0, by rw [hpiece]; rfl⟩
    · -- not flat: the left child (copied over the parent) goes on top
      generalize hrc : (match st.free with
        | f :: free => (f, free)
        | [] => (List.replicate p (Pos.zero : Pos P), [])) = rcf at h
      obtain ⟨rc, free⟩ := rcf
      obtain ⟨r1, hsub, h⟩ := Outcome.bind_eq_ok h
      obtain ⟨lc, rc2, mid⟩ := r1
      simp only [] at h
      obtain ⟨sl, hsl, h⟩ := Outcome.bind_eq_ok h
      obtain ⟨par, hpar, h⟩ := Outcome.bind_eq_ok h
      obtain ⟨hne, hl0, _⟩ := bezierSubdivide_ends _ _ _ _ _ _ _ hsub
      obtain ⟨hpl, esl⟩ := sliceTo_ok hsl
      obtain ⟨hlen, epar⟩ := copyFromSlice_ok hpar
      subst esl epar
      have hp1 : 1 ≤ p := by
        have : 0 < top.length := List.length_pos_iff.mpr hne
        rw [List.length_take] at hlen
        omega
      obtain ⟨p0, hp0, hout⟩ := ih _ (lc.take p) (rc2 :: stack) out b rfl h
      refine ⟨p0, ?_, hout⟩
      rw [← hl0, ← hp0, List.getElem?_take_of_lt (by omega)]

/-- **`bezier_first_point`** (every arithmetic, every fuel on which the flattening succeeds, any scratch
buffers): the first point `approximate_bspline` pushes is the first control point. -/
theorem approximateBspline_head (fuel : Nat) (pts out : List (Pos P)) (b b' : BezierBuffers P)
    (h : approximateBspline fuel pts b = .ok (out, b')) : out.head? = pts.head? ∧ pts ≠ [] := by
  unfold approximateBspline at h
  simp only [] at h
  obtain ⟨r1, hloop, h⟩ := Outcome.bind_eq_ok h
  obtain ⟨o, bufs⟩ := r1
  simp only [] at h
  obtain ⟨u, _, h⟩ := Outcome.bind_eq_ok h
  obtain ⟨last, _, h⟩ := Outcome.bind_eq_ok h
  simp only [Outcome.pure_eq_ok] at h
  cases h
  obtain ⟨p0, hp0, ho⟩ := bsplineLoop_head pts.length fuel _ pts [] o _ rfl hloop
  cases pts with
  | nil => simp at hp0
  | cons a t =>
    simp only [List.getElem?_cons_zero, Option.some.injEq] at hp0
    subst hp0
    refine ⟨?_, by simp⟩
    cases o with
    | nil => simp at ho
    | cons x xs => simpa using ho

end Rosu
