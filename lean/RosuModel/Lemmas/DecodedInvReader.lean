/-
  Lemmas/DecodedInvReader.lean — every line the reader hands to the framing driver is free of
  line feeds and end-trimmed, for every byte string and all three encodings.

  The raw buffer of one `read_line` decodes to `s` or to `s ++ "\n"` with no U+000A in `s`
  (`LineOK`); `curr_line` end-trims it, which removes the terminator and cannot add a line feed.
-/
import RosuModel.Props.C10
import RosuModel.Lemmas.EncodeLines
import RosuModel.Lemmas.LossySpec
namespace Rosu
namespace DecodedInv
open Rosu

/-! ### `trimEnd` only drops characters -/

theorem mem_of_mem_trimEnd {x : Char} {s : Str} (h : x ∈ trimEnd s) : x ∈ s := by
  induction s with
  | nil => simp [trimEnd] at h
  | cons c cs ih =>
    by_cases hne : trimEnd cs = []
    · rw [trimEnd, hne] at h
      simp only [] at h
      split at h
      · simp at h
      · simp only [List.mem_singleton] at h; simp [h]
    · rw [trimEnd_cons_of_ne_nil c hne, List.mem_cons] at h
      cases h with
      | inl h => simp [h]
      | inr h => simp [ih h]

/-- what a raw line buffer decodes to: a text without line feed, possibly followed by one line feed. -/
def LineOK (t : Str) : Prop := ∃ s : Str, '\n' ∉ s ∧ (t = s ∨ t = s ++ ['\n'])

/-- the end-trimmed form of such a text has no line feed and is its own `trimEnd`. -/
theorem trimEnd_clean {t : Str} (h : LineOK t) : '\n' ∉ trimEnd t ∧ trimEnd (trimEnd t) = trimEnd t := by
  refine ⟨?_, EncodeLines.trimEnd_idem t⟩
  obtain ⟨s, hs, e | e⟩ := h
  · subst e; exact fun hm => hs (mem_of_mem_trimEnd hm)
  · subst e
    rw [EncodeLines.trimEnd_append_ws s '\n' (by decide)]
    exact fun hm => hs (mem_of_mem_trimEnd hm)

/-! ### characters equal to U+000A -/

theorem ofNat_eq_lf {n : Nat} (h : Char.ofNat n = '\n') : n = 10 := by
  unfold Char.ofNat at h
  split at h
  · next hv =>
    have e : (Char.ofNatAux n hv).toNat = n := by simp [Char.ofNatAux, Char.toNat]
    rw [h] at e
    exact e.symm
  · exact absurd h (by decide)

theorem ofNat_ne_lf {n : Nat} (h : n ≠ 10) : Char.ofNat n ≠ '\n' := fun e => h (ofNat_eq_lf e)

theorem replacement_ne_lf : replacement ≠ '\n' := by decide

/-! ### UTF-16 decoding -/

theorem lineOK_nil : LineOK [] := ⟨[], by simp, Or.inl rfl⟩

theorem lineOK_single (c : Char) : LineOK [c] := by
  by_cases h : c = '\n'
  · exact ⟨[], by simp, Or.inr (by simp [h])⟩
  · exact ⟨[c], by simpa using fun e => h e.symm, Or.inl rfl⟩

theorem lineOK_cons {c : Char} {t : Str} (hc : c ≠ '\n') (h : LineOK t) : LineOK (c :: t) := by
  obtain ⟨s, hs, e | e⟩ := h
  · exact ⟨c :: s, by simp only [List.mem_cons, not_or]; exact ⟨fun e => hc e.symm, hs⟩, Or.inl (by rw [e])⟩
  · exact ⟨c :: s, by simp only [List.mem_cons, not_or]; exact ⟨fun e => hc e.symm, hs⟩, Or.inr (by rw [e]; rfl)⟩

theorem lineOK_of_noLF {t : Str} (h : '\n' ∉ t) : LineOK t := ⟨t, h, Or.inl rfl⟩

theorem dropLast_tail_noMem {α : Type} {a x : α} {l : List α} (h : a ∉ (x :: l).dropLast) : a ∉ l.dropLast := by
  cases l with
  | nil => simp
  | cons y ys =>
    rw [List.dropLast_cons_cons] at h
    exact fun hm => h (List.mem_cons_of_mem _ hm)

/-- code units with no `10` except possibly at the very end decode to a text with no line feed except
possibly at the very end. -/
theorem decodeUtf16_lineOK (us : List Nat) (h : 10 ∉ us.dropLast) : LineOK (decodeUtf16 us) := by
  generalize hn : us.length = n
  induction n using Nat.strongRecOn generalizing us with
  | _ n ih =>
    match us, h, hn with
    | [], _, _ => rw [decodeUtf16]; exact lineOK_nil
    | [u], _, _ =>
      rw [decodeUtf16]
      split <;> exact lineOK_single _
    | u :: u2 :: rest2, h, hn =>
      rw [List.dropLast_cons_cons] at h
      have hu : u ≠ 10 := fun e => h (by simp [e])
      have h1 : 10 ∉ (u2 :: rest2).dropLast := fun hm => h (List.mem_cons_of_mem _ hm)
      have h2 : 10 ∉ rest2.dropLast := dropLast_tail_noMem h1
      simp only [List.length_cons] at hn
      have r1 := ih (rest2.length + 1) (by omega) (u2 :: rest2) h1 (by simp)
      have r2 := ih rest2.length (by omega) rest2 h2 rfl
      rw [decodeUtf16]
      split
      · exact lineOK_cons (ofNat_ne_lf hu) r1
      · split
        · exact lineOK_cons replacement_ne_lf r1
        · split
          · exact lineOK_cons (ofNat_ne_lf (by omega)) r2
          · exact lineOK_cons replacement_ne_lf r1

/-! ### UTF-16: the scans stop exactly at the first code unit `10` -/

theorem u16s_append (le : Bool) (a b : List UInt8) (h : a.length % 2 = 0) :
    u16s le (a ++ b) = u16s le a ++ u16s le b := by
  suffices hs : ∀ n, ∀ a : List UInt8, a.length = 2 * n → u16s le (a ++ b) = u16s le a ++ u16s le b from
    hs (a.length / 2) a (by omega)
  intro n
  induction n with
  | zero =>
    intro a hl
    have : a = [] := List.eq_nil_of_length_eq_zero (by omega)
    subst this; simp [u16s]
  | succ n ih =>
    intro a hl
    match a, hl with
    | x :: y :: r, hl =>
      simp only [List.cons_append, u16s]
      rw [ih r (by simp at hl; omega)]

theorem u16s_snoc2 (le : Bool) (a : List UInt8) (x y : UInt8) (h : a.length % 2 = 0) :
    u16s le (a ++ [x, y]) =
      u16s le a ++ [if le then y.toNat * 256 + x.toNat else x.toNat * 256 + y.toNat] := by
  rw [u16s_append le a _ h]; simp [u16s]

theorem u8_toNat_ne {a b : UInt8} (h : a ≠ b) : a.toNat ≠ b.toNat := fun e => h (UInt8.toNat_inj.mp e)

/-- the line buffer during a scan: complete code units, none of them `10`, and possibly one more byte
satisfying `P`. -/
def BufInv (le : Bool) (P : UInt8 → Prop) (buf : List UInt8) : Prop :=
  (buf.length % 2 = 0 ∧ 10 ∉ u16s le buf) ∨
  ∃ buf0 a, buf = buf0 ++ [a] ∧ buf0.length % 2 = 0 ∧ 10 ∉ u16s le buf0 ∧ P a

theorem bufInv_noLF {le : Bool} {P : UInt8 → Prop} {buf : List UInt8} (h : BufInv le P buf) :
    10 ∉ u16s le buf := by
  rcases h with ⟨_, hg⟩ | ⟨buf0, a, rfl, hev, hg, _⟩
  · exact hg
  · rw [C10.odd_tail_dropped le buf0 a hev]; exact hg

theorem noMem_dropLast {α : Type} {a : α} {l : List α} (h : a ∉ l) : a ∉ l.dropLast :=
  fun hm => h (List.dropLast_subset l hm)

theorem scanLE_step (buf : List UInt8) (b : UInt8) (rest : List UInt8)
    (h : ¬ (b = 0x0A ∧ buf.length % 2 = 0)) : scanLE buf (b :: rest) = scanLE (buf ++ [b]) rest := by
  have hc : (b == 0x0A && buf.length % 2 == 0) = false := by
    simp only [Bool.and_eq_false_iff, beq_eq_false_iff_ne, ne_eq]
    by_cases hb : b = 0x0A
    · exact Or.inr (fun e => h ⟨hb, e⟩)
    · exact Or.inl hb
  cases rest <;> simp only [scanLE, hc, Bool.false_eq_true, if_false]

/-- **UTF-16LE:** the buffer `read_line` returns has no code unit `10` except possibly its last. -/
theorem scanLE_clean_aux (n : Nat) : ∀ (x buf : List UInt8), x.length ≤ n →
    BufInv true (fun a => a ≠ 0x0A) buf → 10 ∉ (u16s true (scanLE buf x).1).dropLast := by
  induction n with
  | zero =>
    intro x buf hl h
    have : x = [] := List.eq_nil_of_length_eq_zero (by omega)
    subst this
    simp only [scanLE]; exact noMem_dropLast (bufInv_noLF h)
  | succ n ih =>
    intro x buf hl h
    cases x with
    | nil => simp only [scanLE]; exact noMem_dropLast (bufInv_noLF h)
    | cons b rest =>
    simp only [List.length_cons] at hl
    rcases h with ⟨hev, hg⟩ | ⟨buf0, a, rfl, hev, hg, ha⟩
    · by_cases hb : b = 0x0A
      · subst hb
        have hev' : (buf.length % 2 == 0) = true := by simp [hev]
        cases rest with
        | nil =>
          simp only [scanLE, BEq.rfl, hev', Bool.and_self, if_true]
          rw [C10.odd_tail_dropped true buf _ hev]
          exact noMem_dropLast hg
        | cons c rest' =>
          simp only [List.length_cons] at hl
          simp only [scanLE, BEq.rfl, hev', Bool.and_self, if_true]
          by_cases hc : c = 0
          · subst hc
            simp only [BEq.rfl, if_true]
            rw [u16s_snoc2 true buf _ _ hev, List.dropLast_concat]
            exact hg
          · have hc' : (c == 0) = false := by simpa using hc
            simp only [hc', Bool.false_eq_true, if_false]
            apply ih _ _ (by omega)
            refine Or.inl ⟨by simp; omega, ?_⟩
            rw [u16s_snoc2 true buf _ _ hev]
            simp only [if_true, List.mem_append, List.mem_singleton, not_or]
            refine ⟨hg, ?_⟩
            have := u8_toNat_ne hc
            simp only [UInt8.toNat_ofNat] at this ⊢
            omega
      · rw [scanLE_step buf b rest (fun e => hb e.1)]
        exact ih _ _ (by omega) (Or.inr ⟨buf, b, rfl, hev, hg, hb⟩)
    · rw [scanLE_step _ b rest (fun e => by simp at e; omega)]
      apply ih _ _ (by omega)
      refine Or.inl ⟨by simp; omega, ?_⟩
      rw [List.append_assoc, List.singleton_append, u16s_snoc2 true buf0 _ _ hev]
      simp only [if_true, List.mem_append, List.mem_singleton, not_or]
      refine ⟨hg, ?_⟩
      have := u8_toNat_ne ha
      have := a.toNat_lt
      simp only [UInt8.toNat_ofNat] at *
      omega

/-- **UTF-16LE:** the buffer `read_line` returns has no code unit `10` except possibly its last. -/
theorem scanLE_clean (x buf : List UInt8) (h : BufInv true (fun a => a ≠ 0x0A) buf) :
    10 ∉ (u16s true (scanLE buf x).1).dropLast :=
  scanLE_clean_aux x.length x buf (Nat.le_refl _) h

/-- **UTF-16BE:** likewise. -/
theorem scanBE_clean (x buf : List UInt8) (h : BufInv false (fun _ => True) buf) :
    10 ∉ (u16s false (scanBE buf x).1).dropLast := by
  induction x generalizing buf with
  | nil => simp only [scanBE]; exact noMem_dropLast (bufInv_noLF h)
  | cons b rest ih =>
    rcases h with ⟨hev, hg⟩ | ⟨buf0, a, rfl, hev, hg, _⟩
    · have hc : (b == 0x0A && (buf.length % 2 == 1 && buf.getLast? == some 0)) = false := by
        simp [hev]
      simp only [scanBE, hc, Bool.false_eq_true, if_false]
      exact ih _ (Or.inr ⟨buf, b, rfl, hev, hg, trivial⟩)
    · have hodd : ((buf0 ++ [a]).length % 2 == 1) = true := by simp; omega
      simp only [scanBE, hodd, List.getLast?_append, List.getLast?_singleton, Option.some_or, Bool.true_and]
      by_cases hc : b = 0x0A ∧ a = 0
      · obtain ⟨rfl, rfl⟩ := hc
        simp only [BEq.rfl, Bool.and_self, if_true]
        rw [List.append_assoc, List.singleton_append, u16s_snoc2 false buf0 _ _ hev, List.dropLast_concat]
        exact hg
      · have hc' : (b == 0x0A && some a == some 0) = false := by
          simp only [Bool.and_eq_false_iff, beq_eq_false_iff_ne, ne_eq, Option.some.injEq]
          by_cases hb : b = 0x0A
          · exact Or.inr (fun e => hc ⟨hb, e⟩)
          · exact Or.inl hb
        simp only [hc', Bool.false_eq_true, if_false]
        apply ih
        refine Or.inl ⟨by simp; omega, ?_⟩
        rw [List.append_assoc, List.singleton_append, u16s_snoc2 false buf0 _ _ hev]
        simp only [Bool.false_eq_true, if_false, List.mem_append, List.mem_singleton, not_or]
        refine ⟨hg, ?_⟩
        intro e
        apply hc
        have h1 := a.toNat_lt
        have h2 := b.toNat_lt
        constructor
        · apply UInt8.toNat_inj.mp; simp only [UInt8.toNat_ofNat]; omega
        · apply UInt8.toNat_inj.mp; simp only [UInt8.toNat_ofNat]; omega

/-! ### UTF-8: a line feed comes out of the lossy decoder only through a byte 0x0A -/

open Lossy in
theorem scalarValue_ne_lf (b0 : UInt8) (tail : List Lossy.Range) (rest : List UInt8)
    (hr : leadRow b0 = some tail) (hfit : fitLen tail rest = tail.length) (hb : b0.toNat ≠ 10) :
    scalarValue (b0 :: rest.take tail.length) ≠ 10 := by
  unfold leadRow at hr
  (repeat' split at hr) <;> first
    | cases hr
    | skip
  all_goals
    rcases rest with _ | ⟨b1, _ | ⟨b2, _ | ⟨b3, r⟩⟩⟩ <;>
    simp only [fit_full_iff, cont, fitLen_nil_row, fitLen_nil, List.length_nil, and_true] at hfit <;>
    simp only [scalarValue, leadMod, cont, List.take, List.length_cons, List.length_nil, List.foldl] at hfit ⊢ <;>
    omega

open Lossy in
/-- a line feed comes out of the lossy UTF-8 decoder only through a byte 0x0A. -/
theorem lossySpec_noLF (p : List UInt8) (h : (0x0A : UInt8) ∉ p) : '\n' ∉ lossySpec p := by
  generalize hn : p.length = n
  induction n using Nat.strongRecOn generalizing p with
  | _ n ih =>
    cases p with
    | nil => rw [lossySpec_nil]; simp
    | cons b0 rest =>
      simp only [List.length_cons] at hn
      have hb : b0.toNat ≠ 10 := by
        intro e
        apply h
        have : b0 = 0x0A := UInt8.toNat_inj.mp (by simpa using e)
        simp [this]
      have hrest : ∀ k, '\n' ∉ lossySpec (rest.drop k) := by
        intro k
        apply ih (rest.drop k).length (by simp only [List.length_drop]; omega) _ _ rfl
        intro hm
        exact h (List.mem_cons_of_mem _ (List.mem_of_mem_drop hm))
      rw [lossySpec_cons]
      unfold stepForm
      cases hr : leadRow b0 with
      | none =>
        simp only [List.mem_cons, not_or]
        exact ⟨fun e => replacement_ne_lf e.symm, by simpa using hrest 0⟩
      | some tail =>
        simp only [List.mem_cons, not_or]
        refine ⟨?_, hrest _⟩
        by_cases ht : fitLen tail rest = tail.length
        · simp only [ht, if_true]
          exact fun e => ofNat_ne_lf (scalarValue_ne_lf b0 tail rest hr ht hb) e.symm
        · simp only [ht, if_false]
          exact fun e => replacement_ne_lf e.symm

theorem utf8Lossy_eq_spec (p : List UInt8) : utf8Lossy p = Lossy.lossySpec p :=
  Lossy.lossyFuel_eq_spec p.length p (Nat.le_refl _)

/-- the decoded form of a UTF-8 raw line. -/
theorem utf8_lineOK (p : List UInt8) (h : (0x0A : UInt8) ∉ p.dropLast) : LineOK (utf8Lossy p) := by
  by_cases hl : (0x0A : UInt8) ∈ p
  · rcases List.eq_nil_or_concat p with rfl | ⟨q, x, rfl⟩
    · simp at hl
    · rw [List.concat_eq_append] at h hl ⊢
      rw [List.dropLast_concat] at h
      have hx : x = 0x0A := by
        rw [List.mem_append, List.mem_singleton] at hl
        cases hl with
        | inl hm => exact absurd hm h
        | inr he => exact he.symm
      subst hx
      rw [utf8Lossy_eq_spec, Lossy.lossySpec_append_ascii _ 0x0A (by decide) [], Lossy.lossySpec_nil]
      exact ⟨_, lossySpec_noLF _ h, Or.inr rfl⟩
  · rw [utf8Lossy_eq_spec]
    exact lineOK_of_noLF (lossySpec_noLF p hl)

/-! ### the raw buffers of `read_line` -/

theorem isLFb_false_iff {y : UInt8} : isLFb y = false ↔ y ≠ 0x0A := by simp [isLFb]

/-- **every raw line buffer decodes to a text with no line feed except possibly a final one.** -/
theorem rawSpec_lineOK (enc : Encoding) (bs buf rest : List UInt8)
    (h : rawSpec enc bs none = (.ok (some buf), rest)) : LineOK (enc.decode buf) := by
  cases enc with
  | utf8 =>
    rw [rawSpec_utf8] at h
    simp only [Encoding.decode]
    apply utf8_lineOK
    cases hs : splitAtLF bs with
    | mk p o =>
      rw [hs] at h
      have hs' := hs
      rw [splitAtLF_eq_splitG] at hs'
      cases o with
      | some r =>
        simp only [Prod.mk.injEq, Except.ok.injEq, Option.some.injEq] at h
        obtain ⟨p', x, e1, _, e3, _⟩ := splitG_some_form _ _ _ _ hs'
        rw [← h.1, e1, List.dropLast_concat]
        exact fun hm => by simpa [isLFb] using e3 _ hm
      | none =>
        obtain ⟨e1, e2⟩ := splitG_none_form _ _ _ hs'
        simp only [] at h
        split at h
        · simp at h
        · simp only [Prod.mk.injEq, Except.ok.injEq, Option.some.injEq] at h
          rw [← h.1, e1]
          exact noMem_dropLast (fun hm => by simpa [isLFb] using e2 _ hm)
  | utf16le =>
    have hq := rawSpec_utf16 true bs
    simp only [if_true] at hq
    rw [hq] at h
    simp only [Encoding.decode]
    apply decodeUtf16_lineOK
    split at h
    · simp at h
    · simp only [Prod.mk.injEq, Except.ok.injEq, Option.some.injEq] at h
      rw [← h.1]
      exact scanLE_clean bs [] (Or.inl ⟨rfl, by simp [u16s]⟩)
  | utf16be =>
    have hq := rawSpec_utf16 false bs
    simp only [Bool.false_eq_true, if_false] at hq
    rw [hq] at h
    simp only [Encoding.decode]
    apply decodeUtf16_lineOK
    split at h
    · simp at h
    · simp only [Prod.mk.injEq, Except.ok.injEq, Option.some.injEq] at h
      rw [← h.1]
      exact scanBE_clean bs [] (Or.inl ⟨rfl, by simp [u16s]⟩)

/-! ### the lines -/

theorem linesSpec_clean (enc : Encoding) (bs : List UInt8) :
    ∀ l ∈ (linesSpec enc none bs).1, '\n' ∉ l ∧ trimEnd l = l := by
  generalize hn : bs.length = n
  induction n using Nat.strongRecOn generalizing bs with
  | _ n ih =>
    rw [linesSpec_unfold]
    cases hq : rawSpec enc bs none with
    | mk r rest =>
      cases r with
      | error k => simp
      | ok o =>
        cases o with
        | none => simp
        | some buf =>
          simp only []
          intro l hl
          rw [List.mem_cons] at hl
          cases hl with
          | inl e =>
            subst e
            exact trimEnd_clean (rawSpec_lineOK enc bs buf rest hq)
          | inr hm =>
            have hlt := rawSpec_some_lt hq
            exact ih rest.length (by omega) rest rfl l hm

/-- every line `read_line`/`curr_line` yields: no LF, and equal to its own `trim_end`. -/
theorem reader_lines_clean (enc : Encoding) (bs : List UInt8) :
    ∀ l ∈ (C10.linesOf enc bs).1, '\n' ∉ l ∧ trimEnd l = l := by
  rw [C10.linesOf_eq]
  exact linesSpec_clean enc bs

/-- `from_bytes`: a successful decode is `frame` over such lines. -/
theorem decodeBytes_lines {σ : Type} (D : LineDecoder σ) (bs : List UInt8) (st : σ)
    (h : decodeBytes D bs = .ok st) :
    ∃ ls : List Str, st = frame D ls ∧ ∀ l ∈ ls, '\n' ∉ l ∧ trimEnd l = l := by
  rw [C10.decodeBytes_eq] at h
  have hc := reader_lines_clean (Encoding.fromBom bs).1 (bs.drop (Encoding.fromBom bs).2)
  cases hl : C10.linesOf (Encoding.fromBom bs).1 (bs.drop (Encoding.fromBom bs).2) with
  | mk ls e =>
    rw [hl] at h hc
    cases e with
    | some k => simp at h
    | none =>
      simp only [Except.ok.injEq] at h
      exact ⟨ls, h.symm, hc⟩

end DecodedInv
end Rosu
