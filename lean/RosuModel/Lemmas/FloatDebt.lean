/-
  Lemmas/FloatDebt.lean — the order facts behind "a booked Catmull surplus is paid back by its own chord", for the
  driver's `Float` (binary64), from Lean's `Float.Model`:

  * `uadd_comm`, `usub_eq_add_neg`, `uadd_neg_self` (unpacked, every format) and `add_comm_float`, `sub_eq_add_neg_float`;
  * `GeNeg D p` — "`p` is a NaN or `−D ≤ p`" (a debt of at most `D`);
  * `sub_geNeg_float`    : `0 ≤ L`, `D` a number            ⟹ `GeNeg D (L − D)`   (a surplus term owes at most its chord)
  * `add_geNeg_float`    : `GeNeg D p`, `x` a NaN or `≥ 0`   ⟹ `GeNeg D (p + x)`   (adding lengths never increases a debt)
  * `geNeg_of_notNeg`    : `p` a NaN or `≥ 0`, `0 ≤ D`       ⟹ `GeNeg D p`
  * `cancel_geNeg_float` : `GeNeg D p`, `0 ≤ D`              ⟹ `p + D` is a NaN or `≥ 0` (adding the chord clears it)
  Only monotonicity of the rounded addition is used (Lemmas/FloatArithMono.lean); no error bound.
-/
import RosuModel.Lemmas.FloatArithMono
import RosuModel.Lemmas.FloatExactOps
import RosuModel.Lemmas.FloatDistLaws
import RosuModel.Lemmas.FloatErrRange
namespace Rosu.FDebt
open Rosu Float.Model Float.Model.UnpackedFloat Rosu.FDL

/-! ### unpacked -/

theorem sign_neg_neg (s : Sign) : - -s = s := by cases s <;> rfl
theorem apply_neg (s : Sign) (n : Int) : (-s).apply n = -(s.apply n) := by
  cases s
  · show n = - -n; omega
  · rfl

theorem uadd_comm (spec : Format) (a b : UnpackedFloat) :
    UnpackedFloat.add spec a b = UnpackedFloat.add spec b a := by
  match a, b with
  | .notANumber, .notANumber => rfl
  | .notANumber, .infinity _ => rfl
  | .notANumber, .zero _ => rfl
  | .notANumber, .finite .. => rfl
  | .infinity _, .notANumber => rfl
  | .zero _, .notANumber => rfl
  | .finite .., .notANumber => rfl
  | .infinity s, .infinity t => cases s <;> cases t <;> rfl
  | .infinity _, .zero _ => rfl
  | .infinity _, .finite .. => rfl
  | .zero _, .infinity _ => rfl
  | .finite .., .infinity _ => rfl
  | .zero s, .zero t => cases s <;> cases t <;> rfl
  | .zero _, .finite .. => rfl
  | .finite .., .zero _ => rfl
  | .finite s₁ m₁ e₁ _, .finite s₂ m₂ e₂ _ =>
    simp only [UnpackedFloat.add]
    rw [Int.min_comm e₂ e₁, Int.add_comm]

theorem usub_eq_add_neg (spec : Format) (a b : UnpackedFloat) :
    UnpackedFloat.sub spec a b = UnpackedFloat.add spec a b.neg := by
  match a, b with
  | .notANumber, .notANumber => rfl
  | .notANumber, .infinity _ => rfl
  | .notANumber, .zero _ => rfl
  | .notANumber, .finite .. => rfl
  | .infinity _, .notANumber => rfl
  | .zero _, .notANumber => rfl
  | .finite .., .notANumber => rfl
  | .infinity s, .infinity t => cases s <;> cases t <;> rfl
  | .infinity _, .zero _ => rfl
  | .infinity _, .finite .. => rfl
  | .zero _, .infinity _ => rfl
  | .finite .., .infinity _ => rfl
  | .zero s, .zero t => cases s <;> cases t <;> rfl
  | .zero _, .finite .. => rfl
  | .finite .., .zero _ => rfl
  | .finite s₁ m₁ e₁ _, .finite s₂ m₂ e₂ _ =>
    simp only [UnpackedFloat.sub, UnpackedFloat.add, UnpackedFloat.neg, apply_neg]
    rw [Int.sub_eq_add_neg]

theorem uneg_neg (a : UnpackedFloat) : a.neg.neg = a := by
  cases a <;> simp [UnpackedFloat.neg, sign_neg_neg]


theorem uadd_neg_self (spec : Format) (u : UnpackedFloat) (h : u.isFinite = true) :
    UnpackedFloat.add spec u u.neg = .zero .positive := by
  rw [← uneg_neg u, ← usub_eq_add_neg, uneg_neg]
  exact FMO.usub_self_finite spec u h

/-! ### binary64 -/

theorem add_comm_float (x y : Float) : x + y = y + x := by
  rw [FX.add_float, FX.add_float, uadd_comm]

theorem sub_eq_add_neg_float (x y : Float) : x - y = x + (-y) := by
  rw [FMO.sub_float, FX.add_float, FErr.float_neg_unpack_eq, usub_eq_add_neg]

/-- `x + (−x) = +0` for finite `x`. -/
theorem add_neg_self_float (x : Float) (h : x.toModel.unpack.isFinite = true) : x + (-x) = FMO.pzero64 := by
  rw [← sub_eq_add_neg_float]; exact FMO.sub_self_float x h

/-- "`p` owes at most `D`": `p` is a NaN or `−D ≤ p`. -/
def GeNeg (D p : Float) : Prop := Scalar.isNaN p = true ∨ Scalar.le (-D) p = true

theorem isNaN_cases (x : Float) : Scalar.isNaN x = true ∨ Scalar.isNaN x = false := by
  cases Scalar.isNaN x <;> simp

/-- **a surplus term owes at most its chord**: for `0 ≤ L` and a number `D`, `L − D` is a NaN or `≥ −D`. -/
theorem sub_geNeg_float (L D : Float) (hL : Scalar.le (0 : Float) L = true) (hD : Scalar.isNaN D = false) :
    GeNeg D (L - D) := by
  rcases isNaN_cases (L - D) with h | h
  · exact Or.inl h
  · refine Or.inr ?_
    rw [sub_eq_add_neg_float, add_comm_float] at h ⊢
    exact C16.le_add_float (-D) L (by rw [← FMO.isNaN_neg_float D] at hD; exact hD) hL h

/-- **adding a length never increases a debt.** -/
theorem add_geNeg_float (D p x : Float) (hp : GeNeg D p) (hx : NotNeg x) : GeNeg D (p + x) := by
  rcases hp with hp | hp
  · exact Or.inl (FB.add_isNaN_left_float p x hp)
  · rcases hx with hx | hx
    · exact Or.inl (FB.add_isNaN_right_float p x hx)
    · rcases isNaN_cases (p + x) with h | h
      · exact Or.inl h
      · exact Or.inr (FMO.le_trans _ _ _ hp (C16.le_add_float p x (FMO.not_nan_of_le hp).2 hx h))

/-- no debt is a debt of at most `D ≥ 0`. -/
theorem geNeg_of_notNeg (D p : Float) (hD : Scalar.le (0 : Float) D = true) (hp : NotNeg p) : GeNeg D p := by
  rcases hp with hp | hp
  · exact Or.inl hp
  · refine Or.inr (FMO.le_trans _ _ _ ?_ hp)
    -- `−D ≤ 0`: `(−D) + D`… directly from the unpacked order
    have hD' := hD
    rw [C16.scalar_le_float, FX.unpack_zero_float] at hD' ⊢
    rw [FErr.float_neg_unpack_eq]
    revert hD'
    generalize D.toModel.unpack = u
    intro hD'
    match u, hD' with
    | .zero s, _ => cases s <;> rfl
    | .infinity .positive, _ => rfl
    | .finite .positive .., _ => rfl

/-- **adding the chord clears the debt**: `GeNeg D p` and `0 ≤ D` give `p + D` a NaN or `≥ 0`. -/
theorem cancel_geNeg_float (D p : Float) (hp : GeNeg D p) (hD : Scalar.le (0 : Float) D = true) : NotNeg (p + D) := by
  rcases hp with hp | hp
  · exact Or.inl (FB.add_isNaN_left_float p D hp)
  · rcases isNaN_cases (p + D) with h | h
    · exact Or.inl h
    · refine Or.inr ?_
      rw [add_comm_float] at h ⊢
      cases hf : D.toModel.unpack.isFinite with
      | true =>
        have h0 : D + (-D) = (0 : Float) := by rw [add_neg_self_float D hf, FX.zero_eq_pzero64]
        have := FAM.add_le_add_left_float D (-D) p hp (by rw [h0]; decide +kernel) h
        rw [h0] at this
        exact this
      | false =>
        have hD' := hD
        rw [C16.scalar_le_float, FX.unpack_zero_float] at hD'
        have hn : (UnpackedFloat.add Format.binary64 D.toModel.unpack p.toModel.unpack).isNaN = false := by
          have h' : (D + p).toModel.unpack.isNaN = false := h
          rw [FAM.float_add_unpack, FAM.repack_isNaN _ (by decide) _
            (FAM.add_canon _ _ _ (FAM.float_canon D) (FAM.float_canon p))] at h'
          exact h'
        rw [C16.scalar_le_float, FX.unpack_zero_float, FAM.float_add_unpack]
        revert hD' hf hn
        generalize D.toModel.unpack = u
        intro hD' hf hn
        match u, hD', hf with
        | .infinity .positive, _, _ =>
          rw [FAM.add_inf_left _ _ _ hn]
          decide +kernel

end Rosu.FDebt
