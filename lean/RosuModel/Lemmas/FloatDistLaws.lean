/-
  Lemmas/FloatDistLaws.lean — the scalar facts behind "a slider distance never trips the `f64::clamp` assertion of
  `SliderEventsIter::new`" for the driver's arithmetic (`Float` lengths from `Float32` points).

  * `NotNeg x` — `x` is a NaN or `0 ≤ x`: *not a negative number*. `notNeg_iff_not_lt` : exactly `¬ (x < 0)`.
  * `le_zero_min_of_notNeg` — for every IEEE-ordered scalar with `0 ≤ 100000`: `NotNeg d → 0 ≤ min(100000, d)`
    (`f64::min` ignores a NaN operand, so a NaN distance gives `100000`); `le_zero_min_iff_notNeg`: and conversely —
    the assertion fails exactly for a negative distance.
  * `add_notNeg_float` — `NotNeg a → NotNeg x → NotNeg (a + x)` in binary64 (`NaN + x = NaN`, `a + NaN = NaN`, and the
    sum of two non-negative doubles is non-negative, possibly `+∞`).
  * **`natTotal_notNeg_float`** — the natural length `optimized_len + Σ |pᵢ₊₁ − pᵢ|` (`C16.natTotal`) is not negative
    as soon as `optimized_len` is not, for EVERY path: NaN and infinite coordinates included.
-/
import RosuModel.Props.C16IeeeLen
import RosuModel.Lemmas.FloatModelCompare
namespace Rosu.FDL
open Rosu Rosu.Curve

/-! ### "not a negative number" -/

/-- a NaN, or `0 ≤ x` (`+0`, `−0`, positive finite, `+∞`). -/
def NotNeg {α : Type} [Scalar α] (x : α) : Prop := Scalar.isNaN x = true ∨ Scalar.le (0 : α) x = true

section Generic
variable {α : Type} [Scalar α] [FMO.IeeeOrd α]

/-- `NotNeg x` is exactly `¬ (x < 0)` (given that `0` is a number). -/
theorem notNeg_iff_not_lt (x : α) (h0 : Scalar.isNaN (0 : α) = false) :
    NotNeg x ↔ Scalar.lt x (0 : α) = false := by
  constructor
  · rintro (h | h)
    · exact FMO.lt_nan_left x 0 h
    · exact FMO.not_lt_of_le 0 x h
  · intro h
    cases hn : Scalar.isNaN x with
    | true => exact Or.inl hn
    | false => exact Or.inr (FMO.le_of_not_lt x 0 hn h0 h)

/-- **the `clamp` assertion of the slider-event iterator holds for every distance that is not a negative number.** -/
theorem le_zero_min_of_notNeg (d : α) (hbig : Scalar.le (0 : α) (100000 : α) = true) (h : NotNeg d) :
    Scalar.le (0 : α) (Scalar.min (100000 : α) d) = true := by
  have hn : Scalar.isNaN (100000 : α) = false := (FMO.not_nan_of_le hbig).2
  unfold Scalar.min
  rcases h with h | h
  · rw [FMO.lt_nan_left d _ h, hn]
    simpa using hbig
  · cases hlt : Scalar.lt d (100000 : α) with
    | true => simpa using h
    | false => rw [hn]; simpa using hbig

/-- … and only for those: `0 <= min(100000, d)` fails exactly when `d` is a negative number. -/
theorem le_zero_min_iff_notNeg (d : α) (hbig : Scalar.le (0 : α) (100000 : α) = true) :
    Scalar.le (0 : α) (Scalar.min (100000 : α) d) = true ↔ NotNeg d := by
  refine ⟨?_, le_zero_min_of_notNeg d hbig⟩
  intro h
  have h0 : Scalar.isNaN (0 : α) = false := (FMO.not_nan_of_le hbig).1
  rw [notNeg_iff_not_lt d h0]
  cases hlt0 : Scalar.lt d (0 : α) with
  | false => rfl
  | true =>
    exfalso
    -- `d < 0 ≤ 100000`, so `min(100000, d) = d`, and `0 ≤ d` contradicts `d < 0`
    have hlt : Scalar.lt d (100000 : α) = true := FMO.lt_of_lt_of_le d 0 _ hlt0 hbig
    unfold Scalar.min at h
    rw [hlt] at h
    simp only [if_true] at h
    have := FMO.not_lt_of_le 0 d h
    rw [hlt0] at this
    cases this

end Generic

/-! ### binary64 -/

theorem zero_le_maxLen_float : Scalar.le (0 : Float) (100000 : Float) = true := by decide +kernel
theorem zero_le_zero_float : Scalar.le (0 : Float) (0 : Float) = true := by decide +kernel
theorem zero_le_eps_float : Scalar.le (0 : Float) (Scalar.eps : Float) = true := by decide +kernel

theorem notNeg_zero_float : NotNeg (0 : Float) := Or.inr zero_le_zero_float

/-- the assertion for `Float`: not negative ⟹ `0 <= min(100000, d)`. -/
theorem le_zero_min_of_notNeg_float (d : Float) (h : NotNeg d) :
    Scalar.le (0 : Float) (Scalar.min (100000 : Float) d) = true :=
  le_zero_min_of_notNeg d zero_le_maxLen_float h

/-- `NotNeg` is closed under binary64 addition. -/
theorem add_notNeg_float (a x : Float) (ha : NotNeg a) (hx : NotNeg x) : NotNeg (a + x) := by
  rcases ha with ha | ha
  · exact Or.inl (FB.add_isNaN_left_float a x ha)
  · rcases hx with hx | hx
    · exact Or.inl (FB.add_isNaN_right_float a x hx)
    · exact Or.inr (C16.add_nonneg_float a x ha hx)

/-- every segment length is not negative (`C16.len_nonneg_float`, restated). -/
theorem len_notNeg_float (v : Pos Float32) : NotNeg (Cvt.up (Pos.length Float v) : Float) := by
  rcases C16.len_nonneg_float v with h | h
  · exact Or.inr h
  · exact Or.inl h

/-- **the natural length is never a negative number when `optimized_len` is not** — for every `f32` path, including
NaN / infinite coordinates: `calculated_len = (((opt + l₁) + l₂) + …)` with every `lᵢ` a NaN or `≥ 0`. -/
theorem natTotal_notNeg_float (opt : Float) (path : List (Pos Float32)) (h : NotNeg opt) :
    NotNeg (C16.natTotal opt path) := by
  induction path generalizing opt with
  | nil => exact h
  | cons a t ih =>
    cases t with
    | nil => exact h
    | cons b t' =>
      rw [C16.natTotal_cons2]
      exact ih _ (add_notNeg_float _ _ h (len_notNeg_float (b - a)))

/-- all running sums, not only the last: every entry of `natLens opt path` is not negative. -/
theorem natLens_notNeg_float (opt : Float) (path : List (Pos Float32)) (h : NotNeg opt) :
    ∀ v ∈ C16.natLens opt path, NotNeg v := by
  have key : ∀ (path : List (Pos Float32)) (c : Float), NotNeg c → ∀ v ∈ (cumLens c path).1, NotNeg v := by
    intro path
    induction path with
    | nil => intro c _ v hv; cases hv
    | cons a t ih =>
      intro c hc v hv
      cases t with
      | nil => cases hv
      | cons b t' =>
        rw [C16.cumLens_cons2] at hv
        have hc' := add_notNeg_float _ _ hc (len_notNeg_float (b - a))
        rcases List.mem_cons.mp hv with rfl | hv'
        · exact hc'
        · exact ih _ hc' v hv'
  intro v hv
  unfold C16.natLens at hv
  rcases List.mem_cons.mp hv with rfl | hv'
  · exact notNeg_zero_float
  · exact key path opt h v hv'

/-! ### non-vacuity (closed instances, evaluated by the kernel) -/

section NonVacuity

/-- both disjuncts of `NotNeg`, and a value that is not: -/
example : NotNeg (2.5 : Float) := Or.inr (by decide +kernel)
example : NotNeg (Float.ofBits 0x7FF8000000000000) := Or.inl (by decide +kernel)
example : ¬ NotNeg (-2.5 : Float) := by
  rintro (h | h)
  · exact absurd h (by decide +kernel)
  · exact absurd h (by decide +kernel)

/-- `f64::min(100000, NaN) = 100000`, `f64::min(100000, −2.5) = −2.5`: only the second trips the assertion. -/
example : Scalar.le (0 : Float) (Scalar.min (100000 : Float) (Float.ofBits 0x7FF8000000000000)) = true ∧
    Scalar.le (0 : Float) (Scalar.min (100000 : Float) (-2.5 : Float)) = false := by decide +kernel

/-- `natTotal_notNeg_float` on a path with a NaN coordinate (total NaN) and on an ordinary one (total 10). -/
example : Scalar.isNaN (C16.natTotal (0 : Float) [(⟨0, 0⟩ : Pos Float32), ⟨Float32.ofBits 0x7FC00000, 4⟩, ⟨6, 8⟩]) = true ∧
    C16.natTotal (0 : Float) [(⟨0, 0⟩ : Pos Float32), ⟨3, 4⟩, ⟨6, 8⟩] = 10 := by decide +kernel

/-- the hypothesis on `optimized_len` is needed: a negative seed larger than the path gives a negative total. -/
example : C16.natTotal (-11 : Float) [(⟨0, 0⟩ : Pos Float32), ⟨3, 4⟩, ⟨6, 8⟩] = -1 := by decide +kernel

end NonVacuity

end Rosu.FDL
