/-
  Lemmas/FloatIntExact32.lean — the `f32` twin of `FIE.add_int_exact_float` (Lemmas/FloatIntExact.lean): sums of integers below
  2^23 are EXACT in IEEE binary32 (`FIE.add_int_exact_float32`; the difference is `FTR.sub_int_exact_float32`), and the
  consequences used for slider control points (Props/C04DecodedObjectsIeee2.lean): `a + (b − a) = b`, `a + 0 = a`, `a − a = 0`
  for integer-valued `f32`s within ±131072 (all intermediate values are integers of magnitude ≤ 2^18 < 2^23).
-/
import RosuModel.Lemmas.FloatIntExact
namespace Rosu.FIE
open Rosu Float.Model Float.Model.UnpackedFloat FMR FMO FTR

theorem log2_le_23 {n : Nat} (h0 : n ≠ 0) (h : n < 2 ^ 24) : n.log2 ≤ 23 := by
  have := (Nat.log2_lt h0).mpr h; omega

/-- **sums of integers are exact in `f32`**: for integers with `|a|, |b|, |a + b| < 2^23`,
`(a as f32) + (b as f32) = (a + b) as f32` (no rounding; a zero sum is `+0.0`). -/
theorem add_int_exact_float32 (a b : Int) (ha : a.natAbs < 2 ^ 23) (hb : b.natAbs < 2 ^ 23) (hd : (a + b).natAbs < 2 ^ 23) :
    Float32.ofInt a + Float32.ofInt b = Float32.ofInt (a + b) := by
  rw [FX.add_float32, ← FX.pack_unpack_float32 (Float32.ofInt (a + b))]
  congr 2
  by_cases ha0 : a = 0
  · subst ha0
    rw [up_ofInt32_zero, Int.zero_add]
    by_cases hb0 : b = 0
    · subst hb0; rw [up_ofInt32_zero]; rfl
    · obtain ⟨hm, e⟩ := up_ofInt32 b hb0 hb
      rw [e]; rfl
  · obtain ⟨hma, ea⟩ := up_ofInt32 a ha0 ha
    by_cases hb0 : b = 0
    · subst hb0
      rw [up_ofInt32_zero, Int.add_zero, ea]; rfl
    · obtain ⟨hmb, eb⟩ := up_ofInt32 b hb0 hb
      rw [ea, eb]
      have hla := log2_le_23 (n := a.natAbs) (by omega) (by omega)
      have hlb := log2_le_23 (n := b.natAbs) (by omega) (by omega)
      have e1 : (a.natAbs.log2 : Int) - 23 = (-((23 - a.natAbs.log2 : Nat) : Int)) := by omega
      have e2 : (b.natAbs.log2 : Int) - 23 = (-((23 - b.natAbs.log2 : Nat) : Int)) := by omega
      by_cases hd0 : a + b = 0
      · rw [hd0, up_ofInt32_zero]
        simp only [e1, e2]
        exact uadd_fin_cancel Format.binary32 (isign a) (isign b) a.natAbs b.natAbs _ _ _ _
          (by rw [isign_apply, isign_apply]; exact hd0)
      · obtain ⟨hmd, ed⟩ := up_ofInt32 (a + b) hd0 hd
        rw [ed]
        have h := uadd_int Format.binary32 (by decide) (isign a) (isign b) a.natAbs b.natAbs (23 - a.natAbs.log2)
          (23 - b.natAbs.log2) hma hmb
          (a + b) (by rw [isign_apply, isign_apply]) hd0 (by show (a + b).natAbs < 2 ^ 24; omega)
        simp only [← e1, ← e2] at h
        exact h

/-- closed instances, by the kernel. -/
example : (Float32.ofInt 131072 + Float32.ofInt 131072).toBits = (Float32.ofInt 262144).toBits ∧
    (Float32.ofInt (-5) + Float32.ofInt 5).toBits = 0 ∧
    (Float32.ofInt (-131072) + Float32.ofInt 262144).toBits = (Float32.ofInt 131072).toBits := by decide +kernel

/-- `a + (b − a) = b` for integers within ±131072 (`|b − a| ≤ 262144 < 2^23`): the head of a slider plus a stored
control-point offset is the coordinate that was read, exactly. -/
theorem add_sub_cancel_int32 (a b : Int) (ha : a.natAbs ≤ 131072) (hb : b.natAbs ≤ 131072) :
    Float32.ofInt a + (Float32.ofInt b - Float32.ofInt a) = Float32.ofInt b := by
  rw [sub_int_exact_float32 b a (by omega) (by omega) (by omega),
    add_int_exact_float32 a (b - a) (by omega) (by omega) (by omega)]
  congr 1; omega

theorem add_zero_int32 (a : Int) (ha : a.natAbs < 2 ^ 23) : Float32.ofInt a + 0 = Float32.ofInt a := by
  have h := add_int_exact_float32 a 0 ha (by decide) (by simpa using ha)
  rw [Int.add_zero] at h
  exact h

theorem sub_self_int32 (a : Int) (ha : a.natAbs < 2 ^ 23) : Float32.ofInt a - Float32.ofInt a = 0 := by
  have h := sub_int_exact_float32 a a ha ha (by simp)
  rw [Int.sub_self] at h
  exact h

end Rosu.FIE
