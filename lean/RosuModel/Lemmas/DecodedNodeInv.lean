/-
  Lemmas/DecodedNodeInv.lean — the NODE sample lists of decoded sliders: every custom sample bank is at most 2³¹−1
  (in the Rust an `i32`; the model holds it as an `Int`, so this is a theorem here). Needed because `collect_samples`
  takes the maximum custom bank over a node's samples into the sample point it collects (Props/C04DecodedTiming.lean).

  * `readBanks_custom`, `readNodeBanks_custom`, `convertSoundType_custom`, `buildNodeSamples_custom`, `sliderPrelude_nodes`:
    the per-node `read_custom_sample_banks` + `convert_sound_type` only produce custom banks parsed by `i32::parse` (or `0`, `1`);
  * `parseHitObjectLine_nodesOk`: one `[HitObjects]` line, accepted or rejected, any mode, any state, keeps
    "every pushed slider has `NodeOk` node lists"; `nodeInv_decoded`: through the framing driver for every byte string;
  * `decoded_nodesOk`: through sort, break processing and the finaliser's node-sample defaults (`applyNodeSamples`; the
    sample points applied come from the decoded control points, whose custom banks are within the parse limit).
  No codec or arithmetic law is used.
-/
import RosuModel.Lemmas.DecodedObjInv
set_option linter.unusedSectionVars false
set_option linter.unusedSimpArgs false
namespace Rosu
namespace DecodedObj
open Rosu Scalar RtObjects EncodeLines

/-- every custom bank of a sample list is at most `B`. -/
def CustomLe (B : Int) (l : List HitSampleInfo) : Prop := ∀ x ∈ l, x.customSampleBank ≤ B

/-! ### bank infos -/

theorem readBanks_custom (self : SampleBankInfo) (pieces : List Str) (bo : Bool) (hs : self.customSampleBank ≤ i32Max) :
    (self.readCustomSampleBanks pieces bo).1.customSampleBank ≤ i32Max := by
  unfold SampleBankInfo.readCustomSampleBanks
  split
  · exact hs
  · split
    · exact hs
    · split
      · exact hs
      · split
        · exact hs
        · split
          · exact hs
          · simp only []
            split
            · exact hs
            · split
              · exact hs
              · split
                · exact hs
                · rename_i csb hcsb
                  have hc := (DecodedInv.i32Parse_range hcsb).2
                  split
                  · exact hc
                  · split
                    · exact hc
                    · exact hc

theorem readExtras_custom (rest : List Str) (bo : Bool) : (readExtras rest bo).1.customSampleBank ≤ i32Max := by
  unfold readExtras
  split
  · exact readBanks_custom _ _ _ (by decide)
  · decide

theorem readNodeBanks_custom (infos : List SampleBankInfo) (ss : List Str) (out : List SampleBankInfo)
    (hi : ∀ i ∈ infos, i.customSampleBank ≤ i32Max) (h : readNodeBanks infos ss = some out) :
    ∀ i ∈ out, i.customSampleBank ≤ i32Max := by
  induction infos generalizing ss out with
  | nil =>
    simp only [readNodeBanks, Option.some.injEq] at h
    subst h
    intro i hi'; cases hi'
  | cons i is ih =>
    cases ss with
    | nil =>
      simp only [readNodeBanks, Option.some.injEq] at h
      subst h
      exact hi
    | cons s ss =>
      simp only [readNodeBanks] at h
      split at h
      · cases h
      · rename_i i' hi'
        cases hr : readNodeBanks is ss with
        | none => simp [hr] at h
        | some out' =>
          simp only [hr, Option.map_some, Option.some.injEq] at h
          subst h
          intro x hx
          rcases List.mem_cons.mp hx with rfl | hx
          · have e : x = (i.readCustomSampleBanks (splitOn ':' s) false).1 := by rw [hi']
            rw [e]
            exact readBanks_custom _ _ _ (hi i (by simp))
          · exact ih ss out' (fun j hj => hi j (by simp [hj])) hr x hx

theorem new_custom (name : HitSampleInfoName) (bank : Option SampleBank) (c v : Int) :
    (HitSampleInfo.new name bank c v).customSampleBank = c := rfl

/-- **`convert_sound_type`**: every custom bank is the info's, or `1` (custom file). -/
theorem convertSoundType_custom (b : SampleBankInfo) (snd : Int) (hb : b.customSampleBank ≤ i32Max) :
    CustomLe i32Max (b.convertSoundType snd) := by
  have h1 : (1 : Int) ≤ i32Max := by decide
  intro s hs
  unfold SampleBankInfo.convertSoundType at hs
  simp only [List.mem_cons, List.mem_append] at hs
  rcases hs with hs | (hs | hs) | hs
  · rw [hs]
    split
    · split
      · exact h1
      · exact hb
    · exact hb
  all_goals (rw [mem_ite_singleton hs]; exact hb)

theorem buildNodeSamples_custom (bankInfo : SampleBankInfo) (snd : Int) (nodes : Nat) (n8 n9 : Option Str)
    (ns : List (List HitSampleInfo)) (hb : bankInfo.customSampleBank ≤ i32Max)
    (h : buildNodeSamples bankInfo snd nodes n8 n9 = some ns) : ∀ l ∈ ns, CustomLe i32Max l := by
  unfold buildNodeSamples at h
  simp only [] at h
  split at h
  · cases h
  · rename_i infos hinfos
    simp only [Option.some.injEq] at h
    subst h
    have hall : ∀ i ∈ infos, i.customSampleBank ≤ i32Max := by
      split at hinfos
      · exact readNodeBanks_custom _ _ _ (fun i hi => by rw [List.eq_of_mem_replicate hi]; exact hb) hinfos
      · simp only [Option.some.injEq] at hinfos
        subst hinfos
        exact fun i hi => by rw [List.eq_of_mem_replicate hi]; exact hb
    intro l hl
    obtain ⟨⟨b, s⟩, hz, rfl⟩ := List.mem_map.mp hl
    exact convertSoundType_custom b s (hall b (List.of_mem_zip hz).1)

variable {F P : Type} [Scalar F] [Scalar P] [Cvt P F]

theorem sliderPrelude_nodes (hd : Header F P) (pre : SliderPrelude F) (h : sliderPrelude hd = some pre) :
    ∀ l ∈ pre.nodeSamples, CustomLe i32Max l := by
  unfold sliderPrelude at h
  split at h
  · rename_i pointStr repeatS rest2 _
    split at h
    · cases h
    · split at h
      · cases h
      · split at h
        · cases h
        · split at h
          · cases h
          · rename_i bankInfo hbank
            split at h
            · cases h
            · rename_i nodeSamples hns
              cases h
              have e : bankInfo = (readExtras (rest2.drop 3) true).1 := by rw [hbank]
              exact buildNodeSamples_custom _ _ _ _ _ _ (by rw [e]; exact readExtras_custom _ _) hns
  · cases h

/-! ### the per-object predicate -/

/-- the node sample lists of a kind (none unless it is a slider). -/
def nodeLists : HitObjectKind F P → List (List HitSampleInfo)
  | .slider s => s.nodeSamples
  | _ => []

/-- every custom bank of every node sample is at most 2³¹−1. -/
def NodeOk (k : HitObjectKind F P) : Prop := ∀ l ∈ nodeLists k, CustomLe i32Max l

def NodesOk (hs : List (HitObject F P)) : Prop := ∀ o ∈ hs, NodeOk o.kind

theorem nodesOk_snoc (hs : List (HitObject F P)) (o : HitObject F P) (h : NodesOk hs) (ho : NodeOk o.kind) :
    NodesOk (hs ++ [o]) := by
  intro x hx
  rcases List.mem_append.mp hx with hx | hx
  · exact h x hx
  · simp only [List.mem_singleton] at hx; subst hx; exact ho

theorem nodeOk_of_no_nodes {k : HitObjectKind F P} (h : nodeLists k = []) : NodeOk k := by
  intro l hl; rw [h] at hl; cases hl

theorem buildSlider_nodes (mode : GameMode) (st st' : HOCore F P) (hd : Header F P) (k : HitObjectKind F P) (b : SampleBankInfo)
    (h : buildSlider mode st hd = (st', some (k, b))) : NodeOk k := by
  unfold buildSlider at h
  split at h
  · cases h
  · rename_i pre hpre
    split at h
    · cases h
    · cases h
      exact sliderPrelude_nodes hd pre hpre

theorem buildCircle_nodes (st : HOCore F P) (hd : Header F P) (k : HitObjectKind F P) (b : SampleBankInfo)
    (h : buildCircle st hd = some (k, b)) : NodeOk k := by
  unfold buildCircle at h
  split at h
  · cases h
  · cases h; exact nodeOk_of_no_nodes rfl

theorem buildSpinner_nodes (hd : Header F P) (k : HitObjectKind F P) (b : SampleBankInfo)
    (h : buildSpinner hd = some (k, b)) : NodeOk k := by
  unfold buildSpinner at h
  split at h
  · split at h
    · cases h
    · split at h
      · cases h
      · cases h; exact nodeOk_of_no_nodes rfl
  · cases h

theorem buildHold_nodes (hd : Header F P) (k : HitObjectKind F P) (b : SampleBankInfo)
    (h : buildHold hd = some (k, b)) : NodeOk k := by
  unfold buildHold at h
  simp only [] at h
  split at h
  · cases h
  · cases h; exact nodeOk_of_no_nodes rfl

/-- **one `[HitObjects]` line**, accepted or rejected, any mode, any state: every pushed object has `NodeOk` node lists. -/
theorem parseHitObjectLine_nodesOk (mode : GameMode) (st : HOCore F P) (line : Str)
    (hinv : NodesOk st.hitObjects) : NodesOk (parseHitObjectLine mode st line).1.hitObjects := by
  unfold parseHitObjectLine
  split
  · exact hinv
  · rename_i hd hhd
    split
    · exact hinv
    · split
      · exact hinv
      · rename_i k b hb
        exact nodesOk_snoc _ _ hinv (buildCircle_nodes st hd k b hb)
    · have hf := C14.buildSlider_frame mode st hd
      split
      · rename_i st' heq
        rw [heq] at hf
        simp only [] at hf ⊢
        rw [hf.1]; exact hinv
      · rename_i st' k b heq
        rw [heq] at hf
        simp only [] at hf
        show NodesOk (st'.hitObjects ++ [_])
        rw [hf.1]
        exact nodesOk_snoc _ _ hinv (buildSlider_nodes mode st st' hd k b heq)
    · split
      · exact hinv
      · rename_i k b hb
        exact nodesOk_snoc _ _ hinv (buildSpinner_nodes hd k b hb)
    · split
      · exact hinv
      · rename_i k b hb
        exact nodesOk_snoc _ _ hinv (buildHold_nodes hd k b hb)

/-! ### through the framing driver -/

def NodeInv (st : BeatmapState F P) : Prop := NodesOk st.hitObjects.core.hitObjects

theorem nodeInv_create (v : Int) : NodeInv (BeatmapState.create v : BeatmapState F P) :=
  fun _ h => absurd h List.not_mem_nil

theorem nodeInv_step (sec : Section) (st : BeatmapState F P) (l : Str) (h : NodeInv st) :
    NodeInv (BeatmapState.step sec st l) := by
  unfold NodeInv at h ⊢
  have key : NodesOk (st.hitObjects.step sec l).core.hitObjects := by
    rcases DecodedSliders.hoStep_core_objects sec st.hitObjects l with e | ⟨_, e⟩
    · rw [e]; exact h
    · rw [e]; exact parseHitObjectLine_nodesOk _ _ _ h
  cases sec <;> first | exact key | exact h

/-- **every decoded byte string leaves the decoder with `NodeOk` sliders only.** -/
theorem nodeInv_decoded (bs : List UInt8) (st : BeatmapState F P)
    (h : decodeBytes beatmapDecoder bs = .ok st) : NodeInv st := by
  obtain ⟨ls, rfl, _⟩ := DecodedInv.decodeBytes_lines _ bs st h
  exact RtTiming.frame_invariant (beatmapDecoder : LineDecoder (BeatmapState F P)) NodeInv
    (fun v => nodeInv_create v) (fun s st l hst => nodeInv_step s st l hst) ls

/-! ### through the finaliser -/

theorem apply_custom_le (sp : SamplePoint F) (hsp : sp.customSampleBank ≤ i32Max) (s : HitSampleInfo)
    (hs : s.customSampleBank ≤ i32Max) : (sp.apply s).customSampleBank ≤ i32Max := by
  unfold SamplePoint.apply
  split
  · simp only []
    repeat' split
    all_goals simp_all
  · show (1 : Int) ≤ i32Max
    decide

theorem customLe_map (sp : SamplePoint F) (hsp : sp.customSampleBank ≤ i32Max) (l : List HitSampleInfo)
    (h : CustomLe i32Max l) : CustomLe i32Max (l.map sp.apply) := by
  intro s hs
  obtain ⟨a, ha, rfl⟩ := List.mem_map.mp hs
  exact apply_custom_le sp hsp a (h a ha)

theorem nodeLists_orNewCombo (k : HitObjectKind F P) (f : Bool) : nodeLists (k.orNewCombo f) = nodeLists k := by
  cases k <;> rfl

theorem postProcessBreaks_mem (br : List (BreakPeriod F)) (l : List (HitObject F P)) (cur : Nat) (o : HitObject F P)
    (ho : o ∈ postProcessBreaks br l cur) : ∃ a ∈ l, ∃ f, o.kind = a.kind.orNewCombo f := by
  induction l generalizing cur with
  | nil => cases ho
  | cons x xs ih =>
    simp only [postProcessBreaks, List.mem_cons] at ho
    rcases ho with rfl | ho
    · exact ⟨x, by simp, _, rfl⟩
    · obtain ⟨a, ha, f, e⟩ := ih _ ho
      exact ⟨a, by simp [ha], f, e⟩

section Finish
variable [Trig F] [Trig P]

theorem applyNodeSamples_mem (cp : ControlPoints F) (hcp : ∀ s ∈ cp.samplePoints, SpOk s) (st d sc : F)
    (l : List (List HitSampleInfo)) (i : Nat) (hl : ∀ ns ∈ l, CustomLe i32Max ns) :
    ∀ ns ∈ applyNodeSamples cp st d sc l i, CustomLe i32Max ns := by
  induction l generalizing i with
  | nil => intro ns h; cases h
  | cons x xs ih =>
    intro ns h
    simp only [applyNodeSamples, List.mem_cons] at h
    rcases h with rfl | h
    · exact customLe_map _ (spOk_lookup cp hcp _).2 x (hl x (by simp))
    · exact ih (i + 1) (fun y hy => hl y (by simp [hy])) ns h

theorem finalizeObject_nodes (mode : GameMode) (sm : F) (cp : ControlPoints F) (hcp : ∀ s ∈ cp.samplePoints, SpOk s)
    (h h' : HitObject F P) (bufs bufs' : CurveBuffers P F) (hfin : finalizeObject mode sm cp h bufs = .ok (h', bufs'))
    (hn : NodeOk h.kind) : NodeOk h'.kind := by
  unfold finalizeObject at hfin
  cases hk : h.kind with
  | circle c =>
    simp only [hk, pure, Except.pure, Except.ok.injEq, Prod.mk.injEq] at hfin
    obtain ⟨e, _⟩ := hfin; subst e
    simp only [hk]; exact nodeOk_of_no_nodes rfl
  | spinner c =>
    simp only [hk, pure, Except.pure, Except.ok.injEq, Prod.mk.injEq] at hfin
    obtain ⟨e, _⟩ := hfin; subst e
    simp only [hk]; exact nodeOk_of_no_nodes rfl
  | hold c =>
    simp only [hk, pure, Except.pure, Except.ok.injEq, Prod.mk.injEq] at hfin
    obtain ⟨e, _⟩ := hfin; subst e
    simp only [hk]; exact nodeOk_of_no_nodes rfl
  | slider s =>
    simp only [hk] at hfin
    cases hc : Curve.new curveFuel s.path.mode s.path.controlPoints s.path.expectedDist bufs with
    | error e => simp [hc, bind, Except.bind] at hfin
    | ok r =>
      simp only [hc, bind, Except.bind, pure, Except.pure, Except.ok.injEq, Prod.mk.injEq] at hfin
      obtain ⟨e, _⟩ := hfin; subst e
      rw [hk] at hn
      exact applyNodeSamples_mem cp hcp _ _ _ _ _ hn

theorem finalizeObjects_nodes (mode : GameMode) (sm : F) (cp : ControlPoints F) (hcp : ∀ s ∈ cp.samplePoints, SpOk s)
    (hs hs' : List (HitObject F P)) (bufs : CurveBuffers P F) (h : finalizeObjects mode sm cp hs bufs = .ok hs')
    (hn : NodesOk hs) : NodesOk hs' := by
  induction hs generalizing hs' bufs with
  | nil => simp [finalizeObjects, pure, Except.pure] at h; subst h; intro o ho; cases ho
  | cons x rest ih =>
    simp only [finalizeObjects, bind, Except.bind] at h
    cases hx : finalizeObject mode sm cp x bufs with
    | error e => simp [hx] at h
    | ok r =>
      obtain ⟨x', b'⟩ := r
      simp only [hx] at h
      cases hr : finalizeObjects mode sm cp rest b' with
      | error e => simp [hr] at h
      | ok rest' =>
        simp only [hr, pure, Except.pure] at h
        cases h
        intro o ho
        rcases List.mem_cons.mp ho with rfl | ho
        · exact finalizeObject_nodes mode sm cp hcp x _ bufs b' hx (hn x (by simp))
        · exact ih rest' b' hr (fun y hy => hn y (by simp [hy])) o ho

/-- **every slider of a decoded map has `NodeOk` node sample lists** — every byte string. -/
theorem decoded_nodesOk (bs : List UInt8) (st : BeatmapState F P) (m : Beatmap F P)
    (h1 : decodeBytes beatmapDecoder bs = .ok st) (h2 : st.finish = .ok m) : NodesOk m.hitObjects := by
  have hinv := nodeInv_decoded bs st h1
  obtain ⟨ls, hst, _⟩ := DecodedInv.decodeBytes_lines _ bs st h1
  have hcp : ∀ s ∈ m.controlPoints.samplePoints, SpOk s := by
    intro s hs
    have := (C04.decoded_control_points_in_limits ls m (by rw [← hst]; exact h2)).2.2.2.2 s hs
    exact ⟨this.2.1, this.2.2⟩
  refine finalizeObjects_nodes _ _ _ hcp _ _ _ (finish_eq st m h2) ?_
  intro o ho
  obtain ⟨a, ha, f, e⟩ := postProcessBreaks_mem _ _ _ o ho
  have haok := hinv a ((C15.sorted_perm _).mem_iff.mp ha)
  intro l hl
  rw [e, nodeLists_orNewCombo] at hl
  exact haok l hl

end Finish

end DecodedObj
end Rosu
