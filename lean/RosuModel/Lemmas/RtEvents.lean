/-
  Lemmas/RtEvents.lean — the `[Events]` block under the codec laws: the background line `0,0,"<name>",0,0`
  (written only for a non-empty name) and the break lines `2,<start>,<end>`.
-/
import RosuModel.Lemmas.CodecLaws
import RosuModel.Lemmas.ToyCodec
import RosuModel.Model.Encode
namespace Rosu
namespace RtEvents
open Rosu Encode EncodeLines C11 Scalar

variable {F : Type} [Scalar F] {R : F → Prop}

/-! ### `clean_filename` on a quoted name -/

theorem dropEndEq_of_last (c : Char) (s : Str) (h : s.getLast? ≠ some c) : dropEndEq c s = s := by
  induction s with
  | nil => rfl
  | cons x t ih =>
    cases t with
    | nil =>
      have : (x == c) = false := by simpa using fun e : x = c => h (by simp [e])
      simp [dropEndEq, this]
    | cons y r =>
      rw [List.getLast?_cons_cons] at h
      rw [dropEndEq, ih h]

theorem dropEndEq_append_self (c : Char) (s : Str) : dropEndEq c (s ++ [c]) = dropEndEq c s := by
  induction s with
  | nil => simp [dropEndEq]
  | cons x t ih => simp only [List.cons_append, dropEndEq, ih]

theorem collapseBackslashes_of_none (s : Str) (h : '\\' ∉ s) : collapseBackslashes s = s := by
  induction s with
  | nil => rfl
  | cons a t ih =>
    cases t with
    | nil => rfl
    | cons b r =>
      have ha : (a == '\\') = false := by simpa using fun e : a = '\\' => h (by simp [e])
      simp only [collapseBackslashes, ha, Bool.false_and, Bool.false_eq_true, if_false, ih (fun e => h (by simp [e]))]

/-- a file name the `[Events]` section can carry: without comma, line feed, backslash or `//`, and
not starting or ending with a double quote. (Surrounding white space is preserved: the name is quoted.) -/
structure RepFileName (n : Str) : Prop where
  noComma : ',' ∉ n
  noLf : '\n' ∉ n
  noBackslash : '\\' ∉ n
  noDS : hasDS n = false
  head : n.head? ≠ some '"'
  last : n.getLast? ≠ some '"'

/-- **`clean_filename("\"name\"") = name`**. -/
theorem cleanFilename_quoted (n : Str) (h : RepFileName n) : cleanFilename ('"' :: (n ++ ['"'])) = n := by
  cases n with
  | nil => decide
  | cons c r =>
  unfold cleanFilename toStandardizedPath trimMatches
  have h1 : dropWhileEq '"' ('"' :: (c :: r ++ ['"'])) = c :: r ++ ['"'] := by
    have : (c == '"') = false := by simpa using fun e : c = '"' => h.head (by simp [e])
    simp [dropWhileEq, this]
  rw [h1, dropEndEq_append_self, dropEndEq_of_last _ _ h.last, collapseBackslashes_of_none _ h.noBackslash,
    replaceChar_of_none _ _ _ h.noBackslash]

/-! ### lines -/

def backgroundLine (n : Str) : Str := str "0,0,\"" ++ n ++ str "\",0,0"
def breakLine (b : BreakPeriod F) : Str := str "2," ++ showF b.startTime ++ [','] ++ showF b.endTime

def eventLines (e : Events F) : List Str :=
  optLine (!e.backgroundFile.isEmpty) (backgroundLine e.backgroundFile) ++ e.breaks.map breakLine

theorem encodeEvents_eq {P : Type} (m : Beatmap F P) : encodeEvents m = unlines (str "[Events]" :: eventLines m.events) := by
  have hh : str "[Events]\n" = str "[Events]" ++ EncodeLines.nl := by decide
  have h0 : str "\",0,0\n" = str "\",0,0" ++ EncodeLines.nl := by decide
  have hb : ∀ bs : List (BreakPeriod F),
      bs.flatMap (fun b => str "2," ++ showF b.startTime ++ [','] ++ showF b.endTime ++ Encode.nl) = unlines (bs.map breakLine) := by
    intro bs
    induction bs with
    | nil => rfl
    | cons b rest ih =>
      rw [List.flatMap_cons, ih]
      simp only [List.map_cons, unlines_cons, breakLine, Encode.nl, EncodeLines.nl, List.append_assoc]
  unfold encodeEvents eventLines
  rw [unlines_cons, unlines_append, unlines_optLine, hb, hh, ite_isEmpty]
  simp only [backgroundLine, h0, List.append_assoc]

/-- a break the format can represent: both ends representable by the codec and within the parse limit, and not
ending before it starts (`f64::max(start, end) = end`, as the decoder computes it). -/
structure RepBreak (R : F → Prop) (b : BreakPeriod F) : Prop where
  start : R b.startTime ∧ InLimit b.startTime
  stop : R b.endTime ∧ InLimit b.endTime
  ordered : Scalar.max b.startTime b.endTime = b.endTime

structure RepEvents (R : F → Prop) (e : Events F) : Prop where
  background : e.backgroundFile = [] ∨ RepFileName e.backgroundFile
  breaks : ∀ b ∈ e.breaks, RepBreak R b

/-! ### one line -/

theorem backgroundLine_shape (n : Str) : backgroundLine n = str "0,0," ++ '"' :: (n ++ '"' :: str ",0,0") := by
  simp [backgroundLine, str]

theorem trimEnd_backgroundLine (n : Str) : trimEnd (backgroundLine n) = backgroundLine n := by
  have : backgroundLine n = (str "0,0,\"" ++ n ++ str "\",0,") ++ '0' :: [] := by simp [backgroundLine, str]
  rw [this, trimEnd_append_cons _ '0' [] (by decide)]
  rfl

theorem hasDS_backgroundLine (n : Str) (h : RepFileName n) : hasDS (backgroundLine n) = false := by
  rw [backgroundLine_shape, hasDS_append_cons _ _ _ (by decide), hasDS_cons_of_ne _ _ (by decide)]
  exact hasDS_append_sep n '"' _ h.noDS (by decide) (by decide)

theorem splitOn_backgroundLine (n : Str) (h : RepFileName n) :
    splitOn ',' (backgroundLine n) = [str "0", str "0", '"' :: (n ++ ['"']), str "0", str "0"] := by
  have e : backgroundLine n = str "0" ++ ',' :: (str "0" ++ ',' :: (('"' :: (n ++ ['"'])) ++ ',' :: (str "0" ++ ',' :: str "0"))) := by
    simp [backgroundLine, str]
  have hq : ',' ∉ '"' :: (n ++ ['"']) := by
    intro hm
    simp only [List.mem_cons, List.mem_append, List.not_mem_nil, or_false] at hm
    rcases hm with hm | hm | hm
    · exact absurd hm (by decide)
    · exact h.noComma hm
    · exact absurd hm (by decide)
  rw [e, splitOn_append_sep ',' _ _ (by decide), splitOn_append_sep ',' _ _ (by decide), splitOn_append_sep ',' _ _ hq,
    splitOn_append_sep ',' _ _ (by decide), splitOn_no_sep ',' _ (by decide)]

theorem parse_background (st : Events F) (n : Str) (h : RepFileName n) :
    parseEvents st (trimEnd (backgroundLine n)) = ({ st with backgroundFile := n }, true) := by
  rw [trimEnd_backgroundLine]
  exact (background_overwrites st _ _ _ _ _
    (by rw [trimComment_of_not_hasDS _ (hasDS_backgroundLine n h), trimEnd_backgroundLine, splitOn_backgroundLine n h])
    (by decide)).trans (by rw [cleanFilename_quoted n h])

theorem breakLine_chars (L : CodecLaws F R) (b : BreakPeriod F) (h : RepBreak R b) :
    ∀ c ∈ breakLine b, numChar c = true ∨ c = ',' := by
  intro c hc
  simp only [breakLine, showF, List.mem_append, List.mem_singleton] at hc
  rcases hc with ((hc | hc) | hc) | hc
  · have : ∀ x ∈ str "2,", numChar x = true ∨ x = ',' := by decide
    exact this c hc
  · exact Or.inl (L.print_clean _ h.start.1 c hc)
  · exact Or.inr hc
  · exact Or.inl (L.print_clean _ h.stop.1 c hc)

theorem breakLine_not_mem (L : CodecLaws F R) (b : BreakPeriod F) (h : RepBreak R b) (d : Char)
    (hd : numChar d = false) (hd2 : d ≠ ',') : d ∉ breakLine b := by
  intro hm
  rcases breakLine_chars L b h d hm with h' | h'
  · rw [hd] at h'; cases h'
  · exact hd2 h'

theorem trimEnd_breakLine (L : CodecLaws F R) (b : BreakPeriod F) (h : RepBreak R b) : trimEnd (breakLine b) = breakLine b := by
  apply trimEnd_no_ws
  intro c hc
  rcases breakLine_chars L b h c hc with h' | h'
  · exact numChar_not_ws h'
  · subst h'; decide

theorem splitOn_breakLine (L : CodecLaws F R) (b : BreakPeriod F) (h : RepBreak R b) :
    splitOn ',' (breakLine b) = [str "2", Scalar.print b.startTime, Scalar.print b.endTime] := by
  have e : breakLine b = str "2" ++ ',' :: (Scalar.print b.startTime ++ ',' :: Scalar.print b.endTime) := by
    simp [breakLine, str, showF]
  rw [e, splitOn_append_sep ',' _ _ (by decide), splitOn_append_sep ',' _ _ (L.not_mem h.start.1 _ (by decide)),
    splitOn_no_sep ',' _ (L.not_mem h.stop.1 _ (by decide))]

theorem parse_break (L : CodecLaws F R) (st : Events F) (b : BreakPeriod F) (h : RepBreak R b) :
    parseEvents st (trimEnd (breakLine b)) = ({ st with breaks := st.breaks ++ [b] }, true) := by
  rw [trimEnd_breakLine L b h]
  have hds : hasDS (breakLine b) = false := hasDS_of_no_slash _ (breakLine_not_mem L b h '/' (by decide) (by decide))
  rw [break_appended st _ _ _ _ [] b.startTime b.endTime
    (by rw [trimComment_of_not_hasDS _ hds, trimEnd_breakLine L b h, splitOn_breakLine L b h])
    (by decide) (floatParse_print L h.start.1 h.start.2) (floatParse_print L h.stop.1 h.stop.2), h.ordered]

/-! ### the block -/

def decodedLines (e : Events F) : List Str := (eventLines e).map trimEnd

theorem run_breaks (L : CodecLaws F R) (st : Events F) (bs : List (BreakPeriod F)) (h : ∀ b ∈ bs, RepBreak R b) :
    runSection parseEvents st ((bs.map breakLine).map trimEnd) = { st with breaks := st.breaks ++ bs } := by
  induction bs generalizing st with
  | nil => simp [runSection]
  | cons b rest ih =>
    simp only [List.map_cons, runSection_cons, parse_break L st b (h b (by simp))]
    rw [ih _ (fun x hx => h x (by simp [hx]))]
    simp

theorem events_block_result (L : CodecLaws F R) (e : Events F) (h : RepEvents R e) :
    runSection parseEvents (Events.default : Events F) (decodedLines e) = e := by
  obtain ⟨bg, bs⟩ := e
  simp only [decodedLines, eventLines, List.map_append, optLine_map, runSection_append, runSection_optLine]
  rw [run_breaks L _ _ h.breaks]
  cases bg with
  | nil => simp [Events.default]
  | cons c r =>
    have hb : RepFileName (c :: r) := by
      rcases h.background with h' | h'
      · cases h'
      · exact h'
    simp [parse_background _ _ hb, Events.default]

theorem eventLines_no_lf (L : CodecLaws F R) (e : Events F) (h : RepEvents R e) : ∀ l ∈ eventLines e, '\n' ∉ l := by
  intro l hl
  simp only [eventLines, List.mem_append, List.mem_map] at hl
  rcases hl with hl | ⟨b, hb, rfl⟩
  · have hne := (mem_optLine hl).1
    rw [(mem_optLine hl).2]
    have hb : RepFileName e.backgroundFile := by
      rcases h.background with h' | h'
      · rw [h'] at hne; simp at hne
      · exact h'
    intro hm
    simp only [backgroundLine, List.mem_append] at hm
    rcases hm with (hm | hm) | hm
    · exact absurd hm (by decide)
    · exact hb.noLf hm
    · exact absurd hm (by decide)
  · exact breakLine_not_mem L b (h.breaks b hb) '\n' (by decide) (by decide)

theorem event_lines_spec (L : CodecLaws F R) (e : Events F) (h : RepEvents R e) :
    ∀ r ∈ decodedLines e, RecordLine r ∧ ∀ st : Events F, (parseEvents st r).2 = true := by
  intro r hr
  simp only [decodedLines, eventLines, List.map_append, optLine_map, List.mem_append, List.map_map, List.mem_map,
    Function.comp] at hr
  rcases hr with hr | ⟨b, hb, rfl⟩
  · have hne := (mem_optLine hr).1
    rw [(mem_optLine hr).2]
    have hbg : RepFileName e.backgroundFile := by
      rcases h.background with h' | h'
      · rw [h'] at hne; simp at hne
      · exact h'
    refine ⟨?_, fun st => by rw [parse_background st _ hbg]⟩
    rw [trimEnd_backgroundLine]
    exact recordLine_of_alnum '0' _ (by decide)
  · refine ⟨?_, fun st => by rw [parse_break L st b (h.breaks b hb)]⟩
    rw [trimEnd_breakLine L b (h.breaks b hb)]
    exact recordLine_of_alnum '2' _ (by decide)

/-- **events_block_roundtrip** (C04 + C02 for the block, for every lawful codec): the background line and every
break line `encode_events` writes is a record line accepted by `parse_events`, and the block, run from the
decoder's initial state, yields the same background file and the same breaks, in order. -/
theorem events_block_roundtrip (L : CodecLaws F R) (e : Events F) (h : RepEvents R e) :
    (∀ r ∈ decodedLines e, RecordLine r) ∧ Accepts parseEvents (Events.default : Events F) (decodedLines e) ∧
    runSection parseEvents (Events.default : Events F) (decodedLines e) = e :=
  ⟨fun r hr => (event_lines_spec L e h r hr).1,
   accepts_of_forall _ _ (fun r hr => (event_lines_spec L e h r hr).2) _, events_block_result L e h⟩

/-! ### non-vacuity (toy codec) -/

def sample : Events ZC := { backgroundFile := str " dir/b g:1.png ", breaks := [⟨⟨-50⟩, ⟨-50⟩⟩, ⟨⟨1000⟩, ⟨2147483647⟩⟩] }

theorem sample_rep : RepEvents ZC.Rep sample := by
  refine ⟨Or.inr ⟨by decide, by decide, by decide, by decide, by decide, by decide⟩, ?_⟩
  intro b hb
  simp only [sample, List.mem_cons, List.not_mem_nil, or_false] at hb
  rcases hb with rfl | rfl <;> exact ⟨⟨by decide, by decide⟩, ⟨by decide, by decide⟩, by decide⟩

example : runSection parseEvents Events.default (decodedLines sample) = sample :=
  events_block_result ZC.laws sample sample_rep

example : decodedLines sample = [str "0,0,\" dir/b g:1.png \",0,0", str "2,-50,-50", str "2,1000,2147483647"] := by decide

end RtEvents
end Rosu
