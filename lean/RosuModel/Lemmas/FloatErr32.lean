/-
  Lemmas/FloatErr32.lean — the rounding-error layer of Lemmas/FloatErr.lean / FloatErrMul.lean instantiated at
  **`Float32`** (binary32: `p = 24`, `minExponent = −149`), namespace `Rosu.FErr`.

  * `toRat32 : Float32 → ℚ` — the exact value `± m · 2^e` (0 for `±0`; by convention 0 for `±∞` / NaN);
  * **`add_err_float32`**, **`sub_err_float32`**: `a`, `b`, `a ∘ b` finite ⟹ `toRat32 (a ∘ b) = (a ∘ b)(1 + δ)`,
    `|δ| ≤ 2⁻²⁴` (no underflow error);
  * `Rnd32 r V` (= `Rnd Format.binary32`): `r` is `V` rounded to half an ulp; `Rnd32.rel` (`2⁻¹²⁶ ≤ |V|` ⟹ relative
    error `2⁻²⁴`), `Rnd32.abs_add` (`|r − V| ≤ 2⁻²⁴·|V| + 2⁻¹⁵⁰`, every input);
  * **`mul_rnd_float32`**, **`div_rnd_float32`**, **`mul_err_float32`**, **`div_err_float32`**, and the absolute forms
    `mul_err_abs_float32`, `div_err_abs_float32`;
  * `finite_of_add/sub/mul/div_finite32`: a finite result has finite operands;
  * `toRat32_one`, `recip_rnd_float32` (`Scalar.recip x = 1 / x`), `toRat32_le_of_le`, `toRat32_pos`.
-/
import RosuModel.Lemmas.FloatErrRange
import RosuModel.Lemmas.FloatExactOps
import RosuModel.Lemmas.FloatCoordLaws
namespace Rosu.FErr
open Float.Model Float.Model.UnpackedFloat Rosu.FMR Rosu.FRM Rosu.FAM

/-- **the exact value of an `f32`** (`± m · 2^e`; `0` for `±0`, and by convention for `±∞` / NaN). -/
def toRat32 (x : Float32) : ℚ := uval x.toModel.unpack

theorem isFinite32_iff (x : Float32) : x.isFinite = true ↔ x.toModel.unpack.isFinite = true := Iff.rfl

theorem toRat32_of_unpack {x : Float32} {s : Sign} {m : Nat} {e : Int} {hm : 0 < m}
    (h : x.toModel.unpack = .finite s m e hm) : toRat32 x = sgnQ s * (m : ℚ) * (2 : ℚ) ^ e := by
  unfold toRat32; rw [h]; rfl

theorem toRat32_zero : toRat32 (0 : Float32) = 0 := rfl

theorem b32_mantissaBits : Format.binary32.mantissaBits = 24 := by decide
theorem b32_minExponent : Format.binary32.minExponent = -149 := by decide

theorem repack_finite32 (r : UnpackedFloat) (hc : Canon Format.binary32 r)
    (h : (repack Format.binary32 r).isFinite = true) : r.isFinite = true := by
  rcases repack_cases Format.binary32 (by decide) r hc with ⟨h1, _⟩ | ⟨s, m, e, p, _, _, h1⟩
  · rw [h1] at h; exact h
  · rw [h1] at h; cases h

/-- for a canonical value whose repacked form is finite, repacking changes nothing. -/
theorem repack_eq_of_finite32 (r : UnpackedFloat) (hc : Canon Format.binary32 r)
    (h : (repack Format.binary32 r).isFinite = true) : repack Format.binary32 r = r := by
  rcases repack_cases Format.binary32 (by decide) r hc with ⟨h1, _⟩ | ⟨s, m, e, p, _, _, h1⟩
  · exact h1
  · rw [h1] at h; cases h

/-! ### a finite result has finite operands -/

theorem finite_of_add_finite32 (a b : Float32) (h : (a + b).isFinite = true) :
    a.isFinite = true ∧ b.isFinite = true := by
  have h' : (a + b).toModel.unpack.isFinite = true := h
  rw [float32_add_unpack] at h'
  exact uadd_finite _ _ _ (repack_finite32 _ (add_canon _ _ _ (float32_canon a) (float32_canon b)) h')

theorem finite_of_sub_finite32 (a b : Float32) (h : (a - b).isFinite = true) :
    a.isFinite = true ∧ b.isFinite = true := by
  have h' : (a - b).toModel.unpack.isFinite = true := h
  rw [float32_sub_unpack] at h'
  exact usub_finite _ _ _ (repack_finite32 _ (sub_canon _ _ _ (float32_canon a) (float32_canon b)) h')

theorem finite_of_mul_finite32 (a b : Float32) (h : (a * b).isFinite = true) :
    a.isFinite = true ∧ b.isFinite = true := by
  have h' : (a * b).toModel.unpack.isFinite = true := h
  rw [float32_mul_unpack] at h'
  exact umul_finite _ _ _ (repack_finite32 _ (mul_canon _ _ _ (float32_canon a) (float32_canon b)) h')

theorem finite_of_div_finite32 (a b : Float32) (h : (a / b).isFinite = true) : a.isFinite = true := by
  have h' : (a / b).toModel.unpack.isFinite = true := h
  rw [float32_div_unpack] at h'
  exact udiv_finite _ _ _ (repack_finite32 _ (div_canon _ _ _) h')

/-! ### addition, subtraction -/

/-- **the standard model of `f32` addition**: `a`, `b`, `a + b` finite ⟹ `a + b = (a + b)_exact (1 + δ)`, `|δ| ≤ 2⁻²⁴`. -/
theorem add_err_float32 (a b : Float32) (ha : a.isFinite = true) (hb : b.isFinite = true)
    (hab : (a + b).isFinite = true) :
    ∃ δ : ℚ, |δ| ≤ (2 : ℚ) ^ (-24 : Int) ∧ toRat32 (a + b) = (toRat32 a + toRat32 b) * (1 + δ) := by
  have hab' : (a + b).toModel.unpack.isFinite = true := hab
  have hc := add_canon Format.binary32 _ _ (float32_canon a) (float32_canon b)
  obtain ⟨_, δ, hδ, hv⟩ := add_err_unpacked Format.binary32 _ _ (float32_canon a) (float32_canon b) ha hb
  rw [b32_mantissaBits] at hδ
  refine ⟨δ, hδ, ?_⟩
  unfold toRat32
  rw [float32_add_unpack] at hab' ⊢
  rw [repack_eq_of_finite32 _ hc hab']; exact hv

/-- **the standard model of `f32` subtraction.** -/
theorem sub_err_float32 (a b : Float32) (ha : a.isFinite = true) (hb : b.isFinite = true)
    (hab : (a - b).isFinite = true) :
    ∃ δ : ℚ, |δ| ≤ (2 : ℚ) ^ (-24 : Int) ∧ toRat32 (a - b) = (toRat32 a - toRat32 b) * (1 + δ) := by
  have hab' : (a - b).toModel.unpack.isFinite = true := hab
  have hc := sub_canon Format.binary32 _ _ (float32_canon a) (float32_canon b)
  obtain ⟨_, δ, hδ, hv⟩ := sub_err_unpacked Format.binary32 _ _ (float32_canon a) (float32_canon b) ha hb
  rw [b32_mantissaBits] at hδ
  refine ⟨δ, hδ, ?_⟩
  unfold toRat32
  rw [float32_sub_unpack] at hab' ⊢
  rw [repack_eq_of_finite32 _ hc hab']; exact hv

/-! ### "`r` is `V` correctly rounded to an `f32`" -/

abbrev Rnd32 (r V : ℚ) : Prop := Rnd Format.binary32 r V

/-- **relative form**: `2⁻¹²⁶ ≤ |V|` ⟹ `r = V(1 + δ)`, `|δ| ≤ 2⁻²⁴`. -/
theorem Rnd32.rel {r V : ℚ} (h : Rnd32 r V) (hn : (2 : ℚ) ^ (-126 : Int) ≤ |V|) :
    ∃ δ : ℚ, |δ| ≤ (2 : ℚ) ^ (-24 : Int) ∧ r = V * (1 + δ) := by
  have := Rnd.rel h (by rw [b32_minExponent, b32_mantissaBits]; exact hn)
  rw [b32_mantissaBits] at this; exact this

/-- **absolute form, every input**: `|r − V| ≤ 2⁻²⁴ · |V| + 2⁻¹⁵⁰`. -/
theorem Rnd32.abs_add {r V : ℚ} (h : Rnd32 r V) :
    |r - V| ≤ (2 : ℚ) ^ (-24 : Int) * |V| + (2 : ℚ) ^ (-150 : Int) := by
  have := Rnd.abs_add h
  rw [b32_minExponent, b32_mantissaBits] at this; exact this

theorem Rnd32.abs_max {r V : ℚ} (h : Rnd32 r V) :
    |r - V| ≤ max ((2 : ℚ) ^ (-24 : Int) * |V|) ((2 : ℚ) ^ (-150 : Int)) := by
  have := Rnd.abs_max h
  rw [b32_minExponent, b32_mantissaBits] at this; exact this

/-! ### multiplication, division -/

/-- **`f32` multiplication is correctly rounded.** -/
theorem mul_rnd_float32 (a b : Float32) (ha : a.isFinite = true) (hb : b.isFinite = true)
    (hab : (a * b).isFinite = true) : Rnd32 (toRat32 (a * b)) (toRat32 a * toRat32 b) := by
  have hab' : (a * b).toModel.unpack.isFinite = true := hab
  have hc := mul_canon Format.binary32 _ _ (float32_canon a) (float32_canon b)
  obtain ⟨_, hv⟩ := mul_err_unpacked Format.binary32 _ _ (float32_canon a) (float32_canon b) ha hb
  unfold toRat32
  rw [float32_mul_unpack] at hab' ⊢
  rw [repack_eq_of_finite32 _ hc hab']; exact hv

/-- **the standard model of `f32` multiplication** (`2⁻¹²⁶ ≤ |a · b|`: the exact product is not subnormal). -/
theorem mul_err_float32 (a b : Float32) (ha : a.isFinite = true) (hb : b.isFinite = true)
    (hab : (a * b).isFinite = true) (hnorm : (2 : ℚ) ^ (-126 : Int) ≤ |toRat32 a * toRat32 b|) :
    ∃ δ : ℚ, |δ| ≤ (2 : ℚ) ^ (-24 : Int) ∧ toRat32 (a * b) = toRat32 a * toRat32 b * (1 + δ) :=
  (mul_rnd_float32 a b ha hb hab).rel hnorm

theorem mul_err_abs_float32 (a b : Float32) (ha : a.isFinite = true) (hb : b.isFinite = true)
    (hab : (a * b).isFinite = true) :
    |toRat32 (a * b) - toRat32 a * toRat32 b| ≤
      (2 : ℚ) ^ (-24 : Int) * |toRat32 a * toRat32 b| + (2 : ℚ) ^ (-150 : Int) :=
  (mul_rnd_float32 a b ha hb hab).abs_add

/-- a finite quotient of finite `f32`s has a non-zero divisor: its unpacked form is `finite`. -/
theorem div_finite_divisor32 (a b : Float32) (ha : a.isFinite = true) (hb : b.isFinite = true)
    (hab : (a / b).isFinite = true) : ∃ s m e hm, b.toModel.unpack = .finite s m e hm := by
  have hab' : (a / b).toModel.unpack.isFinite = true := hab
  have ha' : a.toModel.unpack.isFinite = true := ha
  have hb' : b.toModel.unpack.isFinite = true := hb
  rw [float32_div_unpack] at hab'
  have hd := repack_finite32 _ (div_canon Format.binary32 a.toModel.unpack b.toModel.unpack) hab'
  generalize a.toModel.unpack = ua at *
  generalize b.toModel.unpack = ub at *
  match ua, ub, ha', hb', hd with
  | .zero _, .finite s m e hm, _, _, _ => exact ⟨s, m, e, hm, rfl⟩
  | .finite .., .finite s m e hm, _, _, _ => exact ⟨s, m, e, hm, rfl⟩

/-- **`f32` division is correctly rounded.** -/
theorem div_rnd_float32 (a b : Float32) (ha : a.isFinite = true) (hb : b.isFinite = true)
    (hab : (a / b).isFinite = true) : Rnd32 (toRat32 (a / b)) (toRat32 a / toRat32 b) := by
  have hab' : (a / b).toModel.unpack.isFinite = true := hab
  have ha' : a.toModel.unpack.isFinite = true := ha
  obtain ⟨s, m, e, hm, hbu⟩ := div_finite_divisor32 a b ha hb hab
  have hc := div_canon Format.binary32 a.toModel.unpack b.toModel.unpack
  unfold toRat32
  rw [float32_div_unpack] at hab' ⊢
  rw [repack_eq_of_finite32 _ hc hab']
  rw [hbu]
  exact (div_err_unpacked Format.binary32 a.toModel.unpack ha' s m e hm).2

/-- **the standard model of `f32` division.** -/
theorem div_err_float32 (a b : Float32) (ha : a.isFinite = true) (hb : b.isFinite = true)
    (hab : (a / b).isFinite = true) (hnorm : (2 : ℚ) ^ (-126 : Int) ≤ |toRat32 a / toRat32 b|) :
    ∃ δ : ℚ, |δ| ≤ (2 : ℚ) ^ (-24 : Int) ∧ toRat32 (a / b) = toRat32 a / toRat32 b * (1 + δ) :=
  (div_rnd_float32 a b ha hb hab).rel hnorm

theorem div_err_abs_float32 (a b : Float32) (ha : a.isFinite = true) (hb : b.isFinite = true)
    (hab : (a / b).isFinite = true) :
    |toRat32 (a / b) - toRat32 a / toRat32 b| ≤
      (2 : ℚ) ^ (-24 : Int) * |toRat32 a / toRat32 b| + (2 : ℚ) ^ (-150 : Int) :=
  (div_rnd_float32 a b ha hb hab).abs_add

/-! ### `1`, `recip`, order -/

theorem one_finite32 : (1 : Float32).isFinite = true := by decide +kernel

theorem toRat32_one : toRat32 (1 : Float32) = 1 := by
  have h : (1 : Float32).toModel.unpack = .finite .positive (2 ^ 23) (-23) (by decide) := by
    rw [FX.one_eq_bits32]; exact FM.unpack_one32
  rw [toRat32_of_unpack h]
  norm_num [sgnQ]

/-- `Scalar.recip x = 1 / x`, correctly rounded. -/
theorem recip_rnd_float32 (x : Float32) (hx : x.isFinite = true)
    (hr : (Scalar.recip x : Float32).isFinite = true) : Rnd32 (toRat32 (Scalar.recip x)) (1 / toRat32 x) := by
  have := div_rnd_float32 1 x one_finite32 hx hr
  rw [toRat32_one] at this; exact this

/-- **monotonicity of `toRat32`.** -/
theorem toRat32_le_of_le (x y : Float32) (hx : x.isFinite = true) (hy : y.isFinite = true)
    (h : Scalar.le x y = true) : toRat32 x ≤ toRat32 y := by
  rw [FMO.le_float32] at h
  exact uval_le_of_le Format.binary32 _ _ (float32_canon x) (float32_canon y) hx hy h

theorem toRat32_nonneg (x : Float32) (h : Scalar.le (0 : Float32) x = true) (hf : x.isFinite = true) :
    0 ≤ toRat32 x :=
  toRat32_le_of_le 0 x rfl hf h

end Rosu.FErr
