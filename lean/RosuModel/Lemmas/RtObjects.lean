/-
  Lemmas/RtObjects.lean — hit-object lines of circles, spinners and holds under the codec laws:
  `get_sample_bank` against `read_custom_sample_banks`, the type bits, and the whole line against
  `parse_hit_objects`. Sliders (path string, node samples) are in Lemmas/Slider*.lean.
-/
import RosuModel.Lemmas.CodecLaws
import RosuModel.Lemmas.ToyCodec
import RosuModel.Model.Encode
namespace Rosu
namespace RtObjects
open Rosu Encode EncodeLines C11 Scalar

/-! ### `get_sample_bank` ↔ `read_custom_sample_banks` -/

/-- `normal:addition:custom:volume:filename`. -/
def bankStr (nb ab : SampleBank) (custom volume : Int) (fname : Str) : Str :=
  showNat nb.idx ++ [':'] ++ showNat ab.idx ++ [':'] ++ showInt custom ++ [':'] ++ showInt volume ++ [':'] ++ fname

def normalBankOf (samples : List HitSampleInfo) : SampleBank :=
  match samples.find? (fun s => s.name == .default .normal) with
  | some s => s.bank | none => SampleBank.none

def addBankOf (samples : List HitSampleInfo) : SampleBank :=
  match samples.find? (fun s => match s.name with | .default .normal => false | .file _ => false | _ => true) with
  | some s => s.bank | none => SampleBank.none

def customOf (samples : List HitSampleInfo) (mode : GameMode) : Int :=
  if mode != GameMode.mania then 0 else
    match samples.find? (fun s => match s.name with | .default _ => true | _ => false) with
    | some s => s.customSampleBank | none => 0

def volumeOf (samples : List HitSampleInfo) (mode : GameMode) : Int :=
  if mode != GameMode.mania then 0 else match samples.head? with | some s => s.volume | none => 100

def fileNameOf (samples : List HitSampleInfo) : Str :=
  (match samples.find? (fun s : HitSampleInfo => match s.name with | .file f => !f.isEmpty | _ => false) with
   | some s => (match s.name with | .file f => some f | _ => none)
   | none => none).getD []

/-- the five fields `get_sample_bank` writes for a hit object. -/
theorem getSampleBank_eq (samples : List HitSampleInfo) (mode : GameMode) :
    getSampleBank samples false mode =
      bankStr (normalBankOf samples) (addBankOf samples) (customOf samples mode) (volumeOf samples mode) (fileNameOf samples) := by
  cases mode <;> rfl

theorem intDigits_natCast (n : Nat) : intDigits (n : Int) = decDigits n := by
  have : ¬ ((n : Int) < 0) := by omega
  simp [intDigits, this]

theorem i32Parse_decDigits (n : Nat) (h : (n : Int) ≤ i32Max) : i32Parse (decDigits n) = some (n : Int) := by
  rw [← intDigits_natCast]
  exact i32Parse_intDigits _ (by unfold i32Max; omega) h

theorem bank_idx_parse (b : SampleBank) : i32Parse (decDigits b.idx) = some (b.idx : Int) ∧ bankOrNormal (b.idx : Int) = b := by
  cases b <;> exact ⟨by decide, by decide⟩

/-- a sample file name a hit-object line can carry (it is the last field of the line). -/
structure RepSampleFile (f : Str) : Prop where
  noColon : ':' ∉ f
  noComma : ',' ∉ f
  noLf : '\n' ∉ f
  noBar : '|' ∉ f
  noDS : hasDS f = false
  trimmed : trimEnd f = f

theorem splitOn_bankStr (nb ab : SampleBank) (c v : Int) (f : Str) (hf : ':' ∉ f) :
    splitOn ':' (bankStr nb ab c v f) = [showNat nb.idx, showNat ab.idx, showInt c, showInt v, f] := by
  have e : bankStr nb ab c v f = showNat nb.idx ++ ':' :: (showNat ab.idx ++ ':' :: (showInt c ++ ':' :: (showInt v ++ ':' :: f))) := by
    simp [bankStr, List.append_assoc]
  rw [e]
  simp only [showNat, showInt]
  rw [splitOn_append_sep ':' _ _ (decDigits_not_mem _ _ (by decide)), splitOn_append_sep ':' _ _ (decDigits_not_mem _ _ (by decide)),
    splitOn_append_sep ':' _ _ (intDigits_not_mem _ _ (by decide)), splitOn_append_sep ':' _ _ (intDigits_not_mem _ _ (by decide)),
    splitOn_no_sep ':' _ hf]

/-- the bank info the decoder builds from such a string. -/
def bankInfoOf (nb ab : SampleBank) (c v : Int) (f : Str) : SampleBankInfo :=
  { filename := some f, bankForNormal := someUnlessNone nb,
    bankForAddition := (someUnlessNone ab).orElse (fun _ => someUnlessNone nb),
    volume := if v < 0 then 0 else v, customSampleBank := c }

/-- **`read_custom_sample_banks(get_sample_bank(..))`**: the five fields come back (a `None` addition bank falls
back to the normal bank; a negative volume is read as 0). -/
theorem read_bankStr (nb ab : SampleBank) (c v : Int) (f : Str) (hf : ':' ∉ f)
    (hc : -i32Max ≤ c ∧ c ≤ i32Max) (hv : -i32Max ≤ v ∧ v ≤ i32Max) :
    ({} : SampleBankInfo).readCustomSampleBanks (splitOn ':' (bankStr nb ab c v f)) false = (bankInfoOf nb ab c v f, true) := by
  rw [splitOn_bankStr nb ab c v f hf]
  have hne : (decDigits nb.idx).isEmpty = false := by
    cases h : decDigits nb.idx with
    | nil => exact absurd h (decDigits_ne_nil _)
    | cons _ _ => rfl
  simp only [SampleBankInfo.readCustomSampleBanks, hne, Bool.false_eq_true, if_false, showNat, showInt,
    (bank_idx_parse nb).1, (bank_idx_parse ab).1, (bank_idx_parse nb).2, (bank_idx_parse ab).2,
    i32Parse_intDigits c hc.1 hc.2, i32Parse_intDigits v hv.1 hv.2, List.head?_cons, bankInfoOf]

example : ({} : SampleBankInfo).readCustomSampleBanks (splitOn ':' (bankStr .soft .none 0 70 (str "hit.wav"))) false =
    ({ filename := some (str "hit.wav"), bankForNormal := some .soft, bankForAddition := some .soft, volume := 70,
       customSampleBank := 0 }, true) := by decide

/-! ### type bits -/

theorem circle_type_bits : ∀ co ∈ ([0, 1, 2, 3, 4, 5, 6, 7] : List Int), ∀ nc : Bool,
    i32Min ≤ orBits (orBits (wrapI32 (co * 16)) (if nc then 4 else 0)) 1 ∧
    orBits (orBits (wrapI32 (co * 16)) (if nc then 4 else 0)) 1 ≤ i32Max ∧
    classify (maskedType (orBits (orBits (wrapI32 (co * 16)) (if nc then 4 else 0)) 1)) = some .circle ∧
    maskedType (orBits (orBits (wrapI32 (co * 16)) (if nc then 4 else 0)) 1) = 1 ∧
    newComboOf (orBits (orBits (wrapI32 (co * 16)) (if nc then 4 else 0)) 1) = nc ∧
    comboOffsetOf (orBits (orBits (wrapI32 (co * 16)) (if nc then 4 else 0)) 1) = co := by decide

theorem spinner_type_bits : ∀ nc : Bool,
    i32Min ≤ orBits (if nc then 4 else 0) 8 ∧ orBits (if nc then 4 else 0) 8 ≤ i32Max ∧
    classify (maskedType (orBits (if nc then 4 else 0) 8)) = some .spinner ∧
    maskedType (orBits (if nc then 4 else 0) 8) = 8 ∧ newComboOf (orBits (if nc then 4 else 0) 8) = nc := by decide

theorem hold_type_bits : classify (maskedType 128) = some .hold ∧ maskedType 128 = 128 := by decide

theorem mem_range8 (co : Int) (h0 : 0 ≤ co) (h8 : co < 8) : co ∈ ([0, 1, 2, 3, 4, 5, 6, 7] : List Int) := by
  have : co = 0 ∨ co = 1 ∨ co = 2 ∨ co = 3 ∨ co = 4 ∨ co = 5 ∨ co = 6 ∨ co = 7 := by omega
  rcases this with h | h | h | h | h | h | h | h <;> subst h <;> decide

/-! ### hit sounds -/

theorem soundTypeOf_lt (samples : List HitSampleInfo) : soundTypeOf samples < 16 := by
  unfold soundTypeOf
  have : ∀ (l : List HitSampleInfo) (acc : Nat), acc < 16 →
      l.foldl (fun acc s => match s.name with
        | .default .whistle => acc ||| 2 | .default .finish => acc ||| 4 | .default .clap => acc ||| 8 | _ => acc) acc < 16 := by
    intro l
    induction l with
    | nil => intro acc h; exact h
    | cons s rest ih =>
      intro acc h
      rw [List.foldl_cons]
      apply ih
      split
      · exact Nat.or_lt_two_pow (n := 4) h (by decide)
      · exact Nat.or_lt_two_pow (n := 4) h (by decide)
      · exact Nat.or_lt_two_pow (n := 4) h (by decide)
      · exact h
  exact this samples 0 (by decide)

theorem hitSound_parse (n : Nat) (h : n < 16) : HitSoundType.parse (showNat n) = some (n : Int) := by
  unfold HitSoundType.parse showNat
  rw [i32FromStr_decDigits n (by unfold i32Max; omega)]
  simp only [Option.some.injEq]
  omega

/-! ### the shape of a hit-object line -/

/-- characters of the numeric part of a line: number characters and the `:` of the bank string. -/
def FieldChars (s : Str) : Prop := ∀ c ∈ s, numChar c = true ∨ c = ':'

theorem fieldChars_intDigits (n : Int) : FieldChars (intDigits n) :=
  fun c hc => Or.inl (ZC.numChar_of_intDigits n c hc)
theorem fieldChars_decDigits (n : Nat) : FieldChars (decDigits n) := by
  intro c hc; rw [← intDigits_natCast] at hc; exact Or.inl (ZC.numChar_of_intDigits _ c hc)
theorem fieldChars_print {α : Type} [Scalar α] {R : α → Prop} (L : CodecLaws α R) {x : α} (hx : R x) :
    FieldChars (Scalar.print x) := fun c hc => Or.inl (L.print_clean x hx c hc)
theorem fieldChars_append {a b : Str} (ha : FieldChars a) (hb : FieldChars b) : FieldChars (a ++ b) := by
  intro c hc; rcases List.mem_append.mp hc with h | h
  · exact ha c h
  · exact hb c h
theorem fieldChars_colon : FieldChars [':'] := fun c hc => Or.inr (by simpa using hc)

/-- `normal:addition:custom:volume` (the bank string without the file name). -/
def bankPre (nb ab : SampleBank) (custom volume : Int) : Str :=
  showNat nb.idx ++ [':'] ++ showNat ab.idx ++ [':'] ++ showInt custom ++ [':'] ++ showInt volume

theorem bankStr_eq (nb ab : SampleBank) (c v : Int) (f : Str) : bankStr nb ab c v f = bankPre nb ab c v ++ ':' :: f := by
  simp [bankStr, bankPre, List.append_assoc]

theorem fieldChars_bankPre (nb ab : SampleBank) (c v : Int) : FieldChars (bankPre nb ab c v) := by
  unfold bankPre showNat showInt
  exact fieldChars_append (fieldChars_append (fieldChars_append (fieldChars_append (fieldChars_append (fieldChars_append
    (fieldChars_decDigits _) fieldChars_colon) (fieldChars_decDigits _)) fieldChars_colon) (fieldChars_intDigits _))
    fieldChars_colon) (fieldChars_intDigits _)

theorem fieldChar_facts {c : Char} (h : numChar c = true ∨ c = ':') :
    c ≠ '/' ∧ c ≠ ',' ∧ c ≠ '\n' ∧ c ≠ '[' ∧ isWs c = false := by
  rcases h with h | h
  · exact ⟨numChar_ne h _ (by decide), numChar_ne h _ (by decide), numChar_ne h _ (by decide), numChar_ne h _ (by decide),
      numChar_not_ws h⟩
  · subst h; exact ⟨by decide, by decide, by decide, by decide, by decide⟩

/-- **the shape of a hit-object line**: comma-joined numeric fields, the last of which ends in `:<file name>`.
Such a line has no line feed, is a record line, survives the reader's end-trim and the comment stripping, and splits
at the commas into exactly its fields. -/
theorem line_facts (c0 : Char) (r0 : Str) (init : List Str) (A f : Str)
    (h0 : FieldChars (c0 :: r0)) (hinit : ∀ s ∈ init, FieldChars s) (hA : FieldChars A) (hf : RepSampleFile f) :
    '\n' ∉ joinComma ((c0 :: r0) :: init ++ [A ++ ':' :: f]) ∧
    RecordLine (trimEnd (joinComma ((c0 :: r0) :: init ++ [A ++ ':' :: f]))) ∧
    trimComment (trimEnd (joinComma ((c0 :: r0) :: init ++ [A ++ ':' :: f]))) = joinComma ((c0 :: r0) :: init ++ [A ++ ':' :: f]) ∧
    splitOn ',' (joinComma ((c0 :: r0) :: init ++ [A ++ ':' :: f])) = (c0 :: r0) :: init ++ [A ++ ':' :: f] := by
  have hall : ∀ s ∈ (c0 :: r0) :: init ++ [A], FieldChars s := by
    intro s hs
    simp only [List.cons_append, List.mem_cons, List.mem_append, List.not_mem_nil, or_false] at hs
    rcases hs with hs | hs | hs
    · rw [hs]; exact h0
    · exact hinit s hs
    · rw [hs]; exact hA
  have hpre : ∀ c ∈ joinComma ((c0 :: r0) :: init ++ [A]), (numChar c = true ∨ c = ':') ∨ c = ',' :=
    joinComma_chars _ (fun c => (numChar c = true ∨ c = ':') ∨ c = ',') (Or.inr rfl) (fun s hs c hc => Or.inl (hall s hs c hc))
  have hpre_ne : ∀ d : Char, numChar d = false → d ≠ ':' → d ≠ ',' → d ∉ joinComma ((c0 :: r0) :: init ++ [A]) := by
    intro d h1 h2 h3 hm
    rcases hpre d hm with (h | h) | h
    · rw [h1] at h; cases h
    · exact h2 h
    · exact h3 h
  have hl : joinComma ((c0 :: r0) :: init ++ [A ++ ':' :: f]) = joinComma ((c0 :: r0) :: init ++ [A]) ++ ':' :: f := by
    have := joinComma_snoc_append ((c0 :: r0) :: init) A (':' :: f)
    simpa using this
  have htrim : trimEnd (joinComma ((c0 :: r0) :: init ++ [A ++ ':' :: f])) = joinComma ((c0 :: r0) :: init ++ [A ++ ':' :: f]) := by
    rw [hl, trimEnd_append_cons _ ':' f (by decide), hf.trimmed]
  have hds : hasDS (joinComma ((c0 :: r0) :: init ++ [A ++ ':' :: f])) = false := by
    rw [hl]
    exact hasDS_append_sep _ ':' f (hasDS_of_no_slash _ (hpre_ne '/' (by decide) (by decide) (by decide))) (by decide) hf.noDS
  refine ⟨?_, ?_, ?_, ?_⟩
  · rw [hl]
    intro hm
    rcases List.mem_append.mp hm with hm | hm
    · exact hpre_ne '\n' (by decide) (by decide) (by decide) hm
    · rcases List.mem_cons.mp hm with hm | hm
      · exact absurd hm (by decide)
      · exact hf.noLf hm
  · rw [htrim]
    have hc0 := fieldChar_facts (h0 c0 (by simp))
    have : joinComma ((c0 :: r0) :: init ++ [A ++ ':' :: f]) = c0 :: (r0 ++ (init ++ [A ++ ':' :: f]).flatMap (fun y => ',' :: y)) := by
      simp [joinComma]
    rw [this]
    exact recordLine_of_head c0 _ hc0.2.2.2.1 hc0.1 hc0.2.2.2.2
  · rw [htrim, trimComment_of_not_hasDS _ hds, htrim]
  · apply splitOn_joinComma _ _ (by simp)
    intro s hs
    simp only [List.cons_append, List.mem_cons, List.mem_append, List.not_mem_nil, or_false] at hs
    rcases hs with hs | hs | hs
    · rw [hs]; intro hm; exact (fieldChar_facts (h0 _ hm)).2.1 rfl
    · intro hm; exact (fieldChar_facts (hinit s hs _ hm)).2.1 rfl
    · rw [hs]
      intro hm
      rcases List.mem_append.mp hm with hm | hm
      · exact (fieldChar_facts (hA _ hm)).2.1 rfl
      · rcases List.mem_cons.mp hm with hm | hm
        · exact absurd hm (by decide)
        · exact hf.noComma hm

/-! ### the header -/

section
variable {F P : Type} [Scalar F] [Scalar P] [Cvt P F] {RF : F → Prop} {RP : P → Prop}

/-- within the coordinate limit ±131072 and not NaN, as `parse_with_limits` tests it. -/
def InCoord {α : Type} [Scalar α] (x : α) : Prop :=
  lt x (-(Scalar.ofInt maxCoordinate : α)) = false ∧ lt (Scalar.ofInt maxCoordinate : α) x = false ∧ isNaN x = false

theorem coordParse_print {α : Type} [Scalar α] {R : α → Prop} (L : CodecLaws α R) {x : α} (hx : R x) (hl : InCoord x) :
    floatParseWithLimits (Scalar.print x) (Scalar.ofInt maxCoordinate : α) = some x := by
  unfold floatParseWithLimits
  rw [L.trim_print hx, L.parse_print x hx]
  simp [hl.1, hl.2.1, hl.2.2]

/-- a coordinate the format carries: representable, within ±131072, and integral (`x as i32 as f32 = x`). -/
structure RepCoord (RP : P → Prop) (x : P) : Prop where
  rep : RP x
  lim : InCoord x
  integral : Scalar.ofInt (Scalar.toI32 x) = x

/-- the five leading fields. -/
def coreFields (x y : P) (t : F) (ty : Int) (snd : Nat) : List Str := [showP x, showP y, showF t, showInt ty, showNat snd]

/-- **the header parses back**: position (integral coordinates), start time, type and hit sound. -/
theorem parseHeader_core (LF : CodecLaws F RF) (LP : CodecLaws P RP) (line : Str) (x y : P) (t : F) (ty : Int) (snd : Nat)
    (rest : List Str) (hx : RepCoord RP x) (hy : RepCoord RP y) (ht : RF t ∧ InLimit t)
    (hty : i32Min ≤ ty ∧ ty ≤ i32Max) (hsnd : snd < 16)
    (hsplit : splitOn ',' (trimComment line) = coreFields x y t ty snd ++ rest) :
    (parseHeader line : Option (Header F P)) =
      some { pos := ⟨x, y⟩, startTime := t, ty0 := ty, soundType := (snd : Int), rest := rest } := by
  unfold parseHeader
  simp only [hsplit, coreFields, List.cons_append, List.nil_append, showP, showF, coordParse_print LP hx.rep hx.lim,
    coordParse_print LP hy.rep hy.lim, floatParse_print LF ht.1 ht.2, showInt, i32FromStr_intDigits ty hty.1 hty.2,
    hitSound_parse snd hsnd, hx.integral, hy.integral]

end

/-! ### whole lines -/

section
variable {F P : Type} [Scalar F] [Scalar P] [Cvt P F] [Trig F] [Trig P] {RF : F → Prop} {RP : P → Prop}

/-- the sample list of a hit object as far as the line carries it. -/
structure RepSamples (samples : List HitSampleInfo) (mode : GameMode) : Prop where
  custom : -i32Max ≤ customOf samples mode ∧ customOf samples mode ≤ i32Max
  volume : -i32Max ≤ volumeOf samples mode ∧ volumeOf samples mode ≤ i32Max
  file : RepSampleFile (fileNameOf samples)

/-- the bank info `read_custom_sample_banks` rebuilds from the line of an object with these samples. -/
def bankInfoFor (samples : List HitSampleInfo) (mode : GameMode) : SampleBankInfo :=
  bankInfoOf (normalBankOf samples) (addBankOf samples) (customOf samples mode) (volumeOf samples mode) (fileNameOf samples)

/-- the samples the decoder creates for the object: `convert_sound_type` of the rebuilt bank info and the hit-sound byte. -/
def decodedSamples (samples : List HitSampleInfo) (mode : GameMode) : List HitSampleInfo :=
  (bankInfoFor samples mode).convertSoundType (soundTypeOf samples : Nat)

theorem readExtras_bank (samples : List HitSampleInfo) (mode : GameMode) (hs : RepSamples samples mode) (more : List Str) :
    readExtras (getSampleBank samples false mode :: more) false = (bankInfoFor samples mode, true) := by
  unfold readExtras
  rw [getSampleBank_eq]
  exact read_bankStr _ _ _ _ _ hs.file.noColon hs.custom hs.volume

/-- the state after an accepted line: the object is appended and its masked type remembered. -/
def pushed (st : HOCore F P) (masked : Int) (t : F) (k : HitObjectKind F P) (samples : List HitSampleInfo) : HOCore F P :=
  { st with lastObject := some masked, hitObjects := st.hitObjects ++ [⟨t, k, samples⟩] }

/-- the line of a circle (without the terminator). -/
def circleLine (mode : GameMode) (h : HitObject F P) (c : HitObjectCircle P) : Str :=
  joinComma (coreFields c.pos.x c.pos.y h.startTime (objectTypeOf h) (soundTypeOf h.samples) ++ [getSampleBank h.samples false mode])

theorem encodeObject_circle (mode : GameMode) (h : HitObject F P) (c : HitObjectCircle P) (hk : h.kind = .circle c) :
    encodeObject mode h = .ok (circleLine mode h c ++ EncodeLines.nl) := by
  unfold encodeObject
  simp only [hk, bind, Except.bind, pure, Except.pure, circleLine, coreFields, joinComma, List.cons_append, List.nil_append,
    List.flatMap_cons, List.flatMap_nil, List.append_assoc, List.append_nil, Encode.nl, EncodeLines.nl]

/-- a circle the line format carries. -/
structure RepCircle (RF : F → Prop) (RP : P → Prop) (mode : GameMode) (h : HitObject F P) (c : HitObjectCircle P) : Prop where
  x : RepCoord RP c.pos.x
  y : RepCoord RP c.pos.y
  time : RF h.startTime ∧ InLimit h.startTime
  comboOffset : 0 ≤ c.comboOffset ∧ c.comboOffset < 8
  samples : RepSamples h.samples mode

theorem circle_line_shape (LF : CodecLaws F RF) (LP : CodecLaws P RP) (mode : GameMode) (h : HitObject F P) (c : HitObjectCircle P)
    (hr : RepCircle RF RP mode h c) :
    '\n' ∉ circleLine mode h c ∧ RecordLine (trimEnd (circleLine mode h c)) ∧
    trimComment (trimEnd (circleLine mode h c)) = circleLine mode h c ∧
    splitOn ',' (circleLine mode h c) =
      coreFields c.pos.x c.pos.y h.startTime (objectTypeOf h) (soundTypeOf h.samples) ++ [getSampleBank h.samples false mode] := by
  obtain ⟨c0, r0, hx0, _⟩ := LP.head hr.x.rep
  have e : circleLine mode h c = joinComma ((c0 :: r0) :: [showP c.pos.y, showF h.startTime, showInt (objectTypeOf h),
      showNat (soundTypeOf h.samples)] ++ [bankPre (normalBankOf h.samples) (addBankOf h.samples) (customOf h.samples mode)
        (volumeOf h.samples mode) ++ ':' :: fileNameOf h.samples]) := by
    unfold circleLine coreFields
    rw [getSampleBank_eq, bankStr_eq, showP, hx0]
  have e2 : coreFields c.pos.x c.pos.y h.startTime (objectTypeOf h) (soundTypeOf h.samples) ++ [getSampleBank h.samples false mode] =
      (c0 :: r0) :: [showP c.pos.y, showF h.startTime, showInt (objectTypeOf h), showNat (soundTypeOf h.samples)] ++
        [bankPre (normalBankOf h.samples) (addBankOf h.samples) (customOf h.samples mode) (volumeOf h.samples mode) ++ ':' :: fileNameOf h.samples] := by
    unfold coreFields
    rw [getSampleBank_eq, bankStr_eq, showP, hx0]
  rw [e, e2]
  apply line_facts c0 r0 _ _ _ (by rw [← hx0]; exact fieldChars_print LP hr.x.rep) _ (fieldChars_bankPre _ _ _ _) hr.samples.file
  intro s hs
  simp only [List.mem_cons, List.not_mem_nil, or_false] at hs
  rcases hs with hs | hs | hs | hs <;> rw [hs]
  · exact fieldChars_print LP hr.y.rep
  · exact fieldChars_print LF hr.time.1
  · exact fieldChars_intDigits _
  · exact fieldChars_decDigits _

/-- **circle_line_roundtrip** (C04 + C02 for one circle line, under the codec laws): the line `encode_hit_objects`
writes for a circle is LF-free, a record line, accepted by `parse_hit_objects` in any state, and the object pushed
is a circle at the same start time and position, with the same combo offset (when it starts a combo), the
`new_combo` flag or-ed with the decoder's forcing rule, and the samples `convert_sound_type` derives from the same
hit-sound byte and the same bank info. -/
theorem circle_line_roundtrip (LF : CodecLaws F RF) (LP : CodecLaws P RP) (mode : GameMode) (h : HitObject F P)
    (c : HitObjectCircle P) (hk : h.kind = .circle c) (hr : RepCircle RF RP mode h c) (st : HOCore F P) :
    encodeObject mode h = .ok (circleLine mode h c ++ EncodeLines.nl) ∧ '\n' ∉ circleLine mode h c ∧
    RecordLine (trimEnd (circleLine mode h c)) ∧
    parseHitObjectLine mode st (trimEnd (circleLine mode h c)) =
      (pushed st 1 h.startTime
        (.circle ⟨c.pos, st.lastObject.isNone || lastWasSpinner st || c.newCombo, if c.newCombo then c.comboOffset else 0⟩)
        (decodedSamples h.samples mode), true) := by
  obtain ⟨h1, h2, h3, h4⟩ := circle_line_shape LF LP mode h c hr
  refine ⟨encodeObject_circle mode h c hk, h1, h2, ?_⟩
  have hty : objectTypeOf h = orBits (orBits (wrapI32 (c.comboOffset * 16)) (if c.newCombo then 4 else 0)) 1 := by
    unfold objectTypeOf; rw [hk]
  obtain ⟨b1, b2, b3, b4, b5, b6⟩ := circle_type_bits c.comboOffset (mem_range8 _ hr.comboOffset.1 hr.comboOffset.2) c.newCombo
  rw [← hty] at b1 b2 b3 b4 b5 b6
  have hd := parseHeader_core LF LP (trimEnd (circleLine mode h c)) c.pos.x c.pos.y h.startTime (objectTypeOf h)
    (soundTypeOf h.samples) [getSampleBank h.samples false mode] hr.x hr.y hr.time ⟨b1, b2⟩ (soundTypeOf_lt _) (by rw [h3, h4])
  unfold parseHitObjectLine
  rw [hd]
  simp only [buildCircle, readExtras_bank h.samples mode hr.samples, pushObject, b4, forcedNewCombo, storedComboOffset, b5, b6,
    decodedSamples, pushed]
  obtain ⟨px, py⟩ := c.pos
  rfl

/-! ### spinners -/

def spinnerLine (mode : GameMode) (h : HitObject F P) (sp : HitObjectSpinner F P) : Str :=
  joinComma (coreFields sp.pos.x sp.pos.y h.startTime (objectTypeOf h) (soundTypeOf h.samples) ++
    [showF (h.startTime + sp.duration), getSampleBank h.samples false mode])

theorem encodeObject_spinner (mode : GameMode) (h : HitObject F P) (sp : HitObjectSpinner F P) (hk : h.kind = .spinner sp) :
    encodeObject mode h = .ok (spinnerLine mode h sp ++ EncodeLines.nl) := by
  unfold encodeObject
  simp only [hk, bind, Except.bind, pure, Except.pure, spinnerLine, coreFields, joinComma, List.cons_append, List.nil_append,
    List.flatMap_cons, List.flatMap_nil, List.append_assoc, List.append_nil, Encode.nl, EncodeLines.nl]

/-- a spinner the line format carries: the end time `start + duration` is written, the duration is recovered as
`max(end − start, 0)` — an arithmetic inverse, taken as a hypothesis on the two values. -/
structure RepSpinner (RF : F → Prop) (RP : P → Prop) (mode : GameMode) (h : HitObject F P) (sp : HitObjectSpinner F P) : Prop where
  x : RepCoord RP sp.pos.x
  y : RepCoord RP sp.pos.y
  time : RF h.startTime ∧ InLimit h.startTime
  stop : RF (h.startTime + sp.duration) ∧ InLimit (h.startTime + sp.duration)
  duration : Scalar.max ((h.startTime + sp.duration) - h.startTime) 0 = sp.duration
  samples : RepSamples h.samples mode

theorem spinner_line_shape (LF : CodecLaws F RF) (LP : CodecLaws P RP) (mode : GameMode) (h : HitObject F P) (sp : HitObjectSpinner F P)
    (hr : RepSpinner RF RP mode h sp) :
    '\n' ∉ spinnerLine mode h sp ∧ RecordLine (trimEnd (spinnerLine mode h sp)) ∧
    trimComment (trimEnd (spinnerLine mode h sp)) = spinnerLine mode h sp ∧
    splitOn ',' (spinnerLine mode h sp) =
      coreFields sp.pos.x sp.pos.y h.startTime (objectTypeOf h) (soundTypeOf h.samples) ++
        [showF (h.startTime + sp.duration), getSampleBank h.samples false mode] := by
  obtain ⟨c0, r0, hx0, _⟩ := LP.head hr.x.rep
  have e2 : coreFields sp.pos.x sp.pos.y h.startTime (objectTypeOf h) (soundTypeOf h.samples) ++
        [showF (h.startTime + sp.duration), getSampleBank h.samples false mode] =
      (c0 :: r0) :: [showP sp.pos.y, showF h.startTime, showInt (objectTypeOf h), showNat (soundTypeOf h.samples),
        showF (h.startTime + sp.duration)] ++
        [bankPre (normalBankOf h.samples) (addBankOf h.samples) (customOf h.samples mode) (volumeOf h.samples mode) ++ ':' :: fileNameOf h.samples] := by
    unfold coreFields
    rw [getSampleBank_eq, bankStr_eq, showP, hx0]
    rfl
  unfold spinnerLine
  rw [e2]
  apply line_facts c0 r0 _ _ _ (by rw [← hx0]; exact fieldChars_print LP hr.x.rep) _ (fieldChars_bankPre _ _ _ _) hr.samples.file
  intro s hs
  simp only [List.mem_cons, List.not_mem_nil, or_false] at hs
  rcases hs with hs | hs | hs | hs | hs <;> rw [hs]
  · exact fieldChars_print LP hr.y.rep
  · exact fieldChars_print LF hr.time.1
  · exact fieldChars_intDigits _
  · exact fieldChars_decDigits _
  · exact fieldChars_print LF hr.stop.1

/-- **spinner_line_roundtrip**: the line written for a spinner is LF-free, a record line, accepted in any state, and
the object pushed is a spinner at the same start time with the same duration and `new_combo` flag (the position of a
spinner is not read: it is always the centre of the playfield). -/
theorem spinner_line_roundtrip (LF : CodecLaws F RF) (LP : CodecLaws P RP) (mode : GameMode) (h : HitObject F P)
    (sp : HitObjectSpinner F P) (hk : h.kind = .spinner sp) (hr : RepSpinner RF RP mode h sp) (st : HOCore F P) :
    encodeObject mode h = .ok (spinnerLine mode h sp ++ EncodeLines.nl) ∧ '\n' ∉ spinnerLine mode h sp ∧
    RecordLine (trimEnd (spinnerLine mode h sp)) ∧
    parseHitObjectLine mode st (trimEnd (spinnerLine mode h sp)) =
      (pushed st 8 h.startTime (.spinner ⟨⟨(512 : P) / 2, (384 : P) / 2⟩, sp.duration, sp.newCombo⟩)
        (decodedSamples h.samples mode), true) := by
  obtain ⟨h1, h2, h3, h4⟩ := spinner_line_shape LF LP mode h sp hr
  refine ⟨encodeObject_spinner mode h sp hk, h1, h2, ?_⟩
  have hty : objectTypeOf h = orBits (if sp.newCombo then 4 else 0) 8 := by
    unfold objectTypeOf; rw [hk]
  obtain ⟨b1, b2, b3, b4, b5⟩ := spinner_type_bits sp.newCombo
  rw [← hty] at b1 b2 b3 b4 b5
  have hd := parseHeader_core LF LP (trimEnd (spinnerLine mode h sp)) sp.pos.x sp.pos.y h.startTime (objectTypeOf h)
    (soundTypeOf h.samples) [showF (h.startTime + sp.duration), getSampleBank h.samples false mode] hr.x hr.y hr.time ⟨b1, b2⟩
    (soundTypeOf_lt _) (by rw [h3, h4])
  unfold parseHitObjectLine
  rw [hd]
  simp only [buildSpinner, showF, floatParse_print LF hr.stop.1 hr.stop.2, readExtras_bank h.samples mode hr.samples, pushObject,
    b4, b5, decodedSamples, pushed, hr.duration, show classify 8 = some ObjClass.spinner from by decide]

/-! ### hold notes -/

def holdLine (mode : GameMode) (h : HitObject F P) (ho : HitObjectHold F P) : Str :=
  joinComma (coreFields ho.posX (192 : P) h.startTime (objectTypeOf h) (soundTypeOf h.samples) ++
    [showF (h.startTime + ho.duration) ++ ':' :: getSampleBank h.samples false mode])

theorem encodeObject_hold (mode : GameMode) (h : HitObject F P) (ho : HitObjectHold F P) (hk : h.kind = .hold ho) :
    encodeObject mode h = .ok (holdLine mode h ho ++ EncodeLines.nl) := by
  unfold encodeObject
  simp only [hk, bind, Except.bind, pure, Except.pure, holdLine, coreFields, joinComma, List.cons_append, List.nil_append,
    List.flatMap_cons, List.flatMap_nil, List.append_assoc, List.append_nil, Encode.nl, EncodeLines.nl]

/-- a hold note the line format carries: the column coordinate, the (constant) row 192, and the end time
`start + duration`, from which the duration is recovered as `max(start, end) − start`. -/
structure RepHold (RF : F → Prop) (RP : P → Prop) (mode : GameMode) (h : HitObject F P) (ho : HitObjectHold F P) : Prop where
  x : RepCoord RP ho.posX
  y : RepCoord RP (192 : P)
  time : RF h.startTime ∧ InLimit h.startTime
  stop : RF (h.startTime + ho.duration) ∧ InLimit (h.startTime + ho.duration)
  duration : Scalar.max h.startTime (h.startTime + ho.duration) - h.startTime = ho.duration
  samples : RepSamples h.samples mode

theorem hold_line_shape (LF : CodecLaws F RF) (LP : CodecLaws P RP) (mode : GameMode) (h : HitObject F P) (ho : HitObjectHold F P)
    (hr : RepHold RF RP mode h ho) :
    '\n' ∉ holdLine mode h ho ∧ RecordLine (trimEnd (holdLine mode h ho)) ∧
    trimComment (trimEnd (holdLine mode h ho)) = holdLine mode h ho ∧
    splitOn ',' (holdLine mode h ho) =
      coreFields ho.posX (192 : P) h.startTime (objectTypeOf h) (soundTypeOf h.samples) ++
        [showF (h.startTime + ho.duration) ++ ':' :: getSampleBank h.samples false mode] := by
  obtain ⟨c0, r0, hx0, _⟩ := LP.head hr.x.rep
  have e2 : coreFields ho.posX (192 : P) h.startTime (objectTypeOf h) (soundTypeOf h.samples) ++
        [showF (h.startTime + ho.duration) ++ ':' :: getSampleBank h.samples false mode] =
      (c0 :: r0) :: [showP (192 : P), showF h.startTime, showInt (objectTypeOf h), showNat (soundTypeOf h.samples)] ++
        [(showF (h.startTime + ho.duration) ++ ':' :: bankPre (normalBankOf h.samples) (addBankOf h.samples) (customOf h.samples mode)
          (volumeOf h.samples mode)) ++ ':' :: fileNameOf h.samples] := by
    unfold coreFields
    rw [getSampleBank_eq, bankStr_eq, showP, hx0]
    simp [List.append_assoc]
  unfold holdLine
  rw [e2]
  apply line_facts c0 r0 _ _ _ (by rw [← hx0]; exact fieldChars_print LP hr.x.rep) _
    (fieldChars_append (fieldChars_print LF hr.stop.1) (by
      intro c hc
      rcases List.mem_cons.mp hc with hc | hc
      · exact Or.inr hc
      · exact fieldChars_bankPre _ _ _ _ c hc)) hr.samples.file
  intro s hs
  simp only [List.mem_cons, List.not_mem_nil, or_false] at hs
  rcases hs with hs | hs | hs | hs <;> rw [hs]
  · exact fieldChars_print LP hr.y.rep
  · exact fieldChars_print LF hr.time.1
  · exact fieldChars_intDigits _
  · exact fieldChars_decDigits _

/-- **hold_line_roundtrip**: the line written for a hold note is LF-free, a record line, accepted in any state, and
the object pushed is a hold at the same start time, column coordinate and duration. -/
theorem hold_line_roundtrip (LF : CodecLaws F RF) (LP : CodecLaws P RP) (mode : GameMode) (h : HitObject F P)
    (ho : HitObjectHold F P) (hk : h.kind = .hold ho) (hr : RepHold RF RP mode h ho) (st : HOCore F P) :
    encodeObject mode h = .ok (holdLine mode h ho ++ EncodeLines.nl) ∧ '\n' ∉ holdLine mode h ho ∧
    RecordLine (trimEnd (holdLine mode h ho)) ∧
    parseHitObjectLine mode st (trimEnd (holdLine mode h ho)) =
      (pushed st 128 h.startTime (.hold ⟨ho.posX, ho.duration⟩) (decodedSamples h.samples mode), true) := by
  obtain ⟨h1, h2, h3, h4⟩ := hold_line_shape LF LP mode h ho hr
  refine ⟨encodeObject_hold mode h ho hk, h1, h2, ?_⟩
  have hty : objectTypeOf h = 128 := by unfold objectTypeOf; rw [hk]
  have hd := parseHeader_core LF LP (trimEnd (holdLine mode h ho)) ho.posX (192 : P) h.startTime (objectTypeOf h)
    (soundTypeOf h.samples) [showF (h.startTime + ho.duration) ++ ':' :: getSampleBank h.samples false mode] hr.x hr.y hr.time
    (by rw [hty]; decide) (soundTypeOf_lt _) (by rw [h3, h4])
  have hsplit : splitOn ':' (showF (h.startTime + ho.duration) ++ ':' :: getSampleBank h.samples false mode) =
      showF (h.startTime + ho.duration) :: splitOn ':' (getSampleBank h.samples false mode) :=
    splitOn_append_sep ':' _ _ (LF.not_mem hr.stop.1 ':' (by decide))
  have hne : (showF (h.startTime + ho.duration) ++ ':' :: getSampleBank h.samples false mode).isEmpty = false := by
    cases hp : showF (h.startTime + ho.duration) <;> simp
  have hread : ({} : SampleBankInfo).readCustomSampleBanks (splitOn ':' (getSampleBank h.samples false mode)) false =
      (bankInfoFor h.samples mode, true) := by
    rw [getSampleBank_eq]
    exact read_bankStr _ _ _ _ _ hr.samples.file.noColon hr.samples.custom hr.samples.volume
  simp only [showF] at hsplit hne
  unfold parseHitObjectLine
  rw [hd, hty]
  simp only [buildHold, List.head?_cons, optNonEmpty, hne, Bool.false_eq_true, if_false, hsplit, showF,
    floatParse_print LF hr.stop.1 hr.stop.2, hread, pushObject, hold_type_bits.2, decodedSamples, pushed, hr.duration,
    show classify 128 = some ObjClass.hold from by decide]

/-! ### sample names and banks through `convert_sound_type` -/

/-- the part of a sample the format carries: its name and bank. -/
def nameBank (s : HitSampleInfo) : HitSampleInfoName × SampleBank := (s.name, s.bank)

/-- an optional addition sample. -/
def optS (b : Bool) (s : HitSampleInfo) : List HitSampleInfo := if b then [s] else []

/-- **sample names and banks come back** — lists as the decoder builds them: a `Normal` sample with a specified bank,
then the additions finish / whistle / clap (any subset, in this order) sharing one specified addition bank. -/
theorem decoded_names_banks_default (mode : GameMode) (first sF sW sC : HitSampleInfo) (fi wh cl : Bool) (nb ab : SampleBank)
    (h1 : first.name = .default .normal) (h1b : first.bank = nb) (hnb : nb ≠ .none) (hab : ab ≠ .none)
    (hF : sF.name = .default .finish) (hFb : sF.bank = ab) (hW : sW.name = .default .whistle) (hWb : sW.bank = ab)
    (hC : sC.name = .default .clap) (hCb : sC.bank = ab) :
    (decodedSamples (first :: (optS fi sF ++ optS wh sW ++ optS cl sC)) mode).map nameBank =
      (first :: (optS fi sF ++ optS wh sW ++ optS cl sC)).map nameBank := by
  have hnb' : (nb == SampleBank.none) = false := by simpa using hnb
  have hab' : (ab == SampleBank.none) = false := by simpa using hab
  cases fi <;> cases wh <;> cases cl <;>
    simp (decide := true) [decodedSamples, bankInfoFor, bankInfoOf, normalBankOf, addBankOf, fileNameOf, soundTypeOf, optS,
      List.find?, h1, hF, hW, hC, h1b, hFb, hWb, hCb, SampleBankInfo.convertSoundType, HitSampleInfo.new, nameBank,
      someUnlessNone, hnb', hab', testBit, sndFinish, sndWhistle, sndClap, sndNormal]

/-- … and lists whose first sample is a custom file (non-empty name; its bank is always `Normal`). -/
theorem decoded_names_banks_file (mode : GameMode) (first sF sW sC : HitSampleInfo) (fi wh cl : Bool) (f : Str) (ab : SampleBank)
    (h1 : first.name = .file f) (hf : f.isEmpty = false) (h1b : first.bank = SampleBank.normal) (hab : ab ≠ .none)
    (hF : sF.name = .default .finish) (hFb : sF.bank = ab) (hW : sW.name = .default .whistle) (hWb : sW.bank = ab)
    (hC : sC.name = .default .clap) (hCb : sC.bank = ab) :
    (decodedSamples (first :: (optS fi sF ++ optS wh sW ++ optS cl sC)) mode).map nameBank =
      (first :: (optS fi sF ++ optS wh sW ++ optS cl sC)).map nameBank := by
  have hab' : (ab == SampleBank.none) = false := by simpa using hab
  cases fi <;> cases wh <;> cases cl <;>
    simp (decide := true) [decodedSamples, bankInfoFor, bankInfoOf, normalBankOf, addBankOf, fileNameOf, soundTypeOf, optS,
      List.find?, h1, hF, hW, hC, h1b, hFb, hWb, hCb, hf, SampleBankInfo.convertSoundType, HitSampleInfo.new, nameBank,
      someUnlessNone, hab', testBit, sndFinish, sndWhistle, sndClap]

/-! ### non-vacuity (toy codec) -/

instance {α : Type} [Scalar α] (x : α) : Decidable (InCoord x) := by unfold InCoord; infer_instance

def sampleSamples : List HitSampleInfo :=
  [HitSampleInfo.new (.default .normal) (some .soft) 0 0, HitSampleInfo.new (.default .whistle) (some .drum) 0 0]

theorem sampleSamples_rep (mode : GameMode) : RepSamples sampleSamples mode := by
  refine ⟨?_, ?_, ⟨by decide, by decide, by decide, by decide, by decide, by decide⟩⟩ <;> cases mode <;> decide

def sampleCircle : HitObjectCircle ZC := ⟨⟨⟨256⟩, ⟨-192⟩⟩, true, 3⟩
def sampleCircleObj : HitObject ZC ZC := ⟨⟨1000⟩, .circle sampleCircle, sampleSamples⟩

theorem sampleCircle_rep : RepCircle ZC.Rep ZC.Rep GameMode.osu sampleCircleObj sampleCircle :=
  ⟨⟨by decide, by decide, rfl⟩, ⟨by decide, by decide, rfl⟩, ⟨by decide, by decide⟩, by decide, sampleSamples_rep _⟩

example : circleLine GameMode.osu sampleCircleObj sampleCircle = str "256,-192,1000,53,2,2:3:0:0:" := by decide

example (st : HOCore ZC ZC) :
    parseHitObjectLine GameMode.osu st (trimEnd (circleLine GameMode.osu sampleCircleObj sampleCircle)) =
      (pushed st 1 ⟨1000⟩ (.circle ⟨⟨⟨256⟩, ⟨-192⟩⟩, st.lastObject.isNone || lastWasSpinner st || true, 3⟩)
        (decodedSamples sampleSamples GameMode.osu), true) :=
  (circle_line_roundtrip ZC.laws ZC.laws GameMode.osu sampleCircleObj sampleCircle rfl sampleCircle_rep st).2.2.2

def sampleSpinner : HitObjectSpinner ZC ZC := ⟨⟨⟨256⟩, ⟨192⟩⟩, ⟨500⟩, false⟩
def sampleSpinnerObj : HitObject ZC ZC := ⟨⟨1000⟩, .spinner sampleSpinner, sampleSamples⟩

theorem sampleSpinner_rep : RepSpinner ZC.Rep ZC.Rep GameMode.osu sampleSpinnerObj sampleSpinner :=
  ⟨⟨by decide, by decide, rfl⟩, ⟨by decide, by decide, rfl⟩, ⟨by decide, by decide⟩, ⟨by decide, by decide⟩, by decide,
   sampleSamples_rep _⟩

example : spinnerLine GameMode.osu sampleSpinnerObj sampleSpinner = str "256,192,1000,8,2,1500,2:3:0:0:" := by decide

def sampleHold : HitObjectHold ZC ZC := ⟨⟨64⟩, ⟨250⟩⟩
def sampleHoldObj : HitObject ZC ZC := ⟨⟨1000⟩, .hold sampleHold, sampleSamples⟩

theorem sampleHold_rep : RepHold ZC.Rep ZC.Rep GameMode.mania sampleHoldObj sampleHold :=
  ⟨⟨by decide, by decide, rfl⟩, ⟨by decide, by decide, rfl⟩, ⟨by decide, by decide⟩, ⟨by decide, by decide⟩, by decide,
   sampleSamples_rep _⟩

example : holdLine GameMode.mania sampleHoldObj sampleHold = str "64,192,1000,128,2,1250:2:3:0:0:" := by decide

end

example : (decodedSamples sampleSamples GameMode.osu).map nameBank = sampleSamples.map nameBank := by decide

end RtObjects
end Rosu
