/-
  Lemmas/FloatDivAnti.lean — **IEEE division of a negative number is monotone in a positive DENOMINATOR** (the companion of
  `FAM.div_mono`, which is monotone in the numerator): for finite `a < 0` and `0 < c ≤ d`, `a / c ≤ a / d` — after rounding,
  with underflow. From `rwa_mono` (Lemmas/FloatRoundMono.lean), which compares quotients with DIFFERENT denominators.
  Used for the inherited beat length `−100 / v` of a slider velocity `v` in its clamp range (Props/C04DecodedTimingIeee.lean).
-/
import RosuModel.Lemmas.FloatArithMono
namespace Rosu.FAM
open Float.Model Float.Model.UnpackedFloat Rosu.FMR Rosu.FRM

/-- the exact quotients of one numerator by two ordered denominators are ordered the other way. -/
theorem valLE_div_den {mc md : Nat} {ec ed : Int} (h : ValLE mc ec md ed) (spec : Format) (m : Nat) (e : Int) :
    QLE (divN spec m e md ed) md (divT spec m e md ed) (divN spec m e mc ec) mc (divT spec m e mc ec)
      (min (divT spec m e md ed) (divT spec m e mc ec)) := by
  unfold ValLE at h
  unfold QLE divN
  have hd := divT_le spec m md e ed
  have hc := divT_le spec m mc e ec
  generalize divT spec m e md ed = td at *
  generalize divT spec m e mc ec = tc at *
  obtain ⟨G, hG⟩ : ∃ G : Nat, (G : Int) = e - max ec ed - min td tc := ⟨(e - max ec ed - min td tc).toNat, by omega⟩
  have e1 : 2 ^ (e - ed - td).toNat * 2 ^ (td - min td tc).toNat = 2 ^ (ec - min ec ed).toNat * 2 ^ G := by
    rw [← Nat.pow_add, ← Nat.pow_add]; congr 1; omega
  have e2 : 2 ^ (e - ec - tc).toNat * 2 ^ (tc - min td tc).toNat = 2 ^ (ed - min ec ed).toNat * 2 ^ G := by
    rw [← Nat.pow_add, ← Nat.pow_add]; congr 1; omega
  calc m * 2 ^ (e - ed - td).toNat * mc * 2 ^ (td - min td tc).toNat
      = mc * (2 ^ (e - ed - td).toNat * 2 ^ (td - min td tc).toNat) * m := by ac_rfl
    _ = mc * 2 ^ (ec - min ec ed).toNat * (2 ^ G * m) := by rw [e1]; ac_rfl
    _ ≤ md * 2 ^ (ed - min ec ed).toNat * (2 ^ G * m) := Nat.mul_le_mul_right _ h
    _ = md * (2 ^ (e - ec - tc).toNat * 2 ^ (tc - min td tc).toNat) * m := by rw [e2]; ac_rfl
    _ = m * 2 ^ (e - ec - tc).toNat * md * 2 ^ (tc - min td tc).toNat := by ac_rfl

/-- **a finite negative number divided by a larger positive number is larger** (unpacked level, before packing). -/
theorem div_anti_neg (spec : Format) (m : Nat) (e : Int) (hm) (c d : UnpackedFloat) (hc : Canon spec c) (hd : Canon spec d)
    (hc0 : (UnpackedFloat.zero .positive).lt c = true) (hcd : c.le d = true) :
    (UnpackedFloat.div spec (.finite .negative m e hm) c).le (UnpackedFloat.div spec (.finite .negative m e hm) d) = true := by
  rcases pos_cases c hc0 with ⟨mc, ec, hmc, rfl⟩ | rfl
  · cases leKind_of_le hcd with
    | posInf a ha' =>
      have : UnpackedFloat.div spec (.finite .negative m e hm) (.infinity .positive) = .zero .negative := rfl
      rw [this]
      exact le_of_nonpos_nonneg (v := .zero _) (div_fin_pos_shape spec .negative m mc e ec hm hmc).2.nonpos trivial
    | posPos _ _ _ md ed hmd hl =>
      rw [(div_fin_pos_shape spec .negative m mc e ec hm hmc).1, (div_fin_pos_shape spec .negative m md e ed hm hmd).1]
      exact rwa_mono spec .negative _ md _ mc _ _ _ hmd hmc (Int.min_le_left _ _) (Int.min_le_right _ _)
        (valLE_div_den ((lexLE_iff_valLE hc hd).mp hl) spec m e)
        (div_tgt_ge spec m md e ed hm hmd) (div_tgt_ge spec m mc e ec hm hmc)
  · cases leKind_of_le hcd with
    | posInf a ha' => rfl

/-- **binary64**: for a finite `a < 0` and `0 < c ≤ d`, `a / c ≤ a / d`. -/
theorem div_le_div_left_neg_float (a c d : Float) (ha : FMO.isFiniteNonzero a.toModel.unpack = true)
    (ha0 : Scalar.lt a (0 : Float) = true) (hc : Scalar.lt (0 : Float) c = true) (hcd : Scalar.le c d = true) :
    Scalar.le (a / c) (a / d) = true := by
  rw [FMO.le_float] at hcd ⊢
  rw [FMO.lt_float, float_zero_unpack] at hc ha0
  have cc := float_canon c
  have cd := float_canon d
  have c1 := div_canon Format.binary64 a.toModel.unpack c.toModel.unpack
  have c2 := div_canon Format.binary64 a.toModel.unpack d.toModel.unpack
  rw [float_div_unpack, float_div_unpack]
  refine repack_mono _ (by decide) _ _ c1 c2 ?_
  revert ha ha0 c1 c2
  generalize a.toModel.unpack = u
  intro ha ha0 c1 c2
  match u, ha, ha0 with
  | .finite .negative m e hm, _, _ => exact div_anti_neg _ m e hm _ _ cc cd hc hcd

end Rosu.FAM
