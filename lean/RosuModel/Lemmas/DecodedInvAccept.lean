/-
  Lemmas/DecodedInvAccept.lean — ACCEPTANCE does not need the F16 exclusion. A file name containing `//` breaks the round
  trip (the name is cut at the `//` when read back) but not acceptance: the `AudioFilename` line is cut inside its value
  and is still an accepted `AudioFilename` record; the background line `0,0,"a//b",0,0` is cut inside the quoted name
  and still has three comma fields with event type `0`. So for the `[General]` and `[Events]` blocks of a decoded map
  every written line is LF-free, a record line and accepted under `DecInv` + representability of the floats alone.
-/
import RosuModel.Lemmas.DecodedInvFrame
namespace Rosu
namespace DecodedInv
open Rosu Encode EncodeLines Scalar C11
set_option linter.unusedSectionVars false

/-! ### `trim_comment` on a line whose head cannot take part in a `//` -/

theorem beforeDoubleSlash_cons_of_ne (x : Char) (t : Str) (hx : x ≠ '/') :
    beforeDoubleSlash (x :: t) = x :: beforeDoubleSlash t := by
  cases t with
  | nil => rfl
  | cons y r =>
    have : (x == '/') = false := by simpa using hx
    simp [beforeDoubleSlash, this]

theorem beforeDoubleSlash_append (a b : Str) (ha : '/' ∉ a) : beforeDoubleSlash (a ++ b) = a ++ beforeDoubleSlash b := by
  induction a with
  | nil => rfl
  | cons x xs ih =>
    rw [List.cons_append, beforeDoubleSlash_cons_of_ne x _ (fun e => ha (by simp [e])), ih (fun e => ha (by simp [e]))]
    rfl

/-- a line `a ++ c :: b` with a slash-free `a` and a visible non-slash `c`: the comment cut happens inside `b`. -/
theorem trimComment_append_cons (a : Str) (c : Char) (b : Str) (ha : '/' ∉ a) (hc : c ≠ '/') (hw : isWs c = false) :
    trimComment (a ++ c :: b) = a ++ c :: trimEnd (beforeDoubleSlash b) := by
  unfold trimComment
  rw [beforeDoubleSlash_append a _ ha, beforeDoubleSlash_cons_of_ne c b hc, trimEnd_append_cons a c _ hw]

/-! ### [General]: the `AudioFilename` line of ANY self-trimmed name is an accepted record line -/

section
variable {F P : Type} [Scalar F] [Scalar P]

theorem audioFilename_line_accepted (st : GeneralState F P) (n : Str) (hn : trim n = n) :
    (parseGeneral st (trimEnd (kvl (str "AudioFilename") n))).1 = .ok () := by
  have hkey : (kvSplit (trimComment (trimEnd (kvl (str "AudioFilename") n)))).1 = str "AudioFilename" := by
    rw [trimEnd_kvl _ _ hn, trimComment_append_cons _ ':' _ (by decide) (by decide) (by decide),
      value_is_after_first_colon _ _ (by decide)]
    show trim (str "AudioFilename") = str "AudioFilename"
    decide
  unfold parseGeneral
  simp only [hkey, show GeneralKey.parse (str "AudioFilename") = some .audioFilename from by decide]

/-- the `[General]` lines of `g` are the `AudioFilename` line followed by lines that do not depend on the file name. -/
theorem generalLines_split (g : GeneralState F P) (ss : SampleBank) :
    RtGeneral.generalLines g ss =
      kvl (str "AudioFilename") g.audioFile :: (RtGeneral.generalLines { g with audioFile := [] } ss).tail := rfl

variable {RP : P → Prop}

theorem repGeneral_blank (g : GeneralState F P) (h : DecInvGeneral g) (hr : RP g.stackLeniency) :
    RtGeneral.RepGeneral RP { g with audioFile := [] } :=
  ⟨⟨rfl, List.not_mem_nil, rfl, List.not_mem_nil⟩, h.audioLeadIn, h.previewTime, ⟨hr, h.stackLeniency⟩, h.countdownOffset.2⟩

/-- **[General] acceptance without the F16 exclusion.** -/
theorem general_lines_accepted_dec (LI : IntPrintLaw F) (LP : CodecLaws P RP) (g : GeneralState F P) (ss : SampleBank)
    (h : DecInvGeneral g) (hr : RP g.stackLeniency) :
    ∀ r ∈ RtGeneral.decodedLines g ss, RecordLine r ∧ ∀ st : GeneralState F P, (parseGeneral st r).1 = .ok () := by
  intro r hr'
  unfold RtGeneral.decodedLines at hr'
  rw [generalLines_split, List.map_cons, List.mem_cons] at hr'
  rcases hr' with hr' | hr'
  · subst hr'
    exact ⟨recordLine_kvl 'A' _ _ (by decide) h.audioTrimmed, fun st => audioFilename_line_accepted st _ h.audioTrimmed⟩
  · have hmem : r ∈ RtGeneral.decodedLines { g with audioFile := [] } ss := by
      unfold RtGeneral.decodedLines
      rw [List.map_tail] at hr'
      exact List.mem_of_mem_tail hr'
    obtain ⟨h1, h2⟩ := RtGeneral.general_lines_spec LI LP _ ss (repGeneral_blank g h hr) r hmem
    refine ⟨h1, fun st => ?_⟩
    have := h2 st
    simp only [RtGeneral.generalStep] at this
    cases hp : (parseGeneral st r).1 with
    | ok u => rfl
    | error e => rw [hp] at this; cases this

theorem generalLines_no_lf_dec (LI : IntPrintLaw F) (LP : CodecLaws P RP) (g : GeneralState F P) (ss : SampleBank)
    (h : DecInvGeneral g) (hr : RP g.stackLeniency) : ∀ l ∈ RtGeneral.generalLines g ss, '\n' ∉ l := by
  intro l hl
  rw [generalLines_split, List.mem_cons] at hl
  rcases hl with hl | hl
  · subst hl; exact not_lf_kvl _ _ (by decide) h.audioNoLf
  · exact RtGeneral.generalLines_no_lf LI LP _ ss (repGeneral_blank g h hr) l (List.mem_of_mem_tail hl)

end

/-! ### [Events]: the background line of ANY name is an accepted record line -/

section
variable {F : Type} [Scalar F] {R : F → Prop}

theorem background_line_accepted (st : Events F) (n : Str) :
    (parseEvents st (trimEnd (RtEvents.backgroundLine n))).2 = true := by
  rw [RtEvents.trimEnd_backgroundLine]
  have e : RtEvents.backgroundLine n = str "0,0," ++ '"' :: (n ++ str "\",0,0") := by simp [RtEvents.backgroundLine, str]
  have hs : ∃ p ps, splitOn ',' (trimComment (RtEvents.backgroundLine n)) = str "0" :: str "0" :: p :: ps := by
    rw [e, trimComment_append_cons _ '"' _ (by decide) (by decide) (by decide)]
    have e2 : str "0,0," ++ '"' :: trimEnd (beforeDoubleSlash (n ++ str "\",0,0")) =
        str "0" ++ ',' :: (str "0" ++ ',' :: ('"' :: trimEnd (beforeDoubleSlash (n ++ str "\",0,0")))) := by simp [str]
    rw [e2, splitOn_append_sep ',' _ _ (by decide), splitOn_append_sep ',' _ _ (by decide)]
    cases hq : splitOn ',' ('"' :: trimEnd (beforeDoubleSlash (n ++ str "\",0,0"))) with
    | nil => exact absurd hq (splitOn_ne_nil _ _)
    | cons p ps => exact ⟨p, ps, rfl⟩
  obtain ⟨p, ps, hs⟩ := hs
  rw [background_overwrites st _ _ _ _ _ hs (by decide)]

/-- the `[Events]` lines are the optional background line followed by lines that do not depend on the file name. -/
theorem eventLines_split (e : Events F) :
    RtEvents.eventLines e = optLine (!e.backgroundFile.isEmpty) (RtEvents.backgroundLine e.backgroundFile) ++
      RtEvents.eventLines { e with backgroundFile := [] } := by
  simp [RtEvents.eventLines, optLine]

theorem repEvents_blank (e : Events F) (h : DecInvEvents e) (hr : ∀ b ∈ e.breaks, R b.startTime ∧ R b.endTime) :
    RtEvents.RepEvents R { e with backgroundFile := [] } :=
  ⟨Or.inl rfl, fun b hb => ⟨⟨(hr b hb).1, (h.breaks b hb).start⟩, ⟨(hr b hb).2, (h.breaks b hb).stop⟩, (h.breaks b hb).ordered⟩⟩

/-- **[Events] acceptance without the F16 exclusion.** -/
theorem event_lines_accepted_dec (L : CodecLaws F R) (e : Events F) (h : DecInvEvents e)
    (hr : ∀ b ∈ e.breaks, R b.startTime ∧ R b.endTime) :
    ∀ r ∈ RtEvents.decodedLines e, RecordLine r ∧ ∀ st : Events F, (parseEvents st r).2 = true := by
  intro r hr'
  unfold RtEvents.decodedLines at hr'
  rw [eventLines_split, List.map_append, optLine_map, List.mem_append] at hr'
  rcases hr' with hr' | hr'
  · rw [(mem_optLine hr').2]
    refine ⟨?_, fun st => background_line_accepted st _⟩
    rw [RtEvents.trimEnd_backgroundLine]
    exact recordLine_of_alnum '0' _ (by decide)
  · exact RtEvents.event_lines_spec L _ (repEvents_blank e h hr) r hr'

theorem eventLines_no_lf_dec (L : CodecLaws F R) (e : Events F) (h : DecInvEvents e)
    (hr : ∀ b ∈ e.breaks, R b.startTime ∧ R b.endTime) : ∀ l ∈ RtEvents.eventLines e, '\n' ∉ l := by
  intro l hl
  rw [eventLines_split, List.mem_append] at hl
  rcases hl with hl | hl
  · rw [(mem_optLine hl).2]
    intro hm
    simp only [RtEvents.backgroundLine, List.mem_append] at hm
    rcases hm with (hm | hm) | hm
    · exact absurd hm (by decide)
    · exact h.background.noLf hm
    · exact absurd hm (by decide)
  · exact RtEvents.eventLines_no_lf L _ (repEvents_blank e h hr) l hl

end

end DecodedInv
end Rosu
