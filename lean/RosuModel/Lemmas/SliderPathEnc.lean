/-
  Lemmas/SliderPathEnc.lean — the control-point part of `add_path_data` (`Encode.pathPointsLoop`) without indices:
  the loop's decisions cut the control points into *explicit segments* (`splitSegs`: a segment opens at every typed
  control point whose type letter is written), and the text written is the `|`-separated pieces of those segments,
  terminated by `,` (`pathPointsLoop_eq`). No hypothesis on the numbers.
-/
import RosuModel.Model.Encode
import RosuModel.Lemmas.Digits
namespace Rosu
namespace SliderRt
open Rosu Encode Scalar

variable {P : Type} [Scalar P]

/-- `x:y` of a control point (absolute coordinates, `f32` `Display`). -/
def coords (pos : Pos P) (q : PathControlPoint P) : Str :=
  showP (pos.x + q.pos.x) ++ [':'] ++ showP (pos.y + q.pos.y)

/-- `needs_explicit_segment` before the duplicated-pair rule. -/
def needs0 (cps : List (PathControlPoint P)) (i : Nat) (lastType : Option PathType) (point : PathControlPoint P) : Bool :=
  (point.pathType != lastType) || (point.pathType == some PathType.perfect) ||
    (match cps[i + 1]? with | some nxt => nxt.pathType.isSome | none => true)

/-- `needs_explicit_segment` as the loop computes it for the typed control point at index `i`. -/
def needsAt (pos : Pos P) (cps : List (PathControlPoint P)) (i : Nat) (lastType : Option PathType)
    (point : PathControlPoint P) : Bool :=
  if i > 1 then
    match cps[i - 1]?, cps[i - 2]? with
    | some a, some b =>
      if (Scalar.toI32 (pos + a.pos).x == Scalar.toI32 (pos + b.pos).x) &&
         (Scalar.toI32 (pos + a.pos).y == Scalar.toI32 (pos + b.pos).y) then true else needs0 cps i lastType point
    | _, _ => needs0 cps i lastType point
  else needs0 cps i lastType point

theorem loop_nil (pos : Pos P) (cps : List (PathControlPoint P)) (n i : Nat) (last : Option PathType) :
    pathPointsLoop pos cps n i last [] = [] := by
  rw [pathPointsLoop]

/-- one iteration at an untyped control point. -/
theorem loop_untyped (pos : Pos P) (cps : List (PathControlPoint P)) (n i : Nat) (last : Option PathType)
    (q : PathControlPoint P) (rest : List (PathControlPoint P)) (hq : q.pathType = none) :
    pathPointsLoop pos cps n i last (q :: rest) =
      (if i != 0 then coords pos q ++ [if i == n - 1 then ',' else '|'] else []) ++
        pathPointsLoop pos cps n (i + 1) last rest := by
  rw [pathPointsLoop]
  simp only [hq, coords, List.nil_append]

/-- one iteration at a typed control point. -/
theorem loop_typed (pos : Pos P) (cps : List (PathControlPoint P)) (n i : Nat) (last : Option PathType)
    (q : PathControlPoint P) (rest : List (PathControlPoint P)) (t : PathType) (hq : q.pathType = some t) :
    pathPointsLoop pos cps n i last (q :: rest) =
      (if needsAt pos cps i last q then pathTypeLetter t ++ [if n == 1 then ',' else '|'] else coords pos q ++ ['|']) ++
      (if i != 0 then coords pos q ++ [if i == n - 1 then ',' else '|'] else []) ++
        pathPointsLoop pos cps n (i + 1) (if needsAt pos cps i last q then some t else last) rest := by
  obtain ⟨qp, qt⟩ := q
  simp only at hq
  subst hq
  have key : ∀ (c : Bool) (A B X : Str) (f : Option PathType → Str),
      ((if c then (A, some t) else (B, last)).1 ++ X) ++ f (if c then (A, some t) else (B, last)).2 =
        (if c then A else B) ++ X ++ f (if c then some t else last) := by
    intro c A B X f; cases c <;> rfl
  rw [pathPointsLoop]
  exact key (needsAt pos cps i last ⟨qp, some t⟩) _ _ _ (fun l => pathPointsLoop pos cps n (i + 1) l rest)

/-! ### explicit segments -/

/-- an explicit segment: the typed control point whose letter is written, and the control points up to the next one. -/
structure ESeg (P : Type) where
  ty : PathType
  head : Pos P
  body : List (PathControlPoint P)

/-- the control points of a segment. -/
def ESeg.points (s : ESeg P) : List (PathControlPoint P) := ⟨s.head, some s.ty⟩ :: s.body

/-- the pieces written for the control points after a segment's head: an untyped point once, a typed point
(implicit segment start) twice. -/
def bodyPieces (pos : Pos P) (body : List (PathControlPoint P)) : List Str :=
  body.flatMap fun q => if q.pathType.isSome then [coords pos q, coords pos q] else [coords pos q]

/-- the pieces of a segment that is not the first: type letter, the head's coordinates, the body. -/
def segPieces (pos : Pos P) (s : ESeg P) : List Str :=
  pathTypeLetter s.ty :: coords pos ⟨s.head, none⟩ :: bodyPieces pos s.body

def segsPieces (pos : Pos P) (segs : List (ESeg P)) : List Str := segs.flatMap (segPieces pos)

/-- the loop's cut of the control points `rest = cps[i..]`: the points up to the first one written explicitly, and the
explicit segments from there on. -/
def splitSegs (pos : Pos P) (cps : List (PathControlPoint P)) :
    Nat → Option PathType → List (PathControlPoint P) → List (PathControlPoint P) × List (ESeg P)
  | _, _, [] => ([], [])
  | i, last, q :: rest =>
    match q.pathType with
    | none => (q :: (splitSegs pos cps (i + 1) last rest).1, (splitSegs pos cps (i + 1) last rest).2)
    | some t =>
      if needsAt pos cps i last q then
        ([], ⟨t, q.pos, (splitSegs pos cps (i + 1) (some t) rest).1⟩ :: (splitSegs pos cps (i + 1) (some t) rest).2)
      else (q :: (splitSegs pos cps (i + 1) last rest).1, (splitSegs pos cps (i + 1) last rest).2)

/-- the cut loses nothing. -/
theorem splitSegs_points (pos : Pos P) (cps : List (PathControlPoint P)) (rest : List (PathControlPoint P)) :
    ∀ (i : Nat) (last : Option PathType),
      (splitSegs pos cps i last rest).1 ++ (splitSegs pos cps i last rest).2.flatMap ESeg.points = rest := by
  induction rest with
  | nil => intro i last; rfl
  | cons q rest ih =>
    intro i last
    rw [splitSegs]
    cases hq : q.pathType with
    | none => simp only [List.cons_append, ih (i + 1) last]
    | some t =>
      simp only
      split
      · simp only [List.nil_append, List.flatMap_cons, ESeg.points, List.cons_append, ih (i + 1) (some t)]
        congr 1
        cases q with
        | mk p ty => simp only at hq; rw [hq]
      · simp only [List.cons_append, ih (i + 1) last]

/-- pieces joined by `|` and terminated by `,`. -/
def term : List Str → Str
  | [] => []
  | [p] => p ++ [',']
  | p :: q :: r => p ++ '|' :: term (q :: r)

theorem term_cons (p : Str) (l : List Str) (h : l ≠ []) : term (p :: l) = p ++ '|' :: term l := by
  cases l with
  | nil => exact absurd rfl h
  | cons q r => rfl

theorem term_append (a l : List Str) (h : l ≠ []) : term (a ++ l) = a.flatMap (fun p => p ++ ['|']) ++ term l := by
  induction a with
  | nil => rfl
  | cons p a ih =>
    have : a ++ l ≠ [] := by simp [h]
    simp [term_cons p _ this, ih, List.append_assoc]

theorem bodyPieces_cons (pos : Pos P) (q : PathControlPoint P) (rest : List (PathControlPoint P)) :
    bodyPieces pos (q :: rest) =
      (if q.pathType.isSome then [coords pos q, coords pos q] else [coords pos q]) ++ bodyPieces pos rest := by
  simp [bodyPieces]

/-- the pieces of a cut. -/
def cutPieces (pos : Pos P) (r : List (PathControlPoint P) × List (ESeg P)) : List Str :=
  bodyPieces pos r.1 ++ segsPieces pos r.2

theorem cutPieces_ne_nil (pos : Pos P) (cps : List (PathControlPoint P)) (q : PathControlPoint P)
    (rest : List (PathControlPoint P)) (i : Nat) (last : Option PathType) :
    cutPieces pos (splitSegs pos cps i last (q :: rest)) ≠ [] := by
  rw [splitSegs]
  cases hq : q.pathType with
  | none => simp [cutPieces, bodyPieces_cons, hq]
  | some t =>
    simp only
    split
    · simp [cutPieces, segsPieces, segPieces, bodyPieces]
    · simp [cutPieces, bodyPieces_cons, hq]

/-- **the loop from index `i ≥ 1` on**: the text written for `cps[i..]` is the pieces of its cut. -/
theorem loop_eq_from (pos : Pos P) (cps : List (PathControlPoint P)) (rest : List (PathControlPoint P)) :
    ∀ (i : Nat) (last : Option PathType), 1 ≤ i → cps.drop i = rest →
      pathPointsLoop pos cps cps.length i last rest = term (cutPieces pos (splitSegs pos cps i last rest)) := by
  induction rest with
  | nil => intro i last _ _; rw [loop_nil]; rfl
  | cons q rest ih =>
    intro i last hi hdrop
    have hlen : cps.length = i + 1 + rest.length := by
      have := congrArg List.length hdrop
      simp only [List.length_drop, List.length_cons] at this
      omega
    have hdrop' : cps.drop (i + 1) = rest := by
      have : cps.drop (i + 1) = (cps.drop i).drop 1 := by rw [List.drop_drop]
      rw [this, hdrop]; rfl
    have hi0 : (i != 0) = true := by simp; omega
    have hn1 : (cps.length == 1) = false := by simp; omega
    have hsep : (i == cps.length - 1) = rest.isEmpty := by
      cases rest with
      | nil => simp at hlen ⊢; omega
      | cons _ _ => simp at hlen ⊢; omega
    -- the text after this point
    have htail : ∀ last', pathPointsLoop pos cps cps.length (i + 1) last' rest =
        term (cutPieces pos (splitSegs pos cps (i + 1) last' rest)) := fun last' => ih (i + 1) last' (by omega) hdrop'
    -- one piece followed by the rest
    have hone : ∀ (c : Str) (last' : Option PathType),
        c ++ [if rest.isEmpty then ',' else '|'] ++ term (cutPieces pos (splitSegs pos cps (i + 1) last' rest)) =
          term (c :: cutPieces pos (splitSegs pos cps (i + 1) last' rest)) := by
      intro c last'
      cases rest with
      | nil => simp [splitSegs, cutPieces, bodyPieces, segsPieces, term]
      | cons q' rest' =>
        rw [term_cons _ _ (cutPieces_ne_nil pos cps q' rest' (i + 1) last')]
        simp
    cases hq : q.pathType with
    | none =>
      rw [loop_untyped pos cps _ i last q rest hq, hi0, hsep, htail, splitSegs]
      simp only [hq, if_true]
      rw [hone]
      simp [cutPieces, bodyPieces_cons, hq]
    | some t =>
      rw [loop_typed pos cps _ i last q rest t hq, hi0, hsep, hn1, splitSegs]
      simp only [hq, if_true]
      cases hneeds : needsAt pos cps i last q with
      | true =>
        simp only [if_true, Bool.false_eq_true, if_false, htail]
        have hcut : cutPieces pos (([] : List (PathControlPoint P)),
            (⟨t, q.pos, (splitSegs pos cps (i + 1) (some t) rest).1⟩ : ESeg P) :: (splitSegs pos cps (i + 1) (some t) rest).2) =
            pathTypeLetter t :: coords pos q :: cutPieces pos (splitSegs pos cps (i + 1) (some t) rest) := by
          simp [cutPieces, segsPieces, segPieces, bodyPieces, coords]
        rw [hcut, term_cons _ _ (by simp), ← hone]
        simp [List.append_assoc]
      | false =>
        simp only [Bool.false_eq_true, if_false, htail]
        have hcut : cutPieces pos (q :: (splitSegs pos cps (i + 1) last rest).1, (splitSegs pos cps (i + 1) last rest).2) =
            coords pos q :: coords pos q :: cutPieces pos (splitSegs pos cps (i + 1) last rest) := by
          simp [cutPieces, bodyPieces_cons, hq]
        rw [hcut, term_cons _ _ (by simp), ← hone]
        simp [List.append_assoc]

/-- **`add_path_data`, control points**: for a path whose first control point carries a type `t0`, the text written is
`t0`'s letter and the pieces of the cut of the remaining points, joined by `|` and terminated by `,`; the first
control point opens the first explicit segment. -/
theorem pathPointsLoop_eq (pos : Pos P) (p0 : PathControlPoint P) (rest : List (PathControlPoint P)) (t0 : PathType)
    (h0 : p0.pathType = some t0) :
    pathPointsLoop pos (p0 :: rest) (p0 :: rest).length 0 none (p0 :: rest) =
      term (pathTypeLetter t0 :: cutPieces pos (splitSegs pos (p0 :: rest) 1 (some t0) rest)) := by
  have hneeds : needsAt pos (p0 :: rest) 0 none p0 = true := by
    simp [needsAt, needs0, h0]
  rw [loop_typed pos _ _ 0 none p0 rest t0 h0, hneeds]
  simp only [if_true, bne_self_eq_false, Bool.false_eq_true, if_false, List.append_nil]
  rw [loop_eq_from pos (p0 :: rest) rest 1 (some t0) (Nat.le_refl _) rfl]
  cases rest with
  | nil => simp [splitSegs, cutPieces, bodyPieces, segsPieces, term]
  | cons q rest' =>
    rw [term_cons _ _ (cutPieces_ne_nil pos _ q rest' 1 (some t0))]
    simp

end SliderRt
end Rosu
