/-
  Lemmas/ToyRat.lean — core `Rat` as a `Scalar` (exact field arithmetic; `sqrt`/`ceil` are placeholders, no
  theorem instantiated here uses them). Shows that the multiplicative law hypotheses are satisfiable.
-/
import RosuModel.Model.Scalar
namespace Rosu.ToyRat

instance : Scalar Rat where
  ofNat n := (n : Rat)
  ofSci m s e := if s then (m : Rat) / ((10 ^ e : Nat) : Rat) else (m : Rat) * ((10 ^ e : Nat) : Rat)
  lt a b := decide (a < b)
  le a b := decide (a ≤ b)
  eq a b := decide (a = b)
  isNaN _ := false
  abs a := if a < 0 then -a else a
  sqrt a := a
  ceil a := a
  eps := 0
  ofInt a := (a : Rat)
  toI32 a := a.floor
  toUsize a := a.floor.toNat
  totalKey a := a.floor
  parse _ := none
  print _ := []

instance : Cvt Rat Rat where
  up a := a
  down a := a

/-! rewriting the `Scalar`-instance operations and literals of the model into plain `Rat` ones -/
theorem sMul (a b : Rat) : @HMul.hMul Rat Rat Rat (@instHMul Rat (@Scalar.toMul Rat instScalarRat)) a b = a * b := rfl
theorem sAdd (a b : Rat) : @HAdd.hAdd Rat Rat Rat (@instHAdd Rat (@Scalar.toAdd Rat instScalarRat)) a b = a + b := rfl
theorem sSub (a b : Rat) : @HSub.hSub Rat Rat Rat (@instHSub Rat (@Scalar.toSub Rat instScalarRat)) a b = a - b := rfl
theorem sDiv (a b : Rat) : @HDiv.hDiv Rat Rat Rat (@instHDiv Rat (@Scalar.toDiv Rat instScalarRat)) a b = a / b := rfl
theorem sNeg (a : Rat) : @Neg.neg Rat (@Scalar.toNeg Rat instScalarRat) a = -a := rfl
theorem sOfNat (n : Nat) : (@OfNat.ofNat Rat n (@Scalar.instOfNat Rat _ n)) = ((n : Nat) : Rat) := rfl
theorem sOfNat' (n : Nat) : (Scalar.ofNat n : Rat) = ((n : Nat) : Rat) := rfl
theorem sOfSci (m e : Nat) :
    (@OfScientific.ofScientific Rat (@Scalar.instOfScientific Rat _) m true e) = (m : Rat) / ((10 ^ e : Nat) : Rat) := rfl

end Rosu.ToyRat
