/-
  Lemmas/ToyRat.lean — core `Rat` as a `Scalar` (exact field arithmetic; `sqrt`/`ceil` are placeholders, no
  theorem instantiated here uses them). Shows that the multiplicative law hypotheses are satisfiable.
-/
import RosuModel.Model.Scalar
namespace Rosu.ToyRat

instance : Scalar Rat where
  ofNat n := (n : Rat)
  ofSci m s e := if s then (m : Rat) / ((10 ^ e : Nat) : Rat) else (m : Rat) * ((10 ^ e : Nat) : Rat)
  lt a b := decide (a < b)
  le a b := decide (a ≤ b)
  eq a b := decide (a = b)
  isNaN _ := false
  abs a := if a < 0 then -a else a
  sqrt a := a
  ceil a := a
  eps := 0
  ofInt a := (a : Rat)
  toI32 a := a.floor
  toUsize a := a.floor.toNat
  totalKey a := a.floor
  parse _ := none
  print _ := []

instance : Cvt Rat Rat where
  up a := a
  down a := a

end Rosu.ToyRat
