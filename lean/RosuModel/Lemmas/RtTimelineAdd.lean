/-
  Lemmas/RtTimelineAdd.lean — what `ControlPoints::add` beyond the last stored key does to the EFFECTIVE value at every time
  (generic: `add_beyond_value`), and the four lists of a flush (`flushInto_lists`). Used by the timing round trip.
-/
import RosuModel.Lemmas.RtTimingRt
namespace Rosu
namespace RtTiming
open Rosu Scalar
set_option linter.unusedSectionVars false

section Generic
variable {α β : Type} {key : α → Int}

/-- the checked lookup on a list extended beyond its last key. -/
theorem lookupChecked_snoc (k : Int) (l : List α) (p : α) (h : ∀ y ∈ l, key y < key p) :
    lookupChecked key k (l ++ [p]) = if key p ≤ k then some p else lookupChecked key k l := by
  induction l with
  | nil =>
    rw [List.nil_append, C13.lookupChecked_cons, C13.lookupChecked_nil]
    by_cases h1 : key p < k
    · have : key p ≤ k := by omega
      simp [h1, this]
    · by_cases h2 : key p = k
      · simp [h2]
      · have : ¬ key p ≤ k := by omega
        simp [h1, h2, this]
  | cons x xs ih =>
    have hx := h x (by simp)
    have ih' := ih (fun y hy => h y (by simp [hy]))
    rw [List.cons_append, C13.lookupChecked_cons, ih', C13.lookupChecked_cons]
    by_cases hp : key p ≤ k
    · have : key x < k := by omega
      simp [hp, this]
    · simp [hp]

/-- `ControlPoints::add` for a kind with a redundancy check, on its list: nothing happens when the new point is redundant
with respect to the point in effect at its time (the default when there is none), otherwise sorted insert-or-replace. -/
def addChecked (key : α → Int) (red : α → α → Bool) (dflt : α) (l : List α) (p : α) : List α :=
  if red p ((lookupChecked key (key p) l).getD dflt) then l else insertOrReplace key p l

/-- the effective value at key `k`: `val` of the point in effect, of the default when there is none. -/
def valueAt (key : α → Int) (val : α → β) (dflt : α) (l : List α) (k : Int) : β :=
  val ((lookupChecked key k l).getD dflt)

/-- **add_beyond_value.** Adding a point beyond the last stored key — whether it is stored or dropped as redundant —
changes the effective value exactly from that key on, to the new point's value (for every projection `val` on which a
redundant point agrees with the one it is redundant to). -/
theorem add_beyond_value (red : α → α → Bool) (dflt : α) (val : α → β) (hred : ∀ p e, red p e = true → val p = val e)
    (l : List α) (p : α) (h : ∀ y ∈ l, key y < key p) (k : Int) :
    valueAt key val dflt (addChecked key red dflt l p) k = if k < key p then valueAt key val dflt l k else val p := by
  unfold addChecked valueAt
  by_cases hr : red p ((lookupChecked key (key p) l).getD dflt) = true
  · simp only [hr, if_true]
    by_cases hk : k < key p
    · simp [hk]
    · simp only [hk, if_false]
      rw [C13.lookupChecked_beyond_last (fun y hy => by have := h y hy; omega)]
      rw [C13.lookupChecked_beyond_last h] at hr
      exact (hred _ _ hr).symm
  · simp only [hr, Bool.false_eq_true, if_false]
    rw [C13.insertOrReplace_append h, lookupChecked_snoc k l p h]
    by_cases hk : k < key p
    · have : ¬ key p ≤ k := by omega
      simp [hk, this]
    · have : key p ≤ k := by omega
      simp [hk, this]

/-- stored keys after such an add: the old ones and possibly the new key. -/
theorem addChecked_keys (red : α → α → Bool) (dflt : α) (l : List α) (p : α) :
    ∀ y ∈ addChecked key red dflt l p, y ∈ l ∨ y = p := by
  intro y hy
  unfold addChecked at hy
  split at hy
  · exact Or.inl hy
  · rcases C13.mem_insertOrReplace hy with h | h
    · exact Or.inr h
    · exact Or.inl h

end Generic

variable {F : Type} [Scalar F]

/-! ### the four lists of `ControlPoints::add` and of a flush -/

theorem addDifficulty_lists (cp : ControlPoints F) (p : DifficultyPoint F) :
    (cp.addDifficulty p).difficultyPoints =
      addChecked DifficultyPoint.key DifficultyPoint.isRedundant DifficultyPoint.default cp.difficultyPoints p ∧
    (cp.addDifficulty p).timingPoints = cp.timingPoints ∧ (cp.addDifficulty p).effectPoints = cp.effectPoints ∧
    (cp.addDifficulty p).samplePoints = cp.samplePoints := by
  unfold ControlPoints.addDifficulty ControlPoints.difficultyExists ControlPoints.difficultyPointAt addChecked
  have hk : totalKey p.time = DifficultyPoint.key p := rfl
  rw [hk]
  cases h : lookupChecked DifficultyPoint.key (DifficultyPoint.key p) cp.difficultyPoints with
  | none => simp only [Option.getD_none]; split <;> exact ⟨rfl, rfl, rfl, rfl⟩
  | some e => simp only [Option.getD_some]; split <;> exact ⟨rfl, rfl, rfl, rfl⟩

theorem addEffect_lists (cp : ControlPoints F) (p : EffectPoint F) :
    (cp.addEffect p).effectPoints =
      addChecked EffectPoint.key EffectPoint.isRedundant EffectPoint.default cp.effectPoints p ∧
    (cp.addEffect p).timingPoints = cp.timingPoints ∧ (cp.addEffect p).difficultyPoints = cp.difficultyPoints ∧
    (cp.addEffect p).samplePoints = cp.samplePoints := by
  unfold ControlPoints.addEffect ControlPoints.effectExists ControlPoints.effectPointAt addChecked
  have hk : totalKey p.time = EffectPoint.key p := rfl
  rw [hk]
  cases h : lookupChecked EffectPoint.key (EffectPoint.key p) cp.effectPoints with
  | none => simp only [Option.getD_none]; split <;> exact ⟨rfl, rfl, rfl, rfl⟩
  | some e => simp only [Option.getD_some]; split <;> exact ⟨rfl, rfl, rfl, rfl⟩

theorem addSample_lists (cp : ControlPoints F) (p : SamplePoint F) :
    (cp.addSample p).timingPoints = cp.timingPoints ∧ (cp.addSample p).difficultyPoints = cp.difficultyPoints ∧
    (cp.addSample p).effectPoints = cp.effectPoints := by
  unfold ControlPoints.addSample
  split <;> exact ⟨rfl, rfl, rfl⟩

/-- the list-level reading of an optional add. -/
def optAdd {α : Type} (f : List α → α → List α) (l : List α) : Option α → List α
  | none => l
  | some p => f l p

/-- **flushInto_lists**: a flush adds the pending timing point by sorted insert-or-replace and the pending difficulty /
effect points by the checked add, each to its own list — the kinds do not interact. -/
theorem flushInto_lists (cp : ControlPoints F) (pd : Pending F) :
    (flushInto cp pd).timingPoints = optAdd (fun l p => insertOrReplace TimingPoint.key p l) cp.timingPoints pd.timing ∧
    (flushInto cp pd).difficultyPoints =
      optAdd (addChecked DifficultyPoint.key DifficultyPoint.isRedundant DifficultyPoint.default) cp.difficultyPoints
        pd.difficulty ∧
    (flushInto cp pd).effectPoints =
      optAdd (addChecked EffectPoint.key EffectPoint.isRedundant EffectPoint.default) cp.effectPoints pd.effect := by
  obtain ⟨t, d, e, s⟩ := pd
  have d1 := fun (c : ControlPoints F) p => (addDifficulty_lists c p).1
  have d2 := fun (c : ControlPoints F) p => (addDifficulty_lists c p).2.1
  have d3 := fun (c : ControlPoints F) p => (addDifficulty_lists c p).2.2.1
  have e1 := fun (c : ControlPoints F) p => (addEffect_lists c p).1
  have e2 := fun (c : ControlPoints F) p => (addEffect_lists c p).2.1
  have e3 := fun (c : ControlPoints F) p => (addEffect_lists c p).2.2.1
  have s1 := fun (c : ControlPoints F) p => (addSample_lists c p).1
  have s2 := fun (c : ControlPoints F) p => (addSample_lists c p).2.1
  have s3 := fun (c : ControlPoints F) p => (addSample_lists c p).2.2
  cases t <;> cases d <;> cases e <;> cases s <;>
    simp only [flushInto, optAdd, ControlPoints.addTiming, d1, d2, d3, e1, e2, e3, s1, s2, s3, and_self]

end RtTiming
end Rosu
