/-
  Lemmas/RtDifficulty.lean — the `[Difficulty]` block under the codec laws: the four `f32` values and the two
  clamped `f64` values (`SliderMultiplier` in [0.4, 3.6], `SliderTickRate` in [0.5, 8]; a value the clamp leaves
  alone comes back unchanged).
-/
import RosuModel.Lemmas.CodecLaws
import RosuModel.Lemmas.ToyCodec
import RosuModel.Model.Encode
namespace Rosu
namespace RtDifficulty
open Rosu Encode EncodeLines C11 Scalar

variable {F P : Type} [Scalar F] [Scalar P] {RF : F → Prop} {RP : P → Prop}

def difficultyLines (d : Difficulty F P) : List Str :=
  [kvl (str "HPDrainRate") (showP d.hpDrainRate), kvl (str "CircleSize") (showP d.circleSize),
   kvl (str "OverallDifficulty") (showP d.overallDifficulty), kvl (str "ApproachRate") (showP d.approachRate),
   kvl (str "SliderMultiplier") (showF d.sliderMultiplier), kvl (str "SliderTickRate") (showF d.sliderTickRate)]

theorem encodeDifficulty_eq (m : Beatmap F P) :
    encodeDifficulty m = unlines (str "[Difficulty]" :: difficultyLines m.difficulty) := by
  have hh : str "[Difficulty]\n" = str "[Difficulty]" ++ EncodeLines.nl := by decide
  unfold encodeDifficulty difficultyLines
  simp only [unlines_cons, unlines_nil, kvLine_eq, hh, List.append_assoc, List.append_nil]

/-! ### one line -/

theorem parse_hp (LP : CodecLaws P RP) (st : DifficultyState F P) (x : P) (hx : RP x) (hl : InLimit x) :
    parseDifficulty st (trimEnd (kvl (str "HPDrainRate") (showP x))) =
      ({ st with difficulty := { st.difficulty with hpDrainRate := x } }, true) := by
  unfold parseDifficulty showP
  rw [kvSplit_num_line LP _ hx (by decide) (by decide) (by decide)]
  simp only [show DifficultyKey.parse (str "HPDrainRate") = some .hpDrainRate from by decide, floatParse_print LP hx hl]

theorem parse_cs (LP : CodecLaws P RP) (st : DifficultyState F P) (x : P) (hx : RP x) (hl : InLimit x) :
    parseDifficulty st (trimEnd (kvl (str "CircleSize") (showP x))) =
      ({ st with difficulty := { st.difficulty with circleSize := x } }, true) := by
  unfold parseDifficulty showP
  rw [kvSplit_num_line LP _ hx (by decide) (by decide) (by decide)]
  simp only [show DifficultyKey.parse (str "CircleSize") = some .circleSize from by decide, floatParse_print LP hx hl]

theorem parse_od (LP : CodecLaws P RP) (st : DifficultyState F P) (x : P) (hx : RP x) (hl : InLimit x) :
    parseDifficulty st (trimEnd (kvl (str "OverallDifficulty") (showP x))) =
      ({ st with difficulty :=
          (if !st.hasApproachRate then { { st.difficulty with overallDifficulty := x } with approachRate := x }
           else { st.difficulty with overallDifficulty := x }) }, true) := by
  unfold parseDifficulty showP
  rw [kvSplit_num_line LP _ hx (by decide) (by decide) (by decide)]
  simp only [show DifficultyKey.parse (str "OverallDifficulty") = some .overallDifficulty from by decide,
    floatParse_print LP hx hl]

theorem parse_ar (LP : CodecLaws P RP) (st : DifficultyState F P) (x : P) (hx : RP x) (hl : InLimit x) :
    parseDifficulty st (trimEnd (kvl (str "ApproachRate") (showP x))) =
      ({ hasApproachRate := true, difficulty := { st.difficulty with approachRate := x } }, true) := by
  unfold parseDifficulty showP
  rw [kvSplit_num_line LP _ hx (by decide) (by decide) (by decide)]
  simp only [show DifficultyKey.parse (str "ApproachRate") = some .approachRate from by decide, floatParse_print LP hx hl]

theorem parse_sm (LF : CodecLaws F RF) (st : DifficultyState F P) (x : F) (hx : RF x) (hl : InLimit x)
    (h1 : lt x (0.4 : F) = false) (h2 : lt (3.6 : F) x = false) :
    parseDifficulty st (trimEnd (kvl (str "SliderMultiplier") (showF x))) =
      ({ st with difficulty := { st.difficulty with sliderMultiplier := x } }, true) := by
  unfold parseDifficulty showF
  rw [kvSplit_num_line LF _ hx (by decide) (by decide) (by decide)]
  simp only [show DifficultyKey.parse (str "SliderMultiplier") = some .sliderMultiplier from by decide,
    floatParse_print LF hx hl, clamp_of_inside x _ _ h1 h2]

theorem parse_tr (LF : CodecLaws F RF) (st : DifficultyState F P) (x : F) (hx : RF x) (hl : InLimit x)
    (h1 : lt x (0.5 : F) = false) (h2 : lt (8 : F) x = false) :
    parseDifficulty st (trimEnd (kvl (str "SliderTickRate") (showF x))) =
      ({ st with difficulty := { st.difficulty with sliderTickRate := x } }, true) := by
  unfold parseDifficulty showF
  rw [kvSplit_num_line LF _ hx (by decide) (by decide) (by decide)]
  simp only [show DifficultyKey.parse (str "SliderTickRate") = some .sliderTickRate from by decide,
    floatParse_print LF hx hl, clamp_of_inside x _ _ h1 h2]

/-! ### the block -/

/-- a difficulty record the format can represent: six values representable by the codecs and within the parse
limit, the slider multiplier inside [0.4, 3.6] and the tick rate inside [0.5, 8] as `f64::clamp` tests it
(every decoded record is: the decoder clamps). -/
structure RepDifficulty (RF : F → Prop) (RP : P → Prop) (d : Difficulty F P) : Prop where
  hp : RP d.hpDrainRate ∧ InLimit d.hpDrainRate
  cs : RP d.circleSize ∧ InLimit d.circleSize
  od : RP d.overallDifficulty ∧ InLimit d.overallDifficulty
  ar : RP d.approachRate ∧ InLimit d.approachRate
  sm : RF d.sliderMultiplier ∧ InLimit d.sliderMultiplier
  smIn : lt d.sliderMultiplier (0.4 : F) = false ∧ lt (3.6 : F) d.sliderMultiplier = false
  tr : RF d.sliderTickRate ∧ InLimit d.sliderTickRate
  trIn : lt d.sliderTickRate (0.5 : F) = false ∧ lt (8 : F) d.sliderTickRate = false

def decodedLines (d : Difficulty F P) : List Str := (difficultyLines d).map trimEnd

theorem difficultyLines_no_lf (LF : CodecLaws F RF) (LP : CodecLaws P RP) (d : Difficulty F P) (h : RepDifficulty RF RP d) :
    ∀ l ∈ difficultyLines d, '\n' ∉ l := by
  intro l hl
  simp only [difficultyLines, List.mem_cons, List.not_mem_nil, or_false] at hl
  rcases hl with hl | hl | hl | hl | hl | hl <;> subst hl
  · exact not_lf_kvl _ _ (by decide) (LP.not_mem h.hp.1 _ (by decide))
  · exact not_lf_kvl _ _ (by decide) (LP.not_mem h.cs.1 _ (by decide))
  · exact not_lf_kvl _ _ (by decide) (LP.not_mem h.od.1 _ (by decide))
  · exact not_lf_kvl _ _ (by decide) (LP.not_mem h.ar.1 _ (by decide))
  · exact not_lf_kvl _ _ (by decide) (LF.not_mem h.sm.1 _ (by decide))
  · exact not_lf_kvl _ _ (by decide) (LF.not_mem h.tr.1 _ (by decide))

theorem difficulty_lines_spec (LF : CodecLaws F RF) (LP : CodecLaws P RP) (d : Difficulty F P) (h : RepDifficulty RF RP d) :
    ∀ r ∈ decodedLines d, RecordLine r ∧ ∀ st : DifficultyState F P, (parseDifficulty st r).2 = true := by
  intro r hr
  simp only [decodedLines, difficultyLines, List.map_cons, List.map_nil, List.mem_cons, List.not_mem_nil, or_false] at hr
  rcases hr with hr | hr | hr | hr | hr | hr <;> subst hr
  · exact ⟨recordLine_kvl 'H' _ _ (by decide) (LP.trim_print h.hp.1), fun st => by rw [parse_hp LP st _ h.hp.1 h.hp.2]⟩
  · exact ⟨recordLine_kvl 'C' _ _ (by decide) (LP.trim_print h.cs.1), fun st => by rw [parse_cs LP st _ h.cs.1 h.cs.2]⟩
  · exact ⟨recordLine_kvl 'O' _ _ (by decide) (LP.trim_print h.od.1), fun st => by rw [parse_od LP st _ h.od.1 h.od.2]⟩
  · exact ⟨recordLine_kvl 'A' _ _ (by decide) (LP.trim_print h.ar.1), fun st => by rw [parse_ar LP st _ h.ar.1 h.ar.2]⟩
  · exact ⟨recordLine_kvl 'S' _ _ (by decide) (LF.trim_print h.sm.1),
      fun st => by rw [parse_sm LF st _ h.sm.1 h.sm.2 h.smIn.1 h.smIn.2]⟩
  · exact ⟨recordLine_kvl 'S' _ _ (by decide) (LF.trim_print h.tr.1),
      fun st => by rw [parse_tr LF st _ h.tr.1 h.tr.2 h.trIn.1 h.trIn.2]⟩

theorem difficulty_block_result (LF : CodecLaws F RF) (LP : CodecLaws P RP) (d : Difficulty F P) (h : RepDifficulty RF RP d) :
    runSection parseDifficulty (DifficultyState.create : DifficultyState F P) (decodedLines d) =
      { hasApproachRate := true, difficulty := d } := by
  simp only [decodedLines, difficultyLines, List.map_cons, List.map_nil, runSection_cons, runSection_nil,
    fun st : DifficultyState F P => parse_hp LP st _ h.hp.1 h.hp.2, fun st : DifficultyState F P => parse_cs LP st _ h.cs.1 h.cs.2,
    fun st : DifficultyState F P => parse_od LP st _ h.od.1 h.od.2, fun st : DifficultyState F P => parse_ar LP st _ h.ar.1 h.ar.2,
    fun st : DifficultyState F P => parse_sm LF st _ h.sm.1 h.sm.2 h.smIn.1 h.smIn.2,
    fun st : DifficultyState F P => parse_tr LF st _ h.tr.1 h.tr.2 h.trIn.1 h.trIn.2]
  obtain ⟨a, b, c, e, f, g⟩ := d
  rfl

/-- **difficulty_block_roundtrip** (C04 + C02 for the block, for every lawful pair of codecs): every line
`encode_difficulty` writes is a record line accepted by `parse_difficulty`, and the block, run from the decoder's
initial state, yields the record — all six values (the approach rate is the written one, not the overall
difficulty it defaults to). -/
theorem difficulty_block_roundtrip (LF : CodecLaws F RF) (LP : CodecLaws P RP) (d : Difficulty F P) (h : RepDifficulty RF RP d) :
    (∀ r ∈ decodedLines d, RecordLine r) ∧
    Accepts parseDifficulty (DifficultyState.create : DifficultyState F P) (decodedLines d) ∧
    (runSection parseDifficulty (DifficultyState.create : DifficultyState F P) (decodedLines d)).difficulty = d :=
  ⟨fun r hr => (difficulty_lines_spec LF LP d h r hr).1,
   accepts_of_forall _ _ (fun r hr => (difficulty_lines_spec LF LP d h r hr).2) _,
   by rw [difficulty_block_result LF LP d h]⟩

/-! ### non-vacuity (toy codec: `0.4 = 0`, `3.6 = 3`, `0.5 = 0`) -/

def sample : Difficulty ZC ZC :=
  { hpDrainRate := ⟨5⟩, circleSize := ⟨4⟩, overallDifficulty := ⟨8⟩, approachRate := ⟨9⟩, sliderMultiplier := ⟨2⟩,
    sliderTickRate := ⟨1⟩ }

theorem sample_rep : RepDifficulty ZC.Rep ZC.Rep sample :=
  ⟨⟨by decide, by decide⟩, ⟨by decide, by decide⟩, ⟨by decide, by decide⟩, ⟨by decide, by decide⟩,
   ⟨by decide, by decide⟩, ⟨by decide, by decide⟩, ⟨by decide, by decide⟩, ⟨by decide, by decide⟩⟩

example : (runSection parseDifficulty DifficultyState.create (decodedLines sample)).difficulty = sample :=
  (difficulty_block_roundtrip ZC.laws ZC.laws sample sample_rep).2.2

end RtDifficulty
end Rosu
