/-
  Lemmas/FloatErrRange32.lean — **no overflow from a bound on the exact value**, for the operations
  Lemmas/FloatErrRange.lean does not cover: `f64 ⊕ ⊖`, `f32 ⊕ ⊖ ⊗` and the narrowing cast `as f32`.

  The core is SHARP and generic in the `Format`: `rwa_inRange_max` — the correctly rounded value of an exact
  `V ≤ MAX = (2^p − 1)·2^emax` (the largest finite number of the format) stays in the exponent range: the target
  exponent of such a `V` is at most `emax`, and a carry of the rounding at `te = emax` would need
  `V ≥ (2^p − 1/2)·2^emax > MAX`. `round_inRange_max`, `normalize_inRange_max` (the rounding of `add`/`sub`),
  `uadd_inRange_max`, `usub_inRange_max`, `umul_inRange_max` (unpacked level).

  * binary64: `add_finite_float_max`, `sub_finite_float_max` (`|exact| ≤ (2⁵³ − 1)·2⁹⁷¹` ⟹ finite), and the threshold
    forms in the style of `mul_finite_float`: **`add_finite_float`**, **`sub_finite_float`** (`|exact| < 2¹⁰²³`);
    `toRat_abs_le_max` (a finite double is at most `MAX`), **`sub_finite_of_nonneg_le`** (`0 ≤ b ≤ a` finite ⟹ `a ⊖ b`
    finite, ANY finite `a` — the sharp form is needed here, `a` may be `f64::MAX`).
  * binary32: `add_finite_float32_max`, `sub_finite_float32_max`, `mul_finite_float32_max` (`≤ (2²⁴ − 1)·2¹⁰⁴`), and
    **`add_finite_float32`**, **`sub_finite_float32`**, **`mul_finite_float32`** (`|exact| < 2¹²⁷`).
  * the cast: `downBits_fin`, **`down_finite_of_lt`** (`|y| < 2¹²⁷` ⟹ `y as f32` finite; by `roundRat_spec`: the
    rounding reaches the pattern of `+∞` only from `(2²⁵ − 1)·2¹⁰³` on), **`down_finite_of_abs_le_one`**.
  Kernel-evaluated non-vacuity and sharpness examples at the end.
-/
import RosuModel.Lemmas.FloatErrCvt
namespace Rosu.FErr
open Float.Model Float.Model.UnpackedFloat Rosu.FMR Rosu.FRM Rosu.FAM Rosu.FCL

/-! ### the sharp core, every format -/

theorem sgnQ_ne_zero (s : Sign) : sgnQ s ≠ 0 := by cases s <;> simp [sgnQ]

/-- **the rounding of an exact value not above the largest finite number `(2^p − 1)·2^emax` stays in range.** `emax` is any
exponent all of whose finite floats are in range (`971` for binary64, `104` for binary32). -/
theorem rwa_inRange_max (spec : Format) (emax : Int) (hmin : spec.minExponent ≤ emax)
    (hin : ∀ (s : Sign) (m : Nat) (e : Int) (hm : 0 < m), e ≤ emax → InRange spec (.finite s m e hm))
    (s : Sign) (N D : Nat) (hD : 0 < D) (e : Int) (he : e ≤ tgt spec (N / D) e)
    (hV : (N : ℚ) / (D : ℚ) * (2 : ℚ) ^ e ≤ ((2 : ℚ) ^ spec.mantissaBits - 1) * (2 : ℚ) ^ emax) :
    InRange spec (roundWithAccuracy spec s (N / D) e (accuracyOfFraction (N % D) D)) := by
  obtain ⟨hs, _⟩ := rwa_shape spec s N D hD e he
  obtain ⟨R, hR, h1, h2⟩ := rwa_err spec s N D hD e he
  have hReq : R = ((rne N (D * 2 ^ (tgt spec (N / D) e - e).toNat) : Nat) : ℚ) * (2 : ℚ) ^ tgt spec (N / D) e :=
    mul_left_cancel₀ (sgnQ_ne_zero s) (hR.symm.trans (uval_of_shape hs))
  obtain ⟨n, hn⟩ : ∃ n, spec.mantissaBits = n + 1 :=
    ⟨spec.mantissaBits - 1, by have := mantissaBits_pos spec; omega⟩
  rw [hn] at hV
  rw [hn, Nat.add_sub_cancel] at h2
  have hB : (0 : ℚ) < (2 : ℚ) ^ n := by positivity
  have hE := two_zpow_pos emax
  rw [pow_succ] at hV
  have hte : tgt spec (N / D) e ≤ emax := by
    by_contra hc
    rcases h2 with h | h
    · omega
    · have hT : 2 * (2 : ℚ) ^ emax ≤ (2 : ℚ) ^ tgt spec (N / D) e := by
        have : (2 : ℚ) ^ (emax + 1) ≤ (2 : ℚ) ^ tgt spec (N / D) e :=
          zpow_le_zpow_right₀ (by norm_num) (by omega)
        rwa [zpow_add_one₀ (two_ne_zero), mul_comm] at this
      nlinarith [mul_le_mul_of_nonneg_left hT hB.le]
  rcases hs with ⟨_, h⟩ | ⟨_, _, _, ⟨p, h⟩⟩ | ⟨hq, _, ⟨p, h⟩⟩
  · rw [h]; trivial
  · rw [h]; exact hin _ _ _ _ hte
  · rw [h]
    refine hin _ _ _ _ ?_
    by_contra hc
    have hte' : tgt spec (N / D) e = emax := by omega
    rw [hq, hn, hte'] at hReq
    rw [hte', hReq, abs_le] at h1
    push_cast at h1
    rw [pow_succ] at h1
    nlinarith [h1.1]

/-- … for `round` (exact integer mantissa on a grid `2^e`). -/
theorem round_inRange_max (spec : Format) (emax : Int) (hmin : spec.minExponent ≤ emax)
    (hin : ∀ (s : Sign) (m : Nat) (e : Int) (hm : 0 < m), e ≤ emax → InRange spec (.finite s m e hm))
    (s : Sign) (M : Nat) (hM : M ≠ 0) (e : Int)
    (hV : (M : ℚ) * (2 : ℚ) ^ e ≤ ((2 : ℚ) ^ spec.mantissaBits - 1) * (2 : ℚ) ^ emax) :
    InRange spec (round spec s M e) := by
  rw [round_eq_rwa, rwa_exact_eq]
  refine rwa_inRange_max spec emax hmin hin s _ 1 (by omega) _
    (by rw [Nat.div_one]; exact round_tgt_ge spec M hM e) ?_
  have h := (zpow_split e (tgt spec M e)).1
  calc (((M * 2 ^ (e - tgt spec M e).toNat : Nat) : ℚ)) / ((1 : Nat) : ℚ) *
        (2 : ℚ) ^ (e - ((e - tgt spec M e).toNat : Int)) = (M : ℚ) * (2 : ℚ) ^ e := by
        rw [h]; push_cast; ring
    _ ≤ _ := hV

/-- … for `normalize` (the rounding of `add` / `sub`). -/
theorem normalize_inRange_max (spec : Format) (emax : Int) (hmin : spec.minExponent ≤ emax)
    (hin : ∀ (s : Sign) (m : Nat) (e : Int) (hm : 0 < m), e ≤ emax → InRange spec (.finite s m e hm))
    (Z : Int) (e : Int) (zs : Sign)
    (hV : |(Z : ℚ)| * (2 : ℚ) ^ e ≤ ((2 : ℚ) ^ spec.mantissaBits - 1) * (2 : ℚ) ^ emax) :
    InRange spec (normalize spec Z e zs) := by
  rcases lt_trichotomy Z 0 with h | h | h
  · rw [normalize_neg _ _ _ _ h]
    refine round_inRange_max spec emax hmin hin _ _ (by omega) e ?_
    have hc : (((-Z).toNat : Nat) : ℚ) = -(Z : ℚ) := by
      have h' : (((-Z).toNat : Nat) : Int) = -Z := Int.toNat_of_nonneg (by omega)
      rw [← Int.cast_natCast, h', Int.cast_neg]
    rw [hc]
    rwa [abs_of_neg (by exact_mod_cast h)] at hV
  · subst h
    rw [normalize_zero]; trivial
  · rw [normalize_pos _ _ _ _ h]
    refine round_inRange_max spec emax hmin hin _ _ (by omega) e ?_
    have hc : ((Z.toNat : Nat) : ℚ) = (Z : ℚ) := by
      have h' : ((Z.toNat : Nat) : Int) = Z := Int.toNat_of_nonneg (by omega)
      rw [← Int.cast_natCast, h']
    rw [hc]
    rwa [abs_of_pos (by exact_mod_cast h)] at hV

/-- **addition stays in range** when the exact sum is at most the largest finite number (unpacked level). -/
theorem uadd_inRange_max (spec : Format) (emax : Int) (hmin : spec.minExponent ≤ emax)
    (hin : ∀ (s : Sign) (m : Nat) (e : Int) (hm : 0 < m), e ≤ emax → InRange spec (.finite s m e hm))
    (a b : UnpackedFloat) (fa : a.isFinite = true) (fb : b.isFinite = true)
    (ra : InRange spec a) (rb : InRange spec b)
    (h : |uval a + uval b| ≤ ((2 : ℚ) ^ spec.mantissaBits - 1) * (2 : ℚ) ^ emax) :
    InRange spec (UnpackedFloat.add spec a b) := by
  match a, b, fa, fb, ra, rb, h with
  | .zero s, .zero s', _, _, _, _, _ => cases s <;> cases s' <;> trivial
  | .zero s, .finite s' m e hm, _, _, _, rb, _ => exact rb
  | .finite s m e hm, .zero s', _, _, ra, _, _ => exact ra
  | .finite s₁ m₁ e₁ h₁, .finite s₂ m₂ e₂ h₂, _, _, _, _, h =>
    rw [add_fin]
    refine normalize_inRange_max spec emax hmin hin _ _ _ ?_
    rw [uval_fin_grid s₁ m₁ e₁ h₁ (min e₁ e₂) (by omega), uval_fin_grid s₂ m₂ e₂ h₂ (min e₁ e₂) (by omega),
      ← add_mul, abs_mul, abs_of_pos (two_zpow_pos _)] at h
    push_cast
    exact h

/-- **subtraction stays in range** when the exact difference is at most the largest finite number (unpacked level). -/
theorem usub_inRange_max (spec : Format) (emax : Int) (hmin : spec.minExponent ≤ emax)
    (hin : ∀ (s : Sign) (m : Nat) (e : Int) (hm : 0 < m), e ≤ emax → InRange spec (.finite s m e hm))
    (a b : UnpackedFloat) (fa : a.isFinite = true) (fb : b.isFinite = true)
    (ra : InRange spec a) (rb : InRange spec b)
    (h : |uval a - uval b| ≤ ((2 : ℚ) ^ spec.mantissaBits - 1) * (2 : ℚ) ^ emax) :
    InRange spec (UnpackedFloat.sub spec a b) := by
  match a, b, fa, fb, ra, rb, h with
  | .zero s, .zero s', _, _, _, _, _ => cases s <;> cases s' <;> trivial
  | .zero s, .finite s' m e hm, _, _, _, rb, _ => exact rb
  | .finite s m e hm, .zero s', _, _, ra, _, _ => exact ra
  | .finite s₁ m₁ e₁ h₁, .finite s₂ m₂ e₂ h₂, _, _, _, _, h =>
    rw [sub_fin]
    refine normalize_inRange_max spec emax hmin hin _ _ _ ?_
    rw [uval_fin_grid s₁ m₁ e₁ h₁ (min e₁ e₂) (by omega), uval_fin_grid s₂ m₂ e₂ h₂ (min e₁ e₂) (by omega),
      ← sub_mul, abs_mul, abs_of_pos (two_zpow_pos _)] at h
    push_cast
    exact h

/-- **multiplication stays in range** when the exact product is at most the largest finite number (unpacked level). -/
theorem umul_inRange_max (spec : Format) (emax : Int) (hmin : spec.minExponent ≤ emax)
    (hin : ∀ (s : Sign) (m : Nat) (e : Int) (hm : 0 < m), e ≤ emax → InRange spec (.finite s m e hm))
    (a b : UnpackedFloat) (ha : Canon spec a) (hb : Canon spec b) (fa : a.isFinite = true) (fb : b.isFinite = true)
    (h : |uval a * uval b| ≤ ((2 : ℚ) ^ spec.mantissaBits - 1) * (2 : ℚ) ^ emax) :
    InRange spec (UnpackedFloat.mul spec a b) := by
  match a, b, ha, hb, fa, fb, h with
  | .zero s, .zero s', _, _, _, _, _ => trivial
  | .zero s, .finite s' m e hm, _, _, _, _, _ => trivial
  | .finite s m e hm, .zero s', _, _, _, _, _ => trivial
  | .finite s₁ m₁ e₁ h₁, .finite s₂ m₂ e₂ h₂, ha, hb, _, _, h =>
    have hg := mul_tgt_ge spec ha hb h₁ h₂
    rw [mul_fin, rwa_exact_eq]
    refine rwa_inRange_max spec emax hmin hin _ _ 1 (by omega) _ (by rw [Nat.div_one]; exact hg) ?_
    rw [abs_mul, uval_abs_fin, uval_abs_fin] at h
    rw [zpow_add₀ (two_ne_zero)]
    push_cast
    calc (m₁ : ℚ) * (m₂ : ℚ) / 1 * ((2 : ℚ) ^ e₁ * (2 : ℚ) ^ e₂)
        = (m₁ : ℚ) * (2 : ℚ) ^ e₁ * ((m₂ : ℚ) * (2 : ℚ) ^ e₂) := by ring
      _ ≤ _ := h

/-! ### binary64 -/

theorem b64_minExponent_le : Format.binary64.minExponent ≤ 971 := by decide

/-- `2¹⁰²³` is below the largest finite double. -/
theorem pow1023_le_max64 : (2 : ℚ) ^ (1023 : Int) ≤ ((2 : ℚ) ^ 53 - 1) * (2 : ℚ) ^ (971 : Int) := by
  rw [show (1023 : Int) = 52 + 971 by norm_num, zpow_add₀ (two_ne_zero)]
  exact mul_le_mul_of_nonneg_right (by norm_num) (two_zpow_pos _).le

/-- **a finite double is at most `f64::MAX = (2⁵³ − 1)·2⁹⁷¹` in absolute value.** -/
theorem toRat_abs_le_max (x : Float) : |toRat x| ≤ ((2 : ℚ) ^ 53 - 1) * (2 : ℚ) ^ (971 : Int) := by
  have hc := float_canon x
  have hr := float_inRange x
  have hM : (0 : ℚ) ≤ ((2 : ℚ) ^ 53 - 1) * (2 : ℚ) ^ (971 : Int) :=
    mul_nonneg (by norm_num) (two_zpow_pos _).le
  unfold toRat
  generalize x.toModel.unpack = u at *
  match u, hc, hr with
  | .finite s m e hm, hc, hr =>
    rw [uval_abs_fin]
    have h1 : (Format.binary64.exponentBias : Int) = 1023 := by decide
    have h2 : (Format.binary64.mantissaBitsWithoutImplicit : Int) = 52 := by decide
    have h3 : ((2 ^ Format.binary64.exponentBits : Nat) : Int) = 2048 := by decide
    have he : e ≤ 971 := by
      have hr' : e + (Format.binary64.exponentBias : Int) + (Format.binary64.mantissaBitsWithoutImplicit : Int) + 1 <
        ((2 ^ Format.binary64.exponentBits : Nat) : Int) := hr
      rw [h1, h2, h3] at hr'; omega
    have hlt : m < 2 ^ 53 := by have := hc.lt; rwa [b64_mantissaBits] at this
    have hmq : (m : ℚ) ≤ (2 : ℚ) ^ 53 - 1 := by
      have : ((m + 1 : Nat) : ℚ) ≤ ((2 ^ 53 : Nat) : ℚ) := by exact_mod_cast hlt
      push_cast at this; linarith
    exact mul_le_mul hmq (zpow_le_zpow_right₀ (by norm_num) he) (two_zpow_pos _).le (by norm_num)
  | .zero _, _, _ => simpa [uval] using hM
  | .infinity _, _, _ => simpa [uval] using hM
  | .notANumber, _, _ => simpa [uval] using hM

/-- **`f64` addition does not overflow** when the exact sum is at most `f64::MAX` (sharp). -/
theorem add_finite_float_max (a b : Float) (ha : a.isFinite = true) (hb : b.isFinite = true)
    (h : |toRat a + toRat b| ≤ ((2 : ℚ) ^ 53 - 1) * (2 : ℚ) ^ (971 : Int)) : (a + b).isFinite = true := by
  show (a + b).toModel.unpack.isFinite = true
  have hc := add_canon Format.binary64 _ _ (float_canon a) (float_canon b)
  obtain ⟨hf, _⟩ := add_err_unpacked Format.binary64 _ _ (float_canon a) (float_canon b) ha hb
  rw [float_add_unpack]
  rcases repack_cases Format.binary64 (by decide) _ hc with ⟨h1, _⟩ | ⟨s, m, e, p, _, hnr, _⟩
  · rw [h1]; exact hf
  · exfalso; apply hnr
    exact uadd_inRange_max Format.binary64 971 b64_minExponent_le (fun s m e hm he => inRange64_fin s m e hm he)
      _ _ ha hb (float_inRange a) (float_inRange b) (by rw [b64_mantissaBits]; exact h)

/-- **`f64` subtraction does not overflow** when the exact difference is at most `f64::MAX` (sharp). -/
theorem sub_finite_float_max (a b : Float) (ha : a.isFinite = true) (hb : b.isFinite = true)
    (h : |toRat a - toRat b| ≤ ((2 : ℚ) ^ 53 - 1) * (2 : ℚ) ^ (971 : Int)) : (a - b).isFinite = true := by
  show (a - b).toModel.unpack.isFinite = true
  have hc := sub_canon Format.binary64 _ _ (float_canon a) (float_canon b)
  obtain ⟨hf, _⟩ := sub_err_unpacked Format.binary64 _ _ (float_canon a) (float_canon b) ha hb
  rw [float_sub_unpack]
  rcases repack_cases Format.binary64 (by decide) _ hc with ⟨h1, _⟩ | ⟨s, m, e, p, _, hnr, _⟩
  · rw [h1]; exact hf
  · exfalso; apply hnr
    exact usub_inRange_max Format.binary64 971 b64_minExponent_le (fun s m e hm he => inRange64_fin s m e hm he)
      _ _ ha hb (float_inRange a) (float_inRange b) (by rw [b64_mantissaBits]; exact h)

/-- **`f64` addition does not overflow** when the exact sum is below `2¹⁰²³` (the form of `mul_finite_float`). -/
theorem add_finite_float (a b : Float) (ha : a.isFinite = true) (hb : b.isFinite = true)
    (h : |toRat a + toRat b| < (2 : ℚ) ^ (1023 : Int)) : (a + b).isFinite = true :=
  add_finite_float_max a b ha hb (le_trans h.le pow1023_le_max64)

/-- **`f64` subtraction does not overflow** when the exact difference is below `2¹⁰²³`. -/
theorem sub_finite_float (a b : Float) (ha : a.isFinite = true) (hb : b.isFinite = true)
    (h : |toRat a - toRat b| < (2 : ℚ) ^ (1023 : Int)) : (a - b).isFinite = true :=
  sub_finite_float_max a b ha hb (le_trans h.le pow1023_le_max64)

/-- **`a ⊖ b` is finite for `0 ≤ b ≤ a`, `a` finite** (values; any finite `a`, `f64::MAX` included: the exact difference is
at most `a`, which is at most `f64::MAX`). -/
theorem sub_finite_of_nonneg_le (a b : Float) (ha : a.isFinite = true) (hb : b.isFinite = true)
    (h0 : 0 ≤ toRat b) (h1 : toRat b ≤ toRat a) : (a - b).isFinite = true := by
  refine sub_finite_float_max a b ha hb (le_trans ?_ (toRat_abs_le_max a))
  rw [abs_of_nonneg (by linarith), abs_of_nonneg (by linarith)]
  linarith

/-! ### binary32 -/

theorem inRange32_fin (s : Sign) (m : Nat) (e : Int) (hm : 0 < m) (he : e ≤ 104) :
    InRange Format.binary32 (.finite s m e hm) := by
  have h1 : (Format.binary32.exponentBias : Int) = 127 := by decide
  have h2 : (Format.binary32.mantissaBitsWithoutImplicit : Int) = 23 := by decide
  have h3 : ((2 ^ Format.binary32.exponentBits : Nat) : Int) = 256 := by decide
  show e + _ + _ + 1 < _
  rw [h1, h2, h3]; omega

theorem float32_inRange (x : Float32) : InRange Format.binary32 x.toModel.unpack :=
  unpack_inRange Format.binary32 (by decide) x.toModel.toBits.toBitVec

theorem b32_minExponent_le : Format.binary32.minExponent ≤ 104 := by decide

/-- `2¹²⁷` is below the largest finite `f32`. -/
theorem pow127_le_max32 : (2 : ℚ) ^ (127 : Int) ≤ ((2 : ℚ) ^ 24 - 1) * (2 : ℚ) ^ (104 : Int) := by
  rw [show (127 : Int) = 23 + 104 by norm_num, zpow_add₀ (two_ne_zero)]
  exact mul_le_mul_of_nonneg_right (by norm_num) (two_zpow_pos _).le

/-- **`f32` addition does not overflow** when the exact sum is at most `f32::MAX` (sharp). -/
theorem add_finite_float32_max (a b : Float32) (ha : a.isFinite = true) (hb : b.isFinite = true)
    (h : |toRat32 a + toRat32 b| ≤ ((2 : ℚ) ^ 24 - 1) * (2 : ℚ) ^ (104 : Int)) : (a + b).isFinite = true := by
  show (a + b).toModel.unpack.isFinite = true
  have hc := add_canon Format.binary32 _ _ (float32_canon a) (float32_canon b)
  obtain ⟨hf, _⟩ := add_err_unpacked Format.binary32 _ _ (float32_canon a) (float32_canon b) ha hb
  rw [float32_add_unpack]
  rcases repack_cases Format.binary32 (by decide) _ hc with ⟨h1, _⟩ | ⟨s, m, e, p, _, hnr, _⟩
  · rw [h1]; exact hf
  · exfalso; apply hnr
    exact uadd_inRange_max Format.binary32 104 b32_minExponent_le (fun s m e hm he => inRange32_fin s m e hm he)
      _ _ ha hb (float32_inRange a) (float32_inRange b) (by rw [b32_mantissaBits]; exact h)

/-- **`f32` subtraction does not overflow** when the exact difference is at most `f32::MAX` (sharp). -/
theorem sub_finite_float32_max (a b : Float32) (ha : a.isFinite = true) (hb : b.isFinite = true)
    (h : |toRat32 a - toRat32 b| ≤ ((2 : ℚ) ^ 24 - 1) * (2 : ℚ) ^ (104 : Int)) : (a - b).isFinite = true := by
  show (a - b).toModel.unpack.isFinite = true
  have hc := sub_canon Format.binary32 _ _ (float32_canon a) (float32_canon b)
  obtain ⟨hf, _⟩ := sub_err_unpacked Format.binary32 _ _ (float32_canon a) (float32_canon b) ha hb
  rw [float32_sub_unpack]
  rcases repack_cases Format.binary32 (by decide) _ hc with ⟨h1, _⟩ | ⟨s, m, e, p, _, hnr, _⟩
  · rw [h1]; exact hf
  · exfalso; apply hnr
    exact usub_inRange_max Format.binary32 104 b32_minExponent_le (fun s m e hm he => inRange32_fin s m e hm he)
      _ _ ha hb (float32_inRange a) (float32_inRange b) (by rw [b32_mantissaBits]; exact h)

/-- **`f32` multiplication does not overflow** when the exact product is at most `f32::MAX` (sharp). -/
theorem mul_finite_float32_max (a b : Float32) (ha : a.isFinite = true) (hb : b.isFinite = true)
    (h : |toRat32 a * toRat32 b| ≤ ((2 : ℚ) ^ 24 - 1) * (2 : ℚ) ^ (104 : Int)) : (a * b).isFinite = true := by
  show (a * b).toModel.unpack.isFinite = true
  have hc := mul_canon Format.binary32 _ _ (float32_canon a) (float32_canon b)
  obtain ⟨hf, _⟩ := mul_err_unpacked Format.binary32 _ _ (float32_canon a) (float32_canon b) ha hb
  rw [float32_mul_unpack]
  rcases repack_cases Format.binary32 (by decide) _ hc with ⟨h1, _⟩ | ⟨s, m, e, p, _, hnr, _⟩
  · rw [h1]; exact hf
  · exfalso; apply hnr
    exact umul_inRange_max Format.binary32 104 b32_minExponent_le (fun s m e hm he => inRange32_fin s m e hm he)
      _ _ (float32_canon a) (float32_canon b) ha hb (by rw [b32_mantissaBits]; exact h)

/-- **`f32` addition does not overflow** when the exact sum is below `2¹²⁷`. -/
theorem add_finite_float32 (a b : Float32) (ha : a.isFinite = true) (hb : b.isFinite = true)
    (h : |toRat32 a + toRat32 b| < (2 : ℚ) ^ (127 : Int)) : (a + b).isFinite = true :=
  add_finite_float32_max a b ha hb (le_trans h.le pow127_le_max32)

/-- **`f32` subtraction does not overflow** when the exact difference is below `2¹²⁷`. -/
theorem sub_finite_float32 (a b : Float32) (ha : a.isFinite = true) (hb : b.isFinite = true)
    (h : |toRat32 a - toRat32 b| < (2 : ℚ) ^ (127 : Int)) : (a - b).isFinite = true :=
  sub_finite_float32_max a b ha hb (le_trans h.le pow127_le_max32)

/-- **`f32` multiplication does not overflow** when the exact product is below `2¹²⁷`. -/
theorem mul_finite_float32 (a b : Float32) (ha : a.isFinite = true) (hb : b.isFinite = true)
    (h : |toRat32 a * toRat32 b| < (2 : ℚ) ^ (127 : Int)) : (a * b).isFinite = true :=
  mul_finite_float32_max a b ha hb (le_trans h.le pow127_le_max32)

/-! ### the narrowing cast `as f32` -/

theorem emaxE32 : emaxE fmt32 = 104 := by decide

/-- **`downBits` does not reach the exponent field of `∞` / NaN** on a finite binary64 pattern of magnitude below `2¹²⁷`:
`roundRat` returns the pattern of `+∞` only from `(2²⁵ − 1)·2¹⁰³ = 2¹²⁸ − 2¹⁰³` on (`roundRat_spec`). -/
theorem downBits_fin (b : Nat) (hfin : b / 2 ^ 52 % 2 ^ 11 ≠ 2047)
    (hV : ((decompose fmt64 (b % 2 ^ 63)).1 : ℚ) * (2 : ℚ) ^ (decompose fmt64 (b % 2 ^ 63)).2 < (2 : ℚ) ^ (127 : Int)) :
    downBits b / 2 ^ 23 % 2 ^ 8 ≠ 255 := by
  have hmag : b % 2 ^ 63 < 0x7FF0000000000000 := by omega
  have ht : b / 2 ^ 63 % 2 < 2 := Nat.mod_lt _ (by decide)
  unfold downBits
  simp only [FB.inf64, FB.inf32, FB.nan32]
  rw [if_neg (by omega), if_neg (by omega)]
  split
  · omega
  · rename_i h0
    have hm0 := (decompose_facts fmt64 (by decide) _ (Nat.pos_of_ne_zero h0)).1
    generalize decompose fmt64 (b % 2 ^ 63) = p at *
    obtain ⟨m, e⟩ := p
    simp only [] at hm0 hV ⊢
    have key : ∀ num den : Nat, 0 < num → 0 < den → (num : ℚ) / (den : ℚ) = (m : ℚ) * (2 : ℚ) ^ e →
        (b / 2 ^ 63 % 2 * 2 ^ 31 + roundRat fmt32 num den) / 2 ^ 23 % 2 ^ 8 ≠ 255 := by
      intro num den hnum hden hVe
      have hle := FB.roundRat_le_inf fmt32 (by decide) (by decide) num den hden
      rw [FB.inf32] at hle
      have hne : roundRat fmt32 num den ≠ 0x7F800000 := by
        intro hc
        rcases roundRat_spec fmt32 (by decide) (by decide) num den hnum hden with ⟨h0, _⟩ | ⟨_, hlt, _⟩ | ⟨_, hL⟩
        · omega
        · rw [FB.inf32] at hlt; omega
        · have hq := LeS_q hden hL
          rw [emaxE32, hVe] at hq
          have hc2 : ((2 ^ (fmt32.p + 1) - 1 : Nat) : ℚ) = 33554431 := by
            have : (2 ^ (fmt32.p + 1) - 1 : Nat) = 33554431 := by decide
            rw [this]; norm_num
          rw [hc2] at hq
          have hT := two_zpow_pos (103 : Int)
          have e127 : (2 : ℚ) ^ (127 : Int) = 16777216 * (2 : ℚ) ^ (103 : Int) := by
            rw [show (127 : Int) = 24 + 103 by norm_num, zpow_add₀ (two_ne_zero)]; norm_num
          rw [e127] at hV
          have : (104 : Int) - 1 = 103 := by norm_num
          rw [this] at hq
          linarith
      generalize roundRat fmt32 num den = r at *
      omega
    split
    · rename_i he
      refine key _ 1 (Nat.mul_pos hm0 (Nat.pow_pos (by decide))) (by decide) ?_
      obtain ⟨n, rfl⟩ := Int.eq_ofNat_of_zero_le he
      simp
    · rename_i he
      refine key m _ hm0 (Nat.pow_pos (by decide)) ?_
      obtain ⟨n, hn⟩ := Int.eq_ofNat_of_zero_le (show 0 ≤ -e by omega)
      have he' : e = -(n : Int) := by omega
      subst he'
      simp [div_eq_mul_inv]

/-- the unpacked form of `y as f32` for a finite `y` (no finiteness hypothesis on the result). -/
theorem down_unpack' (y : Float) (hy : y.isFinite = true) :
    (Cvt.down y : Float32).toModel.unpack = FM.unpackNat 23 8 (downBits y.toBits.toNat) := by
  have hb := y.toBits.toNat_lt
  obtain ⟨hf, _⟩ := toRat_bits y hy
  obtain ⟨hlt, _, _, s4⟩ := FB.downBits_spec _ hb
  have hnn : downBits y.toBits.toNat % 2 ^ 31 ≤ 0x7F800000 := by
    generalize downBits y.toBits.toNat = u at *
    generalize y.toBits.toNat = b at *
    omega
  have ht : (UInt32.ofNat (downBits y.toBits.toNat)).toNat = downBits y.toBits.toNat := by
    rw [UInt32.toNat_ofNat', Nat.mod_eq_of_lt hlt]
  rw [FB.down_eq, FM.float32_unpack_ofBits _ (by rw [ht]; exact hnn), ht]

/-- **the cast of a finite double of magnitude below `2¹²⁷` is a finite `f32`.** -/
theorem down_finite_of_lt (y : Float) (hy : y.isFinite = true) (h : |toRat y| < (2 : ℚ) ^ (127 : Int)) :
    (Cvt.down y : Float32).isFinite = true := by
  obtain ⟨hf, hv⟩ := toRat_bits y hy
  show (Cvt.down y : Float32).toModel.unpack.isFinite = true
  rw [down_unpack' y hy, unpackNat_isFinite]
  refine downBits_fin _ hf ?_
  rw [hv, mul_assoc, abs_mul, sgnQ_abs, one_mul,
    abs_of_nonneg (mul_nonneg (Nat.cast_nonneg _) (two_zpow_pos _).le)] at h
  exact h

/-- **the cast of a finite double of magnitude at most `1` is a finite `f32`** (the interpolation weight). -/
theorem down_finite_of_abs_le_one (y : Float) (hy : y.isFinite = true) (h : |toRat y| ≤ 1) :
    (Cvt.down y : Float32).isFinite = true :=
  down_finite_of_lt y hy (lt_of_le_of_lt h (one_lt_zpow₀ (by norm_num) (by norm_num)))

/-! ### non-vacuity / sharpness (closed values, evaluated by the kernel) -/

section Examples

/-- `sub_finite_of_nonneg_le` at the extreme: `f64::MAX ⊖ 1` (hypotheses hold; the threshold form `< 2¹⁰²³` would not apply). -/
example : (Float.ofBits 0x7FEFFFFFFFFFFFFF - 1).isFinite = true := by
  have h1 : toRat (1 : Float) = 1 := by rw [toRat_of_unpack unpack_1]; norm_num [sgnQ]
  have hM : (Float.ofBits 0x7FEFFFFFFFFFFFFF).toModel.unpack = .finite .positive 9007199254740991 971 (by decide) := by
    rw [FM.float_unpack_ofBits _ (by decide)]; rfl
  refine sub_finite_of_nonneg_le _ _ (by decide +kernel) (by decide +kernel) (by rw [h1]; norm_num) ?_
  rw [h1, toRat_of_unpack hM]
  have : (1 : ℚ) ≤ (2 : ℚ) ^ (971 : Int) := one_le_zpow₀ (by norm_num) (by norm_num)
  generalize (2 : ℚ) ^ (971 : Int) = T at *
  norm_num [sgnQ]; nlinarith

/-- the bound of the sharp form is attained and cannot be exceeded: `MAX ⊕ 0` is finite, `MAX ⊕ MAX` is not. -/
example : (Float.ofBits 0x7FEFFFFFFFFFFFFF + 0).isFinite = true ∧
    (Float.ofBits 0x7FEFFFFFFFFFFFFF + Float.ofBits 0x7FEFFFFFFFFFFFFF).isFinite = false := by decide +kernel

/-- `mul_finite_float32` on `3 · 5` (hypotheses, instance); `f32::MAX · 2` overflows. -/
example : ((3 : Float32) * 5).isFinite = true ∧
    (Float32.ofBits 0x7F7FFFFF * 2).isFinite = false := by
  refine ⟨mul_finite_float32 _ _ (by decide +kernel) (by decide +kernel) ?_, by decide +kernel⟩
  have h3 : (3 : Float32).toModel.unpack = .finite .positive 12582912 (-22) (by decide) := by
    have : (3 : Float32) = Float32.ofBits 0x40400000 := by decide +kernel
    rw [this, FM.float32_unpack_ofBits _ (by decide)]; rfl
  have h5 : (5 : Float32).toModel.unpack = .finite .positive 10485760 (-21) (by decide) := by
    have : (5 : Float32) = Float32.ofBits 0x40A00000 := by decide +kernel
    rw [this, FM.float32_unpack_ofBits _ (by decide)]; rfl
  rw [toRat32_of_unpack h3, toRat32_of_unpack h5]
  refine lt_of_le_of_lt ?_ (zpow_lt_zpow_right₀ (by norm_num) (by norm_num) : (2 : ℚ) ^ (4 : Int) < (2 : ℚ) ^ (127 : Int))
  norm_num [sgnQ]

/-- `down_finite_of_abs_le_one` on `0.1`; the threshold of `down_finite_of_lt` is of the right order: `2¹²⁸ as f32 = +∞`. -/
example : (Cvt.down (0.1 : Float) : Float32).isFinite = true ∧
    (Cvt.down (Float.ofBits 0x47F0000000000000) : Float32).isFinite = false := by
  refine ⟨down_finite_of_abs_le_one _ (by decide +kernel) ?_, by decide +kernel⟩
  rw [toRat_of_unpack unpack_0_1]
  norm_num [sgnQ]

end Examples

end Rosu.FErr
