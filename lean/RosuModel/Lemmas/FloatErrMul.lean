/-
  Lemmas/FloatErrMul.lean — the rounding-error layer of Lemmas/FloatErr.lean extended to **multiplication and
  division** of Lean ≥ 4.33's logical floats (`Float.Model`).

  `UnpackedFloat.mul` rounds the exact product `m₁m₂ · 2^(e₁+e₂)` with `roundWithAccuracy … .exact`;
  `UnpackedFloat.div` computes (`divCore`) the floor `N / m₂` of the shifted numerator `N = m₁ · 2^(e₁−e₂−t)` at the
  exponent `t = divT`, together with `accuracyOfFraction (N % m₂) m₂` — the sticky information about the remainder —
  and rounds that.  Both are instances of `roundWithAccuracy spec s (N / D) e (accuracyOfFraction (N % D) D)`, which
  Lemmas/FloatRoundMono.lean (`rwa_shape`) identifies with the renormalised round-to-nearest-even `rne N (D · 2^k)`
  of the *rational* `N / D` on the target grid.  Hence

  * `rwa_err`: the value of that rounding is `± R` with `|R − (N/D) · 2^e| ≤ 2^te / 2` (half an ulp of the target
    grid `te`, CORRECTLY ROUNDED: no double rounding, the remainder of the division is taken into account exactly),
    and `te = minExponent` or `2^(p−1) · 2^te ≤ (N/D) · 2^e` (a full mantissa);
  * `Rnd spec r V` packages "`r` is `V` rounded to half an ulp"; `Rnd.rel` (relative error `2^(−p)` in the normal
    range `2^(minExponent + p − 1) ≤ |V|`), `Rnd.abs_max` (`≤ max (2^(−p)·|V|) (2^(minExponent − 1))`, every input),
    `Rnd.abs_add`;
  * `mul_err_unpacked`, `div_err_unpacked` (every `Format`);
  * **`mul_err_float`**, **`div_err_float`**: the standard model `fl(a ∘ b) = (a ∘ b)(1 + δ)`, `|δ| ≤ 2⁻⁵³`, for doubles
    whose exact result is at least `2⁻¹⁰²²` in absolute value (and whose rounded result is finite);
    **`mul_err_abs_float`**, **`div_err_abs_float`**: `|fl(a ∘ b) − a ∘ b| ≤ max (2⁻⁵³ · |a ∘ b|) 2⁻¹⁰⁷⁵`, gradual underflow
    included; `div_err_float` does not need `b ≠ 0` as a hypothesis: a finite quotient of finite doubles has a
    non-zero divisor (`div_finite_divisor_ne_zero`).
  * Lemmas/FloatErrRange.lean adds the no-overflow side (`mul_ok`, `div_ok`: finiteness *and* the relative model from
    `2⁻¹⁰²² ≤ |exact| < 2¹⁰²³`), which is what the property files use on symbolic doubles.
-/
import RosuModel.Lemmas.FloatErr
namespace Rosu.FErr
open Float.Model Float.Model.UnpackedFloat Rosu.FMR Rosu.FRM Rosu.FAM

/-! ### the error of `roundWithAccuracy` on a rational mantissa -/

/-- **`roundWithAccuracy` of the floor of a rational with the matching accuracy is the correctly rounded rational**:
the value is `± R`, `R` within half an ulp (`2^te / 2`, `te` the target exponent) of the exact `(N / D) · 2^e`, and
the target grid is the subnormal one or the exact value has a full mantissa on it. -/
theorem rwa_err (spec : Format) (s : Sign) (N D : Nat) (hD : 0 < D) (e : Int) (he : e ≤ tgt spec (N / D) e) :
    ∃ R : ℚ, uval (roundWithAccuracy spec s (N / D) e (accuracyOfFraction (N % D) D)) = sgnQ s * R ∧
      |R - (N : ℚ) / (D : ℚ) * (2 : ℚ) ^ e| ≤ (2 : ℚ) ^ tgt spec (N / D) e / 2 ∧
      (tgt spec (N / D) e = spec.minExponent ∨
        (2 : ℚ) ^ (spec.mantissaBits - 1) * (2 : ℚ) ^ tgt spec (N / D) e ≤ (N : ℚ) / (D : ℚ) * (2 : ℚ) ^ e) := by
  obtain ⟨hs, _⟩ := rwa_shape spec s N D hD e he
  refine ⟨_, uval_of_shape hs, ?_, ?_⟩
  all_goals
    have hte : (2 : ℚ) ^ tgt spec (N / D) e = (2 : ℚ) ^ e * (2 : ℚ) ^ (tgt spec (N / D) e - e).toNat := by
      rw [← zpow_natCast, ← zpow_add₀ (two_ne_zero)]; congr 1; omega
    have hP := two_zpow_pos e
    have hDq : (0 : ℚ) < (D : ℚ) := by exact_mod_cast hD
  · obtain ⟨n1, n2⟩ := rne_near N (D * 2 ^ (tgt spec (N / D) e - e).toNat) (Nat.mul_pos hD (Nat.two_pow_pos _))
    have c1 : (2 * ((rne N (D * 2 ^ (tgt spec (N / D) e - e).toNat) : ℚ) *
        ((D : ℚ) * (2 : ℚ) ^ (tgt spec (N / D) e - e).toNat)) : ℚ) ≤
        2 * (N : ℚ) + (D : ℚ) * (2 : ℚ) ^ (tgt spec (N / D) e - e).toNat := by exact_mod_cast n1
    have c2 : (2 * (N : ℚ) : ℚ) ≤ 2 * ((rne N (D * 2 ^ (tgt spec (N / D) e - e).toNat) : ℚ) *
        ((D : ℚ) * (2 : ℚ) ^ (tgt spec (N / D) e - e).toNat)) +
        (D : ℚ) * (2 : ℚ) ^ (tgt spec (N / D) e - e).toNat := by exact_mod_cast n2
    rw [hte]
    generalize ((rne N (D * 2 ^ (tgt spec (N / D) e - e).toNat) : Nat) : ℚ) = q at *
    generalize (2 : ℚ) ^ (tgt spec (N / D) e - e).toNat = K at *
    generalize (2 : ℚ) ^ e = P at *
    obtain ⟨x, hx⟩ : ∃ x : ℚ, (N : ℚ) = x * (D : ℚ) := ⟨(N : ℚ) / D, by field_simp⟩
    have hxd : (N : ℚ) / (D : ℚ) = x := by rw [hx]; field_simp
    rw [hx] at c1 c2
    rw [hxd]
    have e1 : q * (P * K) - x * P = (q * K - x) * P := by ring
    rw [e1, abs_mul, abs_of_pos hP]
    have d1 : 2 * (q * K) ≤ 2 * x + K := by
      have : (D : ℚ) * (2 * (q * K)) ≤ (D : ℚ) * (2 * x + K) := by nlinarith
      exact le_of_mul_le_mul_left this hDq
    have d2 : 2 * x ≤ 2 * (q * K) + K := by
      have : (D : ℚ) * (2 * x) ≤ (D : ℚ) * (2 * (q * K) + K) := by nlinarith
      exact le_of_mul_le_mul_left this hDq
    have : |q * K - x| ≤ K / 2 := by rw [abs_le]; constructor <;> linarith
    calc |q * K - x| * P ≤ K / 2 * P := mul_le_mul_of_nonneg_right this hP.le
      _ = P * K / 2 := by ring
  · by_cases hm : N / D = 0
    · left; rw [hm] at he ⊢; exact tgt_zero_of_le spec e he
    · by_cases hmin : tgt spec (N / D) e = spec.minExponent
      · exact Or.inl hmin
      · right
        have hg := tgt_ge_min spec (N / D) e
        have hfl : N / (D * 2 ^ (tgt spec (N / D) e - e).toNat) = fl spec (N / D) e := by
          unfold fl aligned dropBits
          have : (e - tgt spec (N / D) e).toNat = 0 := by omega
          rw [this, Nat.pow_zero, Nat.mul_one, Nat.div_div_eq_div_mul]
        have h1 := fl_ge spec (N / D) hm e (by omega)
        rw [← hfl, Nat.le_div_iff_mul_le (Nat.mul_pos hD (Nat.two_pow_pos _))] at h1
        have c : ((2 : ℚ) ^ (spec.mantissaBits - 1) * ((D : ℚ) * (2 : ℚ) ^ (tgt spec (N / D) e - e).toNat) : ℚ) ≤
            (N : ℚ) := by exact_mod_cast h1
        rw [hte]
        generalize (2 : ℚ) ^ (tgt spec (N / D) e - e).toNat = K at *
        generalize (2 : ℚ) ^ e = P at *
        generalize (2 : ℚ) ^ (spec.mantissaBits - 1) = B at *
        have : B * K ≤ (N : ℚ) / (D : ℚ) := by
          rw [le_div_iff₀ hDq]; linarith
        calc B * (P * K) = B * K * P := by ring
          _ ≤ (N : ℚ) / (D : ℚ) * P := mul_le_mul_of_nonneg_right this hP.le

/-! ### "`r` is `V` correctly rounded" -/

/-- `r` is the exact value `V` rounded to within half an ulp of a grid `2^te` of the format, on which `V` has a full
mantissa unless the grid is the subnormal one. -/
def Rnd (spec : Format) (r V : ℚ) : Prop :=
  ∃ te : Int, spec.minExponent ≤ te ∧ |r - V| ≤ (2 : ℚ) ^ te / 2 ∧
    (te = spec.minExponent ∨ (2 : ℚ) ^ (spec.mantissaBits - 1) * (2 : ℚ) ^ te ≤ |V|)

theorem Rnd.zero (spec : Format) : Rnd spec 0 0 :=
  ⟨spec.minExponent, le_refl _, by rw [sub_self, abs_zero]; exact (div_pos (two_zpow_pos _) (by norm_num)).le,
    Or.inl rfl⟩

/-- half an ulp of a grid on which `V` has a full mantissa is at most `2^(−p) · |V|`. -/
theorem half_ulp_le (spec : Format) (te : Int) (V : ℚ)
    (h : (2 : ℚ) ^ (spec.mantissaBits - 1) * (2 : ℚ) ^ te ≤ |V|) :
    (2 : ℚ) ^ te / 2 ≤ (2 : ℚ) ^ (-(spec.mantissaBits : Int)) * |V| := by
  obtain ⟨n, hn⟩ : ∃ n, spec.mantissaBits = n + 1 := ⟨spec.mantissaBits - 1, by have := mantissaBits_pos spec; omega⟩
  rw [hn, Nat.add_sub_cancel] at h
  rw [hn, zpow_neg, zpow_natCast, pow_succ]
  have hn2 : (0 : ℚ) < (2 : ℚ) ^ n := by positivity
  have : (2 : ℚ) ^ te / 2 = ((2 : ℚ) ^ n * 2)⁻¹ * ((2 : ℚ) ^ n * (2 : ℚ) ^ te) := by field_simp
  rw [this]
  exact mul_le_mul_of_nonneg_left h (by positivity)

/-- half an ulp of the subnormal grid. -/
theorem half_ulp_min (spec : Format) :
    (2 : ℚ) ^ spec.minExponent / 2 = (2 : ℚ) ^ (spec.minExponent - 1) := by
  rw [zpow_sub₀ (two_ne_zero), zpow_one]

/-- **relative error `2^(−p)` in the normal range** `2^(minExponent + p − 1) ≤ |V|`. -/
theorem Rnd.rel_abs {spec : Format} {r V : ℚ} (h : Rnd spec r V)
    (hn : (2 : ℚ) ^ (spec.minExponent + (spec.mantissaBits : Int) - 1) ≤ |V|) :
    |r - V| ≤ (2 : ℚ) ^ (-(spec.mantissaBits : Int)) * |V| := by
  obtain ⟨te, _, h1, h2⟩ := h
  refine le_trans h1 ?_
  rcases h2 with rfl | h2
  · rw [half_ulp_min]
    have : (2 : ℚ) ^ (spec.minExponent - 1) =
        (2 : ℚ) ^ (-(spec.mantissaBits : Int)) * (2 : ℚ) ^ (spec.minExponent + (spec.mantissaBits : Int) - 1) := by
      rw [← zpow_add₀ (two_ne_zero)]; congr 1; omega
    rw [this]
    exact mul_le_mul_of_nonneg_left hn (two_zpow_pos _).le
  · exact half_ulp_le spec te V h2

/-- the relative form: `r = V (1 + δ)`, `|δ| ≤ 2^(−p)`. -/
theorem Rnd.rel {spec : Format} {r V : ℚ} (h : Rnd spec r V)
    (hn : (2 : ℚ) ^ (spec.minExponent + (spec.mantissaBits : Int) - 1) ≤ |V|) :
    ∃ δ : ℚ, |δ| ≤ (2 : ℚ) ^ (-(spec.mantissaBits : Int)) ∧ r = V * (1 + δ) := by
  have hV : 0 < |V| := lt_of_lt_of_le (two_zpow_pos _) hn
  have hV0 : V ≠ 0 := abs_pos.mp hV
  refine ⟨(r - V) / V, ?_, by field_simp; ring⟩
  rw [abs_div, div_le_iff₀ hV]
  exact h.rel_abs hn

/-- **every input, gradual underflow included**: `|r − V| ≤ max (2^(−p) · |V|) (2^(minExponent − 1))`. -/
theorem Rnd.abs_max {spec : Format} {r V : ℚ} (h : Rnd spec r V) :
    |r - V| ≤ max ((2 : ℚ) ^ (-(spec.mantissaBits : Int)) * |V|) ((2 : ℚ) ^ (spec.minExponent - 1)) := by
  obtain ⟨te, _, h1, h2⟩ := h
  refine le_trans h1 ?_
  rcases h2 with rfl | h2
  · rw [half_ulp_min]; exact le_max_right _ _
  · exact le_trans (half_ulp_le spec te V h2) (le_max_left _ _)

/-- the additive form `|r − V| ≤ 2^(−p) · |V| + 2^(minExponent − 1)`. -/
theorem Rnd.abs_add {spec : Format} {r V : ℚ} (h : Rnd spec r V) :
    |r - V| ≤ (2 : ℚ) ^ (-(spec.mantissaBits : Int)) * |V| + (2 : ℚ) ^ (spec.minExponent - 1) := by
  refine le_trans h.abs_max (max_le ?_ ?_)
  · have := (two_zpow_pos (spec.minExponent - 1)).le; linarith
  · have : (0 : ℚ) ≤ (2 : ℚ) ^ (-(spec.mantissaBits : Int)) * |V| := mul_nonneg (two_zpow_pos _).le (abs_nonneg _)
    linarith

theorem sgnQ_abs (s : Sign) : |sgnQ s| = 1 := by cases s <;> simp [sgnQ]

theorem sgnQ_mul (s t : Sign) : sgnQ (s * t) = sgnQ s * sgnQ t := by
  cases s <;> cases t <;> simp [sgnQ]

theorem sign_div_eq_mul (s t : Sign) : s / t = s * t := by cases s <;> cases t <;> rfl

theorem sgnQ_div (s t : Sign) : sgnQ (s / t) = sgnQ s * sgnQ t := by
  rw [sign_div_eq_mul, sgnQ_mul]

/-- `rwa_err` packaged: the signed value is the signed exact value, correctly rounded. -/
theorem rwa_rnd (spec : Format) (s : Sign) (N D : Nat) (hD : 0 < D) (e : Int) (he : e ≤ tgt spec (N / D) e) :
    Rnd spec (uval (roundWithAccuracy spec s (N / D) e (accuracyOfFraction (N % D) D)))
      (sgnQ s * ((N : ℚ) / (D : ℚ) * (2 : ℚ) ^ e)) := by
  obtain ⟨R, hR, h1, h2⟩ := rwa_err spec s N D hD e he
  have hV : (0 : ℚ) ≤ (N : ℚ) / (D : ℚ) * (2 : ℚ) ^ e :=
    mul_nonneg (div_nonneg (Nat.cast_nonneg _) (Nat.cast_nonneg _)) (two_zpow_pos e).le
  refine ⟨tgt spec (N / D) e, tgt_ge_min spec _ _, ?_, ?_⟩
  · rw [hR, ← mul_sub, abs_mul, sgnQ_abs, one_mul]; exact h1
  · rw [abs_mul, sgnQ_abs, one_mul, abs_of_nonneg hV]; exact h2

/-! ### multiplication and division, every format -/

/-- **multiplication is correctly rounded** (unpacked level, before `pack`): for canonical finite operands the product
is a zero or finite and its value is the exact product rounded to half an ulp. -/
theorem mul_err_unpacked (spec : Format) (a b : UnpackedFloat) (ha : Canon spec a) (hb : Canon spec b)
    (fa : a.isFinite = true) (fb : b.isFinite = true) :
    (UnpackedFloat.mul spec a b).isFinite = true ∧ Rnd spec (uval (UnpackedFloat.mul spec a b)) (uval a * uval b) := by
  match a, b, ha, hb, fa, fb with
  | .zero s, .zero s', _, _, _, _ =>
    refine ⟨rfl, ?_⟩
    have : uval (UnpackedFloat.mul spec (.zero s) (.zero s')) = 0 := rfl
    rw [this]; simp only [uval, mul_zero]; exact Rnd.zero spec
  | .zero s, .finite s' m e hm, _, _, _, _ =>
    refine ⟨rfl, ?_⟩
    have : uval (UnpackedFloat.mul spec (.zero s) (.finite s' m e hm)) = 0 := rfl
    rw [this]; simp only [uval, zero_mul]; exact Rnd.zero spec
  | .finite s m e hm, .zero s', _, _, _, _ =>
    refine ⟨rfl, ?_⟩
    have : uval (UnpackedFloat.mul spec (.finite s m e hm) (.zero s')) = 0 := rfl
    rw [this]; simp only [uval, mul_zero]; exact Rnd.zero spec
  | .finite s₁ m₁ e₁ h₁, .finite s₂ m₂ e₂ h₂, ha, hb, _, _ =>
    have hg := mul_tgt_ge spec ha hb h₁ h₂
    rw [mul_fin]
    constructor
    · rcases (rwa_exact_shape spec (s₁ * s₂) _ _ hg).1 with h | ⟨m', e', p', h⟩ <;> rw [h] <;> rfl
    · have h := rwa_rnd spec (s₁ * s₂) (m₁ * m₂) 1 (by omega) (e₁ + e₂) (by rw [Nat.div_one]; exact hg)
      rw [← rwa_exact_eq] at h
      have hv : sgnQ (s₁ * s₂) * (((m₁ * m₂ : Nat) : ℚ) / ((1 : Nat) : ℚ) * (2 : ℚ) ^ (e₁ + e₂)) =
          uval (.finite s₁ m₁ e₁ h₁) * uval (.finite s₂ m₂ e₂ h₂) := by
        simp only [uval]
        rw [sgnQ_mul, zpow_add₀ (two_ne_zero)]; push_cast; ring
      rw [hv] at h; exact h

/-- **division is correctly rounded** (unpacked level): for finite operands with a non-zero divisor the quotient is a
zero or finite, and its value is the exact quotient rounded to half an ulp — the remainder of the integer division
enters the rounding decision exactly (`accuracyOfFraction`), so there is no double rounding. -/
theorem div_err_unpacked (spec : Format) (a : UnpackedFloat) (fa : a.isFinite = true)
    (s₂ : Sign) (m₂ : Nat) (e₂ : Int) (h₂ : 0 < m₂) :
    (UnpackedFloat.div spec a (.finite s₂ m₂ e₂ h₂)).isFinite = true ∧
    Rnd spec (uval (UnpackedFloat.div spec a (.finite s₂ m₂ e₂ h₂))) (uval a / uval (.finite s₂ m₂ e₂ h₂)) := by
  match a, fa with
  | .zero s, _ =>
    refine ⟨rfl, ?_⟩
    have : uval (UnpackedFloat.div spec (.zero s) (.finite s₂ m₂ e₂ h₂)) = 0 := rfl
    rw [this]; simp only [uval, zero_div]; exact Rnd.zero spec
  | .finite s₁ m₁ e₁ h₁, _ =>
    have hg := div_tgt_ge spec m₁ m₂ e₁ e₂ h₁ h₂
    rw [div_fin]
    constructor
    · have hs : Shape spec (s₁ / s₂) _ _ _ := (rwa_shape spec (s₁ / s₂) _ m₂ h₂ _ hg).1
      rcases Shape.zeroOrFin hs with h | ⟨m', e', p', h⟩ <;> rw [h] <;> rfl
    · have h := rwa_rnd spec (s₁ / s₂) (divN spec m₁ e₁ m₂ e₂) m₂ h₂ (divT spec m₁ e₁ m₂ e₂) hg
      have hle := divT_le spec m₁ m₂ e₁ e₂
      have hm2 : (m₂ : ℚ) ≠ 0 := by exact_mod_cast (by omega : m₂ ≠ 0)
      have hp : (2 : ℚ) ^ (e₁ - e₂ - divT spec m₁ e₁ m₂ e₂).toNat * (2 : ℚ) ^ divT spec m₁ e₁ m₂ e₂ =
          (2 : ℚ) ^ e₁ / (2 : ℚ) ^ e₂ := by
        rw [← zpow_natCast, ← zpow_add₀ (two_ne_zero), ← zpow_sub₀ (two_ne_zero)]; congr 1; omega
      have hv : sgnQ (s₁ / s₂) * (((divN spec m₁ e₁ m₂ e₂ : Nat) : ℚ) / (m₂ : ℚ) *
          (2 : ℚ) ^ divT spec m₁ e₁ m₂ e₂) = uval (.finite s₁ m₁ e₁ h₁) / uval (.finite s₂ m₂ e₂ h₂) := by
        simp only [uval]
        unfold divN
        rw [sgnQ_div]; push_cast
        have h2 : (2 : ℚ) ^ e₂ ≠ 0 := (two_zpow_pos e₂).ne'
        have hs2 : sgnQ s₂ ≠ 0 := by cases s₂ <;> simp [sgnQ]
        have hss : sgnQ s₂ = 1 / sgnQ s₂ := by cases s₂ <;> simp [sgnQ]
        calc sgnQ s₁ * sgnQ s₂ * ((m₁ : ℚ) * (2 : ℚ) ^ (e₁ - e₂ - divT spec m₁ e₁ m₂ e₂).toNat / (m₂ : ℚ) *
              (2 : ℚ) ^ divT spec m₁ e₁ m₂ e₂)
            = sgnQ s₁ * sgnQ s₂ * ((m₁ : ℚ) / (m₂ : ℚ)) *
              ((2 : ℚ) ^ (e₁ - e₂ - divT spec m₁ e₁ m₂ e₂).toNat * (2 : ℚ) ^ divT spec m₁ e₁ m₂ e₂) := by ring
          _ = sgnQ s₁ * sgnQ s₂ * ((m₁ : ℚ) / (m₂ : ℚ)) * ((2 : ℚ) ^ e₁ / (2 : ℚ) ^ e₂) := by rw [hp]
          _ = sgnQ s₁ * (1 / sgnQ s₂) * ((m₁ : ℚ) / (m₂ : ℚ)) * ((2 : ℚ) ^ e₁ / (2 : ℚ) ^ e₂) := by rw [← hss]
          _ = sgnQ s₁ * (m₁ : ℚ) * (2 : ℚ) ^ e₁ / (sgnQ s₂ * (m₂ : ℚ) * (2 : ℚ) ^ e₂) := by field_simp
      rw [hv] at h; exact h

/-! ### `Float` (binary64) -/

theorem b64_mantissaBits : Format.binary64.mantissaBits = 53 := by decide
theorem b64_minExponent : Format.binary64.minExponent = -1074 := by decide

/-- "`r` is `V` correctly rounded to a double": half an ulp, on a grid `2^te ≥ 2⁻¹⁰⁷⁴`. -/
abbrev Rnd64 (r V : ℚ) : Prop := Rnd Format.binary64 r V

/-- **relative form for doubles**: `2⁻¹⁰²² ≤ |V|` ⟹ `r = V(1 + δ)`, `|δ| ≤ 2⁻⁵³`. -/
theorem Rnd64.rel {r V : ℚ} (h : Rnd64 r V) (hn : (2 : ℚ) ^ (-1022 : Int) ≤ |V|) :
    ∃ δ : ℚ, |δ| ≤ (2 : ℚ) ^ (-53 : Int) ∧ r = V * (1 + δ) := by
  have := Rnd.rel h (by rw [b64_minExponent, b64_mantissaBits]; exact hn)
  rw [b64_mantissaBits] at this; exact this

/-- **absolute form for doubles, every input**: `|r − V| ≤ max (2⁻⁵³ · |V|) 2⁻¹⁰⁷⁵`. -/
theorem Rnd64.abs_max {r V : ℚ} (h : Rnd64 r V) :
    |r - V| ≤ max ((2 : ℚ) ^ (-53 : Int) * |V|) ((2 : ℚ) ^ (-1075 : Int)) := by
  have := Rnd.abs_max h
  rw [b64_minExponent, b64_mantissaBits] at this; exact this

theorem Rnd64.abs_add {r V : ℚ} (h : Rnd64 r V) :
    |r - V| ≤ (2 : ℚ) ^ (-53 : Int) * |V| + (2 : ℚ) ^ (-1075 : Int) := by
  have := Rnd.abs_add h
  rw [b64_minExponent, b64_mantissaBits] at this; exact this

/-- **double multiplication is correctly rounded**: `a`, `b`, `a * b` finite ⟹ `toRat (a * b)` is the exact product
rounded to half an ulp. -/
theorem mul_rnd_float (a b : Float) (ha : a.isFinite = true) (hb : b.isFinite = true)
    (hab : (a * b).isFinite = true) : Rnd64 (toRat (a * b)) (toRat a * toRat b) := by
  have hab' : (a * b).toModel.unpack.isFinite = true := hab
  have hc := mul_canon Format.binary64 _ _ (float_canon a) (float_canon b)
  obtain ⟨_, hv⟩ := mul_err_unpacked Format.binary64 _ _ (float_canon a) (float_canon b) ha hb
  unfold toRat
  rw [float_mul_unpack] at hab' ⊢
  rcases repack_cases Format.binary64 (by decide) _ hc with ⟨h1, _⟩ | ⟨s, m, e, p, _, _, h1⟩
  · rw [h1]; exact hv
  · rw [h1] at hab'; cases hab'

/-- **the standard model of floating-point multiplication for doubles**: `a`, `b` finite, `a * b` not overflowing and
the exact product not in the subnormal range (`2⁻¹⁰²² ≤ |a · b|`) ⟹ `fl(a · b) = a · b · (1 + δ)`, `|δ| ≤ 2⁻⁵³`. -/
theorem mul_err_float (a b : Float) (ha : a.isFinite = true) (hb : b.isFinite = true)
    (hab : (a * b).isFinite = true) (hnorm : (2 : ℚ) ^ (-1022 : Int) ≤ |toRat a * toRat b|) :
    ∃ δ : ℚ, |δ| ≤ (2 : ℚ) ^ (-53 : Int) ∧ toRat (a * b) = toRat a * toRat b * (1 + δ) :=
  (mul_rnd_float a b ha hb hab).rel hnorm

/-- **the absolute form, valid in the subnormal range too**: `|fl(a · b) − a · b| ≤ max (2⁻⁵³ · |a · b|) 2⁻¹⁰⁷⁵`. -/
theorem mul_err_abs_float (a b : Float) (ha : a.isFinite = true) (hb : b.isFinite = true)
    (hab : (a * b).isFinite = true) :
    |toRat (a * b) - toRat a * toRat b| ≤ max ((2 : ℚ) ^ (-53 : Int) * |toRat a * toRat b|) ((2 : ℚ) ^ (-1075 : Int)) :=
  (mul_rnd_float a b ha hb hab).abs_max

/-- a finite quotient of finite doubles has a non-zero divisor: its unpacked form is `finite`. -/
theorem div_finite_divisor (a b : Float) (ha : a.isFinite = true) (hb : b.isFinite = true)
    (hab : (a / b).isFinite = true) : ∃ s m e hm, b.toModel.unpack = .finite s m e hm := by
  have hab' : (a / b).toModel.unpack.isFinite = true := hab
  have ha' : a.toModel.unpack.isFinite = true := ha
  have hb' : b.toModel.unpack.isFinite = true := hb
  rw [float_div_unpack] at hab'
  have hc := div_canon Format.binary64 a.toModel.unpack b.toModel.unpack
  have hd : (UnpackedFloat.div Format.binary64 a.toModel.unpack b.toModel.unpack).isFinite = true := by
    rcases repack_cases Format.binary64 (by decide) _ hc with ⟨h1, _⟩ | ⟨s, m, e, p, _, _, h1⟩
    · rw [h1] at hab'; exact hab'
    · rw [h1] at hab'; cases hab'
  generalize a.toModel.unpack = ua at *
  generalize b.toModel.unpack = ub at *
  match ua, ub, ha', hb', hd with
  | .zero _, .finite s m e hm, _, _, _ => exact ⟨s, m, e, hm, rfl⟩
  | .finite .., .finite s m e hm, _, _, _ => exact ⟨s, m, e, hm, rfl⟩

theorem div_finite_divisor_ne_zero (a b : Float) (ha : a.isFinite = true) (hb : b.isFinite = true)
    (hab : (a / b).isFinite = true) : toRat b ≠ 0 := by
  obtain ⟨s, m, e, hm, h⟩ := div_finite_divisor a b ha hb hab
  rw [toRat_of_unpack h]
  have h1 : (m : ℚ) ≠ 0 := by exact_mod_cast (by omega : m ≠ 0)
  have h2 : sgnQ s ≠ 0 := by cases s <;> simp [sgnQ]
  exact mul_ne_zero (mul_ne_zero h2 h1) (two_zpow_pos e).ne'

/-- **double division is correctly rounded**: `a`, `b`, `a / b` finite ⟹ `toRat (a / b)` is the exact quotient rounded
to half an ulp (and `b ≠ 0`, see `div_finite_divisor_ne_zero`). -/
theorem div_rnd_float (a b : Float) (ha : a.isFinite = true) (hb : b.isFinite = true)
    (hab : (a / b).isFinite = true) : Rnd64 (toRat (a / b)) (toRat a / toRat b) := by
  have hab' : (a / b).toModel.unpack.isFinite = true := hab
  have ha' : a.toModel.unpack.isFinite = true := ha
  obtain ⟨s, m, e, hm, hbu⟩ := div_finite_divisor a b ha hb hab
  have hc := div_canon Format.binary64 a.toModel.unpack b.toModel.unpack
  unfold toRat
  rw [float_div_unpack] at hab' ⊢
  rw [hbu] at hab' hc ⊢
  obtain ⟨_, hv⟩ := div_err_unpacked Format.binary64 a.toModel.unpack ha' s m e hm
  rcases repack_cases Format.binary64 (by decide) _ hc with ⟨h1, _⟩ | ⟨s', m', e', p, _, _, h1⟩
  · rw [h1]; exact hv
  · rw [h1] at hab'; cases hab'

/-- **the standard model of floating-point division for doubles**: `a`, `b` finite, `a / b` finite (so `b ≠ 0`, no
overflow) and the exact quotient not in the subnormal range ⟹ `fl(a / b) = (a / b)(1 + δ)`, `|δ| ≤ 2⁻⁵³`. This is the
full-strength half-ulp statement (not the `2⁻⁵²` of a truncated quotient): the sticky remainder is exact. -/
theorem div_err_float (a b : Float) (ha : a.isFinite = true) (hb : b.isFinite = true)
    (hab : (a / b).isFinite = true) (hnorm : (2 : ℚ) ^ (-1022 : Int) ≤ |toRat a / toRat b|) :
    ∃ δ : ℚ, |δ| ≤ (2 : ℚ) ^ (-53 : Int) ∧ toRat (a / b) = toRat a / toRat b * (1 + δ) :=
  (div_rnd_float a b ha hb hab).rel hnorm

/-- **the absolute form, valid in the subnormal range too**: `|fl(a / b) − a / b| ≤ max (2⁻⁵³ · |a / b|) 2⁻¹⁰⁷⁵`. -/
theorem div_err_abs_float (a b : Float) (ha : a.isFinite = true) (hb : b.isFinite = true)
    (hab : (a / b).isFinite = true) :
    |toRat (a / b) - toRat a / toRat b| ≤ max ((2 : ℚ) ^ (-53 : Int) * |toRat a / toRat b|) ((2 : ℚ) ^ (-1075 : Int)) :=
  (div_rnd_float a b ha hb hab).abs_max

/-! ### non-vacuity (closed doubles, evaluated by the kernel) -/

section Examples

theorem unpack_0_3 : (0.3 : Float).toModel.unpack = .finite .positive 5404319552844595 (-54) (by decide) := by
  have : (0.3 : Float) = Float.ofBits 0x3FD3333333333333 := by decide +kernel
  rw [this, FM.float_unpack_ofBits _ (by decide)]; rfl

theorem unpack_0_1_mul_0_3 :
    ((0.1 : Float) * 0.3).toModel.unpack = .finite .positive 8646911284551352 (-58) (by decide) := by
  have : (0.1 : Float) * 0.3 = Float.ofBits 0x3F9EB851EB851EB8 := by decide +kernel
  rw [this, FM.float_unpack_ofBits _ (by decide)]; rfl

theorem unpack_1 : (1 : Float).toModel.unpack = .finite .positive 4503599627370496 (-52) (by decide) := by
  have : (1 : Float) = Float.ofBits 0x3FF0000000000000 := by decide +kernel
  rw [this, FM.float_unpack_ofBits _ (by decide)]; rfl

theorem unpack_3 : (3 : Float).toModel.unpack = .finite .positive 6755399441055744 (-51) (by decide) := by
  have : (3 : Float) = Float.ofBits 0x4008000000000000 := by decide +kernel
  rw [this, FM.float_unpack_ofBits _ (by decide)]; rfl

theorem unpack_1_div_3 :
    ((1 : Float) / 3).toModel.unpack = .finite .positive 6004799503160661 (-54) (by decide) := by
  have : (1 : Float) / 3 = Float.ofBits 0x3FD5555555555555 := by decide +kernel
  rw [this, FM.float_unpack_ofBits _ (by decide)]; rfl

/-- the hypotheses of `mul_err_float` hold on `0.1 * 0.3`. -/
example : (0.1 : Float).isFinite = true ∧ (0.3 : Float).isFinite = true ∧ ((0.1 : Float) * 0.3).isFinite = true ∧
    (2 : ℚ) ^ (-1022 : Int) ≤ |toRat (0.1 : Float) * toRat (0.3 : Float)| := by
  refine ⟨by decide +kernel, by decide +kernel, by decide +kernel, ?_⟩
  rw [toRat_of_unpack unpack_0_1, toRat_of_unpack unpack_0_3]
  refine le_trans (zpow_le_zpow_right₀ (by norm_num) (by norm_num) : (2 : ℚ) ^ (-1022 : Int) ≤ (2 : ℚ) ^ (-10 : Int)) ?_
  norm_num [sgnQ]

/-- … and the `δ` of the instance, computed: `0.1 * 0.3 = 0.03 · (1 − 1/18014398509481985)`, `|δ| ≈ 0.5 · 2⁻⁵³`,
`δ ≠ 0`: the product is not exact. -/
example : toRat ((0.1 : Float) * 0.3) =
      toRat (0.1 : Float) * toRat (0.3 : Float) * (1 + -1 / 18014398509481985) ∧
    |(-1 / 18014398509481985 : ℚ)| ≤ (2 : ℚ) ^ (-53 : Int) := by
  rw [toRat_of_unpack unpack_0_1_mul_0_3, toRat_of_unpack unpack_0_1, toRat_of_unpack unpack_0_3]
  constructor
  · norm_num [sgnQ]
  · rw [abs_of_neg (by norm_num)]; norm_num

/-- the hypotheses of `div_err_float` hold on `1 / 3`, and the instance. -/
example : ∃ δ : ℚ, |δ| ≤ (2 : ℚ) ^ (-53 : Int) ∧ toRat ((1 : Float) / 3) = toRat (1 : Float) / toRat (3 : Float) * (1 + δ) :=
  div_err_float _ _ (by decide +kernel) (by decide +kernel) (by decide +kernel) (by
    rw [toRat_of_unpack unpack_1, toRat_of_unpack unpack_3]
    refine le_trans (zpow_le_zpow_right₀ (by norm_num) (by norm_num) : (2 : ℚ) ^ (-1022 : Int) ≤ (2 : ℚ) ^ (-10 : Int)) ?_
    norm_num [sgnQ])

/-- … with the `δ` computed: `fl(1 / 3) = (1/3)(1 − 2⁻⁵⁴)` — exactly half the bound. -/
example : toRat ((1 : Float) / 3) = toRat (1 : Float) / toRat (3 : Float) * (1 + -1 / 18014398509481984) ∧
    |(-1 / 18014398509481984 : ℚ)| ≤ (2 : ℚ) ^ (-53 : Int) := by
  rw [toRat_of_unpack unpack_1_div_3, toRat_of_unpack unpack_1, toRat_of_unpack unpack_3]
  constructor
  · norm_num [sgnQ]
  · rw [abs_of_neg (by norm_num)]; norm_num

/-- the smallest normal double (plus 3 ulps), `x = 4503599627370499 · 2⁻¹⁰⁷⁴`. -/
theorem unpack_tiny : (Float.ofBits 0x0010000000000003).toModel.unpack =
    .finite .positive 4503599627370499 (-1074) (by decide) := by
  rw [FM.float_unpack_ofBits _ (by decide)]; rfl

theorem unpack_tiny_mul_0_3 : (Float.ofBits 0x0010000000000003 * (0.3 : Float)).toModel.unpack =
    .finite .positive 1351079888211150 (-1074) (by decide) := by
  have : Float.ofBits 0x0010000000000003 * (0.3 : Float) = Float.ofBits 0x0004CCCCCCCCCCCE := by decide +kernel
  rw [this, FM.float_unpack_ofBits _ (by decide)]; rfl

/-- **an underflowing product**: `x · 0.3` with `x` just above `2⁻¹⁰²²` is subnormal. The normal-range hypothesis of
`mul_err_float` fails, and so does its conclusion — the relative error exceeds `2⁻⁵³` (it is `≈ 2.33 · 2⁻⁵³`) — while
the absolute bound `2⁻¹⁰⁷⁵` of `mul_err_abs_float` holds (the error is `≈ 0.70 · 2⁻¹⁰⁷⁵`). -/
example :
    (Float.ofBits 0x0010000000000003 * (0.3 : Float)).isFinite = true ∧
    ¬ (2 : ℚ) ^ (-1022 : Int) ≤ |toRat (Float.ofBits 0x0010000000000003) * toRat (0.3 : Float)| ∧
    (2 : ℚ) ^ (-53 : Int) * |toRat (Float.ofBits 0x0010000000000003) * toRat (0.3 : Float)| <
      |toRat (Float.ofBits 0x0010000000000003 * (0.3 : Float)) -
        toRat (Float.ofBits 0x0010000000000003) * toRat (0.3 : Float)| ∧
    |toRat (Float.ofBits 0x0010000000000003 * (0.3 : Float)) -
        toRat (Float.ofBits 0x0010000000000003) * toRat (0.3 : Float)| ≤ (2 : ℚ) ^ (-1075 : Int) := by
  rw [toRat_of_unpack unpack_tiny_mul_0_3, toRat_of_unpack unpack_tiny, toRat_of_unpack unpack_0_3]
  have hT := two_zpow_pos (-1074)
  have e1 : (2 : ℚ) ^ (-1022 : Int) = 4503599627370496 * (2 : ℚ) ^ (-1074 : Int) := by
    rw [show (-1022 : Int) = 52 + -1074 by norm_num, zpow_add₀ (two_ne_zero)]; norm_num
  have e2 : (2 : ℚ) ^ (-1075 : Int) = (2 : ℚ) ^ (-1074 : Int) / 2 := by
    rw [show (-1075 : Int) = -1074 - 1 by norm_num, zpow_sub_one₀ (two_ne_zero)]; ring
  rw [e1, e2]
  generalize (2 : ℚ) ^ (-1074 : Int) = T at hT
  have hV : sgnQ .positive * ((4503599627370499 : Nat) : ℚ) * T *
      (sgnQ .positive * ((5404319552844595 : Nat) : ℚ) * (2 : ℚ) ^ (-54 : Int)) =
      24338891524382019820975434602905 / 18014398509481984 * T := by norm_num [sgnQ]; ring
  have hR : sgnQ .positive * ((1351079888211150 : Nat) : ℚ) * T -
      24338891524382019820975434602905 / 18014398509481984 * T = 6305039478318695 / 18014398509481984 * T := by
    norm_num [sgnQ]; ring
  rw [hV, hR, abs_of_pos (by positivity), abs_of_pos (by positivity)]
  refine ⟨by decide +kernel, ?_, ?_, ?_⟩
  · rw [not_le]; nlinarith
  · norm_num; nlinarith
  · nlinarith

/-- total underflow: the square of the smallest positive double is `+0`; exact value `2⁻²¹⁴⁸`, error `≤ 2⁻¹⁰⁷⁵`. -/
example : Float.ofBits 1 * Float.ofBits 1 = Float.ofBits 0 := by decide +kernel

/-- the finiteness hypothesis of `div_err_float` excludes the zero divisor: `1 / 0 = +∞`. -/
example : ((1 : Float) / 0).isFinite = false := by decide +kernel

/-- the no-overflow hypothesis of `mul_err_float` is needed. -/
example : (Float.ofBits 0x7FEFFFFFFFFFFFFF).isFinite = true ∧
    (Float.ofBits 0x7FEFFFFFFFFFFFFF * Float.ofBits 0x7FEFFFFFFFFFFFFF).isFinite = false := by decide +kernel

end Examples

end Rosu.FErr
