/-
  Lemmas/FloatRoundMono.lean — **round-to-nearest-even is monotone**, for Lean ≥ 4.33's `Float.Model`
  (`UnpackedFloat.roundWithAccuracy`), generically in the `Format`.

  `roundWithAccuracy spec s m e acc` receives a truncated mantissa `m` together with an `Accuracy` that locates the
  infinitely precise value relative to `m` and `m + ½`. Every caller in the model (`mul`, `div`, `round` of `add`/`sub`)
  passes the floor `N / D` of a rational with `accuracyOfFraction (N % D) D`; such a pair is the extended mantissa
  `emq N D` (floor, round bit, sticky bit) of the rational `N / D`, and

  * `emq_shr`: shifting right by `k` bits is dividing the rational by `2^k` — `emq N D >>> k = emq N (D · 2^k)`
    (this is what makes round and sticky bit track the exact value);
  * `rne N D` = round-to-nearest-even of `N / D`; `rne_eq` (closed form), `rne_mono` (monotone in the rational);
  * `rwa_emq`/`rwa_shape`: the result is the renormalised `rne N (D · 2^(te − e))` on the grid of the target exponent;
  * `tgt_mono`: the target exponent is monotone in the exact value;
  * **`rwa_mono`**: `N₁/D₁ · 2^e₁ ≤ N₂/D₂ · 2^e₂` (exactly) ⟹ the rounded results are ordered (`SLE s`: `≤` for
    positive, `≥` for negative results), including underflow to zero and the carry to the next binade.
  Overflow to `±∞` happens later, in `pack` (`repack_mono` in Lemmas/FloatArithMono.lean).
-/
import RosuModel.Lemmas.FloatModelAdd
namespace Rosu.FRM
open Float.Model Float.Model.UnpackedFloat Rosu.FMR

/-- the extended mantissa (floor, round bit, sticky bit) of the rational `N / D`. -/
def emq (N D : Nat) : ExtendedMantissa :=
  ExtendedMantissa.ofMantissaAndAccuracy (N / D) (accuracyOfFraction (N % D) D)

theorem emq_eq (N D : Nat) (hD : 0 < D) :
    emq N D = ⟨N / D, decide (D ≤ 2 * (N % D)), decide (N % D ≠ 0 ∧ 2 * (N % D) ≠ D)⟩ := by
  unfold emq accuracyOfFraction
  by_cases h0 : N % D = 0
  · simp [h0, ExtendedMantissa.ofMantissaAndAccuracy]; omega
  · rw [if_neg h0]
    rcases Nat.lt_trichotomy (2 * (N % D)) D with h | h | h
    · rw [Nat.compare_eq_lt.mpr h]; simp [ExtendedMantissa.ofMantissaAndAccuracy, h0]; omega
    · rw [Nat.compare_eq_eq.mpr h]; simp [ExtendedMantissa.ofMantissaAndAccuracy, h0, h]
    · rw [Nat.compare_eq_gt.mpr h]; simp [ExtendedMantissa.ofMantissaAndAccuracy, h0]; omega

theorem emq_shiftRightOne (N D : Nat) (hD : 0 < D) : (emq N D).shiftRightOne = emq N (2 * D) := by
  rw [emq_eq N D hD, emq_eq N (2 * D) (by omega)]
  have hq : N / (2 * D) = N / D / 2 := by rw [Nat.mul_comm, Nat.div_div_eq_div_mul]
  have hr : N % (2 * D) = (N / D % 2) * D + N % D := by
    have h1 := Nat.div_add_mod N D
    have h2 := Nat.div_add_mod (N / D) 2
    have h3 := Nat.div_add_mod N (2 * D)
    have h4 : N % (2 * D) < 2 * D := Nat.mod_lt _ (by omega)
    have h5 : N % D < D := Nat.mod_lt _ hD
    have h6 : N / D % 2 < 2 := Nat.mod_lt _ (by omega)
    rw [hq] at h3
    -- N = D * (2 * (N/D/2) + N/D%2) + N%D = 2D * (N/D/2) + (N/D%2) * D + N % D
    have h7 : D * (N / D) = 2 * D * (N / D / 2) + (N / D % 2) * D := by
      conv => lhs; rw [← h2]
      rw [Nat.mul_add, Nat.mul_comm (N / D % 2) D, Nat.mul_assoc, Nat.mul_left_comm]
    omega
  simp only [ExtendedMantissa.shiftRightOne, hq, hr]
  have h5 : N % D < D := Nat.mod_lt _ hD
  rcases Nat.mod_two_eq_zero_or_one (N / D) with h | h <;> rw [h] <;> simp <;> refine ⟨by omega, ?_⟩ <;>
    by_cases h0 : N % D = 0 <;> by_cases h1 : 2 * (N % D) = D <;> by_cases h2 : D ≤ 2 * (N % D) <;>
    simp [h0, h1, h2] <;> omega

theorem emq_shr (N D : Nat) (hD : 0 < D) (k : Nat) : emq N D >>> k = emq N (D * 2 ^ k) := by
  induction k with
  | zero => simp [shr_zero]
  | succ k ih =>
    rw [shr_succ, ih, emq_shiftRightOne _ _ (Nat.mul_pos hD (Nat.two_pow_pos k)), Nat.pow_succ]
    congr 1
    rw [Nat.mul_comm 2, Nat.mul_assoc]

/-- round-to-nearest-even of the rational `N / D` to a natural number. -/
def rne (N D : Nat) : Nat := (emq N D).roundedMantissa

theorem rne_eq (N D : Nat) (hD : 0 < D) :
    rne N D = if 2 * (N % D) < D then N / D else if 2 * (N % D) = D then N / D + N / D % 2 else N / D + 1 := by
  unfold rne
  rw [emq_eq N D hD]
  by_cases h1 : 2 * (N % D) < D
  · have hb : decide (D ≤ 2 * (N % D)) = false := by simp; omega
    rw [if_pos h1, hb]
    by_cases h0 : N % D = 0
    · have hs : decide (N % D ≠ 0 ∧ 2 * (N % D) ≠ D) = false := by simp [h0]
      rw [hs]; rfl
    · have hs : decide (N % D ≠ 0 ∧ 2 * (N % D) ≠ D) = true := by simp [h0]; omega
      rw [hs]; rfl
  · rw [if_neg h1]
    have hb : decide (D ≤ 2 * (N % D)) = true := by simp; omega
    rw [hb]
    by_cases h3 : 2 * (N % D) = D
    · have hs : decide (N % D ≠ 0 ∧ 2 * (N % D) ≠ D) = false := by simp [h3]
      rw [if_pos h3, hs]; rfl
    · have hs : decide (N % D ≠ 0 ∧ 2 * (N % D) ≠ D) = true := by simp [h3]; omega
      rw [if_neg h3, hs]; rfl

theorem emq_mantissa (N D : Nat) : (emq N D).mantissa = N / D := by
  unfold emq; cases accuracyOfFraction (N % D) D with
  | exact => rfl
  | inexact o => cases o <;> rfl

theorem rne_ge (N D : Nat) : N / D ≤ rne N D := by
  have := rounded_ge (emq N D)
  rw [emq_mantissa] at this; exact this

theorem rne_le (N D : Nat) : rne N D ≤ N / D + 1 := by
  have := rounded_le (emq N D)
  rw [emq_mantissa] at this; exact this

/-- **round-to-nearest-even is monotone** in the rational. -/
theorem rne_mono (N₁ D₁ N₂ D₂ : Nat) (h₁ : 0 < D₁) (h₂ : 0 < D₂) (h : N₁ * D₂ ≤ N₂ * D₁) :
    rne N₁ D₁ ≤ rne N₂ D₂ := by
  have hq : N₁ / D₁ ≤ N₂ / D₂ := by
    rw [Nat.le_div_iff_mul_le h₂]
    have a1 : N₁ / D₁ * D₁ ≤ N₁ := Nat.div_mul_le_self _ _
    have a2 : N₁ / D₁ * D₁ * D₂ ≤ N₂ * D₁ := Nat.le_trans (Nat.mul_le_mul_right _ a1) h
    have a3 : N₁ / D₁ * D₂ * D₁ ≤ N₂ * D₁ := by rwa [Nat.mul_right_comm]
    exact Nat.le_of_mul_le_mul_right a3 h₁
  rcases Nat.lt_or_ge (N₁ / D₁) (N₂ / D₂) with hlt | hge
  · exact Nat.le_trans (rne_le _ _) (Nat.le_trans hlt (rne_ge _ _))
  · have heq : N₁ / D₁ = N₂ / D₂ := by omega
    -- same floor `q`: compare the remainders
    have e1 := Nat.div_add_mod N₁ D₁
    have e2 := Nat.div_add_mod N₂ D₂
    generalize hr1 : N₁ % D₁ = r₁ at e1
    generalize hr2 : N₂ % D₂ = r₂ at e2
    generalize hq2 : N₂ / D₂ = q at *
    rw [heq] at e1
    have hr : r₁ * D₂ ≤ r₂ * D₁ := by
      rw [← e1, ← e2, Nat.add_mul, Nat.add_mul] at h
      have : D₁ * q * D₂ = D₂ * q * D₁ := by
        rw [Nat.mul_comm D₁ q, Nat.mul_comm D₂ q, Nat.mul_right_comm]
      omega
    rw [rne_eq _ _ h₁, rne_eq _ _ h₂, hr1, hr2, heq, hq2]
    have A : 2 * r₁ * D₂ ≤ 2 * r₂ * D₁ := by rw [Nat.mul_assoc, Nat.mul_assoc]; omega
    by_cases c1 : 2 * r₂ < D₂
    · -- then `2 r₁ < D₁`
      have c1' : 2 * r₁ < D₁ := by
        apply Nat.lt_of_not_le; intro hc
        have b1 : D₁ * D₂ ≤ 2 * r₁ * D₂ := Nat.mul_le_mul_right _ hc
        have b2 : 2 * r₂ * D₁ < D₂ * D₁ := Nat.mul_lt_mul_of_pos_right c1 h₁
        rw [Nat.mul_comm D₂ D₁] at b2
        omega
      rw [if_pos c1, if_pos c1']; exact Nat.le_refl _
    · rw [if_neg c1]
      by_cases c2 : 2 * r₂ = D₂
      · rw [if_pos c2]
        -- then `2 r₁ ≤ D₁`
        have c2' : 2 * r₁ ≤ D₁ := by
          apply Nat.le_of_not_lt; intro hc
          have b1 : D₁ * D₂ < 2 * r₁ * D₂ := Nat.mul_lt_mul_of_pos_right hc h₂
          have b2 : 2 * r₂ * D₁ = D₂ * D₁ := by rw [c2]
          rw [Nat.mul_comm D₂ D₁] at b2
          omega
        split
        · omega
        · split <;> omega
      · rw [if_neg c2]
        split
        · omega
        · split <;> omega

/-! ### `roundWithAccuracy` of a rational -/

theorem rwa_emq (spec : Format) (s : Sign) (N D : Nat) (hD : 0 < D) (e : Int) (he : e ≤ tgt spec (N / D) e) :
    roundWithAccuracy spec s (N / D) e (accuracyOfFraction (N % D) D) =
      stage2 spec s (rne N (D * 2 ^ (tgt spec (N / D) e - e).toNat)) (tgt spec (N / D) e) := by
  rw [rwa_eq]
  have h1 : (shiftToTargetExponent spec (N / D) e (accuracyOfFraction (N % D) D)).1 =
      emq N D >>> (tgt spec (N / D) e - e).toNat := rfl
  have h2 : (shiftToTargetExponent spec (N / D) e (accuracyOfFraction (N % D) D)).2 =
      e + ((tgt spec (N / D) e - e).toNat : Int) := rfl
  rw [h1, h2, emq_shr _ _ hD]
  have h3 : e + ((tgt spec (N / D) e - e).toNat : Int) = tgt spec (N / D) e := by omega
  rw [h3]; rfl

/-- the three shapes of a rounded result with mantissa `q` on the grid `2^te`. -/
def Shape (spec : Format) (s : Sign) (r : UnpackedFloat) (q : Nat) (te : Int) : Prop :=
  (q = 0 ∧ r = .zero s) ∨
  (0 < q ∧ q < 2 ^ spec.mantissaBits ∧ CanonFin spec q te ∧ IsFin r s q te) ∨
  (q = 2 ^ spec.mantissaBits ∧ CanonFin spec (2 ^ (spec.mantissaBits - 1)) (te + 1) ∧
    IsFin r s (2 ^ (spec.mantissaBits - 1)) (te + 1))

theorem stage2_shape (spec : Format) (s : Sign) (q : Nat) (te : Int) (hte : spec.minExponent ≤ te)
    (hq : q ≤ 2 ^ spec.mantissaBits) (hn : te = spec.minExponent ∨ 2 ^ (spec.mantissaBits - 1) ≤ q) :
    Shape spec s (stage2 spec s q te) q te := by
  by_cases hq0 : q = 0
  · left; subst hq0; exact ⟨rfl, stage2_zero spec s te⟩
  by_cases hqlt : q < 2 ^ spec.mantissaBits
  · right; left
    refine ⟨by omega, hqlt, ⟨hqlt, hte, ?_⟩, stage2_small spec s q te (by omega) hqlt hte⟩
    rcases hn with h | h
    · exact Or.inr h
    · exact Or.inl h
  · right; right
    have : q = 2 ^ spec.mantissaBits := by omega
    subst this
    exact ⟨rfl, canonFin_carry spec _ hte, stage2_carry spec s _ hte⟩

theorem tgt_zero_of_le (spec : Format) (e : Int) (he : e ≤ tgt spec 0 e) : tgt spec 0 e = spec.minExponent := by
  have := mantissaBits_pos spec
  revert he
  unfold tgt Format.targetExponent totalExponent
  rw [Nat.log2_zero]; omega

/-- **shape of `roundWithAccuracy`** on the rational mantissa `N / D` at an exponent not above its target exponent. -/
theorem rwa_shape (spec : Format) (s : Sign) (N D : Nat) (hD : 0 < D) (e : Int) (he : e ≤ tgt spec (N / D) e) :
    Shape spec s (roundWithAccuracy spec s (N / D) e (accuracyOfFraction (N % D) D))
      (rne N (D * 2 ^ (tgt spec (N / D) e - e).toNat)) (tgt spec (N / D) e) ∧
    (tgt spec (N / D) e = spec.minExponent ∨
      2 ^ (spec.mantissaBits - 1) ≤ rne N (D * 2 ^ (tgt spec (N / D) e - e).toNat)) := by
  rw [rwa_emq spec s N D hD e he]
  have hfl : N / (D * 2 ^ (tgt spec (N / D) e - e).toNat) = fl spec (N / D) e := by
    unfold fl aligned dropBits
    have : (e - tgt spec (N / D) e).toNat = 0 := by omega
    rw [this, Nat.pow_zero, Nat.mul_one, Nat.div_div_eq_div_mul]
  have hge := rne_ge N (D * 2 ^ (tgt spec (N / D) e - e).toNat)
  have hle := rne_le N (D * 2 ^ (tgt spec (N / D) e - e).toNat)
  rw [hfl] at hge hle
  have hn : tgt spec (N / D) e = spec.minExponent ∨
      2 ^ (spec.mantissaBits - 1) ≤ rne N (D * 2 ^ (tgt spec (N / D) e - e).toNat) := by
    by_cases hm : N / D = 0
    · left; rw [hm] at he ⊢; exact tgt_zero_of_le spec e he
    · by_cases hmin : tgt spec (N / D) e = spec.minExponent
      · exact Or.inl hmin
      · right
        have := tgt_ge_min spec (N / D) e
        exact Nat.le_trans (fl_ge spec (N / D) hm e (by omega)) hge
  refine ⟨stage2_shape spec s _ _ (tgt_ge_min spec _ _) ?_ hn, hn⟩
  by_cases hm : N / D = 0
  · have : fl spec (N / D) e = 0 := by unfold fl aligned; rw [hm]; simp
    have := Nat.two_pow_pos spec.mantissaBits
    omega
  · have := fl_lt spec (N / D) hm e
    omega

/-- order of results of sign `s`: `≤` for positive, `≥` for negative results. -/
def SLE (s : Sign) (r₁ r₂ : UnpackedFloat) : Prop :=
  match s with
  | .positive => r₁.le r₂ = true
  | .negative => r₂.le r₁ = true

theorem sle_fin (s : Sign) {r₁ r₂ : UnpackedFloat} {m₁ m₂ : Nat} {e₁ e₂ : Int}
    (h₁ : IsFin r₁ s m₁ e₁) (h₂ : IsFin r₂ s m₂ e₂) (h : LexLE e₁ m₁ e₂ m₂) : SLE s r₁ r₂ := by
  obtain ⟨p₁, rfl⟩ := h₁
  obtain ⟨p₂, rfl⟩ := h₂
  cases s with
  | positive => exact le_fin_pos h p₁ p₂
  | negative => exact le_fin_neg h p₂ p₁

theorem sle_zero_fin (s : Sign) {r₂ : UnpackedFloat} {m₂ : Nat} {e₂ : Int} (h₂ : IsFin r₂ s m₂ e₂) :
    SLE s (.zero s) r₂ := by
  obtain ⟨p₂, rfl⟩ := h₂
  cases s <;> rfl

theorem sle_zero_zero (s : Sign) : SLE s (.zero s) (.zero s) := by cases s <;> rfl

theorem shape_le_same (spec : Format) (s : Sign) {r₁ r₂ : UnpackedFloat} {q₁ q₂ : Nat} {te : Int}
    (h₁ : Shape spec s r₁ q₁ te) (h₂ : Shape spec s r₂ q₂ te) (hq : q₁ ≤ q₂) : SLE s r₁ r₂ := by
  rcases h₁ with ⟨a0, rfl⟩ | ⟨a0, a1, _, af⟩ | ⟨a0, _, af⟩ <;>
    rcases h₂ with ⟨b0, rfl⟩ | ⟨b0, b1, _, bf⟩ | ⟨b0, _, bf⟩
  · exact sle_zero_zero s
  · exact sle_zero_fin s bf
  · exact sle_zero_fin s bf
  · omega
  · exact sle_fin s af bf (Or.inr ⟨rfl, hq⟩)
  · exact sle_fin s af bf (Or.inl (by omega))
  · have := Nat.two_pow_pos spec.mantissaBits; omega
  · omega
  · exact sle_fin s af bf (lexLE_refl _ _)

theorem shape_le_lt (spec : Format) (s : Sign) {r₁ r₂ : UnpackedFloat} {q₁ q₂ : Nat} {te₁ te₂ : Int}
    (h₁ : Shape spec s r₁ q₁ te₁) (h₂ : Shape spec s r₂ q₂ te₂) (hte : te₁ < te₂)
    (hq : 2 ^ (spec.mantissaBits - 1) ≤ q₂) : SLE s r₁ r₂ := by
  have hp := Nat.two_pow_pos (spec.mantissaBits - 1)
  rcases h₁ with ⟨a0, rfl⟩ | ⟨a0, a1, _, af⟩ | ⟨a0, _, af⟩ <;>
    rcases h₂ with ⟨b0, rfl⟩ | ⟨b0, b1, _, bf⟩ | ⟨b0, _, bf⟩
  · omega
  · exact sle_zero_fin s bf
  · exact sle_zero_fin s bf
  · omega
  · exact sle_fin s af bf (Or.inl hte)
  · exact sle_fin s af bf (Or.inl (by omega))
  · omega
  · refine sle_fin s af bf ?_
    by_cases h : te₁ + 1 = te₂
    · exact Or.inr ⟨h, hq⟩
    · exact Or.inl (by omega)
  · exact sle_fin s af bf (Or.inl (by omega))

/-- the exact value order `N₁/D₁ · 2^e₁ ≤ N₂/D₂ · 2^e₂`, with both exponents measured from a common `E` below them. -/
def QLE (N₁ D₁ : Nat) (e₁ : Int) (N₂ D₂ : Nat) (e₂ : Int) (E : Int) : Prop :=
  N₁ * D₂ * 2 ^ (e₁ - E).toNat ≤ N₂ * D₁ * 2 ^ (e₂ - E).toNat

theorem log2_exp_mono (N₁ D₁ N₂ D₂ : Nat) (h₁ : 0 < D₁) (h₂ : 0 < D₂) (a₁ a₂ : Nat)
    (hm : N₁ / D₁ ≠ 0) (hv : N₁ * D₂ * 2 ^ a₁ ≤ N₂ * D₁ * 2 ^ a₂) :
    (N₁ / D₁).log2 + a₁ ≤ (N₂ / D₂).log2 + a₂ := by
  apply Nat.le_of_not_lt
  intro hc
  -- `2^(l₂+1+a₂) ≤ 2^(l₁+a₁)`
  have hpow : 2 ^ ((N₂ / D₂).log2 + 1 + a₂) ≤ 2 ^ ((N₁ / D₁).log2 + a₁) :=
    Nat.pow_le_pow_right (by omega) (by omega)
  have l1 : 2 ^ (N₁ / D₁).log2 ≤ N₁ / D₁ := Nat.log2_self_le hm
  have l2 : N₁ / D₁ * D₁ ≤ N₁ := Nat.div_mul_le_self _ _
  have l3 : 2 ^ (N₁ / D₁).log2 * D₁ ≤ N₁ := Nat.le_trans (Nat.mul_le_mul_right _ l1) l2
  have u1 : N₂ / D₂ + 1 ≤ 2 ^ ((N₂ / D₂).log2 + 1) := Nat.lt_log2_self
  have u2 : N₂ < D₂ * (N₂ / D₂ + 1) := Nat.lt_mul_div_succ N₂ h₂
  have u3 : N₂ < D₂ * 2 ^ ((N₂ / D₂).log2 + 1) := Nat.lt_of_lt_of_le u2 (Nat.mul_le_mul_left _ u1)
  -- lower bound of the left side, upper bound of the right side
  have lo : 2 ^ ((N₁ / D₁).log2 + a₁) * (D₁ * D₂) ≤ N₁ * D₂ * 2 ^ a₁ := by
    have := Nat.mul_le_mul_right (D₂ * 2 ^ a₁) l3
    calc 2 ^ ((N₁ / D₁).log2 + a₁) * (D₁ * D₂) = 2 ^ (N₁ / D₁).log2 * D₁ * (D₂ * 2 ^ a₁) := by
          rw [Nat.pow_add]; ac_rfl
      _ ≤ N₁ * (D₂ * 2 ^ a₁) := this
      _ = N₁ * D₂ * 2 ^ a₁ := by ac_rfl
  have hi : N₂ * D₁ * 2 ^ a₂ < 2 ^ ((N₂ / D₂).log2 + 1 + a₂) * (D₁ * D₂) := by
    have := Nat.mul_lt_mul_of_pos_right u3 (Nat.mul_pos h₁ (Nat.two_pow_pos a₂))
    calc N₂ * D₁ * 2 ^ a₂ = N₂ * (D₁ * 2 ^ a₂) := by ac_rfl
      _ < D₂ * 2 ^ ((N₂ / D₂).log2 + 1) * (D₁ * 2 ^ a₂) := this
      _ = 2 ^ ((N₂ / D₂).log2 + 1 + a₂) * (D₁ * D₂) := by
          rw [Nat.pow_add (a := 2) (m := (N₂ / D₂).log2 + 1) (n := a₂)]; ac_rfl
  have := Nat.mul_le_mul_right (D₁ * D₂) hpow
  omega

theorem tgt_mono (spec : Format) (N₁ D₁ N₂ D₂ : Nat) (e₁ e₂ E : Int) (h₁ : 0 < D₁) (h₂ : 0 < D₂)
    (hE₁ : E ≤ e₁) (hE₂ : E ≤ e₂) (hv : QLE N₁ D₁ e₁ N₂ D₂ e₂ E) (he : e₁ ≤ tgt spec (N₁ / D₁) e₁) :
    tgt spec (N₁ / D₁) e₁ ≤ tgt spec (N₂ / D₂) e₂ := by
  by_cases hm : N₁ / D₁ = 0
  · rw [hm] at he ⊢; rw [tgt_zero_of_le spec e₁ he]; exact tgt_ge_min spec _ _
  · have := log2_exp_mono N₁ D₁ N₂ D₂ h₁ h₂ _ _ hm hv
    unfold tgt Format.targetExponent totalExponent
    omega

/-- **`roundWithAccuracy` is monotone in the exact value** (results of sign `s`; mantissas given as floors of
rationals with the matching accuracy, exponents not above the target exponents). -/
theorem rwa_mono (spec : Format) (s : Sign) (N₁ D₁ N₂ D₂ : Nat) (e₁ e₂ E : Int) (h₁ : 0 < D₁) (h₂ : 0 < D₂)
    (hE₁ : E ≤ e₁) (hE₂ : E ≤ e₂) (hv : QLE N₁ D₁ e₁ N₂ D₂ e₂ E)
    (he₁ : e₁ ≤ tgt spec (N₁ / D₁) e₁) (he₂ : e₂ ≤ tgt spec (N₂ / D₂) e₂) :
    SLE s (roundWithAccuracy spec s (N₁ / D₁) e₁ (accuracyOfFraction (N₁ % D₁) D₁))
      (roundWithAccuracy spec s (N₂ / D₂) e₂ (accuracyOfFraction (N₂ % D₂) D₂)) := by
  obtain ⟨s1, _⟩ := rwa_shape spec s N₁ D₁ h₁ e₁ he₁
  obtain ⟨s2, n2⟩ := rwa_shape spec s N₂ D₂ h₂ e₂ he₂
  have hte := tgt_mono spec N₁ D₁ N₂ D₂ e₁ e₂ E h₁ h₂ hE₁ hE₂ hv he₁
  rcases Int.lt_or_eq_of_le hte with hlt | heq
  · refine shape_le_lt spec s s1 s2 hlt ?_
    rcases n2 with h | h
    · have := tgt_ge_min spec (N₁ / D₁) e₁; omega
    · exact h
  · rw [heq] at s1
    refine shape_le_same spec s s1 s2 ?_
    apply rne_mono _ _ _ _ (Nat.mul_pos h₁ (Nat.two_pow_pos _)) (Nat.mul_pos h₂ (Nat.two_pow_pos _))
    -- same grid `te`: `kᵢ = te − eᵢ`, `aᵢ = eᵢ − E`, `aᵢ + kᵢ = te − E`
    generalize hte' : tgt spec (N₂ / D₂) e₂ = te at *
    unfold QLE at hv
    obtain ⟨a₁, ha₁⟩ : ∃ a : Nat, (e₁ - E).toNat = a := ⟨_, rfl⟩
    obtain ⟨a₂, ha₂⟩ : ∃ a : Nat, (e₂ - E).toNat = a := ⟨_, rfl⟩
    obtain ⟨k₁, hk₁⟩ : ∃ a : Nat, (te - e₁).toNat = a := ⟨_, rfl⟩
    obtain ⟨k₂, hk₂⟩ : ∃ a : Nat, (te - e₂).toNat = a := ⟨_, rfl⟩
    rw [ha₁, ha₂] at hv
    rw [hk₁, hk₂]
    have hc : a₁ + k₁ = a₂ + k₂ := by omega
    have := Nat.mul_le_mul_right (2 ^ k₁ * 2 ^ k₂) hv
    have e1 : N₁ * D₂ * 2 ^ a₁ * (2 ^ k₁ * 2 ^ k₂) = N₁ * (D₂ * 2 ^ k₂) * 2 ^ (a₁ + k₁) := by
      rw [Nat.pow_add]; ac_rfl
    have e2 : N₂ * D₁ * 2 ^ a₂ * (2 ^ k₁ * 2 ^ k₂) = N₂ * (D₁ * 2 ^ k₁) * 2 ^ (a₁ + k₁) := by
      rw [hc, Nat.pow_add]; ac_rfl
    rw [e1, e2] at this
    exact Nat.le_of_mul_le_mul_right this (Nat.two_pow_pos _)

end Rosu.FRM
