/-
  Lemmas/HoGrammarClauses.lean — the reference grammar `HoSpec` read as a relation (`head_ok_iff`,
  `circle_ok_iff`, `slider_ok_iff`, `spinner_ok_iff`, `hold_ok_iff`: a line is accepted iff every listed
  condition holds, so it is rejected iff one of them fails), and the clauses of property C14 as short
  corollaries of the grammar. Nothing here mentions the parser.
-/
import RosuModel.Lemmas.HoGrammarKinds
namespace Rosu.C14.HoSpec
open Rosu Scalar

set_option linter.unusedSectionVars false

variable {F P : Type} [Scalar F] [Scalar P] [Cvt P F]

theorem need_bind_ok {α β : Type} (o : Option α) (r : Reject) (f : α → Except Reject β) (b : β) :
    (need o r >>= f) = .ok b ↔ ∃ x, o = some x ∧ f x = .ok b := by
  cases o with
  | none => simp [need_none, error_bind]
  | some x => simp [need_some, ok_bind]

theorem check_bind_ok {β : Type} (c : Bool) (r : Reject) (f : Unit → Except Reject β) (b : β) :
    (check c r >>= f) = .ok b ↔ c = true ∧ f () = .ok b := by
  cases c <;> simp [check_true, check_false, ok_bind, error_bind]

/-! ### the grammar as a relation -/

/-- **header**: accepted iff there are five fields and each of them reads. -/
theorem head_ok_iff (line : Str) (hd : Head F P) :
    (head line : Except Reject (Head F P)) = .ok hd ↔
      5 ≤ (fieldsOf line).length ∧
      ∃ x, ((fieldsOf line)[0]?).bind coordinate = some x ∧
      ∃ y, ((fieldsOf line)[1]?).bind coordinate = some y ∧
      ∃ t, ((fieldsOf line)[2]?).bind time = some t ∧
      ∃ ty, ((fieldsOf line)[3]?).bind i32FromStr = some ty ∧
      ∃ snd, ((fieldsOf line)[4]?).bind HitSoundType.parse = some snd ∧
      { x := x, y := y, time := t, ty := ty, sound := snd, fields := fieldsOf line } = hd := by
  simp only [head, check_bind_ok, need_bind_ok, pure_eq_ok, Except.ok.injEq, decide_eq_true_eq]

theorem circle_ok_iff (ctx : Ctx P) (hd : Head F P) (a : Accepted F P) :
    circle ctx hd = .ok a ↔
      ∃ info, sampleFieldAt hd.fields 5 false = some info ∧
        accept hd (.circle { pos := ⟨hd.x, hd.y⟩, newCombo := startsCombo ctx hd.ty, comboOffset := comboOffset hd.ty }) info = a := by
  simp only [circle, need_bind_ok, pure_eq_ok, Except.ok.injEq]

theorem slider_ok_iff (ctx : Ctx P) (hd : Head F P) (a : Accepted F P) :
    slider ctx hd = .ok a ↔
      ∃ pathS, hd.fields[5]? = some pathS ∧
      ∃ repS, hd.fields[6]? = some repS ∧
      ∃ r, i32Parse repS = some r ∧ r ≤ 9000 ∧
      ∃ len, (lengthField hd.fields[7]? : Option (Option F)) = some len ∧
      ∃ info, sampleFieldAt hd.fields 10 true = some info ∧
      ∃ nodes, nodeSamples info hd.sound (nodeCountOf r) (nonEmptyField hd.fields 8) (nonEmptyField hd.fields 9) = some nodes ∧
      ∃ cps, path F ctx.leftover ⟨hd.x, hd.y⟩ pathS = some cps ∧
        accept hd (.slider
          { pos := ⟨hd.x, hd.y⟩, newCombo := startsCombo ctx hd.ty, comboOffset := comboOffset hd.ty
            path := { mode := ctx.mode, controlPoints := cps, expectedDist := len }
            nodeSamples := nodes, repeatCount := repeatsOf r, velocity := 1 }) info = a := by
  simp only [slider, need_bind_ok, check_bind_ok, pure_eq_ok, Except.ok.injEq, decide_eq_true_eq]

theorem spinner_ok_iff (hd : Head F P) (a : Accepted F P) :
    spinner hd = .ok a ↔
      ∃ endS, hd.fields[5]? = some endS ∧
      ∃ e, (time endS : Option F) = some e ∧
      ∃ info, sampleFieldAt hd.fields 6 false = some info ∧
        accept hd (.spinner { pos := ⟨(512 : P) / 2, (384 : P) / 2⟩, duration := Scalar.max (e - hd.time) 0
                              newCombo := newComboFlag hd.ty }) info = a := by
  simp only [spinner, need_bind_ok, pure_eq_ok, Except.ok.injEq]

theorem bind_ok {α β : Type} (e : Except Reject α) (f : α → Except Reject β) (b : β) :
    (e >>= f) = .ok b ↔ ∃ x, e = .ok x ∧ f x = .ok b := by
  cases e <;> simp [ok_bind, error_bind]

theorem holdField_ok_iff (hd : Head F P) (r : F × SampleBankInfo) :
    holdField hd = .ok r ↔
      (match nonEmptyField hd.fields 5 with
       | none => r = (hd.time, {})
       | some s =>
         ((splitOn ':' s)[0]?).bind (time (F := F)) = some r.1 ∧
         sampleField {} ((splitOn ':' s).drop 1) false = some r.2) := by
  unfold holdField
  cases nonEmptyField hd.fields 5 with
  | none => simp only [pure_eq_ok, Except.ok.injEq]; exact eq_comm
  | some s =>
    simp only [need_bind_ok, pure_eq_ok, Except.ok.injEq]
    constructor
    · rintro ⟨e, he, info, hi, hr⟩
      subst hr
      exact ⟨he, hi⟩
    · rintro ⟨he, hi⟩
      exact ⟨r.1, he, r.2, hi, rfl⟩

theorem hold_ok_iff (hd : Head F P) (a : Accepted F P) :
    hold hd = .ok a ↔
      ∃ r : F × SampleBankInfo,
        (match nonEmptyField hd.fields 5 with
         | none => r = (hd.time, {})
         | some s =>
           ((splitOn ':' s)[0]?).bind (time (F := F)) = some r.1 ∧
           sampleField {} ((splitOn ':' s).drop 1) false = some r.2) ∧
        accept hd (.hold { posX := hd.x, duration := Scalar.max hd.time r.1 - hd.time }) r.2 = a := by
  unfold hold
  simp only [bind_ok, holdField_ok_iff, pure_eq_ok, Except.ok.injEq]

/-- the kind-specific part, by kind. -/
theorem body_ok_cases (ctx : Ctx P) (hd : Head F P) (a : Accepted F P) (h : body ctx hd = .ok a) :
    (kindOf hd.ty = some .circle ∧ circle ctx hd = .ok a) ∨ (kindOf hd.ty = some .slider ∧ slider ctx hd = .ok a) ∨
    (kindOf hd.ty = some .spinner ∧ spinner hd = .ok a) ∨ (kindOf hd.ty = some .hold ∧ hold hd = .ok a) := by
  unfold body at h
  cases hk : kindOf hd.ty with
  | none => simp [hk] at h
  | some cls =>
    rw [hk] at h
    cases cls with
    | circle => exact Or.inl ⟨rfl, h⟩
    | slider => exact Or.inr (Or.inl ⟨rfl, h⟩)
    | spinner => exact Or.inr (Or.inr (Or.inl ⟨rfl, h⟩))
    | hold => exact Or.inr (Or.inr (Or.inr ⟨rfl, h⟩))

theorem specLine_ok_iff (ctx : Ctx P) (line : Str) (a : Accepted F P) :
    specLine ctx line = .ok a ↔ ∃ hd : Head F P, head line = .ok hd ∧ body ctx hd = .ok a := by
  unfold specLine
  cases (head line : Except Reject (Head F P)) with
  | error r => simp
  | ok hd => simp

/-! ### clauses of the property, from the grammar -/

/-- the combo data an object carries. -/
def objNewCombo (o : HitObject F P) : Option Bool :=
  match o.kind with
  | .circle c => some c.newCombo
  | .slider s => some s.newCombo
  | .spinner s => some s.newCombo
  | .hold _ => none

def objComboOffset (o : HitObject F P) : Option Int :=
  match o.kind with
  | .circle c => some c.comboOffset
  | .slider s => some s.comboOffset
  | _ => none

/-- what every accepted line has in common: start time, remembered type, sample list of its sound byte, and
the kind chosen by flag precedence circle > slider > spinner > hold. -/
theorem body_common (ctx : Ctx P) (hd : Head F P) (a : Accepted F P) (h : body ctx hd = .ok a) :
    a.obj.startTime = hd.time ∧ a.remembered = rememberedType hd.ty ∧
    (∃ info, a.obj.samples = samplesOf info hd.sound) ∧ kindOf hd.ty = some (kindClass a.obj.kind) := by
  rcases body_ok_cases ctx hd a h with ⟨hk, h⟩ | ⟨hk, h⟩ | ⟨hk, h⟩ | ⟨hk, h⟩
  · obtain ⟨info, _, rfl⟩ := (circle_ok_iff ctx hd a).mp h
    exact ⟨rfl, rfl, ⟨info, rfl⟩, hk⟩
  · obtain ⟨_, _, _, _, _, _, _, _, _, info, _, _, _, _, _, rfl⟩ := (slider_ok_iff ctx hd a).mp h
    exact ⟨rfl, rfl, ⟨info, rfl⟩, hk⟩
  · obtain ⟨_, _, _, _, info, _, rfl⟩ := (spinner_ok_iff hd a).mp h
    exact ⟨rfl, rfl, ⟨info, rfl⟩, hk⟩
  · obtain ⟨r, _, rfl⟩ := (hold_ok_iff hd a).mp h
    exact ⟨rfl, rfl, ⟨r.2, rfl⟩, hk⟩

/-- **a combo offset counts only together with the new-combo flag**: circles and sliders carry the
offset bits when bit 2 is set and 0 otherwise; spinners and holds carry none. -/
theorem body_combo_offset (ctx : Ctx P) (hd : Head F P) (a : Accepted F P) (h : body ctx hd = .ok a) :
    objComboOffset a.obj =
      match kindOf hd.ty with
      | some .circle | some .slider => some (if testBit hd.ty 2 then comboOffsetBits hd.ty else 0)
      | _ => none := by
  rcases body_ok_cases ctx hd a h with ⟨hk, h⟩ | ⟨hk, h⟩ | ⟨hk, h⟩ | ⟨hk, h⟩
  · obtain ⟨info, _, rfl⟩ := (circle_ok_iff ctx hd a).mp h
    rw [hk]; rfl
  · obtain ⟨_, _, _, _, _, _, _, _, _, info, _, _, _, _, _, rfl⟩ := (slider_ok_iff ctx hd a).mp h
    rw [hk]; rfl
  · obtain ⟨_, _, _, _, info, _, rfl⟩ := (spinner_ok_iff hd a).mp h
    rw [hk]; rfl
  · obtain ⟨r, _, rfl⟩ := (hold_ok_iff hd a).mp h
    rw [hk]; rfl

/-- **new combo**: a circle or slider starts a combo when its own flag (bit 2) is set, when it is the
first object, or when the previous accepted line had the spinner bit; a spinner has its own flag only; a
hold has none. -/
theorem body_new_combo (ctx : Ctx P) (hd : Head F P) (a : Accepted F P) (h : body ctx hd = .ok a) :
    objNewCombo a.obj =
      match kindOf hd.ty with
      | some .circle | some .slider => some (ctx.lastType.isNone || afterSpinner ctx || testBit hd.ty 2)
      | some .spinner => some (testBit hd.ty 2)
      | _ => none := by
  rcases body_ok_cases ctx hd a h with ⟨hk, h⟩ | ⟨hk, h⟩ | ⟨hk, h⟩ | ⟨hk, h⟩
  · obtain ⟨info, _, rfl⟩ := (circle_ok_iff ctx hd a).mp h
    rw [hk]; rfl
  · obtain ⟨_, _, _, _, _, _, _, _, _, info, _, _, _, _, _, rfl⟩ := (slider_ok_iff ctx hd a).mp h
    rw [hk]; rfl
  · obtain ⟨_, _, _, _, info, _, rfl⟩ := (spinner_ok_iff hd a).mp h
    rw [hk]; rfl
  · obtain ⟨r, _, rfl⟩ := (hold_ok_iff hd a).mp h
    rw [hk]; rfl

/-- **the first object and the object after a spinner start a new combo** (circles and sliders). -/
theorem body_forced_new_combo (ctx : Ctx P) (hd : Head F P) (a : Accepted F P) (h : body ctx hd = .ok a)
    (hk : kindOf hd.ty = some .circle ∨ kindOf hd.ty = some .slider)
    (hf : ctx.lastType = none ∨ ∃ t, ctx.lastType = some t ∧ testBit t 3 = true) :
    objNewCombo a.obj = some true := by
  rw [body_new_combo ctx hd a h]
  have : (ctx.lastType.isNone || afterSpinner ctx) = true := by
    rcases hf with h0 | ⟨t, ht, hb⟩
    · simp [h0]
    · simp [afterSpinner, ht, hb]
  rcases hk with hk | hk <;> rw [hk] <;> simp [this]

/-- **layered normal sample**: a sound byte that is non-zero with the NORMAL bit clear gives a base normal
sample marked layered (no custom file). -/
theorem samplesOf_layered (info : SampleBankInfo) (snd : Int) (hf : info.filename = none)
    (h0 : snd ≠ 0) (hb : testBit snd 0 = false) :
    (samplesOf info snd).head? =
      some { HitSampleInfo.new (.default .normal) info.bankForNormal info.customSampleBank info.volume with isLayered := true } := by
  have : (snd != 0) = true := by simpa using h0
  simp [samplesOf, hf, hb, this]

/-- … and is not layered when the byte is zero or has the NORMAL bit. -/
theorem samplesOf_not_layered (info : SampleBankInfo) (snd : Int) (hf : info.filename = none)
    (h : snd = 0 ∨ testBit snd 0 = true) :
    (samplesOf info snd).head? =
      some (HitSampleInfo.new (.default .normal) info.bankForNormal info.customSampleBank info.volume) := by
  rcases h with h | h
  · subst h; simp [samplesOf, hf, HitSampleInfo.new]
  · simp [samplesOf, hf, h, HitSampleInfo.new]

/-- **node sounds and banks default to the object's when the edge fields are absent or empty**. -/
theorem nodeSamples_defaults (info : SampleBankInfo) (snd : Int) (nodes : Nat) :
    nodeSamples info snd nodes none none = some (List.replicate nodes (samplesOf info snd)) := by
  unfold nodeSamples
  have : (fun i => (nodeInfo info (Option.map (splitOn '|') none) i).map fun inf =>
      samplesOf inf (nodeSound snd (Option.map (splitOn '|') none) i)) = fun _ => some (samplesOf info snd) := by
    funext i; simp [nodeInfo, nodeSound]
  rw [this, allSome_const, List.length_range]

theorem allSome_length {α : Type} (l : List (Option α)) (r : List α) (h : allSome l = some r) : r.length = l.length := by
  induction l generalizing r with
  | nil => cases h; rfl
  | cons x xs ih =>
    cases x with
    | none => cases h
    | some v =>
      simp only [allSome] at h
      cases hx : allSome xs with
      | none => rw [hx] at h; cases h
      | some r' => rw [hx] at h; cases h; simp [ih r' hx]

/-- **a slider has repeats + 2 node sample sets**. -/
theorem nodeSamples_length (info : SampleBankInfo) (snd : Int) (nodes : Nat) (es ss : Option Str)
    (r : List (List HitSampleInfo)) (h : nodeSamples info snd nodes es ss = some r) : r.length = nodes := by
  have := allSome_length _ _ h
  simpa using this

/-- **repeat counts above 9000 are rejected**. -/
theorem slider_repeat_cap (ctx : Ctx P) (hd : Head F P) (pathS repS : Str) (r : Int)
    (h5 : hd.fields[5]? = some pathS) (h6 : hd.fields[6]? = some repS) (hr : i32Parse repS = some r) (hbig : r > 9000) :
    slider ctx hd = .error .repeatTooLarge := by
  have : decide (r ≤ 9000) = false := by simp; omega
  simp only [slider, h5, h6, hr, need_some, ok_bind, this, check_false, error_bind]

/-- **an absent length means natural length** … -/
theorem lengthField_absent : (lengthField none : Option (Option F)) = some none := rfl

/-- … **and so does a zero or negative one** (any value whose `max(·, 0)` is below `f64::EPSILON`). -/
theorem lengthField_present (s : Str) (l : F) (h : number s (Scalar.ofInt 131072 : F) = some l) :
    (lengthField (some s) : Option (Option F)) =
      some (if le (Scalar.eps : F) (Scalar.abs (Scalar.max l 0)) then some (Scalar.max l 0) else none) := by
  simp [lengthField, h]

/-- positions are within ±131072 and truncated to integers. -/
theorem coordinate_truncated (s : Str) (x : P) (h : coordinate s = some x) :
    ∃ v : P, withinLimit v (Scalar.ofInt 131072) = true ∧ x = Scalar.ofInt (Scalar.toI32 v) := by
  unfold coordinate number at h
  cases hp : (Scalar.parse (trim s) : Option P) with
  | none => simp [hp] at h
  | some v =>
    simp only [hp] at h
    by_cases hw : withinLimit v (Scalar.ofInt 131072) = true
    · simp only [hw, if_true, Option.map_some, Option.some.injEq] at h
      exact ⟨v, hw, h.symm⟩
    · simp [hw] at h

/-- header rejections, exhaustively. -/
theorem head_error_cases (line : Str) (r : Reject) (h : (head line : Except Reject (Head F P)) = .error r) :
    r = .tooFewFields ∨ r = .badX ∨ r = .badY ∨ r = .badTime ∨ r = .badType ∨ r = .badSound := by
  unfold head at h
  by_cases hl : decide (5 ≤ (fieldsOf line).length) = true
  · simp only [hl, check_true, ok_bind] at h
    cases h0 : ((fieldsOf line)[0]?).bind (coordinate (P := P)) with
    | none => simp [h0] at h; simp [← h]
    | some x =>
      cases h1 : ((fieldsOf line)[1]?).bind (coordinate (P := P)) with
      | none => simp [h0, h1] at h; simp [← h]
      | some y =>
        cases h2 : ((fieldsOf line)[2]?).bind (time (F := F)) with
        | none => simp [h0, h1, h2] at h; simp [← h]
        | some t =>
          cases h3 : ((fieldsOf line)[3]?).bind i32FromStr with
          | none => simp [h0, h1, h2, h3] at h; simp [← h]
          | some ty =>
            cases h4 : ((fieldsOf line)[4]?).bind HitSoundType.parse with
            | none => simp [h0, h1, h2, h3, h4] at h; simp [← h]
            | some snd => simp [h0, h1, h2, h3, h4] at h
  · have hl' : decide (5 ≤ (fieldsOf line).length) = false := by simpa using hl
    simp only [hl', check_false, error_bind, Except.error.injEq] at h
    exact Or.inl h.symm

/-- a line with fewer than five fields is rejected as such. -/
theorem head_tooFewFields (line : Str) (h : (fieldsOf line).length < 5) :
    (head line : Except Reject (Head F P)) = .error .tooFewFields := by
  have : decide (5 ≤ (fieldsOf line).length) = false := by simp; omega
  simp only [head, this, check_false, error_bind]

/-- no kind bit: rejected whatever else the line carries. -/
theorem body_noKind (ctx : Ctx P) (hd : Head F P) (h : kindOf hd.ty = none) : body ctx hd = .error .noKind := by
  simp [body, h]

/-! ### which reasons each kind can give -/

theorem need_bind_error {α β : Type} (o : Option α) (r e : Reject) (f : α → Except Reject β) :
    (need o r >>= f) = .error e ↔ (o = none ∧ r = e) ∨ ∃ x, o = some x ∧ f x = .error e := by
  cases o with
  | none => simp [need_none, error_bind]
  | some x => simp [need_some, ok_bind]

theorem check_bind_error {β : Type} (c : Bool) (r e : Reject) (f : Unit → Except Reject β) :
    (check c r >>= f) = .error e ↔ (c = false ∧ r = e) ∨ (c = true ∧ f () = .error e) := by
  cases c <;> simp [check_true, check_false, ok_bind, error_bind]

theorem circle_error_cases (ctx : Ctx P) (hd : Head F P) (r : Reject) (h : circle ctx hd = .error r) :
    r = .badSampleTail := by
  simp only [circle, need_bind_error, pure_eq_ok] at h
  rcases h with ⟨_, h⟩ | ⟨_, _, h⟩
  · exact h.symm
  · cases h

theorem spinner_error_cases (hd : Head F P) (r : Reject) (h : spinner hd = .error r) :
    r = .spinnerNoEnd ∨ r = .badEndTime ∨ r = .badSampleTail := by
  simp only [spinner, need_bind_error, pure_eq_ok] at h
  rcases h with ⟨_, h⟩ | ⟨_, _, ⟨_, h⟩ | ⟨_, _, ⟨_, h⟩ | ⟨_, _, h⟩⟩⟩
  · exact Or.inl h.symm
  · exact Or.inr (Or.inl h.symm)
  · exact Or.inr (Or.inr h.symm)
  · cases h

theorem hold_error_cases (hd : Head F P) (r : Reject) (h : hold hd = .error r) :
    r = .badEndTime ∨ r = .badSampleTail := by
  unfold hold holdField at h
  cases hn : nonEmptyField hd.fields 5 with
  | none => rw [hn] at h; simp only [pure_eq_ok, ok_bind] at h; cases h
  | some s =>
    rw [hn] at h
    cases h1 : ((splitOn ':' s)[0]?).bind (time (F := F)) with
    | none => simp only [h1, need_none, error_bind, Except.error.injEq] at h; exact Or.inl h.symm
    | some e =>
      cases h2 : sampleField {} ((splitOn ':' s).drop 1) false with
      | none => simp only [h1, h2, need_some, need_none, ok_bind, error_bind, Except.error.injEq] at h; exact Or.inr h.symm
      | some info => simp only [h1, h2, need_some, ok_bind, pure_eq_ok] at h; cases h

theorem slider_error_cases (ctx : Ctx P) (hd : Head F P) (r : Reject) (h : slider ctx hd = .error r) :
    r = .sliderTooFewFields ∨ r = .badRepeat ∨ r = .repeatTooLarge ∨ r = .badLength ∨ r = .badSampleTail ∨
    r = .badEdgeSet ∨ r = .badPath := by
  simp only [slider, need_bind_error, check_bind_error, pure_eq_ok] at h
  rcases h with ⟨_, h⟩ | ⟨_, _, ⟨_, h⟩ | ⟨_, _, ⟨_, h⟩ | ⟨_, _, ⟨_, h⟩ | ⟨_, ⟨_, h⟩ | ⟨_, _, ⟨_, h⟩ | ⟨_, _, ⟨_, h⟩ | ⟨_, _, ⟨_, h⟩ | ⟨_, _, h⟩⟩⟩⟩⟩⟩⟩⟩
  all_goals first
    | (cases h; done)
    | (subst h; simp)

/-- **the reasons of a rejected line, exhaustively and by kind**: a header reason; or no kind bit; or,
for the kind chosen by precedence, one of that kind's reasons. -/
theorem specLine_error_cases (ctx : Ctx P) (line : Str) (r : Reject)
    (h : (specLine ctx line : Except Reject (Accepted F P)) = .error r) :
    (r = .tooFewFields ∨ r = .badX ∨ r = .badY ∨ r = .badTime ∨ r = .badType ∨ r = .badSound) ∨
    ∃ hd : Head F P, head line = .ok hd ∧
      match kindOf hd.ty with
      | none => r = .noKind
      | some .circle => r = .badSampleTail
      | some .slider => r = .sliderTooFewFields ∨ r = .badRepeat ∨ r = .repeatTooLarge ∨ r = .badLength ∨
          r = .badSampleTail ∨ r = .badEdgeSet ∨ r = .badPath
      | some .spinner => r = .spinnerNoEnd ∨ r = .badEndTime ∨ r = .badSampleTail
      | some .hold => r = .badEndTime ∨ r = .badSampleTail := by
  unfold specLine at h
  cases hh : (head line : Except Reject (Head F P)) with
  | error r' =>
    rw [hh] at h
    simp only [Except.error.injEq] at h
    subst h
    exact Or.inl (head_error_cases line r' hh)
  | ok hd =>
    rw [hh] at h
    simp only at h
    refine Or.inr ⟨hd, rfl, ?_⟩
    unfold body at h
    cases hk : kindOf hd.ty with
    | none => rw [hk] at h; cases h; rfl
    | some cls =>
      rw [hk] at h
      cases cls with
      | circle => exact circle_error_cases ctx hd r h
      | slider => exact slider_error_cases ctx hd r h
      | spinner => exact spinner_error_cases hd r h
      | hold => exact hold_error_cases hd r h

end Rosu.C14.HoSpec
