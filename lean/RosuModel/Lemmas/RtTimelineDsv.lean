/-
  Lemmas/RtTimelineDsv.lean — the DIFFICULTY points of the re-decoded collection (exact arithmetic), next to
  Lemmas/RtTimelineMain.lean which follows the velocity FIELD (slider velocity in osu! / catch, scroll speed in taiko / mania).

  Every line of the `[TimingPoints]` block carries ONE velocity field; the decoder stores it in a `DifficultyPoint`
  (`clamp(·, 0.1, 10)`) in every mode, and in taiko / mania also in the `EffectPoint` (`clamp(·, 0.01, 10)`). So after the
  round trip the difficulty timeline is the clamp of the field's timeline:
  `redecoded_dsv`: at every time, `difficulty_point_at(u).slider_velocity` of the re-decoded collection is
  `clamp(v, 0.1, 10)` for `v` = the re-decoded effective velocity field at `u` (`svFor`). In osu! / catch this says nothing
  new; in taiko / mania it says the re-decoded SLIDER velocity is the clamped SCROLL speed — the map's own difficulty
  points are not written at all.
-/
import RosuModel.Lemmas.RtTimelineMain
namespace Rosu
namespace RtTiming
open Rosu Encode Scalar
set_option linter.unusedSectionVars false

variable {F : Type} [Scalar F] {P : Type} [Scalar P]

/-- `addGroup_step`, the difficulty list: the effective `slider_velocity` of the difficulty points changes exactly from the
group's key on, to the clamp of the group's velocity field. -/
theorem addGroup_dsv (E : EpsLaws F) {mode : GameMode} {cp : ControlPoints F} (H : TimelineHyps mode cp) (g : Group F)
    (hwf : ∀ t, g.timing = some t → g.time = t.time ∧ t ∈ cp.timingPoints) (last : Props F) (dflt : SampleBank)
    (cpd : ControlPoints F) (B : Int) (hk : KeysLe cpd B) (hB : B < gkey g)
    (hne : (groupStep mode cp g last).1 ≠ []) :
    ∀ k, dsvK (C12.addGroup mode cpd ((groupStep mode cp g last).1.map (Entry.read dflt))).difficultyPoints k =
      if k < gkey g then dsvK cpd.difficultyPoints k
      else clamp (Props.new g.time cp last g.timing.isSome mode).sliderVelocity (0.1 : F) (10 : F) := by
  obtain ⟨w1, w2, _⟩ := winner_facts E H g hwf last dflt
  obtain ⟨_, l2, _⟩ := flushInto_lists cpd (C12.resolve mode ((groupStep mode cp g last).1.map (Entry.read dflt)))
  have hres := resolve_step mode cp g last dflt hne
  rw [hres] at l2
  simp only [optAdd] at l2
  have kd : DifficultyPoint.key (winnerOf mode cp g last dflt).difficultyPoint = gkey g := by
    show totalKey (winnerOf mode cp g last dflt).time = _
    rw [w1]; rfl
  intro k
  show dsvK (flushInto cpd (C12.resolve mode _)).difficultyPoints k = _
  rw [hres, l2]
  unfold dsvK
  rw [add_beyond_value _ _ _ (dRed_sv E) _ _ (fun y hy => by rw [kd]; have := hk.d y hy; omega), kd]
  simp only [TpLine.difficultyPoint, DifficultyPoint.new, w2]

/-- **dec_dsv.** Induction over the groups: "the difficulty timeline is the clamp of the velocity-field timeline" is kept
by every group the decoder adds. -/
theorem dec_dsv (E : EpsLaws F) {mode : GameMode} {cp : ControlPoints F} (H : TimelineHyps mode cp) (dflt : SampleBank)
    (gs : List (Group F)) (hsorted : C13.SortedBy gkey gs)
    (hwf : ∀ g ∈ gs, ∀ t, g.timing = some t → g.time = t.time ∧ t ∈ cp.timingPoints) :
    ∀ (last : Props F) (cpd : ControlPoints F) (B : Int), (∀ g ∈ gs, B < gkey g) → KeysLe cpd B →
      (∀ k, dsvK cpd.difficultyPoints k = clamp (svK mode cpd k) (0.1 : F) (10 : F)) →
      ∀ k, dsvK (decGroups mode cp dflt gs last cpd).difficultyPoints k =
        clamp (svK mode (decGroups mode cp dflt gs last cpd) k) (0.1 : F) (10 : F) := by
  induction gs with
  | nil => intro last cpd B _ _ hinv; exact hinv
  | cons g rest ih =>
    intro last cpd B hB hk hinv
    obtain ⟨hg, hrest⟩ := C13.sortedBy_cons.mp hsorted
    have hBT : B < gkey g := hB g (by simp)
    simp only [decGroups]
    by_cases hE : (groupStep mode cp g last).1 = []
    · rw [hE, List.map_nil, C12.addGroup_nil]
      exact ih hrest (fun g' hg' => hwf g' (by simp [hg'])) _ cpd (gkey g) hg
        ⟨fun p hp => by have := hk.t p hp; omega, fun p hp => by have := hk.d p hp; omega,
          fun p hp => by have := hk.e p hp; omega⟩ hinv
    · obtain ⟨_, s2, _, s4⟩ := addGroup_step E H g (hwf g (by simp)) last dflt cpd B hk hBT hE
      have s5 := addGroup_dsv E H g (hwf g (by simp)) last dflt cpd B hk hBT hE
      refine ih hrest (fun g' hg' => hwf g' (by simp [hg'])) _ _ (gkey g) hg s4 ?_
      intro k
      rw [s5 k, s2 k]
      by_cases hkT : k < gkey g
      · simp only [hkT, if_true]; exact hinv k
      · simp only [hkT, if_false]

/-- **redecoded_dsv** (exact arithmetic; the setting of `timing_roundtrip`). In the collection the decoder's state machine
flushes to after reading the values written for `cp`, at every time the slider velocity of `difficulty_point_at` (default 1)
is `clamp(·, 0.1, 10)` of the effective velocity field (`svFor`: scroll speed of `effect_point_at` in taiko / mania, the
slider velocity itself otherwise). `hone`: `clamp(1, 0.1, 10) = 1` (before the first line both are the default 1). -/
theorem redecoded_dsv (E : EpsLaws F) (G : GroupLaws F) {mode : GameMode} {cp : ControlPoints F}
    (H : TimelineHyps mode cp) (hone : clamp (1 : F) (0.1 : F) (10 : F) = 1) (g0 : GeneralState F P) (hm : g0.mode = mode) :
    let cp' := (C12.runTpLines { (TimingPointsState.create : TimingPointsState F P) with general := g0 }
      ((groupEntries mode cp (timingGroups cp) Props.default).map (Entry.read g0.defaultSampleBank))).finish.2
    ∀ u : F, ((cp'.difficultyPointAt u).map (·.sliderVelocity)).getD (1 : F) = clamp (svFor mode cp' u) (0.1 : F) (10 : F) := by
  intro cp'
  obtain ⟨g1, _, g3, _, _, _, _⟩ := timingGroups_spec H.sorted
  have hrun : cp' = decGroups mode cp g0.defaultSampleBank (timingGroups cp) Props.default ControlPoints.empty :=
    dec_run G mode cp g0.defaultSampleBank (timingGroups cp) g1 (fun g hg t ht => (g3 g hg t ht).1) Props.default
      { (TimingPointsState.create : TimingPointsState F P) with general := g0 } hm (Or.inl rfl)
  have hB : ∃ B : Int, ∀ g ∈ timingGroups cp, B < gkey g := by
    cases hgs : timingGroups cp with
    | nil => exact ⟨0, fun g hg => by cases hg⟩
    | cons g rest =>
      rw [hgs] at g1
      obtain ⟨hg, _⟩ := C13.sortedBy_cons.mp g1
      refine ⟨gkey g - 1, fun g' hg' => ?_⟩
      rcases List.mem_cons.mp hg' with rfl | hg'
      · omega
      · have := hg g' hg'; omega
  obtain ⟨B, hB⟩ := hB
  have hinit : ∀ k, dsvK (ControlPoints.empty : ControlPoints F).difficultyPoints k =
      clamp (svK mode (ControlPoints.empty : ControlPoints F) k) (0.1 : F) (10 : F) := by
    intro k
    have h1 : dsvK (ControlPoints.empty : ControlPoints F).difficultyPoints k = 1 := rfl
    have h2 : svK mode (ControlPoints.empty : ControlPoints F) k = 1 := by cases mode <;> rfl
    rw [h1, h2, hone]
  have key := dec_dsv E H g0.defaultSampleBank (timingGroups cp) g1 g3 Props.default ControlPoints.empty B hB
    ⟨(fun p hp => by cases hp), (fun p hp => by cases hp), (fun p hp => by cases hp)⟩ hinit
  intro u
  rw [svFor_eq_svK, hrun, ← key (totalKey u)]
  exact svFor_eq_svK GameMode.osu _ u

end RtTiming
end Rosu
