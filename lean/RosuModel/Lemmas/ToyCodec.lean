/-
  Lemmas/ToyCodec.lean — a small decidable `Scalar` instance with a working codec (`print` = the model's
  `Display for i32`, `parse` = the model's `FromStr for i32`), showing that the codec laws of
  Lemmas/CodecLaws.lean are satisfiable and giving concrete non-vacuity examples for the law-dependent
  round-trip theorems. Decimal literals truncate (`0.4 = 0`, `3.6 = 3`), there is no NaN.
-/
import RosuModel.Lemmas.CodecLaws
namespace Rosu

structure ZC where
  v : Int
  deriving DecidableEq, Repr

instance : Scalar ZC where
  add a b := ⟨a.v + b.v⟩
  sub a b := ⟨a.v - b.v⟩
  mul a b := ⟨a.v * b.v⟩
  div a b := ⟨a.v / b.v⟩
  neg a := ⟨-a.v⟩
  ofNat n := ⟨n⟩
  ofSci m s e := ⟨if s then (m : Int) / (10 ^ e : Nat) else (m : Int) * (10 ^ e : Nat)⟩
  lt a b := decide (a.v < b.v)
  le a b := decide (a.v ≤ b.v)
  eq a b := decide (a.v = b.v)
  isNaN _ := false
  abs a := ⟨a.v.natAbs⟩
  sqrt a := a
  ceil a := a
  eps := ⟨1⟩
  ofInt n := ⟨n⟩
  toI32 a := a.v
  toUsize a := a.v.toNat
  totalKey a := a.v
  parse s := (i32FromStr s).map ZC.mk
  print a := intDigits a.v

instance : Cvt ZC ZC := ⟨id, id⟩
instance : Trig ZC := ⟨fun _ => ⟨0⟩, fun _ => ⟨1⟩, fun _ => ⟨0⟩, fun _ _ => ⟨0⟩, ⟨3⟩⟩

namespace ZC

/-- the values the toy codec represents: the `i32` range. -/
def Rep (a : ZC) : Prop := i32Min ≤ a.v ∧ a.v ≤ i32Max

instance (a : ZC) : Decidable (Rep a) := by unfold Rep; infer_instance

theorem numChar_of_intDigits (n : Int) : ∀ c ∈ intDigits n, numChar c = true := by
  intro c hc
  rcases intDigits_chars n c hc with h | h
  · simp [numChar, h]
  · subst h; decide

/-- the toy codec is lawful. -/
theorem laws : CodecLaws ZC Rep where
  parse_print := by
    intro x hx
    show (i32FromStr (intDigits x.v)).map ZC.mk = some x
    rw [i32FromStr_intDigits x.v hx.1 hx.2]
    rfl
  print_clean := fun x _ => numChar_of_intDigits x.v
  print_ne_nil := fun x _ => intDigits_ne_nil x.v

theorem intPrintLaw : IntPrintLaw ZC := fun _ _ _ => rfl

theorem inLimit_iff (a : ZC) : InLimit a ↔ -i32Max ≤ a.v ∧ a.v ≤ i32Max := by
  unfold InLimit
  show (decide (a.v < -i32Max) = false ∧ decide (i32Max < a.v) = false ∧ false = false) ↔ _
  simp only [decide_eq_false_iff_not, Int.not_lt, and_true]

instance (a : ZC) : Decidable (InLimit a) := decidable_of_iff _ (inLimit_iff a).symm

example : floatParse (Scalar.print (ZC.mk (-2147483647))) = some (ZC.mk (-2147483647)) :=
  floatParse_print laws (x := ZC.mk (-2147483647)) (by decide) (by decide)

end ZC
end Rosu
