/-
  Lemmas/BezierPure.lean — the Bezier scratch buffers (`BezierBuffers`) never leak stale contents:
  every cell `bezier_subdivide` / `bezier_approximate` / `approximate_bspline` read was written earlier in the
  same call. Proved by running two computations in lock step on buffers that differ arbitrarily and
  tracking on which index ranges they agree (`Agr`). Structural: every `Scalar` instance.
-/
import RosuModel.Model.Curve
import RosuModel.Lemmas.Outcome
namespace Rosu
open Rosu.Curve

variable {P : Type} [Scalar P]

/-- the four scratch vectors have the same length (true of `Default`, preserved by `extend_exact`, and
nothing else resizes them). -/
def BezierBuffers.WF (b : BezierBuffers P) : Prop :=
  b.right.length = b.left.length ∧ b.midpoints.length = b.left.length ∧ b.leftChild.length = b.left.length

/-- two runs of `approximate_bezier` agree: same error, or same pushed points (and well-formed buffers). -/
def BezAgree (r r' : Outcome (List (Pos P) × BezierBuffers P)) : Prop :=
  match r, r' with
  | .ok (o, b), .ok (o', b') => o = o' ∧ b.WF ∧ b'.WF
  | .error e, .error e' => e = e'
  | _, _ => False

/-- `approximate_bezier` does not depend on what the scratch buffers hold. -/
def BezierPure (P : Type) [Scalar P] (fuel : Nat) : Prop :=
  ∀ (pts : List (Pos P)), 2 ≤ pts.length → ∀ b b' : BezierBuffers P, b.WF → b'.WF →
    BezAgree (approximateBezier fuel pts b) (approximateBezier fuel pts b')

theorem BezierBuffers.extendExact_wf (b : BezierBuffers P) (n : Nat) (h : b.WF) : (b.extendExact n).WF := by
  unfold BezierBuffers.extendExact
  split
  · exact h
  · obtain ⟨h1, h2, h3⟩ := h
    simp only [BezierBuffers.WF, List.length_append, List.length_replicate]
    omega

theorem BezierBuffers.extendExact_len (b : BezierBuffers P) (n : Nat) : n ≤ (b.extendExact n).left.length := by
  unfold BezierBuffers.extendExact
  split
  · assumption
  · simp only [List.length_append, List.length_replicate]; omega

/-! ### agreement of two lists on an index range -/

section Agr
variable {α : Type}

/-- `l` and `l'` hold the same cells on `[lo, hi)`. -/
def Agr (lo hi : Nat) (l l' : List α) : Prop := ∀ j, lo ≤ j → j < hi → l[j]? = l'[j]?

theorem Agr.triv (lo : Nat) (l l' : List α) : Agr lo lo l l' := fun _ h1 h2 => by omega

theorem Agr.read {lo hi : Nat} {l l' : List α} (h : Agr lo hi l l') {j : Nat} (h1 : lo ≤ j) (h2 : j < hi)
    (hl : j < l.length) : ∃ a, getI l j = .ok a ∧ getI l' j = .ok a := by
  refine ⟨l[j], getI_eq l j hl, ?_⟩
  apply getI_of_some
  rw [← h j h1 h2, List.getElem?_eq_getElem hl]

theorem Agr.set {lo hi : Nat} {l l' : List α} (h : Agr lo hi l l') (j : Nat) (x : α)
    (hl : j < l.length) (hl' : j < l'.length) (lo' hi' : Nat)
    (hcov : ∀ k, lo' ≤ k → k < hi' → k = j ∨ (lo ≤ k ∧ k < hi)) :
    Agr lo' hi' (l.set j x) (l'.set j x) := by
  intro k hk1 hk2
  rw [List.getElem?_set, List.getElem?_set]
  by_cases hjk : j = k
  · subst hjk; simp [hl, hl']
  · simp only [hjk, if_false]
    rcases hcov k hk1 hk2 with h0 | ⟨h0, h0'⟩
    · exact absurd h0.symm hjk
    · exact h k h0 h0'

theorem Agr.mono {lo hi lo' hi' : Nat} {l l' : List α} (h : Agr lo hi l l') (h1 : lo ≤ lo') (h2 : hi' ≤ hi) :
    Agr lo' hi' l l' := fun j a b => h j (by omega) (by omega)

theorem Agr.take_eq {n : Nat} {l l' : List α} (h : Agr 0 n l l') : l.take n = l'.take n := by
  apply List.ext_getElem?
  intro i
  rw [List.getElem?_take, List.getElem?_take]
  split
  · exact h i (Nat.zero_le _) ‹_›
  · rfl

end Agr

/-! ### `bezier_subdivide` in lock step -/

theorem subdivInner_agree (n : Nat) : ∀ (rem j : Nat) (mid mid' : List (Pos P)),
    j + rem + 1 ≤ n → n ≤ mid.length → n ≤ mid'.length → Agr 0 n mid mid' →
    ∃ m m', subdivInner rem j mid = .ok m ∧ subdivInner rem j mid' = .ok m' ∧
      m.length = mid.length ∧ m'.length = mid'.length ∧ Agr 0 n m m' := by
  intro rem
  induction rem with
  | zero => intro j mid mid' _ _ _ h; exact ⟨mid, mid', rfl, rfl, rfl, rfl, h⟩
  | succ rem ih =>
    intro j mid mid' hj hl hl' h
    obtain ⟨a, ha, ha'⟩ := h.read (j := j) (Nat.zero_le _) (by omega) (by omega)
    obtain ⟨b, hb, hb'⟩ := h.read (j := j + 1) (Nat.zero_le _) (by omega) (by omega)
    have hs := setI_eq mid j ((a + b).sdiv (2 : P)) (by omega)
    have hs' := setI_eq mid' j ((a + b).sdiv (2 : P)) (by omega)
    obtain ⟨m, m', h1, h2, h3, h4, h5⟩ :=
      ih (j + 1) (mid.set j ((a + b).sdiv (2 : P))) (mid'.set j ((a + b).sdiv (2 : P))) (by omega)
        (by rw [List.length_set]; exact hl) (by rw [List.length_set]; exact hl')
        (h.set j _ (by omega) (by omega) 0 n (fun k hk1 hk2 => Or.inr ⟨hk1, hk2⟩))
    refine ⟨m, m', ?_, ?_, by rw [h3, List.length_set], by rw [h4, List.length_set], h5⟩
    · simp only [subdivInner, ha, hb, hs, Outcome.ok_bind]; exact h1
    · simp only [subdivInner, ha', hb', hs', Outcome.ok_bind]; exact h2

/-- relation between the two runs when the outer loop is about to execute `i, i-1, …, 1`. -/
structure SubRel (count i : Nat) (l r mid l' r' mid' : List (Pos P)) : Prop where
  ll : count ≤ l.length
  lr : count ≤ r.length
  lm : count ≤ mid.length
  ll' : count ≤ l'.length
  lr' : count ≤ r'.length
  lm' : count ≤ mid'.length
  am : Agr 0 (i + 1) mid mid'
  al : Agr 0 (count - 1 - i) l l'
  ar : Agr (i + 1) count r r'

theorem subdivOuter_agree (count : Nat) : ∀ (i : Nat) (l r mid l' r' mid' : List (Pos P)),
    i + 1 ≤ count → SubRel count i l r mid l' r' mid' →
    ∃ l2 r2 m2 l2' r2' m2', subdivOuter count i (l, r, mid) = .ok (l2, r2, m2) ∧
      subdivOuter count i (l', r', mid') = .ok (l2', r2', m2') ∧
      l2.length = l.length ∧ r2.length = r.length ∧ m2.length = mid.length ∧
      l2'.length = l'.length ∧ r2'.length = r'.length ∧ m2'.length = mid'.length ∧
      SubRel count 0 l2 r2 m2 l2' r2' m2' := by
  intro i
  induction i with
  | zero =>
    intro l r mid l' r' mid' _ h
    exact ⟨l, r, mid, l', r', mid', rfl, rfl, rfl, rfl, rfl, rfl, rfl, rfl, h⟩
  | succ i ih =>
    intro l r mid l' r' mid' hi h
    obtain ⟨m0, hm0, hm0'⟩ := h.am.read (j := 0) (Nat.le_refl _) (by omega) (by have := h.lm; omega)
    obtain ⟨mi, hmi, hmi'⟩ := h.am.read (j := i + 1) (Nat.zero_le _) (by omega) (by have := h.lm; omega)
    have hu1 := usub_eq count (i + 1) (by omega)
    have hu2 := usub_eq (count - (i + 1)) 1 (by omega)
    have hk : count - (i + 1) - 1 < count := by omega
    have hsl := setI_eq l (count - (i + 1) - 1) m0 (by have := h.ll; omega)
    have hsl' := setI_eq l' (count - (i + 1) - 1) m0 (by have := h.ll'; omega)
    have hsr := setI_eq r (i + 1) mi (by have := h.lr; omega)
    have hsr' := setI_eq r' (i + 1) mi (by have := h.lr'; omega)
    obtain ⟨mm, mm', hin, hin', hlen, hlen', hagr⟩ :=
      subdivInner_agree (i + 2) (i + 1) 0 mid mid' (by omega) (by have := h.lm; omega)
        (by have := h.lm'; omega) h.am
    have hrel : SubRel count i (l.set (count - (i + 1) - 1) m0) (r.set (i + 1) mi) mm
        (l'.set (count - (i + 1) - 1) m0) (r'.set (i + 1) mi) mm' :=
      { ll := by rw [List.length_set]; exact h.ll
        lr := by rw [List.length_set]; exact h.lr
        lm := by rw [hlen]; exact h.lm
        ll' := by rw [List.length_set]; exact h.ll'
        lr' := by rw [List.length_set]; exact h.lr'
        lm' := by rw [hlen']; exact h.lm'
        am := hagr.mono (Nat.le_refl _) (by omega)
        al := h.al.set _ _ (by have := h.ll; omega) (by have := h.ll'; omega) 0 (count - 1 - i)
          (fun k _ hk2 => by omega)
        ar := h.ar.set _ _ (by have := h.lr; omega) (by have := h.lr'; omega) (i + 1) count
          (fun k hk1 hk2 => by omega) }
    obtain ⟨l2, r2, m2, l2', r2', m2', e1, e2, g1, g2, g3, g4, g5, g6, hr⟩ := ih _ _ _ _ _ _ (by omega) hrel
    refine ⟨l2, r2, m2, l2', r2', m2', ?_, ?_, ?_, ?_, ?_, ?_, ?_, ?_, hr⟩
    · simp only [subdivOuter, hm0, hu1, hu2, hsl, hmi, hsr, hin, Outcome.ok_bind]; exact e1
    · simp only [subdivOuter, hm0', hu1, hu2, hsl', hmi', hsr', hin', Outcome.ok_bind]; exact e2
    · rw [g1, List.length_set]
    · rw [g2, List.length_set]
    · rw [g3, hlen]
    · rw [g4, List.length_set]
    · rw [g5, List.length_set]
    · rw [g6, hlen']

/-- **`bezier_subdivide` reads only what it wrote**: on scratch buffers of sufficient length, whatever they
hold, it succeeds, keeps their lengths, and the first `count` cells of `l` and of `r` afterwards depend on
`points` only. -/
theorem bezierSubdivide_agree (points l r mid l' r' mid' : List (Pos P)) (hc : 1 ≤ points.length)
    (hl : points.length ≤ l.length) (hr : points.length ≤ r.length) (hm : points.length ≤ mid.length)
    (hl' : points.length ≤ l'.length) (hr' : points.length ≤ r'.length) (hm' : points.length ≤ mid'.length) :
    ∃ l2 r2 m2 l2' r2' m2', bezierSubdivide points l r mid = .ok (l2, r2, m2) ∧
      bezierSubdivide points l' r' mid' = .ok (l2', r2', m2') ∧
      l2.length = l.length ∧ r2.length = r.length ∧ m2.length = mid.length ∧
      l2'.length = l'.length ∧ r2'.length = r'.length ∧ m2'.length = mid'.length ∧
      l2.take points.length = l2'.take points.length ∧ r2.take points.length = r2'.take points.length := by
  have hcp := show copyPrefix mid points points.length = .ok (points.take points.length ++ mid.drop points.length) by
    simp [copyPrefix, hm]
  have hcp' := show copyPrefix mid' points points.length = .ok (points.take points.length ++ mid'.drop points.length) by
    simp [copyPrefix, hm']
  have hlm : (points.take points.length ++ mid.drop points.length).length = mid.length := by
    simp; omega
  have hlm' : (points.take points.length ++ mid'.drop points.length).length = mid'.length := by
    simp; omega
  have hagr : Agr 0 (points.length - 1 + 1) (points.take points.length ++ mid.drop points.length)
      (points.take points.length ++ mid'.drop points.length) := by
    intro j _ hj
    rw [List.getElem?_append_left (by simp; omega), List.getElem?_append_left (by simp; omega)]
  have hrel : SubRel points.length (points.length - 1) l r
      (points.take points.length ++ mid.drop points.length) l' r'
      (points.take points.length ++ mid'.drop points.length) :=
    { ll := hl, lr := hr, lm := by rw [hlm]; exact hm, ll' := hl', lr' := hr', lm' := by rw [hlm']; exact hm'
      am := hagr
      al := by
        have : points.length - 1 - (points.length - 1) = 0 := by omega
        rw [this]; exact Agr.triv 0 _ _
      ar := by
        have : points.length - 1 + 1 = points.length := by omega
        rw [this]; exact Agr.triv _ _ _ }
  obtain ⟨l2, r2, m2, l2', r2', m2', e1, e2, g1, g2, g3, g4, g5, g6, hrl⟩ :=
    subdivOuter_agree points.length (points.length - 1) _ _ _ _ _ _ (by omega) hrel
  obtain ⟨m0, hm0, hm0'⟩ := hrl.am.read (j := 0) (Nat.le_refl _) (by omega) (by have := hrl.lm; omega)
  have hu := usub_eq points.length 1 hc
  have hsl := setI_eq l2 (points.length - 1) m0 (by have := hrl.ll; omega)
  have hsl' := setI_eq l2' (points.length - 1) m0 (by have := hrl.ll'; omega)
  have hsr := setI_eq r2 0 m0 (by have := hrl.lr; omega)
  have hsr' := setI_eq r2' 0 m0 (by have := hrl.lr'; omega)
  refine ⟨l2.set (points.length - 1) m0, r2.set 0 m0, m2, l2'.set (points.length - 1) m0, r2'.set 0 m0, m2',
    ?_, ?_, ?_, ?_, ?_, ?_, ?_, ?_, ?_, ?_⟩
  · simp only [bezierSubdivide, hcp, e1, hm0, hu, hsl, hsr, Outcome.ok_bind, Outcome.pure_eq_ok]
  · simp only [bezierSubdivide, hcp', e2, hm0', hu, hsl', hsr', Outcome.ok_bind, Outcome.pure_eq_ok]
  · rw [List.length_set, g1]
  · rw [List.length_set, g2]
  · rw [g3, hlm]
  · rw [List.length_set, g4]
  · rw [List.length_set, g5]
  · rw [g6, hlm']
  · apply Agr.take_eq
    have := hrl.al
    exact this.set _ _ (by have := hrl.ll; omega) (by have := hrl.ll'; omega) 0 points.length
      (fun k _ hk2 => by omega)
  · apply Agr.take_eq
    have := hrl.ar
    exact this.set _ _ (by have := hrl.lr; omega) (by have := hrl.lr'; omega) 0 points.length
      (fun k _ hk2 => by omega)

/-- **`bezier_approximate` reads only what it wrote**: the pushed points depend on `points` only. -/
theorem bezierApproximate_agree (points l r mid l' r' mid' : List (Pos P)) (hc : 1 ≤ points.length)
    (hl : points.length ≤ l.length) (hr : points.length ≤ r.length) (hm : points.length ≤ mid.length)
    (hl' : points.length ≤ l'.length) (hr' : points.length ≤ r'.length) (hm' : points.length ≤ mid'.length) :
    ∃ piece l2 r2 m2 l2' r2' m2', bezierApproximate points l r mid = .ok (piece, l2, r2, m2) ∧
      bezierApproximate points l' r' mid' = .ok (piece, l2', r2', m2') ∧
      l2.length = l.length ∧ r2.length = r.length ∧ m2.length = mid.length ∧
      l2'.length = l'.length ∧ r2'.length = r'.length ∧ m2'.length = mid'.length := by
  obtain ⟨l2, r2, m2, l2', r2', m2', e1, e2, g1, g2, g3, g4, g5, g6, tl, tr⟩ :=
    bezierSubdivide_agree points l r mid l' r' mid' hc hl hr hm hl' hr' hm'
  have hp0 := getI_eq points 0 (by omega)
  have s1 := sliceTo_eq l2 points.length (by omega)
  have s1' := sliceTo_eq l2' points.length (by omega)
  have s2 : sliceFromTo r2 1 points.length = .ok ((r2.take points.length).drop 1) := by
    simp [sliceFromTo, hc]; omega
  have s2' : sliceFromTo r2' 1 points.length = .ok ((r2'.take points.length).drop 1) := by
    simp [sliceFromTo, hc]; omega
  refine ⟨points[0] :: approxTriples ((l2.take points.length ++ (r2.take points.length).drop 1).drop 1),
    l2, r2, m2, l2', r2', m2', ?_, ?_, g1, g2, g3, g4, g5, g6⟩
  · simp only [bezierApproximate, e1, hp0, s1, s2, Outcome.ok_bind, Outcome.pure_eq_ok]
  · simp only [bezierApproximate, e2, hp0, s1', s2', Outcome.ok_bind, Outcome.pure_eq_ok, tl, tr]

/-! ### the flattening loop -/

/-- all four scratch vectors hold at least `p` cells. -/
def BezierBuffers.Big (b : BezierBuffers P) (p : Nat) : Prop :=
  p ≤ b.left.length ∧ p ≤ b.right.length ∧ p ≤ b.midpoints.length ∧ p ≤ b.leftChild.length

/-- same vector lengths. -/
def BezierBuffers.SameLen (b b2 : BezierBuffers P) : Prop :=
  b2.left.length = b.left.length ∧ b2.right.length = b.right.length ∧
  b2.midpoints.length = b.midpoints.length ∧ b2.leftChild.length = b.leftChild.length

/-- two runs of the loop agree: same error, or same pushed points and unchanged vector lengths. -/
def LoopAgree (b b' : BezierBuffers P) (r r' : Outcome (List (Pos P) × BezierBuffers P)) : Prop :=
  match r, r' with
  | .ok (o, b2), .ok (o', b2') => o = o' ∧ b.SameLen b2 ∧ b'.SameLen b2'
  | .error e, .error e' => e = e'
  | _, _ => False

theorem BezierBuffers.SameLen.trans {b c d : BezierBuffers P} (h : b.SameLen c) (h' : c.SameLen d) :
    b.SameLen d := by
  obtain ⟨a1, a2, a3, a4⟩ := h
  obtain ⟨c1, c2, c3, c4⟩ := h'
  exact ⟨by rw [c1, a1], by rw [c2, a2], by rw [c3, a3], by rw [c4, a4]⟩

theorem LoopAgree.weaken {b b' c c' : BezierBuffers P} {r r' : Outcome (List (Pos P) × BezierBuffers P)}
    (h : LoopAgree c c' r r') (hc : b.SameLen c) (hc' : b'.SameLen c') : LoopAgree b b' r r' := by
  cases r <;> cases r' <;> simp only [LoopAgree] at h ⊢
  all_goals first | exact h | exact ⟨h.1, hc.trans h.2.1, hc'.trans h.2.2⟩

theorem LoopAgree.push (piece : List (Pos P)) {b b' c c' : BezierBuffers P}
    {r r' : Outcome (List (Pos P) × BezierBuffers P)}
    (h : LoopAgree c c' r r') (hc : b.SameLen c) (hc' : b'.SameLen c') :
    LoopAgree b b' (do let x ← r; pure (piece ++ x.1, x.2)) (do let x ← r'; pure (piece ++ x.1, x.2)) := by
  have h := h.weaken hc hc'
  cases r <;> cases r' <;>
    simp only [LoopAgree, Outcome.ok_bind, Outcome.error_bind, Outcome.pure_eq_ok] at h ⊢
  all_goals first | exact h | exact ⟨by rw [h.1], h.2.1, h.2.2⟩

theorem LoopAgree.finish {b b' : BezierBuffers P} (hw : b.WF) (hw' : b'.WF) (last : Pos P)
    {r r' : Outcome (List (Pos P) × BezierBuffers P)} (h : LoopAgree b b' r r') :
    BezAgree (do let x ← r; pure (x.1 ++ [last], x.2)) (do let x ← r'; pure (x.1 ++ [last], x.2)) := by
  obtain ⟨w1, w2, w3⟩ := hw
  obtain ⟨w1', w2', w3'⟩ := hw'
  cases r <;> cases r' <;>
    simp only [LoopAgree, BezAgree, Outcome.ok_bind, Outcome.error_bind, Outcome.pure_eq_ok] at h ⊢
  all_goals first
    | exact h
    | (obtain ⟨ho, ⟨s1, s2, s3, s4⟩, ⟨s1', s2', s3', s4'⟩⟩ := h
       exact ⟨by rw [ho], ⟨by rw [s2, s1, w1], by rw [s3, s1, w2], by rw [s4, s1, w3]⟩,
         ⟨by rw [s2', s1', w1'], by rw [s3', s1', w2'], by rw [s4', s1', w3']⟩⟩)

theorem bsplineLoop_agree (p : Nat) (hp : 1 ≤ p) : ∀ (fuel : Nat) (stack free : List (List (Pos P)))
    (b b' : BezierBuffers P), (∀ x ∈ stack, x.length = p) → (∀ x ∈ free, x.length = p) →
    b.Big p → b'.Big p →
    LoopAgree b b' (bsplineLoop p fuel { stack := stack, free := free, bufs := b })
      (bsplineLoop p fuel { stack := stack, free := free, bufs := b' }) := by
  intro fuel
  induction fuel with
  | zero =>
    intro stack free b b' _ _ _ _
    cases stack with
    | nil => exact ⟨rfl, ⟨rfl, rfl, rfl, rfl⟩, ⟨rfl, rfl, rfl, rfl⟩⟩
    | cons x t => rfl
  | succ fuel ih =>
    intro stack free b b' hst hfr hb hb'
    cases stack with
    | nil => exact ⟨rfl, ⟨rfl, rfl, rfl, rfl⟩, ⟨rfl, rfl, rfl, rfl⟩⟩
    | cons parent rest =>
      have hpl : parent.length = p := hst parent (by simp)
      have hrest : ∀ x ∈ rest, x.length = p := fun x hx => hst x (by simp [hx])
      obtain ⟨b1, b2, b3, b4⟩ := hb
      obtain ⟨b1', b2', b3', b4'⟩ := hb'
      by_cases hflat : bezierIsFlatEnough parent = true
      · obtain ⟨piece, l2, r2, m2, l2', r2', m2', e1, e2, g1, g2, g3, g4, g5, g6⟩ :=
          bezierApproximate_agree parent b.left b.right b.midpoints b'.left b'.right b'.midpoints
            (by omega) (by omega) (by omega) (by omega) (by omega) (by omega) (by omega)
        have hrec := ih rest (parent :: free)
          { b with left := l2, right := r2, midpoints := m2 }
          { b' with left := l2', right := r2', midpoints := m2' } hrest
          (fun x hx => by
            rcases List.mem_cons.mp hx with h | h
            · rw [h]; exact hpl
            · exact hfr x h)
          ⟨by simp only; omega, by simp only; omega, by simp only; omega, b4⟩
          ⟨by simp only; omega, by simp only; omega, by simp only; omega, b4'⟩
        simp only [bsplineLoop, hflat, if_true, e1, e2, Outcome.ok_bind]
        exact hrec.push piece ⟨g1, g2, g3, rfl⟩ ⟨g4, g5, g6, rfl⟩
      · have hflat' : bezierIsFlatEnough parent = false := by
          cases h : bezierIsFlatEnough parent
          · rfl
          · exact absurd h hflat
        -- the right child: a recycled buffer or a fresh zeroed one, the same in both runs, of length `p`
        have main : ∀ (rc : List (Pos P)) (fr2 : List (List (Pos P))), rc.length = p →
            (∀ x ∈ fr2, x.length = p) →
            LoopAgree b b'
              (do let x ← bezierSubdivide parent b.leftChild rc b.midpoints
                  let s ← sliceTo x.1 p
                  let parent ← copyFromSlice parent s
                  bsplineLoop p fuel ⟨parent :: x.2.1 :: rest, fr2, { b with leftChild := x.1, midpoints := x.2.2 }⟩)
              (do let x ← bezierSubdivide parent b'.leftChild rc b'.midpoints
                  let s ← sliceTo x.1 p
                  let parent ← copyFromSlice parent s
                  bsplineLoop p fuel ⟨parent :: x.2.1 :: rest, fr2, { b' with leftChild := x.1, midpoints := x.2.2 }⟩) := by
          intro rc fr2 hrc hfr2
          obtain ⟨lc2, rc2, m2, lc2', rc2', m2', e1, e2, g1, g2, g3, g4, g5, g6, tl, tr⟩ :=
            bezierSubdivide_agree parent b.leftChild rc b.midpoints b'.leftChild rc b'.midpoints
              (by omega) (by omega) (by omega) (by omega) (by omega) (by omega) (by omega)
          rw [hpl] at tl tr
          have hrc2 : rc2 = rc2' := by
            rw [List.take_of_length_le (by omega), List.take_of_length_le (by omega)] at tr
            exact tr
          have s1 := sliceTo_eq lc2 p (by omega)
          have s1' := sliceTo_eq lc2' p (by omega)
          have c1 : copyFromSlice parent (lc2.take p) = .ok (lc2.take p) := by
            simp [copyFromSlice, hpl]; omega
          have c1' : copyFromSlice parent (lc2'.take p) = .ok (lc2'.take p) := by
            simp [copyFromSlice, hpl]; omega
          have hrec := ih (lc2.take p :: rc2 :: rest) fr2
            { b with leftChild := lc2, midpoints := m2 }
            { b' with leftChild := lc2', midpoints := m2' }
            (fun x hx => by
              rcases List.mem_cons.mp hx with h | h
              · rw [h]; simp; omega
              · rcases List.mem_cons.mp h with h | h
                · rw [h]; omega
                · exact hrest x h)
            hfr2
            ⟨b1, b2, by simp only; omega, by simp only; omega⟩
            ⟨b1', b2', by simp only; omega, by simp only; omega⟩
          simp only [e1, e2, s1, s1', c1, c1', Outcome.ok_bind]
          rw [← tl, ← hrc2]
          exact hrec.weaken ⟨rfl, rfl, g3, g1⟩ ⟨rfl, rfl, g6, g4⟩
        simp only [bsplineLoop, hflat', Bool.false_eq_true, if_false]
        cases free with
        | nil => exact main _ [] (by simp) (by simp)
        | cons f fr => exact main f fr (hfr f (by simp)) (fun x hx => hfr x (by simp [hx]))

/-- **`approximate_bezier` is pure in its scratch buffers** — for every fuel, every arithmetic, every control
polygon with at least two points and all well-formed buffers, whatever they hold (including the recycled
`free_bufs` right-child buffers, which are the same in both runs because they derive from the control points). -/
theorem bezierPure (fuel : Nat) : BezierPure P fuel := by
  intro pts h2 b b' hb hb'
  have hw := BezierBuffers.extendExact_wf b pts.length hb
  have hw' := BezierBuffers.extendExact_wf b' pts.length hb'
  have hlen := BezierBuffers.extendExact_len b pts.length
  have hlen' := BezierBuffers.extendExact_len b' pts.length
  have big : (b.extendExact pts.length).Big pts.length := by
    obtain ⟨w1, w2, w3⟩ := hw
    exact ⟨hlen, by omega, by omega, by omega⟩
  have big' : (b'.extendExact pts.length).Big pts.length := by
    obtain ⟨w1, w2, w3⟩ := hw'
    exact ⟨hlen', by omega, by omega, by omega⟩
  have key := bsplineLoop_agree pts.length (by omega) fuel [pts] [] _ _
    (fun x hx => by simp at hx; rw [hx]) (fun x hx => by simp at hx) big big'
  unfold approximateBezier approximateBspline
  have hu := usub_eq pts.length 1 (by omega)
  have hg := getI_eq pts (pts.length - 1) (by omega)
  simp only [hu, hg, Outcome.ok_bind]
  exact key.finish hw hw' _

end Rosu
