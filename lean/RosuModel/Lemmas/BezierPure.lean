/-
  Lemmas/BezierPure.lean — the Bezier scratch buffers (`BezierBuffers`) never leak stale contents:
  every cell `bezier_subdivide` / `bezier_approximate` read was written earlier in the same call.
-/
import RosuModel.Model.Curve
import RosuModel.Lemmas.Outcome
namespace Rosu
open Rosu.Curve

variable {P : Type} [Scalar P]

/-- the four scratch vectors have the same length (true of `Default`, preserved by `extend_exact`, and
nothing else resizes them). -/
def BezierBuffers.WF (b : BezierBuffers P) : Prop :=
  b.right.length = b.left.length ∧ b.midpoints.length = b.left.length ∧ b.leftChild.length = b.left.length

/-- two runs of `approximate_bezier` agree: same error, or same pushed points (and well-formed buffers). -/
def BezAgree (r r' : Outcome (List (Pos P) × BezierBuffers P)) : Prop :=
  match r, r' with
  | .ok (o, b), .ok (o', b') => o = o' ∧ b.WF ∧ b'.WF
  | .error e, .error e' => e = e'
  | _, _ => False

/-- `approximate_bezier` does not depend on what the scratch buffers hold. -/
def BezierPure (P : Type) [Scalar P] (fuel : Nat) : Prop :=
  ∀ (pts : List (Pos P)), 2 ≤ pts.length → ∀ b b' : BezierBuffers P, b.WF → b'.WF →
    BezAgree (approximateBezier fuel pts b) (approximateBezier fuel pts b')

theorem BezierBuffers.extendExact_wf (b : BezierBuffers P) (n : Nat) (h : b.WF) : (b.extendExact n).WF := by
  unfold BezierBuffers.extendExact
  split
  · exact h
  · obtain ⟨h1, h2, h3⟩ := h
    simp only [BezierBuffers.WF, List.length_append, List.length_replicate]
    omega

theorem BezierBuffers.extendExact_len (b : BezierBuffers P) (n : Nat) : n ≤ (b.extendExact n).left.length := by
  unfold BezierBuffers.extendExact
  split
  · assumption
  · simp only [List.length_append, List.length_replicate]; omega

end Rosu
