/-
  Lemmas/HoGrammarKinds.lean — the reference grammar (`HoSpec`, Lemmas/HoGrammarSpec.lean) against the
  pieces of the model parser: type bits, the five leading fields, and the four kinds one by one
  (`circle_eq_reference`, `spinner_eq_reference`, `hold_eq_reference`, `slider_eq_reference`).
-/
import RosuModel.Lemmas.HoGrammarTail
import RosuModel.Lemmas.HoGrammarPath
namespace Rosu.C14.HoSpec
open Rosu Scalar

set_option linter.unusedSectionVars false

variable {F P : Type} [Scalar F] [Scalar P] [Cvt P F]

@[simp] theorem need_some {α : Type} (a : α) (r : Reject) : need (some a) r = .ok a := rfl
@[simp] theorem need_none {α : Type} (r : Reject) : need (none : Option α) r = .error r := rfl
@[simp] theorem check_true (r : Reject) : check true r = .ok () := rfl
@[simp] theorem check_false (r : Reject) : check false r = .error r := rfl
@[simp] theorem ok_bind {α β : Type} (a : α) (f : α → Except Reject β) : (Except.ok a >>= f) = f a := rfl
@[simp] theorem error_bind {α β : Type} (r : Reject) (f : α → Except Reject β) :
    ((Except.error r : Except Reject α) >>= f) = .error r := rfl
@[simp] theorem pure_eq_ok {α : Type} (a : α) : (pure a : Except Reject α) = .ok a := rfl

/-! ### the type field -/

theorem comboOffsetOf_eq (ty : Int) : comboOffsetOf ty = comboOffsetBits ty := by
  unfold comboOffsetOf comboOffsetBits
  by_cases h4 : testBit ty 4 = true <;> by_cases h5 : testBit ty 5 = true <;> by_cases h6 : testBit ty 6 = true <;>
    simp only [h4, h5, h6, if_true, if_false, Bool.false_eq_true] <;>
    simp only [testBit_true, Int.reducePow] at h4 h5 h6 <;> omega

theorem newComboOf_eq (ty : Int) : newComboOf ty = newComboFlag ty := newCombo_is_bit2 ty

theorem maskedType_eq (ty : Int) : maskedType ty = rememberedType ty := by
  unfold maskedType rememberedType
  simp only [newComboOf_eq, comboOffsetOf_eq, newComboFlag]
  split <;> omega

/-- kind precedence on the masked type is kind precedence on the type as written. -/
theorem classify_masked (ty : Int) : classify (maskedType ty) = kindOf ty := by
  obtain ⟨h0, h1, h3, h7, _⟩ := maskedType_bits ty
  unfold classify kindOf typeCircle typeSlider typeSpinner typeHold
  rw [h0, h1, h3, h7]

theorem storedComboOffset_eq (ty : Int) : storedComboOffset ty = comboOffset ty := by
  unfold storedComboOffset comboOffset
  rw [newComboOf_eq, comboOffsetOf_eq]

/-- the part of the state a line can see. -/
def viewOf (st : HOCore F P) : View F P := ⟨st.lastObject, st.curvePoints, st.hitObjects⟩

theorem forcedNewCombo_eq (mode : GameMode) (st : HOCore F P) (ty : Int) :
    forcedNewCombo st ty = startsCombo (ctxOf mode (viewOf st)) ty := by
  unfold forcedNewCombo startsCombo lastWasSpinner afterSpinner ctxOf viewOf typeSpinner
  rw [newComboOf_eq]
  cases st.lastObject <;> rfl

/-! ### the five leading fields -/

/-- the spec's view of a parsed header. -/
def toHead (h : Header F P) (fs : List Str) : Head F P :=
  { x := h.pos.x, y := h.pos.y, time := h.startTime, ty := h.ty0, sound := h.soundType, fields := fs }

omit [Scalar F] [Cvt P F] in
theorem coordinate_eq (s : Str) :
    (coordinate s : Option P) =
      (floatParseWithLimits s (Scalar.ofInt maxCoordinate) : Option P).map fun v => Scalar.ofInt (Scalar.toI32 v) := by
  rw [number_eq]; rfl

omit [Scalar P] [Cvt P F] in
theorem time_eq (s : Str) : (time s : Option F) = floatParse s := by
  unfold floatParse time maxParseValue
  rw [number_eq]; rfl

/-- **the header**: `parseHeader` accepts exactly when the spec's `head` does, with the same values; the
fields after the fifth are `rest`. A header rejection is never `badPath`. -/
theorem head_eq (line : Str) :
    match (parseHeader line : Option (Header F P)) with
    | some h => (∃ a b c d e, fieldsOf line = a :: b :: c :: d :: e :: h.rest) ∧
        (head line : Except Reject (Head F P)) = .ok (toHead h (fieldsOf line))
    | none => ∃ r, (head line : Except Reject (Head F P)) = .error r ∧ r ≠ .badPath := by
  unfold parseHeader head
  simp only [show splitOn ',' (trimComment line) = fieldsOf line from rfl]
  generalize fieldsOf line = fs
  match fs with
  | [] => exact ⟨_, rfl, by decide⟩
  | [_] => exact ⟨_, rfl, by decide⟩
  | [_, _] => exact ⟨_, rfl, by decide⟩
  | [_, _, _] => exact ⟨_, rfl, by decide⟩
  | [_, _, _, _] => exact ⟨_, rfl, by decide⟩
  | xs :: ys :: ts :: ks :: ss :: rest =>
    have hlen : decide (5 ≤ (xs :: ys :: ts :: ks :: ss :: rest).length) = true := by simp
    simp only [hlen, check_true, ok_bind, List.getElem?_cons_zero, List.getElem?_cons_succ, Option.bind_some,
      coordinate_eq, time_eq]
    cases (floatParseWithLimits xs (Scalar.ofInt maxCoordinate) : Option P) with
    | none => exact ⟨_, rfl, by decide⟩
    | some xv =>
      cases (floatParseWithLimits ys (Scalar.ofInt maxCoordinate) : Option P) with
      | none => exact ⟨_, rfl, by decide⟩
      | some yv =>
        cases (floatParse ts : Option F) with
        | none => exact ⟨_, rfl, by decide⟩
        | some t =>
          cases i32FromStr ks with
          | none => exact ⟨_, rfl, by decide⟩
          | some ty =>
            cases HitSoundType.parse ss with
            | none => exact ⟨_, rfl, by decide⟩
            | some snd => exact ⟨⟨_, _, _, _, _, rfl⟩, rfl⟩

/-! ### the four kinds -/

/-- how a builder result and a spec result correspond: same object, or both reject (not for the path). -/
def Matches (hd : Head F P) (r : Option (HitObjectKind F P × SampleBankInfo)) (e : Except Reject (Accepted F P)) : Prop :=
  match r with
  | some (k, b) => e = .ok (accept hd k b)
  | none => ∃ rj, e = .error rj ∧ rj ≠ .badPath

theorem readExtras_eq (rest : List Str) (banksOnly : Bool) (i : Nat) (pre : List Str) (hpre : pre.length = i) :
    sampleFieldAt (pre ++ rest) i banksOnly =
      (match readExtras rest banksOnly with
       | (info, true) => some info
       | (_, false) => none) := by
  unfold sampleFieldAt readExtras
  subst hpre
  cases rest with
  | nil => simp
  | cons s r => simp [sampleField_eq]; rfl

section
variable (a b c d e : Str)

/-- **circle_eq_reference** -/
theorem circle_eq_reference (mode : GameMode) (st : HOCore F P) (h : Header F P) :
    Matches (toHead h (a :: b :: c :: d :: e :: h.rest)) (buildCircle st h)
      (circle (ctxOf mode (viewOf st)) (toHead h (a :: b :: c :: d :: e :: h.rest))) := by
  unfold buildCircle circle Matches
  have hx := readExtras_eq h.rest false 5 [a, b, c, d, e] rfl
  simp only [List.cons_append, List.nil_append] at hx
  simp only [toHead, hx]
  cases readExtras h.rest false with
  | mk info ok =>
    cases ok with
    | false => exact ⟨_, rfl, by decide⟩
    | true =>
      simp only [need_some, ok_bind, pure_eq_ok, forcedNewCombo_eq mode, storedComboOffset_eq]

/-- **spinner_eq_reference** -/
theorem spinner_eq_reference (h : Header F P) :
    Matches (toHead h (a :: b :: c :: d :: e :: h.rest)) (buildSpinner h)
      (spinner (toHead h (a :: b :: c :: d :: e :: h.rest))) := by
  unfold buildSpinner spinner Matches
  cases hr : h.rest with
  | nil => exact ⟨_, rfl, by decide⟩
  | cons durS rest2 =>
    have hx := readExtras_eq rest2 false 6 [a, b, c, d, e, durS] rfl
    simp only [List.cons_append, List.nil_append] at hx
    simp only [toHead, List.getElem?_cons_zero, List.getElem?_cons_succ, need_some, ok_bind, time_eq, hx]
    cases (floatParse durS : Option F) with
    | none => exact ⟨_, rfl, by decide⟩
    | some dv =>
      cases readExtras rest2 false with
      | mk info ok =>
        cases ok with
        | false => exact ⟨_, rfl, by decide⟩
        | true => simp only [need_some, ok_bind, pure_eq_ok, newComboOf_eq]

/-- **hold_eq_reference** -/
theorem hold_eq_reference (h : Header F P) :
    Matches (toHead h (a :: b :: c :: d :: e :: h.rest)) (buildHold h)
      (hold (toHead h (a :: b :: c :: d :: e :: h.rest))) := by
  unfold buildHold hold holdField Matches
  have hne : nonEmptyField (a :: b :: c :: d :: e :: h.rest) 5 = optNonEmpty h.rest.head? := by
    unfold nonEmptyField optNonEmpty
    cases h.rest <;> rfl
  simp only [toHead, hne]
  cases optNonEmpty h.rest.head? with
  | none => simp only [pure_eq_ok, ok_bind]
  | some s =>
    simp only
    cases hs : splitOn ':' s with
    | nil => exact absurd hs (splitOn_ne_nil ':' s)
    | cons es ss =>
      simp only [List.getElem?_cons_zero, Option.bind_some, time_eq, List.drop_succ_cons, List.drop_zero, sampleField_eq]
      cases (floatParse es : Option F) with
      | none => exact ⟨_, rfl, by decide⟩
      | some newEnd =>
        cases ({} : SampleBankInfo).readCustomSampleBanks ss false with
        | mk info ok =>
          cases ok with
          | false => exact ⟨_, rfl, by decide⟩
          | true => simp only [need_some, ok_bind, pure_eq_ok]

end

end Rosu.C14.HoSpec
