/-
  Lemmas/EncodeLines.lean — text plumbing between the encoder (which writes LF-terminated lines) and the
  decoder (which reads them back, end-trimmed, through the framing fold of C05):

  * `unlines`, `textLines_unlines`, `trimEnd_append_nl`: the lines of a concatenation of LF-terminated, LF-free
    lines are those lines, and end-trimming removes the terminator;
  * `trimEnd`/`trim` algebra (`trimEnd_append_cons`, `trimEnd_of_trim_eq`, …), `hasDS` (contains `//`) and
    `trimComment`;
  * what the decoder's `KeyValue::parse` sees in an end-trimmed `key: value` line (`kvSplit_trimEnd_kvl`);
  * classification of record lines (`RecordLine`: not a header, not skipped) by first / last character;
  * the block lemma over C05's `feedAll` (`feedAll_block`), `runSection` compositionality and `Accepts`
    ("every line of the list is accepted by the section parser, run from this state").
-/
import RosuModel.Lemmas.Digits
import RosuModel.Lemmas.UtfSpec
import RosuModel.Props.C05
import RosuModel.Props.C11
import RosuModel.Model.Encode
namespace Rosu
namespace EncodeLines
open Rosu C05 C11

/-! ### lines -/

def nl : Str := ['\n']

/-- the text made of the given lines, each followed by a line feed. -/
def unlines (ls : List Str) : Str := ls.flatMap (· ++ nl)

@[simp] theorem unlines_nil : unlines [] = [] := rfl
@[simp] theorem unlines_cons (l : Str) (ls : List Str) : unlines (l :: ls) = l ++ nl ++ unlines ls := by
  simp [unlines]
theorem unlines_append (a b : List Str) : unlines (a ++ b) = unlines a ++ unlines b := by
  simp [unlines]
theorem unlines_singleton (l : Str) : unlines [l] = l ++ nl := by simp [unlines]

theorem textLines_line (l rest : Str) (h : '\n' ∉ l) :
    textLines (l ++ '\n' :: rest) = (l ++ nl) :: textLines rest := by
  unfold textLines
  induction l with
  | nil => simp [linesBy, isLFc, nl]
  | cons c cs ih =>
    have hc : isLFc c = false := by simpa [isLFc] using fun e : c = '\n' => h (by simp [e])
    have hcs : '\n' ∉ cs := fun e => h (by simp [e])
    simp only [List.cons_append, linesBy, hc, Bool.false_eq_true, if_false, ih hcs]
    rfl

/-- **textLines_unlines**: the lines of a concatenation of LF-terminated, LF-free lines are those lines. -/
theorem textLines_unlines (ls : List Str) (h : ∀ l ∈ ls, '\n' ∉ l) :
    textLines (unlines ls) = ls.map (· ++ nl) := by
  induction ls with
  | nil => rfl
  | cons l rest ih =>
    have : unlines (l :: rest) = l ++ '\n' :: unlines rest := by simp [nl]
    rw [this, textLines_line l _ (h l (by simp)), ih (fun x hx => h x (by simp [hx]))]
    rfl

theorem trimEnd_append_ws (l : Str) (c : Char) (hc : isWs c = true) : trimEnd (l ++ [c]) = trimEnd l := by
  induction l with
  | nil => simp [trimEnd, hc]
  | cons x xs ih => simp only [List.cons_append, trimEnd, ih]

/-- the reader's end-trim removes the line terminator. -/
theorem trimEnd_append_nl (l : Str) : trimEnd (l ++ nl) = trimEnd l := trimEnd_append_ws l '\n' (by decide)

/-- what the framing driver is handed for such a text: the end-trimmed lines. -/
theorem lines_of_unlines (ls : List Str) (h : ∀ l ∈ ls, '\n' ∉ l) :
    (textLines (unlines ls)).map trimEnd = ls.map trimEnd := by
  rw [textLines_unlines ls h, List.map_map]
  apply List.map_congr_left
  intro l _
  exact trimEnd_append_nl l

example : (textLines (unlines [str "[Metadata]", str "Title: ", str "Artist:a  "])).map trimEnd =
    [str "[Metadata]", str "Title:", str "Artist:a"] := by decide

/-! ### `trimEnd` / `trim` -/

theorem trimEnd_append_cons (a : Str) (c : Char) (b : Str) (hc : isWs c = false) :
    trimEnd (a ++ c :: b) = a ++ c :: trimEnd b := by
  induction a with
  | nil => exact trimEnd_cons_of_not_ws b hc
  | cons x xs ih =>
    rw [List.cons_append, trimEnd_cons_of_ne_nil x (by rw [ih]; simp), ih]
    rfl

theorem trimEnd_append_of_ne_nil (a b : Str) (hb : trimEnd b ≠ []) : trimEnd (a ++ b) = a ++ trimEnd b := by
  induction a with
  | nil => rfl
  | cons x xs ih =>
    rw [List.cons_append, trimEnd_cons_of_ne_nil x (by rw [ih]; simp [hb]), ih]
    rfl

theorem trimEnd_idem (s : Str) : trimEnd (trimEnd s) = trimEnd s := by
  induction s with
  | nil => rfl
  | cons c cs ih =>
    rw [trimEnd]
    cases h : trimEnd cs with
    | nil =>
      simp only []
      by_cases hc : isWs c = true
      · simp [hc, trimEnd]
      · simp [hc, trimEnd]
    | cons x xs =>
      simp only []
      rw [trimEnd_cons_of_ne_nil c (by rw [← h, ih, h]; simp), ← h, ih]

/-- a text that is its own `trim` is its own `trimEnd`. -/
theorem trimEnd_of_trim_eq {v : Str} (h : trim v = v) : trimEnd v = v := by
  have : trimEnd (trim v) = trim v := by unfold trim; exact trimEnd_idem _
  rw [h] at this
  exact this

theorem trimStart_of_trim_eq {v : Str} (h : trim v = v) : trimStart v = v := by
  cases v with
  | nil => rfl
  | cons c r =>
    by_cases hc : isWs c = true
    · -- then `trim` drops at least one character
      exfalso
      have hlen : ∀ s : Str, (trimEnd s).length ≤ s.length := by
        intro s
        induction s with
        | nil => simp [trimEnd]
        | cons x xs ih =>
          rw [trimEnd]
          cases h' : trimEnd xs with
          | nil => simp only []; split <;> simp
          | cons y ys => rw [h'] at ih; simp at ih ⊢; omega
      have hlen2 : ∀ s : Str, (trimStart s).length ≤ s.length := by
        intro s
        induction s with
        | nil => simp [trimStart]
        | cons x xs ih => rw [trimStart]; split <;> simp <;> omega
      have h1 : (trim (c :: r)).length ≤ r.length := by
        unfold trim
        rw [trimStart, if_pos hc]
        exact Nat.le_trans (hlen _) (hlen2 _)
      rw [h] at h1
      simp at h1
      omega
    · simp [trimStart, hc]

/-- the first character of a non-empty self-trimmed text is not white space. -/
theorem head_not_ws_of_trim_eq {c : Char} {r : Str} (h : trim (c :: r) = c :: r) : isWs c = false := by
  have := trimStart_of_trim_eq h
  by_cases hc : isWs c = true
  · exfalso
    rw [trimStart, if_pos hc] at this
    have hlen2 : ∀ s : Str, (trimStart s).length ≤ s.length := by
      intro s
      induction s with
      | nil => simp [trimStart]
      | cons x xs ih => rw [trimStart]; split <;> simp <;> omega
    have := congrArg List.length this
    have := hlen2 r
    simp at *
    omega
  · simpa using hc

theorem trim_cons_space (v : Str) : trim (' ' :: v) = trim v := by simp [trim, trimStart, isWs]

/-- end-trimming `" " ++ v` for a self-trimmed `v`: nothing is left of an empty value, otherwise nothing changes. -/
theorem trimEnd_space_value {v : Str} (h : trim v = v) :
    trimEnd (' ' :: v) = if v.isEmpty then [] else ' ' :: v := by
  cases v with
  | nil => decide
  | cons c r =>
    have hv := trimEnd_of_trim_eq h
    rw [trimEnd_cons_of_ne_nil ' ' (by rw [hv]; simp), hv]
    rfl

/-! ### `//` -/

/-- the text contains `//`. -/
def hasDS : Str → Bool
  | [] => false
  | [_] => false
  | a :: b :: rest => (a == '/' && b == '/') || hasDS (b :: rest)

theorem beforeDoubleSlash_of_not_hasDS (s : Str) (h : hasDS s = false) : beforeDoubleSlash s = s := by
  induction s with
  | nil => rfl
  | cons a t ih =>
    cases t with
    | nil => rfl
    | cons b rest =>
      simp only [hasDS, Bool.or_eq_false_iff] at h
      simp only [beforeDoubleSlash, h.1, Bool.false_eq_true, if_false, ih h.2]

theorem hasDS_of_no_slash (s : Str) (h : '/' ∉ s) : hasDS s = false := by
  induction s with
  | nil => rfl
  | cons a t ih =>
    cases t with
    | nil => rfl
    | cons b rest =>
      have ha : (a == '/') = false := by simpa using fun e : a = '/' => h (by simp [e])
      simp [hasDS, ha, ih (fun e => h (by simp [e]))]

/-- a slash-free prefix followed by a non-slash character does not create a `//`. -/
theorem hasDS_append_cons (a : Str) (c : Char) (b : Str) (ha : '/' ∉ a) :
    hasDS (a ++ c :: b) = hasDS (c :: b) := by
  induction a with
  | nil => rfl
  | cons x xs ih =>
    have hx : (x == '/') = false := by simpa using fun e : x = '/' => ha (by simp [e])
    have hxs : '/' ∉ xs := fun e => ha (by simp [e])
    cases xs with
    | nil => simp [hasDS, hx]
    | cons y ys =>
      have := ih hxs
      simp only [List.cons_append] at this ⊢
      simp [hasDS, hx, this]

theorem hasDS_cons_of_ne (c : Char) (b : Str) (hc : c ≠ '/') : hasDS (c :: b) = hasDS b := by
  cases b with
  | nil => rfl
  | cons y ys =>
    have : (c == '/') = false := by simpa using hc
    simp [hasDS, this]

/-- a `//`-free text followed by a non-slash character and a `//`-free text. -/
theorem hasDS_append_sep (a : Str) (c : Char) (b : Str) (ha : hasDS a = false) (hc : c ≠ '/') (hb : hasDS b = false) :
    hasDS (a ++ c :: b) = false := by
  induction a with
  | nil => rw [List.nil_append, hasDS_cons_of_ne c b hc, hb]
  | cons x xs ih =>
    cases xs with
    | nil =>
      have : (c == '/') = false := by simpa using hc
      simp only [List.cons_append, List.nil_append, hasDS, this, Bool.and_false, Bool.false_or]
      rw [hasDS_cons_of_ne c b hc, hb]
    | cons y ys =>
      simp only [hasDS, Bool.or_eq_false_iff] at ha
      have := ih ha.2
      simp only [List.cons_append] at this ⊢
      simp [hasDS, ha.1, this]

theorem trimComment_of_not_hasDS (s : Str) (h : hasDS s = false) : trimComment s = trimEnd s := by
  unfold trimComment
  rw [beforeDoubleSlash_of_not_hasDS s h]

theorem replaceChar_of_none (a b : Char) (s : Str) (h : a ∉ s) : replaceChar a b s = s := by
  induction s with
  | nil => rfl
  | cons x t ih =>
    have hx : (x == a) = false := by simpa using fun e : x = a => h (by simp [e])
    simp only [replaceChar, List.map_cons, hx, Bool.false_eq_true, if_false] at ih ⊢
    rw [ih (fun e => h (by simp [e]))]

/-! ### comma-joined lists -/

theorem joinComma_cons_cons (x y : Str) (r : List Str) : Encode.joinComma (x :: y :: r) = x ++ ',' :: Encode.joinComma (y :: r) := by
  simp [Encode.joinComma]

theorem splitOn_joinComma (xs : List Str) (h : ∀ x ∈ xs, ',' ∉ x) (hne : xs ≠ []) : splitOn ',' (Encode.joinComma xs) = xs := by
  cases xs with
  | nil => exact absurd rfl hne
  | cons x rest =>
    induction rest generalizing x with
    | nil => simpa [Encode.joinComma] using splitOn_no_sep ',' x (h x (by simp))
    | cons y r ih =>
      rw [joinComma_cons_cons, splitOn_append_sep ',' x _ (h x (by simp)),
        ih y (fun z hz => h z (by simp [hz])) (by simp)]

theorem joinComma_chars (xs : List Str) (p : Char → Prop) (hp : p ',') (h : ∀ x ∈ xs, ∀ c ∈ x, p c) :
    ∀ c ∈ Encode.joinComma xs, p c := by
  cases xs with
  | nil => intro c hc; cases hc
  | cons x rest =>
    intro c hc
    simp only [Encode.joinComma, List.mem_append, List.mem_flatMap, List.mem_cons] at hc
    rcases hc with hc | ⟨y, hy, hc | hc⟩
    · exact h x (by simp) c hc
    · subst hc; exact hp
    · exact h y (by simp [hy]) c hc

theorem joinComma_snoc_append (xs : List Str) (a b : Str) :
    Encode.joinComma (xs ++ [a ++ b]) = Encode.joinComma (xs ++ [a]) ++ b := by
  cases xs with
  | nil => simp [Encode.joinComma]
  | cons x r => simp [Encode.joinComma, List.flatMap_append, List.append_assoc]

/-! ### `key: value` lines -/

/-- the `key: value` line without its terminator. -/
def kvl (key v : Str) : Str := key ++ ':' :: ' ' :: v

theorem trimEnd_kvl (key v : Str) (hv : trim v = v) :
    trimEnd (kvl key v) = key ++ ':' :: (if v.isEmpty then [] else ' ' :: v) := by
  unfold kvl
  rw [trimEnd_append_cons key ':' _ (by decide), trimEnd_space_value hv]

/-- **what `KeyValue::parse` sees** in the end-trimmed line the encoder wrote for `key` and a self-trimmed
value (an empty value included: `Title: ` reaches the parser as `Title:` and yields `""`). -/
theorem kvSplit_trimEnd_kvl (key v : Str) (hk : ':' ∉ key) (hkt : trim key = key) (hv : trim v = v) :
    kvSplit (trimEnd (kvl key v)) = (key, v) := by
  rw [trimEnd_kvl key v hv, value_is_after_first_colon key _ hk, hkt]
  cases v with
  | nil => rfl
  | cons c r =>
    simp only [List.isEmpty_cons, Bool.false_eq_true, if_false, trim_cons_space, hv]

/-! ### record lines: not a header, not skipped -/

/-- a line the framing driver hands to the current section's parser. -/
def RecordLine (l : Str) : Prop := Section.tryFromLine l = none ∧ shouldSkipLine l = false

theorem not_header_of_head (c : Char) (r : Str) (h : c ≠ '[') : Section.tryFromLine (c :: r) = none := by
  have : (c == '[') = false := by simpa using h
  simp [Section.tryFromLine, this]

theorem stripSuffixChar_none_of_getLast (c : Char) (s : Str) (x : Char) (hx : s.getLast? = some x) (hne : x ≠ c) :
    stripSuffixChar c s = none := by
  induction s with
  | nil => rfl
  | cons a t ih =>
    cases t with
    | nil =>
      simp at hx
      subst hx
      have : (a == c) = false := by simpa using hne
      simp [stripSuffixChar, this]
    | cons b rest =>
      rw [List.getLast?_cons_cons] at hx
      simp [stripSuffixChar, ih hx]

/-- a line whose last character is not `]` is not a header. -/
theorem not_header_of_last (l : Str) (x : Char) (hx : l.getLast? = some x) (hne : x ≠ ']') :
    Section.tryFromLine l = none := by
  cases l with
  | nil => rfl
  | cons c r =>
    unfold Section.tryFromLine
    simp only []
    split
    · cases r with
      | nil =>
        simp at hx
        simp [stripSuffixChar]
      | cons b rest =>
        rw [List.getLast?_cons_cons] at hx
        rw [stripSuffixChar_none_of_getLast ']' _ x hx hne]
    · rfl

theorem not_skipped_of_head (c : Char) (r : Str) (hw : isWs c = false) (hs : c ≠ '/') :
    shouldSkipLine (c :: r) = false := by
  have : (c == '/') = false := by simpa using hs
  simp [shouldSkipLine, trimStart, hw, startsWith, str, this]

/-- a line whose first character is neither `[`, `/` nor white space is a record line. -/
theorem recordLine_of_head (c : Char) (r : Str) (h1 : c ≠ '[') (h2 : c ≠ '/') (hw : isWs c = false) :
    RecordLine (c :: r) := ⟨not_header_of_head c r h1, not_skipped_of_head c r hw h2⟩

/-- ASCII letter or digit. -/
def isAlnum (c : Char) : Bool :=
  (decide (48 ≤ c.toNat) && decide (c.toNat ≤ 57)) || (decide (65 ≤ c.toNat) && decide (c.toNat ≤ 90)) ||
  (decide (97 ≤ c.toNat) && decide (c.toNat ≤ 122))

theorem isAlnum_facts {c : Char} (h : isAlnum c = true) : c ≠ '[' ∧ c ≠ '/' ∧ isWs c = false := by
  simp only [isAlnum, Bool.or_eq_true, Bool.and_eq_true, decide_eq_true_eq] at h
  refine ⟨?_, ?_, ?_⟩
  · apply toNat_ne; have : '['.toNat = 91 := rfl; omega
  · apply toNat_ne; have : '/'.toNat = 47 := rfl; omega
  · simp only [isWs, Bool.or_eq_false_iff, Bool.and_eq_false_iff, decide_eq_false_iff_not, beq_eq_false_iff_ne]
    omega

/-- **record-line classification**: a line starting with an ASCII letter or digit is neither a header nor skipped. -/
theorem recordLine_of_alnum (c : Char) (r : Str) (h : isAlnum c = true) : RecordLine (c :: r) :=
  recordLine_of_head c r (isAlnum_facts h).1 (isAlnum_facts h).2.1 (isAlnum_facts h).2.2

theorem recordLine_quote (r : Str) : RecordLine ('"' :: r) :=
  recordLine_of_head '"' r (by decide) (by decide) (by decide)

theorem recordLine_minus (r : Str) : RecordLine ('-' :: r) :=
  recordLine_of_head '-' r (by decide) (by decide) (by decide)

/-- the end-trimmed `key: value` line of a key starting with a letter or digit is a record line. -/
theorem recordLine_kvl (c : Char) (k v : Str) (hc : isAlnum c = true) (hv : trim v = v) :
    RecordLine (trimEnd (kvl (c :: k) v)) := by
  rw [trimEnd_kvl _ _ hv]
  exact recordLine_of_alnum c _ hc

/-! ### `//`-free and trimmed lines -/

theorem startsWith_ds_hasDS (s : Str) (h : startsWith s (str "//") = true) : hasDS s = true := by
  match s with
  | [] => have e : str "//" = ['/', '/'] := rfl; rw [e] at h; simp [startsWith] at h
  | [a] => have e : str "//" = ['/', '/'] := rfl; rw [e] at h; simp [startsWith] at h
  | a :: b :: rest =>
    have e : str "//" = ['/', '/'] := rfl
    rw [e] at h
    simp only [startsWith, Bool.and_eq_true, beq_iff_eq] at h
    simp [hasDS, h.1, h.2.1]

/-- a line that ends in a character other than `]`, does not start with white space and contains no `//`
is a record line. -/
theorem recordLine_of_last (l : Str) (x : Char) (hx : l.getLast? = some x) (hne : x ≠ ']')
    (hts : trimStart l = l) (hds : hasDS l = false) : RecordLine l := by
  refine ⟨not_header_of_last l x hx hne, ?_⟩
  unfold shouldSkipLine
  rw [hts]
  have h1 : l.isEmpty = false := by cases l <;> simp_all
  have h2 : startsWith l (str "//") = false := by
    cases h : startsWith l (str "//") with
    | false => rfl
    | true => rw [startsWith_ds_hasDS l h] at hds; cases hds
  simp [h1, h2]

/-- what `KeyValue::parse` sees in a comment-stripped, end-trimmed `key: value` line without `//`. -/
theorem kvSplit_trimComment_kvl (key v : Str) (hk : ':' ∉ key) (hkt : trim key = key) (hv : trim v = v)
    (hdk : hasDS key = false) (hdv : hasDS v = false) :
    kvSplit (trimComment (trimEnd (kvl key v))) = (key, v) := by
  have hds : hasDS (trimEnd (kvl key v)) = false := by
    rw [trimEnd_kvl key v hv]
    apply hasDS_append_sep key ':' _ hdk (by decide)
    cases v with
    | nil => rfl
    | cons c r =>
      simp only [List.isEmpty_cons, Bool.false_eq_true, if_false]
      rw [hasDS_cons_of_ne ' ' _ (by decide)]
      exact hdv
  rw [trimComment_of_not_hasDS _ hds, trimEnd_idem, kvSplit_trimEnd_kvl key v hk hkt hv]

theorem blank_skipped : shouldSkipLine [] = true := rfl

example : RecordLine (str "Title:") ∧ RecordLine (str "0,0,\"bg.png\",0,0") ∧ RecordLine (str "-12,5,7,1,0,0:0:0:0:") :=
  ⟨recordLine_of_alnum 'T' _ (by decide), recordLine_of_alnum '0' _ (by decide), recordLine_minus _⟩

/-! ### the framing fold over a block -/

variable {σ : Type}

theorem feedAll_records (D : LineDecoder σ) (s : Section) (st : σ) (rs rest : List Str)
    (hr : ∀ r ∈ rs, RecordLine r) :
    feedAll D (some s, st) (rs ++ rest) = feedAll D (some s, rs.foldl (D.step s) st) rest := by
  induction rs generalizing st with
  | nil => rfl
  | cons r rs ih =>
    obtain ⟨h1, h2⟩ := hr r (by simp)
    rw [List.cons_append, feedAll_cons, List.foldl_cons]
    have : feedStep D (some s, st) r = (some s, D.step s st r) := by simp [feedStep, h1, h2]
    rw [this]
    exact ih _ (fun x hx => hr x (by simp [hx]))

/-- **block lemma**: a recognised header followed by record lines (each neither a header nor skipped) hands
exactly those lines, in order, to that section's parser — whatever section was open before and whatever follows. -/
theorem feedAll_block (D : LineDecoder σ) (acc : Option Section × σ) (h : Str) (s : Section)
    (hs : Section.tryFromLine h = some s) (rs rest : List Str) (hr : ∀ r ∈ rs, RecordLine r) :
    feedAll D acc (h :: (rs ++ rest)) = feedAll D (some s, rs.foldl (D.step s) acc.2) rest := by
  rw [feedAll_cons]
  have : feedStep D acc h = (some s, acc.2) := by simp [feedStep, hs]
  rw [this]
  exact feedAll_records D s acc.2 rs rest hr

/-- blank lines (the separators the encoder writes between blocks) are skipped. -/
theorem feedAll_blank (D : LineDecoder σ) (acc : Option Section × σ) (rest : List Str) :
    feedAll D acc ([] :: rest) = feedAll D acc rest := by
  rw [feedAll_cons, feedStep_skip D acc blank_skipped]

example : (feedAll recorder (none, ⟨14, []⟩) ([] :: str "[Metadata]" :: ([str "Title:", str "Artist: x"] ++ [[]]))).2.calls =
    [(.metadata, str "Artist: x"), (.metadata, str "Title:")] := by decide

/-! ### running a section parser over a list of lines -/

theorem runSection_nil (f : σ → Str → σ × Bool) (st : σ) : runSection f st [] = st := rfl
theorem runSection_cons (f : σ → Str → σ × Bool) (st : σ) (l : Str) (ls : List Str) :
    runSection f st (l :: ls) = runSection f (f st l).1 ls := rfl
theorem runSection_append (f : σ → Str → σ × Bool) (st : σ) (a b : List Str) :
    runSection f st (a ++ b) = runSection f (runSection f st a) b := by
  simp [runSection, List.foldl_append]
theorem runSection_singleton (f : σ → Str → σ × Bool) (st : σ) (l : Str) : runSection f st [l] = (f st l).1 := rfl

/-- every line of the list is accepted (`Ok`) by the parser when the list is run from `st`. -/
def Accepts (f : σ → Str → σ × Bool) : σ → List Str → Prop
  | _, [] => True
  | st, l :: ls => (f st l).2 = true ∧ Accepts f (f st l).1 ls

theorem accepts_nil (f : σ → Str → σ × Bool) (st : σ) : Accepts f st [] := trivial
theorem accepts_cons (f : σ → Str → σ × Bool) (st : σ) (l : Str) (ls : List Str) :
    Accepts f st (l :: ls) ↔ (f st l).2 = true ∧ Accepts f (f st l).1 ls := Iff.rfl
theorem accepts_append (f : σ → Str → σ × Bool) (st : σ) (a b : List Str) :
    Accepts f st (a ++ b) ↔ Accepts f st a ∧ Accepts f (runSection f st a) b := by
  induction a generalizing st with
  | nil => simp [Accepts, runSection]
  | cons l ls ih => simp only [List.cons_append, Accepts, ih, runSection_cons, and_assoc]
theorem accepts_singleton (f : σ → Str → σ × Bool) (st : σ) (l : Str) : Accepts f st [l] ↔ (f st l).2 = true := by
  simp [Accepts]

/-- if the parser accepts every line of a list whatever the state, the list is accepted from any state. -/
theorem accepts_of_forall (f : σ → Str → σ × Bool) (ls : List Str) (h : ∀ l ∈ ls, ∀ st, (f st l).2 = true) (st : σ) :
    Accepts f st ls := by
  induction ls generalizing st with
  | nil => trivial
  | cons l ls ih => exact ⟨h l (by simp) st, ih (fun x hx => h x (by simp [hx])) _⟩

/-- an optional line: written only when the condition holds. -/
def optLine (c : Bool) (l : Str) : List Str := if c then [l] else []

theorem optLine_map (c : Bool) (l : Str) (g : Str → Str) : (optLine c l).map g = optLine c (g l) := by
  cases c <;> rfl
theorem unlines_optLine (c : Bool) (l : Str) : unlines (optLine c l) = if c then l ++ nl else [] := by
  cases c <;> simp [optLine, unlines]
theorem runSection_optLine (f : σ → Str → σ × Bool) (st : σ) (c : Bool) (l : Str) :
    runSection f st (optLine c l) = if c then (f st l).1 else st := by
  cases c <;> rfl
theorem accepts_optLine (f : σ → Str → σ × Bool) (st : σ) (c : Bool) (l : Str) :
    Accepts f st (optLine c l) ↔ (c = true → (f st l).2 = true) := by
  cases c <;> simp [optLine, Accepts]
theorem ite_isEmpty (b : Bool) (x : Str) : (if b = true then [] else x) = (if (!b) = true then x else []) := by
  cases b <;> rfl

/-- the encoder's `"{key}: {value}\n"`. -/
theorem kvLine_eq (key : String) (v : Str) : Encode.kvLine key v = kvl (str key) v ++ nl := by
  simp [Encode.kvLine, kvl, str, Encode.nl, nl]

theorem mem_optLine {c : Bool} {l x : Str} (h : x ∈ optLine c l) : c = true ∧ x = l := by
  cases c <;> simp [optLine] at h ⊢; exact h

end EncodeLines
end Rosu
