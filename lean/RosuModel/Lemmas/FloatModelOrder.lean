/-
  Lemmas/FloatModelOrder.lean — the IEEE comparison of Lean core's float model, on bit patterns (binary64).
  `UnpackedFloat.compare` compares canonical finite floats lexicographically by (exponent, mantissa); here it is shown to be
  the comparison of the signed magnitudes of the patterns:
      `(unpackNat 52 11 a).compare (unpackNat 52 11 b) = some (compare (sval a) (sval b))`   for non-NaN `a`, `b`,
  `sval n = ± (n % 2^63)` (so both zeros have `sval = 0`): (exponent field, fraction) lexicographic = magnitude order,
  subnormal/normal boundary, infinity on top, sign flip for negatives. Hence `float_lt_iff`, `float_beq_iff`, `float_le_iff`
  for non-NaN `Float`s, and NaN compares false with everything (`float_lt_nan_left` …).
-/
import RosuModel.Lemmas.FloatModelBits
namespace Rosu.FM
open Float.Model Float.Model.UnpackedFloat

/-- the signed magnitude of a binary64 pattern (`−0` and `+0` both give `0`). -/
def sval (n : Nat) : Int := (signOf (n / 2 ^ 63)).apply ((n % 2 ^ 63 : Nat) : Int)

/-- the three classes of a non-NaN binary64 pattern: infinity, zero, or a canonical finite float whose
(exponent, mantissa) encode the magnitude `g = (e + 1074) · 2^52 + m`. -/
theorem unpackNat_view (n : Nat) (hnan : n % 2 ^ 63 ≤ 0x7FF0000000000000) :
    (n % 2 ^ 63 = 0x7FF0000000000000 ∧ unpackNat 52 11 n = .infinity (signOf (n / 2 ^ 63))) ∨
    (n % 2 ^ 63 = 0 ∧ unpackNat 52 11 n = .zero (signOf (n / 2 ^ 63))) ∨
    (0 < n % 2 ^ 63 ∧ n % 2 ^ 63 < 0x7FF0000000000000 ∧ ∃ (m : Nat) (e : Int) (hm : 0 < m),
      unpackNat 52 11 n = .finite (signOf (n / 2 ^ 63)) m e hm ∧
      ((n % 2 ^ 63 : Nat) : Int) = (e + 1074) * 2 ^ 52 + m ∧ m < 2 ^ 53 ∧ -1074 ≤ e ∧ (e = -1074 ∨ 2 ^ 52 ≤ m)) := by
  unfold unpackNat
  simp only [Nat.reducePow, Nat.reduceAdd, Nat.reduceSub] at *
  split
  · rename_i he
    split
    · rename_i hm
      exact Or.inl ⟨by omega, rfl⟩
    · omega
  · rename_i he
    split
    · rename_i he0
      split
      · rename_i hm
        exact Or.inr (Or.inl ⟨by omega, rfl⟩)
      · rename_i hm
        refine Or.inr (Or.inr ⟨by omega, by omega, _, _, Nat.pos_of_ne_zero hm, rfl, ?_, ?_, ?_, ?_⟩) <;> omega
    · rename_i he0
      refine Or.inr (Or.inr ⟨by omega, by omega, _, _, by omega, rfl, ?_, ?_, ?_, ?_⟩) <;> omega

/-- lexicographic comparison of (exponent, mantissa) is the comparison of any value it orders. -/
theorem lex_compare {e1 e2 : Int} {m1 m2 : Nat} {v1 v2 : Int}
    (hlt : v1 < v2 ↔ (e1 < e2 ∨ (e1 = e2 ∧ m1 < m2))) (heq : v1 = v2 ↔ (e1 = e2 ∧ m1 = m2)) :
    (compare e1 e2).then (compare m1 m2) = compare v1 v2 := by
  rcases Int.lt_trichotomy e1 e2 with h | h | h
  · rw [Int.compare_eq_lt.mpr h]
    exact (Int.compare_eq_lt.mpr (hlt.mpr (Or.inl h))).symm
  · rw [Int.compare_eq_eq.mpr h]
    show compare m1 m2 = _
    rcases Nat.lt_trichotomy m1 m2 with h' | h' | h'
    · rw [Nat.compare_eq_lt.mpr h']
      exact (Int.compare_eq_lt.mpr (hlt.mpr (Or.inr ⟨h, h'⟩))).symm
    · rw [Nat.compare_eq_eq.mpr h']
      exact (Int.compare_eq_eq.mpr (heq.mpr ⟨h, h'⟩)).symm
    · rw [Nat.compare_eq_gt.mpr h']
      refine (Int.compare_eq_gt.mpr ?_).symm
      have h1 : ¬ v1 < v2 := fun hc => by rcases hlt.mp hc with hh | hh <;> omega
      have h2 : ¬ v1 = v2 := fun hc => by have := heq.mp hc; omega
      omega
  · rw [Int.compare_eq_gt.mpr h]
    refine (Int.compare_eq_gt.mpr ?_).symm
    have h1 : ¬ v1 < v2 := fun hc => by rcases hlt.mp hc with hh | hh <;> omega
    have h2 : ¬ v1 = v2 := fun hc => by have := heq.mp hc; omega
    omega

theorem lex_compare_swap {e1 e2 : Int} {m1 m2 : Nat} {v1 v2 : Int}
    (hlt : v1 < v2 ↔ (e2 < e1 ∨ (e2 = e1 ∧ m2 < m1))) (heq : v1 = v2 ↔ (e2 = e1 ∧ m2 = m1)) :
    ((compare e1 e2).then (compare m1 m2)).swap = compare v1 v2 := by
  rw [Ordering.swap_then, Int.compare_swap, Nat.compare_swap]
  exact lex_compare hlt heq

/-- **the comparison of the model is the comparison of signed magnitudes**, on non-NaN binary64 patterns. -/
theorem compare_unpackNat (a b : Nat) (ha : a % 2 ^ 63 ≤ 0x7FF0000000000000) (hb : b % 2 ^ 63 ≤ 0x7FF0000000000000) :
    (unpackNat 52 11 a).compare (unpackNat 52 11 b) = some (compare (sval a) (sval b)) := by
  unfold sval
  rcases unpackNat_view a ha with ⟨ga, ua⟩ | ⟨ga, ua⟩ | ⟨ga0, ga1, ma, ea, hma, ua, hga, hma2, hea, hea2⟩ <;>
  rcases unpackNat_view b hb with ⟨gb, ub⟩ | ⟨gb, ub⟩ | ⟨gb0, gb1, mb, eb, hmb, ub, hgb, hmb2, heb, heb2⟩ <;>
  rw [ua, ub] <;>
  generalize signOf (a / 2 ^ 63) = sa <;>
  generalize signOf (b / 2 ^ 63) = sb <;>
  cases sa <;> cases sb <;>
  first
  | exact congrArg some (Int.compare_eq_lt.mpr (by simp only [Sign.apply]; omega)).symm
  | exact congrArg some (Int.compare_eq_gt.mpr (by simp only [Sign.apply]; omega)).symm
  | exact congrArg some (Int.compare_eq_eq.mpr (by simp only [Sign.apply]; omega)).symm
  | exact congrArg some (lex_compare (by simp only [Sign.apply]; omega) (by simp only [Sign.apply]; omega))
  | exact congrArg some (lex_compare_swap (by simp only [Sign.apply]; omega) (by simp only [Sign.apply]; omega))

/-! ## `Float` -/

/-- the signed magnitude of a `Float`'s pattern. -/
def fval (x : Float) : Int := sval x.toBits.toNat

theorem float_compare (x y : Float) (hx : x.isNaN = false) (hy : y.isNaN = false) :
    x.toModel.unpack.compare y.toModel.unpack = some (compare (fval x) (fval y)) := by
  rw [float_unpack, float_unpack]
  exact compare_unpackNat _ _ (float_not_nan_pattern x hx) (float_not_nan_pattern y hy)

/-- **IEEE `<` on non-NaN `Float`s is `<` of signed magnitudes.** -/
theorem float_lt_iff (x y : Float) (hx : x.isNaN = false) (hy : y.isNaN = false) :
    Float.lt x y = true ↔ fval x < fval y := by
  show decide ((x.toModel.unpack.compare y.toModel.unpack == some .lt) = true) = true ↔ _
  rw [float_compare x y hx hy, decide_eq_true_iff, ← Int.compare_eq_lt]
  cases compare (fval x) (fval y) <;> decide

/-- **IEEE `==` on non-NaN `Float`s is equality of signed magnitudes** (so `−0 == +0`). -/
theorem float_beq_iff (x y : Float) (hx : x.isNaN = false) (hy : y.isNaN = false) :
    Float.beq x y = true ↔ fval x = fval y := by
  show (x.toModel.unpack.compare y.toModel.unpack == some .eq) = true ↔ _
  rw [float_compare x y hx hy, ← Int.compare_eq_eq]
  cases compare (fval x) (fval y) <;> decide

/-- **IEEE `<=` on non-NaN `Float`s is `≤` of signed magnitudes.** -/
theorem float_le_iff (x y : Float) (hx : x.isNaN = false) (hy : y.isNaN = false) :
    Float.le x y = true ↔ fval x ≤ fval y := by
  show decide ((x.toModel.unpack.compare y.toModel.unpack).any (·.isLE) = true) = true ↔ _
  rw [float_compare x y hx hy, decide_eq_true_iff, Int.le_iff_lt_or_eq, ← Int.compare_eq_lt, ← Int.compare_eq_eq]
  cases compare (fval x) (fval y) <;> decide

theorem compare_nan_right (u : UnpackedFloat) : u.compare .notANumber = none := by
  cases u <;> rfl

theorem float_unpack_nan (x : Float) (hx : x.isNaN = true) : x.toModel.unpack = .notANumber := by
  have : x.toModel.unpack.isNaN = true := hx
  revert this
  cases x.toModel.unpack <;> simp [UnpackedFloat.isNaN]

/-- a NaN compares false with everything. -/
theorem float_lt_nan_left (x y : Float) (hx : x.isNaN = true) : Float.lt x y = false := by
  show decide ((x.toModel.unpack.compare y.toModel.unpack == some .lt) = true) = false
  rw [float_unpack_nan x hx]; rfl
theorem float_lt_nan_right (x y : Float) (hy : y.isNaN = true) : Float.lt x y = false := by
  show decide ((x.toModel.unpack.compare y.toModel.unpack == some .lt) = true) = false
  rw [float_unpack_nan y hy, compare_nan_right]; rfl
theorem float_beq_nan_left (x y : Float) (hx : x.isNaN = true) : Float.beq x y = false := by
  show (x.toModel.unpack.compare y.toModel.unpack == some .eq) = false
  rw [float_unpack_nan x hx]; rfl
theorem float_beq_nan_right (x y : Float) (hy : y.isNaN = true) : Float.beq x y = false := by
  show (x.toModel.unpack.compare y.toModel.unpack == some .eq) = false
  rw [float_unpack_nan y hy, compare_nan_right]; rfl
theorem float_le_nan_left (x y : Float) (hx : x.isNaN = true) : Float.le x y = false := by
  show decide ((x.toModel.unpack.compare y.toModel.unpack).any (·.isLE) = true) = false
  rw [float_unpack_nan x hx]; rfl
theorem float_le_nan_right (x y : Float) (hy : y.isNaN = true) : Float.le x y = false := by
  show decide ((x.toModel.unpack.compare y.toModel.unpack).any (·.isLE) = true) = false
  rw [float_unpack_nan y hy, compare_nan_right]; rfl

end Rosu.FM
