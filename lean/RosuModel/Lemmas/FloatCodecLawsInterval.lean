/-
  Lemmas/FloatCodecLawsInterval.lean — `roundRat_of_inInterval` (core Lean only): a positive rational inside the
  rounding interval of a finite positive bit pattern `b` is rounded to `b` by `roundRat`.
  `InIv f b num den` is the interval test of `shortestDigits` (Model/FloatCodec.lean), on `num/den`: with
  `(m, e) = decompose f b`, `lo·2^(e-2) ≤ num/den ≤ (4m+2)·2^(e-2)` where `lo = 4m-2`, or `4m-1` when `b` is a power of two
  with a smaller binade below it (the gap below is then half the gap above); both bounds are attained exactly when
  `m` is even (ties go to the even mantissa), and are excluded when `m` is odd.
-/
import RosuModel.Lemmas.FloatCodecLawsRound
namespace Rosu
namespace FCL

/-! ### packing, and `decompose` of a finite positive pattern -/

def pack (f : FloatFmt) (q : Nat) (e : Int) : Nat :=
  if q < 2 ^ (f.p - 1) then q
  else
    let expField : Int := e + (f.p - 1 : Nat) + f.bias
    if expField ≥ 2 ^ f.ebits - 1 then f.infBits
    else expField.toNat * 2 ^ (f.p - 1) + (q - 2 ^ (f.p - 1))

def roundQ (q r d : Nat) : Nat := if 2 * r > d || (2 * r == d && q % 2 == 1) then q + 1 else q

theorem finish_eq (f : FloatFmt) (q r d : Nat) (e3 : Int) :
    finish f q r d e3 = if roundQ q r d = 2 ^ f.p then pack f (2 ^ (f.p - 1)) (e3 + 1) else pack f (roundQ q r d) e3 := by
  have h : finish f q r d e3 = pack f
      (if roundQ q r d == 2 ^ f.p then ((2 : Nat) ^ (f.p - 1), e3 + 1) else (roundQ q r d, e3)).1
      (if roundQ q r d == 2 ^ f.p then ((2 : Nat) ^ (f.p - 1), e3 + 1) else (roundQ q r d, e3)).2 := rfl
  rw [h]
  simp only [beq_iff_eq]
  split <;> rfl

theorem decompose_sub (f : FloatFmt) (b : Nat) (h : b / 2 ^ (f.p - 1) = 0) :
    decompose f b = (b, f.eminSub) ∧ b < 2 ^ (f.p - 1) := by
  have hlt : b < 2 ^ (f.p - 1) := by
    rcases Nat.div_eq_zero_iff.1 h with h' | h'
    · exact absurd h' (Nat.ne_of_gt (Nat.pow_pos (by decide)))
    · exact h'
  refine ⟨?_, hlt⟩
  unfold decompose
  simp only [h, if_true, Nat.mod_eq_of_lt hlt]

theorem decompose_norm (f : FloatFmt) (b : Nat) (h : b / 2 ^ (f.p - 1) ≠ 0) :
    decompose f b = (b % 2 ^ (f.p - 1) + 2 ^ (f.p - 1), ((b / 2 ^ (f.p - 1) : Nat) : Int) - f.bias - (f.p - 1 : Nat)) := by
  unfold decompose
  simp only [h, if_false]

theorem expF_lt (f : FloatFmt) (b : Nat) (hbi : b < f.infBits) : b / 2 ^ (f.p - 1) < 2 ^ f.ebits - 1 := by
  unfold FloatFmt.infBits at hbi
  exact Nat.div_lt_of_lt_mul (by rw [Nat.mul_comm]; exact hbi)

theorem pack_decompose (f : FloatFmt) (b : Nat) (hbi : b < f.infBits) :
    pack f (decompose f b).1 (decompose f b).2 = b := by
  by_cases h : b / 2 ^ (f.p - 1) = 0
  · obtain ⟨h1, h2⟩ := decompose_sub f b h
    rw [h1]; unfold pack; simp only [h2, if_true]
  · rw [decompose_norm f b h]
    unfold pack
    have hx := expF_lt f b hbi
    have h1 : ¬ (b % 2 ^ (f.p - 1) + 2 ^ (f.p - 1) < 2 ^ (f.p - 1)) := by omega
    simp only [h1, if_false]
    have h2 : ((b / 2 ^ (f.p - 1) : Nat) : Int) - f.bias - ((f.p - 1 : Nat) : Int) + ((f.p - 1 : Nat) : Int) + f.bias
        = ((b / 2 ^ (f.p - 1) : Nat) : Int) := by omega
    rw [h2]
    have h3 : ¬ (((b / 2 ^ (f.p - 1) : Nat) : Int) ≥ 2 ^ f.ebits - 1) := by
      have : ((2 ^ f.ebits : Nat) : Int) = (2 : Int) ^ f.ebits := by push_cast; rfl
      have h1 : 1 ≤ 2 ^ f.ebits := Nat.pow_pos (by decide)
      omega
    rw [if_neg h3, Int.toNat_natCast, Nat.add_sub_cancel]
    exact Nat.div_add_mod' b _

/-! ### rounding up / down at a known exponent -/

theorem roundQ_up {n d q r : Nat} (hn : n = q * d + r) (h1 : (2 * q + 1) * d ≤ 2 * n)
    (h2 : q % 2 = 1 ∨ (2 * q + 1) * d < 2 * n) : roundQ q r d = q + 1 := by
  have e : (2 * q + 1) * d = 2 * (q * d) + d := by rw [Nat.add_mul, Nat.mul_assoc, Nat.one_mul]
  rw [e] at h1 h2
  unfold roundQ
  rw [if_pos]
  simp only [Bool.or_eq_true, Bool.and_eq_true, decide_eq_true_eq, beq_iff_eq]
  omega

theorem roundQ_dn {n d q r : Nat} (hn : n = q * d + r) (h1 : 2 * n ≤ (2 * q + 1) * d)
    (h2 : q % 2 = 0 ∨ 2 * n < (2 * q + 1) * d) : roundQ q r d = q := by
  have e : (2 * q + 1) * d = 2 * (q * d) + d := by rw [Nat.add_mul, Nat.mul_assoc, Nat.one_mul]
  rw [e] at h1 h2
  unfold roundQ
  rw [if_neg]
  simp only [Bool.or_eq_true, Bool.and_eq_true, decide_eq_true_eq, beq_iff_eq]
  omega

theorem quot_at {f : FloatFmt} (hp : 1 ≤ f.p) {num den : Nat} (hnum : 0 < num) (hden : 0 < den) {e3 : Int} {q : Nat}
    (hc : Canon f num den e3) (hq1 : LeS q e3 num den) (hq2 : LtS num den (q + 1) e3) :
    chooseE f num den = e3 ∧ (quotS num den e3).1 = q ∧
      num * pD 2 e3 = q * (den * pN 2 e3) + (quotS num den e3).2.1 ∧ (quotS num den e3).2.2 = den * pN 2 e3 := by
  have h1 := (le_q_iff hden e3 q).2 hq1
  have h2 := (q_lt_iff hden e3 (q + 1)).2 hq2
  have hq : (quotS num den e3).1 = q := by omega
  refine ⟨canon_unique hp (chooseE_canon f hp num den hnum hden) hc, hq, ?_, rfl⟩
  rw [← hq]
  show _ = num * pD 2 e3 / (den * pN 2 e3) * (den * pN 2 e3) + num * pD 2 e3 % (den * pN 2 e3)
  exact (Nat.div_add_mod' _ _).symm

theorem roundRat_up {f : FloatFmt} (hp : 1 ≤ f.p) {num den : Nat} (hnum : 0 < num) (hden : 0 < den) {e3 : Int} {q : Nat}
    (hc : Canon f num den e3) (hq1 : LeS q e3 num den) (hq2 : LtS num den (q + 1) e3)
    (hup : LeS (2 * q + 1) e3 (2 * num) den) (htie : q % 2 = 1 ∨ GtS (2 * q + 1) e3 (2 * num) den) :
    roundRat f num den = if q + 1 = 2 ^ f.p then pack f (2 ^ (f.p - 1)) (e3 + 1) else pack f (q + 1) e3 := by
  obtain ⟨he, hq, hn, hd⟩ := quot_at hp hnum hden hc hq1 hq2
  rw [roundRat_eq f num den (by omega), he, finish_eq, hq, hd]
  unfold LeS at hup
  unfold GtS at htie
  rw [Nat.mul_assoc] at hup htie
  rw [roundQ_up hn hup htie]

theorem roundRat_dn {f : FloatFmt} (hp : 1 ≤ f.p) {num den : Nat} (hnum : 0 < num) (hden : 0 < den) {e3 : Int} {q : Nat}
    (hc : Canon f num den e3) (hq1 : LeS q e3 num den) (hq2 : LtS num den (q + 1) e3)
    (hdn : GeS (2 * num) den (2 * q + 1) e3) (htie : q % 2 = 0 ∨ LtS (2 * num) den (2 * q + 1) e3) :
    roundRat f num den = pack f q e3 := by
  obtain ⟨he, hq, hn, hd⟩ := quot_at hp hnum hden hc hq1 hq2
  rw [roundRat_eq f num den (by omega), he, finish_eq, hq, hd]
  unfold GeS at hdn
  unfold LtS at htie
  rw [Nat.mul_assoc] at hdn htie
  rw [roundQ_dn hn hdn htie]
  have : q < 2 ^ f.p := by
    have := (q_lt_iff hden e3 (2 ^ f.p)).2 hc.2.1; omega
  rw [if_neg (by omega)]

theorem caseU {f : FloatFmt} (hp : 1 ≤ f.p) {num den : Nat} (hnum : 0 < num) (hden : 0 < den) {m : Nat} {e : Int}
    (hmp : m < 2 ^ f.p) (he : f.eminSub ≤ e) (hnorm : e = f.eminSub ∨ 2 ^ (f.p - 1) ≤ m)
    (hU : LeS (4 * m) (e - 2) num den) (hhi : GeS num den (4 * m + 2) (e - 2))
    (htie : m % 2 = 0 ∨ LtS num den (4 * m + 2) (e - 2)) :
    roundRat f num den = pack f m e := by
  have hY : 0 < den * pN 2 (e - 2) := Nat.mul_pos hden (pN_pos (by decide) _)
  have he2 : e = (e - 2) + ((2 : Nat) : Int) := by omega
  unfold LeS at hU
  unfold GeS at hhi
  unfold LtS at htie
  generalize hYd : den * pN 2 (e - 2) = Y at *
  generalize hXd : num * pD 2 (e - 2) = X at *
  have q1 : LeS m e num den := (LeS_at 2 he2 _ _).2 (by unfold LeS; rw [hYd, hXd]; grind)
  have q2 : LtS num den (m + 1) e := (LtS_at 2 he2 _ _).2 (by unfold LtS; rw [hYd, hXd]; grind)
  have hc : Canon f num den e := by
    refine ⟨he, LtS_mono q2 (by omega), ?_⟩
    rcases hnorm with h | h
    · exact Or.inl h
    · exact Or.inr (LeS_mono q1 h)
  refine roundRat_dn hp hnum hden hc q1 q2 ?_ ?_
  · exact (GeS_at 2 he2 _ _).2 (by unfold GeS; rw [hYd, Nat.mul_assoc 2 num, hXd]; grind)
  · rcases htie with h | h
    · exact Or.inl h
    · exact Or.inr ((LtS_at 2 he2 _ _).2 (by unfold LtS; rw [hYd, Nat.mul_assoc 2 num, hXd]; grind))

theorem caseL1 {f : FloatFmt} (hp : 1 ≤ f.p) {num den : Nat} (hnum : 0 < num) (hden : 0 < den) {m' : Nat} {e : Int}
    (hmp : m' + 1 < 2 ^ f.p) (he : f.eminSub ≤ e) (hnorm : e = f.eminSub ∨ 2 ^ (f.p - 1) ≤ m')
    (hL : LtS num den (4 * (m' + 1)) (e - 2)) (hlo : LeS (4 * m' + 2) (e - 2) num den)
    (htie : (m' + 1) % 2 = 0 ∨ GtS (4 * m' + 2) (e - 2) num den) :
    roundRat f num den = pack f (m' + 1) e := by
  have hY : 0 < den * pN 2 (e - 2) := Nat.mul_pos hden (pN_pos (by decide) _)
  have he2 : e = (e - 2) + ((2 : Nat) : Int) := by omega
  unfold LtS at hL
  unfold LeS at hlo
  unfold GtS at htie
  generalize hYd : den * pN 2 (e - 2) = Y at *
  generalize hXd : num * pD 2 (e - 2) = X at *
  have q1 : LeS m' e num den := (LeS_at 2 he2 _ _).2 (by unfold LeS; rw [hYd, hXd]; grind)
  have q2 : LtS num den (m' + 1) e := (LtS_at 2 he2 _ _).2 (by unfold LtS; rw [hYd, hXd]; grind)
  have hc : Canon f num den e := by
    refine ⟨he, LtS_mono q2 (by omega), ?_⟩
    rcases hnorm with h | h
    · exact Or.inl h
    · exact Or.inr (LeS_mono q1 h)
  rw [roundRat_up hp hnum hden hc q1 q2 ?_ ?_, if_neg (by omega)]
  · exact (LeS_at 2 he2 _ _).2 (by unfold LeS; rw [hYd, Nat.mul_assoc 2 num, hXd]; grind)
  · rcases htie with h | h
    · exact Or.inl (by omega)
    · exact Or.inr ((GtS_at 2 he2 _ _).2 (by unfold GtS; rw [hYd, Nat.mul_assoc 2 num, hXd]; grind))

theorem caseL2 {f : FloatFmt} (hp : 1 ≤ f.p) {num den : Nat} (hnum : 0 < num) (hden : 0 < den) {m' : Nat} {e : Int}
    (hm : m' + 1 = 2 ^ (f.p - 1)) (he : f.eminSub ≤ e - 1)
    (hL : LtS num den (4 * (m' + 1)) (e - 2)) (hlo : LeS (4 * m' + 3) (e - 2) num den) :
    roundRat f num den = pack f (m' + 1) e := by
  have hY : 0 < den * pN 2 (e - 2) := Nat.mul_pos hden (pN_pos (by decide) _)
  have he1 : e - 1 = (e - 2) + ((1 : Nat) : Int) := by omega
  have h2p : 2 ^ f.p = 2 * (m' + 1) := by rw [← two_pow_pred hp, hm]; omega
  unfold LtS at hL
  unfold LeS at hlo
  generalize hYd : den * pN 2 (e - 2) = Y at *
  generalize hXd : num * pD 2 (e - 2) = X at *
  have q1 : LeS (2 * m' + 1) (e - 1) num den := (LeS_at 1 he1 _ _).2 (by unfold LeS; rw [hYd, hXd]; grind)
  have q2 : LtS num den (2 * m' + 1 + 1) (e - 1) := (LtS_at 1 he1 _ _).2 (by unfold LtS; rw [hYd, hXd]; grind)
  have hc : Canon f num den (e - 1) :=
    ⟨he, LtS_mono q2 (by omega), Or.inr (LeS_mono q1 (by omega))⟩
  rw [roundRat_up hp hnum hden hc q1 q2 ?_ (Or.inl (by omega)), if_pos (by omega), hm, Int.sub_add_cancel]
  exact (LeS_at 1 he1 _ _).2 (by unfold LeS; rw [hYd, Nat.mul_assoc 2 num, hXd]; grind)


/-! ### the rounding interval of a bit pattern -/

/-- `num/den` lies in the rounding interval of the (finite, positive) pattern `b`. This is the test `inInterval` of
`shortestDigits`, on an arbitrary fraction. -/
def InIv (f : FloatFmt) (b num den : Nat) : Prop :=
  if (decompose f b).1 % 2 = 0 then
    LeS (if (decompose f b).1 = 2 ^ (f.p - 1) ∧ b / 2 ^ (f.p - 1) > 1 then 4 * (decompose f b).1 - 1 else 4 * (decompose f b).1 - 2)
        ((decompose f b).2 - 2) num den ∧
      GeS num den (4 * (decompose f b).1 + 2) ((decompose f b).2 - 2)
  else
    GtS (if (decompose f b).1 = 2 ^ (f.p - 1) ∧ b / 2 ^ (f.p - 1) > 1 then 4 * (decompose f b).1 - 1 else 4 * (decompose f b).1 - 2)
        ((decompose f b).2 - 2) num den ∧
      LtS num den (4 * (decompose f b).1 + 2) ((decompose f b).2 - 2)

theorem decompose_facts (f : FloatFmt) (hp : 1 ≤ f.p) (b : Nat) (hb0 : 0 < b) :
    0 < (decompose f b).1 ∧ (decompose f b).1 < 2 ^ f.p ∧ f.eminSub ≤ (decompose f b).2 ∧
      ((decompose f b).2 = f.eminSub ∨ 2 ^ (f.p - 1) ≤ (decompose f b).1) ∧
      ((decompose f b).1 = 2 ^ (f.p - 1) →
        (b / 2 ^ (f.p - 1) > 1 → f.eminSub ≤ (decompose f b).2 - 1) ∧
        (¬ b / 2 ^ (f.p - 1) > 1 → (decompose f b).2 = f.eminSub)) := by
  have h2 := two_pow_pred hp
  have hpos : 0 < 2 ^ (f.p - 1) := Nat.pow_pos (by decide)
  by_cases h : b / 2 ^ (f.p - 1) = 0
  · obtain ⟨h1, hlt⟩ := decompose_sub f b h
    rw [h1]
    refine ⟨hb0, by omega, Int.le_refl _, Or.inl rfl, ?_⟩
    intro hm; simp only at hm; omega
  · rw [decompose_norm f b h]
    have hmod := Nat.mod_lt b hpos
    unfold FloatFmt.eminSub
    generalize b / 2 ^ (f.p - 1) = x at *
    generalize b % 2 ^ (f.p - 1) = r at *
    refine ⟨by simp only; omega, by simp only; omega, by simp only; omega, Or.inr (by simp only; omega), ?_⟩
    intro _
    constructor
    · intro h1; simp only; omega
    · intro h1; simp only; omega

/-- **`roundRat_of_inInterval`**: a fraction inside the rounding interval of the finite positive pattern `b` is rounded
to `b`. -/
theorem roundRat_of_inInterval (f : FloatFmt) (hp : 2 ≤ f.p) (b : Nat) (hb0 : 0 < b) (hbi : b < f.infBits)
    (num den : Nat) (hnum : 0 < num) (hden : 0 < den) (h : InIv f b num den) : roundRat f num den = b := by
  have hp1 : 1 ≤ f.p := by omega
  obtain ⟨hm0, hmp, he, hnorm, hbnd⟩ := decompose_facts f hp1 b hb0
  have hpk := pack_decompose f b hbi
  unfold InIv at h
  generalize (decompose f b).1 = m at *
  generalize (decompose f b).2 = e at *
  rw [← hpk]
  obtain ⟨m', rfl⟩ : ∃ m', m = m' + 1 := ⟨m - 1, by omega⟩
  have heven : 2 ^ (f.p - 1) % 2 = 0 := by
    obtain ⟨k, hk⟩ : ∃ k, f.p - 1 = k + 1 := ⟨f.p - 2, by omega⟩
    rw [hk, Nat.pow_succ]; omega
  have hlo1 : 4 * (m' + 1) - 1 = 4 * m' + 3 := by omega
  have hlo2 : 4 * (m' + 1) - 2 = 4 * m' + 2 := by omega
  rw [hlo1, hlo2] at h
  by_cases hU : LeS (4 * (m' + 1)) (e - 2) num den
  · -- upper half
    by_cases hev : (m' + 1) % 2 = 0
    · rw [if_pos hev] at h
      exact caseU hp1 hnum hden hmp he hnorm hU h.2 (Or.inl hev)
    · rw [if_neg hev] at h
      refine caseU hp1 hnum hden hmp he hnorm hU ?_ (Or.inr h.2)
      have := h.2; unfold LtS at this; unfold GeS; omega
  · have hL : LtS num den (4 * (m' + 1)) (e - 2) := by
      rw [← not_LtS] at hU; exact Decidable.not_not.1 hU
    by_cases hb : m' + 1 = 2 ^ (f.p - 1) ∧ b / 2 ^ (f.p - 1) > 1
    · rw [if_pos hb, if_pos (by rw [hb.1]; exact heven)] at h
      exact caseL2 hp1 hnum hden hb.1 ((hbnd hb.1).1 hb.2) hL h.1
    · rw [if_neg hb] at h
      have hnorm' : e = f.eminSub ∨ 2 ^ (f.p - 1) ≤ m' := by
        rcases hnorm with h1 | h1
        · exact Or.inl h1
        · by_cases hm : m' + 1 = 2 ^ (f.p - 1)
          · exact Or.inl ((hbnd hm).2 (fun h2 => hb ⟨hm, h2⟩))
          · exact Or.inr (by omega)
      by_cases hev : (m' + 1) % 2 = 0
      · rw [if_pos hev] at h
        exact caseL1 hp1 hnum hden hmp he hnorm' hL h.1 (Or.inl hev)
      · rw [if_neg hev] at h
        refine caseL1 hp1 hnum hden hmp he hnorm' hL ?_ (Or.inr h.1)
        have := h.1; unfold GtS at this; unfold LeS; omega

end FCL
end Rosu
