import RosuModel.Model.Scalar
