/-
  Lemmas/FloatModelValue.lean — canonical forms of Lean's `Float.Model.UnpackedFloat` and the order
  `UnpackedFloat.compare` induces on them (Lean ≥ 4.33: `Float`/`Float32` are *not* opaque, their operations
  are defined through `Float.Model`/`Float32.Model` over `UnpackedFloat`, generically in a `Format`).

  * `CanonFin spec m e`: `(m, e)` is the canonical mantissa/exponent pair of a finite float of format `spec`
    (`CanonFin.tgt_eq`/`canonFin_of_tgt`: equivalent to the library's "exponent = `targetExponent`").
  * `LexLE`: the lexicographic order on `(e, m)` used by `compare`; `le_fin_pos`/`le_fin_neg`.
  * `lexLE_iff_valLE`: on canonical pairs the lexicographic order *is* the order of the exact values
    `m·2^e` (integer cross-multiplication at the smaller exponent).
-/
import RosuModel.Model.FloatInst
namespace Rosu.FMR
open Float.Model Float.Model.UnpackedFloat

/-! ### `Nat.log2` -/

theorem log2_mono {a b : Nat} (h : a ≤ b) : a.log2 ≤ b.log2 := by
  by_cases ha : a = 0
  · subst ha; simp
  · have hb : b ≠ 0 := by omega
    rw [Nat.le_log2 hb]
    exact Nat.le_trans (Nat.log2_self_le ha) h

theorem log2_mul_pow {m : Nat} (hm : m ≠ 0) (k : Nat) : (m * 2 ^ k).log2 = m.log2 + k := by
  have hp : 0 < 2 ^ k := Nat.two_pow_pos k
  have hne : m * 2 ^ k ≠ 0 := Nat.mul_ne_zero hm (by omega)
  rw [Nat.log2_eq_iff hne]
  constructor
  · rw [Nat.pow_add]; exact Nat.mul_le_mul_right _ (Nat.log2_self_le hm)
  · have : m < 2 ^ (m.log2 + 1) := Nat.lt_log2_self
    have e : 2 ^ (m.log2 + k + 1) = 2 ^ (m.log2 + 1) * 2 ^ k := by
      rw [← Nat.pow_add]; congr 1; omega
    rw [e]; exact Nat.mul_lt_mul_of_pos_right this hp


/-! ### target exponents -/

/-- target exponent of the exact value `M·2^e0`. -/
def tgt (spec : Format) (M : Nat) (e0 : Int) : Int := spec.targetExponent (totalExponent M e0)

theorem tgt_ge_min (spec : Format) (M : Nat) (e0 : Int) : spec.minExponent ≤ tgt spec M e0 := by
  unfold tgt Format.targetExponent; omega

theorem mantissaBits_pos (spec : Format) : 2 ≤ spec.mantissaBits := by
  have := spec.hm; unfold Format.mantissaBits; omega


/-! ### canonical finite floats -/

/-- `(m, e)` is the canonical (correctly rounded) representation in `spec`: at most `mantissaBits` bits,
exponent not below the minimum, and a full mantissa unless the exponent is the minimum (subnormal). -/
structure CanonFin (spec : Format) (m : Nat) (e : Int) : Prop where
  lt : m < 2 ^ spec.mantissaBits
  ge : spec.minExponent ≤ e
  norm : 2 ^ (spec.mantissaBits - 1) ≤ m ∨ e = spec.minExponent

/-- `u` is the finite float `(s, m, e)` (whatever the positivity proof). -/
def IsFin (u : UnpackedFloat) (s : Sign) (m : Nat) (e : Int) : Prop := ∃ h, u = .finite s m e h

/-- the library's notion of canonical form: the exponent is the target exponent. -/
theorem CanonFin.tgt_eq {spec : Format} {m : Nat} {e : Int} (hc : CanonFin spec m e) (hm : 0 < m) :
    tgt spec m e = e := by
  have hl : m.log2 < spec.mantissaBits := (Nat.log2_lt (by omega)).2 hc.lt
  have hge := hc.ge
  rcases hc.norm with h | h
  · have : spec.mantissaBits - 1 ≤ m.log2 := (Nat.le_log2 (by omega)).2 h
    unfold tgt Format.targetExponent totalExponent; omega
  · unfold tgt Format.targetExponent totalExponent; omega

theorem canonFin_of_tgt {spec : Format} {m : Nat} {e : Int} (hm : 0 < m) (h : tgt spec m e = e) :
    CanonFin spec m e := by
  have hMB := mantissaBits_pos spec
  unfold tgt Format.targetExponent totalExponent at h
  refine ⟨?_, by omega, ?_⟩
  · rw [← Nat.log2_lt (by omega)]; omega
  · by_cases h2 : e = spec.minExponent
    · exact Or.inr h2
    · left; rw [← Nat.le_log2 (by omega)]; omega

theorem canonFin_carry (spec : Format) (te : Int) (hte : spec.minExponent ≤ te) :
    CanonFin spec (2 ^ (spec.mantissaBits - 1)) (te + 1) := by
  have hMB := mantissaBits_pos spec
  refine ⟨?_, by omega, Or.inl (Nat.le_refl _)⟩
  exact Nat.pow_lt_pow_right (by omega) (by omega)


/-! ### the order on finite floats of equal sign -/

/-- lexicographic order on `(exponent, mantissa)`: the order `UnpackedFloat.compare` uses on finite floats of equal
sign. -/
def LexLE (e₁ : Int) (m₁ : Nat) (e₂ : Int) (m₂ : Nat) : Prop := e₁ < e₂ ∨ (e₁ = e₂ ∧ m₁ ≤ m₂)

theorem le_fin_pos {e₁ e₂ : Int} {m₁ m₂ : Nat} (h : LexLE e₁ m₁ e₂ m₂) (h₁ : 0 < m₁) (h₂ : 0 < m₂) :
    (UnpackedFloat.finite .positive m₁ e₁ h₁).le (.finite .positive m₂ e₂ h₂) = true := by
  unfold UnpackedFloat.le UnpackedFloat.compare
  rcases h with h | ⟨h, h'⟩
  · simp [Int.compare_eq_lt.mpr h]
  · subst h; simp [Nat.isLE_compare.mpr h']

theorem le_fin_neg {e₁ e₂ : Int} {m₁ m₂ : Nat} (h : LexLE e₂ m₂ e₁ m₁) (h₁ : 0 < m₁) (h₂ : 0 < m₂) :
    (UnpackedFloat.finite .negative m₁ e₁ h₁).le (.finite .negative m₂ e₂ h₂) = true := by
  unfold UnpackedFloat.le UnpackedFloat.compare
  rcases h with h | ⟨h, h'⟩
  · simp [Int.compare_eq_gt.mpr h]
  · subst h; simp [Nat.isGE_compare.mpr h']

theorem lexLE_refl (e : Int) (m : Nat) : LexLE e m e m := Or.inr ⟨rfl, Nat.le_refl _⟩

/-! ### the lexicographic order is the order of the exact values -/

/-- `m₁·2^e₁ ≤ m₂·2^e₂`, compared exactly as integers at the smaller exponent. -/
def ValLE (m₁ : Nat) (e₁ : Int) (m₂ : Nat) (e₂ : Int) : Prop :=
  m₁ * 2 ^ (e₁ - min e₁ e₂).toNat ≤ m₂ * 2 ^ (e₂ - min e₁ e₂).toNat

/-- on canonical pairs, `compare`'s lexicographic order on `(e, m)` coincides with the exact value order. -/
theorem lexLE_iff_valLE {spec : Format} {m₁ m₂ : Nat} {e₁ e₂ : Int}
    (hc₁ : CanonFin spec m₁ e₁) (hc₂ : CanonFin spec m₂ e₂) :
    LexLE e₁ m₁ e₂ m₂ ↔ ValLE m₁ e₁ m₂ e₂ := by
  have hMB := mantissaBits_pos spec
  have hpow : 2 ^ spec.mantissaBits = 2 * 2 ^ (spec.mantissaBits - 1) := by
    have : spec.mantissaBits = (spec.mantissaBits - 1) + 1 := by omega
    rw [this, Nat.pow_succ, Nat.mul_comm]; simp
  unfold LexLE ValLE
  rcases Int.lt_trichotomy e₁ e₂ with h | h | h
  · -- the smaller exponent loses: `m₁ < 2^MB ≤ 2·m₂ ≤ 2^d·m₂`
    have hmin : min e₁ e₂ = e₁ := by omega
    obtain ⟨d, hd⟩ : ∃ d : Nat, (e₂ - e₁).toNat = d + 1 := ⟨(e₂ - e₁).toNat - 1, by omega⟩
    have hm₂ : 2 ^ (spec.mantissaBits - 1) ≤ m₂ := by
      rcases hc₂.norm with hn | hn
      · exact hn
      · have := hc₁.ge; omega
    have h1 := hc₁.lt
    constructor
    · intro _
      rw [hmin, hd, Int.sub_self, Int.toNat_zero, Nat.pow_zero, Nat.mul_one, Nat.pow_succ, ← Nat.mul_assoc]
      have : m₂ ≤ m₂ * 2 ^ d := Nat.le_mul_of_pos_right _ (Nat.two_pow_pos d)
      omega
    · intro _; exact Or.inl h
  · subst h
    simp only [Int.min_self, Int.sub_self, Int.toNat_zero, Nat.pow_zero, Nat.mul_one]
    constructor
    · rintro (h | ⟨_, h⟩)
      · omega
      · exact h
    · intro h; exact Or.inr ⟨trivial, h⟩
  · have hmin : min e₁ e₂ = e₂ := by omega
    obtain ⟨d, hd⟩ : ∃ d : Nat, (e₁ - e₂).toNat = d + 1 := ⟨(e₁ - e₂).toNat - 1, by omega⟩
    have hm₁ : 2 ^ (spec.mantissaBits - 1) ≤ m₁ := by
      rcases hc₁.norm with hn | hn
      · exact hn
      · have := hc₂.ge; omega
    have h2 := hc₂.lt
    constructor
    · rintro (h' | ⟨h', _⟩) <;> omega
    · intro hv
      rw [hmin, hd, Int.sub_self, Int.toNat_zero, Nat.pow_zero, Nat.mul_one, Nat.pow_succ, ← Nat.mul_assoc] at hv
      have : m₁ ≤ m₁ * 2 ^ d := Nat.le_mul_of_pos_right _ (Nat.two_pow_pos d)
      omega

/-! ### `UnpackedFloat.le` on canonical finite floats of equal sign is the exact value order -/

theorem le_fin_pos_iff {e₁ e₂ : Int} {m₁ m₂ : Nat} (h₁ : 0 < m₁) (h₂ : 0 < m₂) :
    (UnpackedFloat.finite .positive m₁ e₁ h₁).le (.finite .positive m₂ e₂ h₂) = true ↔ LexLE e₁ m₁ e₂ m₂ := by
  refine ⟨fun h => ?_, fun h => le_fin_pos h h₁ h₂⟩
  unfold UnpackedFloat.le UnpackedFloat.compare at h
  rcases Int.lt_trichotomy e₁ e₂ with hlt | heq | hgt
  · exact Or.inl hlt
  · subst heq
    simp at h
    exact Or.inr ⟨rfl, Nat.isLE_compare.mp h⟩
  · simp [Int.compare_eq_gt.mpr hgt] at h

theorem le_fin_neg_iff {e₁ e₂ : Int} {m₁ m₂ : Nat} (h₁ : 0 < m₁) (h₂ : 0 < m₂) :
    (UnpackedFloat.finite .negative m₁ e₁ h₁).le (.finite .negative m₂ e₂ h₂) = true ↔ LexLE e₂ m₂ e₁ m₁ := by
  refine ⟨fun h => ?_, fun h => le_fin_neg h h₁ h₂⟩
  unfold UnpackedFloat.le UnpackedFloat.compare at h
  rcases Int.lt_trichotomy e₁ e₂ with hlt | heq | hgt
  · simp [Int.compare_eq_lt.mpr hlt] at h
  · subst heq
    simp at h
    exact Or.inr ⟨rfl, Nat.isGE_compare.mp h⟩
  · exact Or.inl hgt

/-- **`compare` is the exact value order** on canonical positive finite floats. -/
theorem le_fin_pos_iff_valLE {spec : Format} {e₁ e₂ : Int} {m₁ m₂ : Nat} (h₁ : 0 < m₁) (h₂ : 0 < m₂)
    (hc₁ : CanonFin spec m₁ e₁) (hc₂ : CanonFin spec m₂ e₂) :
    (UnpackedFloat.finite .positive m₁ e₁ h₁).le (.finite .positive m₂ e₂ h₂) = true ↔ ValLE m₁ e₁ m₂ e₂ :=
  (le_fin_pos_iff h₁ h₂).trans (lexLE_iff_valLE hc₁ hc₂)

/-- ... and the reversed value order on canonical negative finite floats. -/
theorem le_fin_neg_iff_valLE {spec : Format} {e₁ e₂ : Int} {m₁ m₂ : Nat} (h₁ : 0 < m₁) (h₂ : 0 < m₂)
    (hc₁ : CanonFin spec m₁ e₁) (hc₂ : CanonFin spec m₂ e₂) :
    (UnpackedFloat.finite .negative m₁ e₁ h₁).le (.finite .negative m₂ e₂ h₂) = true ↔ ValLE m₂ e₂ m₁ e₁ :=
  (le_fin_neg_iff h₁ h₂).trans (lexLE_iff_valLE hc₂ hc₁)

end Rosu.FMR
