/-
  Lemmas/RealScalar.lean — the real numbers as a `Scalar` (noncomputable; proofs only): the intended mathematical
  reading of the curve model. Shows that **all** law hypotheses of the exact-arithmetic theorems — `ExactArith`,
  `SqrtLaws`, `TrigLaws`, `PolarLaws`, `PeriodLaws` — are simultaneously satisfiable, with `sqrt = Real.sqrt`, `sin/cos = Real.sin/cos`,
  `atan2 y x = Complex.arg (x + iy)`.
-/
import Mathlib.Analysis.SpecialFunctions.Complex.Arg
import Mathlib.Analysis.SpecialFunctions.Trigonometric.Inverse
import RosuModel.Lemmas.ExactArith
noncomputable section
namespace Rosu.RealInst

instance scalarReal : Scalar ℝ where
  ofNat n := (n : ℝ)
  ofSci m s e := if s then (m : ℝ) / (10 : ℝ) ^ e else (m : ℝ) * (10 : ℝ) ^ e
  lt a b := decide (a < b)
  le a b := decide (a ≤ b)
  eq a b := decide (a = b)
  isNaN _ := false
  abs a := |a|
  sqrt a := Real.sqrt a
  ceil a := (⌈a⌉ : ℝ)
  eps := (2 : ℝ)⁻¹ ^ 52
  ofInt a := (a : ℝ)
  toI32 a := ⌊a⌋
  toUsize a := ⌊a⌋.toNat
  totalKey a := ⌊a⌋
  parse _ := none
  print _ := []

instance cvtReal : Cvt ℝ ℝ where
  up a := a
  down a := a

instance trigReal : Trig ℝ where
  sin := Real.sin
  cos := Real.cos
  acos := Real.arccos
  atan2 y x := Complex.arg ⟨x, y⟩
  pi := Real.pi

-- from here on numerals in this file are Mathlib's real numerals, not `Scalar.ofNat`
attribute [-instance] Scalar.instOfNat Scalar.instOfScientific

theorem exactScalar_real : ExactScalar (id : ℝ → ℝ) where
  inj := fun _ _ h => h
  add _ _ := rfl
  sub _ _ := rfl
  mul _ _ := rfl
  div _ _ := rfl
  neg _ := rfl
  ofNat _ := rfl
  ofSci _ _ := rfl
  lt _ _ := rfl
  le _ _ := rfl
  eq _ _ := rfl
  abs _ := rfl
  sqrt_nonneg a _ := Real.sqrt_nonneg a
  eps_nonneg := by show (0 : ℝ) ≤ (2 : ℝ)⁻¹ ^ 52; positivity

theorem exactArith_real : ExactArith (id : ℝ → ℝ) (id : ℝ → ℝ) where
  p := exactScalar_real
  f := exactScalar_real
  up _ := rfl
  down _ := rfl

theorem sqrtLaws_real : SqrtLaws (id : ℝ → ℝ) where
  mul_self_sqrt _ h := Real.mul_self_sqrt h

theorem trigLaws_real : TrigLaws (id : ℝ → ℝ) where
  cos_sq_add_sin_sq θ := by
    have := Real.cos_sq_add_sin_sq θ
    show Real.cos θ * Real.cos θ + Real.sin θ * Real.sin θ = 1
    nlinarith [this]

theorem polarLaws_real : PolarLaws (id : ℝ → ℝ) where
  cos x y := by
    have h := Complex.norm_mul_cos_arg ⟨x, y⟩
    rw [Complex.norm_def, Complex.normSq_apply] at h
    exact h
  sin x y := by
    have h := Complex.norm_mul_sin_arg ⟨x, y⟩
    rw [Complex.norm_def, Complex.normSq_apply] at h
    exact h

theorem periodLaws_real : PeriodLaws (id : ℝ → ℝ) where
  cos_add θ := by
    show Real.cos (θ + ((2 : ℕ) : ℝ) * Real.pi) = Real.cos θ
    push_cast
    exact Real.cos_add_two_pi θ
  sin_add θ := by
    show Real.sin (θ + ((2 : ℕ) : ℝ) * Real.pi) = Real.sin θ
    push_cast
    exact Real.sin_add_two_pi θ

end Rosu.RealInst
