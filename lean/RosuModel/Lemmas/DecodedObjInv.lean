/-
  Lemmas/DecodedObjInv.lean — what `parse_hit_objects` guarantees of every object it pushes, beyond the numeric form
  `C14.StoredObj` (Props/C14IeeePos.lean): the part of `SliderRt.RepObject` that concerns combo offsets, repeat counts,
  the requested length and the SAMPLE lists (DESIGN 5.4, "the `Decoded` invariant" — here for the `[HitObjects]` list block).

  * `FileParsed` — a custom sample file name read from a line: it is a `:`-piece of a `,`-piece of the comment-stripped
    line, so it has no `:`, no `,`, no `//`, and no line feed when the line has none (`header_rest_pieces`,
    `readBanks_ok`). Not guaranteed: that it is end-trimmed (finding F21) and `|`-free.
  * `BankOk` / `SamplesOk` — custom bank within ±(2³¹−1), volume in 0..2³¹−1, file names `FileParsed`;
    `convertSoundType_ok`, and `apply_ok`: kept by `SamplePoint::apply` for a sample point whose custom bank is within the
    limit (`SpOk`) — the finaliser's sample defaults.
  * `ObjOk` — samples `SamplesOk`; circle / slider combo offset in 0..7; slider repeat count in 0..8999, requested length
    `max(l, 0)` of a parsed `l` within ±131072, object samples without custom file (`banks_only`).
  * `parseHitObjectLine_objOk`: one `[HitObjects]` line without line feed, accepted or rejected, any mode, any state, keeps
    "every pushed object is `ObjOk`"; `objInv_decoded`: through the framing driver for every byte string;
    `decoded_objOk`: through sort, break processing and the finaliser (whose sample points come from the decoded control
    points: `finalizeObjects_samples`, `C04.decoded_control_points_in_limits`).
  No codec or arithmetic law is used.
-/
import RosuModel.Lemmas.DecodedSliders
import RosuModel.Lemmas.DecodedInvText
import RosuModel.Lemmas.RtObjects
import RosuModel.Props.C04Timing
set_option linter.unusedSectionVars false
namespace Rosu
namespace DecodedObj
open Rosu Scalar RtObjects EncodeLines

/-! ### pieces of a line -/

/-- a custom sample file name as `read_custom_sample_banks` can produce it from a line. -/
structure FileParsed (f : Str) : Prop where
  noColon : ':' ∉ f
  noComma : ',' ∉ f
  noLf : '\n' ∉ f
  noDS : hasDS f = false

theorem fileParsed_nil : FileParsed [] := ⟨by simp, by simp, by simp, rfl⟩

/-- a `,`-piece of a comment-stripped LF-free line. -/
structure PieceOk (p : Str) : Prop where
  noComma : ',' ∉ p
  noLf : '\n' ∉ p
  noDS : hasDS p = false

theorem mem_of_infix {a b : Str} (h : a <:+: b) {c : Char} (hc : c ∈ a) : c ∈ b := h.sublist.subset hc

theorem pieces_of_line (line : Str) (hl : '\n' ∉ line) : ∀ p ∈ splitOn ',' (trimComment line), PieceOk p := by
  intro p hp
  obtain ⟨h1, h2⟩ := DecodedInv.splitOn_facts ',' _ p hp
  refine ⟨h2, fun hc => hl ?_, DecodedInv.hasDS_of_infix h1 (DecodedInv.hasDS_trimComment line)⟩
  exact (DecodedInv.trimComment_prefix line).sublist.subset (mem_of_infix h1 hc)

theorem colon_pieces (s : Str) (hs : PieceOk s) : ∀ q ∈ splitOn ':' s, FileParsed q := by
  intro q hq
  obtain ⟨h1, h2⟩ := DecodedInv.splitOn_facts ':' _ q hq
  exact ⟨h2, fun hc => hs.noComma (mem_of_infix h1 hc), fun hc => hs.noLf (mem_of_infix h1 hc),
    DecodedInv.hasDS_of_infix h1 hs.noDS⟩

/-! ### bank info -/

structure BankOk (b : SampleBankInfo) : Prop where
  custom : -i32Max ≤ b.customSampleBank ∧ b.customSampleBank ≤ i32Max
  volume : 0 ≤ b.volume ∧ b.volume ≤ i32Max
  file : ∀ f, b.filename = some f → FileParsed f

theorem bankOk_default : BankOk ({} : SampleBankInfo) :=
  ⟨by decide, by decide, fun f h => by cases h⟩

/-- **`read_custom_sample_banks` keeps `BankOk`** — whatever it returns. -/
theorem readBanks_ok (self : SampleBankInfo) (pieces : List Str) (bo : Bool) (hs : BankOk self)
    (hp : ∀ p ∈ pieces, FileParsed p) : BankOk (self.readCustomSampleBanks pieces bo).1 := by
  unfold SampleBankInfo.readCustomSampleBanks
  split
  · exact hs
  · rename_i first r1
    split
    · exact hs
    · split
      · exact hs
      · split
        · exact hs
        · rename_i second r2
          split
          · exact hs
          · simp only []
            split
            · exact ⟨hs.custom, hs.volume, hs.file⟩
            · split
              · exact ⟨hs.custom, hs.volume, fun f h => by cases h⟩
              · rename_i third r3
                split
                · exact ⟨hs.custom, hs.volume, hs.file⟩
                · rename_i csb hcsb
                  have hc := DecodedInv.i32Parse_range hcsb
                  split
                  · exact ⟨hc, hs.volume, fun f h => by cases h⟩
                  · rename_i fourth r4
                    split
                    · exact ⟨hc, hs.volume, hs.file⟩
                    · rename_i vol hvol
                      have hv := DecodedInv.i32Parse_range hvol
                      refine ⟨hc, ?_, ?_⟩
                      · show 0 ≤ (if vol < 0 then 0 else vol) ∧ (if vol < 0 then 0 else vol) ≤ i32Max
                        have : (0 : Int) ≤ i32Max := by decide
                        split <;> omega
                      · intro f hf
                        have hf' : r4.head? = some f := hf
                        apply hp
                        have hm : f ∈ r4 := List.mem_of_mem_head? hf'
                        simp [hm]

/-- banks-only reading (a slider's own bank field) leaves file name, custom bank and volume untouched. -/
theorem readBanks_banksOnly (self : SampleBankInfo) (pieces : List Str) :
    (self.readCustomSampleBanks pieces true).1.filename = self.filename ∧
    (self.readCustomSampleBanks pieces true).1.customSampleBank = self.customSampleBank ∧
    (self.readCustomSampleBanks pieces true).1.volume = self.volume := by
  unfold SampleBankInfo.readCustomSampleBanks
  repeat' split
  all_goals first | exact ⟨rfl, rfl, rfl⟩ | simp_all

theorem readExtras_ok (rest : List Str) (bo : Bool) (hr : ∀ p ∈ rest, PieceOk p) : BankOk (readExtras rest bo).1 := by
  unfold readExtras
  split
  · rename_i s _
    exact readBanks_ok _ _ _ bankOk_default (colon_pieces s (hr s (by simp)))
  · exact bankOk_default

theorem readExtras_banksOnly_file (rest : List Str) : (readExtras rest true).1.filename = none := by
  unfold readExtras
  split
  · exact (readBanks_banksOnly _ _).1
  · rfl

/-! ### samples -/

structure SampleOk (s : HitSampleInfo) : Prop where
  custom : -i32Max ≤ s.customSampleBank ∧ s.customSampleBank ≤ i32Max
  volume : 0 ≤ s.volume ∧ s.volume ≤ i32Max
  file : ∀ f, s.name = .file f → FileParsed f

def SamplesOk (l : List HitSampleInfo) : Prop := ∀ s ∈ l, SampleOk s

/-- no sample of the list is a custom file. -/
def NoFile (l : List HitSampleInfo) : Prop := ∀ s ∈ l, ∀ f, s.name ≠ .file f

theorem new_ok (name : HitSampleInfoName) (bank : Option SampleBank) (c v : Int)
    (hc : -i32Max ≤ c ∧ c ≤ i32Max) (hv : 0 ≤ v ∧ v ≤ i32Max) (hf : ∀ f, name = .file f → FileParsed f) :
    SampleOk (HitSampleInfo.new name bank c v) := ⟨hc, hv, hf⟩

theorem mem_ite_singleton {α : Type} {c : Prop} [Decidable c] {x s : α} (h : s ∈ (if c then [x] else [])) : s = x := by
  split at h
  · simpa using h
  · cases h

/-- **`convert_sound_type` of a `BankOk` info gives `SamplesOk` samples.** -/
theorem convertSoundType_ok (b : SampleBankInfo) (snd : Int) (hb : BankOk b) : SamplesOk (b.convertSoundType snd) := by
  have hdef : ∀ (n : HitSampleDefaultName) (bk : Option SampleBank),
      SampleOk (HitSampleInfo.new (.default n) bk b.customSampleBank b.volume) :=
    fun n bk => new_ok _ _ _ _ hb.custom hb.volume (fun f h => by cases h)
  have hdef' : ∀ (n : HitSampleDefaultName) (bk : Option SampleBank) (l : Bool),
      SampleOk { HitSampleInfo.new (.default n) bk b.customSampleBank b.volume with isLayered := l } :=
    fun n bk l => ⟨hb.custom, hb.volume, fun f h => by cases h⟩
  have hfirst : SampleOk (match b.filename with
      | some f =>
        if !f.isEmpty then HitSampleInfo.new (.file f) none 1 b.volume
        else { HitSampleInfo.new (.default .normal) b.bankForNormal b.customSampleBank b.volume with
                isLayered := snd != 0 && !testBit snd sndNormal }
      | none => { HitSampleInfo.new (.default .normal) b.bankForNormal b.customSampleBank b.volume with
                isLayered := snd != 0 && !testBit snd sndNormal }) := by
    split
    · rename_i f hf
      split
      · exact new_ok _ _ _ _ (by decide) hb.volume (fun g hg => by cases hg; exact hb.file f hf)
      · exact hdef' _ _ _
    · exact hdef' _ _ _
  intro s hs
  unfold SampleBankInfo.convertSoundType at hs
  simp only [List.mem_cons, List.mem_append] at hs
  rcases hs with hs | (hs | hs) | hs
  · rw [hs]; exact hfirst
  all_goals (rw [mem_ite_singleton hs]; exact hdef _ _)

theorem convertSoundType_noFile (b : SampleBankInfo) (snd : Int) (hb : b.filename = none) :
    NoFile (b.convertSoundType snd) := by
  intro s hs f
  unfold SampleBankInfo.convertSoundType at hs
  simp only [hb, List.mem_cons, List.mem_append] at hs
  rcases hs with hs | (hs | hs) | hs
  · rw [hs]; intro h; cases h
  all_goals (rw [mem_ite_singleton hs]; intro h; cases h)

/-! ### `SamplePoint::apply` -/

variable {F P : Type} [Scalar F] [Scalar P] [Cvt P F]

/-- a sample point whose custom bank is within the parse limit. -/
def SpOk (sp : SamplePoint F) : Prop := -i32Max ≤ sp.customSampleBank ∧ sp.customSampleBank ≤ i32Max

theorem spOk_default : SpOk (SamplePoint.default : SamplePoint F) := by
  show -i32Max ≤ (0 : Int) ∧ (0 : Int) ≤ i32Max
  decide

theorem clampVolume_range (v : Int) : 0 ≤ clampVolume v ∧ clampVolume v ≤ i32Max := by
  unfold clampVolume
  have : (100 : Int) ≤ i32Max := by decide
  split
  · omega
  · split <;> omega

theorem apply_name (sp : SamplePoint F) (s : HitSampleInfo) : (sp.apply s).name = s.name := by
  unfold SamplePoint.apply
  split
  · rename_i n hn
    simp only []
    repeat' split
    all_goals simp_all
  · rfl

theorem apply_ok (sp : SamplePoint F) (hsp : SpOk sp) (s : HitSampleInfo) (hs : SampleOk s) : SampleOk (sp.apply s) := by
  refine ⟨?_, ?_, fun f hf => hs.file f (by rw [← apply_name sp s]; exact hf)⟩
  · unfold SamplePoint.apply
    have h1 := hs.custom
    have h2 : -i32Max ≤ sp.customSampleBank ∧ sp.customSampleBank ≤ i32Max := hsp
    split
    · simp only []
      repeat' split
      all_goals simp_all
    · show -i32Max ≤ (1 : Int) ∧ (1 : Int) ≤ i32Max
      decide
  · unfold SamplePoint.apply
    have h1 := hs.volume
    have h2 := clampVolume_range sp.sampleVolume
    split
    · simp only []
      repeat' split
      all_goals simp_all
    · show 0 ≤ (if (s.volume == 0) = true then clampVolume sp.sampleVolume else s.volume) ∧
        (if (s.volume == 0) = true then clampVolume sp.sampleVolume else s.volume) ≤ i32Max
      split
      · exact h2
      · exact h1

theorem samplesOk_map (sp : SamplePoint F) (hsp : SpOk sp) (l : List HitSampleInfo) (h : SamplesOk l) :
    SamplesOk (l.map sp.apply) := by
  intro s hs
  obtain ⟨a, ha, rfl⟩ := List.mem_map.mp hs
  exact apply_ok sp hsp a (h a ha)

theorem noFile_map (sp : SamplePoint F) (l : List HitSampleInfo) (h : NoFile l) : NoFile (l.map sp.apply) := by
  intro s hs f
  obtain ⟨a, ha, rfl⟩ := List.mem_map.mp hs
  rw [apply_name]
  exact h a ha f

/-! ### the per-object predicate -/

/-- within the coordinate limit, from the parser's own test. -/
theorem inCoord_of_parse {α : Type} [Scalar α] {s : Str} {x : α}
    (h : floatParseWithLimits s (Scalar.ofInt maxCoordinate) = some x) : InCoord x := by
  unfold floatParseWithLimits at h
  split at h
  · cases h
  · split at h
    · cases h
    · split at h
      · cases h
      · split at h
        · cases h
        · rename_i h1 h2 h3
          injection h with h; subst h
          exact ⟨by simpa using h1, by simpa using h2, by simpa using h3⟩

/-- the requested length of a slider as `parse_hit_objects` stores it: `max(l, 0)` of a parsed `l` within ±131072. -/
def LenParsed (e : Option F) : Prop := ∀ L, e = some L → ∃ l : F, InCoord l ∧ L = Scalar.max l 0

/-- the line-level facts of a kind (`samples`: the object's own sample list). -/
def KindOk (samples : List HitSampleInfo) : HitObjectKind F P → Prop
  | .circle c => 0 ≤ c.comboOffset ∧ c.comboOffset < 8
  | .slider s => (0 ≤ s.comboOffset ∧ s.comboOffset < 8) ∧ (0 ≤ s.repeatCount ∧ s.repeatCount < 9000) ∧
      LenParsed s.path.expectedDist ∧ NoFile samples
  | .spinner _ => True
  | .hold _ => True

/-- **what every pushed object satisfies** (besides the numeric form `C14.StoredObj`). -/
structure ObjOk (h : HitObject F P) : Prop where
  samples : SamplesOk h.samples
  kind : KindOk h.samples h.kind

def ObjsOk (hs : List (HitObject F P)) : Prop := ∀ o ∈ hs, ObjOk o

theorem objsOk_snoc (hs : List (HitObject F P)) (o : HitObject F P) (h : ObjsOk hs) (ho : ObjOk o) : ObjsOk (hs ++ [o]) := by
  intro x hx
  rcases List.mem_append.mp hx with hx | hx
  · exact h x hx
  · simp only [List.mem_singleton] at hx; subst hx; exact ho

theorem storedComboOffset_range (ty0 : Int) : 0 ≤ storedComboOffset ty0 ∧ storedComboOffset ty0 < 8 := by
  unfold storedComboOffset comboOffsetOf
  split <;> omega

/-! ### one line -/

theorem header_rest (line : Str) (hl : '\n' ∉ line) (hd : Header F P) (h : parseHeader line = some hd) :
    ∀ p ∈ hd.rest, PieceOk p := by
  unfold parseHeader at h
  split at h
  · rename_i xs ys ts ks ss rest heq
    have hp := pieces_of_line line hl
    rw [heq] at hp
    split at h
    · cases h
    · split at h
      · cases h
      · split at h
        · cases h
        · split at h
          · cases h
          · split at h
            · cases h
            · cases h
              intro p hp'
              exact hp p (by simp [hp'])
  · cases h

omit [Scalar P] [Cvt P F] in
theorem parseLength_parsed (rest2 : List Str) (e : Option F) (h : parseLength rest2 = some e) : LenParsed e := by
  unfold parseLength at h
  split at h
  · split at h
    · cases h
    · rename_i l hl
      simp only [Option.some.injEq] at h
      subst h
      intro L hL
      split at hL
      · cases hL
        exact ⟨l, inCoord_of_parse hl, rfl⟩
      · cases hL
  · cases h
    intro L hL; cases hL

theorem prelude_ok (hd : Header F P) (pre : SliderPrelude F) (h : sliderPrelude hd = some pre) :
    LenParsed pre.len ∧ pre.bankInfo.filename = none ∧ BankOk pre.bankInfo := by
  unfold sliderPrelude at h
  split at h
  · rename_i pointStr repeatS rest2 _
    split at h
    · cases h
    · split at h
      · cases h
      · split at h
        · cases h
        · rename_i len hlen
          split at h
          · cases h
          · rename_i bankInfo hbank
            split at h
            · cases h
            · cases h
              have e : bankInfo = (readExtras (rest2.drop 3) true).1 := by rw [hbank]
              refine ⟨parseLength_parsed rest2 len hlen, ?_, ?_⟩
              · show bankInfo.filename = none
                rw [e]; exact readExtras_banksOnly_file _
              · show BankOk bankInfo
                rw [e]
                unfold readExtras
                split
                · obtain ⟨h1, h2, h3⟩ := readBanks_banksOnly ({} : SampleBankInfo) (splitOn ':' (by assumption))
                  exact ⟨by rw [h2]; decide, by rw [h3]; decide, fun f hf => by rw [h1] at hf; cases hf⟩
                · exact bankOk_default
  · cases h

theorem buildSlider_ok (mode : GameMode) (st st' : HOCore F P) (hd : Header F P) (k : HitObjectKind F P) (b : SampleBankInfo)
    (h : buildSlider mode st hd = (st', some (k, b))) :
    BankOk b ∧ b.filename = none ∧ ∀ samples, NoFile samples → KindOk samples k := by
  unfold buildSlider at h
  split at h
  · cases h
  · rename_i pre hpre
    obtain ⟨hlen, hfile, hbank⟩ := prelude_ok hd pre hpre
    have hp := C14.prelude_fields hd pre hpre
    split at h
    · cases h
    · cases h
      exact ⟨hbank, hfile, fun samples hs => ⟨storedComboOffset_range _, ⟨hp.1, by have := hp.2.1; show pre.repeatCount < 9000; omega⟩, hlen, hs⟩⟩

theorem buildCircle_ok (st : HOCore F P) (hd : Header F P) (k : HitObjectKind F P) (b : SampleBankInfo)
    (hr : ∀ p ∈ hd.rest, PieceOk p) (h : buildCircle st hd = some (k, b)) :
    BankOk b ∧ ∀ samples, KindOk samples k := by
  unfold buildCircle at h
  split at h
  · cases h
  · rename_i bankInfo hbank
    cases h
    have e : b = (readExtras hd.rest false).1 := by rw [hbank]
    exact ⟨by rw [e]; exact readExtras_ok _ _ hr, fun _ => storedComboOffset_range _⟩

theorem buildSpinner_ok (hd : Header F P) (k : HitObjectKind F P) (b : SampleBankInfo)
    (hr : ∀ p ∈ hd.rest, PieceOk p) (h : buildSpinner hd = some (k, b)) :
    BankOk b ∧ ∀ samples, KindOk samples k := by
  unfold buildSpinner at h
  split at h
  · rename_i durS rest2 heq
    split at h
    · cases h
    · split at h
      · cases h
      · rename_i bankInfo hbank
        cases h
        have e : b = (readExtras rest2 false).1 := by rw [hbank]
        refine ⟨?_, fun _ => trivial⟩
        rw [e]
        exact readExtras_ok _ _ (fun p hp => hr p (by rw [heq]; simp [hp]))
  · cases h

theorem buildHold_ok (hd : Header F P) (k : HitObjectKind F P) (b : SampleBankInfo)
    (hr : ∀ p ∈ hd.rest, PieceOk p) (h : buildHold hd = some (k, b)) :
    BankOk b ∧ ∀ samples, KindOk samples k := by
  unfold buildHold at h
  simp only [] at h
  split at h
  · cases h
  · rename_i endTime bankInfo hres
    cases h
    refine ⟨?_, fun _ => trivial⟩
    split at hres
    · cases hres; exact bankOk_default
    · rename_i s hs
      have hsm : s ∈ hd.rest := by
        unfold optNonEmpty at hs
        split at hs
        · rename_i x hx
          split at hs
          · cases hs
          · cases hs; exact List.mem_of_mem_head? hx
        · cases hs
      have hpieces := colon_pieces s (hr s hsm)
      split at hres
      · cases hres
      · rename_i e ss hsplit
        split at hres
        · cases hres
        · split at hres
          · cases hres
          · rename_i bi hbi
            cases hres
            have e' : b = (({} : SampleBankInfo).readCustomSampleBanks ss false).1 := by rw [hbi]
            rw [e']
            exact readBanks_ok _ _ _ bankOk_default (fun p hp => hpieces p (by rw [hsplit]; simp [hp]))

/-- **one `[HitObjects]` line without line feed**, accepted or rejected, any mode, any state: every pushed object is
`ObjOk`. -/
theorem parseHitObjectLine_objsOk (mode : GameMode) (st : HOCore F P) (line : Str) (hl : '\n' ∉ line)
    (hinv : ObjsOk st.hitObjects) : ObjsOk (parseHitObjectLine mode st line).1.hitObjects := by
  unfold parseHitObjectLine
  split
  · exact hinv
  · rename_i hd hhd
    have hr := header_rest line hl hd hhd
    split
    · exact hinv
    · split
      · exact hinv
      · rename_i k b hb
        obtain ⟨h1, h2⟩ := buildCircle_ok st hd k b hr hb
        exact objsOk_snoc _ _ hinv ⟨convertSoundType_ok b _ h1, h2 _⟩
    · have hf := C14.buildSlider_frame mode st hd
      split
      · rename_i st' heq
        rw [heq] at hf
        simp only [] at hf ⊢
        rw [hf.1]; exact hinv
      · rename_i st' k b heq
        rw [heq] at hf
        simp only [] at hf
        obtain ⟨h1, h2, h3⟩ := buildSlider_ok mode st st' hd k b heq
        show ObjsOk (st'.hitObjects ++ [_])
        rw [hf.1]
        exact objsOk_snoc _ _ hinv ⟨convertSoundType_ok b _ h1, h3 _ (convertSoundType_noFile b _ h2)⟩
    · split
      · exact hinv
      · rename_i k b hb
        obtain ⟨h1, h2⟩ := buildSpinner_ok hd k b hr hb
        exact objsOk_snoc _ _ hinv ⟨convertSoundType_ok b _ h1, h2 _⟩
    · split
      · exact hinv
      · rename_i k b hb
        obtain ⟨h1, h2⟩ := buildHold_ok hd k b hr hb
        exact objsOk_snoc _ _ hinv ⟨convertSoundType_ok b _ h1, h2 _⟩

/-! ### through the framing driver -/

/-- the decoder-state invariant. -/
def ObjInv (st : BeatmapState F P) : Prop := ObjsOk st.hitObjects.core.hitObjects

theorem objInv_create (v : Int) : ObjInv (BeatmapState.create v : BeatmapState F P) :=
  fun _ h => absurd h List.not_mem_nil

theorem objInv_step (sec : Section) (st : BeatmapState F P) (l : Str) (hl : '\n' ∉ l) (h : ObjInv st) :
    ObjInv (BeatmapState.step sec st l) := by
  unfold ObjInv at h ⊢
  have key : ObjsOk (st.hitObjects.step sec l).core.hitObjects := by
    rcases DecodedSliders.hoStep_core_objects sec st.hitObjects l with e | ⟨_, e⟩
    · rw [e]; exact h
    · rw [e]; exact parseHitObjectLine_objsOk _ _ _ hl h
  cases sec <;> first | exact key | exact h

/-- **every decoded byte string leaves the decoder with `ObjOk` objects only.** -/
theorem objInv_decoded (bs : List UInt8) (st : BeatmapState F P)
    (h : decodeBytes beatmapDecoder bs = .ok st) : ObjInv st := by
  obtain ⟨ls, rfl, hls⟩ := DecodedInv.decodeBytes_lines _ bs st h
  exact DecodedInv.frame_invariant_lines (beatmapDecoder : LineDecoder (BeatmapState F P)) ObjInv (fun l => '\n' ∉ l)
    (fun v _ => objInv_create v) (fun s st l hl hst => objInv_step s st l hl hst) ls (fun l hl => (hls l hl).1)

/-! ### through the finaliser -/

section Finish
variable [Trig F] [Trig P]

/-- the sample point the finaliser applies to an object's samples is looked up in the control points. -/
theorem finalizeObject_samples (mode : GameMode) (sm : F) (cp : ControlPoints F) (h h' : HitObject F P)
    (bufs bufs' : CurveBuffers P F) (hfin : finalizeObject mode sm cp h bufs = .ok (h', bufs')) :
    ∃ t : F, h'.samples = h.samples.map ((cp.samplePointAt t).getD SamplePoint.default).apply := by
  unfold finalizeObject at hfin
  cases hk : h.kind with
  | circle c =>
    simp only [hk, pure, Except.pure, Except.ok.injEq, Prod.mk.injEq] at hfin
    obtain ⟨e, _⟩ := hfin; subst e
    exact ⟨_, rfl⟩
  | spinner c =>
    simp only [hk, pure, Except.pure, Except.ok.injEq, Prod.mk.injEq] at hfin
    obtain ⟨e, _⟩ := hfin; subst e
    exact ⟨_, rfl⟩
  | hold c =>
    simp only [hk, pure, Except.pure, Except.ok.injEq, Prod.mk.injEq] at hfin
    obtain ⟨e, _⟩ := hfin; subst e
    exact ⟨_, rfl⟩
  | slider s =>
    simp only [hk] at hfin
    cases hc : Curve.new curveFuel s.path.mode s.path.controlPoints s.path.expectedDist bufs with
    | error e => simp [hc, bind, Except.bind] at hfin
    | ok r =>
      simp only [hc, bind, Except.bind, pure, Except.pure, Except.ok.injEq, Prod.mk.injEq] at hfin
      obtain ⟨e, _⟩ := hfin; subst e
      exact ⟨_, rfl⟩

theorem finalizeObjects_samples (mode : GameMode) (sm : F) (cp : ControlPoints F) (hs hs' : List (HitObject F P))
    (bufs : CurveBuffers P F) (h : finalizeObjects mode sm cp hs bufs = .ok hs') :
    C15.Pointwise (fun a b => b.startTime = a.startTime ∧ C15.FinSim a.kind b.kind ∧
      ∃ t : F, b.samples = a.samples.map ((cp.samplePointAt t).getD SamplePoint.default).apply) hs hs' := by
  induction hs generalizing hs' bufs with
  | nil => simp [finalizeObjects, pure, Except.pure] at h; subst h; exact .nil
  | cons x rest ih =>
    simp only [finalizeObjects, bind, Except.bind] at h
    cases hx : finalizeObject mode sm cp x bufs with
    | error e => simp [hx] at h
    | ok r =>
      obtain ⟨x', b'⟩ := r
      simp only [hx] at h
      cases hr : finalizeObjects mode sm cp rest b' with
      | error e => simp [hr] at h
      | ok rest' =>
        simp only [hr, pure, Except.pure] at h
        cases h
        obtain ⟨h1, h2, _⟩ := C15.finalizeObject_sim mode sm cp x x' bufs b' hx
        exact .cons ⟨h1, h2, finalizeObject_samples mode sm cp x x' bufs b' hx⟩ (ih rest' b' hr)

theorem spOk_lookup (cp : ControlPoints F) (hcp : ∀ s ∈ cp.samplePoints, SpOk s) (t : F) :
    SpOk ((cp.samplePointAt t).getD SamplePoint.default) := by
  cases hx : cp.samplePointAt t with
  | none => exact spOk_default
  | some x => exact hcp x (RtTiming.lookupSaturating_mem _ _ _ x hx)

theorem kindOk_kindSim (l l' : List HitSampleInfo) (k k' : HitObjectKind F P) (hs : C15.KindSim k k')
    (hl : NoFile l → NoFile l') (h : KindOk l k) : KindOk l' k' := by
  cases k <;> cases k' <;> simp only [C15.KindSim] at hs
  · rename_i c c'; rw [hs.1]; exact h
  · rename_i s s'; rw [hs.1]; exact ⟨h.1, h.2.1, h.2.2.1, hl h.2.2.2⟩
  · trivial
  · trivial

theorem kindOk_finSim (l l' : List HitSampleInfo) (k k' : HitObjectKind F P) (hs : C15.FinSim k k')
    (hl : NoFile l → NoFile l') (h : KindOk l k) : KindOk l' k' := by
  cases k with
  | circle c => simp only [C15.FinSim] at hs; subst hs; exact h
  | spinner c => simp only [C15.FinSim] at hs; subst hs; trivial
  | hold c => simp only [C15.FinSim] at hs; subst hs; trivial
  | slider s =>
    cases k' with
    | slider s' =>
      simp only [C15.FinSim] at hs
      rw [hs.1]; exact ⟨h.1, h.2.1, h.2.2.1, hl h.2.2.2⟩
    | circle _ => simp only [C15.FinSim] at hs; cases hs
    | spinner _ => simp only [C15.FinSim] at hs; cases hs
    | hold _ => simp only [C15.FinSim] at hs; cases hs

/-- the finaliser's inputs, read off a finished `Beatmap` (as `C02.finish_objects`). -/
theorem finish_eq (st : BeatmapState F P) (m : Beatmap F P) (hf : st.finish = .ok m) :
    finalizeObjects m.general.mode m.difficulty.sliderMultiplier m.controlPoints
      (postProcessBreaks m.events.breaks (sortByStartTime st.hitObjects.core.hitObjects) 0) emptyBuffers = .ok m.hitObjects := by
  unfold BeatmapState.finish at hf
  cases hho : st.hitObjects.finish with
  | error e => simp [hho, bind, Except.bind] at hf
  | ok ho =>
    simp only [hho, bind, Except.bind, pure, Except.pure] at hf
    injection hf with hf
    subst hf
    unfold HitObjectsState.finish at hho
    simp only [bind, Except.bind, pure, Except.pure] at hho
    split at hho
    · cases hho
    · rename_i objs heq
      injection hho with hho
      subst hho
      exact heq

/-- **every hit object of a decoded map is `ObjOk`** — every byte string; the sample defaults the finaliser fills in come
from the decoded control points, whose custom banks are within the parse limit. -/
theorem decoded_objOk (bs : List UInt8) (st : BeatmapState F P) (m : Beatmap F P)
    (h1 : decodeBytes beatmapDecoder bs = .ok st) (h2 : st.finish = .ok m) : ObjsOk m.hitObjects := by
  have hinv := objInv_decoded bs st h1
  obtain ⟨ls, hst, _⟩ := DecodedInv.decodeBytes_lines _ bs st h1
  have hcp : ∀ s ∈ m.controlPoints.samplePoints, SpOk s := by
    intro s hs
    have := (C04.decoded_control_points_in_limits ls m (by rw [← hst]; exact h2)).2.2.2.2 s hs
    exact ⟨this.2.1, this.2.2⟩
  have hfin := finalizeObjects_samples _ _ _ _ _ _ (finish_eq st m h2)
  have hbr := C15.postProcessBreaks_pointwise (P := P) m.events.breaks (sortByStartTime st.hitObjects.core.hitObjects) 0
  intro o ho
  obtain ⟨b, hb, _, hk2, t, hs2⟩ := DecodedSliders.pointwise_mem hfin o ho
  obtain ⟨a, ha, _, hs1, hk1⟩ := DecodedSliders.pointwise_mem hbr b hb
  have haok := hinv a ((C15.sorted_perm _).mem_iff.mp ha)
  have hsp := spOk_lookup m.controlPoints hcp t
  refine ⟨by rw [hs2, hs1]; exact samplesOk_map _ hsp _ haok.samples, ?_⟩
  refine kindOk_finSim b.samples o.samples _ _ hk2 (fun h => by rw [hs2]; exact noFile_map _ _ h) ?_
  exact kindOk_kindSim a.samples b.samples _ _ hk1 (fun h => by rw [hs1]; exact h) haok.kind

end Finish

end DecodedObj
end Rosu
