/-
  Lemmas/FloatCodecLawsRound.lean — `roundRat` (decimal → binary, Model/FloatCodec.lean) rounds correctly (core Lean only).
  * `roundRat_eq`: the function in structured form: the exponent it settles on (`chooseE`), the truncated quotient
    (`quotS`) and the final rounding / packing step (`finish`);
  * `chooseE_canon`, `canon_unique`: that exponent is the unique `e ≥ eminSub` at which the truncated quotient has at
    most `p` bits and, unless `e = eminSub`, exactly `p` bits;
  * `roundRat_of_inInterval`: if `num/den` lies in the rounding interval of a finite positive bit pattern `b`
    (between the midpoints to its two neighbours, the midpoints included exactly when `b`'s mantissa is even —
    the predicate `InIv`, which is literally the test `shortestDigits` makes), then `roundRat f num den = b`.
-/
import RosuModel.Lemmas.FloatCodecLawsPow
namespace Rosu
namespace FCL

/-- truncated quotient, remainder and divisor of `(num/den) / 2^e`. -/
def quotS (num den : Nat) (e : Int) : Nat × Nat × Nat :=
  ((num * pD 2 e) / (den * pN 2 e), (num * pD 2 e) % (den * pN 2 e), den * pN 2 e)

/-- the exponent `roundRat` settles on. -/
def chooseFrom (f : FloatFmt) (num den : Nat) (e0 : Int) : Int :=
  let e1 : Int := if e0 < f.eminSub then f.eminSub else e0
  let e2 : Int := if (quotS num den e1).1 ≥ 2 ^ f.p then e1 + 1 else e1
  if (quotS num den e2).1 ≥ 2 ^ f.p then e2 + 1 else e2

def chooseE (f : FloatFmt) (num den : Nat) : Int :=
  chooseFrom f num den ((bitLen num : Int) - (bitLen den : Int) - f.p)

/-- rounding of the truncated quotient and packing of the bit pattern. -/
def finish (f : FloatFmt) (q r d : Nat) (e3 : Int) : Nat :=
  let q := if 2 * r > d || (2 * r == d && q % 2 == 1) then q + 1 else q
  let qe : Nat × Int := if q == 2 ^ f.p then (2 ^ (f.p - 1), e3 + 1) else (q, e3)
  if qe.1 < 2 ^ (f.p - 1) then qe.1
  else
    let expField : Int := qe.2 + (f.p - 1 : Nat) + f.bias
    if expField ≥ 2 ^ f.ebits - 1 then f.infBits
    else expField.toNat * 2 ^ (f.p - 1) + (qe.1 - 2 ^ (f.p - 1))

theorem roundRat_eq (f : FloatFmt) (num den : Nat) (h : num ≠ 0) :
    roundRat f num den = finish f (quotS num den (chooseE f num den)).1 (quotS num den (chooseE f num den)).2.1
      (quotS num den (chooseE f num den)).2.2 (chooseE f num den) := by
  unfold roundRat
  rw [if_neg h]
  extract_lets k e0 e1 quot e2 e3
  have hq : quot = quotS num den := by
    funext e
    show (match (if e < 0 then (num * 2 ^ (-e).toNat, den) else (num, den * 2 ^ e.toNat)) with
      | (n, d) => (n / d, n % d, d)) = _
    unfold quotS pN pD
    by_cases he : e < 0
    · rw [if_pos he]
      have : e.toNat = 0 := by omega
      simp [this]
    · rw [if_neg he]
      have : (-e).toNat = 0 := by omega
      simp [this]
  clear_value quot
  subst hq
  rfl

/-! ### the exponent -/

theorem q_lt_iff {num den : Nat} (hden : 0 < den) (e : Int) (c : Nat) :
    (quotS num den e).1 < c ↔ LtS num den c e := by
  unfold quotS LtS
  exact Nat.div_lt_iff_lt_mul (Nat.mul_pos hden (pN_pos (by decide) e))

theorem le_q_iff {num den : Nat} (hden : 0 < den) (e : Int) (c : Nat) :
    c ≤ (quotS num den e).1 ↔ LeS c e num den := by
  unfold quotS LeS
  exact Nat.le_div_iff_mul_le (Nat.mul_pos hden (pN_pos (by decide) e))

theorem LtS_mono {num den c c' : Nat} {e : Int} (h : LtS num den c e) (hc : c ≤ c') : LtS num den c' e := by
  unfold LtS at *
  exact Nat.lt_of_lt_of_le h (Nat.mul_le_mul_right _ hc)

theorem LeS_mono {num den c c' : Nat} {e : Int} (h : LeS c' e num den) (hc : c ≤ c') : LeS c e num den := by
  unfold LeS at *
  exact Nat.le_trans (Nat.mul_le_mul_right _ hc) h

theorem two_pow_pred {p : Nat} (hp : 1 ≤ p) : 2 ^ (p - 1) * 2 = 2 ^ p := by
  rw [← Nat.pow_succ]; congr 1; omega

/-- `e` is an exponent at which the truncated quotient of `num/den` is a canonical mantissa. -/
def Canon (f : FloatFmt) (num den : Nat) (e : Int) : Prop :=
  f.eminSub ≤ e ∧ LtS num den (2 ^ f.p) e ∧ (e = f.eminSub ∨ LeS (2 ^ (f.p - 1)) e num den)

theorem canon_unique {f : FloatFmt} (hp : 1 ≤ f.p) {num den : Nat} {e e' : Int}
    (h : Canon f num den e) (h' : Canon f num den e') : e = e' := by
  have key : ∀ {a b : Int}, Canon f num den a → Canon f num den b → ¬ a < b := by
    intro a b ha hb hlt
    obtain ⟨j, hj, rfl⟩ : ∃ j : Nat, 1 ≤ j ∧ b = a + j := ⟨(b - a).toNat, by omega, by omega⟩
    rcases hb.2.2 with hb' | hb'
    · have := ha.1; omega
    · have h1 := (LeS_shift _ a j num den).1 hb'
      have h2 : 2 ^ f.p ≤ 2 ^ (f.p - 1) * 2 ^ j := by
        rw [← Nat.pow_add]; exact Nat.pow_le_pow_right (by decide) (by omega)
      exact (not_LtS.2 (LeS_mono h1 h2)) ha.2.1
  have := key h h'; have := key h' h; omega

theorem chooseE_canon (f : FloatFmt) (hp : 1 ≤ f.p) (num den : Nat) (hnum : 0 < num) (hden : 0 < den) :
    Canon f num den (chooseE f num den) := by
  have ha := bitLen_pos hnum
  have hb := bitLen_pos hden
  have hna := lt_pow_bitLen num
  have hna' := pow_bitLen_le hnum
  have hdb := lt_pow_bitLen den
  have hdb' := pow_bitLen_le hden
  unfold chooseE
  generalize bitLen num = a at *
  generalize bitLen den = b at *
  -- x < 2^(p+1) · 2^e0 and 2^(p-1) · 2^e0 ≤ x
  have H1 : LtS num den (2 ^ (f.p + 1)) ((a : Int) - b - f.p) := by
    unfold LtS
    have law := pow_law 2 a (b + f.p) ((a : Int) - b - f.p) (by omega)
    calc num * pD 2 _ < 2 ^ a * pD 2 _ := Nat.mul_lt_mul_of_pos_right hna (pD_pos (by decide) _)
      _ = 2 ^ (b + f.p) * pN 2 _ := law
      _ = 2 ^ (f.p + 1) * (2 ^ (b - 1) * pN 2 _) := by
          rw [← Nat.mul_assoc, ← Nat.pow_add]; congr 2; omega
      _ ≤ 2 ^ (f.p + 1) * (den * pN 2 _) := Nat.mul_le_mul_left _ (Nat.mul_le_mul_right _ hdb')
  have H2 : LeS (2 ^ (f.p - 1)) ((a : Int) - b - f.p) num den := by
    unfold LeS
    have law := pow_law 2 (a - 1) (b + f.p - 1) ((a : Int) - b - f.p) (by omega)
    calc 2 ^ (f.p - 1) * (den * pN 2 _) ≤ 2 ^ (f.p - 1) * (2 ^ b * pN 2 _) :=
          Nat.mul_le_mul_left _ (Nat.mul_le_mul_right _ (Nat.le_of_lt hdb))
      _ = 2 ^ (b + f.p - 1) * pN 2 _ := by
          rw [← Nat.mul_assoc, ← Nat.pow_add]; congr 2; omega
      _ = 2 ^ (a - 1) * pD 2 _ := law.symm
      _ ≤ num * pD 2 _ := Nat.mul_le_mul_right _ hna'
  show Canon f num den (chooseFrom f num den ((a : Int) - b - f.p))
  generalize (a : Int) - b - f.p = e0 at *
  unfold chooseFrom
  simp only []
  by_cases hlow : e0 < f.eminSub
  · rw [if_pos hlow]
    obtain ⟨j, hj, hje⟩ : ∃ j : Nat, 1 ≤ j ∧ f.eminSub = e0 + j := ⟨(f.eminSub - e0).toNat, by omega, by omega⟩
    have h1 : LtS num den (2 ^ f.p) f.eminSub := by
      rw [hje, LtS_shift]
      refine LtS_mono H1 ?_
      rw [← Nat.pow_add]; exact Nat.pow_le_pow_right (by decide) (by omega)
    have h2 : ¬ (quotS num den f.eminSub).1 ≥ 2 ^ f.p := by
      have := (q_lt_iff hden f.eminSub _).2 h1; omega
    rw [if_neg h2, if_neg h2]
    exact ⟨Int.le_refl _, h1, Or.inl rfl⟩
  · rw [if_neg hlow]
    by_cases hbig : (quotS num den e0).1 ≥ 2 ^ f.p
    · rw [if_pos hbig]
      have h1 : LtS num den (2 ^ f.p) (e0 + 1) := by
        have := (LtS_shift num den (2 ^ f.p) e0 1).2 (by rw [← Nat.pow_succ]; exact H1)
        simpa using this
      have h2 : ¬ (quotS num den (e0 + 1)).1 ≥ 2 ^ f.p := by
        have := (q_lt_iff hden (e0 + 1) _).2 h1; omega
      rw [if_neg h2]
      refine ⟨by omega, h1, Or.inr ?_⟩
      have := (LeS_shift (2 ^ (f.p - 1)) e0 1 num den).2 (by
        rw [Nat.pow_one, two_pow_pred hp]; exact (le_q_iff hden e0 _).1 hbig)
      simpa using this
    · rw [if_neg hbig, if_neg hbig]
      exact ⟨by omega, (q_lt_iff hden e0 _).1 (by omega), Or.inr H2⟩

end FCL
end Rosu
