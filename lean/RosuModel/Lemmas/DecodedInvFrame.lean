/-
  Lemmas/DecodedInvFrame.lean — the `Decoded` invariant lifted from single parser calls to the framing driver
  (`frame`, through C05's fold structure) and through the finaliser to the `Beatmap`; and its relation to the
  representability predicates `Rt*.Rep*` that the round-trip / acceptance theorems assume.
-/
import RosuModel.Lemmas.DecodedInvSections
import RosuModel.Props.C05
namespace Rosu
namespace DecodedInv
open Rosu EncodeLines Scalar RtFile
set_option linter.unusedSectionVars false

/-! ### through the framing driver -/

theorem dropBlank_suffix (ls : List Str) : C05.dropBlank ls <:+ ls := by
  induction ls with
  | nil => exact List.suffix_refl _
  | cons l rest ih =>
    rw [C05.dropBlank]
    split
    · exact List.IsSuffix.trans ih (List.suffix_cons l rest)
    · exact List.suffix_refl _

theorem versionOf_range {l : Str} {v : Int} (h : C05.versionOf l = some v) : -i32Max ≤ v ∧ v ≤ i32Max := by
  unfold C05.versionOf at h
  split at h
  · exact i32Parse_range h
  · cases h

/-- a property of the decoder state that holds of every initial state with a version within the parse limit and is kept
by every parser call on a line satisfying `Q` holds after `decode`, when all lines satisfy `Q`. (Generalises
`RtTiming.frame_invariant`: the version handed to `create` is `14` or passed `i32::parse`, and the parsers only see the
reader's lines.) -/
theorem frame_invariant_lines {σ : Type} (D : LineDecoder σ) (I : σ → Prop) (Q : Str → Prop)
    (hc : ∀ v, -i32Max ≤ v ∧ v ≤ i32Max → I (D.create v))
    (hs : ∀ s st l, Q l → I st → I (D.step s st l)) (ls : List Str) (hQ : ∀ l ∈ ls, Q l) : I (frame D ls) := by
  have hfeed : ∀ (ls : List Str) (acc : Option Section × σ), (∀ l ∈ ls, Q l) → I acc.2 → I (C05.feedAll D acc ls).2 := by
    intro ls
    induction ls with
    | nil => intro acc _ h; exact h
    | cons l rest ih =>
      intro acc hq h
      rw [C05.feedAll_cons]
      apply ih _ (fun x hx => hq x (List.mem_cons_of_mem _ hx))
      unfold C05.feedStep
      split
      · exact h
      · split
        · exact h
        · split
          · exact hs _ _ _ (hq l List.mem_cons_self) h
          · exact h
  have hsub := dropBlank_suffix ls
  rw [C05.frame_eq_spec]
  unfold C05.spec
  split
  · exact hc _ (by decide)
  · rename_i l rest hd
    rw [hd] at hsub
    have hq' : ∀ x ∈ l :: rest, Q x := fun x hx => hQ x (hsub.subset hx)
    split
    · rename_i v hv
      exact hfeed _ _ (fun x hx => hq' x (List.mem_cons_of_mem _ hx)) (hc v (versionOf_range hv))
    · exact hfeed _ _ hq' (hc _ (by decide))

/-! ### the invariant of the `Beatmap` decoder state -/

section
variable {F P : Type} [Scalar F] [Scalar P] [Cvt P F]

/-- **`DecInv`** — the `Decoded` invariant of DESIGN 5.4 on the record part of the decoder state. -/
structure DecInvView (v : RecView F P) : Prop where
  version : -i32Max ≤ v.version ∧ v.version ≤ i32Max
  general : DecInvGeneral v.general
  editor : DecInvEditor v.editor
  metadata : RtMetadata.RepMetadata v.metadata
  difficulty : DecInvDifficulty v.difficulty.difficulty
  events : DecInvEvents v.events
  colors : RtColours.RepColors v.colors
  alpha : ColorsOpaque v.colors

def DecInv (st : BeatmapState F P) : Prop := DecInvView (recView st)

theorem decInv_create (C : ConstFacts F P) (v : Int) (hv : -i32Max ≤ v ∧ v ≤ i32Max) :
    DecInv (BeatmapState.create v : BeatmapState F P) :=
  ⟨hv, general_create C, editor_create C, metadata_create, difficulty_create C, events_create, colors_create, opaque_create⟩

/-- **every parser call of the `Beatmap` decoder keeps `DecInv`** — any section, any LF-free line, accepted or rejected. -/
theorem decInv_step (C : ConstFacts F P) (s : Section) (st : BeatmapState F P) (l : Str) (hl : '\n' ∉ l) (h : DecInv st) :
    DecInv (BeatmapState.step s st l) := by
  obtain ⟨hv, hg, he, hm, hd, hev, hc, ho⟩ := h
  cases s
  case general =>
    refine ⟨hv, ?_, he, hm, hd, hev, hc, ho⟩
    show DecInvGeneral (st.hitObjects.timingPoints.parseGeneral l).2.general
    rw [tpParseGeneral_general]
    exact inv_parseGeneral _ l hl hg
  case editor => exact ⟨hv, hg, inv_parseEditor _ l he, hm, hd, hev, hc, ho⟩
  case metadata => exact ⟨hv, hg, he, inv_parseMetadata _ l hl hm, hd, hev, hc, ho⟩
  case difficulty => exact ⟨hv, hg, he, hm, inv_parseDifficulty C _ l hd, hev, hc, ho⟩
  case events => exact ⟨hv, hg, he, hm, hd, inv_parseEvents _ l hl hev, hc, ho⟩
  case timingPoints =>
    refine ⟨hv, ?_, he, hm, hd, hev, hc, ho⟩
    show DecInvGeneral (parseTimingPoints st.hitObjects.timingPoints l).2.general
    rw [parseTimingPoints_general]
    exact hg
  case colors => exact ⟨hv, hg, he, hm, hd, hev, inv_parseColors _ l hl hc, opaque_parseColors _ l ho⟩
  case hitObjects => exact ⟨hv, hg, he, hm, hd, hev, hc, ho⟩
  case variables => exact ⟨hv, hg, he, hm, hd, hev, hc, ho⟩
  case catchTheBeat => exact ⟨hv, hg, he, hm, hd, hev, hc, ho⟩
  case mania => exact ⟨hv, hg, he, hm, hd, hev, hc, ho⟩

/-- **`DecInv` holds after framing any list of LF-free lines.** -/
theorem decInv_frame (C : ConstFacts F P) (ls : List Str) (hls : ∀ l ∈ ls, '\n' ∉ l) :
    DecInv (frame (beatmapDecoder : LineDecoder (BeatmapState F P)) ls) :=
  frame_invariant_lines (beatmapDecoder : LineDecoder (BeatmapState F P)) DecInv (fun l => '\n' ∉ l)
    (fun v hv => decInv_create C v hv) (fun s st l hl h => decInv_step C s st l hl h) ls hls

/-! ### through the finaliser -/

variable [Trig F] [Trig P]

/-- the invariant on the finished `Beatmap`. -/
structure DecInvMap (m : Beatmap F P) : Prop where
  version : -i32Max ≤ m.formatVersion ∧ m.formatVersion ≤ i32Max
  general : DecInvGeneral m.general
  editor : DecInvEditor m.editor
  metadata : RtMetadata.RepMetadata m.metadata
  difficulty : DecInvDifficulty m.difficulty
  events : DecInvEvents m.events
  colors : RtColours.RepColors m.colors
  alpha : ColorsOpaque m.colors

theorem decInv_finish (st : BeatmapState F P) (m : Beatmap F P) (h : DecInv st) (hf : st.finish = .ok m) : DecInvMap m := by
  obtain ⟨e1, e2, e3, e4, e5, e6, e7⟩ := finish_records st m hf
  exact ⟨by rw [e1]; exact h.version, by rw [e2]; exact h.general, by rw [e3]; exact h.editor, by rw [e4]; exact h.metadata,
    by rw [e5]; exact h.difficulty, by rw [e6]; exact h.events, by rw [e7]; exact h.colors, by rw [e7]; exact h.alpha⟩

end

/-! ### `DecInv` versus the representability predicates -/

section
variable {F P : Type} [Scalar F] [Scalar P] {RF : F → Prop} {RP : P → Prop}

/-- the codec represents every value within the parse limit (for IEEE floats: every such value is finite, and Rust's
shortest-round-trip `Display` / correctly rounded `FromStr` represent every finite value — a codec law, not provable
here; for the toy codec it is a theorem). -/
def LimitRep {α : Type} [Scalar α] (R : α → Prop) : Prop := ∀ x : α, InLimit x → R x

theorem ZC.limitRep : LimitRep ZC.Rep := by
  intro x hx
  have := (ZC.inLimit_iff x).mp hx
  unfold ZC.Rep i32Min
  unfold i32Max at this ⊢
  omega

/-- the float values of a map's record sections are representable by the codecs — the residual, law-side hypothesis. -/
structure FloatsRep (RF : F → Prop) (RP : P → Prop) (m : Beatmap F P) : Prop where
  stackLeniency : RP m.general.stackLeniency
  distanceSpacing : RF m.editor.distanceSpacing
  timelineZoom : RF m.editor.timelineZoom
  hp : RP m.difficulty.hpDrainRate
  cs : RP m.difficulty.circleSize
  od : RP m.difficulty.overallDifficulty
  ar : RP m.difficulty.approachRate
  sm : RF m.difficulty.sliderMultiplier
  tr : RF m.difficulty.sliderTickRate
  breaks : ∀ b ∈ m.events.breaks, RF b.startTime ∧ RF b.endTime

/-- under `LimitRep` every float of a decoded map's record sections is representable. -/
theorem floatsRep_of_limitRep (LRF : LimitRep RF) (LRP : LimitRep RP) (m : Beatmap F P) (h : DecInvMap m) : FloatsRep RF RP m :=
  ⟨LRP _ h.general.stackLeniency, LRF _ h.editor.distanceSpacing, LRF _ h.editor.timelineZoom, LRP _ h.difficulty.hp,
   LRP _ h.difficulty.cs, LRP _ h.difficulty.od, LRP _ h.difficulty.ar, LRF _ h.difficulty.sm, LRF _ h.difficulty.tr,
   fun b hb => ⟨LRF _ (h.events.breaks b hb).start, LRF _ (h.events.breaks b hb).stop⟩⟩

/-- the two clauses of `RepRecords` a decoded map can violate (finding F16): a file name containing `//`. -/
structure NoDoubleSlash (m : Beatmap F P) : Prop where
  audio : hasDS m.general.audioFile = false
  background : hasDS m.events.backgroundFile = false

theorem repGeneral_of_decInv (g : GeneralState F P) (h : DecInvGeneral g) (hr : RP g.stackLeniency) (hds : hasDS g.audioFile = false) :
    RtGeneral.RepGeneral RP g :=
  ⟨⟨h.audioTrimmed, h.audioNoLf, hds, h.audioNoBackslash⟩, h.audioLeadIn, h.previewTime, ⟨hr, h.stackLeniency⟩, h.countdownOffset.2⟩

theorem repEditor_of_decInv (e : Editor F) (h : DecInvEditor e) (h1 : RF e.distanceSpacing) (h2 : RF e.timelineZoom) :
    RtEditor.RepEditor RF e :=
  ⟨h.bookmarks, ⟨h1, h.distanceSpacing⟩, h.beatDivisor, h.gridSize, ⟨h2, h.timelineZoom⟩⟩

theorem repDifficulty_of_decInv (d : Difficulty F P) (h : DecInvDifficulty d) (r1 : RP d.hpDrainRate) (r2 : RP d.circleSize)
    (r3 : RP d.overallDifficulty) (r4 : RP d.approachRate) (r5 : RF d.sliderMultiplier) (r6 : RF d.sliderTickRate) :
    RtDifficulty.RepDifficulty RF RP d :=
  ⟨⟨r1, h.hp⟩, ⟨r2, h.cs⟩, ⟨r3, h.od⟩, ⟨r4, h.ar⟩, ⟨r5, h.sm⟩, h.smIn, ⟨r6, h.tr⟩, h.trIn⟩

theorem repEvents_of_decInv (e : Events F) (h : DecInvEvents e) (hr : ∀ b ∈ e.breaks, RF b.startTime ∧ RF b.endTime)
    (hds : hasDS e.backgroundFile = false) : RtEvents.RepEvents RF e :=
  ⟨Or.inr ⟨h.background.noComma, h.background.noLf, h.background.noBackslash, hds, h.background.head, h.background.last⟩,
   fun b hb => ⟨⟨(hr b hb).1, (h.breaks b hb).start⟩, ⟨(hr b hb).2, (h.breaks b hb).stop⟩, (h.breaks b hb).ordered⟩⟩

/-- **`DecInv` ⇒ `RepRecords`**, clause by clause: everything except (a) representability of the finite float values by
the codec and (b) the absence of `//` in the two file names follows from the decoder's construction. -/
theorem repRecords_of_decInv (m : Beatmap F P) (h : DecInvMap m) (hf : FloatsRep RF RP m) (hds : NoDoubleSlash m) :
    RepRecords RF RP m :=
  ⟨h.version, repGeneral_of_decInv _ h.general hf.stackLeniency hds.audio,
   repEditor_of_decInv _ h.editor hf.distanceSpacing hf.timelineZoom, h.metadata,
   repDifficulty_of_decInv _ h.difficulty hf.hp hf.cs hf.od hf.ar hf.sm hf.tr,
   repEvents_of_decInv _ h.events hf.breaks hds.background, h.colors⟩

end

end DecodedInv
end Rosu
