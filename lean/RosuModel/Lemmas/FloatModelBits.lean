/-
  Lemmas/FloatModelBits.lean — the pack / unpack theory of Lean core's logical model of `Float` / `Float32`
  (Init/Data/Float/Model/**; in Lean 4.33 `Float` is a structure over `Float.Model`, a `UInt64` whose NaN patterns are the
  canonical NaN, and `Float.ofBits`, `Float.toBits`, `Float.lt`, `Float.isNaN`, … are definitions that the kernel unfolds).
  Core ships three lemmas only (Pack/Lemmas.lean); everything else is proved here.

  * Nat-level views: `toNat_packComponents`, `toNat_unpackMantissa/Exponent/Sign`, and `unpack_eq_unpackNat`
    (`unpack spec b = unpackNat M E b.toNat`, a function of `b.toNat % 2^M`, `b.toNat / 2^M % 2^E`, `b.toNat / 2^(M+E)`);
  * `pack_unpack`: `pack spec (unpack spec b) = b` for every valid `b` (±∞, canonical NaN, ±0, subnormal, normal) of every
    format with at least two exponent bits; `unpack_pack_normal`, `unpack_pack_subnormal` for the other direction;
  * `float_ofBits_toBits : Float.ofBits x.toBits = x` for EVERY `x : Float` (NaN included: a model value only ever holds the
    canonical NaN), `float_not_nan_pattern`, `float_toBits_ofBits` (non-NaN patterns survive `ofBits`); the same for `Float32`.
-/
namespace Rosu.FM
open Float.Model Float.Model.UnpackedFloat

/-! ## Nat-level views of the fields -/

theorem sign_toNat_lt (s : Sign) : s.toBitVec.toNat < 2 := by cases s <;> decide

theorem toNat_packComponents (spec : Format) (s : Sign) (e : BitVec spec.exponentBits)
    (m : BitVec spec.mantissaBitsWithoutImplicit) :
    (packComponents spec s e m).toNat =
      s.toBitVec.toNat * 2 ^ (spec.exponentBits + spec.mantissaBitsWithoutImplicit) +
        e.toNat * 2 ^ spec.mantissaBitsWithoutImplicit + m.toNat := by
  unfold packComponents
  rw [BitVec.toNat_append, BitVec.toNat_append, ← Nat.shiftLeft_add_eq_or_of_lt e.isLt,
    ← Nat.shiftLeft_add_eq_or_of_lt m.isLt, Nat.shiftLeft_eq, Nat.shiftLeft_eq, Nat.add_mul, Nat.mul_assoc,
    ← Nat.pow_add]

variable {spec : Format}

theorem toNat_unpackMantissa (b : BitVec spec.numBits) :
    (unpackMantissa b).toNat = b.toNat % 2 ^ spec.mantissaBitsWithoutImplicit := by
  unfold unpackMantissa
  rw [BitVec.toNat_cast, BitVec.extractLsb_toNat, Nat.shiftRight_zero, Nat.sub_zero, Nat.sub_add_cancel spec.hm]

theorem toNat_unpackExponent (b : BitVec spec.numBits) :
    (unpackExponent b).toNat = b.toNat / 2 ^ spec.mantissaBitsWithoutImplicit % 2 ^ spec.exponentBits := by
  unfold unpackExponent
  rw [BitVec.toNat_cast, BitVec.extractLsb_toNat, Nat.shiftRight_eq_div_pow]
  congr 2
  have := spec.he
  omega

theorem toNat_unpackSign (b : BitVec spec.numBits) :
    (unpackSign b).toNat = b.toNat / 2 ^ (spec.mantissaBitsWithoutImplicit + spec.exponentBits) := by
  unfold unpackSign
  rw [BitVec.toNat_cast, BitVec.extractLsb_toNat, Nat.shiftRight_eq_div_pow, Nat.sub_self, Nat.zero_add, Nat.pow_one]
  apply Nat.mod_eq_of_lt
  apply Nat.div_lt_of_lt_mul
  have h : (2 : Nat) ^ spec.numBits = 2 ^ (spec.mantissaBitsWithoutImplicit + spec.exponentBits) * 2 := by
    rw [← Nat.pow_succ]; congr 1; unfold Format.numBits; omega
  exact h ▸ b.isLt

/-- a pattern is the sum of its three fields. -/
theorem fields_sum (M E n : Nat) :
    n = n / 2 ^ (M + E) * 2 ^ (E + M) + n / 2 ^ M % 2 ^ E * 2 ^ M + n % 2 ^ M := by
  have h1 := Nat.div_add_mod n (2 ^ M)
  have h2 := Nat.div_add_mod (n / 2 ^ M) (2 ^ E)
  rw [Nat.div_div_eq_div_mul, ← Nat.pow_add] at h2
  calc n = 2 ^ M * (n / 2 ^ M) + n % 2 ^ M := h1.symm
    _ = 2 ^ M * (2 ^ E * (n / 2 ^ (M + E)) + n / 2 ^ M % 2 ^ E) + n % 2 ^ M := by rw [h2]
    _ = _ := by
      rw [Nat.mul_add, ← Nat.mul_assoc, ← Nat.pow_add, Nat.mul_comm (2 ^ (M + E)), Nat.add_comm M E,
        Nat.mul_comm (2 ^ M)]

theorem packComponents_eq_of {s : Sign} {e : BitVec spec.exponentBits} {m : BitVec spec.mantissaBitsWithoutImplicit}
    {b : BitVec spec.numBits}
    (hs : s.toBitVec.toNat = b.toNat / 2 ^ (spec.mantissaBitsWithoutImplicit + spec.exponentBits))
    (he : e.toNat = b.toNat / 2 ^ spec.mantissaBitsWithoutImplicit % 2 ^ spec.exponentBits)
    (hm : m.toNat = b.toNat % 2 ^ spec.mantissaBitsWithoutImplicit) : packComponents spec s e m = b := by
  apply BitVec.eq_of_toNat_eq
  rw [toNat_packComponents, hs, he, hm]
  exact (fields_sum _ _ _).symm

/-! ## `unpack` as a function of the Nat pattern -/

/-- the sign of a pattern from its top field. -/
def signOf (t : Nat) : Sign := if t = 0 then .positive else .negative

/-- `unpack` on Nat patterns: `M` fraction bits, `E` exponent bits. -/
def unpackNat (M E : Nat) (n : Nat) : UnpackedFloat :=
  if n / 2 ^ M % 2 ^ E = 2 ^ E - 1 then
    if n % 2 ^ M = 0 then .infinity (signOf (n / 2 ^ (M + E))) else .notANumber
  else if n / 2 ^ M % 2 ^ E = 0 then
    if h : n % 2 ^ M = 0 then .zero (signOf (n / 2 ^ (M + E)))
    else .finite (signOf (n / 2 ^ (M + E))) (n % 2 ^ M)
      (((n / 2 ^ M % 2 ^ E : Nat) : Int) - (((2 ^ (E - 1) - 1 : Nat) : Int) + (M : Int)) + 1) (Nat.pos_of_ne_zero h)
  else
    .finite (signOf (n / 2 ^ (M + E))) (2 ^ M + n % 2 ^ M)
      (((n / 2 ^ M % 2 ^ E : Nat) : Int) - (((2 ^ (E - 1) - 1 : Nat) : Int) + (M : Int)))
      (Nat.add_pos_left (Nat.pow_pos (by decide)) _)

theorem bv_eq_negOne_iff {w : Nat} (x : BitVec w) : x = -1#w ↔ x.toNat = 2 ^ w - 1 := by
  rw [BitVec.neg_one_eq_allOnes, ← BitVec.toNat_inj, BitVec.toNat_allOnes]

theorem bv_eq_zero_iff {w : Nat} (x : BitVec w) : x = 0#w ↔ x.toNat = 0 := by
  rw [← BitVec.toNat_inj, BitVec.toNat_zero]

theorem sign_ofBitVec (x : BitVec 1) : Sign.ofBitVec x = signOf x.toNat := by
  unfold Sign.ofBitVec signOf
  simp only [bv_eq_zero_iff]

theorem toNat_one_append {w : Nat} (x : BitVec w) : (1#1 ++ x).toNat = 2 ^ w + x.toNat := by
  rw [BitVec.toNat_append, ← Nat.shiftLeft_add_eq_or_of_lt x.isLt, Nat.shiftLeft_eq]
  simp

theorem unpack_eq_unpackNat (b : BitVec spec.numBits) :
    UnpackedFloat.unpack spec b = unpackNat spec.mantissaBitsWithoutImplicit spec.exponentBits b.toNat := by
  unfold UnpackedFloat.unpack unpackNat
  simp only [bv_eq_negOne_iff, bv_eq_zero_iff, sign_ofBitVec, toNat_one_append, toNat_unpackMantissa,
    toNat_unpackExponent, toNat_unpackSign, Format.exponentBias]

/-! ## `pack ∘ unpack` -/

theorem top_lt_two (b : BitVec spec.numBits) :
    b.toNat / 2 ^ (spec.mantissaBitsWithoutImplicit + spec.exponentBits) < 2 := by
  apply Nat.div_lt_of_lt_mul
  have h : (2 : Nat) ^ spec.numBits = 2 ^ (spec.mantissaBitsWithoutImplicit + spec.exponentBits) * 2 := by
    rw [← Nat.pow_succ]; congr 1; unfold Format.numBits; omega
  exact h ▸ b.isLt

theorem signOf_toNat {t : Nat} (h : t < 2) : (signOf t).toBitVec.toNat = t := by
  unfold signOf
  split
  · subst t; rfl
  · have : t = 1 := by omega
    subst t; rfl

theorem pack_finite (spec : Format) (s : Sign) (m : Nat) (e : Int) (hm : 0 < m) :
    pack spec (.finite s m e hm) =
      if 2 ^ spec.exponentBits ≤
          (e + (spec.exponentBias : Int) + (spec.mantissaBitsWithoutImplicit : Int)).toNat + 1 then
        packedInfinity spec s
      else if m.log2 + 1 = spec.mantissaBits then
        packComponents spec s
          (BitVec.ofNat _ (e + (spec.exponentBias : Int) + (spec.mantissaBitsWithoutImplicit : Int)).toNat)
          (BitVec.ofNat _ m)
      else packComponents spec s 0#_ (BitVec.ofNat _ m) := rfl

theorem four_le_pow {E : Nat} (hE : 2 ≤ E) : 4 ≤ 2 ^ E :=
  Nat.pow_le_pow_right (by decide : 0 < 2) hE

theorem toNat_negOne (w : Nat) : (-1#w).toNat = 2 ^ w - 1 := by
  rw [BitVec.neg_one_eq_allOnes, BitVec.toNat_allOnes]

/-- **`pack ∘ unpack` is the identity on valid patterns** (every class), for every format with ≥ 2 exponent bits. -/
theorem pack_unpack (hE : 2 ≤ spec.exponentBits) (b : BitVec spec.numBits) (hv : spec.Valid b) :
    pack spec (UnpackedFloat.unpack spec b) = b := by
  rw [unpack_eq_unpackNat]
  unfold unpackNat
  have hfr : b.toNat % 2 ^ spec.mantissaBitsWithoutImplicit < 2 ^ spec.mantissaBitsWithoutImplicit :=
    Nat.mod_lt _ (Nat.pow_pos (by decide))
  have hef : b.toNat / 2 ^ spec.mantissaBitsWithoutImplicit % 2 ^ spec.exponentBits < 2 ^ spec.exponentBits :=
    Nat.mod_lt _ (Nat.pow_pos (by decide))
  have hs := signOf_toNat (top_lt_two b)
  have h4 := four_le_pow hE
  split
  · rename_i he
    split
    · rename_i hm
      exact packComponents_eq_of hs (by rw [toNat_negOne, he]) (by rw [hm]; rfl)
    · rename_i hm
      refine (hv.eq_packedNaN ?_ ?_).symm
      · rw [bv_eq_negOne_iff, toNat_unpackExponent, he]
      · rw [Ne, bv_eq_zero_iff, toNat_unpackMantissa]; exact hm
  · rename_i he
    split
    · rename_i he0
      split
      · rename_i hm
        exact packComponents_eq_of hs (by rw [he0]; rfl) (by rw [hm]; rfl)
      · rename_i hm
        rw [pack_finite, if_neg, if_neg]
        · exact packComponents_eq_of hs (by rw [he0]; rfl)
            (by rw [BitVec.toNat_ofNat, Nat.mod_eq_of_lt hfr])
        · unfold Format.mantissaBits
          have := (Nat.log2_lt hm).mpr hfr
          omega
        · unfold Format.exponentBias
          omega
    · rename_i he0
      rw [pack_finite, if_neg, if_pos]
      · refine packComponents_eq_of hs ?_ ?_
        · rw [BitVec.toNat_ofNat]
          unfold Format.exponentBias
          rw [show ((b.toNat / 2 ^ spec.mantissaBitsWithoutImplicit % 2 ^ spec.exponentBits : Nat) : Int) -
            (((2 ^ (spec.exponentBits - 1) - 1 : Nat) : Int) + (spec.mantissaBitsWithoutImplicit : Int)) +
            ((2 ^ (spec.exponentBits - 1) - 1 : Nat) : Int) + (spec.mantissaBitsWithoutImplicit : Int) =
            ((b.toNat / 2 ^ spec.mantissaBitsWithoutImplicit % 2 ^ spec.exponentBits : Nat) : Int) by omega,
            Int.toNat_natCast, Nat.mod_mod]
        · rw [BitVec.toNat_ofNat, Nat.add_mod_left, Nat.mod_eq_of_lt hfr]
      · unfold Format.mantissaBits
        have : (2 ^ spec.mantissaBitsWithoutImplicit + b.toNat % 2 ^ spec.mantissaBitsWithoutImplicit).log2 =
            spec.mantissaBitsWithoutImplicit := by
          rw [Nat.log2_eq_iff (by omega)]
          rw [Nat.pow_succ]
          omega
        omega
      · unfold Format.exponentBias
        omega

/-! ## `unpack ∘ pack` on canonical floats -/

/-- the three fields of a sum of fields. -/
theorem fields_of_sum {M E t ef fr : Nat} (hef : ef < 2 ^ E) (hfr : fr < 2 ^ M) :
    (t * 2 ^ (E + M) + ef * 2 ^ M + fr) % 2 ^ M = fr ∧
    (t * 2 ^ (E + M) + ef * 2 ^ M + fr) / 2 ^ M % 2 ^ E = ef ∧
    (t * 2 ^ (E + M) + ef * 2 ^ M + fr) / 2 ^ (M + E) = t := by
  have hM : 0 < 2 ^ M := Nat.pow_pos (by decide)
  have hEp : 0 < 2 ^ E := Nat.pow_pos (by decide)
  have h0 : t * 2 ^ (E + M) + ef * 2 ^ M + fr = 2 ^ M * (2 ^ E * t + ef) + fr := by
    rw [Nat.mul_add, ← Nat.mul_assoc, ← Nat.pow_add, Nat.mul_comm (2 ^ (M + E)), Nat.add_comm M E,
      Nat.mul_comm (2 ^ M) ef]
  have h1 : (t * 2 ^ (E + M) + ef * 2 ^ M + fr) / 2 ^ M = 2 ^ E * t + ef := by
    rw [h0, Nat.mul_add_div hM, Nat.div_eq_of_lt hfr, Nat.add_zero]
  refine ⟨?_, ?_, ?_⟩
  · rw [h0, Nat.mul_add_mod, Nat.mod_eq_of_lt hfr]
  · rw [h1, Nat.mul_add_mod, Nat.mod_eq_of_lt hef]
  · rw [show (2 : Nat) ^ (M + E) = 2 ^ M * 2 ^ E from Nat.pow_add .., ← Nat.div_div_eq_div_mul, h1,
      Nat.mul_add_div hEp, Nat.div_eq_of_lt hef, Nat.add_zero]

theorem signOf_sign (s : Sign) : signOf s.toBitVec.toNat = s := by cases s <;> rfl

theorem unpackNat_sum_normal {M E : Nat} (s : Sign) {ef fr : Nat} (hef : ef < 2 ^ E - 1) (hef0 : 0 < ef)
    (hfr : fr < 2 ^ M) :
    unpackNat M E (s.toBitVec.toNat * 2 ^ (E + M) + ef * 2 ^ M + fr) =
      .finite s (2 ^ M + fr) ((ef : Int) - (((2 ^ (E - 1) - 1 : Nat) : Int) + (M : Int)))
        (Nat.add_pos_left (Nat.pow_pos (by decide)) _) := by
  obtain ⟨h1, h2, h3⟩ := fields_of_sum (t := s.toBitVec.toNat) (show ef < 2 ^ E by omega) hfr
  unfold unpackNat
  simp only [h1, h2, h3, signOf_sign]
  rw [if_neg (by omega), if_neg (by omega)]

theorem unpackNat_sum_subnormal {M E : Nat} (s : Sign) {fr : Nat} (hE : 2 ≤ E) (hfr : fr < 2 ^ M) (hfr0 : 0 < fr) :
    unpackNat M E (s.toBitVec.toNat * 2 ^ (E + M) + 0 * 2 ^ M + fr) =
      .finite s fr (1 - (((2 ^ (E - 1) - 1 : Nat) : Int) + (M : Int))) hfr0 := by
  have h4 := four_le_pow hE
  obtain ⟨h1, h2, h3⟩ := fields_of_sum (t := s.toBitVec.toNat) (show 0 < 2 ^ E by omega) hfr
  unfold unpackNat
  simp only [h1, h2, h3, signOf_sign]
  rw [if_neg (by omega), if_pos trivial, dif_neg (by omega)]
  congr 1
  omega

/-- a canonical normal float survives `pack` then `unpack`. -/
theorem unpack_pack_normal (hE : 2 ≤ spec.exponentBits) (s : Sign) (m : Nat) (e : Int) (hm : 0 < m)
    (h1 : 2 ^ spec.mantissaBitsWithoutImplicit ≤ m) (h2 : m < 2 ^ (spec.mantissaBitsWithoutImplicit + 1))
    (h3 : 0 < e + (spec.exponentBias : Int) + (spec.mantissaBitsWithoutImplicit : Int))
    (h4 : e + (spec.exponentBias : Int) + (spec.mantissaBitsWithoutImplicit : Int) <
      ((2 ^ spec.exponentBits - 1 : Nat) : Int)) :
    UnpackedFloat.unpack spec (pack spec (.finite s m e hm)) = .finite s m e hm := by
  have h4' := four_le_pow hE
  rw [Nat.pow_succ] at h2
  rw [pack_finite, if_neg (by omega), if_pos, unpack_eq_unpackNat, toNat_packComponents, BitVec.toNat_ofNat,
    BitVec.toNat_ofNat, Nat.mod_eq_of_lt (a := Int.toNat _) (by omega),
    unpackNat_sum_normal s (by omega) (by omega) (Nat.mod_lt _ (Nat.pow_pos (by decide)))]
  · congr 1
    · have := Nat.div_add_mod m (2 ^ spec.mantissaBitsWithoutImplicit)
      have hq : m / 2 ^ spec.mantissaBitsWithoutImplicit = 1 := by
        apply Nat.div_eq_of_lt_le <;> omega
      rw [hq] at this
      omega
    · unfold Format.exponentBias at *
      omega
  · unfold Format.mantissaBits
    have : m.log2 = spec.mantissaBitsWithoutImplicit := by
      rw [Nat.log2_eq_iff (by omega), Nat.pow_succ]
      omega
    omega

/-- a canonical subnormal float survives `pack` then `unpack`. -/
theorem unpack_pack_subnormal (hE : 2 ≤ spec.exponentBits) (s : Sign) (m : Nat) (e : Int) (hm : 0 < m)
    (h1 : m < 2 ^ spec.mantissaBitsWithoutImplicit)
    (h2 : e = 1 - ((spec.exponentBias : Int) + (spec.mantissaBitsWithoutImplicit : Int))) :
    UnpackedFloat.unpack spec (pack spec (.finite s m e hm)) = .finite s m e hm := by
  have h4' := four_le_pow hE
  subst h2
  rw [pack_finite, if_neg (by omega), if_neg, unpack_eq_unpackNat, toNat_packComponents, BitVec.toNat_ofNat,
    BitVec.toNat_ofNat, Nat.zero_mod, Nat.mod_eq_of_lt h1, unpackNat_sum_subnormal s hE h1 hm]
  · rfl
  · unfold Format.mantissaBits
    have := (Nat.log2_lt (by omega : m ≠ 0)).mpr h1
    omega

theorem unpack_pack_zero (hE : 2 ≤ spec.exponentBits) (s : Sign) :
    UnpackedFloat.unpack spec (pack spec (.zero s)) = .zero s := by
  have h4' := four_le_pow hE
  show UnpackedFloat.unpack spec (packComponents spec s 0 0) = _
  rw [unpack_eq_unpackNat, toNat_packComponents]
  obtain ⟨h1, h2, h3⟩ := fields_of_sum (M := spec.mantissaBitsWithoutImplicit) (E := spec.exponentBits)
    (t := s.toBitVec.toNat) (ef := 0) (fr := 0) (by omega) (Nat.pow_pos (by decide))
  unfold unpackNat
  rw [show (0 : BitVec spec.exponentBits).toNat = 0 from rfl,
    show (0 : BitVec spec.mantissaBitsWithoutImplicit).toNat = 0 from rfl]
  simp only [h1, h2, h3, signOf_sign]
  rw [if_neg (by omega), if_pos trivial, dif_pos trivial]

theorem unpack_pack_infinity (s : Sign) :
    UnpackedFloat.unpack spec (pack spec (.infinity s)) = .infinity s := by
  show UnpackedFloat.unpack spec (packComponents spec s (-1#_) 0) = _
  rw [unpack_eq_unpackNat, toNat_packComponents, toNat_negOne]
  obtain ⟨h1, h2, h3⟩ := fields_of_sum (M := spec.mantissaBitsWithoutImplicit) (E := spec.exponentBits)
    (t := s.toBitVec.toNat) (ef := 2 ^ spec.exponentBits - 1) (fr := 0)
    (by have : 0 < 2 ^ spec.exponentBits := Nat.pow_pos (by decide); omega) (Nat.pow_pos (by decide))
  unfold unpackNat
  rw [show (0 : BitVec spec.mantissaBitsWithoutImplicit).toNat = 0 from rfl]
  simp only [h1, h2, h3, signOf_sign]
  rw [if_pos trivial, if_pos trivial]

/-! ## NaN patterns -/

theorem unpackNat_isNaN (M E n : Nat) :
    (unpackNat M E n).isNaN = true ↔ (n / 2 ^ M % 2 ^ E = 2 ^ E - 1 ∧ n % 2 ^ M ≠ 0) := by
  unfold unpackNat
  split
  · rename_i he
    split
    · rename_i hm; simp [UnpackedFloat.isNaN, hm]
    · rename_i hm; simp [UnpackedFloat.isNaN, hm, he]
  · rename_i he
    split
    · split <;> simp [UnpackedFloat.isNaN, he]
    · simp [UnpackedFloat.isNaN, he]

/-- a pattern that does not encode a NaN is valid. -/
theorem valid_of_not_nan (b : BitVec spec.numBits)
    (h : ¬ (b.toNat / 2 ^ spec.mantissaBitsWithoutImplicit % 2 ^ spec.exponentBits = 2 ^ spec.exponentBits - 1 ∧
      b.toNat % 2 ^ spec.mantissaBitsWithoutImplicit ≠ 0)) : spec.Valid b := by
  refine ⟨fun he hm => absurd ⟨?_, ?_⟩ h⟩
  · rw [← toNat_unpackExponent, he, toNat_negOne]
  · rw [← toNat_unpackMantissa]
    intro h0
    exact hm ((bv_eq_zero_iff _).mpr h0)

/-! ## `Float` (binary64) -/

theorem float_unpack (x : Float) : x.toModel.unpack = unpackNat 52 11 x.toBits.toNat :=
  unpack_eq_unpackNat (spec := Format.binary64) x.toModel.toBits.toBitVec

/-- **`ofBits ∘ toBits` is the identity on every `Float`** (NaN included: a model value only holds the canonical NaN). -/
theorem float_ofBits_toBits (x : Float) : Float.ofBits x.toBits = x := by
  obtain ⟨⟨bits, valid⟩⟩ := x
  show Float.ofModel ⟨UInt64.ofBitVec (pack Format.binary64 (UnpackedFloat.unpack Format.binary64 bits.toBitVec)), _⟩ = _
  congr 2
  rw [pack_unpack (by decide) _ valid]

theorem float_isNaN_iff (x : Float) :
    x.isNaN = true ↔ (x.toBits.toNat / 2 ^ 52 % 2 ^ 11 = 2047 ∧ x.toBits.toNat % 2 ^ 52 ≠ 0) := by
  show x.toModel.unpack.isNaN = true ↔ _
  rw [float_unpack, unpackNat_isNaN]

/-- a non-NaN `Float` does not have a NaN pattern (in the sense of Model/FloatCodec.lean: magnitude above `infBits`). -/
theorem float_not_nan_pattern (x : Float) (h : x.isNaN = false) :
    x.toBits.toNat % 2 ^ 63 ≤ 0x7FF0000000000000 := by
  have : ¬ _ := fun hc => absurd ((float_isNaN_iff x).mpr hc) (by rw [h]; decide)
  have hlt := x.toBits.toNat_lt
  simp only [Nat.reducePow] at *
  omega

/-- and conversely. -/
theorem float_isNaN_of_pattern (x : Float) (h : x.isNaN = true) : 0x7FF0000000000000 < x.toBits.toNat % 2 ^ 63 := by
  have := (float_isNaN_iff x).mp h
  simp only [Nat.reducePow] at *
  omega

/-- **non-NaN patterns survive `ofBits`.** -/
theorem float_toBits_ofBits (u : UInt64) (h : u.toNat % 2 ^ 63 ≤ 0x7FF0000000000000) : (Float.ofBits u).toBits = u := by
  show UInt64.ofBitVec (pack Format.binary64 (UnpackedFloat.unpack Format.binary64 u.toBitVec)) = u
  rw [pack_unpack (by decide)]
  apply valid_of_not_nan
  show ¬ (u.toNat / 2 ^ 52 % 2 ^ 11 = 2 ^ 11 - 1 ∧ u.toNat % 2 ^ 52 ≠ 0)
  simp only [Nat.reducePow] at *
  omega

theorem float_toBits_ofBits_nat (b : Nat) (hb : b < 2 ^ 64) (h : b % 2 ^ 63 ≤ 0x7FF0000000000000) :
    (Float.ofBits (UInt64.ofNat b)).toBits.toNat = b := by
  have h1 : (UInt64.ofNat b).toNat = b := by
    rw [UInt64.toNat_ofNat']; exact Nat.mod_eq_of_lt hb
  rw [float_toBits_ofBits _ (by rw [h1]; exact h), h1]

/-- the `unpack` of `ofBits` of a non-NaN pattern. -/
theorem float_unpack_ofBits (u : UInt64) (h : u.toNat % 2 ^ 63 ≤ 0x7FF0000000000000) :
    (Float.ofBits u).toModel.unpack = unpackNat 52 11 u.toNat := by
  rw [float_unpack, float_toBits_ofBits u h]

/-! ## `Float32` (binary32) -/

theorem float32_unpack (x : Float32) : x.toModel.unpack = unpackNat 23 8 x.toBits.toNat :=
  unpack_eq_unpackNat (spec := Format.binary32) x.toModel.toBits.toBitVec

/-- **`ofBits ∘ toBits` is the identity on every `Float32`.** -/
theorem float32_ofBits_toBits (x : Float32) : Float32.ofBits x.toBits = x := by
  obtain ⟨⟨bits, valid⟩⟩ := x
  show Float32.ofModel ⟨UInt32.ofBitVec (pack Format.binary32 (UnpackedFloat.unpack Format.binary32 bits.toBitVec)), _⟩ = _
  congr 2
  rw [pack_unpack (by decide) _ valid]

theorem float32_isNaN_iff (x : Float32) :
    x.isNaN = true ↔ (x.toBits.toNat / 2 ^ 23 % 2 ^ 8 = 255 ∧ x.toBits.toNat % 2 ^ 23 ≠ 0) := by
  show x.toModel.unpack.isNaN = true ↔ _
  rw [float32_unpack, unpackNat_isNaN]

theorem float32_not_nan_pattern (x : Float32) (h : x.isNaN = false) : x.toBits.toNat % 2 ^ 31 ≤ 0x7F800000 := by
  have : ¬ _ := fun hc => absurd ((float32_isNaN_iff x).mpr hc) (by rw [h]; decide)
  have hlt := x.toBits.toNat_lt
  simp only [Nat.reducePow] at *
  omega

theorem float32_isNaN_of_pattern (x : Float32) (h : x.isNaN = true) : 0x7F800000 < x.toBits.toNat % 2 ^ 31 := by
  have := (float32_isNaN_iff x).mp h
  simp only [Nat.reducePow] at *
  omega

theorem float32_toBits_ofBits (u : UInt32) (h : u.toNat % 2 ^ 31 ≤ 0x7F800000) : (Float32.ofBits u).toBits = u := by
  show UInt32.ofBitVec (pack Format.binary32 (UnpackedFloat.unpack Format.binary32 u.toBitVec)) = u
  rw [pack_unpack (by decide)]
  apply valid_of_not_nan
  show ¬ (u.toNat / 2 ^ 23 % 2 ^ 8 = 2 ^ 8 - 1 ∧ u.toNat % 2 ^ 23 ≠ 0)
  simp only [Nat.reducePow] at *
  omega

theorem float32_toBits_ofBits_nat (b : Nat) (hb : b < 2 ^ 32) (h : b % 2 ^ 31 ≤ 0x7F800000) :
    (Float32.ofBits (UInt32.ofNat b)).toBits.toNat = b := by
  have h1 : (UInt32.ofNat b).toNat = b := by
    rw [UInt32.toNat_ofNat']; exact Nat.mod_eq_of_lt hb
  rw [float32_toBits_ofBits _ (by rw [h1]; exact h), h1]

theorem float32_unpack_ofBits (u : UInt32) (h : u.toNat % 2 ^ 31 ≤ 0x7F800000) :
    (Float32.ofBits u).toModel.unpack = unpackNat 23 8 u.toNat := by
  rw [float32_unpack, float32_toBits_ofBits u h]

end Rosu.FM
