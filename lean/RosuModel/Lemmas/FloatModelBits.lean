/-
  Lemmas/FloatModelBits.lean — the pack / unpack theory of Lean core's logical model of `Float` / `Float32`
  (Init/Data/Float/Model/**; in Lean 4.33 `Float` is a structure over `Float.Model`, a `UInt64` whose NaN patterns are the
  canonical NaN, and `Float.ofBits`, `Float.toBits`, `Float.lt`, `Float.isNaN`, … are definitions that the kernel unfolds).
  Core ships three lemmas only (Pack/Lemmas.lean); everything else is proved here.

  * Nat-level views: `toNat_packComponents`, `toNat_unpackMantissa/Exponent/Sign`, and `unpack_eq_unpackNat`
    (`unpack spec b = unpackNat M E b.toNat`, a function of `b.toNat % 2^M`, `b.toNat / 2^M % 2^E`, `b.toNat / 2^(M+E)`);
  * `pack_unpack`: `pack spec (unpack spec b) = b` for every valid `b` (±∞, canonical NaN, ±0, subnormal, normal) of every
    format with at least two exponent bits; `unpack_pack_normal`, `unpack_pack_subnormal` for the other direction;
  * `float_ofBits_toBits : Float.ofBits x.toBits = x` for EVERY `x : Float` (NaN included: a model value only ever holds the
    canonical NaN), `float_not_nan_pattern`, `float_toBits_ofBits` (non-NaN patterns survive `ofBits`); the same for `Float32`.
-/
namespace Rosu.FM
open Float.Model Float.Model.UnpackedFloat

/-! ## Nat-level views of the fields -/

theorem sign_toNat_lt (s : Sign) : s.toBitVec.toNat < 2 := by cases s <;> decide

theorem toNat_packComponents (spec : Format) (s : Sign) (e : BitVec spec.exponentBits)
    (m : BitVec spec.mantissaBitsWithoutImplicit) :
    (packComponents spec s e m).toNat =
      s.toBitVec.toNat * 2 ^ (spec.exponentBits + spec.mantissaBitsWithoutImplicit) +
        e.toNat * 2 ^ spec.mantissaBitsWithoutImplicit + m.toNat := by
  unfold packComponents
  rw [BitVec.toNat_append, BitVec.toNat_append, ← Nat.shiftLeft_add_eq_or_of_lt e.isLt,
    ← Nat.shiftLeft_add_eq_or_of_lt m.isLt, Nat.shiftLeft_eq, Nat.shiftLeft_eq, Nat.add_mul, Nat.mul_assoc,
    ← Nat.pow_add]

variable {spec : Format}

theorem toNat_unpackMantissa (b : BitVec spec.numBits) :
    (unpackMantissa b).toNat = b.toNat % 2 ^ spec.mantissaBitsWithoutImplicit := by
  unfold unpackMantissa
  rw [BitVec.toNat_cast, BitVec.extractLsb_toNat, Nat.shiftRight_zero, Nat.sub_zero, Nat.sub_add_cancel spec.hm]

theorem toNat_unpackExponent (b : BitVec spec.numBits) :
    (unpackExponent b).toNat = b.toNat / 2 ^ spec.mantissaBitsWithoutImplicit % 2 ^ spec.exponentBits := by
  unfold unpackExponent
  rw [BitVec.toNat_cast, BitVec.extractLsb_toNat, Nat.shiftRight_eq_div_pow]
  congr 2
  have := spec.he
  omega

theorem toNat_unpackSign (b : BitVec spec.numBits) :
    (unpackSign b).toNat = b.toNat / 2 ^ (spec.mantissaBitsWithoutImplicit + spec.exponentBits) := by
  unfold unpackSign
  rw [BitVec.toNat_cast, BitVec.extractLsb_toNat, Nat.shiftRight_eq_div_pow, Nat.sub_self, Nat.zero_add, Nat.pow_one]
  apply Nat.mod_eq_of_lt
  apply Nat.div_lt_of_lt_mul
  have h : (2 : Nat) ^ spec.numBits = 2 ^ (spec.mantissaBitsWithoutImplicit + spec.exponentBits) * 2 := by
    rw [← Nat.pow_succ]; congr 1; unfold Format.numBits; omega
  exact h ▸ b.isLt

/-- a pattern is the sum of its three fields. -/
theorem fields_sum (M E n : Nat) :
    n = n / 2 ^ (M + E) * 2 ^ (E + M) + n / 2 ^ M % 2 ^ E * 2 ^ M + n % 2 ^ M := by
  have h1 := Nat.div_add_mod n (2 ^ M)
  have h2 := Nat.div_add_mod (n / 2 ^ M) (2 ^ E)
  rw [Nat.div_div_eq_div_mul, ← Nat.pow_add] at h2
  calc n = 2 ^ M * (n / 2 ^ M) + n % 2 ^ M := h1.symm
    _ = 2 ^ M * (2 ^ E * (n / 2 ^ (M + E)) + n / 2 ^ M % 2 ^ E) + n % 2 ^ M := by rw [h2]
    _ = _ := by
      rw [Nat.mul_add, ← Nat.mul_assoc, ← Nat.pow_add, Nat.mul_comm (2 ^ (M + E)), Nat.add_comm M E,
        Nat.mul_comm (2 ^ M)]

theorem packComponents_eq_of {s : Sign} {e : BitVec spec.exponentBits} {m : BitVec spec.mantissaBitsWithoutImplicit}
    {b : BitVec spec.numBits}
    (hs : s.toBitVec.toNat = b.toNat / 2 ^ (spec.mantissaBitsWithoutImplicit + spec.exponentBits))
    (he : e.toNat = b.toNat / 2 ^ spec.mantissaBitsWithoutImplicit % 2 ^ spec.exponentBits)
    (hm : m.toNat = b.toNat % 2 ^ spec.mantissaBitsWithoutImplicit) : packComponents spec s e m = b := by
  apply BitVec.eq_of_toNat_eq
  rw [toNat_packComponents, hs, he, hm]
  exact (fields_sum _ _ _).symm

/-! ## `unpack` as a function of the Nat pattern -/

/-- the sign of a pattern from its top field. -/
def signOf (t : Nat) : Sign := if t = 0 then .positive else .negative

/-- `unpack` on Nat patterns: `M` fraction bits, `E` exponent bits. -/
def unpackNat (M E : Nat) (n : Nat) : UnpackedFloat :=
  if n / 2 ^ M % 2 ^ E = 2 ^ E - 1 then
    if n % 2 ^ M = 0 then .infinity (signOf (n / 2 ^ (M + E))) else .notANumber
  else if n / 2 ^ M % 2 ^ E = 0 then
    if h : n % 2 ^ M = 0 then .zero (signOf (n / 2 ^ (M + E)))
    else .finite (signOf (n / 2 ^ (M + E))) (n % 2 ^ M)
      (((n / 2 ^ M % 2 ^ E : Nat) : Int) - (((2 ^ (E - 1) - 1 : Nat) : Int) + (M : Int)) + 1) (Nat.pos_of_ne_zero h)
  else
    .finite (signOf (n / 2 ^ (M + E))) (2 ^ M + n % 2 ^ M)
      (((n / 2 ^ M % 2 ^ E : Nat) : Int) - (((2 ^ (E - 1) - 1 : Nat) : Int) + (M : Int)))
      (Nat.add_pos_left (Nat.pow_pos (by decide)) _)

theorem bv_eq_negOne_iff {w : Nat} (x : BitVec w) : x = -1#w ↔ x.toNat = 2 ^ w - 1 := by
  rw [BitVec.neg_one_eq_allOnes, ← BitVec.toNat_inj, BitVec.toNat_allOnes]

theorem bv_eq_zero_iff {w : Nat} (x : BitVec w) : x = 0#w ↔ x.toNat = 0 := by
  rw [← BitVec.toNat_inj, BitVec.toNat_zero]

theorem sign_ofBitVec (x : BitVec 1) : Sign.ofBitVec x = signOf x.toNat := by
  unfold Sign.ofBitVec signOf
  simp only [bv_eq_zero_iff]

theorem toNat_one_append {w : Nat} (x : BitVec w) : (1#1 ++ x).toNat = 2 ^ w + x.toNat := by
  rw [BitVec.toNat_append, ← Nat.shiftLeft_add_eq_or_of_lt x.isLt, Nat.shiftLeft_eq]
  simp

theorem unpack_eq_unpackNat (b : BitVec spec.numBits) :
    UnpackedFloat.unpack spec b = unpackNat spec.mantissaBitsWithoutImplicit spec.exponentBits b.toNat := by
  unfold UnpackedFloat.unpack unpackNat
  simp only [bv_eq_negOne_iff, bv_eq_zero_iff, sign_ofBitVec, toNat_one_append, toNat_unpackMantissa,
    toNat_unpackExponent, toNat_unpackSign, Format.exponentBias]

/-! ## `pack ∘ unpack` -/

theorem top_lt_two (b : BitVec spec.numBits) :
    b.toNat / 2 ^ (spec.mantissaBitsWithoutImplicit + spec.exponentBits) < 2 := by
  apply Nat.div_lt_of_lt_mul
  have h : (2 : Nat) ^ spec.numBits = 2 ^ (spec.mantissaBitsWithoutImplicit + spec.exponentBits) * 2 := by
    rw [← Nat.pow_succ]; congr 1; unfold Format.numBits; omega
  exact h ▸ b.isLt

theorem signOf_toNat {t : Nat} (h : t < 2) : (signOf t).toBitVec.toNat = t := by
  unfold signOf
  split
  · subst t; rfl
  · have : t = 1 := by omega
    subst t; rfl

theorem pack_finite (spec : Format) (s : Sign) (m : Nat) (e : Int) (hm : 0 < m) :
    pack spec (.finite s m e hm) =
      if 2 ^ spec.exponentBits ≤
          (e + (spec.exponentBias : Int) + (spec.mantissaBitsWithoutImplicit : Int)).toNat + 1 then
        packedInfinity spec s
      else if m.log2 + 1 = spec.mantissaBits then
        packComponents spec s
          (BitVec.ofNat _ (e + (spec.exponentBias : Int) + (spec.mantissaBitsWithoutImplicit : Int)).toNat)
          (BitVec.ofNat _ m)
      else packComponents spec s 0#_ (BitVec.ofNat _ m) := rfl

theorem four_le_pow {E : Nat} (hE : 2 ≤ E) : 4 ≤ 2 ^ E :=
  Nat.pow_le_pow_right (by decide : 0 < 2) hE

theorem toNat_negOne (w : Nat) : (-1#w).toNat = 2 ^ w - 1 := by
  rw [BitVec.neg_one_eq_allOnes, BitVec.toNat_allOnes]

/-- **`pack ∘ unpack` is the identity on valid patterns** (every class), for every format with ≥ 2 exponent bits. -/
theorem pack_unpack (hE : 2 ≤ spec.exponentBits) (b : BitVec spec.numBits) (hv : spec.Valid b) :
    pack spec (UnpackedFloat.unpack spec b) = b := by
  rw [unpack_eq_unpackNat]
  unfold unpackNat
  have hfr : b.toNat % 2 ^ spec.mantissaBitsWithoutImplicit < 2 ^ spec.mantissaBitsWithoutImplicit :=
    Nat.mod_lt _ (Nat.pow_pos (by decide))
  have hef : b.toNat / 2 ^ spec.mantissaBitsWithoutImplicit % 2 ^ spec.exponentBits < 2 ^ spec.exponentBits :=
    Nat.mod_lt _ (Nat.pow_pos (by decide))
  have hs := signOf_toNat (top_lt_two b)
  have h4 := four_le_pow hE
  split
  · rename_i he
    split
    · rename_i hm
      exact packComponents_eq_of hs (by rw [toNat_negOne, he]) (by rw [hm]; rfl)
    · rename_i hm
      refine (hv.eq_packedNaN ?_ ?_).symm
      · rw [bv_eq_negOne_iff, toNat_unpackExponent, he]
      · rw [Ne, bv_eq_zero_iff, toNat_unpackMantissa]; exact hm
  · rename_i he
    split
    · rename_i he0
      split
      · rename_i hm
        exact packComponents_eq_of hs (by rw [he0]; rfl) (by rw [hm]; rfl)
      · rename_i hm
        rw [pack_finite, if_neg, if_neg]
        · exact packComponents_eq_of hs (by rw [he0]; rfl)
            (by rw [BitVec.toNat_ofNat, Nat.mod_eq_of_lt hfr])
        · unfold Format.mantissaBits
          have := (Nat.log2_lt hm).mpr hfr
          omega
        · unfold Format.exponentBias
          omega
    · rename_i he0
      rw [pack_finite, if_neg, if_pos]
      · refine packComponents_eq_of hs ?_ ?_
        · rw [BitVec.toNat_ofNat]
          unfold Format.exponentBias
          rw [show ((b.toNat / 2 ^ spec.mantissaBitsWithoutImplicit % 2 ^ spec.exponentBits : Nat) : Int) -
            (((2 ^ (spec.exponentBits - 1) - 1 : Nat) : Int) + (spec.mantissaBitsWithoutImplicit : Int)) +
            ((2 ^ (spec.exponentBits - 1) - 1 : Nat) : Int) + (spec.mantissaBitsWithoutImplicit : Int) =
            ((b.toNat / 2 ^ spec.mantissaBitsWithoutImplicit % 2 ^ spec.exponentBits : Nat) : Int) by omega,
            Int.toNat_natCast, Nat.mod_mod]
        · rw [BitVec.toNat_ofNat, Nat.add_mod_left, Nat.mod_eq_of_lt hfr]
      · unfold Format.mantissaBits
        have : (2 ^ spec.mantissaBitsWithoutImplicit + b.toNat % 2 ^ spec.mantissaBitsWithoutImplicit).log2 =
            spec.mantissaBitsWithoutImplicit := by
          rw [Nat.log2_eq_iff (by omega)]
          rw [Nat.pow_succ]
          omega
        omega
      · unfold Format.exponentBias
        omega

end Rosu.FM
