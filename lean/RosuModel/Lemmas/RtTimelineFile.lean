/-
  Lemmas/RtTimelineFile.lean — the timing round trip for a map: `collect_samples` keeps a sorted collection sorted and does
  not touch what `TimelineHyps` speaks about (`timelineHyps_collected`), and the effective values of the collected
  collection are the map's own (`collected_values`).
-/
import RosuModel.Lemmas.RtTimelineMain
namespace Rosu
namespace RtTiming
open Rosu Encode Scalar
set_option linter.unusedSectionVars false

variable {F P : Type} [Scalar F] [Scalar P] [Cvt P F] [Trig F] [Trig P]

omit [Scalar P] [Cvt P F] [Trig F] [Trig P] in
theorem addCollected_sorted (cp : ControlPoints F) (l : List (SamplePoint F)) (h : C13.Sorted cp) :
    C13.Sorted (addCollected cp l) := by
  cases l with
  | nil => exact h
  | cons first rest =>
    have gen : ∀ (rest : List (SamplePoint F)) (acc : ControlPoints F × SamplePoint F), C13.Sorted acc.1 →
        C13.Sorted (rest.foldl (fun (acc : ControlPoints F × SamplePoint F) s =>
          if !s.isRedundant acc.2 then (acc.1.addSample s, s) else acc) acc).1 := by
      intro rest
      induction rest with
      | nil => intro acc h; exact h
      | cons s r ih =>
        intro acc h
        rw [List.foldl_cons]
        apply ih
        split
        · exact C13.add_sorted_sample h s
        · exact h
    exact gen rest (cp.addSample first, first) (C13.add_sorted_sample h first)

/-- `collect_samples` keeps the collection sorted. -/
theorem collectSamples_sorted (m : Beatmap F P) (cp : ControlPoints F) (h : collectSamples m = .ok cp)
    (hs : C13.Sorted m.controlPoints) : C13.Sorted cp := by
  unfold collectSamples at h
  cases hc : collectAll m m.hitObjects [] with
  | error e => simp [hc, bind, Except.bind] at h
  | ok collected =>
    simp only [hc, bind, Except.bind, pure, Except.pure] at h
    injection h with h
    rw [← h]
    exact addCollected_sorted _ _ hs

/-- the hypotheses of the timing round trip pass from the map's own control points to the collected ones. -/
theorem timelineHyps_collected (m : Beatmap F P) (cp : ControlPoints F) (h : collectSamples m = .ok cp)
    (H : TimelineHyps m.general.mode m.controlPoints) : TimelineHyps m.general.mode cp := by
  obtain ⟨h1, h2, h3⟩ := collectSamples_others m cp h
  refine ⟨collectSamples_sorted m cp h H.sorted, ?_, ?_, ?_⟩
  · rw [h1]; exact H.sig
  · rw [h1]; exact H.beat
  · rw [svSource_congr _ cp m.controlPoints h2 h3]; exact H.sv

/-- … and the effective velocity / kiai of the collected collection are the map's own. -/
theorem collected_values (m : Beatmap F P) (cp : ControlPoints F) (h : collectSamples m = .ok cp) (u : F) :
    svFor m.general.mode cp u = svFor m.general.mode m.controlPoints u ∧ kiaiAt cp u = kiaiAt m.controlPoints u := by
  obtain ⟨_, h2, h3⟩ := collectSamples_others m cp h
  refine ⟨?_, by unfold kiaiAt ControlPoints.effectPointAt; rw [h3]⟩
  unfold svFor ControlPoints.effectPointAt ControlPoints.difficultyPointAt
  rw [h2, h3]

end RtTiming
end Rosu
