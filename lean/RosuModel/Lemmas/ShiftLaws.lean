/-
  Lemmas/ShiftLaws.lean — the laws of `+ k` on times that shift invariance (C15) needs, the `+ k` maps on
  control points / collections / pending groups, and the fact that every search, lookup and `add` of
  Model/ControlPoints.lean and the flush of Model/TimingDecode.lean commute with them.

  `ShiftLaws F k` is a hypothesis structure (DESIGN.md 3.3: law-dependent). IEEE floats do not satisfy it
  (`+ k` rounds; `-0 + 0 = +0` changes the `total_cmp` key); the integer toy scalar `Z` does, for every `k`
  (`Props/C15Shift.lean`).
-/
import RosuModel.Model.Decoders
namespace Rosu.C15
open Rosu Scalar

/-- what is used about `· + k` on the f64-side scalar: it is strictly monotone for the `total_cmp` key and for
IEEE `<`, keeps NaN-ness, cancels in differences, and commutes with adding a duration. -/
structure ShiftLaws (F : Type) [Scalar F] (k : F) : Prop where
  key_lt : ∀ a b : F, totalKey (a + k) < totalKey (b + k) ↔ totalKey a < totalKey b
  lt_shift : ∀ a b : F, lt (a + k) (b + k) = lt a b
  isNaN_shift : ∀ a : F, isNaN (a + k) = isNaN a
  sub_shift : ∀ a b : F, (a + k) - (b + k) = a - b
  add_right_comm : ∀ a d : F, (a + k) + d = (a + d) + k

variable {F : Type} [Scalar F]

theorem ShiftLaws.key_eq {k : F} (L : ShiftLaws F k) (a b : F) :
    totalKey (a + k) = totalKey (b + k) ↔ totalKey a = totalKey b := by
  have h1 := L.key_lt a b
  have h2 := L.key_lt b a
  omega

theorem ShiftLaws.key_le {k : F} (L : ShiftLaws F k) (a b : F) :
    totalKey (a + k) ≤ totalKey (b + k) ↔ totalKey a ≤ totalKey b := by
  have h2 := L.key_lt b a
  omega

/-- `f64::max` commutes with the shift. -/
theorem ShiftLaws.max_shift {k : F} (L : ShiftLaws F k) (a b : F) :
    Scalar.max (a + k) (b + k) = Scalar.max a b + k := by
  unfold Scalar.max
  rw [L.lt_shift, L.isNaN_shift]
  split
  · rfl
  · split <;> rfl

/-! ### the shift on points and collections -/

def shTP (k : F) (p : TimingPoint F) : TimingPoint F := { p with time := p.time + k }
def shDP (k : F) (p : DifficultyPoint F) : DifficultyPoint F := { p with time := p.time + k }
def shEP (k : F) (p : EffectPoint F) : EffectPoint F := { p with time := p.time + k }
def shSP (k : F) (p : SamplePoint F) : SamplePoint F := { p with time := p.time + k }

/-- every control-point time `+ k`; beat lengths, velocities, volumes … untouched. -/
def shCP (k : F) (cp : ControlPoints F) : ControlPoints F :=
  { timingPoints := cp.timingPoints.map (shTP k), difficultyPoints := cp.difficultyPoints.map (shDP k),
    effectPoints := cp.effectPoints.map (shEP k), samplePoints := cp.samplePoints.map (shSP k) }

def shPending (k : F) (pd : Pending F) : Pending F :=
  { timing := pd.timing.map (shTP k), difficulty := pd.difficulty.map (shDP k),
    effect := pd.effect.map (shEP k), sample := pd.sample.map (shSP k) }

/-! ### searches on a shifted list -/

/-- `binary_search_by` only looks at the comparisons `key x < t`, `key x = t`. -/
theorem searchKey_map {α : Type} (key : α → Int) (f : α → α) (t t' : Int)
    (hlt : ∀ x, key (f x) < t' ↔ key x < t) (heq : ∀ x, key (f x) = t' ↔ key x = t) (l : List α) :
    searchKey key t' (l.map f) = searchKey key t l := by
  induction l with
  | nil => rfl
  | cons x xs ih => simp only [List.map, searchKey, hlt, heq, ih]

theorem lookupChecked_map {α : Type} (key : α → Int) (f : α → α) (t t' : Int)
    (hlt : ∀ x, key (f x) < t' ↔ key x < t) (heq : ∀ x, key (f x) = t' ↔ key x = t) (l : List α) :
    lookupChecked key t' (l.map f) = (lookupChecked key t l).map f := by
  unfold lookupChecked
  rw [searchKey_map key f t t' hlt heq]
  cases searchKey key t l with
  | found i => simp
  | notFound i =>
    simp only []
    split
    · rfl
    · simp

theorem lookupSaturating_map {α : Type} (key : α → Int) (f : α → α) (t t' : Int)
    (hlt : ∀ x, key (f x) < t' ↔ key x < t) (heq : ∀ x, key (f x) = t' ↔ key x = t) (l : List α) :
    lookupSaturating key t' (l.map f) = (lookupSaturating key t l).map f := by
  unfold lookupSaturating
  rw [searchKey_map key f t t' hlt heq]
  cases searchKey key t l <;> simp

theorem map_insertIdx' {α β : Type} (f : α → β) (p : α) (l : List α) (i : Nat) :
    (l.map f).insertIdx i (f p) = (l.insertIdx i p).map f := by
  induction l generalizing i with
  | nil => cases i <;> simp
  | cons x xs ih =>
    cases i with
    | zero => simp
    | succ n => simp [List.insertIdx_succ_cons, ih]

theorem insertOrReplace_map {α : Type} (key : α → Int) (f : α → α) (p : α)
    (hlt : ∀ x, key (f x) < key (f p) ↔ key x < key p) (heq : ∀ x, key (f x) = key (f p) ↔ key x = key p)
    (l : List α) :
    insertOrReplace key (f p) (l.map f) = (insertOrReplace key p l).map f := by
  unfold insertOrReplace
  rw [searchKey_map key f (key p) (key (f p)) hlt heq]
  cases searchKey key (key p) l with
  | found i => simp [List.map_set]
  | notFound i => simp [map_insertIdx']

/-! ### **lookup_shift**: `x_point_at (t + k)` on the shifted collection is the shifted `x_point_at t` -/

variable {k : F}

theorem timingPointAt_shift (L : ShiftLaws F k) (cp : ControlPoints F) (t : F) :
    (shCP k cp).timingPointAt (t + k) = (cp.timingPointAt t).map (shTP k) :=
  lookupSaturating_map TimingPoint.key (shTP k) _ _ (fun x => L.key_lt x.time t) (fun x => L.key_eq x.time t) _

theorem difficultyPointAt_shift (L : ShiftLaws F k) (cp : ControlPoints F) (t : F) :
    (shCP k cp).difficultyPointAt (t + k) = (cp.difficultyPointAt t).map (shDP k) :=
  lookupChecked_map DifficultyPoint.key (shDP k) _ _ (fun x => L.key_lt x.time t) (fun x => L.key_eq x.time t) _

theorem effectPointAt_shift (L : ShiftLaws F k) (cp : ControlPoints F) (t : F) :
    (shCP k cp).effectPointAt (t + k) = (cp.effectPointAt t).map (shEP k) :=
  lookupChecked_map EffectPoint.key (shEP k) _ _ (fun x => L.key_lt x.time t) (fun x => L.key_eq x.time t) _

theorem samplePointAt_shift (L : ShiftLaws F k) (cp : ControlPoints F) (t : F) :
    (shCP k cp).samplePointAt (t + k) = (cp.samplePointAt t).map (shSP k) :=
  lookupSaturating_map SamplePoint.key (shSP k) _ _ (fun x => L.key_lt x.time t) (fun x => L.key_eq x.time t) _

/-- **lookup_shift**: all four lookups at once — the point selected at `t + k` in the shifted collection is the
shift of the point selected at `t` (same index, same non-time fields; `none` exactly when `none`). -/
theorem lookup_shift (L : ShiftLaws F k) (cp : ControlPoints F) (t : F) :
    (shCP k cp).timingPointAt (t + k) = (cp.timingPointAt t).map (shTP k) ∧
    (shCP k cp).difficultyPointAt (t + k) = (cp.difficultyPointAt t).map (shDP k) ∧
    (shCP k cp).effectPointAt (t + k) = (cp.effectPointAt t).map (shEP k) ∧
    (shCP k cp).samplePointAt (t + k) = (cp.samplePointAt t).map (shSP k) :=
  ⟨timingPointAt_shift L cp t, difficultyPointAt_shift L cp t, effectPointAt_shift L cp t, samplePointAt_shift L cp t⟩

/-! ### `ControlPoints::add` on a shifted collection -/

theorem addTiming_shift (L : ShiftLaws F k) (cp : ControlPoints F) (p : TimingPoint F) :
    (shCP k cp).addTiming (shTP k p) = shCP k (cp.addTiming p) := by
  unfold ControlPoints.addTiming shCP
  simp only []
  rw [insertOrReplace_map TimingPoint.key (shTP k) p (fun x => L.key_lt x.time p.time)
    (fun x => L.key_eq x.time p.time)]

theorem difficultyExists_shift (L : ShiftLaws F k) (cp : ControlPoints F) (p : DifficultyPoint F) :
    (shCP k cp).difficultyExists (shDP k p) = cp.difficultyExists p := by
  unfold ControlPoints.difficultyExists
  have h : (shCP k cp).difficultyPointAt (shDP k p).time = (cp.difficultyPointAt p.time).map (shDP k) :=
    difficultyPointAt_shift L cp p.time
  rw [h]
  cases cp.difficultyPointAt p.time <;> rfl

theorem addDifficulty_shift (L : ShiftLaws F k) (cp : ControlPoints F) (p : DifficultyPoint F) :
    (shCP k cp).addDifficulty (shDP k p) = shCP k (cp.addDifficulty p) := by
  unfold ControlPoints.addDifficulty
  rw [difficultyExists_shift L]
  split
  · rfl
  · unfold shCP
    simp only []
    rw [insertOrReplace_map DifficultyPoint.key (shDP k) p (fun x => L.key_lt x.time p.time)
      (fun x => L.key_eq x.time p.time)]

theorem effectExists_shift (L : ShiftLaws F k) (cp : ControlPoints F) (p : EffectPoint F) :
    (shCP k cp).effectExists (shEP k p) = cp.effectExists p := by
  unfold ControlPoints.effectExists
  have h : (shCP k cp).effectPointAt (shEP k p).time = (cp.effectPointAt p.time).map (shEP k) :=
    effectPointAt_shift L cp p.time
  rw [h]
  cases cp.effectPointAt p.time <;> rfl

theorem addEffect_shift (L : ShiftLaws F k) (cp : ControlPoints F) (p : EffectPoint F) :
    (shCP k cp).addEffect (shEP k p) = shCP k (cp.addEffect p) := by
  unfold ControlPoints.addEffect
  rw [effectExists_shift L]
  split
  · rfl
  · unfold shCP
    simp only []
    rw [insertOrReplace_map EffectPoint.key (shEP k) p (fun x => L.key_lt x.time p.time)
      (fun x => L.key_eq x.time p.time)]

theorem sampleExists_shift (L : ShiftLaws F k) (cp : ControlPoints F) (p : SamplePoint F) :
    (shCP k cp).sampleExists (shSP k p) = cp.sampleExists p := by
  unfold ControlPoints.sampleExists
  have h : lookupChecked SamplePoint.key (totalKey (shSP k p).time) (shCP k cp).samplePoints =
      (lookupChecked SamplePoint.key (totalKey p.time) cp.samplePoints).map (shSP k) :=
    lookupChecked_map SamplePoint.key (shSP k) _ _ (fun x => L.key_lt x.time p.time)
      (fun x => L.key_eq x.time p.time) _
  rw [h]
  cases lookupChecked SamplePoint.key (totalKey p.time) cp.samplePoints <;> rfl

theorem addSample_shift (L : ShiftLaws F k) (cp : ControlPoints F) (p : SamplePoint F) :
    (shCP k cp).addSample (shSP k p) = shCP k (cp.addSample p) := by
  unfold ControlPoints.addSample
  rw [sampleExists_shift L]
  split
  · rfl
  · unfold shCP
    simp only []
    rw [insertOrReplace_map SamplePoint.key (shSP k) p (fun x => L.key_lt x.time p.time)
      (fun x => L.key_eq x.time p.time)]

/-- `flush_pending_points` on the shifted group and collection. -/
theorem flushInto_shift (L : ShiftLaws F k) (cp : ControlPoints F) (pd : Pending F) :
    flushInto (shCP k cp) (shPending k pd) = shCP k (flushInto cp pd) := by
  obtain ⟨t, d, e, s⟩ := pd
  unfold flushInto shPending
  cases t <;> cases d <;> cases e <;> cases s <;>
    simp only [Option.map, addTiming_shift L, addDifficulty_shift L, addEffect_shift L, addSample_shift L]

end Rosu.C15
