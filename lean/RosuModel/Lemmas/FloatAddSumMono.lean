/-
  Lemmas/FloatAddSumMono.lean — binary64 addition is monotone in the EXACT SUM of its operands:
  `toRat a + toRat x ≤ toRat c + toRat y` ⟹ `fl(a + x) ≤ fl(c + y)` (`add_le_add_of_toRat_le`; `a`, `c` finite non-zero,
  `x`, `y` finite; overflow to `+∞` included). Generalises `add_le_add_left_float` (same left operand) — the rounded sum
  is `normalize` of the exact signed sum on a common grid (`add_fin_zf`), and `normalize` is monotone in the exact value
  (`normalize_mono`).
-/
import RosuModel.Lemmas.FloatErrRange
namespace Rosu.FErr
open Float.Model Float.Model.UnpackedFloat Rosu.FMR Rosu.FRM Rosu.FAM

/-- unpacked level: two sums with finite non-zero canonical left operands, compared through the exact signed values on a
common grid `2^E`. -/
theorem add_le_add_of_zfval_le (spec : Format) (sa : Sign) (ma : Nat) (ea : Int) (hma) (hca : CanonFin spec ma ea)
    (sc : Sign) (mc : Nat) (ec : Int) (hmc) (hcc : CanonFin spec mc ec)
    (x y : UnpackedFloat) (hx : IsZF x) (hy : IsZF y) (E : Int)
    (h1 : E ≤ min ea (zfexp ea x)) (h2 : E ≤ min ec (zfexp ec y))
    (hv : zfval (.finite sa ma ea hma) E + zfval x E ≤ zfval (.finite sc mc ec hmc) E + zfval y E) :
    (UnpackedFloat.add spec (.finite sa ma ea hma) x).le (UnpackedFloat.add spec (.finite sc mc ec hmc) y) = true := by
  rw [add_fin_zf spec sa ma ea hma hca x hx, add_fin_zf spec sc mc ec hmc hcc y hy]
  generalize hmx : min ea (zfexp ea x) = mx at h1 ⊢
  generalize hmy : min ec (zfexp ec y) = my at h2 ⊢
  have hsa := zfval_scale ea (.finite sa ma ea hma) E mx h1 (by show mx ≤ ea; omega)
  have hsx := zfval_scale ea x E mx h1 (by omega)
  have hsc := zfval_scale ec (.finite sc mc ec hmc) E my h2 (by show my ≤ ec; omega)
  have hsy := zfval_scale ec y E my h2 (by omega)
  apply normalize_mono spec _ _ mx my E h1 h2
  rw [Int.add_mul, Int.add_mul, hsa, hsx, hsc, hsy]
  exact hv

/-- the exact signed mantissa on the grid `2^E`, as a rational. -/
theorem zfval_cast (es : Int) (u : UnpackedFloat) (E : Int) (h : E ≤ zfexp es u) :
    ((zfval u E : Int) : ℚ) * (2 : ℚ) ^ E = uval u := by
  match u, h with
  | .finite s m e hm, h =>
    have h' : E ≤ e := h
    have hp : ((2 : ℚ) ^ (e - E).toNat) * (2 : ℚ) ^ E = (2 : ℚ) ^ e := by
      rw [← zpow_natCast, ← zpow_add₀ (two_ne_zero)]; congr 1; omega
    cases s
    · simp only [zfval, Sign.apply, uval, sgnQ]; push_cast; rw [← hp]; ring
    · simp only [zfval, Sign.apply, uval, sgnQ]; push_cast; rw [← hp]; ring
  | .zero _, _ => simp [zfval, uval]
  | .infinity _, _ => simp [zfval, uval]
  | .notANumber, _ => simp [zfval, uval]

theorem isZF_of_isFinite (u : UnpackedFloat) (h : u.isFinite = true) : IsZF u := by
  match u, h with
  | .zero _, _ => trivial
  | .finite .., _ => trivial

/-- **binary64 addition is monotone in the exact sum**: `a`, `c` finite non-zero, `x`, `y` finite,
`toRat a + toRat x ≤ toRat c + toRat y` ⟹ `a + x ≤ c + y` in the IEEE order (either sum may overflow). -/
theorem add_le_add_of_toRat_le (a x c y : Float) (ha : toRat a ≠ 0) (hc : toRat c ≠ 0)
    (fx : x.isFinite = true) (fy : y.isFinite = true)
    (h : toRat a + toRat x ≤ toRat c + toRat y) : Scalar.le (a + x) (c + y) = true := by
  rw [FMO.le_float, float_add_unpack, float_add_unpack]
  have ca := float_canon a
  have cx := float_canon x
  have cc := float_canon c
  have cy := float_canon y
  refine repack_mono _ (by decide) _ _ (add_canon _ _ _ ca cx) (add_canon _ _ _ cc cy) ?_
  have zx := isZF_of_isFinite _ ((isFinite_iff x).mp fx)
  have zy := isZF_of_isFinite _ ((isFinite_iff y).mp fy)
  unfold toRat at ha hc h
  generalize a.toModel.unpack = ua at *
  generalize c.toModel.unpack = uc at *
  generalize x.toModel.unpack = ux at *
  generalize y.toModel.unpack = uy at *
  match ua, ha, ca with
  | .finite sa ma ea hma, _, ca =>
    match uc, hc, cc with
    | .finite sc mc ec hmc, _, cc =>
      obtain ⟨E, hE⟩ : ∃ E : Int, E = min (min ea (zfexp ea ux)) (min ec (zfexp ec uy)) := ⟨_, rfl⟩
      refine add_le_add_of_zfval_le _ sa ma ea hma ca sc mc ec hmc cc ux uy zx zy E (by omega) (by omega) ?_
      have e1 := zfval_cast ea (.finite sa ma ea hma) E (by show E ≤ ea; omega)
      have e2 := zfval_cast ea ux E (by omega)
      have e3 := zfval_cast ec (.finite sc mc ec hmc) E (by show E ≤ ec; omega)
      have e4 := zfval_cast ec uy E (by omega)
      rw [← e1, ← e2, ← e3, ← e4, ← add_mul, ← add_mul] at h
      have := le_of_mul_le_mul_right h (two_zpow_pos E)
      exact_mod_cast this
    | .zero _, hc, _ => exact absurd rfl hc
    | .infinity _, hc, _ => exact absurd rfl hc
    | .notANumber, hc, _ => exact absurd rfl hc
  | .zero _, ha, _ => exact absurd rfl ha
  | .infinity _, ha, _ => exact absurd rfl ha
  | .notANumber, ha, _ => exact absurd rfl ha

end Rosu.FErr
