/-
  Lemmas/SliderPathEmit.lean — what `convert_points` emits for the vertices of one explicit segment
  (`emit_seg`): under `BodyOK`, the split indices of the vertex list `head :: expand body ++ end point` are exactly the
  second copies of the typed body points, so the emitted control points are `head(T) :: body`.
-/
import RosuModel.Lemmas.SliderPathRep
import RosuModel.Props.C14Split
set_option linter.unusedSectionVars false
namespace Rosu
namespace SliderRt
open Rosu Encode Scalar RtObjects C14

variable {P : Type} [Scalar P]

theorem getElem?_of_drop {α : Type} (V : List α) (lo : Nat) (x : α) (r : List α) (h : V.drop lo = x :: r) :
    V[lo]? = some x ∧ V.drop (lo + 1) = r := by
  constructor
  · have := List.head?_drop (l := V) (i := lo)
    rw [h] at this
    simpa using this.symm
  · have : V.drop (lo + 1) = (V.drop lo).drop 1 := by rw [List.drop_drop]
    rw [this, h]; rfl

/-- the vertex at `lo` does not split when its control point satisfies `HeadOK`. -/
theorem head_nosplit (T : PathType) (V : List (PathControlPoint P)) (limit lo : Nat) (a b q : PathControlPoint P)
    (rest : List (PathControlPoint P)) (pu : Bool) (ha : V[lo - 1]? = some a) (hb : V[lo]? = some b)
    (hbq : b.pos = q.pos) (hlast : q.pathType = none → rest = [] → lo = limit - 1) (hpu : pu = true → 2 ≤ lo)
    (hok : HeadOK T a.pos pu q rest) : isSplit T limit V lo = false := by
  cases hs : isSplit T limit V lo with
  | false => rfl
  | true =>
    exfalso
    obtain ⟨h1, h2, h3, h4, h5⟩ := (isSplit_iff T limit V lo).mp hs
    have hpe : Pos.eq q.pos a.pos = true := by
      unfold posEqAt at h3
      rw [ha, hb] at h3
      simpa [hbq] using h3
    unfold HeadOK at hok
    cases hq : q.pathType with
    | none =>
      rw [hq] at hok
      rcases hok with h | h | ⟨h, h'⟩
      · rw [h] at hpe; cases hpe
      · exact h5 (hlast hq h)
      · exact h4 ⟨h, hpu h'⟩
    | some t =>
      rw [hq] at hok
      rw [hok.2.2.2.2] at hpe; cases hpe

/-- **the body of a segment**: from vertex `lo` on (predecessor `uv`), the vertices `expand body` followed by the end
point are emitted as `body`. -/
theorem emit_tail (T : PathType) (V ev : List (PathControlPoint P)) (limit : Nat) :
    ∀ (body : List (PathControlPoint P)) (lo : Nat) (uv : PathControlPoint P) (pu : Bool),
      1 ≤ lo → V[lo - 1]? = some uv → V.drop lo = expand body ++ ev → limit = lo + (expand body).length →
      (pu = true → 2 ≤ lo) → BodyOK T uv.pos pu body →
      emitRange T limit V lo (limit - lo) = body := by
  intro body
  induction body with
  | nil =>
    intro lo uv pu _ _ _ hlim _ _
    simp only [expand, List.flatMap_nil, List.length_nil, Nat.add_zero] at hlim
    subst hlim
    simp [emitRange_zero]
  | cons q rest ih =>
    intro lo uv pu hlo hu hdrop hlim hpu hok
    obtain ⟨hhead, hrest⟩ := hok
    rw [expand_cons] at hdrop hlim
    cases hq : q.pathType with
    | none =>
      simp only [hq, Option.isSome_none, Bool.false_eq_true, if_false, List.cons_append, List.nil_append,
        List.length_cons] at hdrop hlim
      obtain ⟨hv, hdrop'⟩ := getElem?_of_drop V lo _ _ hdrop
      have hq' : (⟨q.pos, none⟩ : PathControlPoint P) = q := by
        cases q with
        | mk p ty => simp only at hq; rw [hq]
      have hlen : limit - lo = (limit - (lo + 1)) + 1 := by omega
      have hA : isSplit T limit V lo = false :=
        head_nosplit T V limit lo uv ⟨q.pos, none⟩ q rest pu hu hv rfl
          (fun _ hr => by subst hr; simp [expand] at hlim; omega) hpu hhead
      have hB : isSplit T limit V (lo + 1) = false := by
        cases rest with
        | nil => exact isSplit_ge_limit T limit V (lo + 1) (by simp [expand] at hlim; omega)
        | cons q' rest' =>
          obtain ⟨hhead', _⟩ := hrest
          rw [expand_cons] at hdrop' hlim
          have hv' : ∃ b', V[lo + 1]? = some b' ∧ b'.pos = q'.pos := by
            cases hq'' : q'.pathType with
            | none =>
              simp only [hq'', Option.isSome_none, Bool.false_eq_true, if_false, List.cons_append, List.nil_append] at hdrop'
              exact ⟨_, (getElem?_of_drop V (lo + 1) _ _ hdrop').1, rfl⟩
            | some t' =>
              simp only [hq'', Option.isSome_some, if_true, List.cons_append, List.nil_append] at hdrop'
              exact ⟨_, (getElem?_of_drop V (lo + 1) _ _ hdrop').1, rfl⟩
          obtain ⟨b', hb', hb'q⟩ := hv'
          refine head_nosplit T V limit (lo + 1) ⟨q.pos, none⟩ b' q' rest' q.pathType.isNone (by simpa using hv) hb' hb'q
            ?_ (fun _ => by omega) hhead'
          intro hq'' hr
          subst hr
          simp [expand, hq''] at hlim
          omega
      rw [hlen, emitRange_succ]
      have he : emitAt T limit V lo = some q := by
        unfold emitAt
        simp only [hA, Bool.false_eq_true, if_false, hv, hB, hq']
      rw [he]
      simp only [List.singleton_append]
      congr 1
      exact ih (lo + 1) ⟨q.pos, none⟩ true (by omega) (by simpa using hv) hdrop' (by omega) (fun _ => by omega)
        (by rw [hq] at hrest; exact hrest)
    | some t =>
      simp only [hq, Option.isSome_some, if_true, List.cons_append, List.nil_append, List.length_cons] at hdrop hlim
      obtain ⟨hv, hdrop'⟩ := getElem?_of_drop V lo _ _ hdrop
      obtain ⟨hv2, hdrop''⟩ := getElem?_of_drop V (lo + 1) _ _ hdrop'
      have hhead0 := hhead
      unfold HeadOK at hhead
      rw [hq] at hhead
      obtain ⟨ht, hcat, hne, hrefl, hneq⟩ := hhead
      subst ht
      have hq' : ({ (⟨q.pos, none⟩ : PathControlPoint P) with pathType := some t }) = q := by
        cases q with
        | mk p ty => simp only at hq; rw [hq]
      have hrl : 1 ≤ (expand rest).length := by
        cases rest with
        | nil => exact absurd rfl hne
        | cons q' rest' => rw [expand_cons]; split <;> simp
      have hlen : limit - lo = (limit - (lo + 1 + 1)) + 1 + 1 := by omega
      have hA : isSplit t limit V lo = false :=
        head_nosplit t V limit lo uv ⟨q.pos, none⟩ q rest pu hu hv rfl (fun h => by rw [hq] at h; cases h) hpu hhead0
      have hC : isSplit t limit V (lo + 1) = true := by
        rw [isSplit_iff]
        refine ⟨by omega, by omega, ?_, fun ⟨h, _⟩ => hcat h, by omega⟩
        unfold posEqAt
        simp only [Nat.add_sub_cancel, hv, hv2]
        exact hrefl
      rw [hlen, emitRange_succ, emitRange_succ]
      have he : emitAt t limit V lo = some q := by
        unfold emitAt
        simp only [hA, Bool.false_eq_true, if_false, hv, hC, if_true, hq']
      have he2 : emitAt t limit V (lo + 1) = none := by
        unfold emitAt
        simp only [hC, if_true]
      rw [he, he2]
      simp only [List.singleton_append, List.nil_append]
      congr 1
      exact ih (lo + 1 + 1) ⟨q.pos, none⟩ false (by omega) (by simpa using hv2) hdrop'' (by omega)
        (fun h => by cases h) (by rw [hq] at hrest; exact hrest)

/-- **one explicit segment**: the vertices `head :: expand body ++ end point`, the head carrying the type, are emitted as
the segment's control points. -/
theorem emit_seg (T : PathType) (head : Pos P) (body ev : List (PathControlPoint P)) (hok : BodyOK T head false body) :
    emitRange T (1 + (expand body).length) (⟨head, some T⟩ :: (expand body ++ ev)) 0 (1 + (expand body).length) =
      ⟨head, some T⟩ :: body := by
  have h1 : 1 + (expand body).length = (expand body).length + 1 := by omega
  rw [h1, emitRange_succ]
  have he : emitAt T ((expand body).length + 1) (⟨head, some T⟩ :: (expand body ++ ev)) 0 = some ⟨head, some T⟩ := by
    unfold emitAt
    rw [isSplit_zero]
    simp only [Bool.false_eq_true, if_false, List.getElem?_cons_zero]
    split <;> rfl
  rw [he]
  simp only [List.singleton_append]
  congr 1
  have := emit_tail T (⟨head, some T⟩ :: (expand body ++ ev)) ev ((expand body).length + 1) body 1 ⟨head, some T⟩ false
    (Nat.le_refl _) (by simp) (by simp) (by omega) (fun h => by cases h) hok
  simpa using this

end SliderRt
end Rosu
