/-
  Lemmas/FloatErrRangeSqrt.lean — RANGE lemmas that remove finiteness side conditions of the rounding-error layer:

  * **`sqrt_finite_float`**: the `f64` square root of a finite double of non-negative value (`−0` included) is finite —
    `sqrt` cannot overflow (the root of a value below `2¹⁰²⁴` is below `2⁵¹²·(1+2⁻⁵³)`); hence the hypothesis `hr` of
    `sqrt_half_ulp_float` / `sqrt_sq_err_float` (Lemmas/FloatErrSqrt.lean) is automatic: `sqrt_sq_err_float'`;
  * **`sqrt_le_float`**: magnitude — `toRat x ≤ B²`, `0 ≤ B` ⟹ `toRat (sqrt x) ≤ B (1 + 2⁻⁵²)`;
  * **`toRat_abs_float`**: `toRat (Scalar.abs z) = |toRat z|` (every `z`; `abs` is exact and never overflows),
    `abs_isFinite`;
  * **`toRat_eps_float`**: `toRat (Scalar.eps : Float) = 2⁻⁵²` (`f64::EPSILON`);
  * **`abs_sub_le_eps_toRat`**: finite `d0`, `d1` with `|d0 ⊖ d1| <= EPSILON` (the degenerate bracket of
    `interpolate_vertices`) have `|toRat d0 − toRat d1| ≤ 2⁻⁵² (1 + 2⁻⁵²)`. (The subtraction rounds: `fl(D) = D (1 + δ)`,
    `|δ| ≤ 2⁻⁵³`, so `|D| ≤ 2⁻⁵² / (1 − 2⁻⁵³) ≤ 2⁻⁵² (1 + 2⁻⁵²)`. When both operands are `≥ 2⁻⁵¹` in magnitude Sterbenz makes
    the difference exact and the bound is `2⁻⁵²`; for smaller operands of opposite sign it need not be exact, which is why
    the statement carries the factor.)
-/
import RosuModel.Lemmas.FloatErrSqrt
import RosuModel.Lemmas.FloatErrRange
namespace Rosu.FErr
open Float.Model Float.Model.UnpackedFloat Rosu.FMR Rosu.FRM Rosu.FAM

/-! ### `sqrt` does not overflow -/

/-- a finite double of non-negative value unpacks to a zero or to a positive finite float. -/
theorem unpack_of_toRat_nonneg (x : Float) (hx : x.isFinite = true) (h0 : 0 ≤ toRat x) :
    (∃ s, x.toModel.unpack = .zero s) ∨ ∃ m e hm, x.toModel.unpack = .finite .positive m e hm := by
  have hx' : x.toModel.unpack.isFinite = true := hx
  unfold toRat at h0
  generalize x.toModel.unpack = u at *
  match u, hx', h0 with
  | .zero s, _, _ => exact Or.inl ⟨s, rfl⟩
  | .finite .positive m e hm, _, _ => exact Or.inr ⟨m, e, hm, rfl⟩
  | .finite .negative m e hm, _, h0 => exact absurd h0 (not_le.mpr (uval_fin_neg m e hm))

/-- a finite double of non-negative value is `>= +0` in the IEEE order. -/
theorem le_zero_of_toRat_nonneg (x : Float) (hx : x.isFinite = true) (h0 : 0 ≤ toRat x) :
    Scalar.le (0 : Float) x = true := by
  rw [FMO.le_float, float_zero_unpack]
  rcases unpack_of_toRat_nonneg x hx h0 with ⟨s, h⟩ | ⟨m, e, hm, h⟩ <;> rw [h]
  · cases s <;> rfl
  · rfl

/-- the value of a canonical binary64 finite float is below `2¹⁰²⁴` when it is in range. -/
theorem uval_lt_of_inRange (m : Nat) (e : Int) (hc : CanonFin Format.binary64 m e) (he : e ≤ 971) :
    (m : ℚ) * (2 : ℚ) ^ e < (2 : ℚ) ^ (1024 : Int) := by
  have hm : (m : ℚ) < (2 : ℚ) ^ (53 : Nat) := by
    have := hc.lt; rw [b64_mantissaBits] at this; exact_mod_cast this
  have h2 : (2 : ℚ) ^ e ≤ (2 : ℚ) ^ (971 : Int) := zpow_le_zpow_right₀ (by norm_num) he
  calc (m : ℚ) * (2 : ℚ) ^ e < (2 : ℚ) ^ (53 : Nat) * (2 : ℚ) ^ e := mul_lt_mul_of_pos_right hm (two_zpow_pos e)
    _ ≤ (2 : ℚ) ^ (53 : Nat) * (2 : ℚ) ^ (971 : Int) := mul_le_mul_of_nonneg_left h2 (by positivity)
    _ = (2 : ℚ) ^ (1024 : Int) := by rw [← zpow_natCast, ← zpow_add₀ (two_ne_zero)]; norm_num

theorem inRange64_exp {s : Sign} {m : Nat} {e : Int} {hm : 0 < m}
    (h : InRange Format.binary64 (.finite s m e hm)) : e ≤ 971 := by
  have h1 : (Format.binary64.exponentBias : Int) = 1023 := by decide
  have h2 : (Format.binary64.mantissaBitsWithoutImplicit : Int) = 52 := by decide
  have h3 : ((2 ^ Format.binary64.exponentBits : Nat) : Int) = 2048 := by decide
  have h' : e + (Format.binary64.exponentBias : Int) + (Format.binary64.mantissaBitsWithoutImplicit : Int) + 1 <
      ((2 ^ Format.binary64.exponentBits : Nat) : Int) := h
  rw [h1, h2, h3] at h'; omega

/-- **`sqrt` of a finite non-negative double is finite** (`−0` included: `sqrt(−0) = −0`). -/
theorem sqrt_finite_float (x : Float) (hx : x.isFinite = true) (h0 : 0 ≤ toRat x) :
    (Scalar.sqrt x : Float).isFinite = true := by
  show (Scalar.sqrt x : Float).toModel.unpack.isFinite = true
  have hcx := float_canon x
  have hrx := float_inRange x
  rw [FB.float_sqrt_unpack]
  rcases unpack_of_toRat_nonneg x hx h0 with ⟨s, h⟩ | ⟨m, e, hm, h⟩
  · rw [h]
    have : UnpackedFloat.sqrt Format.binary64 (.zero s) = .zero s := rfl
    rw [this]
    unfold FMR.repack
    rw [FM.unpack_pack_zero (by decide)]
    rfl
  · rw [h] at hcx hrx ⊢
    obtain ⟨r, tg, htg, hv, hr0, hc, hfin, _, hL, hn⟩ := sqrt_err_unpacked Format.binary64 m e hm
    rcases repack_cases Format.binary64 (by decide) _ hc with ⟨h1, _⟩ | ⟨s', m', e', p', hres, hnr, _⟩
    · rw [h1]; exact hfin
    · exfalso
      rw [hres] at hv hc hnr
      have hxlt := uval_lt_of_inRange m e hcx (inRange64_exp hrx)
      -- the result has a huge exponent
      have he' : 972 ≤ e' := by
        by_contra hlt
        exact hnr (inRange64_fin _ _ _ _ (by omega))
      have hm' : (2 : ℚ) ^ (52 : Nat) ≤ (m' : ℚ) := by
        rcases hc.norm with hh | hh
        · rw [b64_mantissaBits] at hh; exact_mod_cast hh
        · rw [b64_minExponent] at hh; omega
      have habs := uval_abs_fin s' m' e' p'
      rw [hv, abs_of_nonneg hr0] at habs
      have hrbig : (2 : ℚ) ^ (1024 : Int) ≤ r := by
        rw [habs]
        have h2 : (2 : ℚ) ^ (972 : Int) ≤ (2 : ℚ) ^ e' := zpow_le_zpow_right₀ (by norm_num) he'
        calc (2 : ℚ) ^ (1024 : Int) = (2 : ℚ) ^ (52 : Nat) * (2 : ℚ) ^ (972 : Int) := by
              rw [← zpow_natCast, ← zpow_add₀ (two_ne_zero)]; norm_num
          _ ≤ (m' : ℚ) * (2 : ℚ) ^ e' := mul_le_mul hm' h2 (two_zpow_pos _).le (Nat.cast_nonneg _)
      -- half an ulp is at most half the value
      have hh : (2 : ℚ) ^ tg / 2 ≤ r / 2 := by
        apply div_le_div_of_nonneg_right _ (by norm_num)
        rcases hn with h | h
        · rw [h, b64_minExponent]
          refine le_trans ?_ hrbig
          exact zpow_le_zpow_right₀ (by norm_num) (by norm_num)
        · refine le_trans ?_ h
          rw [b64_mantissaBits]
          have : (1 : ℚ) ≤ (2 : ℚ) ^ (53 - 1) := one_le_pow₀ (by norm_num)
          calc (2 : ℚ) ^ tg = 1 * (2 : ℚ) ^ tg := (one_mul _).symm
            _ ≤ _ := mul_le_mul_of_nonneg_right this (two_zpow_pos _).le
      have hbig : (2 : ℚ) ^ (1024 : Int) ≤ ((2 : ℚ) ^ (1023 : Int)) ^ 2 := by
        rw [← zpow_natCast, ← zpow_mul]
        exact zpow_le_zpow_right₀ (by norm_num) (by norm_num)
      have h24 : (2 : ℚ) ^ (1024 : Int) = 2 * (2 : ℚ) ^ (1023 : Int) := by
        rw [show (1024 : Int) = 1023 + 1 by norm_num, zpow_add_one₀ (two_ne_zero)]; ring
      have hK := two_zpow_pos (1023 : Int)
      generalize (2 : ℚ) ^ (1024 : Int) = K2 at *
      generalize (2 : ℚ) ^ (1023 : Int) = K at *
      generalize (2 : ℚ) ^ tg / 2 = T at *
      generalize (m : ℚ) * (2 : ℚ) ^ e = X at *
      have hL' := hL (by linarith)
      have hge : K ≤ r - T := by linarith
      have hsq : K ^ 2 ≤ (r - T) ^ 2 := pow_le_pow_left₀ hK.le hge 2
      linarith

/-- `sqrt_sq_err_float` without the hypothesis that the root is finite. -/
theorem sqrt_sq_err_float' (x : Float) (hx : x.isFinite = true) (h0 : 0 ≤ toRat x) :
    (Scalar.sqrt x : Float).isFinite = true ∧ 0 ≤ toRat (Scalar.sqrt x : Float) ∧
    toRat (Scalar.sqrt x : Float) ^ 2 * (1 - (2 : ℚ) ^ (-52 : Int)) ≤ toRat x ∧
    toRat x ≤ toRat (Scalar.sqrt x : Float) ^ 2 * (1 + (2 : ℚ) ^ (-53 : Int)) ^ 2 :=
  ⟨sqrt_finite_float x hx h0,
    sqrt_sq_err_float x hx (le_zero_of_toRat_nonneg x hx h0) (sqrt_finite_float x hx h0)⟩

/-- **magnitude of the root**: `toRat x ≤ B²` ⟹ `toRat (sqrt x) ≤ B (1 + 2⁻⁵²)`. -/
theorem sqrt_le_float (x : Float) (hx : x.isFinite = true) (h0 : 0 ≤ toRat x) (B : ℚ) (hB : 0 ≤ B)
    (h : toRat x ≤ B ^ 2) : toRat (Scalar.sqrt x : Float) ≤ B * (1 + (2 : ℚ) ^ (-52 : Int)) := by
  obtain ⟨_, hr0, hlo, _⟩ := sqrt_sq_err_float' x hx h0
  generalize toRat (Scalar.sqrt x : Float) = r at *
  by_contra hc
  rw [not_le] at hc
  have hb0 : 0 ≤ B * (1 + (2 : ℚ) ^ (-52 : Int)) := mul_nonneg hB (by norm_num)
  have hsq : (B * (1 + (2 : ℚ) ^ (-52 : Int))) ^ 2 < r ^ 2 := pow_lt_pow_left₀ hc hb0 (by norm_num)
  have c : (1 : ℚ) ≤ (1 + (2 : ℚ) ^ (-52 : Int)) ^ 2 * (1 - (2 : ℚ) ^ (-52 : Int)) := by norm_num
  have c0 : (0 : ℚ) < 1 - (2 : ℚ) ^ (-52 : Int) := by norm_num
  have h1 : (B * (1 + (2 : ℚ) ^ (-52 : Int))) ^ 2 * (1 - (2 : ℚ) ^ (-52 : Int)) <
      r ^ 2 * (1 - (2 : ℚ) ^ (-52 : Int)) := mul_lt_mul_of_pos_right hsq c0
  have h2 : B ^ 2 * 1 ≤ B ^ 2 * ((1 + (2 : ℚ) ^ (-52 : Int)) ^ 2 * (1 - (2 : ℚ) ^ (-52 : Int))) :=
    mul_le_mul_of_nonneg_left c (sq_nonneg B)
  have h3 : (B * (1 + (2 : ℚ) ^ (-52 : Int))) ^ 2 * (1 - (2 : ℚ) ^ (-52 : Int)) =
      B ^ 2 * ((1 + (2 : ℚ) ^ (-52 : Int)) ^ 2 * (1 - (2 : ℚ) ^ (-52 : Int))) := by ring
  linarith

/-! ### `abs`, `EPSILON` -/

theorem float_abs_unpack (x : Float) :
    (Scalar.abs x : Float).toModel.unpack = repack Format.binary64 x.toModel.unpack.abs := rfl

theorem float_abs_unpack_eq (x : Float) : (Scalar.abs x : Float).toModel.unpack = x.toModel.unpack.abs := by
  rw [float_abs_unpack]
  have hc := float_canon x
  have hr := float_inRange x
  generalize x.toModel.unpack = u at *
  have hcn : Canon Format.binary64 u.abs := by cases u <;> trivial
  rcases repack_cases Format.binary64 (by decide) _ hcn with ⟨h1, _⟩ | ⟨s, m, e, p, h0, hnr, _⟩
  · exact h1
  · exfalso; apply hnr
    cases u <;> trivial

/-- **`abs` is exact**: the value of `|z|` is the absolute value of the value (every `z`: both sides are `0` for `±∞`/NaN). -/
theorem toRat_abs_float (z : Float) : toRat (Scalar.abs z : Float) = |toRat z| := by
  unfold toRat
  rw [float_abs_unpack_eq]
  cases z.toModel.unpack with
  | notANumber => simp [UnpackedFloat.abs, uval]
  | infinity s => simp [UnpackedFloat.abs, uval]
  | zero s => simp [UnpackedFloat.abs, uval]
  | finite s m e hm =>
    rw [uval_abs_fin]
    simp [UnpackedFloat.abs, uval, sgnQ]

theorem abs_isFinite (z : Float) : (Scalar.abs z : Float).isFinite = z.isFinite := by
  show (Scalar.abs z : Float).toModel.unpack.isFinite = z.toModel.unpack.isFinite
  rw [float_abs_unpack_eq]
  cases z.toModel.unpack <;> rfl

theorem eps_unpack :
    (Scalar.eps : Float).toModel.unpack = .finite .positive 4503599627370496 (-104) (by decide) := by
  show (Float.ofBits 0x3CB0000000000000).toModel.unpack = _
  rw [FM.float_unpack_ofBits _ (by decide)]; rfl

/-- **`f64::EPSILON = 2⁻⁵²`.** -/
theorem toRat_eps_float : toRat (Scalar.eps : Float) = (2 : ℚ) ^ (-52 : Int) := by
  rw [toRat_of_unpack eps_unpack]
  norm_num [sgnQ]

theorem eps_isFinite : (Scalar.eps : Float).isFinite = true := by
  show (Scalar.eps : Float).toModel.unpack.isFinite = true
  rw [eps_unpack]; rfl

/-- something `<= EPSILON` in absolute value is finite. -/
theorem finite_of_abs_le_eps (z : Float) (h : Scalar.le (Scalar.abs z) (Scalar.eps : Float) = true) :
    z.isFinite = true := by
  rw [← abs_isFinite]
  show (Scalar.abs z : Float).toModel.unpack.isFinite = true
  rw [FMO.le_float, eps_unpack, float_abs_unpack_eq] at h
  rw [float_abs_unpack_eq]
  cases hz : z.toModel.unpack with
  | notANumber => rw [hz] at h; cases h
  | infinity s => rw [hz] at h; cases h
  | zero s => rfl
  | finite s m e hm => rfl

/-- `|z| <= EPSILON` in the IEEE order is `|toRat z| ≤ 2⁻⁵²` (and `z` is finite). -/
theorem abs_le_eps_toRat (z : Float) (h : Scalar.le (Scalar.abs z) (Scalar.eps : Float) = true) :
    z.isFinite = true ∧ |toRat z| ≤ (2 : ℚ) ^ (-52 : Int) := by
  have fz := finite_of_abs_le_eps z h
  refine ⟨fz, ?_⟩
  have := toRat_le_of_le _ _ (by rw [abs_isFinite]; exact fz) eps_isFinite h
  rw [toRat_abs_float, toRat_eps_float] at this
  exact this

/-- **the degenerate bracket**: finite `d0`, `d1` with `|d0 ⊖ d1| <= EPSILON` are within `2⁻⁵² (1 + 2⁻⁵²)` of each other
(the subtraction rounds; the factor cannot be dropped, see the example below). -/
theorem abs_sub_le_eps_toRat (d0 d1 : Float) (f0 : d0.isFinite = true) (f1 : d1.isFinite = true)
    (h : Scalar.le (Scalar.abs (d0 - d1)) (Scalar.eps : Float) = true) :
    |toRat d0 - toRat d1| ≤ (2 : ℚ) ^ (-52 : Int) * (1 + (2 : ℚ) ^ (-52 : Int)) := by
  obtain ⟨fz, hz⟩ := abs_le_eps_toRat _ h
  obtain ⟨δ, hδ, hv⟩ := sub_err_float d0 d1 f0 f1 fz
  rw [hv, abs_mul] at hz
  obtain ⟨d1', d2'⟩ := abs_le.mp hδ
  have h1 : 1 - (2 : ℚ) ^ (-53 : Int) ≤ |1 + δ| := by
    rw [abs_of_nonneg (by have : (2 : ℚ) ^ (-53 : Int) ≤ 1 := by norm_num
                          linarith)]
    linarith
  have hD := abs_nonneg (toRat d0 - toRat d1)
  generalize |toRat d0 - toRat d1| = D at *
  have h2 : D * (1 - (2 : ℚ) ^ (-53 : Int)) ≤ (2 : ℚ) ^ (-52 : Int) :=
    le_trans (mul_le_mul_of_nonneg_left h1 hD) hz
  have c : (1 : ℚ) ≤ (1 + (2 : ℚ) ^ (-52 : Int)) * (1 - (2 : ℚ) ^ (-53 : Int)) := by norm_num
  have c0 : (0 : ℚ) < 1 - (2 : ℚ) ^ (-53 : Int) := by norm_num
  refine le_of_mul_le_mul_right ?_ c0
  calc D * (1 - (2 : ℚ) ^ (-53 : Int)) ≤ (2 : ℚ) ^ (-52 : Int) * 1 := by rw [mul_one]; exact h2
    _ ≤ (2 : ℚ) ^ (-52 : Int) * ((1 + (2 : ℚ) ^ (-52 : Int)) * (1 - (2 : ℚ) ^ (-53 : Int))) :=
        mul_le_mul_of_nonneg_left c (two_zpow_pos _).le
    _ = _ := by ring

/-! ### non-vacuity / sharpness (closed doubles, evaluated by the kernel) -/

section Examples

/-- `sqrt 2` and `sqrt(f64::MAX)` are finite (`sqrt(f64::MAX) = 0x5FEFFFFFFFFFFFFF ≈ 1.34·10¹⁵⁴`), and so is `sqrt(−0)`. -/
example : (Scalar.sqrt (2 : Float) : Float).isFinite = true ∧
    (Scalar.sqrt (Float.ofBits 0x7FEFFFFFFFFFFFFF) : Float) = Float.ofBits 0x5FEFFFFFFFFFFFFF ∧
    (Scalar.sqrt (Float.ofBits 0x7FEFFFFFFFFFFFFF) : Float).isFinite = true ∧
    (Scalar.sqrt (Float.ofBits 0x8000000000000000) : Float).isFinite = true := by decide +kernel

/-- the hypotheses of `sqrt_finite_float` on `f64::MAX`, and the instance. -/
example : (Scalar.sqrt (Float.ofBits 0x7FEFFFFFFFFFFFFF) : Float).isFinite = true := by
  have hu : (Float.ofBits 0x7FEFFFFFFFFFFFFF).toModel.unpack =
      .finite .positive 9007199254740991 971 (by decide) := by
    rw [FM.float_unpack_ofBits _ (by decide)]; rfl
  refine sqrt_finite_float _ (by decide +kernel) ?_
  rw [toRat_of_unpack hu]
  simp only [sgnQ, one_mul]
  exact mul_nonneg (by norm_num) (two_zpow_pos _).le

/-- `sqrt_le_float` on `x = 2`, `B = 3/2`. -/
example : toRat (Scalar.sqrt (2 : Float) : Float) ≤ 3 / 2 * (1 + (2 : ℚ) ^ (-52 : Int)) := by
  have h2 : (2 : Float).toModel.unpack = .finite .positive 4503599627370496 (-51) (by decide) := by
    have : (2 : Float) = Float.ofBits 0x4000000000000000 := by decide +kernel
    rw [this, FM.float_unpack_ofBits _ (by decide)]; rfl
  have hv : toRat (2 : Float) = 2 := by rw [toRat_of_unpack h2]; norm_num [sgnQ]
  exact sqrt_le_float 2 (by decide +kernel) (by rw [hv]; norm_num) (3 / 2) (by norm_num) (by rw [hv]; norm_num)

/-- the hypothesis `0 ≤ toRat x` is needed: `sqrt(−1)` is a NaN. -/
example : (Scalar.sqrt (-1 : Float) : Float).isFinite = false := by decide +kernel

/-- `abs_sub_le_eps_toRat`: the hypotheses hold on `d0 = d1 = 25`, and on the
pair `d0 = EPSILON`, `d1 = −2⁻¹¹⁰`, for which the subtraction ROUNDS (`d0 ⊖ d1 = EPSILON`) and the exact difference
`2⁻⁵² + 2⁻¹¹⁰` EXCEEDS `2⁻⁵²`: the factor `(1 + 2⁻⁵²)` (or some slack) cannot be dropped. -/
example : Scalar.le (Scalar.abs ((25 : Float) - 25)) (Scalar.eps : Float) = true ∧
    Scalar.le (Scalar.abs (Float.ofBits 0x3CB0000000000000 - Float.ofBits 0xB910000000000000)) (Scalar.eps : Float) = true ∧
    (Float.ofBits 0x3CB0000000000000 - Float.ofBits 0xB910000000000000 = Float.ofBits 0x3CB0000000000000) := by
  decide +kernel

example : (2 : ℚ) ^ (-52 : Int) <
    |toRat (Float.ofBits 0x3CB0000000000000) - toRat (Float.ofBits 0xB910000000000000)| := by
  have h0 : (Float.ofBits 0x3CB0000000000000).toModel.unpack =
      .finite .positive 4503599627370496 (-104) (by decide) := by
    rw [FM.float_unpack_ofBits _ (by decide)]; rfl
  have h1 : (Float.ofBits 0xB910000000000000).toModel.unpack =
      .finite .negative 4503599627370496 (-162) (by decide) := by
    rw [FM.float_unpack_ofBits _ (by decide)]; rfl
  rw [toRat_of_unpack h0, toRat_of_unpack h1]
  norm_num [sgnQ]

end Examples

end Rosu.FErr
