/-
  Lemmas/PolyLipschitz.lean — arc-length parametrised polylines are 1-Lipschitz, for an abstract plane norm.

  Pure ordered-field mathematics (no model function here): vertices `pt j ∈ K × K`, cumulative lengths `L j`, `j < n`,
  strictly increasing, every booked segment length at least the chord (`nrm (pt (j+1) − pt j) ≤ L (j+1) − L j`).
  `polyAt i d` is what `interpolate_vertices(i, d)` computes; `IsIdx i d` is what `idx_of_dist(d)` returns on sorted
  lengths (the number of lengths below `d`). Result: `nrm (polyAt i' d' − polyAt i d) ≤ d' − d` for `d ≤ d'`.
  The norm is any function with the triangle inequality and absolute homogeneity (`NormLaws`): the `L¹` norm on
  `Rat × Rat` (`normLaws_l1`), the sup norm (`normLaws_sup`), the Euclidean norm on `ℝ × ℝ` (Props/C19Lipschitz.lean).
-/
import Mathlib.Tactic.Ring
import Mathlib.Tactic.Linarith
import Mathlib.Tactic.FieldSimp
import Mathlib.Algebra.Order.Field.Basic
import Mathlib.Algebra.Module.Prod
import Mathlib.Algebra.Order.Group.Abs
set_option linter.unusedSectionVars false
set_option linter.unusedVariables false
namespace Rosu

variable {K : Type} [Field K] [LinearOrder K] [IsStrictOrderedRing K]

/-- a (semi)norm of the plane: triangle inequality and absolute homogeneity. Hypothesis structure. -/
structure NormLaws (nrm : K × K → K) : Prop where
  triangle : ∀ u v : K × K, nrm (u + v) ≤ nrm u + nrm v
  homog : ∀ (t : K) (v : K × K), nrm (t • v) = |t| * nrm v

namespace NormLaws
variable {nrm : K × K → K} (Nm : NormLaws nrm)
include Nm

theorem zero : nrm 0 = 0 := by
  have := Nm.homog 0 0
  simpa using this

theorem neg (v : K × K) : nrm (-v) = nrm v := by
  have := Nm.homog (-1) v
  simpa using this

theorem sub_comm (u v : K × K) : nrm (u - v) = nrm (v - u) := by
  rw [← Nm.neg (v - u), neg_sub]

theorem tri3 (u v w : K × K) : nrm (u - w) ≤ nrm (u - v) + nrm (v - w) := by
  have := Nm.triangle (u - v) (v - w)
  rwa [sub_add_sub_cancel] at this

theorem smul_le (t : K) (ht : 0 ≤ t) (v : K × K) (c : K) (h : nrm v ≤ c) : nrm (t • v) ≤ t * c := by
  rw [Nm.homog, abs_of_nonneg ht]
  exact mul_le_mul_of_nonneg_left h ht

end NormLaws

/-- the `L¹` norm — exact on `Rat × Rat`. -/
theorem normLaws_l1 : NormLaws (fun v : K × K => |v.1| + |v.2|) where
  triangle u v := by
    simp only [Prod.fst_add, Prod.snd_add]
    linarith [abs_add_le u.1 v.1, abs_add_le u.2 v.2]
  homog t v := by
    simp only [Prod.smul_fst, Prod.smul_snd, smul_eq_mul, abs_mul]
    ring

/-- the sup norm — exact on `Rat × Rat`. -/
theorem normLaws_sup : NormLaws (fun v : K × K => max |v.1| |v.2|) where
  triangle u v := by
    simp only [Prod.fst_add, Prod.snd_add]
    apply max_le
    · linarith [abs_add_le u.1 v.1, le_max_left |u.1| |u.2|, le_max_left |v.1| |v.2|]
    · linarith [abs_add_le u.2 v.2, le_max_right |u.1| |u.2|, le_max_right |v.1| |v.2|]
  homog t v := by
    simp only [Prod.smul_fst, Prod.smul_snd, smul_eq_mul, abs_mul]
    rw [mul_max_of_nonneg _ _ (abs_nonneg t)]

/-! ### the polyline -/

/-- hypotheses on the polyline: at least one vertex, strictly increasing lengths, booked length ≥ chord. -/
structure Poly (nrm : K × K → K) (pt : Nat → K × K) (L : Nat → K) (n : Nat) : Prop where
  pos : 1 ≤ n
  mono : ∀ j, j + 1 < n → L j < L (j + 1)
  chord : ∀ j, j + 1 < n → nrm (pt (j + 1) - pt j) ≤ L (j + 1) - L j

/-- `p0 + (p1 - p0) * ((d - d0) / (d1 - d0))` -/
def segPt (pt : Nat → K × K) (L : Nat → K) (i : Nat) (d : K) : K × K :=
  pt (i - 1) + ((d - L (i - 1)) / (L i - L (i - 1))) • (pt i - pt (i - 1))

/-- `interpolate_vertices(i, d)` on a non-empty path without degenerate segments. -/
def polyAt (pt : Nat → K × K) (L : Nat → K) (n i : Nat) (d : K) : K × K :=
  if i = 0 then pt 0 else if n ≤ i then pt (n - 1) else segPt pt L i d

/-- `i` is the number of lengths below `d` (what the binary search returns on sorted lengths). -/
def IsIdx (L : Nat → K) (n i : Nat) (d : K) : Prop :=
  i ≤ n ∧ (∀ j, j < i → L j < d) ∧ (∀ j, i ≤ j → j < n → d ≤ L j)

section
variable {nrm : K × K → K} {pt : Nat → K × K} {L : Nat → K} {n : Nat}

theorem Poly.lt_of_lt (H : Poly nrm pt L n) : ∀ k j, j < k → k < n → L j < L k := by
  intro k
  induction k with
  | zero => intro j h; omega
  | succ k ih =>
    intro j hj hk
    rcases Nat.lt_or_ge j k with h | h
    · exact lt_trans (ih j h (by omega)) (H.mono k hk)
    · have : j = k := by omega
      subst this; exact H.mono j hk

theorem Poly.chain (Nm : NormLaws nrm) (H : Poly nrm pt L n) :
    ∀ k j, j ≤ k → k < n → nrm (pt k - pt j) ≤ L k - L j := by
  intro k
  induction k with
  | zero =>
    intro j hj _
    have : j = 0 := by omega
    subst this
    simp [Nm.zero]
  | succ k ih =>
    intro j hj hk
    rcases Nat.lt_or_ge j (k + 1) with h | h
    · have h1 := ih j (by omega) (by omega)
      have h2 := H.chord k hk
      have h3 := Nm.tri3 (pt (k + 1)) (pt k) (pt j)
      linarith
    · have : j = k + 1 := by omega
      subst this
      simp [Nm.zero]

theorem IsIdx.mono {i i' : Nat} {d d' : K} (h : IsIdx L n i d) (h' : IsIdx L n i' d') (hd : d ≤ d') :
    i ≤ i' := by
  by_contra hlt
  have hlt : i' < i := by omega
  have h1 := h.2.1 i' hlt
  have h2 := h'.2.2 i' (le_refl _) (by have := h.1; omega)
  linarith

/-- for `1 ≤ i < n`: `L (i-1) < d ≤ L i`. -/
theorem IsIdx.bounds {i : Nat} {d : K} (h : IsIdx L n i d) (h1 : 1 ≤ i) (hn : i < n) :
    L (i - 1) < d ∧ d ≤ L i := ⟨h.2.1 (i - 1) (by omega), h.2.2 i (le_refl _) hn⟩

theorem left_anchor (Nm : NormLaws nrm) (H : Poly nrm pt L n) {i : Nat} {d : K} (h : IsIdx L n i d)
    (h1 : 1 ≤ i) : nrm (polyAt pt L n i d - pt (i - 1)) ≤ d - L (i - 1) := by
  unfold polyAt
  rw [if_neg (by omega)]
  split
  · -- beyond the last length: the last vertex
    have hi : i = n := by have := h.1; omega
    subst hi
    have := h.2.1 (i - 1) (by omega)
    simp only [sub_self, Nm.zero]
    linarith
  · rename_i hn
    have hn : i < n := by omega
    obtain ⟨hlo, hhi⟩ := h.bounds h1 hn
    have hδ : 0 < L i - L (i - 1) := by
      have := H.mono (i - 1) (by omega)
      rw [show i - 1 + 1 = i by omega] at this
      linarith
    have hch : nrm (pt i - pt (i - 1)) ≤ L i - L (i - 1) := by
      have := H.chord (i - 1) (by omega)
      rwa [show i - 1 + 1 = i by omega] at this
    unfold segPt
    rw [add_sub_cancel_left]
    have hw : 0 ≤ (d - L (i - 1)) / (L i - L (i - 1)) := div_nonneg (by linarith) (le_of_lt hδ)
    have := Nm.smul_le _ hw _ _ hch
    rwa [div_mul_cancel₀ _ (ne_of_gt hδ)] at this

theorem right_anchor (Nm : NormLaws nrm) (H : Poly nrm pt L n) {i : Nat} {d : K} (h : IsIdx L n i d)
    (hn : i < n) : nrm (pt i - polyAt pt L n i d) ≤ L i - d := by
  unfold polyAt
  split
  · rename_i h0
    subst h0
    have := h.2.2 0 (le_refl _) hn
    simp only [sub_self, Nm.zero]
    linarith
  · rename_i h0
    rw [if_neg (by omega)]
    have h1 : 1 ≤ i := by omega
    obtain ⟨hlo, hhi⟩ := h.bounds h1 hn
    have hδ : 0 < L i - L (i - 1) := by
      have := H.mono (i - 1) (by omega)
      rw [show i - 1 + 1 = i by omega] at this
      linarith
    have hch : nrm (pt i - pt (i - 1)) ≤ L i - L (i - 1) := by
      have := H.chord (i - 1) (by omega)
      rwa [show i - 1 + 1 = i by omega] at this
    unfold segPt
    have e : pt i - (pt (i - 1) + ((d - L (i - 1)) / (L i - L (i - 1))) • (pt i - pt (i - 1))) =
        ((L i - d) / (L i - L (i - 1))) • (pt i - pt (i - 1)) := by
      have hne := ne_of_gt hδ
      ext <;> simp only [Prod.fst_sub, Prod.snd_sub, Prod.fst_add, Prod.snd_add, Prod.smul_fst, Prod.smul_snd,
        smul_eq_mul] <;> field_simp <;> ring
    rw [e]
    have hw : 0 ≤ (L i - d) / (L i - L (i - 1)) := div_nonneg (by linarith) (le_of_lt hδ)
    have := Nm.smul_le _ hw _ _ hch
    rwa [div_mul_cancel₀ _ (ne_of_gt hδ)] at this

theorem same_idx (Nm : NormLaws nrm) (H : Poly nrm pt L n) {i : Nat} {d d' : K} (h : IsIdx L n i d)
    (hd : d ≤ d') : nrm (polyAt pt L n i d' - polyAt pt L n i d) ≤ d' - d := by
  unfold polyAt
  split
  · simp only [sub_self, Nm.zero]; linarith
  · split
    · simp only [sub_self, Nm.zero]; linarith
    · rename_i h0 hn
      have h1 : 1 ≤ i := by omega
      have hn : i < n := by omega
      have hδ : 0 < L i - L (i - 1) := by
        have := H.mono (i - 1) (by omega)
        rw [show i - 1 + 1 = i by omega] at this
        linarith
      have hch : nrm (pt i - pt (i - 1)) ≤ L i - L (i - 1) := by
        have := H.chord (i - 1) (by omega)
        rwa [show i - 1 + 1 = i by omega] at this
      unfold segPt
      have e : pt (i - 1) + ((d' - L (i - 1)) / (L i - L (i - 1))) • (pt i - pt (i - 1)) -
          (pt (i - 1) + ((d - L (i - 1)) / (L i - L (i - 1))) • (pt i - pt (i - 1))) =
          ((d' - d) / (L i - L (i - 1))) • (pt i - pt (i - 1)) := by
        have hne := ne_of_gt hδ
        ext <;> simp only [Prod.fst_sub, Prod.snd_sub, Prod.fst_add, Prod.snd_add, Prod.smul_fst, Prod.smul_snd,
          smul_eq_mul] <;> field_simp <;> ring
      rw [e]
      have hw : 0 ≤ (d' - d) / (L i - L (i - 1)) := div_nonneg (by linarith) (le_of_lt hδ)
      have := Nm.smul_le _ hw _ _ hch
      rwa [div_mul_cancel₀ _ (ne_of_gt hδ)] at this

/-- **an arc-length parametrised polyline is 1-Lipschitz**: moving from distance `d` to `d' ≥ d` along the
polyline moves the point by at most `d' − d` in the norm. -/
theorem poly_lipschitz (Nm : NormLaws nrm) (H : Poly nrm pt L n) {i i' : Nat} {d d' : K}
    (h : IsIdx L n i d) (h' : IsIdx L n i' d') (hd : d ≤ d') :
    nrm (polyAt pt L n i' d' - polyAt pt L n i d) ≤ d' - d := by
  have hii := h.mono h' hd
  rcases Nat.lt_or_ge i i' with hlt | hge
  · have hA := left_anchor Nm H h' (by omega)
    have hB := right_anchor Nm H h (by have := h'.1; omega)
    have hC := H.chain Nm (i' - 1) i (by omega) (by have := h'.1; omega)
    have t1 := Nm.tri3 (polyAt pt L n i' d') (pt (i' - 1)) (polyAt pt L n i d)
    have t2 := Nm.tri3 (pt (i' - 1)) (pt i) (polyAt pt L n i d)
    linarith
  · have : i' = i := by omega
    subst this
    exact same_idx Nm H h hd

/-- symmetric form. -/
theorem poly_lipschitz_abs (Nm : NormLaws nrm) (H : Poly nrm pt L n) {i i' : Nat} {d d' : K}
    (h : IsIdx L n i d) (h' : IsIdx L n i' d') :
    nrm (polyAt pt L n i' d' - polyAt pt L n i d) ≤ |d' - d| := by
  rcases le_total d d' with hd | hd
  · rw [abs_of_nonneg (by linarith)]; exact poly_lipschitz Nm H h h' hd
  · rw [abs_of_nonpos (by linarith), Nm.sub_comm, neg_sub]; exact poly_lipschitz Nm H h' h hd

end

end Rosu
