/-
  Lemmas/RtTimingFile.lean — from the group loop to the map and the file:

  * `encodeTimingPoints_eq`: the `[TimingPoints]` block of a map is its header plus `groupLines` of the collected control
    points (no law needed); `collectSamples_others`: collecting samples only changes the sample points;
  * `RepTimingMap`: the explicit predicate on a map under which every line is accepted (`timing_block_spec`);
  * `tpState_frame`: what the re-decode of the file leaves in the timing-point state — the fold of
    `parse_timing_points` over exactly the block's lines, from the fresh state with the re-decoded `[General]` values.
-/
import RosuModel.Lemmas.RtTiming
import RosuModel.Lemmas.RtFile
import RosuModel.Props.C12
namespace Rosu
namespace RtTiming
open Rosu Encode EncodeLines Scalar C11
set_option linter.unusedSectionVars false

variable {F P : Type} [Scalar F] [Scalar P] [Cvt P F] [Trig F] [Trig P] {R : F → Prop} {RP : P → Prop}

/-! ### the block of a map -/

/-- **the `[TimingPoints]` block is its lines**: header, then the lines of the group loop over the collected control
points, each followed by a line feed. -/
theorem encodeTimingPoints_eq (m : Beatmap F P) (t : Str) (h : encodeTimingPoints m = .ok t) :
    ∃ cp, collectSamples m = .ok cp ∧
      t = unlines (str "[TimingPoints]" :: groupLines m.general.mode cp (timingGroups cp) Props.default) := by
  unfold encodeTimingPoints at h
  cases hc : collectSamples m with
  | error e => simp [hc, bind, Except.bind] at h
  | ok cp =>
    simp only [hc, bind, Except.bind, pure, Except.pure] at h
    injection h with h
    refine ⟨cp, rfl, ?_⟩
    have hh : str "[TimingPoints]\n" = str "[TimingPoints]" ++ EncodeLines.nl := by decide
    rw [← h, unlines_cons, ← encodeGroups_eq, hh]
    rfl

theorem addSample_others (cp : ControlPoints F) (s : SamplePoint F) :
    (cp.addSample s).timingPoints = cp.timingPoints ∧ (cp.addSample s).difficultyPoints = cp.difficultyPoints ∧
    (cp.addSample s).effectPoints = cp.effectPoints := by
  unfold ControlPoints.addSample
  split <;> exact ⟨rfl, rfl, rfl⟩

theorem addCollected_others (cp : ControlPoints F) (l : List (SamplePoint F)) :
    (addCollected cp l).timingPoints = cp.timingPoints ∧ (addCollected cp l).difficultyPoints = cp.difficultyPoints ∧
    (addCollected cp l).effectPoints = cp.effectPoints := by
  cases l with
  | nil => exact ⟨rfl, rfl, rfl⟩
  | cons first rest =>
    have gen : ∀ (rest : List (SamplePoint F)) (acc : ControlPoints F × SamplePoint F),
        ((rest.foldl (fun (acc : ControlPoints F × SamplePoint F) s =>
          if !s.isRedundant acc.2 then (acc.1.addSample s, s) else acc) acc).1).timingPoints = acc.1.timingPoints ∧
        ((rest.foldl (fun (acc : ControlPoints F × SamplePoint F) s =>
          if !s.isRedundant acc.2 then (acc.1.addSample s, s) else acc) acc).1).difficultyPoints = acc.1.difficultyPoints ∧
        ((rest.foldl (fun (acc : ControlPoints F × SamplePoint F) s =>
          if !s.isRedundant acc.2 then (acc.1.addSample s, s) else acc) acc).1).effectPoints = acc.1.effectPoints := by
      intro rest
      induction rest with
      | nil => intro acc; exact ⟨rfl, rfl, rfl⟩
      | cons s r ih =>
        intro acc
        rw [List.foldl_cons]
        obtain ⟨h1, h2, h3⟩ := ih (if !s.isRedundant acc.2 then (acc.1.addSample s, s) else acc)
        rw [h1, h2, h3]
        split
        · exact addSample_others acc.1 s
        · exact ⟨rfl, rfl, rfl⟩
    obtain ⟨h1, h2, h3⟩ := gen rest (cp.addSample first, first)
    obtain ⟨g1, g2, g3⟩ := addSample_others cp first
    simp only [addCollected]
    exact ⟨h1.trans g1, h2.trans g2, h3.trans g3⟩

/-- **collecting the objects' samples only touches the sample points.** -/
theorem collectSamples_others (m : Beatmap F P) (cp : ControlPoints F) (h : collectSamples m = .ok cp) :
    cp.timingPoints = m.controlPoints.timingPoints ∧ cp.difficultyPoints = m.controlPoints.difficultyPoints ∧
    cp.effectPoints = m.controlPoints.effectPoints := by
  unfold collectSamples at h
  cases hc : collectAll m m.hitObjects [] with
  | error e => simp [hc, bind, Except.bind] at h
  | ok collected =>
    simp only [hc, bind, Except.bind, pure, Except.pure] at h
    injection h with h
    rw [← h]
    exact addCollected_others _ _

/-! ### the representability predicate of a map -/

/-- **a map whose `[TimingPoints]` block the decoder reads back** (`R` = the values the number codec round-trips):

* every timing point: time and beat length representable, time within the parse limit ±(2³¹−1) and not NaN, beat length
  within the beat-length limits and not NaN; signature numerator `1 ≤ n ≤ 2³¹−1`;
* every difficulty / effect point: time representable and within the limit;
* every slider velocity (scroll speed in taiko / mania) that can become the inherited beat length `-100 / v`, and the
  default `1`: `-100 / v` representable and within the beat-length limits;
* every sample point **after `collect_samples`** (the map's own plus those collected from the hit objects): time
  representable and within the limit, custom bank `≤ 2³¹−1`.

For a map obtained by decoding, all clauses about the map's own control points hold by construction (parsed with these
very limits, clamped to `[6, 60000]` / `[0.1, 10]` / `[0.01, 10]`, NaN timing changes rejected) as soon as the codec
represents those finite values. The clause that a decoded map CAN violate is the last one: collected sample points sit
at computed times — `start + duration` of spinners / holds / sliders and the node times produced by `slider_events`
— which may be non-finite or exceed the limit; such a line is rejected by the decoder (`Number.Overflow` /
`InvalidFloat`). That case is not assumed away: it is what the implementation-level `lines` oracle watches. -/
structure RepTimingMap (R : F → Prop) (m : Beatmap F P) : Prop where
  sig : ∀ t ∈ m.controlPoints.timingPoints, 1 ≤ t.timeSignature.numerator ∧ (t.timeSignature.numerator : Int) ≤ i32Max
  sv : ∀ v ∈ (1 : F) :: svSource m.general.mode m.controlPoints, SvOk R v
  timing : ∀ t ∈ m.controlPoints.timingPoints,
    R t.time ∧ InLimit t.time ∧ R t.beatLen ∧ BeatLimit t.beatLen ∧ isNaN t.beatLen = false
  difficulty : ∀ p ∈ m.controlPoints.difficultyPoints, R p.time ∧ InLimit p.time
  effect : ∀ p ∈ m.controlPoints.effectPoints, R p.time ∧ InLimit p.time
  samples : ∀ cp, collectSamples m = .ok cp → ∀ s ∈ cp.samplePoints, R s.time ∧ InLimit s.time ∧ s.customSampleBank ≤ i32Max

theorem svSource_congr (mode : GameMode) (a b : ControlPoints F) (hd : a.difficultyPoints = b.difficultyPoints)
    (he : a.effectPoints = b.effectPoints) : svSource mode a = svSource mode b := by
  cases mode <;> simp [svSource, hd, he]

theorem repTimingMap_cp (m : Beatmap F P) (hm : RepTimingMap R m) (cp : ControlPoints F) (hc : collectSamples m = .ok cp) :
    RepCp R m.general.mode cp ∧ RepTimes R cp := by
  obtain ⟨h1, h2, h3⟩ := collectSamples_others m cp hc
  refine ⟨⟨?_, ?_, ?_⟩, ⟨?_, ?_, ?_, ?_⟩⟩
  · rw [h1]; exact hm.sig
  · exact fun s hs => (hm.samples cp hc s hs).2.2
  · rw [svSource_congr _ cp m.controlPoints h2 h3]; exact hm.sv
  · rw [h1]; exact hm.timing
  · rw [h2]; exact hm.difficulty
  · rw [h3]; exact hm.effect
  · exact fun s hs => ⟨(hm.samples cp hc s hs).1, (hm.samples cp hc s hs).2.1⟩

/-- the entries of a map's block. -/
def mapEntries (m : Beatmap F P) (cp : ControlPoints F) : List (Entry F) :=
  groupEntries m.general.mode cp (timingGroups cp) Props.default

/-- **block level**: for a representable map and a lawful codec the block is its header plus the entries' lines; every
line is LF-free and (end-trimmed) neither a header nor skipped, and is accepted by `parse_timing_points` in any state,
being applied as exactly the values written. -/
theorem timing_block_spec (L : CodecLaws F R) (m : Beatmap F P) (hm : RepTimingMap R m) (t : Str)
    (h : encodeTimingPoints m = .ok t) :
    ∃ cp, collectSamples m = .ok cp ∧ t = unlines (str "[TimingPoints]" :: (mapEntries m cp).map Entry.line) ∧
      ∀ e ∈ mapEntries m cp, RepEntry R e ∧ '\n' ∉ e.line ∧ RecordLine (trimEnd e.line) ∧
        ∀ st : TimingPointsState F P,
          parseTimingPoints st (trimEnd e.line) = (.ok (), applyTpLine st (e.read st.general.defaultSampleBank)) := by
  obtain ⟨cp, hc, ht⟩ := encodeTimingPoints_eq m t h
  obtain ⟨h1, h2⟩ := repTimingMap_cp m hm cp hc
  refine ⟨cp, hc, ht, fun e he => ?_⟩
  have hr := entries_rep h1 (timingGroups cp) (timingGroups_rep cp h2) lastOk_default e he
  exact ⟨hr, (entry_shape L e hr).1, (entry_shape L e hr).2, entry_accepted L e hr⟩

/-! ### the timing-point state after re-decoding the file -/

omit [Trig F] [Trig P] in
theorem tp_parseGeneral (tp : TimingPointsState F P) (l : Str) :
    (tp.parseGeneral l).2 = { tp with general := (parseGeneral tp.general l).2 } := RtFile.tpParseGeneral_general tp l

/-- the timing-point state inside the `Beatmap` decoder state. -/
def tpState (st : BeatmapState F P) : TimingPointsState F P := st.hitObjects.timingPoints

omit [Trig F] [Trig P] in
theorem tpState_general (st : BeatmapState F P) (rs : List Str) :
    tpState (rs.foldl (BeatmapState.step .general) st) =
      { tpState st with general := runSection RtGeneral.generalStep (tpState st).general rs } := by
  induction rs generalizing st with
  | nil => rfl
  | cons r rs ih =>
    rw [List.foldl_cons, ih]
    simp only [runSection_cons]
    simp [tpState, BeatmapState.step, HitObjectsState.step, tp_parseGeneral, RtGeneral.generalStep]

omit [Trig F] [Trig P] in
theorem tpState_timingPoints (st : BeatmapState F P) (rs : List Str) :
    tpState (rs.foldl (BeatmapState.step .timingPoints) st) = C12.runStrs (tpState st) rs := by
  induction rs generalizing st with
  | nil => rfl
  | cons r rs ih =>
    rw [List.foldl_cons, ih]
    simp [tpState, BeatmapState.step, HitObjectsState.step, C12.runStrs]

omit [Trig F] [Trig P] in
/-- the other six sections do not touch the timing-point state. -/
theorem tpState_other (s : Section) (hs : s ≠ .general ∧ s ≠ .timingPoints) (st : BeatmapState F P) (rs : List Str) :
    tpState (rs.foldl (BeatmapState.step s) st) = tpState st := by
  induction rs generalizing st with
  | nil => rfl
  | cons r rs ih =>
    rw [List.foldl_cons, ih]
    cases s <;> first | rfl | exact absurd rfl hs.1 | exact absurd rfl hs.2

omit [Trig F] [Trig P] in
/-- **tpState_frame**: after framing the lines of a file whose record blocks are the encoder's, the timing-point
state is the fold of `parse_timing_points` over exactly the lines `T` of the `[TimingPoints]` block, started from the
fresh state carrying the re-decoded `[General]` values. -/
theorem tpState_frame (LP : CodecLaws P RP) (LI : IntPrintLaw F) (m : Beatmap F P)
    (hv : -i32Max ≤ m.formatVersion ∧ m.formatVersion ≤ i32Max) (hg : RtGeneral.RepGeneral RP m.general)
    (E M D Ev T C H : List Str)
    (hE : ∀ r ∈ E, RecordLine r) (hM : ∀ r ∈ M, RecordLine r) (hD : ∀ r ∈ D, RecordLine r) (hEv : ∀ r ∈ Ev, RecordLine r)
    (hT : ∀ r ∈ T, RecordLine r) (hC : ∀ r ∈ C, RecordLine r) (hH : ∀ r ∈ H, RecordLine r) :
    tpState (frame (beatmapDecoder : LineDecoder (BeatmapState F P))
      (RtFile.fileLines m.formatVersion (RtGeneral.decodedLines m.general (RtGeneral.sampleSetOf m.controlPoints))
        E M D Ev T C H)) =
      C12.runStrs { (TimingPointsState.create : TimingPointsState F P) with
        general := RtGeneral.preservedGeneral m.general (RtGeneral.sampleSetOf m.controlPoints) } T := by
  rw [RtFile.frame_fileLines _ _ hv.1 hv.2 _ _ _ _ _ _ _ _
    (RtGeneral.general_block_roundtrip LI LP _ _ hg).1 hE hM hD hEv hT hC hH]
  simp only [beatmapDecoder]
  rw [tpState_other .hitObjects (by decide), tpState_other .colors (by decide), tpState_timingPoints,
    tpState_other .events (by decide), tpState_other .difficulty (by decide), tpState_other .metadata (by decide),
    tpState_other .editor (by decide), tpState_general]
  have : (tpState (BeatmapState.create m.formatVersion : BeatmapState F P)) = TimingPointsState.create := rfl
  rw [this]
  have hgen : (TimingPointsState.create : TimingPointsState F P).general = GeneralState.default := rfl
  rw [hgen, RtGeneral.general_block_result LI LP _ _ hg]

/-- **file_timing_state**: `RtFile.file_record_roundtrip` extended by the timing-point state. Reading the encoded file
back (UTF-8 bytes, reader, framing, `Beatmap` decoder) succeeds, leaves the record fields of the map (preserved view), and
leaves in the timing-point state exactly the fold of `parse_timing_points` over the end-trimmed lines of the
`[TimingPoints]` block — no line lost, none added, none handed to another parser. -/
theorem file_timing_state {RF : F → Prop} (LF : CodecLaws F RF) (LP : CodecLaws P RP) (LI : IntPrintLaw F) (m : Beatmap F P)
    (hm : RtFile.RepRecords RF RP m) (t : Str) (T H : List Str) (h : encode m = .ok t)
    (hT : encodeTimingPoints m = .ok (unlines (str "[TimingPoints]" :: T)))
    (hH : encodeHitObjects m = .ok (unlines (str "[HitObjects]" :: H)))
    (sT : RtFile.ListBlockShape T) (sH : RtFile.ListBlockShape H) :
    ∃ st : BeatmapState F P, decodeBytes beatmapDecoder (utf8Encode t) = .ok st ∧
      RtFile.recView st = RtFile.preservedRecords m ∧
      tpState st = C12.runStrs { (TimingPointsState.create : TimingPointsState F P) with
        general := RtGeneral.preservedGeneral m.general (RtGeneral.sampleSetOf m.controlPoints) } (T.map trimEnd) := by
  have ht := RtFile.encode_eq_unlines m t T H h hT hH
  have hhead : t.head? ≠ some (Char.ofNat 0xFEFF) := by
    rw [ht]
    have : ∀ rest, (unlines (RtFile.versionLine m.formatVersion :: rest)).head? = some 'o' := by
      intro rest
      have e : RtFile.versionLine m.formatVersion = 'o' :: (str "su file format v" ++ showInt m.formatVersion) := rfl
      rw [unlines_cons, e]
      rfl
    unfold RtFile.fileLines
    rw [this]
    decide
  refine ⟨_, RtFile.decodeBytes_utf8_text _ t hhead, ?_⟩
  have hlines : (textLines t).map trimEnd =
      RtFile.fileLines m.formatVersion (RtGeneral.decodedLines m.general (RtGeneral.sampleSetOf m.controlPoints))
        (RtEditor.decodedLines m.editor) (RtMetadata.decodedLines m.metadata) (RtDifficulty.decodedLines m.difficulty)
        (RtEvents.decodedLines m.events) (T.map trimEnd) (RtColours.decodedLines m.colors) (H.map trimEnd) := by
    rw [ht]
    exact (lines_of_unlines _ (RtFile.fileLines_no_lf _ _ _ _ _ _ _ _ _
      (RtGeneral.generalLines_no_lf LI LP _ _ hm.general) (RtEditor.editorLines_no_lf LF _ hm.editor)
      (RtMetadata.metadataLines_no_lf _ hm.metadata) (RtDifficulty.difficultyLines_no_lf LF LP _ hm.difficulty)
      (RtEvents.eventLines_no_lf LF _ hm.events) (fun l hl => (sT l hl).1) (RtColours.colourLines_no_lf _ hm.colors)
      (fun l hl => (sH l hl).1))).trans (RtFile.fileLines_map_trimEnd _ _ _ _ _ _ _ _ _)
  rw [hlines]
  have rT : ∀ r ∈ T.map trimEnd, RecordLine r := fun r hr => by
    obtain ⟨l, hl, rfl⟩ := List.mem_map.mp hr; exact (sT l hl).2
  have rH : ∀ r ∈ H.map trimEnd, RecordLine r := fun r hr => by
    obtain ⟨l, hl, rfl⟩ := List.mem_map.mp hr; exact (sH l hl).2
  exact ⟨RtFile.recView_frame LF LP LI m hm _ _ rT rH,
    tpState_frame LP LI m hm.version hm.general _ _ _ _ _ _ _
      (RtEditor.editor_block_roundtrip LF _ hm.editor).1 (RtMetadata.metadata_block_roundtrip _ hm.metadata).1
      (RtDifficulty.difficulty_block_roundtrip LF LP _ hm.difficulty).1 (RtEvents.events_block_roundtrip LF _ hm.events).1
      rT (RtColours.colours_block_roundtrip _ hm.colors).1 rH⟩

end RtTiming
end Rosu
