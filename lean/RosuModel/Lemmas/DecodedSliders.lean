/-
  Lemmas/DecodedSliders.lean — what the decoder stores in the `SliderPath` of every slider of a decoded map
  (structural, every `Scalar`):

  * `parseLength_stored`, `buildSlider_path`: the expected distance is absent, or `Some(max(l, 0))` for a parsed `l`
    with `|max(l, 0)| >= f64::EPSILON` (`ExpStored`); the path mode is the mode handed to the line parser;
  * `sliderInv_frame`: the invariant "every pushed slider satisfies `Q`" through the framing driver, for any `Q` that
    `buildSlider` establishes;
  * `decoded_slider_origin`: every slider of the finished `Beatmap` has the `SliderPath` data (mode, control points,
    expected distance) of a slider pushed by a `[HitObjects]` line — sorting, `post_process_breaks` and the finaliser
    loop change new-combo flags, velocity and node samples only;
  * **`decoded_expected_stored`**: for every byte string, every slider of the decoded map has `ExpStored` expected
    distance.

  NOTE (mode). The path mode of a slider is `state.timing_points.mode()` *at the time its line is parsed*
  (decode.rs: `SliderPath::new(state.timing_points.mode(), control_points, len)`); the map's mode is the one left at
  the end of the file. They differ when a `Mode:` line follows the slider's line (sections may come in any order and
  repeat), so no invariant `s.path.mode = m.general.mode` holds of decoded maps (Props/C01Ieee.lean has a witness).
-/
import RosuModel.Lemmas.DecodedInvFrame
import RosuModel.Lemmas.DecodedInvReader
import RosuModel.Props.C15Map
import RosuModel.Props.C14
namespace Rosu
namespace DecodedSliders
open Rosu Scalar
set_option linter.unusedSectionVars false

variable {F P : Type} [Scalar F] [Scalar P] [Cvt P F]

/-! ### one line -/

/-- what `parse_hit_objects` stores as `expected_dist`: nothing, or `max(l, 0)` of a parsed number `l` that passed the
`abs() >= f64::EPSILON` test. -/
def ExpStored (e : Option F) : Prop :=
  ∀ L, e = some L → ∃ l : F, L = Scalar.max l 0 ∧ Scalar.le (Scalar.eps : F) (Scalar.abs (Scalar.max l 0)) = true

omit [Scalar P] [Cvt P F] in
theorem parseLength_stored (rest2 : List Str) (e : Option F) (h : parseLength rest2 = some e) : ExpStored e := by
  unfold parseLength at h
  split at h
  · split at h
    · cases h
    · rename_i l _
      simp only [Option.some.injEq] at h
      subst h
      intro L hL
      split at hL
      · rename_i hge
        cases hL
        exact ⟨l, rfl, hge⟩
      · cases hL
  · cases h
    intro L hL; cases hL

omit [Cvt P F] in
theorem prelude_len_stored (hd : Header F P) (pre : SliderPrelude F) (h : sliderPrelude hd = some pre) :
    ExpStored pre.len := by
  unfold sliderPrelude at h
  split at h
  · split at h
    · cases h
    · split at h
      · cases h
      · split at h
        · cases h
        · rename_i len hlen
          split at h
          · cases h
          · split at h
            · cases h
            · cases h
              exact parseLength_stored _ _ hlen
  · cases h

/-- the `SliderPath` a slider line builds: the mode handed to the parser and a stored expected distance. -/
theorem buildSlider_path (mode : GameMode) (st st' : HOCore F P) (hd : Header F P) (k : HitObjectKind F P)
    (b : SampleBankInfo) (h : buildSlider mode st hd = (st', some (k, b))) :
    ∃ s : HitObjectSlider F P, k = .slider s ∧ s.path.mode = mode ∧ ExpStored s.path.expectedDist := by
  unfold buildSlider at h
  split at h
  · cases h
  · rename_i pre hpre
    split at h
    · cases h
    · cases h
      exact ⟨_, rfl, rfl, prelude_len_stored hd pre hpre⟩

/-- every slider of the list satisfies `Q`. -/
def SliderInv (Q : HitObjectSlider F P → Prop) (hs : List (HitObject F P)) : Prop :=
  ∀ h ∈ hs, ∀ s, h.kind = .slider s → Q s

omit [Scalar F] [Scalar P] [Cvt P F] in
theorem sliderInv_nil (Q : HitObjectSlider F P → Prop) : SliderInv Q ([] : List (HitObject F P)) :=
  fun _ h => absurd h List.not_mem_nil

omit [Scalar F] [Scalar P] [Cvt P F] in
theorem sliderInv_snoc (Q : HitObjectSlider F P → Prop) (hs : List (HitObject F P)) (o : HitObject F P)
    (h : SliderInv Q hs) (ho : ∀ s, o.kind = .slider s → Q s) : SliderInv Q (hs ++ [o]) := by
  intro x hx s hk
  rcases List.mem_append.mp hx with hx | hx
  · exact h x hx s hk
  · simp only [List.mem_singleton] at hx
    subst hx
    exact ho s hk

/-- **one `[HitObjects]` line keeps the slider invariant**, for every `Q` that holds of what the slider arm builds
in the given mode. Accepted or rejected line, any state. -/
theorem parseHitObjectLine_sliderInv (Q : HitObjectSlider F P → Prop) (mode : GameMode)
    (hQ : ∀ s : HitObjectSlider F P, s.path.mode = mode → ExpStored s.path.expectedDist → Q s)
    (st : HOCore F P) (line : Str) (h : SliderInv Q st.hitObjects) :
    SliderInv Q (parseHitObjectLine mode st line).1.hitObjects := by
  unfold parseHitObjectLine
  split
  · exact h
  · rename_i hd _
    split
    · exact h
    · -- circle
      split
      · exact h
      · rename_i k b hb
        refine sliderInv_snoc Q _ _ h ?_
        intro s hk
        have := C14.buildCircle_class st hd k b hb
        simp only [] at hk
        rw [hk] at this
        cases this
    · -- slider
      split
      · rename_i st' hb
        have hf := C14.buildSlider_frame mode st hd
        rw [hb] at hf
        simp only [] at hf ⊢
        rw [hf.1]; exact h
      · rename_i st' k b hb
        have hf := C14.buildSlider_frame mode st hd
        rw [hb] at hf
        obtain ⟨s0, hs0, hm, he⟩ := buildSlider_path mode st st' hd k b hb
        show SliderInv Q (pushObject st' hd k b).hitObjects
        simp only [pushObject]
        simp only [] at hf
        rw [hf.1]
        refine sliderInv_snoc Q _ _ h ?_
        intro s hk
        simp only [] at hk
        rw [hs0] at hk
        cases hk
        exact hQ s0 hm he
    · -- spinner
      split
      · exact h
      · rename_i k b hb
        refine sliderInv_snoc Q _ _ h ?_
        intro s hk
        have := C14.buildSpinner_class hd k b hb
        simp only [] at hk
        rw [hk] at this
        cases this
    · -- hold
      split
      · exact h
      · rename_i k b hb
        refine sliderInv_snoc Q _ _ h ?_
        intro s hk
        have := C14.buildHold_class hd k b hb
        simp only [] at hk
        rw [hk] at this
        cases this

/-! ### through the framing driver -/

/-- the stored-distance invariant of the `Beatmap` decoder state. -/
def StoredInv (st : BeatmapState F P) : Prop :=
  SliderInv (fun s => ExpStored s.path.expectedDist) st.hitObjects.core.hitObjects

theorem storedInv_create (v : Int) : StoredInv (BeatmapState.create v : BeatmapState F P) :=
  sliderInv_nil _

theorem hoStep_core_objects (sec : Section) (st : HitObjectsState F P) (l : Str) :
    (st.step sec l).core.hitObjects = st.core.hitObjects ∨
      (sec = .hitObjects ∧
        (st.step sec l).core = (parseHitObjectLine st.timingPoints.general.mode st.core l).1) := by
  cases sec <;> first | exact Or.inl rfl | exact Or.inr ⟨rfl, rfl⟩

theorem storedInv_step (sec : Section) (st : BeatmapState F P) (l : Str) (h : StoredInv st) :
    StoredInv (BeatmapState.step sec st l) := by
  unfold StoredInv at h ⊢
  have key : SliderInv (fun s => ExpStored s.path.expectedDist) (st.hitObjects.step sec l).core.hitObjects := by
    rcases hoStep_core_objects sec st.hitObjects l with e | ⟨_, e⟩
    · rw [e]; exact h
    · rw [e]
      exact parseHitObjectLine_sliderInv _ _ (fun _ _ he => he) _ _ h
  cases sec <;> first | exact key | exact h

/-- **every decoded byte string leaves the decoder with stored-form expected distances only.** -/
theorem storedInv_decoded (bs : List UInt8) (st : BeatmapState F P)
    (h : decodeBytes beatmapDecoder bs = .ok st) : StoredInv st := by
  obtain ⟨ls, rfl, _⟩ := DecodedInv.decodeBytes_lines _ bs st h
  exact DecodedInv.frame_invariant_lines (beatmapDecoder : LineDecoder (BeatmapState F P)) StoredInv (fun _ => True)
    (fun v _ => storedInv_create v) (fun s st l _ hst => storedInv_step s st l hst) ls (fun _ _ => True.intro)

/-! ### through the finaliser -/

section Finish
variable [Trig F] [Trig P]

omit [Scalar F] [Scalar P] [Cvt P F] [Trig F] [Trig P] in
theorem pointwise_mem {α β : Type} {R : α → β → Prop} {as : List α} {bs : List β} (h : C15.Pointwise R as bs) :
    ∀ b ∈ bs, ∃ a ∈ as, R a b := by
  induction h with
  | nil => intro b hb; cases hb
  | cons hab _ ih =>
    intro b hb
    rcases List.mem_cons.mp hb with rfl | hb
    · exact ⟨_, List.mem_cons_self, hab⟩
    · obtain ⟨a, ha, hr⟩ := ih b hb
      exact ⟨a, List.mem_cons_of_mem _ ha, hr⟩

/-- **every slider of the finished map carries the `SliderPath` data of a parsed slider.** -/
theorem decoded_slider_origin (st : BeatmapState F P) (m : Beatmap F P) (hf : st.finish = .ok m)
    (h : HitObject F P) (hh : h ∈ m.hitObjects) (s : HitObjectSlider F P) (hk : h.kind = .slider s) :
    ∃ h0 ∈ st.hitObjects.core.hitObjects, ∃ s0, h0.kind = .slider s0 ∧ s.path = s0.path := by
  unfold BeatmapState.finish at hf
  cases hho : st.hitObjects.finish with
  | error e => simp [hho, bind, Except.bind] at hf
  | ok ho =>
    simp only [hho, bind, Except.bind, pure, Except.pure] at hf
    injection hf with hf
    subst hf
    obtain ⟨hp, hpw⟩ := C15.finalize_perm st.hitObjects ho hho
    obtain ⟨a, ha, _, hsim, _⟩ := pointwise_mem hpw h hh
    refine ⟨a, hp.mem_iff.mp ha, ?_⟩
    rw [hk] at hsim
    cases hak : a.kind with
    | slider s0 =>
      rw [hak] at hsim
      simp only [C15.KindSim] at hsim
      exact ⟨s0, rfl, by rw [hsim.1]⟩
    | circle c => rw [hak] at hsim; exact hsim.elim
    | spinner c => rw [hak] at hsim; exact hsim.elim
    | hold c => rw [hak] at hsim; exact hsim.elim

/-- **decoded sliders store `None` or `Some(max(l, 0))` with `|max(l, 0)| >= ε`** — every byte string. -/
theorem decoded_expected_stored (bs : List UInt8) (st : BeatmapState F P) (m : Beatmap F P)
    (h1 : decodeBytes beatmapDecoder bs = .ok st) (h2 : st.finish = .ok m) :
    SliderInv (fun s => ExpStored s.path.expectedDist) m.hitObjects := by
  intro h hh s hk
  obtain ⟨h0, hh0, s0, hk0, hp⟩ := decoded_slider_origin st m h2 h hh s hk
  show ExpStored s.path.expectedDist
  rw [hp]
  exact storedInv_decoded bs st h1 h0 hh0 s0 hk0

end Finish

end DecodedSliders
end Rosu
