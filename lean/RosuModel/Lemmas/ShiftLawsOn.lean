/-
  Lemmas/ShiftLawsOn.lean — the shift laws of Lemmas/ShiftLaws.lean RELATIVE TO A DOMAIN `S` of times.

  `ShiftLaws F k` quantifies over every value of the scalar type and is therefore false of IEEE doubles
  (Props/IeeeFalse.lean). `ShiftLawsOn S k` states the same five facts only for arguments in `S`, plus the one
  membership fact the finaliser needs of `S` itself (the control-point leniency `5` lies in `S`). It is a THEOREM of
  the driver's `Float` instance for `S` = the doubles that are integers below `2^51` and `k` such an integer
  (Props/C15IeeeShift.lean, from Lemmas/FloatIntExact.lean).

  `S` is not assumed closed under `+` (no bounded set is): wherever the finaliser or a parser forms a derived time
  (`start + duration`, `… + 5`), membership of THAT value is a hypothesis of the lemma that needs it
  (`ObjIn`, Props/C15ShiftOn.lean). What is proved here: every search, lookup and `add` of Model/ControlPoints.lean and
  the flush of Model/TimingDecode.lean commute with the shift when the point times and the lookup time lie in `S`
  (`CPIn`, `PendingIn`), and `add` / flush keep the point times in `S`.
-/
import RosuModel.Lemmas.ShiftLaws
namespace Rosu.C15
set_option linter.unusedSectionVars false
open Rosu Scalar

/-- the facts about `· + k` that shift invariance uses, for arguments in `S` only. -/
structure ShiftLawsOn {F : Type} [Scalar F] (S : F → Prop) (k : F) : Prop where
  key_lt : ∀ a b : F, S a → S b → (totalKey (a + k) < totalKey (b + k) ↔ totalKey a < totalKey b)
  lt_shift : ∀ a b : F, S a → S b → lt (a + k) (b + k) = lt a b
  isNaN_shift : ∀ a : F, S a → isNaN (a + k) = isNaN a
  sub_shift : ∀ a b : F, S a → S b → (a + k) - (b + k) = a - b
  add_right_comm : ∀ a d : F, S a → S d → (a + k) + d = (a + d) + k
  /-- `CONTROL_POINT_LENIENCY = 5.0` is in the domain. -/
  five_mem : S (5 : F)

/-- the unrestricted laws are the laws on the full domain. -/
theorem ShiftLaws.toOn {F : Type} [Scalar F] {k : F} (L : ShiftLaws F k) : ShiftLawsOn (fun _ : F => True) k :=
  ⟨fun a b _ _ => L.key_lt a b, fun a b _ _ => L.lt_shift a b, fun a _ => L.isNaN_shift a,
   fun a b _ _ => L.sub_shift a b, fun a d _ _ => L.add_right_comm a d, trivial⟩

variable {F : Type} [Scalar F] {S : F → Prop} {k : F}

theorem ShiftLawsOn.key_eq (L : ShiftLawsOn S k) (a b : F) (ha : S a) (hb : S b) :
    totalKey (a + k) = totalKey (b + k) ↔ totalKey a = totalKey b := by
  have h1 := L.key_lt a b ha hb
  have h2 := L.key_lt b a hb ha
  omega

theorem ShiftLawsOn.key_le (L : ShiftLawsOn S k) (a b : F) (ha : S a) (hb : S b) :
    totalKey (a + k) ≤ totalKey (b + k) ↔ totalKey a ≤ totalKey b := by
  have h2 := L.key_lt b a hb ha
  omega

/-- `f64::max` commutes with the shift, and returns one of its arguments. -/
theorem ShiftLawsOn.max_shift (L : ShiftLawsOn S k) (a b : F) (ha : S a) (hb : S b) :
    Scalar.max (a + k) (b + k) = Scalar.max a b + k := by
  unfold Scalar.max
  rw [L.lt_shift a b ha hb, L.isNaN_shift a ha]
  split
  · rfl
  · split <;> rfl

theorem max_mem (a b : F) (ha : S a) (hb : S b) : S (Scalar.max a b) := by
  unfold Scalar.max
  split
  · exact hb
  · split
    · exact hb
    · exact ha

/-! ### searches on a shifted list, hypotheses on the members only -/

theorem searchKey_map_on {α : Type} (key : α → Int) (f : α → α) (t t' : Int) (l : List α)
    (hlt : ∀ x ∈ l, (key (f x) < t' ↔ key x < t)) (heq : ∀ x ∈ l, (key (f x) = t' ↔ key x = t)) :
    searchKey key t' (l.map f) = searchKey key t l := by
  induction l with
  | nil => rfl
  | cons x xs ih =>
    have h1 := hlt x (List.mem_cons_self ..)
    have h2 := heq x (List.mem_cons_self ..)
    have ih' := ih (fun y hy => hlt y (List.mem_cons_of_mem _ hy)) (fun y hy => heq y (List.mem_cons_of_mem _ hy))
    simp only [List.map, searchKey, h1, h2, ih']

theorem lookupChecked_map_on {α : Type} (key : α → Int) (f : α → α) (t t' : Int) (l : List α)
    (hlt : ∀ x ∈ l, (key (f x) < t' ↔ key x < t)) (heq : ∀ x ∈ l, (key (f x) = t' ↔ key x = t)) :
    lookupChecked key t' (l.map f) = (lookupChecked key t l).map f := by
  unfold lookupChecked
  rw [searchKey_map_on key f t t' l hlt heq]
  cases searchKey key t l with
  | found i => simp
  | notFound i =>
    simp only []
    split
    · rfl
    · simp

theorem lookupSaturating_map_on {α : Type} (key : α → Int) (f : α → α) (t t' : Int) (l : List α)
    (hlt : ∀ x ∈ l, (key (f x) < t' ↔ key x < t)) (heq : ∀ x ∈ l, (key (f x) = t' ↔ key x = t)) :
    lookupSaturating key t' (l.map f) = (lookupSaturating key t l).map f := by
  unfold lookupSaturating
  rw [searchKey_map_on key f t t' l hlt heq]
  cases searchKey key t l <;> simp

theorem insertOrReplace_map_on {α : Type} (key : α → Int) (f : α → α) (p : α) (l : List α)
    (hlt : ∀ x ∈ l, (key (f x) < key (f p) ↔ key x < key p)) (heq : ∀ x ∈ l, (key (f x) = key (f p) ↔ key x = key p)) :
    insertOrReplace key (f p) (l.map f) = (insertOrReplace key p l).map f := by
  unfold insertOrReplace
  rw [searchKey_map_on key f (key p) (key (f p)) l hlt heq]
  cases searchKey key (key p) l with
  | found i => simp [List.map_set]
  | notFound i => simp [map_insertIdx']

theorem mem_insertIdx_imp {α : Type} (p x : α) (l : List α) (i : Nat) (h : x ∈ l.insertIdx i p) : x = p ∨ x ∈ l := by
  induction l generalizing i with
  | nil => cases i <;> simp_all
  | cons y ys ih =>
    cases i with
    | zero => simpa using h
    | succ n =>
      rw [List.insertIdx_succ_cons, List.mem_cons] at h
      rcases h with h | h
      · exact Or.inr (h ▸ List.mem_cons_self ..)
      · rcases ih n h with h | h
        · exact Or.inl h
        · exact Or.inr (List.mem_cons_of_mem _ h)

/-- `insert` / overwrite adds no element but the new point. -/
theorem mem_insertOrReplace {α : Type} (key : α → Int) (p x : α) (l : List α) (h : x ∈ insertOrReplace key p l) :
    x = p ∨ x ∈ l := by
  unfold insertOrReplace at h
  cases hs : searchKey key (key p) l with
  | found i =>
    rw [hs] at h
    rcases List.mem_or_eq_of_mem_set h with h | h
    · exact Or.inr h
    · exact Or.inl h
  | notFound i =>
    rw [hs] at h
    exact mem_insertIdx_imp p x l i h

theorem mem_lookupChecked {α : Type} (key : α → Int) (t : Int) (l : List α) (x : α) (h : lookupChecked key t l = some x) :
    x ∈ l := by
  unfold lookupChecked at h
  cases hs : searchKey key t l with
  | found i => rw [hs] at h; exact List.mem_of_getElem? h
  | notFound i =>
    rw [hs] at h
    simp only [] at h
    split at h
    · cases h
    · exact List.mem_of_getElem? h

theorem mem_lookupSaturating {α : Type} (key : α → Int) (t : Int) (l : List α) (x : α)
    (h : lookupSaturating key t l = some x) : x ∈ l := by
  unfold lookupSaturating at h
  cases hs : searchKey key t l with
  | found i => rw [hs] at h; exact List.mem_of_getElem? h
  | notFound i => rw [hs] at h; exact List.mem_of_getElem? h

/-! ### collections and pending groups with all times in `S` -/

/-- every control-point time of the collection lies in `S`. -/
def CPIn (S : F → Prop) (cp : ControlPoints F) : Prop :=
  (∀ p ∈ cp.timingPoints, S p.time) ∧ (∀ p ∈ cp.difficultyPoints, S p.time) ∧
  (∀ p ∈ cp.effectPoints, S p.time) ∧ (∀ p ∈ cp.samplePoints, S p.time)

/-- every point time of the pending group lies in `S`. -/
def PendingIn (S : F → Prop) (pd : Pending F) : Prop :=
  (∀ p, pd.timing = some p → S p.time) ∧ (∀ p, pd.difficulty = some p → S p.time) ∧
  (∀ p, pd.effect = some p → S p.time) ∧ (∀ p, pd.sample = some p → S p.time)

theorem cpIn_empty : CPIn S (ControlPoints.empty : ControlPoints F) :=
  ⟨fun _ h => (by cases h), fun _ h => (by cases h), fun _ h => (by cases h), fun _ h => (by cases h)⟩

theorem pendingIn_empty : PendingIn S (Pending.empty : Pending F) :=
  ⟨fun _ h => (by cases h), fun _ h => (by cases h), fun _ h => (by cases h), fun _ h => (by cases h)⟩

/-! ### **lookup_shift** on the domain -/

theorem timingPointAt_shift_on (L : ShiftLawsOn S k) (cp : ControlPoints F) (hcp : CPIn S cp) (t : F) (ht : S t) :
    (shCP k cp).timingPointAt (t + k) = (cp.timingPointAt t).map (shTP k) :=
  lookupSaturating_map_on TimingPoint.key (shTP k) _ _ _ (fun x hx => L.key_lt x.time t (hcp.1 x hx) ht)
    (fun x hx => L.key_eq x.time t (hcp.1 x hx) ht)

theorem difficultyPointAt_shift_on (L : ShiftLawsOn S k) (cp : ControlPoints F) (hcp : CPIn S cp) (t : F) (ht : S t) :
    (shCP k cp).difficultyPointAt (t + k) = (cp.difficultyPointAt t).map (shDP k) :=
  lookupChecked_map_on DifficultyPoint.key (shDP k) _ _ _ (fun x hx => L.key_lt x.time t (hcp.2.1 x hx) ht)
    (fun x hx => L.key_eq x.time t (hcp.2.1 x hx) ht)

theorem effectPointAt_shift_on (L : ShiftLawsOn S k) (cp : ControlPoints F) (hcp : CPIn S cp) (t : F) (ht : S t) :
    (shCP k cp).effectPointAt (t + k) = (cp.effectPointAt t).map (shEP k) :=
  lookupChecked_map_on EffectPoint.key (shEP k) _ _ _ (fun x hx => L.key_lt x.time t (hcp.2.2.1 x hx) ht)
    (fun x hx => L.key_eq x.time t (hcp.2.2.1 x hx) ht)

theorem samplePointAt_shift_on (L : ShiftLawsOn S k) (cp : ControlPoints F) (hcp : CPIn S cp) (t : F) (ht : S t) :
    (shCP k cp).samplePointAt (t + k) = (cp.samplePointAt t).map (shSP k) :=
  lookupSaturating_map_on SamplePoint.key (shSP k) _ _ _ (fun x hx => L.key_lt x.time t (hcp.2.2.2 x hx) ht)
    (fun x hx => L.key_eq x.time t (hcp.2.2.2 x hx) ht)

/-- **lookup_shift on `S`**: all four lookups at once, for a collection with times in `S` and a lookup time in `S`. -/
theorem lookup_shift_on (L : ShiftLawsOn S k) (cp : ControlPoints F) (hcp : CPIn S cp) (t : F) (ht : S t) :
    (shCP k cp).timingPointAt (t + k) = (cp.timingPointAt t).map (shTP k) ∧
    (shCP k cp).difficultyPointAt (t + k) = (cp.difficultyPointAt t).map (shDP k) ∧
    (shCP k cp).effectPointAt (t + k) = (cp.effectPointAt t).map (shEP k) ∧
    (shCP k cp).samplePointAt (t + k) = (cp.samplePointAt t).map (shSP k) :=
  ⟨timingPointAt_shift_on L cp hcp t ht, difficultyPointAt_shift_on L cp hcp t ht, effectPointAt_shift_on L cp hcp t ht,
   samplePointAt_shift_on L cp hcp t ht⟩

/-! ### `ControlPoints::add` on a shifted collection -/

theorem addTiming_shift_on (L : ShiftLawsOn S k) (cp : ControlPoints F) (hcp : CPIn S cp) (p : TimingPoint F) (hp : S p.time) :
    (shCP k cp).addTiming (shTP k p) = shCP k (cp.addTiming p) ∧ CPIn S (cp.addTiming p) := by
  refine ⟨?_, ?_, hcp.2.1, hcp.2.2.1, hcp.2.2.2⟩
  · unfold ControlPoints.addTiming shCP
    simp only []
    rw [insertOrReplace_map_on TimingPoint.key (shTP k) p _ (fun x hx => L.key_lt x.time p.time (hcp.1 x hx) hp)
      (fun x hx => L.key_eq x.time p.time (hcp.1 x hx) hp)]
  · intro x hx
    rcases mem_insertOrReplace _ _ _ _ hx with h | h
    · exact h ▸ hp
    · exact hcp.1 x h

theorem difficultyExists_shift_on (L : ShiftLawsOn S k) (cp : ControlPoints F) (hcp : CPIn S cp) (p : DifficultyPoint F)
    (hp : S p.time) : (shCP k cp).difficultyExists (shDP k p) = cp.difficultyExists p := by
  unfold ControlPoints.difficultyExists
  have h : (shCP k cp).difficultyPointAt (shDP k p).time = (cp.difficultyPointAt p.time).map (shDP k) :=
    difficultyPointAt_shift_on L cp hcp p.time hp
  rw [h]
  cases cp.difficultyPointAt p.time <;> rfl

theorem addDifficulty_shift_on (L : ShiftLawsOn S k) (cp : ControlPoints F) (hcp : CPIn S cp) (p : DifficultyPoint F)
    (hp : S p.time) :
    (shCP k cp).addDifficulty (shDP k p) = shCP k (cp.addDifficulty p) ∧ CPIn S (cp.addDifficulty p) := by
  unfold ControlPoints.addDifficulty
  rw [difficultyExists_shift_on L cp hcp p hp]
  split
  · exact ⟨rfl, hcp⟩
  · refine ⟨?_, hcp.1, ?_, hcp.2.2.1, hcp.2.2.2⟩
    · unfold shCP
      simp only []
      rw [insertOrReplace_map_on DifficultyPoint.key (shDP k) p _
        (fun x hx => L.key_lt x.time p.time (hcp.2.1 x hx) hp) (fun x hx => L.key_eq x.time p.time (hcp.2.1 x hx) hp)]
    · intro x hx
      rcases mem_insertOrReplace _ _ _ _ hx with h | h
      · exact h ▸ hp
      · exact hcp.2.1 x h

theorem effectExists_shift_on (L : ShiftLawsOn S k) (cp : ControlPoints F) (hcp : CPIn S cp) (p : EffectPoint F)
    (hp : S p.time) : (shCP k cp).effectExists (shEP k p) = cp.effectExists p := by
  unfold ControlPoints.effectExists
  have h : (shCP k cp).effectPointAt (shEP k p).time = (cp.effectPointAt p.time).map (shEP k) :=
    effectPointAt_shift_on L cp hcp p.time hp
  rw [h]
  cases cp.effectPointAt p.time <;> rfl

theorem addEffect_shift_on (L : ShiftLawsOn S k) (cp : ControlPoints F) (hcp : CPIn S cp) (p : EffectPoint F)
    (hp : S p.time) :
    (shCP k cp).addEffect (shEP k p) = shCP k (cp.addEffect p) ∧ CPIn S (cp.addEffect p) := by
  unfold ControlPoints.addEffect
  rw [effectExists_shift_on L cp hcp p hp]
  split
  · exact ⟨rfl, hcp⟩
  · refine ⟨?_, hcp.1, hcp.2.1, ?_, hcp.2.2.2⟩
    · unfold shCP
      simp only []
      rw [insertOrReplace_map_on EffectPoint.key (shEP k) p _
        (fun x hx => L.key_lt x.time p.time (hcp.2.2.1 x hx) hp) (fun x hx => L.key_eq x.time p.time (hcp.2.2.1 x hx) hp)]
    · intro x hx
      rcases mem_insertOrReplace _ _ _ _ hx with h | h
      · exact h ▸ hp
      · exact hcp.2.2.1 x h

theorem sampleExists_shift_on (L : ShiftLawsOn S k) (cp : ControlPoints F) (hcp : CPIn S cp) (p : SamplePoint F)
    (hp : S p.time) : (shCP k cp).sampleExists (shSP k p) = cp.sampleExists p := by
  unfold ControlPoints.sampleExists
  have h : lookupChecked SamplePoint.key (totalKey (shSP k p).time) (shCP k cp).samplePoints =
      (lookupChecked SamplePoint.key (totalKey p.time) cp.samplePoints).map (shSP k) :=
    lookupChecked_map_on SamplePoint.key (shSP k) _ _ _ (fun x hx => L.key_lt x.time p.time (hcp.2.2.2 x hx) hp)
      (fun x hx => L.key_eq x.time p.time (hcp.2.2.2 x hx) hp)
  rw [h]
  cases lookupChecked SamplePoint.key (totalKey p.time) cp.samplePoints <;> rfl

theorem addSample_shift_on (L : ShiftLawsOn S k) (cp : ControlPoints F) (hcp : CPIn S cp) (p : SamplePoint F)
    (hp : S p.time) :
    (shCP k cp).addSample (shSP k p) = shCP k (cp.addSample p) ∧ CPIn S (cp.addSample p) := by
  unfold ControlPoints.addSample
  rw [sampleExists_shift_on L cp hcp p hp]
  split
  · exact ⟨rfl, hcp⟩
  · refine ⟨?_, hcp.1, hcp.2.1, hcp.2.2.1, ?_⟩
    · unfold shCP
      simp only []
      rw [insertOrReplace_map_on SamplePoint.key (shSP k) p _
        (fun x hx => L.key_lt x.time p.time (hcp.2.2.2 x hx) hp) (fun x hx => L.key_eq x.time p.time (hcp.2.2.2 x hx) hp)]
    · intro x hx
      rcases mem_insertOrReplace _ _ _ _ hx with h | h
      · exact h ▸ hp
      · exact hcp.2.2.2 x h

/-- the four steps of `flush_pending_points`. -/
def flushT (cp : ControlPoints F) (o : Option (TimingPoint F)) : ControlPoints F :=
  match o with | some p => cp.addTiming p | none => cp
def flushD (cp : ControlPoints F) (o : Option (DifficultyPoint F)) : ControlPoints F :=
  match o with | some p => cp.addDifficulty p | none => cp
def flushE (cp : ControlPoints F) (o : Option (EffectPoint F)) : ControlPoints F :=
  match o with | some p => cp.addEffect p | none => cp
def flushS (cp : ControlPoints F) (o : Option (SamplePoint F)) : ControlPoints F :=
  match o with | some p => cp.addSample p | none => cp

theorem flushInto_steps (cp : ControlPoints F) (pd : Pending F) :
    flushInto cp pd = flushS (flushE (flushD (flushT cp pd.timing) pd.difficulty) pd.effect) pd.sample := rfl

/-- `flush_pending_points` on the shifted group and collection; the flushed collection still has its times in `S`. -/
theorem flushInto_shift_on (L : ShiftLawsOn S k) (cp : ControlPoints F) (hcp : CPIn S cp) (pd : Pending F)
    (hpd : PendingIn S pd) :
    flushInto (shCP k cp) (shPending k pd) = shCP k (flushInto cp pd) ∧ CPIn S (flushInto cp pd) := by
  obtain ⟨t, d, e, s⟩ := pd
  obtain ⟨ht, hd, he, hs⟩ := hpd
  simp only at ht hd he hs
  rw [flushInto_steps, flushInto_steps]
  simp only [shPending]
  have s1 : flushT (shCP k cp) (t.map (shTP k)) = shCP k (flushT cp t) ∧ CPIn S (flushT cp t) := by
    cases t with
    | none => exact ⟨rfl, hcp⟩
    | some p => exact addTiming_shift_on L cp hcp p (ht p rfl)
  rw [s1.1]
  have s2 : flushD (shCP k (flushT cp t)) (d.map (shDP k)) = shCP k (flushD (flushT cp t) d) ∧
      CPIn S (flushD (flushT cp t) d) := by
    cases d with
    | none => exact ⟨rfl, s1.2⟩
    | some p => exact addDifficulty_shift_on L _ s1.2 p (hd p rfl)
  rw [s2.1]
  have s3 : flushE (shCP k (flushD (flushT cp t) d)) (e.map (shEP k)) = shCP k (flushE (flushD (flushT cp t) d) e) ∧
      CPIn S (flushE (flushD (flushT cp t) d) e) := by
    cases e with
    | none => exact ⟨rfl, s2.2⟩
    | some p => exact addEffect_shift_on L _ s2.2 p (he p rfl)
  rw [s3.1]
  cases s with
  | none => exact ⟨rfl, s3.2⟩
  | some p => exact addSample_shift_on L _ s3.2 p (hs p rfl)

end Rosu.C15
