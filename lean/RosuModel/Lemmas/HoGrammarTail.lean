/-
  Lemmas/HoGrammarTail.lean — the sample clauses of the reference grammar (`HoSpec.sampleField`,
  `samplesOf`, `nodeSamples`, Lemmas/HoGrammarSpec.lean) are what the model computes
  (`read_custom_sample_banks`, `convert_sound_type`, the node loops of the slider arm).
-/
import RosuModel.Lemmas.HoGrammarSpec
namespace Rosu.C14.HoSpec
open Rosu Scalar

theorem bankOfCode_eq (n : Int) : someUnlessNone (bankOrNormal n) = bankOfCode n := by
  unfold someUnlessNone bankOrNormal SampleBank.ofInt bankOfCode
  by_cases h0 : n = 0
  · subst h0; rfl
  · by_cases h1 : n = 1
    · subst h1; rfl
    · by_cases h2 : n = 2
      · subst h2; rfl
      · by_cases h3 : n = 3
        · subst h3; rfl
        · simp [h0, h1, h2, h3]

/-- **the sample field**: `read_custom_sample_banks` succeeds exactly on the well-formed fields and
yields the specified info. -/
theorem sampleField_eq (base : SampleBankInfo) (ps : List Str) (banksOnly : Bool) :
    sampleField base ps banksOnly =
      (match base.readCustomSampleBanks ps banksOnly with
       | (i, true) => some i
       | (_, false) => none) := by
  unfold sampleField SampleBankInfo.readCustomSampleBanks
  cases ps with
  | nil => rfl
  | cons first r1 =>
    simp only [List.getElem?_cons_zero, List.getElem?_cons_succ]
    by_cases he : first.isEmpty = true
    · simp [he]
    · simp only [he, Bool.false_eq_true, if_false]
      cases h1 : i32Parse first with
      | none => simp
      | some b =>
        cases r1 with
        | nil => simp
        | cons second r2 =>
          simp only [List.getElem?_cons_zero, List.getElem?_cons_succ, Option.bind_some]
          cases h2 : i32Parse second with
          | none => simp
          | some ab =>
            simp only [bankOfCode_eq]
            cases banksOnly with
            | true => simp
            | false =>
              simp only [Bool.false_eq_true, if_false, optInt]
              cases r2 with
              | nil => simp
              | cons third r3 =>
                simp only [List.getElem?_cons_zero, List.getElem?_cons_succ]
                cases h3 : i32Parse third with
                | none => simp
                | some csb =>
                  cases r3 with
                  | nil => simp
                  | cons fourth r4 =>
                    simp only [List.getElem?_cons_zero, List.getElem?_cons_succ]
                    cases h4 : i32Parse fourth with
                    | none => simp
                    | some vol => cases r4 <;> simp

/-- **the sample list** is `convert_sound_type`. -/
theorem samplesOf_eq (info : SampleBankInfo) (snd : Int) : info.convertSoundType snd = samplesOf info snd := by
  unfold SampleBankInfo.convertSoundType samplesOf additionTable sndFinish sndWhistle sndClap sndNormal
  cases hf : info.filename with
  | none =>
    simp only [Option.filter_none, List.filterMap_cons, List.filterMap_nil]
    cases testBit snd 2 <;> cases testBit snd 1 <;> cases testBit snd 3 <;> rfl
  | some f =>
    by_cases he : f.isEmpty = true
    · simp only [he, Option.filter, Bool.not_true, Bool.false_eq_true, if_false, List.filterMap_cons, List.filterMap_nil]
      cases testBit snd 2 <;> cases testBit snd 1 <;> cases testBit snd 3 <;> rfl
    · have he' : f.isEmpty = false := by simpa using he
      simp only [he', Option.filter, Bool.not_false, if_true, List.filterMap_cons, List.filterMap_nil]
      cases testBit snd 2 <;> cases testBit snd 1 <;> cases testBit snd 3 <;> rfl

/-! ### node lists -/

theorem allSome_const {α β : Type} (l : List β) (a : α) : allSome (l.map fun _ => some a) = some (List.replicate l.length a) := by
  induction l with
  | nil => rfl
  | cons x xs ih => simp [allSome, ih, List.replicate_succ]

theorem range_map_succ {β : Type} (n : Nat) (g : Nat → β) :
    (List.range (n + 1)).map g = g 0 :: (List.range n).map (fun i => g (i + 1)) := by
  rw [List.range_succ_eq_map, List.map_cons, List.map_map]
  rfl

/-- the edge-set loop over `zip(node_bank_infos, split('|'))`. -/
theorem readNodeBanks_eq (b : SampleBankInfo) (n : Nat) (ss : List Str) :
    readNodeBanks (List.replicate n b) ss = allSome ((List.range n).map (nodeInfo b (some ss))) := by
  induction n generalizing ss with
  | zero => simp [readNodeBanks, allSome]
  | succ n ih =>
    rw [range_map_succ, List.replicate_succ]
    cases ss with
    | nil =>
      have h : (fun i => nodeInfo b (some ([] : List Str)) (i + 1)) = fun _ => some b := by
        funext i; simp [nodeInfo]
      have h0 : nodeInfo b (some ([] : List Str)) 0 = some b := by simp [nodeInfo]
      rw [h, h0]
      simp [readNodeBanks, allSome, allSome_const]
    | cons s ss' =>
      have h : (fun i => nodeInfo b (some (s :: ss')) (i + 1)) = nodeInfo b (some ss') := by
        funext i; simp [nodeInfo]
      have h0 : nodeInfo b (some (s :: ss')) 0 = sampleField b (splitOn ':' s) false := by simp [nodeInfo]
      rw [h, h0, sampleField_eq]
      simp only [readNodeBanks, ih ss']
      cases b.readCustomSampleBanks (splitOn ':' s) false with
      | mk i ok => cases ok <;> simp [allSome]

theorem nodeInfo_absent (b : SampleBankInfo) (n : Nat) :
    allSome ((List.range n).map (nodeInfo b none)) = some (List.replicate n b) := by
  have h : nodeInfo b none = fun _ => some b := by funext i; simp [nodeInfo]
  rw [h, allSome_const]; simp

/-- the edge-sound loop. -/
theorem readNodeSounds_eq (snd : Int) (n : Nat) (ss : List Str) :
    readNodeSounds (List.replicate n snd) ss = (List.range n).map (nodeSound snd (some ss)) := by
  induction n generalizing ss with
  | zero => simp [readNodeSounds]
  | succ n ih =>
    rw [range_map_succ, List.replicate_succ]
    cases ss with
    | nil =>
      have h : (fun i => nodeSound snd (some ([] : List Str)) (i + 1)) = fun _ => snd := by
        funext i; simp [nodeSound]
      rw [h]
      simp [readNodeSounds, nodeSound, List.map_const', List.length_range]
    | cons s ss' =>
      have h : (fun i => nodeSound snd (some (s :: ss')) (i + 1)) = nodeSound snd (some ss') := by
        funext i; simp [nodeSound]
      rw [h, ← ih ss']
      simp [readNodeSounds, nodeSound]

theorem nodeSound_absent (snd : Int) (n : Nat) : (List.range n).map (nodeSound snd none) = List.replicate n snd := by
  have h : nodeSound snd none = fun _ => snd := by funext i; simp [nodeSound]
  rw [h, List.map_const', List.length_range]

theorem allSome_zip (l : List Nat) (f : Nat → Option SampleBankInfo) (k : Nat → Int) :
    allSome (l.map fun i => (f i).map fun info => samplesOf info (k i)) =
      (allSome (l.map f)).map fun infos => (infos.zip (l.map k)).map fun (b, s) => b.convertSoundType s := by
  induction l with
  | nil => rfl
  | cons i is ih =>
    simp only [List.map_cons]
    cases f i with
    | none => rfl
    | some info =>
      simp only [Option.map_some, allSome, ih]
      cases allSome (is.map f) with
      | none => rfl
      | some infos => simp [samplesOf_eq]

/-- **node sample sets**: the slider arm's node loops compute `nodeSamples`. -/
theorem nodeSamples_eq (bankInfo : SampleBankInfo) (snd : Int) (nodes : Nat) (next8 next9 : Option Str) :
    buildNodeSamples bankInfo snd nodes next8 next9 = nodeSamples bankInfo snd nodes (optNonEmpty next8) (optNonEmpty next9) := by
  unfold buildNodeSamples nodeSamples
  rw [allSome_zip]
  cases optNonEmpty next9 with
  | none =>
    simp only [Option.map_none, nodeInfo_absent, Option.map_some]
    cases optNonEmpty next8 with
    | none => simp only [Option.map_none, nodeSound_absent]
    | some s8 => simp only [Option.map_some, readNodeSounds_eq]
  | some s9 =>
    simp only [Option.map_some, readNodeBanks_eq]
    cases allSome ((List.range nodes).map (nodeInfo bankInfo (some (splitOn '|' s9)))) with
    | none => rfl
    | some infos =>
      cases optNonEmpty next8 with
      | none => simp only [Option.map_none, nodeSound_absent, Option.map_some]
      | some s8 => simp only [Option.map_some, readNodeSounds_eq]

end Rosu.C14.HoSpec
