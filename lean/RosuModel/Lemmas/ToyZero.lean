/-
  Lemmas/ToyZero.lean — a tiny decidable `Scalar` **with two zeros**: `ZZ` = an integer plus a sign bit that only
  matters at zero (`+0` / `−0`). `<`, `<=`, `==` compare the integers (so `−0 == +0`, as IEEE), while the `total_cmp`
  key separates the zeros (`−0 < +0`, as `f64::total_cmp`). Used only to exhibit finding F8 and its exact boundary in
  the kernel (Props/C13Exact.lean): the time-order laws hold on every set of values without both zeros and fail on
  `{−0, +0}`. Core Lean only.
-/
import RosuModel.Model.Scalar
import RosuModel.Model.Num
namespace Rosu

structure ZZ where
  v : Int
  /-- the sign bit; distinguishes `−0` (`true`) from `+0` (`false`), irrelevant to comparisons. -/
  neg : Bool
  deriving DecidableEq, Repr

namespace ZZ
def num (n : Int) : ZZ := ⟨n, decide (n < 0)⟩
def negZero : ZZ := ⟨0, true⟩
def posZero : ZZ := ⟨0, false⟩
/-- the `total_cmp` key: negatives, then `−0`, then `+0`, then positives. -/
def key (a : ZZ) : Int := if a.v < 0 then a.v - 1 else if a.v = 0 then (if a.neg then -1 else 0) else a.v
end ZZ

instance : Scalar ZZ where
  add a b := ZZ.num (a.v + b.v)
  sub a b := ZZ.num (a.v - b.v)
  mul a b := ZZ.num (a.v * b.v)
  div a b := ZZ.num (a.v / b.v)
  neg a := ⟨-a.v, !a.neg⟩
  ofNat n := ZZ.num n
  ofSci m s e := ZZ.num (if s then (m : Int) / (10 ^ e : Nat) else (m : Int) * (10 ^ e : Nat))
  lt a b := decide (a.v < b.v)
  le a b := decide (a.v ≤ b.v)
  eq a b := decide (a.v = b.v)
  isNaN _ := false
  abs a := ⟨a.v.natAbs, false⟩
  sqrt a := a
  ceil a := a
  eps := ZZ.num 1
  ofInt n := ZZ.num n
  toI32 a := a.v
  toUsize a := a.v.toNat
  totalKey := ZZ.key
  parse s := (i32FromStr s).map ZZ.num
  print _ := []

end Rosu
