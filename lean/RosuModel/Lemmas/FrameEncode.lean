/-
  Lemmas/FrameEncode.lean — what the two list blocks of the encoder are written from.

  `encode_hit_objects` reads the hit objects and the mode; `encode_timing_points` (through `collect_samples`,
  `slider_events` / `juicestream_events` and `ControlPointProperties`) reads the control points, the hit objects, the
  mode, the format version (`< 8`: tick distance divided by the slider velocity), the slider tick rate (osu!) and the
  slider multiplier and tick rate (catch). Nothing else of the map is read: two maps that agree on these six fields
  produce the same two blocks, including the same failure (`panic` / `fuel`).
-/
import RosuModel.Model.Encode
namespace Rosu
namespace FrameEnc
open Rosu Encode

set_option linter.unusedSectionVars false

variable {F P : Type} [Scalar F] [Scalar P] [Cvt P F] [Trig F] [Trig P]

/-- the fields of a map the `[TimingPoints]` and `[HitObjects]` blocks are written from: `m'` agrees with `m` on
format version, mode, slider multiplier, slider tick rate, control points and hit objects. -/
structure SameListInputs (m m' : Beatmap F P) : Prop where
  version : m'.formatVersion = m.formatVersion
  mode : m'.general.mode = m.general.mode
  sliderMultiplier : m'.difficulty.sliderMultiplier = m.difficulty.sliderMultiplier
  sliderTickRate : m'.difficulty.sliderTickRate = m.difficulty.sliderTickRate
  controlPoints : m'.controlPoints = m.controlPoints
  hitObjects : m'.hitObjects = m.hitObjects

theorem SameListInputs.refl (m : Beatmap F P) : SameListInputs m m := ⟨rfl, rfl, rfl, rfl, rfl, rfl⟩

theorem osuSliderSamples_congr (m m' : Beatmap F P) (hv : m'.formatVersion = m.formatVersion)
    (htr : m'.difficulty.sliderTickRate = m.difficulty.sliderTickRate) (hcp : m'.controlPoints = m.controlPoints)
    (h : HitObject F P) (s : HitObjectSlider F P) (dist duration : F) (buf : List (SliderEvents.SliderEvent F)) :
    osuSliderSamples m' h s dist duration buf = osuSliderSamples m h s dist duration buf := by
  unfold osuSliderSamples
  rw [hv, htr, hcp]

theorem catchSliderSamples_congr (m m' : Beatmap F P) (hv : m'.formatVersion = m.formatVersion)
    (hsm : m'.difficulty.sliderMultiplier = m.difficulty.sliderMultiplier)
    (htr : m'.difficulty.sliderTickRate = m.difficulty.sliderTickRate) (hcp : m'.controlPoints = m.controlPoints)
    (h : HitObject F P) (s : HitObjectSlider F P) (dist duration : F) (buf : List (SliderEvents.SliderEvent F)) :
    catchSliderSamples m' h s dist duration buf = catchSliderSamples m h s dist duration buf := by
  unfold catchSliderSamples
  rw [hv, hsm, htr, hcp]

theorem collectObject_congr (m m' : Beatmap F P) (hs : SameListInputs m m') (h : HitObject F P)
    (buf : List (SliderEvents.SliderEvent F)) : collectObject m' h buf = collectObject m h buf := by
  unfold collectObject
  rw [hs.mode]
  simp only [osuSliderSamples_congr m m' hs.version hs.sliderTickRate hs.controlPoints,
    catchSliderSamples_congr m m' hs.version hs.sliderMultiplier hs.sliderTickRate hs.controlPoints]

theorem collectAll_congr (m m' : Beatmap F P) (hs : SameListInputs m m') (hs' : List (HitObject F P))
    (buf : List (SliderEvents.SliderEvent F)) : collectAll m' hs' buf = collectAll m hs' buf := by
  induction hs' generalizing buf with
  | nil => rfl
  | cons h rest ih =>
    unfold collectAll
    rw [collectObject_congr m m' hs]
    simp only [ih]

theorem collectSamples_congr (m m' : Beatmap F P) (hs : SameListInputs m m') : collectSamples m' = collectSamples m := by
  unfold collectSamples
  rw [hs.hitObjects, hs.controlPoints, collectAll_congr m m' hs]

/-- **the `[TimingPoints]` block is written from six fields**: format version, mode, slider multiplier, slider tick
rate, control points, hit objects. Same fields, same block — and the same failure when the curve or event code fails. -/
theorem encodeTimingPoints_congr (m m' : Beatmap F P) (hs : SameListInputs m m') :
    encodeTimingPoints m' = encodeTimingPoints m := by
  unfold encodeTimingPoints
  rw [collectSamples_congr m m' hs, hs.mode]

/-- **the `[HitObjects]` block is written from the hit objects and the mode** (the mode decides whether the custom
sample index and volume are written). -/
theorem encodeHitObjects_congr (m m' : Beatmap F P) (hmode : m'.general.mode = m.general.mode)
    (hobj : m'.hitObjects = m.hitObjects) : encodeHitObjects m' = encodeHitObjects m := by
  unfold encodeHitObjects
  rw [hmode, hobj]

end FrameEnc
end Rosu
