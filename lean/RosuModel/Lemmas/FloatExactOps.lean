/-
  Lemmas/FloatExactOps.lean — the IEEE operations that are EXACT on the driver's `Float` / `Float32`
  (Lean 4.33: both are structures over the logical model `Float.Model`, so these are theorems about the instances
  of Model/FloatInst.lean, not assumptions).

  Every statement is an equality of `Float`s (i.e. of bit patterns; a model value only holds the canonical NaN):
  * `mul_one_float`, `one_mul_float` (and `…32`): `x * 1 = x`, `1 * x = x` for EVERY `x` (NaN, ±∞, ±0, subnormals included);
  * `zero_mul_float`, `mul_zero_float`: `0 * x` is the zero whose sign is the sign of `x`, for every finite `x`
    (`+0` for `x ≥ +0`, `−0` for `x ≤ −0`); for `x = ±∞`/NaN it is NaN (`zero_mul_nonfinite_float`);
  * `add_zero_float`: `x + 0 = x` unless `x` is `−0` (`−0 + +0 = +0`: `negzero_add_zero_float`); `zero_add_float`;
  * `sub_zero_float`: `x − 0 = x` for every `x`;
  * `zero_div_float`: `0 / d` is the zero whose sign is the sign of `d` for every non-zero non-NaN `d` (finite or ±∞);
  * `div_self_float`: `x / x = 1` for every finite non-zero `x`;
  * conversions: `Cvt.down`/`Cvt.up` of `±0` and `1` are `±0` and `1`.
  The unpacked facts are proved for every `Format`; the rounding step (`x * 1`, `x / x`) uses
  `FM.roundWithAccuracy_exact` (only zero bits are shifted out), the pack/unpack steps Lemmas/FloatModelBits.lean.
-/
import RosuModel.Lemmas.FloatModelCompare
import RosuModel.Lemmas.FloatModelAdd
import RosuModel.Lemmas.FloatModelOfInt
namespace Rosu.FX
open Float.Model Float.Model.UnpackedFloat

abbrev UF := Float.Model.UnpackedFloat

/-! ## 1. unpacked level, every format -/

theorem sign_mul_pos (s : Sign) : s * .positive = s := by cases s <;> rfl
theorem pos_mul_sign (s : Sign) : Sign.positive * s = s := by cases s <;> rfl
theorem sign_div_pos (s : Sign) : s / .positive = s := by cases s <;> rfl
theorem pos_div_sign (s : Sign) : Sign.positive / s = s := by cases s <;> rfl
theorem sign_div_self (s : Sign) : s / s = .positive := by cases s <;> rfl

/-- the sign of an unpacked float (`+` for NaN). -/
def usign : UF → Sign
  | .infinity s => s
  | .notANumber => .positive
  | .zero s => s
  | .finite s _ _ _ => s

/-- `1.0` in canonical form: mantissa `2^M`, exponent `−M`. -/
def uone (spec : Format) : UF :=
  .finite .positive (2 ^ spec.mantissaBitsWithoutImplicit) (-(spec.mantissaBitsWithoutImplicit : Int))
    (Nat.pow_pos (by decide))

/-- `u * 1 = u` for every canonical `u` (NaN, infinities and zeros included). -/
theorem umul_one (spec : Format) (u : UF) (hc : FMR.Canon spec u) : UnpackedFloat.mul spec u (uone spec) = u := by
  match u, hc with
  | .notANumber, _ => rfl
  | .infinity s, _ => show UnpackedFloat.infinity (s * .positive) = _; rw [sign_mul_pos]
  | .zero s, _ => show UnpackedFloat.zero (s * .positive) = _; rw [sign_mul_pos]
  | .finite s m e hm, hc =>
    show roundWithAccuracy spec (s * .positive) (m * 2 ^ spec.mantissaBitsWithoutImplicit)
      (e + -(spec.mantissaBitsWithoutImplicit : Int)) .exact = _
    rw [sign_mul_pos]
    exact FM.roundWithAccuracy_exact' spec s m spec.mantissaBitsWithoutImplicit e hm (FMR.CanonFin.tgt_eq hc hm) _ _ rfl
      (by omega)

/-- `1 * u = u` for every canonical `u`. -/
theorem uone_mul (spec : Format) (u : UF) (hc : FMR.Canon spec u) : UnpackedFloat.mul spec (uone spec) u = u := by
  match u, hc with
  | .notANumber, _ => rfl
  | .infinity s, _ => show UnpackedFloat.infinity (.positive * s) = _; rw [pos_mul_sign]
  | .zero s, _ => show UnpackedFloat.zero (.positive * s) = _; rw [pos_mul_sign]
  | .finite s m e hm, hc =>
    show roundWithAccuracy spec (.positive * s) (2 ^ spec.mantissaBitsWithoutImplicit * m)
      (-(spec.mantissaBitsWithoutImplicit : Int) + e) .exact = _
    rw [pos_mul_sign]
    exact FM.roundWithAccuracy_exact' spec s m spec.mantissaBitsWithoutImplicit e hm (FMR.CanonFin.tgt_eq hc hm) _ _
      (Nat.mul_comm _ _) (by omega)

/-- `±0 * u` for finite `u`: the zero with the product sign. -/
theorem uzero_mul (spec : Format) (s : Sign) (u : UF) (h : u.isFinite = true) :
    UnpackedFloat.mul spec (.zero s) u = .zero (s * usign u) := by
  cases u <;> first | rfl | cases h

theorem umul_zero (spec : Format) (s : Sign) (u : UF) (h : u.isFinite = true) :
    UnpackedFloat.mul spec u (.zero s) = .zero (usign u * s) := by
  cases u <;> first | rfl | cases h

/-- `±0 * u` for `u = ±∞` or NaN: NaN. -/
theorem uzero_mul_nonfinite (spec : Format) (s : Sign) (u : UF) (h : u.isFinite = false) :
    UnpackedFloat.mul spec (.zero s) u = .notANumber := by
  cases u <;> first | rfl | cases h

/-- `u + (+0)`: `u`, except that `−0 + +0 = +0`. -/
theorem uadd_pzero (spec : Format) (u : UF) (h : u ≠ .zero .negative) :
    UnpackedFloat.add spec u (.zero .positive) = u := by
  match u, h with
  | .notANumber, _ => rfl
  | .infinity s, _ => rfl
  | .zero .positive, _ => rfl
  | .zero .negative, h => exact absurd rfl h
  | .finite s m e hm, _ => rfl

theorem uadd_pzero_negzero (spec : Format) :
    UnpackedFloat.add spec (.zero .negative) (.zero .positive) = .zero .positive := rfl

/-- `+0 + u`: `u`, except that `+0 + −0 = +0`. -/
theorem upzero_add (spec : Format) (u : UF) (h : u ≠ .zero .negative) :
    UnpackedFloat.add spec (.zero .positive) u = u := by
  match u, h with
  | .notANumber, _ => rfl
  | .infinity s, _ => rfl
  | .zero .positive, _ => rfl
  | .zero .negative, h => exact absurd rfl h
  | .finite s m e hm, _ => rfl

/-- `u − (+0) = u` for every `u`. -/
theorem usub_pzero (spec : Format) (u : UF) : UnpackedFloat.sub spec u (.zero .positive) = u := by
  match u with
  | .notANumber => rfl
  | .infinity s => rfl
  | .zero .positive => rfl
  | .zero .negative => rfl
  | .finite s m e hm => rfl

/-- non-zero and not NaN (finite or infinite). -/
def isDivisor : UF → Bool
  | .finite .. => true
  | .infinity _ => true
  | _ => false

/-- `±0 / u` for a non-zero non-NaN `u`: the zero with the quotient sign. -/
theorem uzero_div (spec : Format) (s : Sign) (u : UF) (h : isDivisor u = true) :
    UnpackedFloat.div spec (.zero s) u = .zero (s / usign u) := by
  cases u <;> first | rfl | cases h

/-- **`u / u = 1`** for every finite non-zero `u` (whatever its exponent: the quotient of the mantissas is exactly `2^p`). -/
theorem udiv_self (spec : Format) (hE : 2 ≤ spec.exponentBits) (hmin : spec.minExponent ≤ -(spec.mantissaBits : Int))
    (s : Sign) (m : Nat) (e : Int) (hm : 0 < m) :
    UnpackedFloat.div spec (.finite s m e hm) (.finite s m e hm) = uone spec := by
  have htgt : min (e - e) (spec.targetExponent (totalExponent m e - totalExponent m e)) = -(spec.mantissaBits : Int) := by
    unfold Format.targetExponent; omega
  have hdc : divCore spec m e m e = (2 ^ spec.mantissaBits, -(spec.mantissaBits : Int), .exact) := by
    unfold divCore
    simp only [htgt]
    have hsh : (e - e - -(spec.mantissaBits : Int)).toNat = spec.mantissaBits := by omega
    rw [hsh, Nat.shiftLeft_eq, Nat.mul_div_cancel_left _ hm, Nat.mul_mod_right]
    rfl
  show (match divCore spec m e m e with | (m', e', acc) => roundWithAccuracy spec (s / s) m' e' acc) = _
  rw [hdc, sign_div_self]
  show roundWithAccuracy spec .positive (2 ^ spec.mantissaBits) (-(spec.mantissaBits : Int)) .exact = _
  have hone : spec.targetExponent (totalExponent (2 ^ spec.mantissaBitsWithoutImplicit)
      (-(spec.mantissaBitsWithoutImplicit : Int))) = -(spec.mantissaBitsWithoutImplicit : Int) := by
    apply FM.canonical_of_full spec hE
    · exact Nat.log2_two_pow
    · omega
  exact FM.roundWithAccuracy_exact' spec .positive (2 ^ spec.mantissaBitsWithoutImplicit) 1
    (-(spec.mantissaBitsWithoutImplicit : Int)) (Nat.pow_pos (by decide)) hone _ _
    (by unfold Format.mantissaBits; rw [Nat.add_comm, Nat.pow_succ])
    (by unfold Format.mantissaBits; omega)

/-! ## 2. `Float` (binary64) -/

/-- the two zeros. -/
def zero64 (s : Sign) : Float := Float.ofModel (Float.Model.pack (.zero s))
/-- `−0.0` (`+0.0` is `FMO.pzero64 = zero64 .positive`). -/
def nzero64 : Float := zero64 .negative
/-- the sign of a `Float` (`+` for NaN). -/
def sign64 (x : Float) : Sign := usign x.toModel.unpack
/-- neither NaN nor `±∞`. -/
abbrev Finite64 (x : Float) : Prop := x.toModel.unpack.isFinite = true
/-- finite and non-zero. -/
abbrev FiniteNonzero64 (x : Float) : Prop := FMO.isFiniteNonzero x.toModel.unpack = true

theorem zero64_cases (s : Sign) : zero64 s = FMO.pzero64 ∨ zero64 s = nzero64 := by
  cases s
  · exact Or.inr rfl
  · exact Or.inl rfl

theorem mul_float (x y : Float) : x * y =
    Float.ofModel (Float.Model.pack (UnpackedFloat.mul Format.binary64 x.toModel.unpack y.toModel.unpack)) := rfl
theorem add_float (x y : Float) : x + y =
    Float.ofModel (Float.Model.pack (UnpackedFloat.add Format.binary64 x.toModel.unpack y.toModel.unpack)) := rfl

/-- `pack ∘ unpack` on a `Float`. -/
theorem pack_unpack_float (x : Float) : Float.ofModel (Float.Model.pack x.toModel.unpack) = x :=
  FM.float_ofBits_toBits x

theorem canon_float (x : Float) : FMR.Canon Format.binary64 x.toModel.unpack :=
  FMR.unpack_canon Format.binary64 x.toModel.toBits.toBitVec

theorem zero_eq_pzero64 : (0 : Float) = FMO.pzero64 := by decide +kernel
theorem one_eq_bits64 : (1 : Float) = Float.ofBits 0x3FF0000000000000 := by decide +kernel

theorem unpack_zero64 (s : Sign) : (zero64 s).toModel.unpack = .zero s :=
  FM.unpack_pack_zero (spec := Format.binary64) (by decide) s

theorem unpack_zero_float : (0 : Float).toModel.unpack = .zero .positive := by
  rw [zero_eq_pzero64]; exact unpack_zero64 .positive

theorem unpack_one_float : (1 : Float).toModel.unpack = uone Format.binary64 := by
  rw [one_eq_bits64, FM.unpack_one]; rfl

/-- **`x * 1 = x` for every double** (NaN, `±∞`, `±0` and subnormals included). -/
theorem mul_one_float (x : Float) : x * 1 = x := by
  rw [mul_float, unpack_one_float, umul_one _ _ (canon_float x), pack_unpack_float]

/-- **`1 * x = x` for every double.** -/
theorem one_mul_float (x : Float) : 1 * x = x := by
  rw [mul_float, unpack_one_float, uone_mul _ _ (canon_float x), pack_unpack_float]

/-- **`0 * x` for finite `x` is the zero with the sign of `x`** (`+0` for `x ≥ +0`, `−0` for `x ≤ −0`). -/
theorem zero_mul_float (x : Float) (h : Finite64 x) : 0 * x = zero64 (sign64 x) := by
  rw [mul_float, unpack_zero_float, uzero_mul _ _ _ h, pos_mul_sign]; rfl

theorem mul_zero_float (x : Float) (h : Finite64 x) : x * 0 = zero64 (sign64 x) := by
  rw [mul_float, unpack_zero_float, umul_zero _ _ _ h, sign_mul_pos]; rfl

/-- `−0 * x` for finite `x`: the zero with the opposite sign. -/
theorem nzero_mul_float (x : Float) (h : Finite64 x) : nzero64 * x = zero64 (.negative * sign64 x) := by
  rw [mul_float, show nzero64 = zero64 .negative from rfl, unpack_zero64, uzero_mul _ _ _ h]; rfl

/-- `0 * x` is NaN for `x = ±∞` or NaN. -/
theorem zero_mul_nonfinite_float (x : Float) (h : x.toModel.unpack.isFinite = false) : 0 * x = FMO.nan64 := by
  rw [mul_float, unpack_zero_float, uzero_mul_nonfinite _ _ _ h]; rfl

/-- **`x + 0 = x` unless `x` is `−0`.** -/
theorem add_zero_float (x : Float) (h : x ≠ nzero64) : x + 0 = x := by
  rw [add_float, unpack_zero_float, uadd_pzero, pack_unpack_float]
  intro hu
  apply h
  rw [← pack_unpack_float x, hu]; rfl

/-- `−0 + +0 = +0`. -/
theorem negzero_add_zero_float : nzero64 + 0 = FMO.pzero64 := by decide +kernel

theorem zero_add_float (x : Float) (h : x ≠ nzero64) : 0 + x = x := by
  rw [add_float, unpack_zero_float, upzero_add, pack_unpack_float]
  intro hu
  apply h
  rw [← pack_unpack_float x, hu]; rfl

/-- **`x − 0 = x` for every double.** -/
theorem sub_zero_float (x : Float) : x - 0 = x := by
  rw [FMO.sub_float, unpack_zero_float, usub_pzero, pack_unpack_float]

/-- **`0 / d` for a non-zero non-NaN `d` (finite or `±∞`) is the zero with the sign of `d`.** -/
theorem zero_div_float (d : Float) (h : isDivisor d.toModel.unpack = true) : 0 / d = zero64 (sign64 d) := by
  rw [FMO.div_float, unpack_zero_float, uzero_div _ _ _ h, pos_div_sign]; rfl

/-- **`x / x = 1` for every finite non-zero double.** -/
theorem div_self_float (x : Float) (h : FiniteNonzero64 x) : x / x = 1 := by
  rw [FMO.div_float]
  have h' : FMO.isFiniteNonzero x.toModel.unpack = true := h
  generalize x.toModel.unpack = u at h'
  rcases u with s|_|s|⟨s,m,e,hm⟩
  · cases h'
  · cases h'
  · cases h'
  · rw [udiv_self Format.binary64 (by decide) (by decide), ← unpack_one_float, pack_unpack_float]

/-- comparisons do not see the sign of a zero. -/
theorem ucompare_zero_left (s t : Sign) (u : UF) : (UnpackedFloat.zero s).compare u = (UnpackedFloat.zero t).compare u := by
  cases u <;> first | rfl | (rename_i s' _ _ _; cases s' <;> rfl) | (rename_i s'; cases s' <;> rfl)

theorem ucompare_zero_right (s t : Sign) (u : UF) : u.compare (.zero s) = u.compare (.zero t) := by
  cases u <;> first | rfl | (rename_i s' _ _ _; cases s' <;> rfl) | (rename_i s'; cases s' <;> rfl)

theorem lt_zero64_left (s : Sign) (y : Float) : Scalar.lt (zero64 s) y = Scalar.lt (0 : Float) y := by
  rw [FMO.lt_float, FMO.lt_float, unpack_zero64, unpack_zero_float]
  unfold UnpackedFloat.lt; rw [ucompare_zero_left s .positive]

theorem lt_zero64_right (s : Sign) (y : Float) : Scalar.lt y (zero64 s) = Scalar.lt y (0 : Float) := by
  rw [FMO.lt_float, FMO.lt_float, unpack_zero64, unpack_zero_float]
  unfold UnpackedFloat.lt; rw [ucompare_zero_right s .positive]

theorem eq_zero64 (s : Sign) : Scalar.eq (zero64 s) (0 : Float) = true := by cases s <;> decide +kernel

/-- a finite double is not NaN. -/
theorem not_nan_of_finite64 (x : Float) (h : Finite64 x) : Scalar.isNaN x = false := by
  rw [FMO.isNaN_float]
  have h' : x.toModel.unpack.isFinite = true := h
  generalize x.toModel.unpack = u at h'
  rcases u with s|_|s|⟨s,m,e,hm⟩
  · cases h'
  · cases h'
  · rfl
  · rfl

/-! ## 3. `Float32` (binary32) -/

def zero32 (s : Sign) : Float32 := Float32.ofModel (Float32.Model.pack (.zero s))
def nzero32 : Float32 := zero32 .negative
def sign32 (x : Float32) : Sign := usign x.toModel.unpack
abbrev Finite32 (x : Float32) : Prop := x.toModel.unpack.isFinite = true
abbrev FiniteNonzero32 (x : Float32) : Prop := FMO.isFiniteNonzero x.toModel.unpack = true

theorem zero32_cases (s : Sign) : zero32 s = FMO.pzero32 ∨ zero32 s = nzero32 := by
  cases s
  · exact Or.inr rfl
  · exact Or.inl rfl

theorem mul_float32 (x y : Float32) : x * y =
    Float32.ofModel (Float32.Model.pack (UnpackedFloat.mul Format.binary32 x.toModel.unpack y.toModel.unpack)) := rfl
theorem add_float32 (x y : Float32) : x + y =
    Float32.ofModel (Float32.Model.pack (UnpackedFloat.add Format.binary32 x.toModel.unpack y.toModel.unpack)) := rfl

theorem pack_unpack_float32 (x : Float32) : Float32.ofModel (Float32.Model.pack x.toModel.unpack) = x :=
  FM.float32_ofBits_toBits x

theorem canon_float32 (x : Float32) : FMR.Canon Format.binary32 x.toModel.unpack :=
  FMR.unpack_canon Format.binary32 x.toModel.toBits.toBitVec

theorem zero_eq_pzero32 : (0 : Float32) = FMO.pzero32 := by decide +kernel
theorem one_eq_bits32 : (1 : Float32) = Float32.ofBits 0x3F800000 := by decide +kernel

theorem unpack_zero32 (s : Sign) : (zero32 s).toModel.unpack = .zero s :=
  FM.unpack_pack_zero (spec := Format.binary32) (by decide) s

theorem unpack_zero_float32 : (0 : Float32).toModel.unpack = .zero .positive := by
  rw [zero_eq_pzero32]; exact unpack_zero32 .positive

theorem unpack_one_float32 : (1 : Float32).toModel.unpack = uone Format.binary32 := by
  rw [one_eq_bits32, FM.float32_unpack_ofBits _ (by decide)]; rfl

/-- **`x * 1 = x` for every `f32`.** -/
theorem mul_one_float32 (x : Float32) : x * 1 = x := by
  rw [mul_float32, unpack_one_float32, umul_one _ _ (canon_float32 x), pack_unpack_float32]

theorem one_mul_float32 (x : Float32) : 1 * x = x := by
  rw [mul_float32, unpack_one_float32, uone_mul _ _ (canon_float32 x), pack_unpack_float32]

theorem zero_mul_float32 (x : Float32) (h : Finite32 x) : 0 * x = zero32 (sign32 x) := by
  rw [mul_float32, unpack_zero_float32, uzero_mul _ _ _ h, pos_mul_sign]; rfl

theorem mul_zero_float32 (x : Float32) (h : Finite32 x) : x * 0 = zero32 (sign32 x) := by
  rw [mul_float32, unpack_zero_float32, umul_zero _ _ _ h, sign_mul_pos]; rfl

theorem add_zero_float32 (x : Float32) (h : x ≠ nzero32) : x + 0 = x := by
  rw [add_float32, unpack_zero_float32, uadd_pzero, pack_unpack_float32]
  intro hu
  apply h
  rw [← pack_unpack_float32 x, hu]; rfl

theorem negzero_add_zero_float32 : nzero32 + 0 = FMO.pzero32 := by decide +kernel

theorem zero_add_float32 (x : Float32) (h : x ≠ nzero32) : 0 + x = x := by
  rw [add_float32, unpack_zero_float32, upzero_add, pack_unpack_float32]
  intro hu
  apply h
  rw [← pack_unpack_float32 x, hu]; rfl

theorem sub_zero_float32 (x : Float32) : x - 0 = x := by
  rw [FMO.sub_float32, unpack_zero_float32, usub_pzero, pack_unpack_float32]

theorem zero_div_float32 (d : Float32) (h : isDivisor d.toModel.unpack = true) : 0 / d = zero32 (sign32 d) := by
  rw [FMO.div_float32, unpack_zero_float32, uzero_div _ _ _ h, pos_div_sign]; rfl

theorem div_self_float32 (x : Float32) (h : FiniteNonzero32 x) : x / x = 1 := by
  rw [FMO.div_float32]
  have h' : FMO.isFiniteNonzero x.toModel.unpack = true := h
  generalize x.toModel.unpack = u at h'
  rcases u with s|_|s|⟨s,m,e,hm⟩
  · cases h'
  · cases h'
  · cases h'
  · rw [udiv_self Format.binary32 (by decide) (by decide), ← unpack_one_float32, pack_unpack_float32]

/-! ## 4. the conversions `f64 → f32` (`as f32`) and `f32 → f64` (`f64::from`) on `0`, `−0`, `1` -/

theorem down_zero : (Cvt.down (0 : Float) : Float32) = 0 := by decide +kernel
theorem down_pzero : (Cvt.down FMO.pzero64 : Float32) = FMO.pzero32 := by decide +kernel
theorem down_nzero : (Cvt.down nzero64 : Float32) = nzero32 := by decide +kernel
theorem down_zero64 (s : Sign) : (Cvt.down (zero64 s) : Float32) = zero32 s := by cases s <;> decide +kernel
theorem down_one : (Cvt.down (1 : Float) : Float32) = 1 := by decide +kernel
theorem up_zero : (Cvt.up (0 : Float32) : Float) = 0 := by decide +kernel
theorem up_zero32 (s : Sign) : (Cvt.up (zero32 s) : Float) = zero64 s := by cases s <;> decide +kernel
theorem up_one : (Cvt.up (1 : Float32) : Float) = 1 := by decide +kernel

/-! ## 4b. NaN propagation (the model holds one NaN, so "is NaN" is an equation) -/

theorem unpack_nan64 : FMO.nan64.toModel.unpack = .notANumber := FMR.repack_nan Format.binary64
theorem unpack_nan32 : FMO.nan32.toModel.unpack = .notANumber := FMR.repack_nan Format.binary32

/-- every NaN double is the canonical NaN. -/
theorem eq_nan64_of_isNaN (x : Float) (h : Scalar.isNaN x = true) : x = FMO.nan64 := by
  rw [← pack_unpack_float x, FMR.eq_nan_of_isNaN x.toModel.unpack (by rw [← FMO.isNaN_float]; exact h)]; rfl

theorem eq_nan32_of_isNaN (x : Float32) (h : Scalar.isNaN x = true) : x = FMO.nan32 := by
  rw [← pack_unpack_float32 x, FMR.eq_nan_of_isNaN x.toModel.unpack (by rw [← FMO.isNaN_float32]; exact h)]; rfl

theorem nan_sub_float (y : Float) : FMO.nan64 - y = FMO.nan64 := by
  rw [FMO.sub_float, unpack_nan64]; cases y.toModel.unpack <;> rfl

theorem nan_div_float (y : Float) : FMO.nan64 / y = FMO.nan64 := by
  rw [FMO.div_float, unpack_nan64]; cases y.toModel.unpack <;> rfl

theorem down_nan : (Cvt.down FMO.nan64 : Float32) = FMO.nan32 := by decide +kernel

theorem mul_nan_float32 (x : Float32) : x * FMO.nan32 = FMO.nan32 := by
  rw [mul_float32, unpack_nan32]; cases x.toModel.unpack <;> rfl

theorem add_nan_float32 (x : Float32) : x + FMO.nan32 = FMO.nan32 := by
  rw [add_float32, unpack_nan32]; cases x.toModel.unpack <;> rfl

/-! ## 5. closed instances (non-vacuity; the kernel evaluates the IEEE operations) -/

example : (0 : Float) * (-3.5) = nzero64 := by decide +kernel
example : (0 : Float) * (-3.5) = nzero64 := zero_mul_float _ (by decide +kernel)
example : (0 : Float) * 3.5 = FMO.pzero64 := zero_mul_float _ (by decide +kernel)
example : Float.isNaN ((0 : Float) * (1 / 0)) = true := by decide +kernel
example : nzero64 + 0 ≠ nzero64 := by decide +kernel
example : (2.5 : Float) + 0 = 2.5 := add_zero_float _ (by decide +kernel)
example : (0 : Float) / (-2.5) = nzero64 := zero_div_float _ (by decide +kernel)
example : (0.1 : Float) / 0.1 = 1 := div_self_float _ (by decide +kernel)
example : (0.1 : Float32) / 0.1 = 1 := div_self_float32 _ (by decide +kernel)
example : Float.isNaN ((0 : Float) / 0) = true := by decide +kernel

end Rosu.FX
