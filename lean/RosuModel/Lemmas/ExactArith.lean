/-
  Lemmas/ExactArith.lean — what "exact arithmetic" means for the law-dependent curve theorems.

  `ExactScalar φ` says: `φ : α → K` embeds the model scalar `α` into a linearly ordered field `K` and every
  `Scalar α` operation the curve code applies is the corresponding field operation / order relation of `K`.
  These are ordered-field **laws, taken as an explicit hypothesis** (a `Prop`-valued structure, not an axiom and
  not an instance the model knows about): a theorem that takes `(E : ExactScalar φ)` is a statement about the model
  functions themselves (`calculateLength`, `positionAt`, `approximateCircularArc`, … — the functions the driver
  runs), valid for every scalar whose arithmetic is exact. `exactScalar_rat` shows the hypothesis is satisfiable
  (core `Rat` with the instance of Lemmas/ToyRat.lean, `φ = id`).

  **IEEE `f32`/`f64` do not satisfy these laws** (rounding, NaN, overflow), and nothing here claims they do.
-/
import Mathlib.Tactic.Ring
import Mathlib.Tactic.Linarith
import Mathlib.Tactic.FieldSimp
import Mathlib.Algebra.Order.Field.Basic
import Mathlib.Algebra.Order.Field.Rat
import RosuModel.Model.Basic
import RosuModel.Lemmas.ToyRat
set_option linter.unusedSectionVars false
namespace Rosu

section
variable {α K : Type} [Scalar α] [Field K] [LinearOrder K] [IsStrictOrderedRing K]

/-- the arithmetic of `α` is the arithmetic of the ordered field `K`, seen through the embedding `φ`. -/
structure ExactScalar (φ : α → K) : Prop where
  inj : Function.Injective φ
  add : ∀ a b : α, φ (a + b) = φ a + φ b
  sub : ∀ a b : α, φ (a - b) = φ a - φ b
  mul : ∀ a b : α, φ (a * b) = φ a * φ b
  div : ∀ a b : α, φ (a / b) = φ a / φ b
  neg : ∀ a : α, φ (-a) = -φ a
  ofNat : ∀ n : Nat, φ (Scalar.ofNat n) = (n : K)
  /-- decimal literals with a negative exponent (`0.5`, `0.25`, `0.1`). -/
  ofSci : ∀ m e : Nat, φ (Scalar.ofSci m true e) = (m : K) / (10 : K) ^ e
  lt : ∀ a b : α, Scalar.lt a b = decide (φ a < φ b)
  le : ∀ a b : α, Scalar.le a b = decide (φ a ≤ φ b)
  eq : ∀ a b : α, Scalar.eq a b = decide (φ a = φ b)
  abs : ∀ a : α, φ (Scalar.abs a) = |φ a|
  /-- the only fact about `sqrt` shared by all instances: it maps non-negatives to non-negatives.
  (That it is a square root is the separate hypothesis `SqrtLaws`.) -/
  sqrt_nonneg : ∀ a : α, 0 ≤ φ a → 0 ≤ φ (Scalar.sqrt a)
  eps_nonneg : 0 ≤ φ (Scalar.eps : α)

namespace ExactScalar
variable {φ : α → K} (E : ExactScalar φ)
include E

/-- numerals `(2 : α)`, `(50 : α)`, … -/
theorem lit (n : Nat) : φ (OfNat.ofNat n : α) = (n : K) := E.ofNat n

theorem zero : φ (0 : α) = 0 := by rw [E.lit]; simp
theorem one : φ (1 : α) = 1 := by rw [E.lit]; simp
theorem two : φ (2 : α) = 2 := by rw [E.lit]; simp

/-- decimal literals `(0.25 : α)` = `OfScientific.ofScientific 25 true 2`. -/
theorem sci (m e : Nat) : φ (OfScientific.ofScientific m true e : α) = (m : K) / (10 : K) ^ e := E.ofSci m e

theorem lt_iff (a b : α) : Scalar.lt a b = true ↔ φ a < φ b := by rw [E.lt]; simp
theorem le_iff (a b : α) : Scalar.le a b = true ↔ φ a ≤ φ b := by rw [E.le]; simp
theorem eq_iff (a b : α) : Scalar.eq a b = true ↔ a = b := by
  rw [E.eq]; simp only [decide_eq_true_eq]; exact ⟨fun h => E.inj h, fun h => by rw [h]⟩
theorem lt_false_iff (a b : α) : Scalar.lt a b = false ↔ φ b ≤ φ a := by rw [E.lt]; simp
theorem le_false_iff (a b : α) : Scalar.le a b = false ↔ φ b < φ a := by rw [E.le]; simp

theorem recip (a : α) : φ (Scalar.recip a) = (φ a)⁻¹ := by
  unfold Scalar.recip; rw [E.div, E.one, one_div]

/-- `f64::clamp(x, 0, 1)` is `max 0 (min 1 x)`. -/
theorem clamp01 (x : α) : φ (Scalar.clamp x 0 1) = max 0 (min 1 (φ x)) := by
  unfold Scalar.clamp
  simp only [E.lt, E.zero, E.one]
  by_cases h0 : φ x < 0
  · have h1 : ¬ (1 : K) < 0 := by linarith [zero_lt_one (α := K)]
    simp only [h0, decide_true, if_true, E.zero, h1, decide_false, Bool.false_eq_true, if_false]
    rw [min_eq_right (by linarith [zero_lt_one (α := K)]), max_eq_left (le_of_lt h0)]
  · simp only [h0, decide_false, Bool.false_eq_true, if_false]
    by_cases h1 : 1 < φ x
    · simp only [h1, decide_true, if_true, E.one]
      rw [min_eq_left (le_of_lt h1), max_eq_right zero_le_one]
    · simp only [h1, decide_false, Bool.false_eq_true, if_false]
      rw [min_eq_right (not_lt.mp h1), max_eq_right (not_lt.mp h0)]

end ExactScalar
end

/-! ### two scalars and the conversions between them -/

section
variable {P F K : Type} [Scalar P] [Scalar F] [Cvt P F] [Field K] [LinearOrder K] [IsStrictOrderedRing K]

/-- both scalars of the model (`P` = the `f32` side, `F` = the `f64` side) are exact over the same field and the
conversions `f64::from` / `as f32` are the identity of `K`. -/
structure ExactArith (φ : P → K) (ψ : F → K) : Prop where
  p : ExactScalar φ
  f : ExactScalar ψ
  up : ∀ x : P, ψ (Cvt.up x) = φ x
  down : ∀ y : F, φ (Cvt.down y) = ψ y

/-- `sqrt` is the square root (on non-negative arguments). Separate from `ExactArith` because no instance on `Rat`
exists; satisfiable over the reals (Lemmas/RealScalar.lean). -/
structure SqrtLaws (ψ : F → K) : Prop where
  mul_self_sqrt : ∀ a : F, 0 ≤ ψ a → ψ (Scalar.sqrt a) * ψ (Scalar.sqrt a) = ψ a

/-- the Pythagorean identity — the only fact about `sin`/`cos` the on-circle theorem needs. **libm's `sin`/`cos` are
not proved to satisfy it** (they do not, exactly: the results are rounded); satisfiable by the rational
parametrisation of the unit circle on `Rat` (`trigLaws_rat`) and by the real functions (Lemmas/RealScalar.lean). -/
structure TrigLaws [Trig F] (ψ : F → K) : Prop where
  cos_sq_add_sin_sq : ∀ θ : F, ψ (Trig.cos θ) * ψ (Trig.cos θ) + ψ (Trig.sin θ) * ψ (Trig.sin θ) = 1

/-- polar coordinates: `atan2 y x` is the angle of `(x, y)` and `sqrt (x² + y²)` its modulus. Satisfiable over the
reals (Lemmas/RealScalar.lean, `atan2 y x = Complex.arg (x + iy)`); not proved of libm. -/
structure PolarLaws [Trig F] (ψ : F → K) : Prop where
  cos : ∀ x y : F, ψ (Scalar.sqrt (x * x + y * y)) * ψ (Trig.cos (Trig.atan2 y x)) = ψ x
  sin : ∀ x y : F, ψ (Scalar.sqrt (x * x + y * y)) * ψ (Trig.sin (Trig.atan2 y x)) = ψ y

/-- `cos` and `sin` are `2π`-periodic (with `2π` written as the model writes it: `2.0 * PI`). Satisfiable over the reals
(Lemmas/RealScalar.lean); not proved of libm. -/
structure PeriodLaws [Trig F] (ψ : F → K) : Prop where
  cos_add : ∀ θ : F, ψ (Trig.cos (θ + (2 : F) * Trig.pi)) = ψ (Trig.cos θ)
  sin_add : ∀ θ : F, ψ (Trig.sin (θ + (2 : F) * Trig.pi)) = ψ (Trig.sin θ)

theorem Pos.ext' {a b : Pos P} (hx : a.x = b.x) (hy : a.y = b.y) : a = b := by
  cases a; cases b; simp only [Pos.mk.injEq]; exact ⟨hx, hy⟩

@[simp] theorem Pos.add_x (a b : Pos P) : (a + b).x = a.x + b.x := rfl
@[simp] theorem Pos.add_y (a b : Pos P) : (a + b).y = a.y + b.y := rfl
@[simp] theorem Pos.sub_x (a b : Pos P) : (a - b).x = a.x - b.x := rfl
@[simp] theorem Pos.sub_y (a b : Pos P) : (a - b).y = a.y - b.y := rfl
@[simp] theorem Pos.smul_x (a : Pos P) (k : P) : (a.smul k).x = a.x * k := rfl
@[simp] theorem Pos.smul_y (a : Pos P) (k : P) : (a.smul k).y = a.y * k := rfl
@[simp] theorem Pos.sdiv_x (a : Pos P) (k : P) : (a.sdiv k).x = a.x / k := rfl
@[simp] theorem Pos.sdiv_y (a : Pos P) (k : P) : (a.sdiv k).y = a.y / k := rfl

/-- the length of a vector is non-negative in exact arithmetic. -/
theorem ExactArith.length_nonneg {φ : P → K} {ψ : F → K} (E : ExactArith φ ψ) (v : Pos P) :
    0 ≤ φ (Pos.length F v) := by
  unfold Pos.length
  rw [E.down]
  apply E.f.sqrt_nonneg
  rw [E.up, E.p.add, E.p.mul, E.p.mul]
  nlinarith [mul_self_nonneg (φ v.x), mul_self_nonneg (φ v.y)]

end

/-! ### the laws are satisfiable: exact rational arithmetic -/

open Rosu.ToyRat in
/-- core `Rat` with the `Scalar` instance of Lemmas/ToyRat.lean is exact (`φ = id`). -/
theorem exactScalar_rat : ExactScalar (id : Rat → Rat) where
  inj := fun _ _ h => h
  add _ _ := rfl
  sub _ _ := rfl
  mul _ _ := rfl
  div _ _ := rfl
  neg _ := rfl
  ofNat _ := rfl
  ofSci m e := by
    show (m : Rat) / ((10 ^ e : Nat) : Rat) = (m : Rat) / (10 : Rat) ^ e
    push_cast; rfl
  lt a b := by show decide (a < b) = decide (a < b); rfl
  le a b := by show decide (a ≤ b) = decide (a ≤ b); rfl
  eq a b := by show decide (a = b) = decide (a = b); congr
  abs a := by
    show (if a < 0 then -a else a) = |a|
    split
    · rw [abs_of_neg ‹_›]
    · rw [abs_of_nonneg (not_lt.mp ‹_›)]
  sqrt_nonneg a h := h
  eps_nonneg := le_refl _

/-- a toy `Trig` on `Rat`: the rational parametrisation of the unit circle, `θ ↦ ((1-θ²)/(1+θ²), 2θ/(1+θ²))`
(`θ` plays the role of the tangent of the half angle). `acos`, `atan2`, `π` are arbitrary placeholders (chosen so that a
toy arc has several vertices). Only used to show `TrigLaws` is satisfiable in exact, evaluable arithmetic. -/
instance ToyRat.trigRat : Trig Rat where
  cos t := (1 - t * t) / (1 + t * t)
  sin t := 2 * t / (1 + t * t)
  acos _ := 1 / 8
  atan2 y x := y - x
  pi := 3

theorem trigLaws_rat : TrigLaws (id : Rat → Rat) where
  cos_sq_add_sin_sq θ := by
    show (1 - θ * θ) / (1 + θ * θ) * ((1 - θ * θ) / (1 + θ * θ)) + 2 * θ / (1 + θ * θ) * (2 * θ / (1 + θ * θ)) = 1
    have h : (1 + θ * θ) ≠ 0 := by nlinarith [mul_self_nonneg θ]
    field_simp
    ring

open Rosu.ToyRat in
theorem exactArith_rat : ExactArith (id : Rat → Rat) (id : Rat → Rat) where
  p := exactScalar_rat
  f := exactScalar_rat
  up _ := rfl
  down _ := rfl

end Rosu
