/-
  Lemmas/BezierSubdiv.lean — `bezier_subdivide` is de Casteljau's subdivision at `t = 1/2`.

  1. list combinators (`stepWith`, `leftWith`, `rightWith`): one de Casteljau row, the first points of the successive
     rows (left half), the last points of the successive rows in reverse order (right half), for an arbitrary
     "mixing" operation `f`;
  2. pure mathematics over a field `K`: rows at different parameters commute (`dcStep_comm`), and the classical
     subdivision theorem `bez (leftPoly t Q) s = bez Q (s * t)`, `bez (rightPoly t Q) s = bez Q (1 - (1 - s) * (1 - t))`;
  3. the model (every `Scalar` instance, no arithmetic law): `bezierSubdivide points l r mid` returns buffers whose first
     `count` cells are `leftM points` / `rightM points` (`bezierSubdivide_spec`), `bezierApproximate` pushes
     `flatPiece points`, and the stack loop `bsplineLoop` computes the pure list function `flattenPure`
     (`bsplineLoop_pure`, the bridge lemma).
-/
import Mathlib.Tactic.Ring
import Mathlib.Tactic.Linarith
import Mathlib.Algebra.Field.Basic
import Mathlib.Tactic.FieldSimp
import RosuModel.Model.Curve
import RosuModel.Lemmas.Outcome
import RosuModel.Lemmas.BezierEnds
set_option linter.unusedSectionVars false
namespace Rosu.Bez
open Rosu Rosu.Curve

/-! ### 1. rows and halves for an arbitrary mixing operation -/

section Comb
variable {α β : Type}

/-- one de Casteljau row: `[f q0 q1, f q1 q2, …]`. -/
def stepWith (f : α → α → α) : List α → List α
  | a :: b :: rest => f a b :: stepWith f (b :: rest)
  | _ => []

@[simp] theorem stepWith_nil (f : α → α → α) : stepWith f [] = [] := rfl
@[simp] theorem stepWith_single (f : α → α → α) (a : α) : stepWith f [a] = [] := rfl
@[simp] theorem stepWith_cons2 (f : α → α → α) (a b : α) (rest : List α) :
    stepWith f (a :: b :: rest) = f a b :: stepWith f (b :: rest) := rfl

theorem length_stepWith (f : α → α → α) : ∀ Q : List α, (stepWith f Q).length = Q.length - 1
  | [] => rfl
  | [_] => rfl
  | _ :: b :: rest => by
    have := length_stepWith f (b :: rest)
    simp only [stepWith_cons2, List.length_cons] at this ⊢
    omega

/-- the first points of the rows `Q, step Q, step (step Q), …` (`n` rows). -/
def leftWith (f : α → α → α) : Nat → List α → List α
  | 0, _ => []
  | _ + 1, [] => []
  | n + 1, a :: rest => a :: leftWith f n (stepWith f (a :: rest))

/-- the last points of the rows, deepest row first (`n` rows). -/
def rightWith (f : α → α → α) : Nat → List α → List α
  | 0, _ => []
  | n + 1, Q => match Q.getLast? with
    | none => []
    | some z => rightWith f n (stepWith f Q) ++ [z]

theorem length_leftWith (f : α → α → α) : ∀ (n : Nat) (Q : List α), Q.length = n → (leftWith f n Q).length = n
  | 0, _, _ => rfl
  | n + 1, [], h => by simp at h
  | n + 1, a :: rest, h => by
    have hs : (stepWith f (a :: rest)).length = n := by
      rw [length_stepWith]; simp only [List.length_cons] at h ⊢; omega
    simp only [leftWith, List.length_cons, length_leftWith f n _ hs]

theorem length_rightWith (f : α → α → α) : ∀ (n : Nat) (Q : List α), Q.length = n → (rightWith f n Q).length = n
  | 0, _, _ => rfl
  | n + 1, Q, h => by
    have hs : (stepWith f Q).length = n := by rw [length_stepWith]; omega
    cases hl : Q.getLast? with
    | none => rw [List.getLast?_eq_none_iff] at hl; subst hl; simp at h
    | some z => simp only [rightWith, hl, List.length_append, length_rightWith f n _ hs, List.length_singleton]

theorem rightWith_succ (f : α → α → α) (n : Nat) (Q : List α) (z : α) (h : Q.getLast? = some z) :
    rightWith f (n + 1) Q = rightWith f n (stepWith f Q) ++ [z] := by
  simp only [rightWith, h]

/-- cell `k` of a row. -/
theorem getElem?_stepWith (f : α → α → α) : ∀ (Q : List α) (k : Nat),
    (stepWith f Q)[k]? = (Q[k]?).bind fun a => (Q[k + 1]?).map (f a)
  | [], k => by simp
  | [a], k => by cases k <;> simp
  | a :: b :: rest, 0 => by simp
  | a :: b :: rest, k + 1 => by
    have := getElem?_stepWith f (b :: rest) k
    simp only [stepWith_cons2, List.getElem?_cons_succ] at this ⊢
    exact this

theorem stepWith_map (g : α → β) (f : α → α → α) (f' : β → β → β) (h : ∀ a b, g (f a b) = f' (g a) (g b)) :
    ∀ Q : List α, (stepWith f Q).map g = stepWith f' (Q.map g)
  | [] => rfl
  | [_] => rfl
  | a :: b :: rest => by
    have := stepWith_map g f f' h (b :: rest)
    simp only [stepWith_cons2, List.map_cons, h] at this ⊢
    rw [this]

theorem leftWith_map (g : α → β) (f : α → α → α) (f' : β → β → β) (h : ∀ a b, g (f a b) = f' (g a) (g b)) :
    ∀ (n : Nat) (Q : List α), (leftWith f n Q).map g = leftWith f' n (Q.map g)
  | 0, _ => rfl
  | _ + 1, [] => rfl
  | n + 1, a :: rest => by
    have := leftWith_map g f f' h n (stepWith f (a :: rest))
    rw [stepWith_map g f f' h] at this
    simp only [leftWith, List.map_cons, this]

theorem rightWith_map (g : α → β) (f : α → α → α) (f' : β → β → β) (h : ∀ a b, g (f a b) = f' (g a) (g b)) :
    ∀ (n : Nat) (Q : List α), (rightWith f n Q).map g = rightWith f' n (Q.map g)
  | 0, _ => rfl
  | n + 1, Q => by
    have := rightWith_map g f f' h n (stepWith f Q)
    rw [stepWith_map g f f' h] at this
    cases hl : Q.getLast? with
    | none => simp only [rightWith, hl, List.getLast?_map, Option.map_none, List.map_nil]
    | some z =>
      simp only [rightWith, hl, List.getLast?_map, Option.map_some, List.map_append, this, List.map_cons,
        List.map_nil]

/-- a row of a polygon extended by one point. -/
theorem stepWith_snoc (f : α → α → α) : ∀ (X : List α) (y z : α),
    stepWith f (X ++ [y, z]) = stepWith f (X ++ [y]) ++ [f y z]
  | [], y, z => rfl
  | [a], y, z => rfl
  | a :: b :: X, y, z => by
    have := stepWith_snoc f (b :: X) y z
    simp only [List.cons_append, stepWith_cons2] at this ⊢
    rw [this]

/-- a row of the reversed polygon is the reversed row for the flipped operation. -/
theorem stepWith_reverse (f : α → α → α) : ∀ Q : List α,
    stepWith f Q.reverse = (stepWith (fun a b => f b a) Q).reverse
  | [] => rfl
  | [_] => rfl
  | a :: b :: rest => by
    have ih := stepWith_reverse f (b :: rest)
    have e : (a :: b :: rest).reverse = rest.reverse ++ [b, a] := by simp
    have e' : (b :: rest).reverse = rest.reverse ++ [b] := by simp
    rw [e, stepWith_snoc, ← e', ih]
    simp

/-- the right half is the reversed left half of the reversed polygon (for the flipped operation). -/
theorem rightWith_eq_reverse (f : α → α → α) : ∀ (n : Nat) (Q : List α),
    rightWith f n Q = (leftWith (fun a b => f b a) n Q.reverse).reverse
  | 0, _ => rfl
  | n + 1, Q => by
    cases hl : Q.getLast? with
    | none =>
      rw [List.getLast?_eq_none_iff] at hl; subst hl
      simp [rightWith, leftWith]
    | some z =>
      obtain ⟨W, hW⟩ : ∃ W, Q.reverse = z :: W := by
        rw [List.getLast?_eq_head?_reverse] at hl
        cases hr : Q.reverse with
        | nil => rw [hr] at hl; simp at hl
        | cons x W => rw [hr] at hl; simp at hl; exact ⟨W, by rw [hl]⟩
      have ih := rightWith_eq_reverse f n (stepWith f Q)
      have hstep : stepWith (fun a b => f b a) Q.reverse = (stepWith f Q).reverse := by
        rw [stepWith_reverse]
      rw [rightWith_succ f n Q z hl, ih, hW, leftWith, ← hW, hstep]
      simp

end Comb

/-! ### 2. de Casteljau over a field: the subdivision theorem -/

section Field
variable {K : Type} [Field K]

/-- `(1 - t) a + t b`. -/
def lerp (t a b : K) : K := (1 - t) * a + t * b

/-- one de Casteljau row at parameter `t`. -/
abbrev dcStep (t : K) : List K → List K := stepWith (lerp t)

/-- `n` de Casteljau rows at parameter `t`, then the first point. -/
def evalBez (t : K) : Nat → List K → K
  | 0, Q => Q.headD 0
  | n + 1, Q => evalBez t n (dcStep t Q)

/-- **the Bezier curve** with control values `Q` (one coordinate) at parameter `t`: de Casteljau's algorithm. -/
def bez (Q : List K) (t : K) : K := evalBez t (Q.length - 1) Q

/-- control polygon of the left part `[0, t]`. -/
def leftPoly (t : K) (Q : List K) : List K := leftWith (lerp t) Q.length Q

/-- control polygon of the right part `[t, 1]`. -/
def rightPoly (t : K) (Q : List K) : List K := rightWith (lerp t) Q.length Q

/-- **rows at different parameters commute** (the symmetry of the blossom). -/
theorem dcStep_comm (s t : K) : ∀ Q : List K, dcStep t (dcStep s Q) = dcStep s (dcStep t Q)
  | [] => rfl
  | [_] => rfl
  | [_, _] => rfl
  | a :: b :: c :: rest => by
    have ih := dcStep_comm s t (b :: c :: rest)
    simp only [dcStep, stepWith_cons2] at ih ⊢
    rw [ih]
    congr 1
    simp only [lerp]; ring

/-- a row at `s` of the left polygon (at `t`) is the left polygon of the row at `s t`. -/
theorem dcStep_leftWith (s t : K) : ∀ (n : Nat) (Q : List K), Q.length = n + 1 →
    dcStep s (leftWith (lerp t) (n + 1) Q) = leftWith (lerp t) n (dcStep (s * t) Q)
  | 0, [a], _ => rfl
  | 0, [], h => by simp at h
  | 0, _ :: _ :: _, h => by simp at h
  | n + 1, [], h => by simp at h
  | n + 1, [_], h => by simp at h
  | n + 1, a :: b :: rest, h => by
    have hlen : (dcStep t (a :: b :: rest)).length = n + 1 := by
      rw [length_stepWith]; simp only [List.length_cons] at h ⊢; omega
    have ih := dcStep_leftWith s t n (dcStep t (a :: b :: rest)) hlen
    rw [dcStep_comm] at ih
    simp only [dcStep, stepWith_cons2, leftWith] at ih ⊢
    rw [ih]
    congr 1
    simp only [lerp]; ring

theorem evalBez_leftWith (s t : K) : ∀ (n : Nat) (Q : List K), Q.length = n + 1 →
    evalBez s n (leftWith (lerp t) (n + 1) Q) = evalBez (s * t) n Q
  | 0, [a], _ => rfl
  | 0, [], h => by simp at h
  | 0, _ :: _ :: _, h => by simp at h
  | n + 1, Q, h => by
    have hlen : (dcStep (s * t) Q).length = n + 1 := by rw [length_stepWith]; omega
    rw [evalBez, dcStep_leftWith s t (n + 1) Q h, evalBez_leftWith s t n _ hlen, evalBez]

/-- **subdivision theorem, left part**: the polygon of first row points at `t` is the control polygon of the
curve restricted to `[0, t]`. -/
theorem bez_leftPoly (t : K) (Q : List K) (s : K) : bez (leftPoly t Q) s = bez Q (s * t) := by
  cases Q with
  | nil => rfl
  | cons a rest =>
    have hl : (leftPoly t (a :: rest)).length = rest.length + 1 := length_leftWith _ _ _ rfl
    unfold bez
    rw [hl]
    exact evalBez_leftWith s t rest.length (a :: rest) rfl

theorem lerp_flip (t : K) : (fun a b => lerp t b a) = lerp (1 - t) := by
  funext a b; simp only [lerp]; ring

theorem dcStep_reverse (t : K) (Q : List K) : dcStep t Q.reverse = (dcStep (1 - t) Q).reverse := by
  rw [dcStep, stepWith_reverse, lerp_flip]

theorem evalBez_reverse (t : K) : ∀ (n : Nat) (Q : List K), Q.length = n + 1 →
    evalBez t n Q.reverse = evalBez (1 - t) n Q
  | 0, [a], _ => rfl
  | 0, [], h => by simp at h
  | 0, _ :: _ :: _, h => by simp at h
  | n + 1, Q, h => by
    have hlen : (dcStep (1 - t) Q).length = n + 1 := by rw [length_stepWith]; omega
    rw [evalBez, dcStep_reverse, evalBez_reverse t n _ hlen, evalBez]

/-- the reversed control polygon traces the curve backwards. -/
theorem bez_reverse (Q : List K) (t : K) : bez Q.reverse t = bez Q (1 - t) := by
  cases Q with
  | nil => rfl
  | cons a rest =>
    unfold bez
    rw [List.length_reverse]
    exact evalBez_reverse t rest.length (a :: rest) rfl

theorem rightPoly_eq (t : K) (Q : List K) : rightPoly t Q = (leftPoly (1 - t) Q.reverse).reverse := by
  unfold rightPoly leftPoly
  rw [rightWith_eq_reverse, lerp_flip, List.length_reverse]

/-- **subdivision theorem, right part**: the polygon of last row points at `t` (deepest first) is the control
polygon of the curve restricted to `[t, 1]`. -/
theorem bez_rightPoly (t : K) (Q : List K) (s : K) : bez (rightPoly t Q) s = bez Q (1 - (1 - s) * (1 - t)) := by
  rw [rightPoly_eq, bez_reverse, bez_leftPoly, bez_reverse]

theorem evalBez_zero : ∀ (n : Nat) (Q : List K), Q.length = n + 1 → evalBez 0 n Q = Q.headD 0
  | 0, _, _ => rfl
  | n + 1, [], h => by simp at h
  | n + 1, [_], h => by simp at h
  | n + 1, a :: b :: rest, h => by
    have hlen : (dcStep 0 (a :: b :: rest)).length = n + 1 := by
      rw [length_stepWith]; simp only [List.length_cons] at h ⊢; omega
    rw [evalBez, evalBez_zero n _ hlen]
    simp [lerp]

/-- the curve starts at the first control point … -/
theorem bez_zero (Q : List K) : bez Q 0 = Q.headD 0 := by
  cases Q with
  | nil => rfl
  | cons a rest => exact evalBez_zero rest.length (a :: rest) rfl

/-- … and ends at the last one. -/
theorem bez_one (Q : List K) : bez Q 1 = Q.reverse.headD 0 := by
  have := bez_reverse Q 0
  rw [sub_zero] at this
  rw [← this, bez_zero]

/-- halves at `t = 1/2`, in the form used by the flattening: `[0,1/2]` and `[1/2,1]`. -/
theorem bez_leftPoly_half [NeZero (2 : K)] (Q : List K) (s : K) : bez (leftPoly (1 / 2) Q) s = bez Q (s / 2) := by
  rw [bez_leftPoly]; congr 1; ring

theorem bez_rightPoly_half [NeZero (2 : K)] (Q : List K) (s : K) :
    bez (rightPoly (1 / 2) Q) s = bez Q ((1 + s) / 2) := by
  rw [bez_rightPoly]; congr 1
  have h2 : (2 : K) ≠ 0 := NeZero.ne 2
  field_simp
  ring

end Field

/-! ### 3. the model: `bezier_subdivide` computes the halves (every `Scalar` instance) -/

section Model
variable {P : Type} [Scalar P]

/-- the mixing operation of `bezier_subdivide`: `(a + b) / 2.0`. -/
def midP (a b : Pos P) : Pos P := (a + b).sdiv (2 : P)

/-- left half of a control polygon as `bezier_subdivide` computes it (`l[..count]`). -/
def leftM (Q : List (Pos P)) : List (Pos P) := leftWith midP Q.length Q

/-- right half of a control polygon as `bezier_subdivide` computes it (`r[..count]`). -/
def rightM (Q : List (Pos P)) : List (Pos P) := rightWith midP Q.length Q

theorem length_leftM (Q : List (Pos P)) : (leftM Q).length = Q.length := length_leftWith _ _ _ rfl
theorem length_rightM (Q : List (Pos P)) : (rightM Q).length = Q.length := length_rightWith _ _ _ rfl

/-- cell `k` of a row, as an option. -/
def pairAt (mid : List (Pos P)) (k : Nat) : Option (Pos P) :=
  (mid[k]?).bind fun a => (mid[k + 1]?).map (midP a)

/-- the inner loop replaces cells `j … j+rem-1` by the midpoints with their right neighbours. -/
theorem subdivInner_spec : ∀ (rem j : Nat) (mid m : List (Pos P)), subdivInner rem j mid = .ok m →
    m.length = mid.length ∧ ∀ k, m[k]? = if j ≤ k ∧ k < j + rem then pairAt mid k else mid[k]?
  | 0, j, mid, m, h => by
    simp only [subdivInner, Outcome.pure_eq_ok] at h
    cases h
    refine ⟨rfl, fun k => ?_⟩
    rw [if_neg (by omega)]
  | rem + 1, j, mid, m, h => by
    simp only [subdivInner] at h
    obtain ⟨a, ha, h⟩ := Outcome.bind_eq_ok h
    obtain ⟨b, hb, h⟩ := Outcome.bind_eq_ok h
    obtain ⟨mid1, hs, h⟩ := Outcome.bind_eq_ok h
    obtain ⟨hj, e1⟩ := setI_ok hs
    subst e1
    rw [getI_ok_iff] at ha hb
    obtain ⟨hlen, hcell⟩ := subdivInner_spec rem (j + 1) _ m h
    refine ⟨by rw [hlen, List.length_set], fun k => ?_⟩
    rw [hcell k]
    by_cases hk : k = j
    · subst hk
      rw [if_neg (by omega), if_pos (by omega), List.getElem?_set_self hj]
      simp only [pairAt, ha, hb, Option.bind_some, Option.map_some, midP]
    · by_cases hk2 : j + 1 ≤ k ∧ k < j + 1 + rem
      · rw [if_pos hk2, if_pos (by omega)]
        simp only [pairAt]
        rw [List.getElem?_set_ne (by omega), List.getElem?_set_ne (by omega)]
      · rw [if_neg hk2, if_neg (by omega), List.getElem?_set_ne (by omega)]

/-- the inner loop called as in `bezier_subdivide` turns the row held in `mid[..=i]` into the next row in `mid[..i]`. -/
theorem subdivInner_take (i : Nat) (mid m : List (Pos P)) (h : subdivInner i 0 mid = .ok m) :
    m.length = mid.length ∧ m.take i = stepWith midP (mid.take (i + 1)) := by
  obtain ⟨hlen, hcell⟩ := subdivInner_spec i 0 mid m h
  refine ⟨hlen, ?_⟩
  apply List.ext_getElem?
  intro k
  rw [List.getElem?_take, getElem?_stepWith, List.getElem?_take, List.getElem?_take]
  by_cases hk : k < i
  · rw [if_pos hk, if_pos (by omega), if_pos (by omega), hcell k, if_pos (by omega)]
    rfl
  · rw [if_neg hk]
    by_cases hk2 : k < i + 1
    · rw [if_pos hk2, if_neg (by omega)]
      cases mid[k]? <;> simp
    · rw [if_neg hk2]; simp

/-- the last two writes of `bezier_subdivide`: `l[count - 1] = midpoints[0]; r[0] = midpoints[0]`. -/
def subdivFinish (count : Nat) (st : List (Pos P) × List (Pos P) × List (Pos P)) :
    Outcome (List (Pos P) × List (Pos P) × List (Pos P)) := do
  let m0 ← getI st.2.2 0
  let l ← setI st.1 (← usub count 1) m0
  let r ← setI st.2.1 0 m0
  pure (l, r, st.2.2)

/-- the outer loop from round `i` down, followed by the final writes: `l[count-1-i .. count)` receives the left half
of the row held in `mid[..=i]` and `r[..=i]` its right half; all other cells are untouched. -/
theorem subdivOuter_spec (count : Nat) : ∀ (i : Nat) (l r mid l2 r2 m2 : List (Pos P)), i + 1 ≤ count →
    (subdivOuter count i (l, r, mid) >>= subdivFinish count) = .ok (l2, r2, m2) →
    l2.length = l.length ∧ r2.length = r.length ∧ m2.length = mid.length ∧ i + 1 ≤ mid.length ∧
    (∀ k, l2[k]? = if count - 1 - i ≤ k ∧ k < count then
        (leftWith midP (i + 1) (mid.take (i + 1)))[k - (count - 1 - i)]? else l[k]?) ∧
    (∀ k, r2[k]? = if k ≤ i then (rightWith midP (i + 1) (mid.take (i + 1)))[k]? else r[k]?)
  | 0, l, r, mid, l2, r2, m2, hc, h => by
    simp only [subdivOuter, Outcome.pure_eq_ok, Outcome.ok_bind, subdivFinish] at h
    obtain ⟨m0, hm0, h⟩ := Outcome.bind_eq_ok h
    obtain ⟨u, hu, h⟩ := Outcome.bind_eq_ok h
    obtain ⟨l1, hl1, h⟩ := Outcome.bind_eq_ok h
    obtain ⟨r1, hr1, h⟩ := Outcome.bind_eq_ok h
    cases h
    obtain ⟨_, eu⟩ := usub_ok hu
    obtain ⟨hl, el⟩ := setI_ok hl1
    obtain ⟨hr, er⟩ := setI_ok hr1
    subst eu el er
    rw [getI_ok_iff] at hm0
    have hml : 0 < mid.length := by
      rcases Nat.eq_zero_or_pos mid.length with h0 | h0
      · rw [List.getElem?_eq_none (by omega)] at hm0; cases hm0
      · exact h0
    have htake : mid.take 1 = [m0] := by
      cases mid with
      | nil => simp at hml
      | cons a t => simp at hm0; simp [hm0]
    refine ⟨List.length_set, List.length_set, rfl, hml, fun k => ?_, fun k => ?_⟩
    · rw [htake]
      by_cases hk : k = count - 1
      · subst hk
        rw [if_pos (by omega), List.getElem?_set_self hl]
        simp [leftWith]
      · rw [if_neg (by omega), List.getElem?_set_ne (by omega)]
    · rw [htake]
      by_cases hk : k = 0
      · subst hk
        rw [if_pos (by omega), List.getElem?_set_self hr]
        simp [rightWith]
      · rw [if_neg (by omega), List.getElem?_set_ne (by omega)]
  | i + 1, l, r, mid, l2, r2, m2, hc, h => by
    simp only [subdivOuter] at h
    obtain ⟨st, hst, hfin⟩ := Outcome.bind_eq_ok h
    obtain ⟨m0, hm0, hst⟩ := Outcome.bind_eq_ok hst
    obtain ⟨u1, hu1, hst⟩ := Outcome.bind_eq_ok hst
    obtain ⟨u2, hu2, hst⟩ := Outcome.bind_eq_ok hst
    obtain ⟨l1, hl1, hst⟩ := Outcome.bind_eq_ok hst
    obtain ⟨mi, hmi, hst⟩ := Outcome.bind_eq_ok hst
    obtain ⟨r1, hr1, hst⟩ := Outcome.bind_eq_ok hst
    obtain ⟨mid1, hin, hst⟩ := Outcome.bind_eq_ok hst
    obtain ⟨_, e1⟩ := usub_ok hu1
    obtain ⟨_, e2⟩ := usub_ok hu2
    obtain ⟨hl, el⟩ := setI_ok hl1
    obtain ⟨hr, er⟩ := setI_ok hr1
    subst e1 e2 el er
    rw [getI_ok_iff] at hm0 hmi
    obtain ⟨hlen1, htake1⟩ := subdivInner_take (i + 1) mid mid1 hin
    have hml : i + 2 ≤ mid.length := by
      rcases Nat.lt_or_ge (i + 1) mid.length with h0 | h0
      · omega
      · rw [List.getElem?_eq_none h0] at hmi; cases hmi
    have hrec : (subdivOuter count i (l.set (count - (i + 1) - 1) m0, r.set (i + 1) mi, mid1) >>=
        subdivFinish count) = .ok (l2, r2, m2) := by
      rw [hst]; exact hfin
    obtain ⟨g1, g2, g3, _, gl, gr⟩ := subdivOuter_spec count i _ _ _ _ _ _ (by omega) hrec
    -- the row held in `mid[..=i+1]`
    have hQlen : (mid.take (i + 2)).length = i + 2 := by rw [List.length_take]; omega
    obtain ⟨q0, Qt, hQ⟩ : ∃ q0 Qt, mid.take (i + 2) = q0 :: Qt := by
      cases hq : mid.take (i + 2) with
      | nil => rw [hq] at hQlen; simp at hQlen
      | cons a t => exact ⟨a, t, rfl⟩
    have hq0 : q0 = m0 := by
      have : (mid.take (i + 2))[0]? = some m0 := by rw [List.getElem?_take, if_pos (by omega)]; exact hm0
      rw [hQ] at this; simpa using this
    have hlast : (mid.take (i + 2)).getLast? = some mi := by
      rw [List.getLast?_eq_getElem?, hQlen, List.getElem?_take, if_pos (by omega)]
      exact hmi
    have hsteplen : (stepWith midP (mid.take (i + 2))).length = i + 1 := by rw [length_stepWith, hQlen]; rfl
    refine ⟨by rw [g1, List.length_set], by rw [g2, List.length_set], by rw [g3, hlen1], hml,
      fun k => ?_, fun k => ?_⟩
    · rw [gl k, htake1]
      by_cases hk : count - 1 - i ≤ k ∧ k < count
      · rw [if_pos hk, if_pos (by omega), hQ, leftWith]
        obtain ⟨d, hd⟩ : ∃ d, k - (count - 1 - (i + 1)) = d + 1 := ⟨k - (count - 1 - i), by omega⟩
        rw [hd, List.getElem?_cons_succ]
        congr 1
        omega
      · rw [if_neg hk]
        by_cases hk2 : k = count - (i + 1) - 1
        · rw [if_pos (by omega), hk2, List.getElem?_set_self hl, hQ, leftWith]
          have : count - (i + 1) - 1 - (count - 1 - (i + 1)) = 0 := by omega
          rw [this, hq0]; rfl
        · rw [if_neg (by omega), List.getElem?_set_ne (by omega)]
    · rw [gr k, htake1, rightWith_succ midP (i + 1) _ mi hlast]
      by_cases hk : k ≤ i
      · rw [if_pos hk, if_pos (by omega), List.getElem?_append_left]
        rw [length_rightWith _ _ _ hsteplen]; omega
      · rw [if_neg hk]
        by_cases hk2 : k = i + 1
        · subst hk2
          rw [if_pos (by omega), List.getElem?_set_self hr, List.getElem?_append_right
            (by rw [length_rightWith _ _ _ hsteplen]), length_rightWith _ _ _ hsteplen]
          simp
        · rw [if_neg (by omega), List.getElem?_set_ne (by omega)]

/-- **`bezier_subdivide` is de Casteljau's subdivision** (structural; every arithmetic, any scratch contents): when it
succeeds, the first `count` cells of the returned `l` and `r` are the left and right halves `leftM points` /
`rightM points` — the first / last points of the successive midpoint rows. -/
theorem bezierSubdivide_spec (points l r mid l2 r2 m2 : List (Pos P))
    (h : bezierSubdivide points l r mid = .ok (l2, r2, m2)) :
    points ≠ [] ∧ l2.length = l.length ∧ r2.length = r.length ∧ m2.length = mid.length ∧
    points.length ≤ l.length ∧ points.length ≤ r.length ∧
    l2.take points.length = leftM points ∧ r2.take points.length = rightM points := by
  have h' : (do let mid0 ← copyPrefix mid points points.length
                subdivOuter points.length (points.length - 1) (l, r, mid0) >>= subdivFinish points.length) =
      .ok (l2, r2, m2) := by
    rw [← h]; rfl
  obtain ⟨mid0, hcp, h'⟩ := Outcome.bind_eq_ok h'
  obtain ⟨hm, _, emid0⟩ := copyPrefix_ok hcp
  have hne : points ≠ [] := by
    intro h0; subst h0
    unfold bezierSubdivide at h
    simp [copyPrefix, subdivOuter, getI, usub] at h
    cases hmid : mid[0]? with
    | none => rw [hmid] at h; simp at h
    | some x => rw [hmid] at h; simp at h
  have hpos : 0 < points.length := List.length_pos_iff.mpr hne
  obtain ⟨g1, g2, g3, _, gl, gr⟩ := subdivOuter_spec points.length (points.length - 1) _ _ _ _ _ _ (by omega) h'
  have hidx : points.length - 1 + 1 = points.length := by omega
  have htake : mid0.take points.length = points := by
    rw [emid0, List.take_append_of_le_length (by simp), List.take_take, Nat.min_self, List.take_length]
  rw [hidx, htake] at gl gr
  have hm0len : mid0.length = mid.length := by rw [emid0]; simp; omega
  have hll : points.length ≤ l.length := by
    have := gl (points.length - 1)
    rw [if_pos (by omega)] at this
    have hlt : points.length - 1 - (points.length - 1 - (points.length - 1)) < (leftWith midP points.length points).length := by
      rw [length_leftWith _ _ _ rfl]; omega
    rw [List.getElem?_eq_getElem hlt] at this
    rcases Nat.lt_or_ge (points.length - 1) l2.length with h0 | h0
    · omega
    · rw [List.getElem?_eq_none h0] at this; cases this
  have hrl : points.length ≤ r.length := by
    have := gr (points.length - 1)
    rw [if_pos (by omega)] at this
    have hlt : points.length - 1 < (rightWith midP points.length points).length := by
      rw [length_rightWith _ _ _ rfl]; omega
    rw [List.getElem?_eq_getElem hlt] at this
    rcases Nat.lt_or_ge (points.length - 1) r2.length with h0 | h0
    · omega
    · rw [List.getElem?_eq_none h0] at this; cases this
  refine ⟨hne, g1, g2, by rw [g3, hm0len], hll, hrl, ?_, ?_⟩
  · apply List.ext_getElem?
    intro k
    rw [List.getElem?_take]
    by_cases hk : k < points.length
    · rw [if_pos hk, gl k, if_pos (by omega)]
      have : k - (points.length - 1 - (points.length - 1)) = k := by omega
      rw [this]; rfl
    · rw [if_neg hk, List.getElem?_eq_none (by rw [length_leftM]; omega)]
  · apply List.ext_getElem?
    intro k
    rw [List.getElem?_take]
    by_cases hk : k < points.length
    · rw [if_pos hk, gr k, if_pos (by omega)]; rfl
    · rw [if_neg hk, List.getElem?_eq_none (by rw [length_rightM]; omega)]

end Model

/-! ### 4. `bezier_approximate` and the stack loop as pure list functions -/

section Loop
variable {P : Type} [Scalar P]

/-- what `bezier_approximate` pushes for a piece `Q`: its first control point, then the smoothed interior of the
doubled polygon `leftM Q ++ (rightM Q).drop 1`. -/
def flatPiece : List (Pos P) → List (Pos P)
  | [] => []
  | p0 :: rest => p0 :: approxTriples ((leftM (p0 :: rest) ++ (rightM (p0 :: rest)).drop 1).drop 1)

/-- **`bezier_approximate` pushes `flatPiece points`** (structural; every arithmetic, any scratch contents). -/
theorem bezierApproximate_spec (pts l r mid piece l' r' mid' : List (Pos P))
    (h : bezierApproximate pts l r mid = .ok (piece, l', r', mid')) : piece = flatPiece pts ∧ pts ≠ [] := by
  unfold bezierApproximate at h
  simp only [] at h
  obtain ⟨st, hsub, h⟩ := Outcome.bind_eq_ok h
  obtain ⟨l1, r1, m1⟩ := st
  simp only [] at h
  obtain ⟨p0, hp0, h⟩ := Outcome.bind_eq_ok h
  obtain ⟨ls, hls, h⟩ := Outcome.bind_eq_ok h
  obtain ⟨rs, hrs, h⟩ := Outcome.bind_eq_ok h
  obtain ⟨hne, _, _, _, _, _, hl, hr⟩ := bezierSubdivide_spec _ _ _ _ _ _ _ hsub
  obtain ⟨_, els⟩ := sliceTo_ok hls
  have ers : rs = (r1.take pts.length).drop 1 := by
    unfold sliceFromTo at hrs
    split at hrs
    · cases hrs; rfl
    · cases hrs
  rw [getI_ok_iff] at hp0
  subst els ers
  rw [hl, hr] at h
  cases h
  refine ⟨?_, hne⟩
  cases pts with
  | nil => exact absurd rfl hne
  | cons a t =>
    simp only [List.getElem?_cons_zero, Option.some.injEq] at hp0
    subst hp0
    rfl

/-- the `while let Some(parent) = to_flatten.pop()` loop of `approximate_bspline` on the stack alone: a flat piece is
emitted, any other piece is replaced by its two halves (left on top). `none` = out of fuel. -/
def flattenPure : Nat → List (List (Pos P)) → Option (List (Pos P))
  | 0, [] => some []
  | 0, _ :: _ => none
  | _ + 1, [] => some []
  | fuel + 1, Q :: stack =>
    if bezierIsFlatEnough Q then (flattenPure fuel stack).map (flatPiece Q ++ ·)
    else flattenPure fuel (leftM Q :: rightM Q :: stack)

/-- **bridge lemma**: the model's loop (scratch buffers, recycled `free_bufs`, panics, fuel) computes `flattenPure`
on its stack, whenever it succeeds and all polygons (stack and recycled buffers) have `p` points. -/
theorem bsplineLoop_pure (p : Nat) : ∀ (fuel : Nat) (stack free : List (List (Pos P))) (bufs : BezierBuffers P)
    (out : List (Pos P)) (b : BezierBuffers P),
    (∀ q ∈ stack, q.length = p) → (∀ q ∈ free, q.length = p) →
    bsplineLoop p fuel { stack := stack, free := free, bufs := bufs } = .ok (out, b) →
    flattenPure fuel stack = some out
  | 0, [], _, _, out, b, _, _, h => by
    simp only [bsplineLoop, Outcome.pure_eq_ok] at h
    cases h; rfl
  | 0, _ :: _, _, _, out, b, _, _, h => by
    simp only [bsplineLoop, Outcome.throw_eq] at h
    cases h
  | fuel + 1, [], _, _, out, b, _, _, h => by
    simp only [bsplineLoop, Outcome.pure_eq_ok] at h
    cases h; rfl
  | fuel + 1, top :: stack, free, bufs, out, b, hst, hfr, h => by
    have htop : top.length = p := hst top (by simp)
    have hrest : ∀ q ∈ stack, q.length = p := fun q hq => hst q (by simp [hq])
    simp only [bsplineLoop] at h
    by_cases hflat : bezierIsFlatEnough top = true
    · rw [if_pos hflat] at h
      obtain ⟨r1, hap, h⟩ := Outcome.bind_eq_ok h
      obtain ⟨piece, l, r, mid⟩ := r1
      simp only [] at h
      obtain ⟨r2, hloop, h⟩ := Outcome.bind_eq_ok h
      obtain ⟨rest, bufs2⟩ := r2
      obtain ⟨hpiece, _⟩ := bezierApproximate_spec _ _ _ _ _ _ _ _ hap
      have ih := bsplineLoop_pure p fuel stack (top :: free) _ rest bufs2 hrest
        (fun q hq => by
          rcases List.mem_cons.mp hq with e | e
          · rw [e]; exact htop
          · exact hfr q e) hloop
      cases h
      simp only [flattenPure, hflat, if_true, ih, Option.map_some, hpiece]
    · rw [if_neg hflat] at h
      have main : ∀ (rc : List (Pos P)) (fr2 : List (List (Pos P))), rc.length = p →
          (∀ q ∈ fr2, q.length = p) →
          (do let x ← bezierSubdivide top bufs.leftChild rc bufs.midpoints
              let parent ← copyFromSlice top (← sliceTo x.1 p)
              bsplineLoop p fuel ⟨parent :: x.2.1 :: stack, fr2,
                { bufs with leftChild := x.1, midpoints := x.2.2 }⟩) = .ok (out, b) →
          flattenPure fuel (leftM top :: rightM top :: stack) = some out := by
        intro rc fr2 hrc hfr2 h
        obtain ⟨x, hsub, h⟩ := Outcome.bind_eq_ok h
        obtain ⟨lc2, rc2, mid2⟩ := x
        simp only [] at h
        obtain ⟨sl, hsl, h⟩ := Outcome.bind_eq_ok h
        obtain ⟨par, hpar, h⟩ := Outcome.bind_eq_ok h
        obtain ⟨_, _, g2, _, _, _, hl, hr⟩ := bezierSubdivide_spec _ _ _ _ _ _ _ hsub
        obtain ⟨_, esl⟩ := sliceTo_ok hsl
        obtain ⟨_, epar⟩ := copyFromSlice_ok hpar
        subst esl epar
        rw [htop] at hl hr
        rw [List.take_of_length_le (by omega)] at hr
        rw [hl, hr] at h
        exact bsplineLoop_pure p fuel _ fr2 _ out b
          (fun q hq => by
            rcases List.mem_cons.mp hq with e | e
            · rw [e, length_leftM]; exact htop
            · rcases List.mem_cons.mp e with e | e
              · rw [e, length_rightM]; exact htop
              · exact hrest q e) hfr2 h
      have hflat' : bezierIsFlatEnough top = false := by
        cases hb : bezierIsFlatEnough top
        · rfl
        · exact absurd hb hflat
      simp only [flattenPure, hflat', Bool.false_eq_true, if_false]
      cases free with
      | nil => exact main _ [] (by simp) (by simp) h
      | cons f fr => exact main f fr (hfr f (by simp)) (fun q hq => hfr q (by simp [hq])) h

/-- **`approximate_bezier` = `flattenPure` on the one-polygon stack, then the last control point.** -/
theorem approximateBezier_pure (fuel : Nat) (pts out : List (Pos P)) (b b' : BezierBuffers P)
    (h : approximateBezier fuel pts b = .ok (out, b')) :
    ∃ body last, flattenPure fuel [pts] = some body ∧ pts.getLast? = some last ∧ out = body ++ [last] := by
  unfold approximateBezier approximateBspline at h
  simp only [] at h
  obtain ⟨r1, hloop, h⟩ := Outcome.bind_eq_ok h
  obtain ⟨body, bufs⟩ := r1
  simp only [] at h
  obtain ⟨u, hu, h⟩ := Outcome.bind_eq_ok h
  obtain ⟨last, hlast, h⟩ := Outcome.bind_eq_ok h
  obtain ⟨_, eu⟩ := usub_ok hu
  rw [getI_ok_iff, eu] at hlast
  have hp := bsplineLoop_pure pts.length fuel [pts] [] _ body bufs (fun q hq => by simp at hq; rw [hq])
    (fun q hq => by simp at hq) hloop
  have hout : out = body ++ [last] := by
    cases h; rfl
  exact ⟨body, last, hp, by rw [List.getLast?_eq_getElem?]; exact hlast, hout⟩

/-! ### 5. closure: every pushed vertex is built from control points by the two mixing rules -/

/-- `C` is closed under the two operations the Bezier flattening applies to points: the midpoint `(a + b) / 2` and
the smoothing `0.25 · (a + 2 b + c)`. -/
structure MixClosed (C : Pos P → Prop) : Prop where
  mid : ∀ a b, C a → C b → C (midP a b)
  smooth : ∀ a b c, C a → C b → C c → C ((a + b.smul (2 : P) + c).smul (0.25 : P))

theorem stepWith_all {α : Type} (f : α → α → α) (C : α → Prop) (hf : ∀ a b, C a → C b → C (f a b)) :
    ∀ Q : List α, (∀ x ∈ Q, C x) → ∀ x ∈ stepWith f Q, C x
  | [], _, x, hx => by simp at hx
  | [_], _, x, hx => by simp at hx
  | a :: b :: rest, h, x, hx => by
    rw [stepWith_cons2] at hx
    rcases List.mem_cons.mp hx with e | e
    · rw [e]; exact hf a b (h a (by simp)) (h b (by simp))
    · exact stepWith_all f C hf (b :: rest) (fun y hy => h y (List.mem_cons_of_mem _ hy)) x e

theorem leftWith_all {α : Type} (f : α → α → α) (C : α → Prop) (hf : ∀ a b, C a → C b → C (f a b)) :
    ∀ (n : Nat) (Q : List α), (∀ x ∈ Q, C x) → ∀ x ∈ leftWith f n Q, C x
  | 0, _, _, x, hx => by simp [leftWith] at hx
  | _ + 1, [], _, x, hx => by simp [leftWith] at hx
  | n + 1, a :: rest, h, x, hx => by
    rw [leftWith] at hx
    rcases List.mem_cons.mp hx with e | e
    · rw [e]; exact h a (by simp)
    · exact leftWith_all f C hf n _ (stepWith_all f C hf _ h) x e

theorem rightWith_all {α : Type} (f : α → α → α) (C : α → Prop) (hf : ∀ a b, C a → C b → C (f a b)) :
    ∀ (n : Nat) (Q : List α), (∀ x ∈ Q, C x) → ∀ x ∈ rightWith f n Q, C x
  | 0, _, _, x, hx => by simp [rightWith] at hx
  | n + 1, Q, h, x, hx => by
    cases hl : Q.getLast? with
    | none => simp [rightWith, hl] at hx
    | some z =>
      rw [rightWith_succ f n Q z hl] at hx
      rcases List.mem_append.mp hx with e | e
      · exact rightWith_all f C hf n _ (stepWith_all f C hf _ h) x e
      · simp at e; rw [e]; exact h z (List.mem_of_getLast? hl)

theorem approxTriples_all (C : Pos P → Prop) (hC : MixClosed C) :
    ∀ Q : List (Pos P), (∀ x ∈ Q, C x) → ∀ x ∈ approxTriples Q, C x
  | [], _, x, hx => by simp [approxTriples] at hx
  | [_], _, x, hx => by simp [approxTriples] at hx
  | [_, _], _, x, hx => by simp [approxTriples] at hx
  | a :: b :: c :: rest, h, x, hx => by
    rw [approxTriples] at hx
    rcases List.mem_cons.mp hx with e | e
    · rw [e]; exact hC.smooth a b c (h a (by simp)) (h b (by simp)) (h c (by simp))
    · exact approxTriples_all C hC (c :: rest)
        (fun y hy => h y (List.mem_cons_of_mem _ (List.mem_cons_of_mem _ hy))) x e

theorem flatPiece_all (C : Pos P → Prop) (hC : MixClosed C) (Q : List (Pos P)) (h : ∀ x ∈ Q, C x) :
    ∀ x ∈ flatPiece Q, C x := by
  cases Q with
  | nil => intro x hx; simp [flatPiece] at hx
  | cons p0 rest =>
    intro x hx
    rw [flatPiece] at hx
    rcases List.mem_cons.mp hx with e | e
    · rw [e]; exact h p0 (by simp)
    · refine approxTriples_all C hC _ (fun y hy => ?_) x e
      have hy' := List.mem_of_mem_drop hy
      rcases List.mem_append.mp hy' with e1 | e1
      · exact leftWith_all midP C hC.mid _ _ h y e1
      · exact rightWith_all midP C hC.mid _ _ h y (List.mem_of_mem_drop e1)

theorem flattenPure_all (C : Pos P → Prop) (hC : MixClosed C) : ∀ (fuel : Nat) (stack : List (List (Pos P)))
    (out : List (Pos P)), (∀ q ∈ stack, ∀ x ∈ q, C x) → flattenPure fuel stack = some out → ∀ x ∈ out, C x
  | 0, [], out, _, h => by simp only [flattenPure, Option.some.injEq] at h; subst h; simp
  | 0, _ :: _, out, _, h => by simp [flattenPure] at h
  | _ + 1, [], out, _, h => by simp only [flattenPure, Option.some.injEq] at h; subst h; simp
  | fuel + 1, Q :: stack, out, hst, h => by
    have hQ : ∀ x ∈ Q, C x := hst Q (by simp)
    have hrest : ∀ q ∈ stack, ∀ x ∈ q, C x := fun q hq => hst q (by simp [hq])
    rw [flattenPure] at h
    split at h
    · cases hr : flattenPure fuel stack with
      | none => rw [hr] at h; simp at h
      | some rest =>
        rw [hr] at h
        simp only [Option.map_some, Option.some.injEq] at h
        subst h
        intro x hx
        rcases List.mem_append.mp hx with e | e
        · exact flatPiece_all C hC Q hQ x e
        · exact flattenPure_all C hC fuel stack rest hrest hr x e
    · refine flattenPure_all C hC fuel _ out (fun q hq => ?_) h
      rcases List.mem_cons.mp hq with e | e
      · rw [e]; exact leftWith_all midP C hC.mid _ _ hQ
      · rcases List.mem_cons.mp e with e | e
        · rw [e]; exact rightWith_all midP C hC.mid _ _ hQ
        · exact hrest q e

end Loop

end Rosu.Bez
