/-
  Lemmas/FloatAddAbsorb.lean — absorption in a rounded addition (ulp-exact, round to nearest): a positive double `x` with
  mantissa exponent `e` (`x = m·2^e` canonical) plus a non-negative `D < 2^e / 2` (less than half the spacing of the doubles
  above `x`) is NOT above `x`: `toRat (x + D) ≤ toRat x` (`add_absorb_le_float`; stated with the sufficient condition
  `D ≤ 2⁻⁵⁴·x`). Proof: the target exponent of the exact sum is `e` again (`log2_absorb`), and the rounded mantissa is
  within half a unit of `m + D/2^e < m + 1/2` (`rq_half_ulp`).
-/
import RosuModel.Lemmas.FloatErrRange
namespace Rosu.FErr
open Float.Model Float.Model.UnpackedFloat Rosu.FMR Rosu.FRM Rosu.FAM

theorem log2_absorb (m a c : Nat) (hm : 0 < m) (hc : c < 2 ^ a) : (m * 2 ^ a + c).log2 = m.log2 + a := by
  have hpa := Nat.two_pow_pos a
  have hM : m * 2 ^ a + c ≠ 0 := by have := Nat.mul_pos hm hpa; omega
  apply Nat.le_antisymm
  · have : (m * 2 ^ a + c).log2 < m.log2 + a + 1 := by
      rw [Nat.log2_lt hM]
      have h1 : m + 1 ≤ 2 ^ (m.log2 + 1) := Nat.lt_log2_self
      calc m * 2 ^ a + c < m * 2 ^ a + 2 ^ a := by omega
        _ = (m + 1) * 2 ^ a := by rw [Nat.succ_mul]
        _ ≤ 2 ^ (m.log2 + 1) * 2 ^ a := Nat.mul_le_mul_right _ h1
        _ = 2 ^ (m.log2 + a + 1) := by rw [← Nat.pow_add]; congr 1; omega
    omega
  · rw [Nat.le_log2 hM]
    calc 2 ^ (m.log2 + a) = 2 ^ m.log2 * 2 ^ a := Nat.pow_add ..
      _ ≤ m * 2 ^ a := Nat.mul_le_mul_right _ (Nat.log2_self_le (by omega))
      _ ≤ m * 2 ^ a + c := Nat.le_add_right ..

/-- unpacked level: a canonical positive `m·2^e` plus a positive `m'·2^e' < 2^e / 2` rounds to at most `m·2^e`. -/
theorem uadd_absorb_le (spec : Format) (m : Nat) (e : Int) (hm : 0 < m) (hc : CanonFin spec m e)
    (m' : Nat) (e' : Int) (hm' : 0 < m')
    (hlt : (m' : ℚ) * (2 : ℚ) ^ e' < (2 : ℚ) ^ e / 2) :
    uval (UnpackedFloat.add spec (.finite .positive m e hm) (.finite .positive m' e' hm')) ≤ (m : ℚ) * (2 : ℚ) ^ e := by
  rw [add_fin]
  generalize hE : min e e' = E
  have hEe : E ≤ e := by omega
  have hEe' : E ≤ e' := by omega
  obtain ⟨a, ha⟩ : ∃ a : Nat, (a : Int) = e - E := ⟨(e - E).toNat, by omega⟩
  obtain ⟨b, hb⟩ : ∃ b : Nat, (b : Int) = e' - E := ⟨(e' - E).toNat, by omega⟩
  have ta : (e - E).toNat = a := by omega
  have tb : (e' - E).toNat = b := by omega
  rw [ta, tb]
  have hp : ∀ n : Nat, Sign.positive.apply (n : Int) = (n : Int) := fun _ => rfl
  rw [hp, hp, ← Int.natCast_add]
  have hpa := Nat.two_pow_pos a
  have hMpos : 0 < m * 2 ^ a + m' * 2 ^ b := by have := Nat.mul_pos hm hpa; omega
  rw [normalize_pos _ _ _ _ (by exact_mod_cast hMpos), Int.toNat_natCast]
  rw [uval_round spec _ _ (by omega)]
  have h2a : (2 : ℚ) ^ e = (2 : ℚ) ^ a * (2 : ℚ) ^ E := by
    rw [← zpow_natCast, ← zpow_add₀ (two_ne_zero)]; congr 1; omega
  have h2b : (2 : ℚ) ^ e' = (2 : ℚ) ^ b * (2 : ℚ) ^ E := by
    rw [← zpow_natCast, ← zpow_add₀ (two_ne_zero)]; congr 1; omega
  have hPE := two_zpow_pos E
  have hcq : (2 : ℚ) * ((m' : ℚ) * (2 : ℚ) ^ b) < (2 : ℚ) ^ a := by
    rw [h2a, h2b] at hlt
    by_contra hcon
    rw [not_lt] at hcon
    have := mul_le_mul_of_nonneg_right hcon hPE.le
    linarith
  have hcn : 2 * (m' * 2 ^ b) < 2 ^ a := by exact_mod_cast hcq
  have hlog := log2_absorb m a (m' * 2 ^ b) hm (by omega)
  have hMv : ((m * 2 ^ a + m' * 2 ^ b : Nat) : ℚ) * (2 : ℚ) ^ E = (m : ℚ) * (2 : ℚ) ^ e + (m' : ℚ) * (2 : ℚ) ^ e' := by
    rw [h2a, h2b]; push_cast; ring
  generalize m * 2 ^ a + m' * 2 ^ b = M at *
  have hte : tgt spec M E = e := by
    have := hc.tgt_eq hm
    unfold tgt Format.targetExponent totalExponent at this ⊢
    rw [hlog]
    omega
  have hh := rq_half_ulp spec M E
  rw [hte] at hh ⊢
  rw [hMv] at hh
  have h1 := (abs_le.mp hh).2
  have hP := two_zpow_pos e
  have hq : (rq spec M E : ℚ) < (m : ℚ) + 1 := by
    by_contra hcon
    rw [not_lt] at hcon
    have := mul_le_mul_of_nonneg_right hcon hP.le
    linarith
  have hq' : (rq spec M E : ℚ) ≤ (m : ℚ) := by
    have h' : rq spec M E < m + 1 := by exact_mod_cast hq
    exact_mod_cast Nat.lt_succ_iff.mp h'
  simp only [sgnQ, one_mul]
  exact mul_le_mul_of_nonneg_right hq' hP.le

theorem pos_fin_of_uval_pos (u : UnpackedFloat) (h : 0 < uval u) : ∃ m e hm, u = .finite .positive m e hm := by
  match u, h with
  | .finite .positive m e hm, _ => exact ⟨m, e, hm, rfl⟩
  | .finite .negative m e hm, h => have := uval_fin_neg m e hm; linarith
  | .zero _, h => exact absurd h (lt_irrefl _)
  | .infinity _, h => exact absurd h (lt_irrefl _)
  | .notANumber, h => exact absurd h (lt_irrefl _)

theorem nonneg_fin_cases (u : UnpackedFloat) (f : u.isFinite = true) (h : 0 ≤ uval u) :
    (∃ s, u = .zero s) ∨ ∃ m e hm, u = .finite .positive m e hm := by
  match u, f, h with
  | .finite .positive m e hm, _, _ => exact Or.inr ⟨m, e, hm, rfl⟩
  | .finite .negative m e hm, _, h => have := uval_fin_neg m e hm; linarith
  | .zero s, _, _ => exact Or.inl ⟨s, rfl⟩

/-- **absorption**: `x > 0`, `D` finite with `0 ≤ D ≤ 2⁻⁵⁴·x` (hence `D` below half the spacing of the doubles above `x`),
`x + D` finite ⟹ `toRat (x + D) ≤ toRat x`. -/
theorem add_absorb_le_float (x D : Float) (hx0 : 0 < toRat x) (fD : D.isFinite = true) (hD0 : 0 ≤ toRat D)
    (hD : toRat D ≤ (2 : ℚ) ^ (-54 : Int) * toRat x) (hfin : (x + D).isFinite = true) :
    toRat (x + D) ≤ toRat x := by
  have hfin' : (x + D).toModel.unpack.isFinite = true := hfin
  have cx := float_canon x
  have cD := float_canon D
  have hc := add_canon Format.binary64 _ _ cx cD
  have fD' : D.toModel.unpack.isFinite = true := fD
  unfold toRat at *
  rw [float_add_unpack] at hfin' ⊢
  have hrep : uval (repack Format.binary64 (UnpackedFloat.add Format.binary64 x.toModel.unpack D.toModel.unpack)) =
      uval (UnpackedFloat.add Format.binary64 x.toModel.unpack D.toModel.unpack) := by
    rcases repack_cases Format.binary64 (by decide) _ hc with ⟨h1, _⟩ | ⟨s, m, e, p, _, _, h1⟩
    · rw [h1]
    · rw [h1] at hfin'; cases hfin'
  rw [hrep]
  generalize x.toModel.unpack = ux at *
  generalize D.toModel.unpack = uD at *
  obtain ⟨m, e, hm, rfl⟩ := pos_fin_of_uval_pos ux hx0
  have hml : (m : ℚ) < 9007199254740992 := by
    have := cx.lt
    rw [b64_mantissaBits] at this
    exact_mod_cast this
  rcases nonneg_fin_cases uD fD' hD0 with ⟨s, rfl⟩ | ⟨m', e', hm', rfl⟩
  · exact le_of_eq rfl
  · have hP := two_zpow_pos e
    have h54 : (2 : ℚ) ^ (-54 : Int) * (m : ℚ) < 1 / 2 := by
      have : (2 : ℚ) ^ (-54 : Int) = 1 / 18014398509481984 := by norm_num
      rw [this]; linarith
    have h3 := mul_lt_mul_of_pos_right h54 hP
    simp only [uval, sgnQ, one_mul] at hD ⊢
    refine uadd_absorb_le Format.binary64 m e hm cx m' e' hm' ?_
    have e1 : (2 : ℚ) ^ (-54 : Int) * ((m : ℚ) * (2 : ℚ) ^ e) = (2 : ℚ) ^ (-54 : Int) * (m : ℚ) * (2 : ℚ) ^ e := by ring
    rw [e1] at hD
    generalize (2 : ℚ) ^ (-54 : Int) * (m : ℚ) = q at *
    generalize (2 : ℚ) ^ e = P at *
    linarith

/-! ### the same at the level of the mantissa exponent -/

/-- unpacked level: if the sum of two positive finite numbers is `m·2^e`, it is within `2^e / 2` of the exact sum. -/
theorem uadd_half_ulp_pos (spec : Format) (m₁ : Nat) (e₁ : Int) (h₁ : 0 < m₁) (m₂ : Nat) (e₂ : Int) (h₂ : 0 < m₂)
    (m : Nat) (e : Int) (hm : 0 < m)
    (hr : UnpackedFloat.add spec (.finite .positive m₁ e₁ h₁) (.finite .positive m₂ e₂ h₂) = .finite .positive m e hm) :
    |(m : ℚ) * (2 : ℚ) ^ e - ((m₁ : ℚ) * (2 : ℚ) ^ e₁ + (m₂ : ℚ) * (2 : ℚ) ^ e₂)| ≤ (2 : ℚ) ^ e / 2 := by
  rw [add_fin] at hr
  generalize hE : min e₁ e₂ = E at hr
  have hEe : E ≤ e₁ := by omega
  have hEe' : E ≤ e₂ := by omega
  obtain ⟨a, ha⟩ : ∃ a : Nat, (a : Int) = e₁ - E := ⟨(e₁ - E).toNat, by omega⟩
  obtain ⟨b, hb⟩ : ∃ b : Nat, (b : Int) = e₂ - E := ⟨(e₂ - E).toNat, by omega⟩
  have ta : (e₁ - E).toNat = a := by omega
  have tb : (e₂ - E).toNat = b := by omega
  have hp : ∀ n : Nat, Sign.positive.apply (n : Int) = (n : Int) := fun _ => rfl
  have hpa := Nat.two_pow_pos a
  have hMpos : 0 < m₁ * 2 ^ a + m₂ * 2 ^ b := by have := Nat.mul_pos h₁ hpa; omega
  rw [ta, tb, hp, hp, ← Int.natCast_add, normalize_pos _ _ _ _ (by exact_mod_cast hMpos), Int.toNat_natCast] at hr
  have h2a : (2 : ℚ) ^ e₁ = (2 : ℚ) ^ a * (2 : ℚ) ^ E := by
    rw [← zpow_natCast, ← zpow_add₀ (two_ne_zero)]; congr 1; omega
  have h2b : (2 : ℚ) ^ e₂ = (2 : ℚ) ^ b * (2 : ℚ) ^ E := by
    rw [← zpow_natCast, ← zpow_add₀ (two_ne_zero)]; congr 1; omega
  have hMv : ((m₁ * 2 ^ a + m₂ * 2 ^ b : Nat) : ℚ) * (2 : ℚ) ^ E =
      (m₁ : ℚ) * (2 : ℚ) ^ e₁ + (m₂ : ℚ) * (2 : ℚ) ^ e₂ := by
    rw [h2a, h2b]; push_cast; ring
  generalize m₁ * 2 ^ a + m₂ * 2 ^ b = M at *
  have hsh := round_shape spec .positive M (by omega) E
  have hh := rq_half_ulp spec M E
  rw [hMv] at hh
  rw [hr] at hsh
  rcases hsh with ⟨_, h0⟩ | ⟨_, _, _, ⟨p, hfin⟩⟩ | ⟨hq, _, ⟨p, hfin⟩⟩
  · cases h0
  · injection hfin with _ hm' he'
    rw [hm', he']; exact hh
  · injection hfin with _ hm' he'
    rw [hq] at hh
    obtain ⟨n, hn⟩ : ∃ n, spec.mantissaBits = n + 1 := ⟨spec.mantissaBits - 1, by have := mantissaBits_pos spec; omega⟩
    rw [hn] at hh hm'
    rw [Nat.add_sub_cancel] at hm'
    have hte := two_zpow_pos (tgt spec M E)
    have key : ((2 ^ n : Nat) : ℚ) * (2 : ℚ) ^ (tgt spec M E + 1) = ((2 ^ (n + 1) : Nat) : ℚ) * (2 : ℚ) ^ tgt spec M E := by
      rw [zpow_add₀ (two_ne_zero), zpow_one]; push_cast; ring
    have k2 : (2 : ℚ) ^ (tgt spec M E + 1) = (2 : ℚ) ^ tgt spec M E * 2 := by
      rw [zpow_add₀ (two_ne_zero), zpow_one]
    rw [hm', he', key]
    refine le_trans hh ?_
    rw [k2]; linarith

/-- **half an ulp of the RESULT's grid**: `a > 0`, `b ≥ 0` finite, `a + b = m·2^e` finite ⟹
`|toRat (a + b) − (toRat a + toRat b)| ≤ 2^e / 2`. -/
theorem add_half_ulp_float (a b : Float) (ha : 0 < toRat a) (fb : b.isFinite = true) (hb : 0 ≤ toRat b)
    (m : Nat) (e : Int) (hm : 0 < m) (hu : (a + b).toModel.unpack = .finite .positive m e hm) :
    |toRat (a + b) - (toRat a + toRat b)| ≤ (2 : ℚ) ^ e / 2 := by
  have ca := float_canon a
  have cb := float_canon b
  have hc := add_canon Format.binary64 _ _ ca cb
  have fb' : b.toModel.unpack.isFinite = true := fb
  unfold toRat at *
  rw [hu]
  rw [float_add_unpack] at hu
  have hadd : UnpackedFloat.add Format.binary64 a.toModel.unpack b.toModel.unpack = .finite .positive m e hm := by
    rcases repack_cases Format.binary64 (by decide) _ hc with ⟨h1, _⟩ | ⟨s, m', e', p, _, _, h1⟩
    · rw [h1] at hu; exact hu
    · rw [h1] at hu; cases hu
  generalize a.toModel.unpack = ua at *
  generalize b.toModel.unpack = ub at *
  obtain ⟨m₁, e₁, h₁, rfl⟩ := pos_fin_of_uval_pos ua ha
  rcases nonneg_fin_cases ub fb' hb with ⟨s, rfl⟩ | ⟨m₂, e₂, h₂, rfl⟩
  · have h0 : UnpackedFloat.add Format.binary64 (.finite .positive m₁ e₁ h₁) (.zero s) = .finite .positive m₁ e₁ h₁ := rfl
    rw [h0] at hadd
    injection hadd with _ hm' he'
    subst hm'; subst he'
    have : uval (UnpackedFloat.zero s) = 0 := rfl
    rw [this, add_zero, sub_self, abs_zero]
    exact (div_pos (two_zpow_pos _) (by norm_num)).le
  · have := uadd_half_ulp_pos Format.binary64 m₁ e₁ h₁ m₂ e₂ h₂ m e hm hadd
    simpa only [uval, sgnQ, one_mul] using this

/-- **absorption, exponent form**: `x = m·2^e > 0`, `0 ≤ D < 2^e / 2` finite ⟹ `toRat (x + D) ≤ toRat x`. -/
theorem add_absorb_le_float_exp (x D : Float) (m : Nat) (e : Int) (hm : 0 < m)
    (hu : x.toModel.unpack = .finite .positive m e hm) (fD : D.isFinite = true) (hD0 : 0 ≤ toRat D)
    (hD : toRat D < (2 : ℚ) ^ e / 2) (hfin : (x + D).isFinite = true) :
    toRat (x + D) ≤ toRat x := by
  have hfin' : (x + D).toModel.unpack.isFinite = true := hfin
  have cx := float_canon x
  have cD := float_canon D
  have hc := add_canon Format.binary64 _ _ cx cD
  have fD' : D.toModel.unpack.isFinite = true := fD
  unfold toRat at *
  rw [float_add_unpack] at hfin' ⊢
  have hrep : uval (repack Format.binary64 (UnpackedFloat.add Format.binary64 x.toModel.unpack D.toModel.unpack)) =
      uval (UnpackedFloat.add Format.binary64 x.toModel.unpack D.toModel.unpack) := by
    rcases repack_cases Format.binary64 (by decide) _ hc with ⟨h1, _⟩ | ⟨s, m, e, p, _, _, h1⟩
    · rw [h1]
    · rw [h1] at hfin'; cases hfin'
  rw [hrep, hu]
  rw [hu] at cx
  generalize D.toModel.unpack = uD at *
  rcases nonneg_fin_cases uD fD' hD0 with ⟨s, rfl⟩ | ⟨m', e', hm', rfl⟩
  · exact le_of_eq rfl
  · simp only [uval, sgnQ, one_mul] at hD ⊢
    exact uadd_absorb_le Format.binary64 m e hm cx m' e' hm' hD

end Rosu.FErr
