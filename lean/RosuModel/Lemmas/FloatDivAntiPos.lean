/-
  Lemmas/FloatDivAntiPos.lean — **IEEE division of a POSITIVE number is antitone in a positive denominator**: for finite
  `a > 0` and `0 < c ≤ d`, `a / d ≤ a / c` — after rounding, with underflow. The mirror image of
  `FAM.div_le_div_left_neg_float` (Lemmas/FloatDivAnti.lean), same proof with the sign `.positive` (`rwa_mono` orders
  results of sign `s` by `SLE s`). Used for the re-read multiplier `100 / −b` (Props/C02IeeeTiming2.lean).
-/
import RosuModel.Lemmas.FloatDivAnti
namespace Rosu.FAM
open Float.Model Float.Model.UnpackedFloat Rosu.FMR Rosu.FRM

/-- **a finite positive number divided by a larger positive number is smaller** (unpacked level, before packing). -/
theorem div_anti_pos (spec : Format) (m : Nat) (e : Int) (hm) (c d : UnpackedFloat) (hc : Canon spec c) (hd : Canon spec d)
    (hc0 : (UnpackedFloat.zero .positive).lt c = true) (hcd : c.le d = true) :
    (UnpackedFloat.div spec (.finite .positive m e hm) d).le (UnpackedFloat.div spec (.finite .positive m e hm) c) = true := by
  rcases pos_cases c hc0 with ⟨mc, ec, hmc, rfl⟩ | rfl
  · cases leKind_of_le hcd with
    | posInf a ha' =>
      have : UnpackedFloat.div spec (.finite .positive m e hm) (.infinity .positive) = .zero .positive := rfl
      rw [this]
      exact le_of_nonpos_nonneg (u := .zero _) trivial (div_fin_pos_shape spec .positive m mc e ec hm hmc).2.nonneg
    | posPos _ _ _ md ed hmd hl =>
      rw [(div_fin_pos_shape spec .positive m mc e ec hm hmc).1, (div_fin_pos_shape spec .positive m md e ed hm hmd).1]
      exact rwa_mono spec .positive _ md _ mc _ _ _ hmd hmc (Int.min_le_left _ _) (Int.min_le_right _ _)
        (valLE_div_den ((lexLE_iff_valLE hc hd).mp hl) spec m e)
        (div_tgt_ge spec m md e ed hm hmd) (div_tgt_ge spec m mc e ec hm hmc)
  · cases leKind_of_le hcd with
    | posInf a ha' => rfl

/-- **binary64**: for a finite `a > 0` and `0 < c ≤ d`, `a / d ≤ a / c`. -/
theorem div_le_div_left_pos_float (a c d : Float) (ha : FMO.isFiniteNonzero a.toModel.unpack = true)
    (ha0 : Scalar.lt (0 : Float) a = true) (hc : Scalar.lt (0 : Float) c = true) (hcd : Scalar.le c d = true) :
    Scalar.le (a / d) (a / c) = true := by
  rw [FMO.le_float] at hcd ⊢
  rw [FMO.lt_float, float_zero_unpack] at hc ha0
  have cc := float_canon c
  have cd := float_canon d
  have c1 := div_canon Format.binary64 a.toModel.unpack c.toModel.unpack
  have c2 := div_canon Format.binary64 a.toModel.unpack d.toModel.unpack
  rw [float_div_unpack, float_div_unpack]
  refine repack_mono _ (by decide) _ _ c2 c1 ?_
  revert ha ha0 c1 c2
  generalize a.toModel.unpack = u
  intro ha ha0 c1 c2
  match u, ha, ha0 with
  | .finite .positive m e hm, _, _ => exact div_anti_pos _ m e hm _ _ cc cd hc hcd

end Rosu.FAM
