/-
  Lemmas/RtTimingRt.lean — what comes BACK from the lines of the `[TimingPoints]` block (C02, layer 5, line level):

  * `timing_entry_rt`: the timing line of a stored timing point re-decodes to a timing change whose `TimingPoint` is that
    very point (time, beat length, signature, omit-first-bar-line);
  * `inherited_entry_rt`: an inherited line re-decodes to the slider velocity / kiai / sample fields written;
  * `EpsLaws`, `isRedundant_iff`, `groupStep_last`: under exact arithmetic, after every group — whether or not its inherited
    line was suppressed as redundant — `last_props` (what a reader of the lines written so far has in effect) equals the
    true properties at the group's time; `props_const_between`: and those are constant up to the next control point.
-/
import RosuModel.Lemmas.RtTimingFile
namespace Rosu
namespace RtTiming
open Rosu Encode EncodeLines Scalar
set_option linter.unusedSectionVars false

variable {F P : Type} [Scalar F] [Scalar P] {R : F → Prop}

/-! ### a stored point is found at its own time -/

theorem lastLE_self {α : Type} {key : α → Int} {l : List α} (h : C13.SortedBy key l) {x : α} (hx : x ∈ l) :
    C13.lastLE key (key x) l = some x := by
  induction l with
  | nil => cases hx
  | cons y ys ih =>
    obtain ⟨hy, hys⟩ := C13.sortedBy_cons.mp h
    unfold C13.lastLE
    rcases List.mem_cons.mp hx with rfl | hx'
    · have hnil : ys.filter (fun p => decide (key p ≤ key x)) = [] := by
        rw [List.filter_eq_nil_iff]
        intro z hz; have := hy z hz; simp; omega
      simp [hnil]
    · have hlt := hy x hx'
      have hle : key y ≤ key x := by omega
      have := ih hys hx'
      unfold C13.lastLE at this
      simp only [List.filter_cons, hle, decide_true, if_true]
      rw [List.getLast?_cons, this]
      rfl

/-- **a stored timing point is the one in effect at its own time.** -/
theorem timingPointAt_self {cp : ControlPoints F} (hs : C13.Sorted cp) {t : TimingPoint F} (ht : t ∈ cp.timingPoints) :
    cp.timingPointAt t.time = some t := by
  rw [(C13.lookup_spec hs t.time).2.2.1]
  have : C13.lastLE TimingPoint.key (totalKey t.time) cp.timingPoints = some t := lastLE_self hs.timing ht
  rw [this]
  rfl

/-! ### flags -/

theorem flags_read (k o : Bool) :
    flagKiai (((if k then 1 else 0) ||| (if o then 8 else 0) : Nat) : Int) = k ∧
    flagOmitFirstBarLine (((if k then 1 else 0) ||| (if o then 8 else 0) : Nat) : Int) = o := by
  cases k <;> cases o <;> decide

theorem clampVolume_idem (v : Int) : clampVolume (clampVolume v) = clampVolume v := by
  unfold clampVolume
  split
  · simp
  · split
    · simp
    · simp

/-! ### the timing line -/

/-- **timing_entry_rt.** The timing line written for a stored timing point `t` (group time = `t.time`, collection sorted,
beat length inside the decoder's clamp `[6, 60000]`) is read back as a timing change whose timing point is `t` itself:
same time, beat length, signature and omit-first-bar-line flag; the kiai flag read is the one in effect at that time. -/
theorem timing_entry_rt (mode : GameMode) {cp : ControlPoints F} (hs : C13.Sorted cp) {t : TimingPoint F}
    (ht : t ∈ cp.timingPoints) (hclamp : clamp t.beatLen (6 : F) (60000 : F) = t.beatLen) (last : Props F) (dflt : SampleBank) :
    let e : Entry F := ⟨t.time, t.beatLen, Props.new t.time cp last true mode, true⟩
    (e.read dflt).timingChange = true ∧ (e.read dflt).timingPoint = t ∧
    (e.read dflt).kiai = ((cp.effectPointAt t.time).map (·.kiai)).getD false := by
  obtain ⟨_, h2, _, _, _, h6⟩ := props_new_fields t.time cp last true mode
  simp only [timingPointAt_self hs ht, Option.map_some, Option.getD_some] at h2 h6
  refine ⟨rfl, ?_, ?_⟩
  · simp only [Entry.read, readBack, TpLine.timingPoint, TimingPoint.new, hclamp, h2, h6, (flags_read _ _).2]
  · simp only [Entry.read, readBack, h6, (flags_read _ _).1]

/-! ### the inherited line -/

/-- the arithmetic inverse the inherited line goes through: `v ↦ -100 / v` is negative and `100 / -(-100 / v) = v`.
Exact in exact arithmetic for `v > 0`; for IEEE doubles the second equation can be off by an ulp (the documented ≤ 4 ulp
drift of the slider velocity). -/
def SvInverse (v : F) : Prop := lt ((-100 : F) / v) (0 : F) = true ∧ (100 : F) / (-((-100 : F) / v)) = v

/-- **inherited_entry_rt.** The inherited line written with properties `p` at time `time` is read back as a
non-timing line at `time` whose speed multiplier is `p.sliderVelocity` (given the arithmetic inverse), whose kiai and
omit flags are those encoded in `p.effectFlags`, and whose sample point carries `p`'s volume (already clamped), custom bank
and the bank numbered `p.sampleBank`; the difficulty / effect points built from it hold the clamped velocity. -/
theorem inherited_entry_rt (mode : GameMode) (time : F) (p : Props F) (hv : SvInverse p.sliderVelocity) (dflt : SampleBank) :
    let l := (Entry.read dflt ⟨time, (-100 : F) / p.sliderVelocity, p, false⟩ : TpLine F)
    l.timingChange = false ∧ l.time = time ∧ l.speedMultiplier = p.sliderVelocity ∧
    l.difficultyPoint.sliderVelocity = clamp p.sliderVelocity (0.1 : F) (10 : F) ∧
    (l.effectPoint mode).kiai = flagKiai p.effectFlags ∧
    ((mode = .taiko ∨ mode = .mania) → (l.effectPoint mode).scrollSpeed = clamp p.sliderVelocity (0.01 : F) (10 : F)) ∧
    l.samplePoint = { time := time, sampleBank := bankRead dflt p.sampleBank, sampleVolume := clampVolume p.sampleVolume,
                      customSampleBank := p.customSampleBank } := by
  have hsm : (Entry.read dflt ⟨time, (-100 : F) / p.sliderVelocity, p, false⟩ : TpLine F).speedMultiplier = p.sliderVelocity := by
    simp only [Entry.read, readBack, hv.1, if_true, hv.2]
  refine ⟨rfl, rfl, hsm, ?_, ?_, ?_, rfl⟩
  · simp only [TpLine.difficultyPoint, DifficultyPoint.new, hsm]
  · simp only [TpLine.effectPoint, EffectPoint.new]
    split <;> rfl
  · intro hm
    simp only [TpLine.effectPoint, EffectPoint.new, hsm]
    rcases hm with rfl | rfl <;> rfl

/-- the kiai flag and bank written are those in effect in the collection (for an inherited line of a group without timing
point the bank is carried over from `last_props`). -/
theorem inherited_props (mode : GameMode) (cp : ControlPoints F) (time : F) (last : Props F) (upd : Bool) :
    flagKiai (Props.new time cp last upd mode).effectFlags = ((cp.effectPointAt time).map (·.kiai)).getD false ∧
    (Props.new time cp last upd mode).sliderVelocity = svFor mode cp time ∧
    clampVolume (Props.new time cp last upd mode).sampleVolume = clampVolume (samplePointFor cp time).sampleVolume := by
  obtain ⟨h1, _, _, _, h5, h6⟩ := props_new_fields time cp last upd mode
  refine ⟨?_, h1, ?_⟩
  · rw [h6]; exact (flags_read _ _).1
  · rw [h5, clampVolume_idem]

/-! ### redundancy suppression under exact arithmetic -/

/-- exact-arithmetic reading of `(a - b).abs() < f64::EPSILON`: it holds of equal values and only of equal values. True
of every discrete toy scalar with `eps` = its unit (`ZC`, `Z`); for IEEE doubles the first clause fails for non-finite
values and the second for distinct values closer than 2.2e-16 (possible below 2.0) — there a suppressed line can change
the effective velocity by less than `EPSILON`. -/
structure EpsLaws (F : Type) [Scalar F] : Prop where
  refl : ∀ x : F, lt (abs (x - x)) (eps : F) = true
  eq_of_close : ∀ x y : F, lt (abs (x - y)) (eps : F) = true → x = y

theorem isRedundant_iff (E : EpsLaws F) (a b : Props F) : a.isRedundant b = true ↔ a = b := by
  constructor
  · intro h
    simp only [Props.isRedundant, Bool.and_eq_true, beq_iff_eq] at h
    obtain ⟨⟨⟨⟨⟨h1, h2⟩, h3⟩, h4⟩, h5⟩, h6⟩ := h
    have := E.eq_of_close _ _ h1
    cases a; cases b
    simp only [Props.mk.injEq]
    simp only at this h2 h3 h4 h5 h6
    exact ⟨this, h2, h3, h4, h5, h6⟩
  · rintro rfl
    simp [Props.isRedundant, E.refl]

/-- **groupStep_last (redundant_group_no_effect).** Under exact arithmetic: after the iteration for a group, whether its
inherited line was written or suppressed as redundant, `last_props` — the properties a reader of the lines written so far
has in effect — equals the true properties at the group's time. Suppressing the line therefore loses nothing. -/
theorem groupStep_last (E : EpsLaws F) (mode : GameMode) (cp : ControlPoints F) (g : Group F) (last : Props F) :
    (groupStep mode cp g last).2 = Props.new g.time cp last g.timing.isSome mode := by
  unfold groupStep
  simp only []
  cases ht : g.timing with
  | none =>
    simp only [Option.isSome_none]
    split
    · rename_i h
      exact ((isRedundant_iff E _ _).mp h).symm
    · rfl
  | some t =>
    simp only [Option.isSome_some]
    split
    · rename_i h
      exact ((isRedundant_iff E _ _).mp h).symm
    · rfl

/-- a suppressed inherited line after a timing line: the velocity was `1`, which is what the timing line resets it to. -/
theorem suppressed_after_timing (E : EpsLaws F) (p : Props F) (h : p.isRedundant { p with sliderVelocity := 1 } = true) :
    p.sliderVelocity = 1 := by
  have := (isRedundant_iff E _ _).mp h
  exact congrArg Props.sliderVelocity this

/-! ### between two groups nothing changes -/

theorem lastLE_congr {α : Type} (key : α → Int) (l : List α) (t u : Int) (h : ∀ p ∈ l, (key p ≤ t ↔ key p ≤ u)) :
    C13.lastLE key t l = C13.lastLE key u l := by
  unfold C13.lastLE
  congr 1
  apply List.filter_congr
  intro p hp
  simp only [decide_eq_decide]
  exact h p hp

/-- **props_const_between.** On a sorted collection, if no control point of any kind lies in `(t, u]` (by `total_cmp` key),
the properties at `u` are those at `t`: the effective values are constant from one group time up to the next. -/
theorem props_const_between {cp : ControlPoints F} (hs : C13.Sorted cp) (t u : F)
    (h1 : ∀ p ∈ cp.timingPoints, (p.key ≤ totalKey t ↔ p.key ≤ totalKey u))
    (h2 : ∀ p ∈ cp.difficultyPoints, (p.key ≤ totalKey t ↔ p.key ≤ totalKey u))
    (h3 : ∀ p ∈ cp.effectPoints, (p.key ≤ totalKey t ↔ p.key ≤ totalKey u))
    (h4 : ∀ p ∈ cp.samplePoints, (p.key ≤ totalKey t ↔ p.key ≤ totalKey u))
    (last : Props F) (upd : Bool) (mode : GameMode) :
    Props.new u cp last upd mode = Props.new t cp last upd mode := by
  obtain ⟨a1, a2, a3, a4⟩ := C13.lookup_spec hs t
  obtain ⟨b1, b2, b3, b4⟩ := C13.lookup_spec hs u
  have e1 : cp.difficultyPointAt u = cp.difficultyPointAt t := by rw [a1, b1, lastLE_congr _ _ _ _ h2]
  have e2 : cp.effectPointAt u = cp.effectPointAt t := by rw [a2, b2, lastLE_congr _ _ _ _ h3]
  have e3 : cp.timingPointAt u = cp.timingPointAt t := by rw [a3, b3, lastLE_congr _ _ _ _ h1]
  have e4 : cp.samplePointAt u = cp.samplePointAt t := by rw [a4, b4, lastLE_congr _ _ _ _ h4]
  simp only [Props.new, e1, e2, e3, e4]

/-! ### the block, read back: the decoder's state machine runs over the values written -/

/-- **runStrs_entries.** Feeding the end-trimmed lines of representable entries to `parse_timing_points` is running the
mutating half of the parser (`applyTpLine`, C12's `runTpLines`) over the values written: no line is rejected, none is read
differently. -/
theorem runStrs_entries (L : CodecLaws F R) (es : List (Entry F)) (hes : ∀ e ∈ es, RepEntry R e) (st : TimingPointsState F P) :
    C12.runStrs st ((es.map Entry.line).map trimEnd) =
      C12.runTpLines st (es.map (Entry.read st.general.defaultSampleBank)) := by
  induction es generalizing st with
  | nil => rfl
  | cons e rest ih =>
    have he := hes e (by simp)
    simp only [List.map_cons, C12.runStrs, C12.runTpLines, List.foldl_cons, entry_accepted L e he st]
    have := ih (fun x hx => hes x (by simp [hx])) (applyTpLine st (e.read st.general.defaultSampleBank))
    simp only [C12.runStrs, C12.runTpLines, C12.applyTpLine_general] at this
    exact this

/-- `From<BeatmapState> for Beatmap` takes the control points from the flushed timing-point state. -/
theorem finish_controlPoints [Cvt P F] [Trig F] [Trig P] (st : BeatmapState F P) (b : Beatmap F P) (h : st.finish = .ok b) :
    b.controlPoints = st.hitObjects.timingPoints.finish.2 := by
  unfold BeatmapState.finish at h
  cases hho : st.hitObjects.finish with
  | error e => simp [hho, bind, Except.bind] at h
  | ok ho =>
    simp only [hho, bind, Except.bind, pure, Except.pure] at h
    injection h with h
    subst h
    unfold HitObjectsState.finish at hho
    simp only [bind, Except.bind, pure, Except.pure] at hho
    split at hho
    · cases hho
    · injection hho with hho
      subst hho
      rfl

/-! ### the toy scalar satisfies the laws -/

theorem zc_epsLaws : EpsLaws ZC where
  refl := by
    intro x
    show decide (((x.v - x.v).natAbs : Int) < 1) = true
    simp
  eq_of_close := by
    intro x y h
    have h' : ((x.v - y.v).natAbs : Int) < 1 := by simpa using (show decide (((x.v - y.v).natAbs : Int) < 1) = true from h)
    cases x; cases y
    simp only [ZC.mk.injEq]
    simp only at h'
    omega

example : SvInverse (⟨2⟩ : ZC) := ⟨by decide, by decide⟩
example : SvInverse (⟨1⟩ : ZC) := ⟨by decide, by decide⟩

end RtTiming
end Rosu
