/-
  Lemmas/RtColours.lean — the `[Colours]` block: `Combo{i}: r,g,b,a` and `name: r,g,b,a` lines written by
  `encode_colors` are read back by `parse_colors` as the same colours. The decoder ignores the alpha field and
  stores 255 (C11.color_alpha_ignored), so the preserved view of a colour is the colour with alpha 255 — every
  decoded map has alpha 255 everywhere, and on such maps the view is the identity.
-/
import RosuModel.Lemmas.EncodeLines
import RosuModel.Model.Encode
namespace Rosu
namespace RtColours
open Rosu Encode EncodeLines C11

/-! ### `r,g,b,a` -/

theorem colorFields_chars (c : Color) : ∀ ch ∈ colorFields c, isDig ch = true ∨ ch = ',' := by
  intro ch h
  simp only [colorFields, showNat, List.mem_append, List.mem_singleton] at h
  rcases h with (((((h | h) | h) | h) | h) | h) | h
  all_goals first
    | exact Or.inl (decDigits_isDig _ ch h)
    | exact Or.inr h

theorem colorFields_not_mem (c : Color) (d : Char) (hd : d.toNat < 44 ∨ (44 < d.toNat ∧ d.toNat < 48) ∨ 57 < d.toNat) :
    d ∉ colorFields c := by
  intro hm
  rcases colorFields_chars c d hm with h | h
  · rw [isDig_iff] at h; omega
  · subst h; have : ','.toNat = 44 := rfl; omega

theorem colorFields_no_ws (c : Color) : ∀ ch ∈ colorFields c, isWs ch = false := by
  intro ch h
  rcases colorFields_chars c ch h with h | h
  · exact isDig_not_ws h
  · subst h; decide

theorem trim_colorFields (c : Color) : trim (colorFields c) = colorFields c := trim_no_ws _ (colorFields_no_ws c)
theorem hasDS_colorFields (c : Color) : hasDS (colorFields c) = false :=
  hasDS_of_no_slash _ (colorFields_not_mem c '/' (by decide))

theorem colorFields_getLast (c : Color) : ∃ x, (colorFields c).getLast? = some x ∧ isDig x = true := by
  obtain ⟨x, r, hxr, _⟩ := decDigits_head c.a
  have hne : decDigits c.a ≠ [] := decDigits_ne_nil _
  refine ⟨(decDigits c.a).getLast hne, ?_, decDigits_isDig _ _ (List.getLast_mem hne)⟩
  unfold colorFields showNat
  rw [List.getLast?_append, List.getLast?_eq_some_getLast hne]
  rfl

/-- the colour with the alpha the decoder stores. -/
def opaq (c : Color) : Color := { c with a := 255 }

/-- a colour whose components fit a byte. -/
def RepColor (c : Color) : Prop := c.r ≤ 255 ∧ c.g ≤ 255 ∧ c.b ≤ 255

instance (c : Color) : Decidable (RepColor c) := by unfold RepColor; infer_instance

/-- **`r,g,b,a` parses back** to the colour (alpha ignored, 255 stored), for byte-sized components. -/
theorem colorParse_colorFields (c : Color) (h : RepColor c) : Color.parse (colorFields c) = some (opaq c) := by
  have hc : ∀ n, ',' ∉ decDigits n := fun n => decDigits_not_mem n ',' (by decide)
  have hs : splitOn ',' (colorFields c) = [decDigits c.r, decDigits c.g, decDigits c.b, decDigits c.a] := by
    unfold colorFields showNat
    simp only [List.append_assoc, List.cons_append, List.nil_append]
    rw [splitOn_append_sep ',' (decDigits c.r) _ (hc _), splitOn_append_sep ',' (decDigits c.g) _ (hc _),
      splitOn_append_sep ',' (decDigits c.b) _ (hc _), splitOn_no_sep ',' _ (hc _)]
  unfold Color.parse
  simp only [hs, List.map_cons, List.map_nil, trim_decDigits, u8FromStr_decDigits _ h.1, u8FromStr_decDigits _ h.2.1,
    u8FromStr_decDigits _ h.2.2]
  rfl

example : Color.parse (colorFields ⟨255, 0, 128, 7⟩) = some ⟨255, 0, 128, 255⟩ := by decide

/-! ### lines -/

def comboKey (i : Nat) : Str := str "Combo" ++ showNat i

/-- the `Combo{i}` lines, numbered from `i`. -/
def comboLines : List Color → Nat → List Str
  | [], _ => []
  | c :: rest, i => kvl (comboKey i) (colorFields c) :: comboLines rest (i + 1)

def customLines (xs : List CustomColor) : List Str := xs.map fun c => kvl c.name (colorFields c.color)

/-- the record lines `encode_colors` writes. -/
def colourLines (c : Colors) : List Str := comboLines c.customComboColors 1 ++ customLines c.customColors

theorem str_colon_space : str ": " = [':', ' '] := rfl

theorem encodeComboColors_eq (cs : List Color) (i : Nat) : encodeComboColors cs i = unlines (comboLines cs i) := by
  induction cs generalizing i with
  | nil => rfl
  | cons c rest ih =>
    simp only [encodeComboColors, comboLines, unlines_cons, ih, comboKey, kvl, str_colon_space, Encode.nl, EncodeLines.nl,
      List.append_assoc, List.cons_append, List.nil_append]

theorem encodeColors_eq {F P : Type} (m : Beatmap F P) :
    encodeColors m = unlines (str "[Colours]" :: colourLines m.colors) := by
  have hh : str "[Colours]\n" = str "[Colours]" ++ EncodeLines.nl := by decide
  have hc : ∀ xs : List CustomColor,
      xs.flatMap (fun c => c.name ++ str ": " ++ colorFields c.color ++ Encode.nl) = unlines (customLines xs) := by
    intro xs
    induction xs with
    | nil => rfl
    | cons x xs ih =>
      rw [List.flatMap_cons, ih]
      simp only [customLines, List.map_cons, unlines_cons, kvl, str_colon_space, Encode.nl, EncodeLines.nl,
        List.append_assoc, List.cons_append, List.nil_append]
  unfold encodeColors colourLines
  rw [unlines_cons, unlines_append, encodeComboColors_eq, hc, hh]
  simp only [List.append_assoc]

/-! ### keys -/

theorem comboKey_chars (i : Nat) : ∀ ch ∈ comboKey i, ch ∈ str "Combo" ∨ isDig ch = true := by
  intro ch h
  simp only [comboKey, showNat, List.mem_append] at h
  rcases h with h | h
  · exact Or.inl h
  · exact Or.inr (decDigits_isDig _ ch h)

theorem comboKey_not_mem (i : Nat) (d : Char) (hd : d ∉ str "Combo") (hd2 : d.toNat < 48 ∨ 57 < d.toNat) : d ∉ comboKey i := by
  intro hm
  rcases comboKey_chars i d hm with h | h
  · exact hd h
  · rw [isDig_iff] at h; omega

theorem comboKey_no_ws (i : Nat) : ∀ ch ∈ comboKey i, isWs ch = false := by
  intro ch h
  rcases comboKey_chars i ch h with h | h
  · have : ∀ x ∈ str "Combo", isWs x = false := by decide
    exact this ch h
  · exact isDig_not_ws h

theorem comboKey_startsWith (i : Nat) : startsWith (comboKey i) (str "Combo") = true := startsWith_append _ _

/-- a custom colour the format can represent. -/
structure RepCustom (c : CustomColor) : Prop where
  trimmed : trim c.name = c.name
  noColon : ':' ∉ c.name
  noLf : '\n' ∉ c.name
  noDS : hasDS c.name = false
  notCombo : startsWith c.name (str "Combo") = false
  color : RepColor c.color

/-- a colours record the format can represent: byte-sized components, custom names that are their own trim,
contain no `:`, line feed or `//`, do not start with `Combo`, and are pairwise distinct. -/
structure RepColors (c : Colors) : Prop where
  combos : ∀ x ∈ c.customComboColors, RepColor x
  customs : ∀ x ∈ c.customColors, RepCustom x
  distinct : (c.customColors.map (·.name)).Nodup

/-! ### one line -/

theorem parse_combo_line (st : Colors) (i : Nat) (c : Color) (h : RepColor c) :
    parseColors st (trimEnd (kvl (comboKey i) (colorFields c))) =
      ({ st with customComboColors := st.customComboColors ++ [opaq c] }, true) := by
  unfold parseColors
  rw [kvSplit_trimComment_kvl _ _ (comboKey_not_mem i ':' (by decide) (by decide)) (trim_no_ws _ (comboKey_no_ws i))
    (trim_colorFields c) (hasDS_of_no_slash _ (comboKey_not_mem i '/' (by decide) (by decide))) (hasDS_colorFields c)]
  simp only [colorParse_colorFields c h, comboKey_startsWith, if_true]

theorem parse_custom_line (st : Colors) (c : CustomColor) (h : RepCustom c) :
    parseColors st (trimEnd (kvl c.name (colorFields c.color))) =
      ({ st with customColors := setCustomColor c.name (opaq c.color) st.customColors }, true) := by
  unfold parseColors
  rw [kvSplit_trimComment_kvl _ _ h.noColon h.trimmed (trim_colorFields _) h.noDS (hasDS_colorFields _)]
  simp only [colorParse_colorFields _ h.color, h.notCombo, Bool.false_eq_true, if_false]

theorem setCustomColor_fresh (name : Str) (c : Color) (xs : List CustomColor) (h : name ∉ xs.map (·.name)) :
    setCustomColor name c xs = xs ++ [⟨name, c⟩] := by
  induction xs with
  | nil => rfl
  | cons x rest ih =>
    have hx : (x.name == name) = false := by simpa using fun e : x.name = name => h (by simp [e])
    simp [setCustomColor, hx, ih (fun e => h (by simp [List.mem_map] at e ⊢; exact Or.inr e))]

/-! ### the block -/

def decodedLines (c : Colors) : List Str := (colourLines c).map trimEnd

theorem run_combos (st : Colors) (cs : List Color) (i : Nat) (h : ∀ x ∈ cs, RepColor x) :
    runSection parseColors st ((comboLines cs i).map trimEnd) =
      { st with customComboColors := st.customComboColors ++ cs.map opaq } := by
  induction cs generalizing st i with
  | nil => simp [comboLines, runSection]
  | cons c rest ih =>
    simp only [comboLines, List.map_cons, runSection_cons, parse_combo_line st i c (h c (by simp))]
    rw [ih _ _ (fun x hx => h x (by simp [hx]))]
    simp

/-- the custom colour as the decoder stores it. -/
def opaqueCustom (c : CustomColor) : CustomColor := { c with color := opaq c.color }

theorem run_customs (st : Colors) (xs : List CustomColor) (h : ∀ x ∈ xs, RepCustom x)
    (hd : (st.customColors.map (·.name) ++ xs.map (·.name)).Nodup) :
    runSection parseColors st ((customLines xs).map trimEnd) =
      { st with customColors := st.customColors ++ xs.map opaqueCustom } := by
  induction xs generalizing st with
  | nil => simp [customLines, runSection]
  | cons c rest ih =>
    have hfresh : c.name ∉ st.customColors.map (·.name) := by
      intro hm
      rw [List.nodup_append] at hd
      exact hd.2.2 _ hm _ (by simp) rfl
    simp only [customLines, List.map_cons, runSection_cons, parse_custom_line st c (h c (by simp)),
      setCustomColor_fresh _ _ _ hfresh]
    have := ih { st with customColors := st.customColors ++ [⟨c.name, opaq c.color⟩] }
      (fun x hx => h x (by simp [hx])) (by simpa [List.append_assoc] using hd)
    simp only [customLines] at this
    rw [this]
    simp [opaqueCustom]

/-- what the format carries of a colours record: the alpha of every colour is not read back (255 is stored). -/
def preservedColors (c : Colors) : Colors :=
  { customComboColors := c.customComboColors.map opaq, customColors := c.customColors.map opaqueCustom }

/-- on a record as the decoder produces it (alpha 255 everywhere) the preserved view is the identity. -/
theorem preservedColors_of_opaque (c : Colors) (h1 : ∀ x ∈ c.customComboColors, x.a = 255)
    (h2 : ∀ x ∈ c.customColors, x.color.a = 255) : preservedColors c = c := by
  obtain ⟨cs, xs⟩ := c
  simp only [preservedColors, Colors.mk.injEq]
  constructor
  · rw [List.map_congr_left (g := id)]
    · simp
    · intro x hx; obtain ⟨r, g, b, a⟩ := x; have := h1 _ hx; simp_all [opaq]
  · rw [List.map_congr_left (g := id)]
    · simp
    · intro x hx; obtain ⟨n, r, g, b, a⟩ := x; have := h2 _ hx; simp_all [opaqueCustom, opaq]

theorem colours_block_result (c : Colors) (h : RepColors c) :
    runSection parseColors Colors.default (decodedLines c) = preservedColors c := by
  unfold decodedLines colourLines
  rw [List.map_append, runSection_append, run_combos _ _ _ h.combos, run_customs _ _ h.customs (by simpa [Colors.default] using h.distinct)]
  simp [Colors.default, preservedColors]

theorem combo_lines_spec (cs : List Color) (i : Nat) (h : ∀ x ∈ cs, RepColor x) :
    ∀ r ∈ (comboLines cs i).map trimEnd, RecordLine r ∧ ∀ st, (parseColors st r).2 = true := by
  induction cs generalizing i with
  | nil => intro r hr; simp [comboLines] at hr
  | cons c rest ih =>
    intro r hr
    simp only [comboLines, List.map_cons, List.mem_cons] at hr
    rcases hr with hr | hr
    · subst hr
      refine ⟨?_, fun st => by rw [parse_combo_line st i c (h c (by simp))]⟩
      have : comboKey i = 'C' :: (str "ombo" ++ showNat i) := rfl
      rw [this]
      exact recordLine_kvl 'C' _ _ (by decide) (trim_colorFields c)
    · exact ih _ (fun x hx => h x (by simp [hx])) r hr

theorem custom_lines_spec (xs : List CustomColor) (h : ∀ x ∈ xs, RepCustom x) :
    ∀ r ∈ (customLines xs).map trimEnd, RecordLine r ∧ ∀ st, (parseColors st r).2 = true := by
  intro r hr
  simp only [customLines, List.map_map, List.mem_map, Function.comp] at hr
  obtain ⟨c, hc, rfl⟩ := hr
  have hc' := h c hc
  refine ⟨?_, fun st => by rw [parse_custom_line st c hc']⟩
  rw [trimEnd_kvl _ _ (trim_colorFields _)]
  have hne : (colorFields c.color).isEmpty = false := by
    obtain ⟨x, hx, _⟩ := colorFields_getLast c.color
    cases hcf : colorFields c.color <;> simp_all
  simp only [hne, Bool.false_eq_true, if_false]
  obtain ⟨x, hx, hxd⟩ := colorFields_getLast c.color
  apply recordLine_of_last _ x _ (isDig_ne hxd ']' (by decide))
  · cases hn : c.name with
    | nil => rfl
    | cons a r =>
      have := hc'.trimmed
      rw [hn] at this
      simp [trimStart, head_not_ws_of_trim_eq this]
  · apply hasDS_append_sep _ ':' _ hc'.noDS (by decide)
    rw [hasDS_cons_of_ne ' ' _ (by decide)]
    exact hasDS_colorFields _
  · rw [List.getLast?_append, List.getLast?_cons_cons]
    cases hcf : colorFields c.color with
    | nil => rw [hcf] at hne; cases hne
    | cons a r => rw [List.getLast?_cons_cons, ← hcf, hx]; rfl

theorem colourLines_no_lf (c : Colors) (h : RepColors c) : ∀ l ∈ colourLines c, '\n' ∉ l := by
  have hf : ∀ x : Color, '\n' ∉ colorFields x := fun x => colorFields_not_mem x '\n' (by decide)
  have hcombo : ∀ (cs : List Color) (i : Nat), ∀ l ∈ comboLines cs i, '\n' ∉ l := by
    intro cs
    induction cs with
    | nil => intro i l hl; simp [comboLines] at hl
    | cons x rest ih =>
      intro i l hl
      simp only [comboLines, List.mem_cons] at hl
      rcases hl with hl | hl
      · subst hl
        intro hm
        simp only [kvl, List.mem_append, List.mem_cons] at hm
        rcases hm with hm | hm | hm | hm
        · exact comboKey_not_mem i '\n' (by decide) (by decide) hm
        · exact absurd hm (by decide)
        · exact absurd hm (by decide)
        · exact hf _ hm
      · exact ih _ l hl
  intro l hl
  simp only [colourLines, List.mem_append] at hl
  rcases hl with hl | hl
  · exact hcombo _ _ l hl
  · simp only [customLines, List.mem_map] at hl
    obtain ⟨x, hx, rfl⟩ := hl
    intro hm
    simp only [kvl, List.mem_append, List.mem_cons] at hm
    rcases hm with hm | hm | hm | hm
    · exact (h.customs x hx).noLf hm
    · exact absurd hm (by decide)
    · exact absurd hm (by decide)
    · exact hf _ hm

theorem colour_lines_spec (c : Colors) (h : RepColors c) :
    ∀ r ∈ decodedLines c, RecordLine r ∧ ∀ st, (parseColors st r).2 = true := by
  intro r hr
  simp only [decodedLines, colourLines, List.map_append, List.mem_append] at hr
  rcases hr with hr | hr
  · exact combo_lines_spec _ _ h.combos r hr
  · exact custom_lines_spec _ h.customs r hr

/-- **colours_block_roundtrip** (C04 + C02 for the block): every line `encode_colors` writes for a representable
record is a record line, is accepted by `parse_colors`, and the block, run from the decoder's initial state,
yields the same combo colours (in order) and the same custom colours (names and order), each with alpha 255. -/
theorem colours_block_roundtrip (c : Colors) (h : RepColors c) :
    (∀ r ∈ decodedLines c, RecordLine r) ∧ Accepts parseColors Colors.default (decodedLines c) ∧
    runSection parseColors Colors.default (decodedLines c) = preservedColors c :=
  ⟨fun r hr => (colour_lines_spec c h r hr).1,
   accepts_of_forall _ _ (fun r hr => (colour_lines_spec c h r hr).2) _, colours_block_result c h⟩

/-! ### non-vacuity -/

def sample : Colors :=
  { customComboColors := [⟨255, 0, 0, 255⟩, ⟨0, 128, 255, 255⟩],
    customColors := [⟨str "SliderBorder", ⟨1, 2, 3, 255⟩⟩, ⟨str "[Colours]", ⟨4, 5, 6, 255⟩⟩, ⟨str "x/y z", ⟨7, 8, 9, 255⟩⟩] }

example : RepColors sample := by
  refine ⟨by decide, ?_, by decide⟩
  intro x hx
  simp only [sample, List.mem_cons, List.not_mem_nil, or_false] at hx
  rcases hx with rfl | rfl | rfl <;> exact ⟨by decide, by decide, by decide, by decide, by decide, by decide⟩

example : runSection parseColors Colors.default (decodedLines sample) = sample := by decide

end RtColours
end Rosu
