/-
  Lemmas/HitObjectBlockAcc.lean — ACCEPTANCE (C04) of spinner / hold lines and of the `[HitObjects]` block WITHOUT the
  duration-inverse clause of `RepSpinner` / `RepHold`.

  `RtObjects.spinner_line_roundtrip` / `hold_line_roundtrip` (C02 + C04 together) assume `RepSpinner.duration` /
  `RepHold.duration`: the duration re-derived from the written end time is the stored one. Acceptance does not need it: the
  generalised statements below (`spinner_line_accepted`, `hold_line_accepted`) say what IS pushed — a spinner of duration
  `max((start + duration) − start, 0)`, a hold of duration `max(start, start + duration) − start` — under `RepSpinnerA` /
  `RepHoldA` (the `Rep` predicates minus the duration clause), and contain the old theorems (`RepSpinner.toA`, `RepHold.toA`).
  `AccObject` / `object_line_acc` / `block_lines_acc` / `hitobjects_block_accepted_acc` are the block-level versions
  (`SliderRt.RepObject` ⟹ `AccObject`). Needed because on IEEE doubles the duration clause is FALSE of some decoded objects
  (Props/C04DecodedObjectsIeee2.lean: `duration_drifts_float`) while their lines are still accepted.
-/
import RosuModel.Lemmas.HitObjectBlock
set_option linter.unusedSectionVars false
namespace Rosu
namespace RtObjects
open Rosu Encode EncodeLines Scalar C11

section
variable {F P : Type} [Scalar F] [Scalar P] [Cvt P F] [Trig F] [Trig P] {RF : F → Prop} {RP : P → Prop}

/-- `RepSpinner` without the duration-inverse clause: what ACCEPTANCE of the line needs. -/
structure RepSpinnerA (RF : F → Prop) (RP : P → Prop) (mode : GameMode) (h : HitObject F P) (sp : HitObjectSpinner F P) : Prop where
  x : RepCoord RP sp.pos.x
  y : RepCoord RP sp.pos.y
  time : RF h.startTime ∧ InLimit h.startTime
  stop : RF (h.startTime + sp.duration) ∧ InLimit (h.startTime + sp.duration)
  samples : RepSamples h.samples mode

/-- `RepHold` without the duration-inverse clause. -/
structure RepHoldA (RF : F → Prop) (RP : P → Prop) (mode : GameMode) (h : HitObject F P) (ho : HitObjectHold F P) : Prop where
  x : RepCoord RP ho.posX
  y : RepCoord RP (192 : P)
  time : RF h.startTime ∧ InLimit h.startTime
  stop : RF (h.startTime + ho.duration) ∧ InLimit (h.startTime + ho.duration)
  samples : RepSamples h.samples mode

theorem RepSpinner.toA {mode : GameMode} {h : HitObject F P} {sp : HitObjectSpinner F P} (hr : RepSpinner RF RP mode h sp) :
    RepSpinnerA RF RP mode h sp := ⟨hr.x, hr.y, hr.time, hr.stop, hr.samples⟩

theorem RepHold.toA {mode : GameMode} {h : HitObject F P} {ho : HitObjectHold F P} (hr : RepHold RF RP mode h ho) :
    RepHoldA RF RP mode h ho := ⟨hr.x, hr.y, hr.time, hr.stop, hr.samples⟩

theorem spinner_line_shapeA (LF : CodecLaws F RF) (LP : CodecLaws P RP) (mode : GameMode) (h : HitObject F P) (sp : HitObjectSpinner F P)
    (hr : RepSpinnerA RF RP mode h sp) :
    '\n' ∉ spinnerLine mode h sp ∧ RecordLine (trimEnd (spinnerLine mode h sp)) ∧
    trimComment (trimEnd (spinnerLine mode h sp)) = spinnerLine mode h sp ∧
    splitOn ',' (spinnerLine mode h sp) =
      coreFields sp.pos.x sp.pos.y h.startTime (objectTypeOf h) (soundTypeOf h.samples) ++
        [showF (h.startTime + sp.duration), getSampleBank h.samples false mode] := by
  obtain ⟨c0, r0, hx0, _⟩ := LP.head hr.x.rep
  have e2 : coreFields sp.pos.x sp.pos.y h.startTime (objectTypeOf h) (soundTypeOf h.samples) ++
        [showF (h.startTime + sp.duration), getSampleBank h.samples false mode] =
      (c0 :: r0) :: [showP sp.pos.y, showF h.startTime, showInt (objectTypeOf h), showNat (soundTypeOf h.samples),
        showF (h.startTime + sp.duration)] ++
        [bankPre (normalBankOf h.samples) (addBankOf h.samples) (customOf h.samples mode) (volumeOf h.samples mode) ++ ':' :: fileNameOf h.samples] := by
    unfold coreFields
    rw [getSampleBank_eq, bankStr_eq, showP, hx0]
    rfl
  unfold spinnerLine
  rw [e2]
  apply line_facts c0 r0 _ _ _ (by rw [← hx0]; exact fieldChars_print LP hr.x.rep) _ (fieldChars_bankPre _ _ _ _) hr.samples.file
  intro s hs
  simp only [List.mem_cons, List.not_mem_nil, or_false] at hs
  rcases hs with hs | hs | hs | hs | hs <;> rw [hs]
  · exact fieldChars_print LP hr.y.rep
  · exact fieldChars_print LF hr.time.1
  · exact fieldChars_intDigits _
  · exact fieldChars_decDigits _
  · exact fieldChars_print LF hr.stop.1

/-- **spinner_line_accepted** (C04 for one spinner line; no duration hypothesis): the line written for a spinner whose
coordinates, start time, END TIME `start + duration` and samples are carried by the format is LF-free, a record line,
accepted in any state, and the object pushed is a spinner at the same start time whose duration is
`max((start + duration) − start, 0)`. -/
theorem spinner_line_accepted (LF : CodecLaws F RF) (LP : CodecLaws P RP) (mode : GameMode) (h : HitObject F P)
    (sp : HitObjectSpinner F P) (hk : h.kind = .spinner sp) (hr : RepSpinnerA RF RP mode h sp) (st : HOCore F P) :
    encodeObject mode h = .ok (spinnerLine mode h sp ++ EncodeLines.nl) ∧ '\n' ∉ spinnerLine mode h sp ∧
    RecordLine (trimEnd (spinnerLine mode h sp)) ∧
    parseHitObjectLine mode st (trimEnd (spinnerLine mode h sp)) =
      (pushed st 8 h.startTime (.spinner ⟨⟨(512 : P) / 2, (384 : P) / 2⟩,
          Scalar.max ((h.startTime + sp.duration) - h.startTime) 0, sp.newCombo⟩)
        (decodedSamples h.samples mode), true) := by
  obtain ⟨h1, h2, h3, h4⟩ := spinner_line_shapeA LF LP mode h sp hr
  refine ⟨encodeObject_spinner mode h sp hk, h1, h2, ?_⟩
  have hty : objectTypeOf h = orBits (if sp.newCombo then 4 else 0) 8 := by
    unfold objectTypeOf; rw [hk]
  obtain ⟨b1, b2, b3, b4, b5⟩ := spinner_type_bits sp.newCombo
  rw [← hty] at b1 b2 b3 b4 b5
  have hd := parseHeader_core LF LP (trimEnd (spinnerLine mode h sp)) sp.pos.x sp.pos.y h.startTime (objectTypeOf h)
    (soundTypeOf h.samples) [showF (h.startTime + sp.duration), getSampleBank h.samples false mode] hr.x hr.y hr.time ⟨b1, b2⟩
    (soundTypeOf_lt _) (by rw [h3, h4])
  unfold parseHitObjectLine
  rw [hd]
  simp only [buildSpinner, showF, floatParse_print LF hr.stop.1 hr.stop.2, readExtras_bank h.samples mode hr.samples, pushObject,
    b4, b5, decodedSamples, pushed, show classify 8 = some ObjClass.spinner from by decide]

theorem hold_line_shapeA (LF : CodecLaws F RF) (LP : CodecLaws P RP) (mode : GameMode) (h : HitObject F P) (ho : HitObjectHold F P)
    (hr : RepHoldA RF RP mode h ho) :
    '\n' ∉ holdLine mode h ho ∧ RecordLine (trimEnd (holdLine mode h ho)) ∧
    trimComment (trimEnd (holdLine mode h ho)) = holdLine mode h ho ∧
    splitOn ',' (holdLine mode h ho) =
      coreFields ho.posX (192 : P) h.startTime (objectTypeOf h) (soundTypeOf h.samples) ++
        [showF (h.startTime + ho.duration) ++ ':' :: getSampleBank h.samples false mode] := by
  obtain ⟨c0, r0, hx0, _⟩ := LP.head hr.x.rep
  have e2 : coreFields ho.posX (192 : P) h.startTime (objectTypeOf h) (soundTypeOf h.samples) ++
        [showF (h.startTime + ho.duration) ++ ':' :: getSampleBank h.samples false mode] =
      (c0 :: r0) :: [showP (192 : P), showF h.startTime, showInt (objectTypeOf h), showNat (soundTypeOf h.samples)] ++
        [(showF (h.startTime + ho.duration) ++ ':' :: bankPre (normalBankOf h.samples) (addBankOf h.samples) (customOf h.samples mode)
          (volumeOf h.samples mode)) ++ ':' :: fileNameOf h.samples] := by
    unfold coreFields
    rw [getSampleBank_eq, bankStr_eq, showP, hx0]
    simp [List.append_assoc]
  unfold holdLine
  rw [e2]
  apply line_facts c0 r0 _ _ _ (by rw [← hx0]; exact fieldChars_print LP hr.x.rep) _
    (fieldChars_append (fieldChars_print LF hr.stop.1) (by
      intro c hc
      rcases List.mem_cons.mp hc with hc | hc
      · exact Or.inr hc
      · exact fieldChars_bankPre _ _ _ _ c hc)) hr.samples.file
  intro s hs
  simp only [List.mem_cons, List.not_mem_nil, or_false] at hs
  rcases hs with hs | hs | hs | hs <;> rw [hs]
  · exact fieldChars_print LP hr.y.rep
  · exact fieldChars_print LF hr.time.1
  · exact fieldChars_intDigits _
  · exact fieldChars_decDigits _

/-- **hold_line_accepted** (C04 for one hold-note line; no duration hypothesis): … the object pushed is a hold at the same
start time and column whose duration is `max(start, start + duration) − start`. -/
theorem hold_line_accepted (LF : CodecLaws F RF) (LP : CodecLaws P RP) (mode : GameMode) (h : HitObject F P)
    (ho : HitObjectHold F P) (hk : h.kind = .hold ho) (hr : RepHoldA RF RP mode h ho) (st : HOCore F P) :
    encodeObject mode h = .ok (holdLine mode h ho ++ EncodeLines.nl) ∧ '\n' ∉ holdLine mode h ho ∧
    RecordLine (trimEnd (holdLine mode h ho)) ∧
    parseHitObjectLine mode st (trimEnd (holdLine mode h ho)) =
      (pushed st 128 h.startTime
        (.hold ⟨ho.posX, Scalar.max h.startTime (h.startTime + ho.duration) - h.startTime⟩) (decodedSamples h.samples mode), true) := by
  obtain ⟨h1, h2, h3, h4⟩ := hold_line_shapeA LF LP mode h ho hr
  refine ⟨encodeObject_hold mode h ho hk, h1, h2, ?_⟩
  have hty : objectTypeOf h = 128 := by unfold objectTypeOf; rw [hk]
  have hd := parseHeader_core LF LP (trimEnd (holdLine mode h ho)) ho.posX (192 : P) h.startTime (objectTypeOf h)
    (soundTypeOf h.samples) [showF (h.startTime + ho.duration) ++ ':' :: getSampleBank h.samples false mode] hr.x hr.y hr.time
    (by rw [hty]; decide) (soundTypeOf_lt _) (by rw [h3, h4])
  have hsplit : splitOn ':' (showF (h.startTime + ho.duration) ++ ':' :: getSampleBank h.samples false mode) =
      showF (h.startTime + ho.duration) :: splitOn ':' (getSampleBank h.samples false mode) :=
    splitOn_append_sep ':' _ _ (LF.not_mem hr.stop.1 ':' (by decide))
  have hne : (showF (h.startTime + ho.duration) ++ ':' :: getSampleBank h.samples false mode).isEmpty = false := by
    cases hp : showF (h.startTime + ho.duration) <;> simp
  have hread : ({} : SampleBankInfo).readCustomSampleBanks (splitOn ':' (getSampleBank h.samples false mode)) false =
      (bankInfoFor h.samples mode, true) := by
    rw [getSampleBank_eq]
    exact read_bankStr _ _ _ _ _ hr.samples.file.noColon hr.samples.custom hr.samples.volume
  simp only [showF] at hsplit hne
  unfold parseHitObjectLine
  rw [hd, hty]
  simp only [buildHold, List.head?_cons, optNonEmpty, hne, Bool.false_eq_true, if_false, hsplit, showF,
    floatParse_print LF hr.stop.1 hr.stop.2, hread, pushObject, hold_type_bits.2, decodedSamples, pushed,
    show classify 128 = some ObjClass.hold from by decide]

end
end RtObjects

namespace SliderRt
open Rosu Encode EncodeLines Scalar RtObjects C11

section
variable {F P : Type} [Scalar F] [Scalar P] [Cvt P F] [Trig F] [Trig P] {RF : F → Prop} {RP : P → Prop}

/-- a hit object whose LINE the format carries (acceptance): `RepObject` without the duration-inverse clauses. -/
inductive AccObject (RF : F → Prop) (RP : P → Prop) (mode : GameMode) (h : HitObject F P) : Prop
  | circle (c : HitObjectCircle P) (hk : h.kind = .circle c) (hr : RepCircle RF RP mode h c)
  | slider (s : HitObjectSlider F P) (dist : F) (hk : h.kind = .slider s) (hr : RepSlider RF RP mode h s dist)
  | spinner (sp : HitObjectSpinner F P) (hk : h.kind = .spinner sp) (hr : RepSpinnerA RF RP mode h sp)
  | hold (ho : HitObjectHold F P) (hk : h.kind = .hold ho) (hr : RepHoldA RF RP mode h ho)

theorem RepObject.toAcc {mode : GameMode} {h : HitObject F P} (hr : RepObject RF RP mode h) : AccObject RF RP mode h := by
  cases hr with
  | circle c hk hr => exact .circle c hk hr
  | slider s dist hk hr => exact .slider s dist hk hr
  | spinner sp hk hr => exact .spinner sp hk hr.toA
  | hold ho hk hr => exact .hold ho hk hr.toA

/-- `SliderRt.object_line` under `AccObject`. -/
theorem object_line_acc (LF : CodecLaws F RF) (LP : CodecLaws P RP) (LC : CoordLaws F P RP) (mode : GameMode) (h : HitObject F P)
    (hr : AccObject RF RP mode h) :
    ∃ l, encodeObject mode h = .ok (l ++ EncodeLines.nl) ∧ '\n' ∉ l ∧ RecordLine (trimEnd l) ∧
      ∀ st : HOCore F P, ∃ o, (parseHitObjectLine mode st (trimEnd l)).2 = true ∧
        (parseHitObjectLine mode st (trimEnd l)).1.hitObjects = st.hitObjects ++ [o] ∧ timeKind o = timeKind h ∧
        (st.curvePoints = [] → (parseHitObjectLine mode st (trimEnd l)).1.curvePoints = []) := by
  cases hr with
  | circle c hk hr => exact object_line LF LP LC mode h (.circle c hk hr)
  | slider s dist hk hr => exact object_line LF LP LC mode h (.slider s dist hk hr)
  | spinner sp hk hr =>
    refine ⟨spinnerLine mode h sp, (spinner_line_accepted LF LP mode h sp hk hr {}).1,
      (spinner_line_accepted LF LP mode h sp hk hr {}).2.1, (spinner_line_accepted LF LP mode h sp hk hr {}).2.2.1, fun st => ?_⟩
    rw [(spinner_line_accepted LF LP mode h sp hk hr st).2.2.2]
    exact ⟨_, rfl, rfl, by simp [timeKind, kindTag, hk], fun h0 => h0⟩
  | hold ho hk hr =>
    refine ⟨holdLine mode h ho, (hold_line_accepted LF LP mode h ho hk hr {}).1,
      (hold_line_accepted LF LP mode h ho hk hr {}).2.1, (hold_line_accepted LF LP mode h ho hk hr {}).2.2.1, fun st => ?_⟩
    rw [(hold_line_accepted LF LP mode h ho hk hr st).2.2.2]
    exact ⟨_, rfl, rfl, by simp [timeKind, kindTag, hk], fun h0 => h0⟩

/-- `SliderRt.block_lines` under `AccObject`. -/
theorem block_lines_acc (LF : CodecLaws F RF) (LP : CodecLaws P RP) (LC : CoordLaws F P RP) (mode : GameMode) :
    ∀ objs : List (HitObject F P), (∀ h ∈ objs, AccObject RF RP mode h) →
      ∃ H : List Str, encodeObjects mode objs = .ok (unlines H) ∧ H.length = objs.length ∧
        (∀ l ∈ H, '\n' ∉ l ∧ RecordLine (trimEnd l)) ∧
        ∀ st : HOCore F P, Accepts (parseHitObjectLine mode) st (H.map trimEnd) ∧
          ∃ os, (runSection (parseHitObjectLine mode) st (H.map trimEnd)).hitObjects = st.hitObjects ++ os ∧
            os.map timeKind = objs.map timeKind ∧
            (st.curvePoints = [] → (runSection (parseHitObjectLine mode) st (H.map trimEnd)).curvePoints = []) := by
  intro objs
  induction objs with
  | nil =>
    intro _
    refine ⟨[], ?_, rfl, ?_, fun st => ⟨trivial, [], ?_, rfl, fun h => h⟩⟩
    · rw [encodeObjects]; rfl
    · intro l hl; cases hl
    · simp [runSection]
  | cons h rest ih =>
    intro hall
    obtain ⟨l, h1, h2, h3, h4⟩ := object_line_acc LF LP LC mode h (hall h (by simp))
    obtain ⟨H, g1, g2, g3, g4⟩ := ih (fun x hx => hall x (by simp [hx]))
    refine ⟨l :: H, ?_, by simp [g2], ?_, fun st => ?_⟩
    · rw [encodeObjects]
      simp only [h1, g1, bind, Except.bind, pure, Except.pure, unlines_cons]
    · intro x hx
      rcases List.mem_cons.mp hx with hx | hx
      · subst hx; exact ⟨h2, h3⟩
      · exact g3 x hx
    · obtain ⟨o, a1, a2, a3, a4⟩ := h4 st
      obtain ⟨b1, os, b2, b3, b4⟩ := g4 (parseHitObjectLine mode st (trimEnd l)).1
      simp only [List.map_cons, Accepts, runSection_cons]
      refine ⟨⟨a1, b1⟩, o :: os, ?_, by simp [a3, b3], fun h0 => b4 (a4 h0)⟩
      rw [b2, a2]
      simp

/-- **hitobjects_block_accepted_acc** — `C04.hitobjects_block_accepted` under `AccObject` (no duration-inverse clause):
`encode_hit_objects` succeeds, the block is `[HitObjects]` followed by one LF-free record line per object, and running
`parse_hit_objects` over the end-trimmed lines from any decoder state accepts every one of them (and appends, in order,
objects of the same kinds at the same start times). -/
theorem hitobjects_block_accepted_acc (LF : CodecLaws F RF) (LP : CodecLaws P RP) (LC : CoordLaws F P RP) (m : Beatmap F P)
    (hm : ∀ h ∈ m.hitObjects, AccObject RF RP m.general.mode h) :
    ∃ H : List Str, encodeHitObjects m = .ok (unlines (str "[HitObjects]" :: H)) ∧ RtFile.ListBlockShape H ∧
      H.length = m.hitObjects.length ∧
      ∀ st : HOCore F P, Accepts (parseHitObjectLine m.general.mode) st (H.map trimEnd) ∧
        ∃ os, (runSection (parseHitObjectLine m.general.mode) st (H.map trimEnd)).hitObjects = st.hitObjects ++ os ∧
          os.map timeKind = m.hitObjects.map timeKind := by
  obtain ⟨H, h1, h2, h3, h4⟩ := block_lines_acc LF LP LC m.general.mode m.hitObjects hm
  refine ⟨H, ?_, h3, h2, fun st => ⟨(h4 st).1, ?_⟩⟩
  · unfold encodeHitObjects
    simp only [h1, bind, Except.bind, pure, Except.pure, unlines_cons]
    rfl
  · obtain ⟨os, a, b, _⟩ := (h4 st).2
    exact ⟨os, a, b⟩

end
end SliderRt
end Rosu
