/-
  Lemmas/FloatModelOrder.lean — the order theory of IEEE comparisons for the driver's actual scalars.

  In Lean 4.33 `Float` / `Float32` are *not* opaque: `structure Float where ofModel :: toModel : Float.Model`, and
  `<`, `<=`, `==`, `isNaN`, `+`, `-`, `*`, `/`, `abs`, `neg` are ordinary definitions through
  `Float.Model.unpack : Float.Model → UnpackedFloat` and the structural `UnpackedFloat.compare`. This file proves, in the
  kernel and without any statement about rounding:

  1. `compare_spec`: on non-NaN values `UnpackedFloat.compare a b` is the lexicographic comparison of `key a`, `key b`
     (`key : UnpackedFloat → Int × Int × Int`; both zeros share a key). `compare` is structural, so no canonical-form
     assumption is needed.
  2. the class `IeeeOrd α` ("`Scalar.lt/le/eq/isNaN` of `α` are `UnpackedFloat.lt/le/beq/isNaN` of `up x`"), its
     instances for `Float` and `Float32` (the `Scalar` instances of Model/FloatInst.lean), and the order laws for every
     such `α`: `<` irreflexive / asymmetric / transitive, every comparison with a NaN is false, `<=` is `<` or `==`,
     totality on non-NaN values, mixed transitivity, and what `Scalar.max` / `Scalar.min` / `Scalar.clamp` guarantee.
  3. `x - x`: for a finite `x` (zero or finite) the difference is exactly `+0`, for `±∞` and NaN it is NaN; hence
     `|x − x| < ε` for finite `x` (`sub_self_float`, `abs_sub_self_lt_eps_float`, and the `Float32` versions).
  4. NaN-ness through `pack`/`unpack` (`unpack_pack_isNaN`): the only fact about the bit encoding used here; it gives
     `isNaN (-x) = isNaN x`, `isNaN |x| = isNaN x` and "`c / y` is a number for a finite non-zero `c` and a number `y`".
-/
import RosuModel.Model.FloatInst
namespace Rosu.FMO
open Rosu Float.Model
open Float.Model.UnpackedFloat (Sign)

/-- the inductive view of an IEEE value used by Lean's float model. -/
abbrev UF := Float.Model.UnpackedFloat

/-! ## 1. `UnpackedFloat.compare` is a lexicographic comparison of keys -/

/-- lexicographic key of a non-NaN value: `−∞ ↦ (−2,0,0)`, negative finite `(m,e) ↦ (−1,−e,−m)`, `±0 ↦ (0,0,0)`,
positive finite `↦ (1,e,m)`, `+∞ ↦ (2,0,0)`. (NaN gets an arbitrary key; every statement guards it.) -/
def key : UF → Int × Int × Int
  | .notANumber => (0, 0, 0)
  | .infinity .negative => (-2, 0, 0)
  | .infinity .positive => (2, 0, 0)
  | .zero _ => (0, 0, 0)
  | .finite .negative m e _ => (-1, -e, -(m : Int))
  | .finite .positive m e _ => (1, e, (m : Int))

/-- strict lexicographic order on keys. -/
def KLt (a b : Int × Int × Int) : Prop :=
  a.1 < b.1 ∨ (a.1 = b.1 ∧ (a.2.1 < b.2.1 ∨ (a.2.1 = b.2.1 ∧ a.2.2 < b.2.2)))

theorem klt_irrefl (a : Int × Int × Int) : ¬ KLt a a := by
  obtain ⟨a1, a2, a3⟩ := a; simp only [KLt]; omega

theorem klt_trans {a b c : Int × Int × Int} (h1 : KLt a b) (h2 : KLt b c) : KLt a c := by
  obtain ⟨a1, a2, a3⟩ := a; obtain ⟨b1, b2, b3⟩ := b; obtain ⟨c1, c2, c3⟩ := c
  simp only [KLt] at *; omega

theorem klt_asymm {a b : Int × Int × Int} (h1 : KLt a b) : ¬ KLt b a :=
  fun h2 => klt_irrefl _ (klt_trans h1 h2)

theorem klt_tri (a b : Int × Int × Int) : KLt a b ∨ a = b ∨ KLt b a := by
  obtain ⟨a1, a2, a3⟩ := a; obtain ⟨b1, b2, b3⟩ := b
  simp only [KLt, Prod.mk.injEq]; omega

theorem klt_ne {a b : Int × Int × Int} (h : KLt a b) : a ≠ b := fun e => klt_irrefl _ (e ▸ h)

theorem then_lt (e1 e2 : Int) (m1 m2 : Nat) :
    ((compare e1 e2).then (compare m1 m2) = .lt) ↔ (e1 < e2 ∨ (e1 = e2 ∧ m1 < m2)) := by
  rw [Ordering.then_eq_lt]
  simp [Int.compare_eq_lt, Nat.compare_eq_lt]

theorem then_gt (e1 e2 : Int) (m1 m2 : Nat) :
    ((compare e1 e2).then (compare m1 m2) = .gt) ↔ (e2 < e1 ∨ (e1 = e2 ∧ m2 < m1)) := by
  rw [Ordering.then_eq_gt]
  simp [Int.compare_eq_gt, Nat.compare_eq_gt]

theorem sign_compare (s t : Sign) : compare s t = match s, t with
    | .negative, .negative => .eq
    | .negative, .positive => .lt
    | .positive, .negative => .gt
    | .positive, .positive => .eq := rfl

/-- **`compare` on numbers is the lexicographic comparison of the keys** (and is never `none`). -/
theorem compare_spec (a b : UF) (ha : a.isNaN = false) (hb : b.isNaN = false) :
    (a.compare b = some .lt ↔ KLt (key a) (key b)) ∧ (a.compare b = some .eq ↔ key a = key b) ∧
    (a.compare b = some .gt ↔ KLt (key b) (key a)) ∧ a.compare b ≠ none := by
  rcases a with s|_|s|⟨s,m,e,hm⟩ <;> rcases b with s'|_|s'|⟨s',m',e',hm'⟩ <;>
    first
    | (simp [UnpackedFloat.isNaN] at ha; done)
    | (simp [UnpackedFloat.isNaN] at hb; done)
    | (cases s <;> cases s' <;>
        simp [UnpackedFloat.compare, key, KLt, sign_compare, then_lt, then_gt,
          Ordering.swap_eq_lt, Ordering.swap_eq_gt, Ordering.swap_eq_eq] <;> omega)

theorem compare_nan_left (b : UF) : UnpackedFloat.compare .notANumber b = none := by
  cases b <;> rfl

theorem compare_nan_right (a : UF) : a.compare .notANumber = none := by
  rcases a with s|_|s|⟨s,m,e,hm⟩ <;> rfl

theorem compare_none_of_nan {a b : UF} (h : a.isNaN = true ∨ b.isNaN = true) : a.compare b = none := by
  rcases h with h | h
  · cases a <;> first | exact compare_nan_left _ | cases h
  · cases b <;> first | exact compare_nan_right _ | cases h

/-! ### `lt`, `le`, `beq` on unpacked values -/

theorem ult_iff (a b : UF) :
    a.lt b = true ↔ a.isNaN = false ∧ b.isNaN = false ∧ KLt (key a) (key b) := by
  unfold UnpackedFloat.lt
  cases ha : a.isNaN
  · cases hb : b.isNaN
    · simp [(compare_spec a b ha hb).1]
    · simp [compare_none_of_nan (Or.inr hb)]
  · simp [compare_none_of_nan (b := b) (Or.inl ha)]

theorem ubeq_iff (a b : UF) :
    a.beq b = true ↔ a.isNaN = false ∧ b.isNaN = false ∧ key a = key b := by
  unfold UnpackedFloat.beq
  cases ha : a.isNaN
  · cases hb : b.isNaN
    · simp [(compare_spec a b ha hb).2.1]
    · simp [compare_none_of_nan (Or.inr hb)]
  · simp [compare_none_of_nan (b := b) (Or.inl ha)]

theorem ule_iff (a b : UF) :
    a.le b = true ↔ a.isNaN = false ∧ b.isNaN = false ∧ ¬ KLt (key b) (key a) := by
  unfold UnpackedFloat.le
  cases ha : a.isNaN
  · cases hb : b.isNaN
    · obtain ⟨h1, h2, h3, h4⟩ := compare_spec a b ha hb
      cases hc : a.compare b with
      | none => exact absurd hc h4
      | some o =>
        rw [hc] at h1 h2 h3
        cases o
        · have := h1.mp rfl
          simp [Ordering.isLE, klt_asymm this]
        · have := h2.mp rfl
          simp [Ordering.isLE, this, klt_irrefl]
        · have := h3.mp rfl
          simp [Ordering.isLE, this]
    · simp [compare_none_of_nan (Or.inr hb)]
  · simp [compare_none_of_nan (b := b) (Or.inl ha)]

/-! ## 2. scalars whose comparisons are IEEE comparisons; `Float` and `Float32` -/

/-- `Scalar.lt/le/eq/isNaN` of `α` are the IEEE comparisons of the unpacked value `up x`. -/
class IeeeOrd (α : Type) [Scalar α] where
  up : α → UF
  lt_eq : ∀ x y : α, Scalar.lt x y = (up x).lt (up y)
  le_eq : ∀ x y : α, Scalar.le x y = (up x).le (up y)
  eq_eq : ∀ x y : α, Scalar.eq x y = (up x).beq (up y)
  isNaN_eq : ∀ x : α, Scalar.isNaN x = (up x).isNaN

/-! ### bridges for the driver's instances -/

theorem lt_float (x y : Float) : Scalar.lt x y = UnpackedFloat.lt x.toModel.unpack y.toModel.unpack := by
  show decide (x.lt y = true) = _
  rw [Bool.decide_eq_true]
  show decide (x.toModel.lt y.toModel = true) = _
  rw [Bool.decide_eq_true]; rfl

theorem le_float (x y : Float) : Scalar.le x y = UnpackedFloat.le x.toModel.unpack y.toModel.unpack := by
  show decide (x.le y = true) = _
  rw [Bool.decide_eq_true]
  show decide (x.toModel.le y.toModel = true) = _
  rw [Bool.decide_eq_true]; rfl

theorem eq_float (x y : Float) : Scalar.eq x y = UnpackedFloat.beq x.toModel.unpack y.toModel.unpack := rfl
theorem isNaN_float (x : Float) : Scalar.isNaN x = x.toModel.unpack.isNaN := rfl

theorem lt_float32 (x y : Float32) : Scalar.lt x y = UnpackedFloat.lt x.toModel.unpack y.toModel.unpack := by
  show decide (x.lt y = true) = _
  rw [Bool.decide_eq_true]
  show decide (x.toModel.lt y.toModel = true) = _
  rw [Bool.decide_eq_true]; rfl

theorem le_float32 (x y : Float32) : Scalar.le x y = UnpackedFloat.le x.toModel.unpack y.toModel.unpack := by
  show decide (x.le y = true) = _
  rw [Bool.decide_eq_true]
  show decide (x.toModel.le y.toModel = true) = _
  rw [Bool.decide_eq_true]; rfl

theorem eq_float32 (x y : Float32) : Scalar.eq x y = UnpackedFloat.beq x.toModel.unpack y.toModel.unpack := rfl
theorem isNaN_float32 (x : Float32) : Scalar.isNaN x = x.toModel.unpack.isNaN := rfl

instance : IeeeOrd Float := ⟨fun x => x.toModel.unpack, lt_float, le_float, eq_float, isNaN_float⟩
instance : IeeeOrd Float32 := ⟨fun x => x.toModel.unpack, lt_float32, le_float32, eq_float32, isNaN_float32⟩

/-- what the arithmetic bridges look like (definitional). -/
theorem sub_float (x y : Float) :
    x - y = Float.ofModel (Float.Model.pack (UnpackedFloat.sub Format.binary64 x.toModel.unpack y.toModel.unpack)) := rfl
theorem sub_float32 (x y : Float32) :
    x - y = Float32.ofModel (Float32.Model.pack (UnpackedFloat.sub Format.binary32 x.toModel.unpack y.toModel.unpack)) := rfl
theorem div_float (x y : Float) :
    x / y = Float.ofModel (Float.Model.pack (UnpackedFloat.div Format.binary64 x.toModel.unpack y.toModel.unpack)) := rfl
theorem div_float32 (x y : Float32) :
    x / y = Float32.ofModel (Float32.Model.pack (UnpackedFloat.div Format.binary32 x.toModel.unpack y.toModel.unpack)) := rfl
theorem neg_float (x : Float) : -x = Float.ofModel (Float.Model.pack x.toModel.unpack.neg) := rfl
theorem neg_float32 (x : Float32) : -x = Float32.ofModel (Float32.Model.pack x.toModel.unpack.neg) := rfl
theorem abs_float (x : Float) : Scalar.abs x = Float.ofModel (Float.Model.pack x.toModel.unpack.abs) := rfl
theorem abs_float32 (x : Float32) : Scalar.abs x = Float32.ofModel (Float32.Model.pack x.toModel.unpack.abs) := rfl

/-! ### the order laws, for every `IeeeOrd` scalar -/

section Laws
variable {α : Type} [Scalar α] [IeeeOrd α]
open IeeeOrd

theorem lt_iff (x y : α) : Scalar.lt x y = true ↔
    Scalar.isNaN x = false ∧ Scalar.isNaN y = false ∧ KLt (key (up x)) (key (up y)) := by
  rw [lt_eq, isNaN_eq, isNaN_eq]; exact ult_iff _ _

theorem le_iff (x y : α) : Scalar.le x y = true ↔
    Scalar.isNaN x = false ∧ Scalar.isNaN y = false ∧ ¬ KLt (key (up y)) (key (up x)) := by
  rw [le_eq, isNaN_eq, isNaN_eq]; exact ule_iff _ _

theorem eq_iff (x y : α) : Scalar.eq x y = true ↔
    Scalar.isNaN x = false ∧ Scalar.isNaN y = false ∧ key (up x) = key (up y) := by
  rw [eq_eq, isNaN_eq, isNaN_eq]; exact ubeq_iff _ _

theorem lt_false_iff (x y : α) : Scalar.lt x y = false ↔
    (Scalar.isNaN x = true ∨ Scalar.isNaN y = true ∨ ¬ KLt (key (up x)) (key (up y))) := by
  have h := lt_iff x y
  cases hl : Scalar.lt x y <;> cases hx : Scalar.isNaN x <;> cases hy : Scalar.isNaN y <;> simp_all

/-- `<` is irreflexive. -/
theorem lt_irrefl (a : α) : Scalar.lt a a = false := by
  cases h : Scalar.lt a a
  · rfl
  · exact absurd ((lt_iff a a).mp h).2.2 (klt_irrefl _)

/-- `<` is asymmetric. -/
theorem lt_asymm (a b : α) (h : Scalar.lt a b = true) : Scalar.lt b a = false := by
  cases h' : Scalar.lt b a
  · rfl
  · exact absurd ((lt_iff b a).mp h').2.2 (klt_asymm ((lt_iff a b).mp h).2.2)

/-- `<` is transitive. -/
theorem lt_trans (a b c : α) (h1 : Scalar.lt a b = true) (h2 : Scalar.lt b c = true) : Scalar.lt a c = true := by
  obtain ⟨ha, _, hab⟩ := (lt_iff a b).mp h1
  obtain ⟨_, hc, hbc⟩ := (lt_iff b c).mp h2
  exact (lt_iff a c).mpr ⟨ha, hc, klt_trans hab hbc⟩

/-- both sides of a true `<` are numbers. -/
theorem not_nan_of_lt {a b : α} (h : Scalar.lt a b = true) : Scalar.isNaN a = false ∧ Scalar.isNaN b = false :=
  ⟨((lt_iff a b).mp h).1, ((lt_iff a b).mp h).2.1⟩

theorem not_nan_of_le {a b : α} (h : Scalar.le a b = true) : Scalar.isNaN a = false ∧ Scalar.isNaN b = false :=
  ⟨((le_iff a b).mp h).1, ((le_iff a b).mp h).2.1⟩

theorem not_nan_of_eq {a b : α} (h : Scalar.eq a b = true) : Scalar.isNaN a = false ∧ Scalar.isNaN b = false :=
  ⟨((eq_iff a b).mp h).1, ((eq_iff a b).mp h).2.1⟩

/-- every comparison with a NaN is false. -/
theorem lt_nan_left (a b : α) (h : Scalar.isNaN a = true) : Scalar.lt a b = false := by
  cases h' : Scalar.lt a b
  · rfl
  · rw [(not_nan_of_lt h').1] at h; cases h

theorem lt_nan_right (a b : α) (h : Scalar.isNaN b = true) : Scalar.lt a b = false := by
  cases h' : Scalar.lt a b
  · rfl
  · rw [(not_nan_of_lt h').2] at h; cases h

theorem le_nan_left (a b : α) (h : Scalar.isNaN a = true) : Scalar.le a b = false := by
  cases h' : Scalar.le a b
  · rfl
  · rw [(not_nan_of_le h').1] at h; cases h

theorem le_nan_right (a b : α) (h : Scalar.isNaN b = true) : Scalar.le a b = false := by
  cases h' : Scalar.le a b
  · rfl
  · rw [(not_nan_of_le h').2] at h; cases h

theorem eq_nan_left (a b : α) (h : Scalar.isNaN a = true) : Scalar.eq a b = false := by
  cases h' : Scalar.eq a b
  · rfl
  · rw [(not_nan_of_eq h').1] at h; cases h

theorem eq_nan_right (a b : α) (h : Scalar.isNaN b = true) : Scalar.eq a b = false := by
  cases h' : Scalar.eq a b
  · rfl
  · rw [(not_nan_of_eq h').2] at h; cases h

/-- `<=` is `<` or `==`. -/
theorem le_eq_lt_or_eq (a b : α) : Scalar.le a b = (Scalar.lt a b || Scalar.eq a b) := by
  rw [Bool.eq_iff_iff, Bool.or_eq_true, le_iff, lt_iff, eq_iff]
  constructor
  · rintro ⟨ha, hb, h⟩
    rcases klt_tri (key (up a)) (key (up b)) with h' | h' | h'
    · exact Or.inl ⟨ha, hb, h'⟩
    · exact Or.inr ⟨ha, hb, h'⟩
    · exact absurd h' h
  · rintro (⟨ha, hb, h⟩ | ⟨ha, hb, h⟩)
    · exact ⟨ha, hb, klt_asymm h⟩
    · exact ⟨ha, hb, h ▸ klt_irrefl _⟩

theorem le_of_lt (a b : α) (h : Scalar.lt a b = true) : Scalar.le a b = true := by
  rw [le_eq_lt_or_eq, h]; rfl

theorem le_of_eq (a b : α) (h : Scalar.eq a b = true) : Scalar.le a b = true := by
  rw [le_eq_lt_or_eq, h]; simp

/-- `<=` and `==` are reflexive exactly on numbers. -/
theorem le_refl (a : α) (h : Scalar.isNaN a = false) : Scalar.le a a = true :=
  (le_iff a a).mpr ⟨h, h, klt_irrefl _⟩

theorem eq_refl (a : α) (h : Scalar.isNaN a = false) : Scalar.eq a a = true :=
  (eq_iff a a).mpr ⟨h, h, rfl⟩

theorem eq_symm (a b : α) : Scalar.eq a b = Scalar.eq b a := by
  rw [Bool.eq_iff_iff, eq_iff, eq_iff]
  constructor <;> (rintro ⟨h1, h2, h3⟩; exact ⟨h2, h1, h3.symm⟩)

/-- a true `<` excludes the converse `<=`. -/
theorem not_le_of_lt (a b : α) (h : Scalar.lt a b = true) : Scalar.le b a = false := by
  cases h' : Scalar.le b a
  · rfl
  · exact absurd ((lt_iff a b).mp h).2.2 ((le_iff b a).mp h').2.2

theorem not_lt_of_le (a b : α) (h : Scalar.le a b = true) : Scalar.lt b a = false := by
  cases h' : Scalar.lt b a
  · rfl
  · rw [not_le_of_lt b a h'] at h; cases h

/-- **totality on numbers**: two numbers are comparable. -/
theorem le_of_not_lt (a b : α) (ha : Scalar.isNaN a = false) (hb : Scalar.isNaN b = false)
    (h : Scalar.lt a b = false) : Scalar.le b a = true := by
  refine (le_iff b a).mpr ⟨hb, ha, fun hk => ?_⟩
  rw [(lt_iff a b).mpr ⟨ha, hb, hk⟩] at h; cases h

theorem lt_of_not_le (a b : α) (ha : Scalar.isNaN a = false) (hb : Scalar.isNaN b = false)
    (h : Scalar.le b a = false) : Scalar.lt a b = true := by
  cases h' : Scalar.lt a b
  · rw [le_of_not_lt a b ha hb h'] at h; cases h
  · rfl

/-- trichotomy on numbers. -/
theorem lt_trichotomy (a b : α) (ha : Scalar.isNaN a = false) (hb : Scalar.isNaN b = false) :
    Scalar.lt a b = true ∨ Scalar.eq a b = true ∨ Scalar.lt b a = true := by
  rcases klt_tri (key (up a)) (key (up b)) with h | h | h
  · exact Or.inl ((lt_iff a b).mpr ⟨ha, hb, h⟩)
  · exact Or.inr (Or.inl ((eq_iff a b).mpr ⟨ha, hb, h⟩))
  · exact Or.inr (Or.inr ((lt_iff b a).mpr ⟨hb, ha, h⟩))

theorem le_total (a b : α) (ha : Scalar.isNaN a = false) (hb : Scalar.isNaN b = false) :
    Scalar.le a b = true ∨ Scalar.le b a = true := by
  cases h : Scalar.lt b a
  · exact Or.inl (le_of_not_lt b a hb ha h)
  · exact Or.inr (le_of_lt b a h)

theorem le_trans (a b c : α) (h1 : Scalar.le a b = true) (h2 : Scalar.le b c = true) : Scalar.le a c = true := by
  obtain ⟨ha, _, hab⟩ := (le_iff a b).mp h1
  obtain ⟨_, hc, hbc⟩ := (le_iff b c).mp h2
  refine (le_iff a c).mpr ⟨ha, hc, fun hk => ?_⟩
  rcases klt_tri (key (up b)) (key (up a)) with h | h | h
  · exact hab h
  · exact hbc (h ▸ hk)
  · exact hbc (klt_trans hk h)

theorem lt_of_le_of_lt (a b c : α) (h1 : Scalar.le a b = true) (h2 : Scalar.lt b c = true) : Scalar.lt a c = true := by
  obtain ⟨ha, _, hab⟩ := (le_iff a b).mp h1
  obtain ⟨_, hc, hbc⟩ := (lt_iff b c).mp h2
  refine (lt_iff a c).mpr ⟨ha, hc, ?_⟩
  rcases klt_tri (key (up a)) (key (up b)) with h | h | h
  · exact klt_trans h hbc
  · exact h ▸ hbc
  · exact absurd h hab

theorem lt_of_lt_of_le (a b c : α) (h1 : Scalar.lt a b = true) (h2 : Scalar.le b c = true) : Scalar.lt a c = true := by
  obtain ⟨ha, _, hab⟩ := (lt_iff a b).mp h1
  obtain ⟨_, hc, hbc⟩ := (le_iff b c).mp h2
  refine (lt_iff a c).mpr ⟨ha, hc, ?_⟩
  rcases klt_tri (key (up b)) (key (up c)) with h | h | h
  · exact klt_trans hab h
  · exact h ▸ hab
  · exact absurd h hbc

/-- `¬ y < x` (i.e. `x ≤ y` for a number `x`), `y < z` ⇒ `x < z` — the form used by the break walk of C15. -/
theorem lt_of_not_lt_of_lt (x y z : α) (hx : Scalar.isNaN x = false)
    (h1 : Scalar.lt y x = false) (h2 : Scalar.lt y z = true) : Scalar.lt x z = true :=
  lt_of_le_of_lt x y z (le_of_not_lt y x (not_nan_of_lt h2).1 hx h1) h2

/-- `¬ >` is transitive on numbers. -/
theorem not_lt_trans (x y z : α) (hx : Scalar.isNaN x = false) (hy : Scalar.isNaN y = false)
    (hz : Scalar.isNaN z = false) (h1 : Scalar.lt y x = false) (h2 : Scalar.lt z y = false) :
    Scalar.lt z x = false :=
  not_lt_of_le x z (le_trans x y z (le_of_not_lt y x hy hx h1) (le_of_not_lt z y hz hy h2))

/-- `==` is compatible with `<`. -/
theorem lt_congr_left (a b c : α) (h : Scalar.eq a b = true) : Scalar.lt a c = Scalar.lt b c := by
  obtain ⟨ha, hb, hk⟩ := (eq_iff a b).mp h
  rw [Bool.eq_iff_iff, lt_iff, lt_iff, hk, ha, hb]

theorem lt_congr_right (a b c : α) (h : Scalar.eq a b = true) : Scalar.lt c a = Scalar.lt c b := by
  obtain ⟨ha, hb, hk⟩ := (eq_iff a b).mp h
  rw [Bool.eq_iff_iff, lt_iff, lt_iff, hk, ha, hb]

/-! ### `max`, `min`, `clamp` -/

omit [IeeeOrd α] in
/-- `f64::max` returns one of its arguments. -/
theorem max_cases (a b : α) : Scalar.max a b = a ∨ Scalar.max a b = b := by
  unfold Scalar.max; split
  · exact Or.inr rfl
  · split
    · exact Or.inr rfl
    · exact Or.inl rfl

/-- `max a b` is not below a number `a`, and not below a number `b`. -/
theorem max_not_lt_left (a b : α) (ha : Scalar.isNaN a = false) : Scalar.lt (Scalar.max a b) a = false := by
  unfold Scalar.max
  cases h : Scalar.lt a b
  · simp [ha, lt_irrefl]
  · simp [lt_asymm a b h]

theorem max_not_lt_right (a b : α) : Scalar.lt (Scalar.max a b) b = false := by
  unfold Scalar.max
  cases h : Scalar.lt a b
  · cases hn : Scalar.isNaN a
    · simpa using h
    · simp [lt_irrefl]
  · simp [lt_irrefl]

omit [IeeeOrd α] in
/-- `max` of anything and a number is a number (a NaN operand is ignored). -/
theorem max_not_nan_right (a b : α) (hb : Scalar.isNaN b = false) : Scalar.isNaN (Scalar.max a b) = false := by
  unfold Scalar.max
  cases h : Scalar.lt a b
  · cases hn : Scalar.isNaN a
    · simpa using hn
    · simpa using hb
  · simpa using hb

/-- `a <= max a b` and `b <= max a b` when `b` is a number and `a` is any value / a number. -/
theorem le_max_right (a b : α) (hb : Scalar.isNaN b = false) : Scalar.le b (Scalar.max a b) = true :=
  le_of_not_lt _ _ (max_not_nan_right a b hb) hb (max_not_lt_right a b)

theorem le_max_left (a b : α) (ha : Scalar.isNaN a = false) (hb : Scalar.isNaN b = false) :
    Scalar.le a (Scalar.max a b) = true :=
  le_of_not_lt _ _ (max_not_nan_right a b hb) ha (max_not_lt_left a b ha)

theorem min_not_gt_right (a b : α) : Scalar.lt b (Scalar.min a b) = false := by
  unfold Scalar.min
  cases h : Scalar.lt b a
  · cases hn : Scalar.isNaN a
    · simpa using h
    · simp [lt_irrefl]
  · simp [lt_irrefl]

theorem min_not_gt_left (a b : α) (ha : Scalar.isNaN a = false) : Scalar.lt a (Scalar.min a b) = false := by
  unfold Scalar.min
  cases h : Scalar.lt b a
  · simp [ha, lt_irrefl]
  · simp [lt_asymm b a h]

/-- `clamp x lo hi` with `¬ hi < lo` (in particular `lo ≤ hi`) is never below `lo` and never above `hi`, and is `x` or a
bound — NaN `x` included (a NaN goes through unchanged, and is neither below nor above anything). -/
theorem clamp_within (x lo hi : α) (h : Scalar.lt hi lo = false) :
    Scalar.lt (Scalar.clamp x lo hi) lo = false ∧ Scalar.lt hi (Scalar.clamp x lo hi) = false := by
  unfold Scalar.clamp
  cases h1 : Scalar.lt x lo
  · cases h2 : Scalar.lt hi x
    · simp [h1, h2]
    · simp [h2, h, lt_irrefl]
  · simp [h, lt_irrefl]

/-- for a number `x` and numbers `lo ≤ hi`: `lo <= clamp x lo hi <= hi`. -/
theorem clamp_between (x lo hi : α) (hx : Scalar.isNaN x = false) (hlo : Scalar.isNaN lo = false)
    (hhi : Scalar.isNaN hi = false) (h : Scalar.lt hi lo = false) :
    Scalar.le lo (Scalar.clamp x lo hi) = true ∧ Scalar.le (Scalar.clamp x lo hi) hi = true := by
  have hc : Scalar.isNaN (Scalar.clamp x lo hi) = false := by
    unfold Scalar.clamp; simp only []; split <;> split <;> assumption
  exact ⟨le_of_not_lt _ _ hc hlo (clamp_within x lo hi h).1, le_of_not_lt _ _ hhi hc (clamp_within x lo hi h).2⟩

end Laws

/-! ## 3. `x − x` -/

theorem usub_self_finite (spec : Format) (u : UF) (h : u.isFinite = true) :
    UnpackedFloat.sub spec u u = .zero .positive := by
  rcases u with s|_|s|⟨s,m,e,hm⟩
  · cases h
  · cases h
  · cases s <;> rfl
  · simp [UnpackedFloat.sub, UnpackedFloat.normalize]

theorem usub_self_nonfinite (spec : Format) (u : UF) (h : u.isFinite = false) :
    UnpackedFloat.sub spec u u = .notANumber := by
  rcases u with s|_|s|⟨s,m,e,hm⟩
  · cases s <;> rfl
  · rfl
  · cases h
  · cases h

/-- `+0.0`. -/
def pzero64 : Float := Float.ofModel (Float.Model.pack (.zero .positive))
def pzero32 : Float32 := Float32.ofModel (Float32.Model.pack (.zero .positive))
/-- the canonical NaN. -/
def nan64 : Float := Float.ofModel (Float.Model.pack .notANumber)
def nan32 : Float32 := Float32.ofModel (Float32.Model.pack .notANumber)

/-- **`x − x = +0` for every finite `x`** (an equality of `Float`s, i.e. of bit patterns). -/
theorem sub_self_float (x : Float) (h : x.toModel.unpack.isFinite = true) : x - x = pzero64 := by
  rw [sub_float, usub_self_finite _ _ h]; rfl

theorem sub_self_float32 (x : Float32) (h : x.toModel.unpack.isFinite = true) : x - x = pzero32 := by
  rw [sub_float32, usub_self_finite _ _ h]; rfl

/-- `x − x` is NaN for `±∞` and NaN. -/
theorem sub_self_nonfinite_float (x : Float) (h : x.toModel.unpack.isFinite = false) : x - x = nan64 := by
  rw [sub_float, usub_self_nonfinite _ _ h]; rfl

theorem sub_self_nonfinite_float32 (x : Float32) (h : x.toModel.unpack.isFinite = false) : x - x = nan32 := by
  rw [sub_float32, usub_self_nonfinite _ _ h]; rfl

/-- `|+0| < ε`, `|+0| ≥ ε` is false, `|+0|` is `== 0` (closed terms, evaluated by the kernel). -/
theorem abs_pzero64_lt_eps : Scalar.lt (Scalar.abs pzero64) (Scalar.eps : Float) = true := by decide +kernel
theorem abs_pzero32_lt_eps : Scalar.lt (Scalar.abs pzero32) (Scalar.eps : Float32) = true := by decide +kernel
theorem abs_pzero64_ge_eps : Scalar.ge (Scalar.abs pzero64) (Scalar.eps : Float) = false := by decide +kernel
theorem abs_pzero32_ge_eps : Scalar.ge (Scalar.abs pzero32) (Scalar.eps : Float32) = false := by decide +kernel
theorem abs_pzero64_eq_zero : Scalar.eq (Scalar.abs pzero64) (0 : Float) = true := by decide +kernel
theorem abs_pzero32_eq_zero : Scalar.eq (Scalar.abs pzero32) (0 : Float32) = true := by decide +kernel
theorem abs_nan64_lt_eps : Scalar.lt (Scalar.abs nan64) (Scalar.eps : Float) = false := by decide +kernel
theorem abs_nan32_lt_eps : Scalar.lt (Scalar.abs nan32) (Scalar.eps : Float32) = false := by decide +kernel

/-- **`|x − x| < ε` for every finite `x`**, and it fails for `±∞` / NaN. -/
theorem abs_sub_self_lt_eps_float (x : Float) (h : x.toModel.unpack.isFinite = true) :
    Scalar.lt (Scalar.abs (x - x)) (Scalar.eps : Float) = true := by
  rw [sub_self_float x h]; exact abs_pzero64_lt_eps

theorem abs_sub_self_lt_eps_float32 (x : Float32) (h : x.toModel.unpack.isFinite = true) :
    Scalar.lt (Scalar.abs (x - x)) (Scalar.eps : Float32) = true := by
  rw [sub_self_float32 x h]; exact abs_pzero32_lt_eps

theorem abs_sub_self_not_lt_eps_float (x : Float) (h : x.toModel.unpack.isFinite = false) :
    Scalar.lt (Scalar.abs (x - x)) (Scalar.eps : Float) = false := by
  rw [sub_self_nonfinite_float x h]; exact abs_nan64_lt_eps

theorem abs_sub_self_not_lt_eps_float32 (x : Float32) (h : x.toModel.unpack.isFinite = false) :
    Scalar.lt (Scalar.abs (x - x)) (Scalar.eps : Float32) = false := by
  rw [sub_self_nonfinite_float32 x h]; exact abs_nan32_lt_eps

/-! ### finiteness from order: a number strictly between two finite values is finite -/

theorem ufinite_of_bounds (lo hi x : UF) (hlo : lo.isFinite = true) (hhi : hi.isFinite = true)
    (hx : x.isNaN = false) (h1 : x.lt lo = false) (h2 : hi.lt x = false) : x.isFinite = true := by
  rcases x with s|_|s|⟨s,m,e,hm⟩
  · cases s
    · -- −∞ < lo
      have : UnpackedFloat.lt (.infinity .negative) lo = true := by
        rcases lo with s'|_|s'|⟨s',m',e',hm'⟩ <;> first | rfl | (cases s' <;> rfl) | cases hlo
      rw [this] at h1; cases h1
    · have : UnpackedFloat.lt hi (.infinity .positive) = true := by
        rcases hi with s'|_|s'|⟨s',m',e',hm'⟩ <;> first | rfl | (cases s' <;> rfl) | cases hhi
      rw [this] at h2; cases h2
  · cases hx
  · rfl
  · rfl

/-- a non-NaN `x` with `¬ x < lo` and `¬ hi < x` for finite `lo`, `hi` is finite. -/
theorem finite_of_bounds_float (lo hi x : Float) (hlo : lo.toModel.unpack.isFinite = true)
    (hhi : hi.toModel.unpack.isFinite = true) (hx : Scalar.isNaN x = false)
    (h1 : Scalar.lt x lo = false) (h2 : Scalar.lt hi x = false) : x.toModel.unpack.isFinite = true :=
  ufinite_of_bounds _ _ _ hlo hhi hx (by rw [← lt_float]; exact h1) (by rw [← lt_float]; exact h2)

theorem finite_of_bounds_float32 (lo hi x : Float32) (hlo : lo.toModel.unpack.isFinite = true)
    (hhi : hi.toModel.unpack.isFinite = true) (hx : Scalar.isNaN x = false)
    (h1 : Scalar.lt x lo = false) (h2 : Scalar.lt hi x = false) : x.toModel.unpack.isFinite = true :=
  ufinite_of_bounds _ _ _ hlo hhi hx (by rw [← lt_float32]; exact h1) (by rw [← lt_float32]; exact h2)

/-! ## 4. NaN-ness through `pack` / `unpack`, negation, absolute value and division -/

open Float.Model.UnpackedFloat in
theorem unpack_isNaN (spec : Format) (b : BitVec spec.numBits) :
    (UnpackedFloat.unpack spec b).isNaN = (decide (unpackExponent b = -1#_) && !decide (unpackMantissa b = 0#_)) := by
  unfold UnpackedFloat.unpack
  simp only []
  split
  · split <;> simp_all [UnpackedFloat.isNaN]
  · split
    · split <;> simp_all [UnpackedFloat.isNaN]
    · simp_all [UnpackedFloat.isNaN]

open Float.Model.UnpackedFloat in
/-- packing and unpacking again keeps NaN-ness (an overflowing finite value becomes `±∞`, never NaN). -/
theorem unpack_pack_isNaN (spec : Format) (u : UF) :
    (UnpackedFloat.unpack spec (UnpackedFloat.pack spec u)).isNaN = u.isNaN := by
  rw [unpack_isNaN]
  fun_cases UnpackedFloat.pack with
  | case1 =>
    simp [packedNaN, UnpackedFloat.isNaN]
    intro e
    have h1 := congrArg BitVec.toNat e
    have hm := spec.hm
    have : 2 ^ (spec.mantissaBitsWithoutImplicit - 1) < 2 ^ spec.mantissaBitsWithoutImplicit :=
      Nat.pow_lt_pow_right (by decide) (by omega)
    have hp : 0 < 2 ^ (spec.mantissaBitsWithoutImplicit - 1) := Nat.pow_pos (by decide)
    simp [BitVec.toNat_shiftLeft, Nat.shiftLeft_eq, Nat.mod_eq_of_lt this] at h1
  | case2 s => simp [packedInfinity, UnpackedFloat.isNaN]
  | case3 s => simp [packedZero, UnpackedFloat.isNaN]
  | case4 s m e hm biasedExponent h => simp [packedInfinity, UnpackedFloat.isNaN]
  | case5 s m e hm actualMantissaBits biasedExponent h₁ h₂ =>
    simp [UnpackedFloat.isNaN]
    intro e
    exfalso
    have h1 := congrArg BitVec.toNat e
    simp [BitVec.neg_one_eq_allOnes] at h1
    rw [Nat.mod_eq_of_lt (by omega)] at h1
    omega
  | case6 s m e hm actualMantissaBits biasedExponent h₁ h₂ =>
    simp [UnpackedFloat.isNaN]
    intro e
    have := spec.he
    omega

theorem pack_isNaN_float (u : UF) : Scalar.isNaN (Float.ofModel (Float.Model.pack u)) = u.isNaN :=
  unpack_pack_isNaN Format.binary64 u

theorem pack_isNaN_float32 (u : UF) : Scalar.isNaN (Float32.ofModel (Float32.Model.pack u)) = u.isNaN :=
  unpack_pack_isNaN Format.binary32 u

theorem uneg_isNaN (u : UF) : u.neg.isNaN = u.isNaN := by cases u <;> rfl
theorem uabs_isNaN (u : UF) : u.abs.isNaN = u.isNaN := by cases u <;> rfl

/-- negation and `abs` keep NaN-ness. -/
theorem isNaN_neg_float (x : Float) : Scalar.isNaN (-x) = Scalar.isNaN x := by
  rw [neg_float, pack_isNaN_float, uneg_isNaN]; rfl
theorem isNaN_neg_float32 (x : Float32) : Scalar.isNaN (-x) = Scalar.isNaN x := by
  rw [neg_float32, pack_isNaN_float32, uneg_isNaN]; rfl
theorem isNaN_abs_float (x : Float) : Scalar.isNaN (Scalar.abs x) = Scalar.isNaN x := by
  rw [abs_float, pack_isNaN_float, uabs_isNaN]; rfl
theorem isNaN_abs_float32 (x : Float32) : Scalar.isNaN (Scalar.abs x) = Scalar.isNaN x := by
  rw [abs_float32, pack_isNaN_float32, uabs_isNaN]; rfl

open Float.Model.UnpackedFloat in
/-- rounding a finite value gives a zero or a finite value — never a NaN (no statement about *which* value). -/
theorem roundWithAccuracy_not_nan (spec : Format) (s : Sign) (m : Nat) (e : Int) (acc : Accuracy) :
    (roundWithAccuracy spec s m e acc).isNaN = false := by
  unfold roundWithAccuracy
  simp only []
  split <;> rfl

/-- finite and not zero. -/
def isFiniteNonzero : UF → Bool
  | .finite .. => true
  | _ => false

/-- a finite non-zero numerator over a number is a number (`c/±0 = ±∞`, `c/±∞ = ±0`). -/
theorem udiv_not_nan (spec : Format) (c y : UF) (hc : isFiniteNonzero c = true) (hy : y.isNaN = false) :
    (UnpackedFloat.div spec c y).isNaN = false := by
  rcases c with s|_|s|⟨s,m,e,hm⟩
  · cases hc
  · cases hc
  · cases hc
  · rcases y with s'|_|s'|⟨s',m',e',hm'⟩
    · rfl
    · cases hy
    · rfl
    · simp only [UnpackedFloat.div]
      exact roundWithAccuracy_not_nan _ _ _ _ _

theorem isNaN_div_float (c y : Float) (hc : isFiniteNonzero c.toModel.unpack = true) (hy : Scalar.isNaN y = false) :
    Scalar.isNaN (c / y) = false := by
  rw [div_float, pack_isNaN_float]; exact udiv_not_nan _ _ _ hc hy

theorem isNaN_div_float32 (c y : Float32) (hc : isFiniteNonzero c.toModel.unpack = true) (hy : Scalar.isNaN y = false) :
    Scalar.isNaN (c / y) = false := by
  rw [div_float32, pack_isNaN_float32]; exact udiv_not_nan _ _ _ hc hy

end Rosu.FMO
