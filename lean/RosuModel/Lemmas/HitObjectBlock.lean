/-
  Lemmas/HitObjectBlock.lean — the `[HitObjects]` block of a map all of whose objects are representable
  (`RepObject`: `RepCircle` / `RepSlider` / `RepSpinner` / `RepHold`): the block is LF-terminated record lines, one per
  object, and `parse_hit_objects` run over them from any state accepts every line and appends, in order, one object of
  the same kind at the same start time per line (`block_lines`).
-/
import RosuModel.Lemmas.SliderObject
import RosuModel.Lemmas.RtFile
set_option linter.unusedSectionVars false
namespace Rosu
namespace SliderRt
open Rosu Encode EncodeLines Scalar RtObjects C11

section
variable {F P : Type} [Scalar F] [Scalar P] [Cvt P F] [Trig F] [Trig P] {RF : F → Prop} {RP : P → Prop}

/-- a hit object the line format carries (for a slider: with the length `dist` that is written). -/
inductive RepObject (RF : F → Prop) (RP : P → Prop) (mode : GameMode) (h : HitObject F P) : Prop
  | circle (c : HitObjectCircle P) (hk : h.kind = .circle c) (hr : RepCircle RF RP mode h c)
  | slider (s : HitObjectSlider F P) (dist : F) (hk : h.kind = .slider s) (hr : RepSlider RF RP mode h s dist)
  | spinner (sp : HitObjectSpinner F P) (hk : h.kind = .spinner sp) (hr : RepSpinner RF RP mode h sp)
  | hold (ho : HitObjectHold F P) (hk : h.kind = .hold ho) (hr : RepHold RF RP mode h ho)

/-- the kind of an object. -/
def kindTag (k : HitObjectKind F P) : ObjClass :=
  match k with
  | .circle _ => .circle | .slider _ => .slider | .spinner _ => .spinner | .hold _ => .hold

/-- start time and kind of an object. -/
def timeKind (h : HitObject F P) : F × ObjClass := (h.startTime, kindTag h.kind)

/-- **one representable object**: its line (independent of the decoder state) is LF-free and a record line, and in any
state it is accepted and appends one object of the same kind at the same start time, leaving an empty `curve_points`
empty. -/
theorem object_line (LF : CodecLaws F RF) (LP : CodecLaws P RP) (LC : CoordLaws F P RP) (mode : GameMode) (h : HitObject F P)
    (hr : RepObject RF RP mode h) :
    ∃ l, encodeObject mode h = .ok (l ++ EncodeLines.nl) ∧ '\n' ∉ l ∧ RecordLine (trimEnd l) ∧
      ∀ st : HOCore F P, ∃ o, (parseHitObjectLine mode st (trimEnd l)).2 = true ∧
        (parseHitObjectLine mode st (trimEnd l)).1.hitObjects = st.hitObjects ++ [o] ∧ timeKind o = timeKind h ∧
        (st.curvePoints = [] → (parseHitObjectLine mode st (trimEnd l)).1.curvePoints = []) := by
  cases hr with
  | circle c hk hr =>
    refine ⟨circleLine mode h c, (circle_line_roundtrip LF LP mode h c hk hr {}).1,
      (circle_line_roundtrip LF LP mode h c hk hr {}).2.1, (circle_line_roundtrip LF LP mode h c hk hr {}).2.2.1, fun st => ?_⟩
    rw [(circle_line_roundtrip LF LP mode h c hk hr st).2.2.2]
    exact ⟨_, rfl, rfl, by simp [timeKind, kindTag, hk], fun h0 => h0⟩
  | slider s dist hk hr =>
    refine ⟨sliderLine mode h s dist, (slider_line_roundtrip LF LP LC mode h s dist hk hr {}).1,
      (slider_line_roundtrip LF LP LC mode h s dist hk hr {}).2.1, (slider_line_roundtrip LF LP LC mode h s dist hk hr {}).2.2.1,
      fun st => ?_⟩
    obtain ⟨vs, hp⟩ := (slider_line_roundtrip LF LP LC mode h s dist hk hr st).2.2.2
    rw [hp]
    exact ⟨_, rfl, rfl, by simp [timeKind, kindTag, hk], fun _ => rfl⟩
  | spinner sp hk hr =>
    refine ⟨spinnerLine mode h sp, (spinner_line_roundtrip LF LP mode h sp hk hr {}).1,
      (spinner_line_roundtrip LF LP mode h sp hk hr {}).2.1, (spinner_line_roundtrip LF LP mode h sp hk hr {}).2.2.1, fun st => ?_⟩
    rw [(spinner_line_roundtrip LF LP mode h sp hk hr st).2.2.2]
    exact ⟨_, rfl, rfl, by simp [timeKind, kindTag, hk], fun h0 => h0⟩
  | hold ho hk hr =>
    refine ⟨holdLine mode h ho, (hold_line_roundtrip LF LP mode h ho hk hr {}).1,
      (hold_line_roundtrip LF LP mode h ho hk hr {}).2.1, (hold_line_roundtrip LF LP mode h ho hk hr {}).2.2.1, fun st => ?_⟩
    rw [(hold_line_roundtrip LF LP mode h ho hk hr st).2.2.2]
    exact ⟨_, rfl, rfl, by simp [timeKind, kindTag, hk], fun h0 => h0⟩

/-- **the lines of a list of representable objects**: `encode_hit_objects`' loop writes one LF-terminated record line
per object; run through `parse_hit_objects` from any state, every line is accepted and the objects appended are, in
order, of the same kinds at the same start times. -/
theorem block_lines (LF : CodecLaws F RF) (LP : CodecLaws P RP) (LC : CoordLaws F P RP) (mode : GameMode) :
    ∀ objs : List (HitObject F P), (∀ h ∈ objs, RepObject RF RP mode h) →
      ∃ H : List Str, encodeObjects mode objs = .ok (unlines H) ∧ H.length = objs.length ∧
        (∀ l ∈ H, '\n' ∉ l ∧ RecordLine (trimEnd l)) ∧
        ∀ st : HOCore F P, Accepts (parseHitObjectLine mode) st (H.map trimEnd) ∧
          ∃ os, (runSection (parseHitObjectLine mode) st (H.map trimEnd)).hitObjects = st.hitObjects ++ os ∧
            os.map timeKind = objs.map timeKind ∧
            (st.curvePoints = [] → (runSection (parseHitObjectLine mode) st (H.map trimEnd)).curvePoints = []) := by
  intro objs
  induction objs with
  | nil =>
    intro _
    refine ⟨[], ?_, rfl, ?_, fun st => ⟨trivial, [], ?_, rfl, fun h => h⟩⟩
    · rw [encodeObjects]; rfl
    · intro l hl; cases hl
    · simp [runSection]
  | cons h rest ih =>
    intro hall
    obtain ⟨l, h1, h2, h3, h4⟩ := object_line LF LP LC mode h (hall h (by simp))
    obtain ⟨H, g1, g2, g3, g4⟩ := ih (fun x hx => hall x (by simp [hx]))
    refine ⟨l :: H, ?_, by simp [g2], ?_, fun st => ?_⟩
    · rw [encodeObjects]
      simp only [h1, g1, bind, Except.bind, pure, Except.pure, unlines_cons]
    · intro x hx
      rcases List.mem_cons.mp hx with hx | hx
      · subst hx; exact ⟨h2, h3⟩
      · exact g3 x hx
    · obtain ⟨o, a1, a2, a3, a4⟩ := h4 st
      obtain ⟨b1, os, b2, b3, b4⟩ := g4 (parseHitObjectLine mode st (trimEnd l)).1
      simp only [List.map_cons, Accepts, runSection_cons]
      refine ⟨⟨a1, b1⟩, o :: os, ?_, by simp [a3, b3], fun h0 => b4 (a4 h0)⟩
      rw [b2, a2]
      simp

end

end SliderRt
end Rosu
