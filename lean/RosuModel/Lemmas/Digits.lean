/-
  Lemmas/Digits.lean — the model's `Display for u32/i32` (`decDigits`, `intDigits`, Model/Num.lean) against
  the model's `FromStr for i32/u8` and rosu-map's `ParseNumber for i32`: printing then parsing is the identity,
  and printed integers consist of ASCII digits with at most a leading `-` (so they contain no separator and no
  white space and equal their own `trim`). Used by C02/C03/C04.
-/
import RosuModel.Model.Framing
namespace Rosu

/-- an ASCII digit. -/
def isDig (c : Char) : Bool := decide (48 ≤ c.toNat) && decide (c.toNat ≤ 57)

theorem isDig_iff (c : Char) : isDig c = true ↔ 48 ≤ c.toNat ∧ c.toNat ≤ 57 := by simp [isDig]

theorem digitChar_spec : ∀ d, d < 10 →
    digitVal (Char.ofNat ('0'.toNat + d)) = some d ∧ isDig (Char.ofNat ('0'.toNat + d)) = true := by decide

theorem toNat_ne {c d : Char} (h : c.toNat ≠ d.toNat) : c ≠ d := fun e => h (by rw [e])

/-- a digit is none of the characters that structure a line. -/
theorem isDig_ne {c : Char} (h : isDig c = true) (d : Char) (hd : d.toNat < 48 ∨ 57 < d.toNat) : c ≠ d := by
  rw [isDig_iff] at h
  apply toNat_ne
  omega

theorem isDig_not_ws {c : Char} (h : isDig c = true) : isWs c = false := by
  rw [isDig_iff] at h
  simp only [isWs, Bool.or_eq_false_iff, Bool.and_eq_false_iff, decide_eq_false_iff_not, beq_eq_false_iff_ne]
  omega

theorem isDig_digitVal {c : Char} (h : isDig c = true) : digitVal c = some (c.toNat - 48) := by
  rw [isDig_iff] at h
  unfold digitVal
  have h0 : '0'.toNat = 48 := rfl
  have h9 : '9'.toNat = 57 := rfl
  simp [h0, h9, h]

/-! ### `decDigits` -/

theorem decDigitsAux_parse (fuel n : Nat) (acc : Str) (h : n < fuel) :
    digitsAcc 0 (decDigitsAux fuel n acc) = digitsAcc n acc := by
  induction fuel generalizing n acc with
  | zero => omega
  | succ f ih =>
    unfold decDigitsAux
    by_cases hn : n < 10
    · have hd := (digitChar_spec n hn).1
      simp only [hn, if_true, Nat.mod_eq_of_lt hn, digitsAcc, hd]
      simp
    · simp only [hn, if_false]
      rw [ih (n / 10) _ (by omega)]
      have hd := (digitChar_spec (n % 10) (Nat.mod_lt _ (by omega))).1
      simp only [digitsAcc, hd]
      congr 1
      omega

theorem decDigitsAux_chars (fuel n : Nat) (acc : Str) :
    ∀ c ∈ decDigitsAux fuel n acc, isDig c = true ∨ c ∈ acc := by
  induction fuel generalizing n acc with
  | zero => intro c hc; exact Or.inr hc
  | succ f ih =>
    intro c hc
    unfold decDigitsAux at hc
    have hd := (digitChar_spec (n % 10) (Nat.mod_lt _ (by omega))).2
    by_cases hn : n < 10
    · simp only [hn, if_true] at hc
      cases hc with
      | head => exact Or.inl hd
      | tail _ h => exact Or.inr h
    · simp only [hn, if_false] at hc
      rcases ih _ _ c hc with h | h
      · exact Or.inl h
      · cases h with
        | head => exact Or.inl hd
        | tail _ h => exact Or.inr h

theorem decDigitsAux_ne_nil (fuel n : Nat) (acc : Str) : decDigitsAux (fuel + 1) n acc ≠ [] := by
  induction fuel generalizing n acc with
  | zero => unfold decDigitsAux; split <;> simp [decDigitsAux]
  | succ f ih =>
    unfold decDigitsAux
    split
    · simp
    · exact ih _ _

theorem decDigits_ne_nil (n : Nat) : decDigits n ≠ [] := decDigitsAux_ne_nil n n []

/-- every character of a printed natural number is an ASCII digit. -/
theorem decDigits_isDig (n : Nat) : ∀ c ∈ decDigits n, isDig c = true := by
  intro c hc
  rcases decDigitsAux_chars _ _ _ c hc with h | h
  · exact h
  · cases h

/-- **parseDigits ∘ decDigits = some**: `Display for u32` then digit parsing. -/
theorem parseDigits_decDigits (n : Nat) : parseDigits (decDigits n) = some n := by
  have h := decDigitsAux_parse (n + 1) n [] (by omega)
  have hne := decDigits_ne_nil n
  unfold decDigits at hne ⊢
  cases hd : decDigitsAux (n + 1) n [] with
  | nil => exact absurd hd hne
  | cons c r =>
    rw [hd] at h
    simpa [parseDigits, digitsAcc] using h

theorem decDigits_head (n : Nat) : ∃ c r, decDigits n = c :: r ∧ isDig c = true := by
  cases hd : decDigits n with
  | nil => exact absurd hd (decDigits_ne_nil n)
  | cons c r => exact ⟨c, r, rfl, decDigits_isDig n c (by rw [hd]; simp)⟩

/-! ### white space and `trim` of white-space-free text -/

theorem trimStart_of_head {c : Char} {r : Str} (h : isWs c = false) : trimStart (c :: r) = c :: r := by
  simp [trimStart, h]

theorem trimEnd_cons_of_not_ws {c : Char} (r : Str) (h : isWs c = false) : trimEnd (c :: r) = c :: trimEnd r := by
  rw [trimEnd]
  cases trimEnd r <;> simp [h]

theorem trimEnd_cons_of_ne_nil (c : Char) {r : Str} (h : trimEnd r ≠ []) : trimEnd (c :: r) = c :: trimEnd r := by
  rw [trimEnd]
  cases hr : trimEnd r with
  | nil => exact absurd hr h
  | cons x xs => rfl

theorem trimEnd_no_ws (s : Str) (h : ∀ c ∈ s, isWs c = false) : trimEnd s = s := by
  induction s with
  | nil => rfl
  | cons c r ih =>
    rw [trimEnd_cons_of_not_ws r (h c (by simp)), ih (fun d hd => h d (by simp [hd]))]

/-- a text without white space is its own `trim`. -/
theorem trim_no_ws (s : Str) (h : ∀ c ∈ s, isWs c = false) : trim s = s := by
  unfold trim
  cases s with
  | nil => rfl
  | cons c r => rw [trimStart_of_head (h c (by simp)), trimEnd_no_ws _ h]

/-! ### `intDigits` -/

/-- the characters of a printed `i32`: ASCII digits, or the sign. -/
theorem intDigits_chars (v : Int) : ∀ c ∈ intDigits v, isDig c = true ∨ c = '-' := by
  intro c hc
  unfold intDigits at hc
  split at hc
  · cases hc with
    | head => exact Or.inr rfl
    | tail _ h => exact Or.inl (decDigits_isDig _ c h)
  · exact Or.inl (decDigits_isDig _ c hc)

theorem intDigits_ne_nil (v : Int) : intDigits v ≠ [] := by
  unfold intDigits
  split
  · simp
  · exact decDigits_ne_nil _

/-- a printed integer contains none of `, : | / " [ ]`, line feed, blank, letters … : anything that is
neither a digit nor `-`. -/
theorem intDigits_not_mem (v : Int) (d : Char) (hd : d.toNat < 45 ∨ (45 < d.toNat ∧ d.toNat < 48) ∨ 57 < d.toNat) :
    d ∉ intDigits v := by
  intro hm
  rcases intDigits_chars v d hm with h | h
  · rw [isDig_iff] at h; omega
  · subst h
    have : '-'.toNat = 45 := rfl
    omega

theorem decDigits_not_mem (n : Nat) (d : Char) (hd : d.toNat < 48 ∨ 57 < d.toNat) : d ∉ decDigits n := by
  intro hm
  have h := decDigits_isDig n d hm
  rw [isDig_iff] at h
  omega

theorem intDigits_no_ws (v : Int) : ∀ c ∈ intDigits v, isWs c = false := by
  intro c hc
  rcases intDigits_chars v c hc with h | h
  · exact isDig_not_ws h
  · subst h; decide

theorem decDigits_no_ws (n : Nat) : ∀ c ∈ decDigits n, isWs c = false :=
  fun c hc => isDig_not_ws (decDigits_isDig n c hc)

/-- printed integers are their own `trim`. -/
theorem trim_intDigits (v : Int) : trim (intDigits v) = intDigits v := trim_no_ws _ (intDigits_no_ws v)
theorem trim_decDigits (n : Nat) : trim (decDigits n) = decDigits n := trim_no_ws _ (decDigits_no_ws n)

/-- **`i32::from_str (v.to_string()) = Ok(v)`** for every `i32`. -/
theorem i32FromStr_intDigits (v : Int) (hlo : i32Min ≤ v) (hhi : v ≤ i32Max) :
    i32FromStr (intDigits v) = some v := by
  unfold intDigits
  by_cases hneg : v < 0
  · simp only [hneg, if_true, i32FromStr, beq_self_eq_true, parseDigits_decDigits]
    have : ¬ (-(v.natAbs : Int) < i32Min) := by unfold i32Min at *; omega
    simp only [this, if_false]
    congr 1
    omega
  · simp only [hneg, if_false]
    obtain ⟨c, r, hcr, hc⟩ := decDigits_head v.natAbs
    have hp := parseDigits_decDigits v.natAbs
    rw [hcr] at hp ⊢
    have h1 : (c == '-') = false := by simpa using isDig_ne hc '-' (by decide)
    have h2 : (c == '+') = false := by simpa using isDig_ne hc '+' (by decide)
    simp only [i32FromStr, h1, h2, Bool.false_eq_true, if_false, hp]
    have : ¬ ((v.natAbs : Int) > i32Max) := by unfold i32Max at *; omega
    simp only [this, if_false]
    congr 1
    omega

/-- **`i32::parse (v.to_string()) = Ok(v)`** for every `v` within rosu-map's parse limit ±(2³¹−1). -/
theorem i32Parse_intDigits (v : Int) (hlo : -i32Max ≤ v) (hhi : v ≤ i32Max) :
    i32Parse (intDigits v) = some v := by
  unfold i32Parse i32ParseWithLimits
  rw [trim_intDigits, i32FromStr_intDigits v (by unfold i32Min i32Max at *; omega) hhi]
  have h1 : ¬ v < -i32Max := by omega
  have h2 : ¬ v > i32Max := by omega
  simp [h1, h2]

/-- the error-carrying variant used by `[General]` and the timing points. -/
theorem i32FromStr_decDigits (n : Nat) (h : (n : Int) ≤ i32Max) : i32FromStr (decDigits n) = some (n : Int) := by
  have := i32FromStr_intDigits (n : Int) (by unfold i32Min; omega) h
  have hn : ¬ ((n : Int) < 0) := by omega
  simpa [intDigits, hn] using this

/-- **`u8::from_str (n.to_string()) = Ok(n)`** for `n ≤ 255`. -/
theorem u8FromStr_decDigits (n : Nat) (h : n ≤ 255) : u8FromStr (decDigits n) = some n := by
  obtain ⟨c, r, hcr, hc⟩ := decDigits_head n
  have hp := parseDigits_decDigits n
  rw [hcr] at hp ⊢
  have h2 : (c == '+') = false := by simpa using isDig_ne hc '+' (by decide)
  have : ¬ n > 255 := by omega
  simp [u8FromStr, h2, hp, this]

example : intDigits (-2147483648) = str "-2147483648" ∧ decDigits 0 = str "0" ∧ intDigits 14 = str "14" := by decide

/-! ### the version line -/

theorem startsWith_append (p s : Str) : startsWith (p ++ s) p = true := by
  induction p with
  | nil => cases s <;> rfl
  | cons c p ih => simp [startsWith, ih]

theorem splitOn_no_sep (sep : Char) (s : Str) (h : sep ∉ s) : splitOn sep s = [s] := by
  induction s with
  | nil => rfl
  | cons c cs ih =>
    have hc : (c == sep) = false := by simpa using fun e : c = sep => h (by simp [e])
    have hcs : sep ∉ cs := fun e => h (by simp [e])
    simp [splitOn, hc, ih hcs]

/-- `str::split(sep)`: the text up to the first separator is the first piece. -/
theorem splitOn_append_sep (sep : Char) (a b : Str) (h : sep ∉ a) :
    splitOn sep (a ++ sep :: b) = a :: splitOn sep b := by
  induction a with
  | nil => simp [splitOn]
  | cons c cs ih =>
    have hc : (c == sep) = false := by simpa using fun e : c = sep => h (by simp [e])
    have hcs : sep ∉ cs := fun e => h (by simp [e])
    simp [splitOn, hc, ih hcs]

theorem splitOn_ne_nil (sep : Char) (s : Str) : splitOn sep s ≠ [] := by
  cases s with
  | nil => simp [splitOn]
  | cons c cs =>
    simp only [splitOn]
    split
    · simp
    · split <;> simp

/-- `str::split(sep)` is compositional at a separator. -/
theorem splitOn_append (sep : Char) (a b : Str) :
    splitOn sep (a ++ sep :: b) = splitOn sep a ++ splitOn sep b := by
  induction a with
  | nil => simp [splitOn]
  | cons c cs ih =>
    simp only [List.cons_append, splitOn, ih]
    by_cases hc : (c == sep) = true
    · simp [hc]
    · simp only [hc]
      cases hs : splitOn sep cs with
      | nil => exact absurd hs (splitOn_ne_nil sep cs)
      | cons p ps => rfl

theorem splitOn_getLast_append (sep : Char) (a b : Str) :
    (splitOn sep (a ++ sep :: b)).getLast? = (splitOn sep b).getLast? := by
  rw [splitOn_append, List.getLast?_append]
  cases hs : splitOn sep b with
  | nil => exact absurd hs (splitOn_ne_nil sep b)
  | cons p ps => cases h : (p :: ps).getLast? <;> simp_all

theorem afterLast_append (sep : Char) (a b : Str) (h : sep ∉ b) : afterLast sep (a ++ sep :: b) = b := by
  unfold afterLast
  rw [splitOn_getLast_append, splitOn_no_sep sep b h]
  rfl

/-- **version_line_parses**: the first line the encoder writes is read back as exactly that version, for
every version the decoder can have produced (a parsed `i32` within ±(2³¹−1), or the default 14). -/
theorem version_line_parses (v : Int) (hlo : -i32Max ≤ v) (hhi : v ≤ i32Max) :
    tryVersionFromLine (str "osu file format v" ++ intDigits v) = .found v := by
  unfold tryVersionFromLine
  have h1 : startsWith (str "osu file format v" ++ intDigits v) versionPrefix = true := startsWith_append _ _
  have h2 : afterLast 'v' (str "osu file format v" ++ intDigits v) = intDigits v := by
    have : str "osu file format v" ++ intDigits v = str "osu file format " ++ 'v' :: intDigits v := by
      simp [str]
    rw [this]
    exact afterLast_append 'v' _ _ (intDigits_not_mem v 'v' (by decide))
  simp [h1, h2, i32Parse_intDigits v hlo hhi]

example : tryVersionFromLine (str "osu file format v" ++ intDigits 128) = .found 128 :=
  version_line_parses 128 (by decide) (by decide)

end Rosu
