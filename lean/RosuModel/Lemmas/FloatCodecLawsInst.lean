/-
  Lemmas/FloatCodecLawsInst.lean — the codec laws (Lemmas/CodecLaws.lean) for the scalar instances the driver runs,
  `Float` (binary64) and `Float32` (binary32) of Model/FloatInst.lean.
  `Scalar.print x = printBits fmt x.toBits.toNat` and `Scalar.parse s = (parseBits fmt s).map (ofBits ∘ ofNat)`, and
  `parseBits fmt (printBits fmt b) = some b` is a theorem for every non-NaN pattern (Lemmas/FloatCodecLawsRt.lean).
  What is left is to pass between a `Float` and its bit pattern. Lean's `Float` / `Float32` are opaque to the kernel
  (their operations are implemented by C `double` / `float`), so this step CANNOT be proved; it is taken as ONE
  explicit hypothesis per type, `FloatBitsLaw` / `Float32BitsLaw` (a `def … : Prop`, not an axiom):
      for every non-NaN `x`:  `ofBits (toBits x) = x`  and  `toBits x` is not a NaN pattern.
  It is a statement about Lean's runtime floats (IEEE-754 bit casts: `toBits`/`ofBits` are `memcpy`s, and a non-NaN
  double has exponent field < 0x7FF or mantissa field 0), not about rosu-map; it is exercised on every run by the
  codec differential (lib/codecgen.py, requests pf64/pf32/df64/df32: > 10^6 values through exactly these functions,
  compared bit for bit with Rust).
  `print_clean` / `print_ne_nil` need no hypothesis at all.
  `IntPrintLaw Float` (integral values print like integers, used for `AudioLeadIn`) is reduced in the same way to
  `FloatOfIntLaw`: the runtime's `Float.ofInt z` has the bit pattern `intBits fmt64 z` (the pattern `roundRat` — i.e.
  `parseBits` on the decimal digits — assigns to `z`; proved to have value `z` and to print as `intDigits z` in
  Lemmas/FloatCodecLawsInt.lean), for `z` in the `i32` range. Again a statement about Lean's runtime, not provable
  in the kernel; it is exercised by every correspondence run that encodes a map (`enc`, `rt`, `edit`).
  (`IntPrintLaw Float32` is false — 2³¹−1 is not a binary32 value — and is not used.)
-/
import RosuModel.Model.FloatInst
import RosuModel.Lemmas.FloatCodecLawsRt
import RosuModel.Lemmas.FloatCodecLawsInt
namespace Rosu
namespace FCL

/-- bit casts of a non-NaN `Float` (about Lean's runtime, not provable in the kernel). -/
def FloatBitsLaw : Prop :=
  ∀ x : Float, x.isNaN = false → Float.ofBits x.toBits = x ∧ x.toBits.toNat % 2 ^ 63 ≤ 0x7FF0000000000000

/-- bit casts of a non-NaN `Float32` (about Lean's runtime, not provable in the kernel). -/
def Float32BitsLaw : Prop :=
  ∀ x : Float32, x.isNaN = false → Float32.ofBits x.toBits = x ∧ x.toBits.toNat % 2 ^ 31 ≤ 0x7F800000

theorem float_print_eq (x : Float) : Scalar.print x = printBits fmt64 x.toBits.toNat := rfl
theorem float_parse_eq (s : Str) :
    (Scalar.parse s : Option Float) = (parseBits fmt64 s).map fun b => Float.ofBits (UInt64.ofNat b) := rfl
theorem float32_print_eq (x : Float32) : Scalar.print x = printBits fmt32 x.toBits.toNat := rfl
theorem float32_parse_eq (s : Str) :
    (Scalar.parse s : Option Float32) = (parseBits fmt32 s).map fun b => Float32.ofBits (UInt32.ofNat b) := rfl

/-- **the codec laws hold for the driver's `Float` instance**, on the non-NaN values, given the bit-cast law. -/
theorem codecLaws_float (h : FloatBitsLaw) : CodecLaws Float (fun x => x.isNaN = false) where
  parse_print := by
    intro x hx
    obtain ⟨h1, h2⟩ := h x hx
    rw [float_print_eq, float_parse_eq, parseBits_printBits_f64 _ h2 x.toBits.toNat_lt, Option.map_some,
      UInt64.ofNat_toNat, h1]
  print_clean := fun x _ => printBits_clean fmt64 _
  print_ne_nil := fun x _ => printBits_ne_nil fmt64 _

/-- **the codec laws hold for the driver's `Float32` instance**, on the non-NaN values, given the bit-cast law. -/
theorem codecLaws_float32 (h : Float32BitsLaw) : CodecLaws Float32 (fun x => x.isNaN = false) where
  parse_print := by
    intro x hx
    obtain ⟨h1, h2⟩ := h x hx
    rw [float32_print_eq, float32_parse_eq, parseBits_printBits_f32 _ h2 x.toBits.toNat_lt, Option.map_some,
      UInt32.ofNat_toNat, h1]
  print_clean := fun x _ => printBits_clean fmt32 _
  print_ne_nil := fun x _ => printBits_ne_nil fmt32 _

/-- the two laws that need no hypothesis, for every `Float` (NaN included). -/
theorem float_print_clean (x : Float) : ∀ c ∈ Scalar.print x, numChar c = true := printBits_clean fmt64 _
theorem float_print_ne_nil (x : Float) : Scalar.print x ≠ [] := printBits_ne_nil fmt64 _
theorem float32_print_clean (x : Float32) : ∀ c ∈ Scalar.print x, numChar c = true := printBits_clean fmt32 _
theorem float32_print_ne_nil (x : Float32) : Scalar.print x ≠ [] := printBits_ne_nil fmt32 _

/-- `Float.ofInt` on the `i32` range (about Lean's runtime, not provable in the kernel). -/
def FloatOfIntLaw : Prop :=
  ∀ z : Int, -i32Max ≤ z → z ≤ i32Max → (Float.ofInt z).toBits.toNat = intBits fmt64 z

/-- **`IntPrintLaw` for the driver's `Float`**, given the `ofInt` law. -/
theorem intPrintLaw_float (h : FloatOfIntLaw) : IntPrintLaw Float := by
  intro n h1 h2
  show printBits fmt64 (Float.ofInt n).toBits.toNat = intDigits n
  rw [h n h1 h2]
  exact printBits_intBits_f64 n (by unfold i32Max at *; omega)

example : intBits fmt64 (-2147483647) = 0xC1DFFFFFFFC00000 := by decide +kernel
example : intBits fmt64 0 = 0 := by decide +kernel
example : intBits fmt64 1 = 0x3FF0000000000000 := by decide +kernel

/-! ### concrete instances of the bit-level theorem (non-vacuity; evaluated by the kernel) -/

example : printBits fmt64 0x3FB999999999999A = str "0.1" := by decide +kernel
example : parseBits fmt64 (str "0.1") = some 0x3FB999999999999A := by decide +kernel
example : printBits fmt64 0xC1DFFFFFFFC00000 = str "-2147483647" := by decide +kernel
example : printBits fmt32 0x3DCCCCCD = str "0.1" := by decide +kernel
example : printBits fmt64 1 = str ("0." ++ String.ofList (List.replicate 323 '0') ++ "5") := by decide +kernel
example : parseBits fmt64 (printBits fmt64 0x7FEFFFFFFFFFFFFF) = some 0x7FEFFFFFFFFFFFFF :=
  parseBits_printBits_f64 _ (by decide) (by decide)

end FCL
end Rosu
