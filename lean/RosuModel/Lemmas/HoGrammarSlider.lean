/-
  Lemmas/HoGrammarSlider.lean — `slider_eq_reference`: the slider arm of the model parser against the
  reference grammar (`HoSpec.slider`), including what happens to the path buffer.
-/
import RosuModel.Lemmas.HoGrammarKinds
namespace Rosu.C14.HoSpec
open Rosu Scalar

set_option linter.unusedSectionVars false

variable {F P : Type} [Scalar F] [Scalar P] [Cvt P F]

theorem sampleFieldAt_of_get (fs : List Str) (i : Nat) (rest : List Str) (banksOnly : Bool) (h : fs[i]? = rest.head?) :
    sampleFieldAt fs i banksOnly =
      (match readExtras rest banksOnly with
       | (info, true) => some info
       | (_, false) => none) := by
  unfold sampleFieldAt readExtras
  rw [h]
  cases rest with
  | nil => rfl
  | cons s r => simp [sampleField_eq]; rfl

theorem nonEmptyField_eq (fs : List Str) (i : Nat) (o : Option Str) (h : fs[i]? = o) :
    nonEmptyField fs i = optNonEmpty o := by
  unfold nonEmptyField optNonEmpty
  rw [h]
  cases o <;> rfl

theorem lengthField_eq (rest2 : List Str) : (lengthField rest2[0]? : Option (Option F)) = parseLength rest2 := by
  unfold lengthField parseLength
  cases rest2 with
  | nil => rfl
  | cons next r =>
    simp only [List.getElem?_cons_zero, number_eq, maxCoordinate]
    cases (number next (Scalar.ofInt 131072) : Option F) <;> rfl

/-- the slider object the spec builds from the non-path fields and the control points. -/
def sliderOf (ctx : Ctx P) (hd : Head F P) (pre : SliderPrelude F) (cps : List (PathControlPoint P)) : Accepted F P :=
  accept hd (.slider
    { pos := ⟨hd.x, hd.y⟩, newCombo := startsCombo ctx hd.ty, comboOffset := comboOffset hd.ty
      path := { mode := ctx.mode, controlPoints := cps, expectedDist := pre.len }
      nodeSamples := pre.nodeSamples, repeatCount := pre.repeatCount, velocity := 1 }) pre.bankInfo

section
variable (a b c d e : Str)

/-- the non-path fields of a slider line: the model's prelude fails exactly when the spec rejects for a
reason other than the path, and otherwise the spec's verdict is the path's. -/
theorem sliderPrelude_eq (h : Header F P) :
    match (sliderPrelude h : Option (SliderPrelude F)) with
    | none => ∃ rj, rj ≠ .badPath ∧ ∀ ctx : Ctx P, slider ctx (toHead h (a :: b :: c :: d :: e :: h.rest)) = .error rj
    | some pre => ∀ ctx : Ctx P, slider ctx (toHead h (a :: b :: c :: d :: e :: h.rest)) =
        (match path F ctx.leftover h.pos pre.pointStr with
         | some cps => .ok (sliderOf ctx (toHead h (a :: b :: c :: d :: e :: h.rest)) pre cps)
         | none => .error .badPath) := by
  unfold sliderPrelude
  cases hr : h.rest with
  | nil => exact ⟨_, by decide, fun _ => rfl⟩
  | cons pointStr r1 =>
    cases r1 with
    | nil => exact ⟨_, by decide, fun _ => rfl⟩
    | cons repeatS rest2 =>
      simp only
      have h7 : (a :: b :: c :: d :: e :: pointStr :: repeatS :: rest2)[7]? = rest2[0]? := by simp
      have h8 : (a :: b :: c :: d :: e :: pointStr :: repeatS :: rest2)[8]? = (rest2.drop 1).head? := by
        simp
      have h9 : (a :: b :: c :: d :: e :: pointStr :: repeatS :: rest2)[9]? = (rest2.drop 2).head? := by
        simp [List.head?_drop]
      have h10 : (a :: b :: c :: d :: e :: pointStr :: repeatS :: rest2)[10]? = (rest2.drop 3).head? := by
        simp [List.head?_drop]
      have hx := sampleFieldAt_of_get _ 10 (rest2.drop 3) true h10
      have hn8 := nonEmptyField_eq _ 8 _ h8
      have hn9 := nonEmptyField_eq _ 9 _ h9
      cases hrc : i32Parse repeatS with
      | none =>
        refine ⟨.badRepeat, by decide, fun ctx => ?_⟩
        simp only [slider, toHead, List.getElem?_cons_zero, List.getElem?_cons_succ, need_some, ok_bind, hrc, need_none, error_bind]
      | some rc0 =>
        simp only
        by_cases hbig : rc0 > 9000
        · simp only [hbig, if_true]
          refine ⟨.repeatTooLarge, by decide, fun ctx => ?_⟩
          have : decide (rc0 ≤ 9000) = false := by simp; omega
          simp only [slider, toHead, List.getElem?_cons_zero, List.getElem?_cons_succ, need_some, ok_bind, hrc, this,
            check_false, error_bind]
        · have hle : decide (rc0 ≤ 9000) = true := by simp; omega
          simp only [hbig, if_false]
          cases hlen : (parseLength rest2 : Option (Option F)) with
          | none =>
            refine ⟨.badLength, by decide, fun ctx => ?_⟩
            simp only [slider, toHead, List.getElem?_cons_zero, List.getElem?_cons_succ, need_some, ok_bind, hrc, hle,
              check_true, h7, lengthField_eq, hlen, need_none, error_bind]
          | some len =>
            simp only
            cases hre : readExtras (rest2.drop 3) true with
            | mk info ok =>
              rw [hre] at hx
              cases ok with
              | false =>
                refine ⟨.badSampleTail, by decide, fun ctx => ?_⟩
                simp only [slider, toHead, List.getElem?_cons_zero, List.getElem?_cons_succ, need_some, ok_bind, hrc, hle,
                  check_true, h7, lengthField_eq, hlen, hx, need_none, error_bind]
              | true =>
                simp only
                have hnodes : nodeCountOf rc0 = (storedRepeatCount rc0).toNat + 2 := by
                  unfold nodeCountOf repeatsOf; rw [storedRepeatCount_eq]
                cases hns : buildNodeSamples info h.soundType ((storedRepeatCount rc0).toNat + 2)
                    (rest2.drop 1).head? (rest2.drop 2).head? with
                | none =>
                  rw [nodeSamples_eq] at hns
                  refine ⟨.badEdgeSet, by decide, fun ctx => ?_⟩
                  simp only [slider, toHead, List.getElem?_cons_zero, List.getElem?_cons_succ, need_some, ok_bind, hrc, hle,
                    check_true, h7, lengthField_eq, hlen, hx, hn8, hn9, hnodes, hns, need_none, error_bind]
                | some ns =>
                  rw [nodeSamples_eq] at hns
                  intro ctx
                  simp only [slider, toHead, List.getElem?_cons_zero, List.getElem?_cons_succ, need_some, ok_bind, hrc, hle,
                    check_true, h7, lengthField_eq, hlen, hx, hn8, hn9, hnodes, hns]
                  cases path F ctx.leftover h.pos pointStr with
                  | none => rfl
                  | some cps =>
                    simp only [need_some, ok_bind, pure_eq_ok, sliderOf, repeatsOf, storedRepeatCount_eq]

/-- **slider_eq_reference**: the slider arm accepts exactly when the spec does, with the same object;
the path buffer is emptied when the non-path fields are well formed (accepted, or rejected for the path
only) and untouched otherwise; nothing else of the state changes. -/
theorem slider_eq_reference (mode : GameMode) (st : HOCore F P) (h : Header F P) :
    match (buildSlider mode st h).2 with
    | some (k, bi) =>
      slider (ctxOf mode (viewOf st)) (toHead h (a :: b :: c :: d :: e :: h.rest)) =
        .ok (accept (toHead h (a :: b :: c :: d :: e :: h.rest)) k bi) ∧
      (∃ s, k = .slider s) ∧
      viewOf (buildSlider mode st h).1 = { viewOf st with curvePoints := [] }
    | none =>
      (∃ rj, slider (ctxOf mode (viewOf st)) (toHead h (a :: b :: c :: d :: e :: h.rest)) = .error rj ∧ rj ≠ .badPath ∧
        viewOf (buildSlider mode st h).1 = viewOf st) ∨
      (slider (ctxOf mode (viewOf st)) (toHead h (a :: b :: c :: d :: e :: h.rest)) = .error .badPath ∧
        viewOf (buildSlider mode st h).1 = { viewOf st with curvePoints := [] }) := by
  have hp := sliderPrelude_eq (F := F) (P := P) a b c d e h
  unfold buildSlider
  cases hpre : (sliderPrelude h : Option (SliderPrelude F)) with
  | none =>
    rw [hpre] at hp
    obtain ⟨rj, hne, hall⟩ := hp
    exact Or.inl ⟨rj, hall _, hne, rfl⟩
  | some pre =>
    rw [hpre] at hp
    have hs := hp (ctxOf mode (viewOf st))
    obtain ⟨p1, p2⟩ := path_eq (F := F) st.scratch pre.pointStr h.pos
    simp only
    cases hc : convertPathStr F st.scratch pre.pointStr h.pos with
    | mk sc ok =>
      rw [hc] at p1 p2
      have hleft : (ctxOf mode (viewOf st)).leftover = st.scratch.curvePoints := rfl
      rw [hleft] at hs
      cases hpath : path F st.scratch.curvePoints h.pos pre.pointStr with
      | none =>
        rw [hpath] at p1 p2 hs
        simp only [Option.isSome_none] at p1
        subst p1
        simp only [Option.getD_none] at p2
        refine Or.inr ⟨hs, ?_⟩
        simp only [viewOf, HOCore.withScratch, p2]
      | some cps =>
        rw [hpath] at p1 p2 hs
        simp only [Option.isSome_some] at p1
        subst p1
        simp only [Option.getD_some] at p2
        simp only
        refine ⟨?_, ⟨_, rfl⟩, rfl⟩
        rw [hs, p2, forcedNewCombo_eq mode, storedComboOffset_eq]
        rfl

end

end Rosu.C14.HoSpec
