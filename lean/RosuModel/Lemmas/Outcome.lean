/-
  Lemmas/Outcome.lean — rewriting rules for the `Outcome` (= `Except CErr`) reads and writes of Model/Curve.lean.
-/
import RosuModel.Model.Curve
namespace Rosu

variable {α β : Type}

@[simp] theorem Outcome.pure_eq_ok (x : α) : (pure x : Outcome α) = .ok x := rfl
@[simp] theorem Outcome.ok_bind (a : α) (f : α → Outcome β) : ((Except.ok a : Outcome α) >>= f) = f a := rfl
@[simp] theorem Outcome.error_bind (e : CErr) (f : α → Outcome β) :
    ((Except.error e : Outcome α) >>= f) = .error e := rfl
@[simp] theorem Outcome.throw_eq (e : CErr) : (throw e : Outcome α) = .error e := rfl

theorem getI_eq (l : List α) (i : Nat) (h : i < l.length) : getI l i = .ok l[i] := by
  simp [getI, List.getElem?_eq_getElem h]

theorem getI_of_some (l : List α) (i : Nat) (x : α) (h : l[i]? = some x) : getI l i = .ok x := by
  simp [getI, h]

theorem getI_ok_iff (l : List α) (i : Nat) (x : α) : getI l i = .ok x ↔ l[i]? = some x := by
  unfold getI
  cases h : l[i]? <;> simp

theorem usub_eq (a b : Nat) (h : b ≤ a) : usub a b = .ok (a - b) := by simp [usub, h]

theorem setI_eq (l : List α) (i : Nat) (x : α) (h : i < l.length) : setI l i x = .ok (l.set i x) := by
  simp [setI, h]

theorem sliceTo_eq (l : List α) (n : Nat) (h : n ≤ l.length) : sliceTo l n = .ok (l.take n) := by
  simp [sliceTo, h]

theorem set_take_succ (l : List α) (k : Nat) (x : α) (h : k < l.length) :
    (l.take (k + 1)).set k x = l.take k ++ [x] := by
  induction k generalizing l with
  | zero => cases l with
    | nil => simp at h
    | cons a t => simp
  | succ k ih => cases l with
    | nil => simp at h
    | cons a t =>
      have := ih t (by simpa using h)
      simp [List.take_succ_cons, this]

end Rosu
