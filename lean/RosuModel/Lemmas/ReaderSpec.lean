/-
  Lemmas/ReaderSpec.lean — what `Model/Reader.lean` computes, as a function of two
  abstractions of the delivery schedule only: the bytes delivered before the first
  fatal error (`Sched.pre`) and that error (`Sched.firstFail`). Shared by C08, C09, C10.
-/
import RosuModel.Model.Framing
namespace Rosu

/-- bytes delivered before the first fatal error. -/
def Sched.pre : Sched → List UInt8
  | [] => []
  | .chunk bs :: s => bs ++ Sched.pre s
  | .intr :: s => Sched.pre s
  | .fail _ :: _ => []

/-- the first fatal error of the schedule. -/
def Sched.firstFail : Sched → Option IoKind
  | [] => none
  | .fail k :: _ => some k
  | .chunk _ :: s => Sched.firstFail s
  | .intr :: s => Sched.firstFail s

def rdIsOk {ε α : Type} : Except ε α → Bool
  | .ok _ => true
  | .error _ => false

/-! ### `pushRest` -/

theorem pre_pushRest (r : List UInt8) (s : Sched) : Sched.pre (pushRest r s) = r ++ Sched.pre s := by
  cases r <;> simp [pushRest, Sched.pre]

theorem firstFail_pushRest (r : List UInt8) (s : Sched) :
    Sched.firstFail (pushRest r s) = Sched.firstFail s := by
  cases r <;> simp [pushRest, Sched.firstFail]

/-! ### `splitAtLF` -/

theorem splitAtLF_append (a b : List UInt8) :
    splitAtLF (a ++ b) =
      match splitAtLF a with
      | (p, some r) => (p, some (r ++ b))
      | (p, none) => (p ++ (splitAtLF b).1, (splitAtLF b).2) := by
  induction a with
  | nil => simp [splitAtLF]
  | cons x xs ih =>
    simp only [List.cons_append, splitAtLF]
    by_cases hx : (x == 0x0A) = true
    · simp [hx]
    · simp only [hx, Bool.false_eq_true, if_false, ih]
      cases h : splitAtLF xs with
      | mk p o => cases o <;> simp

theorem splitAtLF_length (bs : List UInt8) :
    (splitAtLF bs).1.length + ((splitAtLF bs).2.getD []).length = bs.length := by
  induction bs with
  | nil => simp [splitAtLF]
  | cons x xs ih =>
    simp only [splitAtLF]
    by_cases hx : (x == 0x0A) = true
    · simp [hx]; omega
    · simp only [hx, Bool.false_eq_true, if_false, List.length_cons]
      omega

theorem splitAtLF_some_ne_nil {bs p r : List UInt8} (h : splitAtLF bs = (p, some r)) : p ≠ [] := by
  cases bs with
  | nil => simp [splitAtLF] at h
  | cons x xs =>
    simp only [splitAtLF] at h
    by_cases hx : (x == 0x0A) = true
    · simp [hx] at h; rw [← h.1]; simp
    · simp only [hx, Bool.false_eq_true, if_false] at h
      have := congrArg Prod.fst h
      simp at this; rw [← this]; simp

theorem splitAtLF_some_ends {bs p r : List UInt8} (h : splitAtLF bs = (p, some r)) :
    endsWithLF p = true := by
  induction bs generalizing p r with
  | nil => simp [splitAtLF] at h
  | cons x xs ih =>
    simp only [splitAtLF] at h
    by_cases hx : (x == 0x0A) = true
    · simp [hx] at h
      rw [← h.1]
      simp only [endsWithLF, List.getLast?_singleton]
      have : x = 0x0A := by simpa using hx
      subst this; rfl
    · simp only [hx, Bool.false_eq_true, if_false] at h
      cases hs : splitAtLF xs with
      | mk p' o =>
        rw [hs] at h
        simp at h
        obtain ⟨h1, h2⟩ := h
        subst h1; subst h2
        have ih' := ih hs
        have hne := splitAtLF_some_ne_nil hs
        simp only [endsWithLF] at ih' ⊢
        rwa [List.getLast?_cons_of_ne_nil hne]

theorem splitAtLF_none_noLF {bs p : List UInt8} (h : splitAtLF bs = (p, none)) :
    p = bs ∧ endsWithLF p = false := by
  induction bs generalizing p with
  | nil => simp [splitAtLF] at h; subst h; simp [endsWithLF]
  | cons x xs ih =>
    simp only [splitAtLF] at h
    by_cases hx : (x == 0x0A) = true
    · simp [hx] at h
    · simp only [hx, Bool.false_eq_true, if_false] at h
      cases hs : splitAtLF xs with
      | mk p' o =>
        rw [hs] at h
        simp at h
        obtain ⟨h1, h2⟩ := h
        subst h1; subst h2
        obtain ⟨e, hl⟩ := ih hs
        subst e
        refine ⟨rfl, ?_⟩
        cases p' with
        | nil =>
          simp only [endsWithLF, List.getLast?_singleton]
          simpa using hx
        | cons y ys =>
          simp only [endsWithLF] at hl ⊢
          rwa [List.getLast?_cons_of_ne_nil (by simp)]


/-! ### `readUntil`, `nextByte`, `readRaw` as functions of `(pre, firstFail)` -/

def untilSpec (bs : List UInt8) (ff : Option IoKind) (acc : List UInt8) :
    Except IoKind (List UInt8) × List UInt8 :=
  match splitAtLF bs with
  | (p, some rest) => (.ok (acc ++ p), rest)
  | (p, none) =>
    match ff with
    | none => (.ok (acc ++ p), [])
    | some k => (.error k, [])

theorem readUntil_spec (s : Sched) (acc : List UInt8) :
    (readUntil s acc).1 = (untilSpec s.pre s.firstFail acc).1 ∧
    (rdIsOk (readUntil s acc).1 = true →
      Sched.pre (readUntil s acc).2 = (untilSpec s.pre s.firstFail acc).2 ∧
      Sched.firstFail (readUntil s acc).2 = s.firstFail) := by
  induction s generalizing acc with
  | nil => simp [readUntil, untilSpec, Sched.pre, Sched.firstFail, splitAtLF]
  | cons e s ih =>
    cases e with
    | intr => simpa [readUntil, Sched.pre, Sched.firstFail] using ih acc
    | fail k => simp [readUntil, untilSpec, Sched.pre, Sched.firstFail, splitAtLF, rdIsOk]
    | chunk bs =>
      simp only [readUntil, Sched.pre, Sched.firstFail, untilSpec, splitAtLF_append]
      cases hs : splitAtLF bs with
      | mk p o =>
        cases o with
        | some rest => simp [pre_pushRest, firstFail_pushRest]
        | none =>
          simp only []
          have := ih (acc ++ p)
          simp only [untilSpec] at this
          cases hs2 : splitAtLF (Sched.pre s) with
          | mk p2 o2 =>
            rw [hs2] at this
            cases o2 with
            | some r2 => simpa [List.append_assoc] using this
            | none =>
              cases hf : Sched.firstFail s with
              | none => rw [hf] at this; simpa [List.append_assoc] using this
              | some k => rw [hf] at this; simpa [List.append_assoc] using this

theorem splitAtLF_concat (bs : List UInt8) :
    (splitAtLF bs).1 ++ ((splitAtLF bs).2.getD []) = bs := by
  induction bs with
  | nil => simp [splitAtLF]
  | cons x xs ih =>
    simp only [splitAtLF]
    by_cases hx : (x == 0x0A) = true
    · simp [hx]
    · simp only [hx, Bool.false_eq_true, if_false, List.cons_append]
      rw [ih]

/-- bytes are conserved by `read_until`. -/
theorem untilSpec_conserve {bs : List UInt8} {ff : Option IoKind} {acc b rest : List UInt8}
    (h : untilSpec bs ff acc = (.ok b, rest)) : ∃ c, b = acc ++ c ∧ bs = c ++ rest := by
  unfold untilSpec at h
  have hc := splitAtLF_concat bs
  cases hs : splitAtLF bs with
  | mk p o =>
    rw [hs] at h hc
    cases o with
    | some r =>
      simp at h
      exact ⟨p, h.1.symm, by rw [← h.2]; simpa using hc.symm⟩
    | none =>
      cases ff with
      | none =>
        simp at h
        exact ⟨p, h.1.symm, by rw [h.2]; simpa using hc.symm⟩
      | some k => simp at h

def nextByteSpec (bs : List UInt8) (ff : Option IoKind) : Except IoKind (Option UInt8) × List UInt8 :=
  match bs with
  | b :: r => (.ok (some b), r)
  | [] =>
    match ff with
    | none => (.ok none, [])
    | some k => (.error k, [])

theorem nextByte_spec (s : Sched) :
    (nextByte s).1 = (nextByteSpec s.pre s.firstFail).1 ∧
    (rdIsOk (nextByte s).1 = true →
      Sched.pre (nextByte s).2 = (nextByteSpec s.pre s.firstFail).2 ∧
      Sched.firstFail (nextByte s).2 = s.firstFail) := by
  induction s with
  | nil => simp [nextByte, nextByteSpec, Sched.pre, Sched.firstFail, rdIsOk]
  | cons e s ih =>
    cases e with
    | intr => simpa [nextByte, Sched.pre, Sched.firstFail] using ih
    | fail k => simp [nextByte, nextByteSpec, Sched.pre, Sched.firstFail, rdIsOk]
    | chunk bs =>
      cases bs with
      | nil => simpa [nextByte, Sched.pre, Sched.firstFail] using ih
      | cons b r => simp [nextByte, nextByteSpec, Sched.pre, Sched.firstFail, pre_pushRest, firstFail_pushRest]

/-- the `loop` of `Decoder::read_line` on the byte stream (mirrors `readLineLoop`). -/
def rawLoop (enc : Encoding) (ff : Option IoKind) : Nat → List UInt8 → List UInt8 →
    Except IoKind (List UInt8) × List UInt8
  | 0, bs, buf => (.ok buf, bs)
  | fuel + 1, bs, buf =>
    match untilSpec bs ff buf with
    | (.error k, _) => (.error k, [])
    | (.ok buf', rest) =>
      if buf'.length = buf.length then (.ok buf', rest)
      else if !endsWithLF buf' then (.ok buf', rest)
      else
        let body := buf'.dropLast
        match enc with
        | .utf8 => (.ok buf', rest)
        | .utf16be =>
          if body.length % 2 == 1 && body.getLast? == some 0 then (.ok buf', rest)
          else rawLoop enc ff fuel rest buf'
        | .utf16le =>
          if body.length % 2 == 0 then
            match nextByteSpec rest ff with
            | (.error k, _) => (.error k, [])
            | (.ok none, rest') => (.ok buf', rest')
            | (.ok (some b), rest') =>
              if b == 0 then (.ok (buf' ++ [b]), rest')
              else rawLoop enc ff fuel rest' (buf' ++ [b])
          else rawLoop enc ff fuel rest buf'

/-- "same result; on success the same bytes and the same fault are still ahead". -/
def SpecRel {α : Type} (ff : Option IoKind) (x : Except IoKind α × Sched) (y : Except IoKind α × List UInt8) : Prop :=
  x.1 = y.1 ∧ (rdIsOk x.1 = true → Sched.pre x.2 = y.2 ∧ Sched.firstFail x.2 = ff)

theorem SpecRel.error {α : Type} (ff : Option IoKind) (k : IoKind) (s : Sched) (r : List UInt8) :
    SpecRel (α := α) ff (.error k, s) (.error k, r) := ⟨rfl, fun h => by simp [rdIsOk] at h⟩

theorem SpecRel.ok {α : Type} (ff : Option IoKind) (a : α) (s : Sched) (r : List UInt8)
    (hp : Sched.pre s = r) (hf : Sched.firstFail s = ff) : SpecRel ff (.ok a, s) (.ok a, r) :=
  ⟨rfl, fun _ => ⟨hp, hf⟩⟩

theorem readLineLoop_spec (enc : Encoding) (f : Nat) (s : Sched) (buf : List UInt8) :
    SpecRel s.firstFail (readLineLoop enc f s buf) (rawLoop enc s.firstFail f s.pre buf) := by
  induction f generalizing s buf with
  | zero => exact SpecRel.ok _ _ _ _ rfl rfl
  | succ n ih =>
    obtain ⟨h1, h2⟩ := readUntil_spec s buf
    simp only [readLineLoop, rawLoop]
    cases hu : readUntil s buf with
    | mk r s' =>
      cases hv : untilSpec s.pre s.firstFail buf with
      | mk r2 rest =>
        rw [hu, hv] at h1; rw [hu, hv] at h2
        simp only at h1 h2
        subst h1
        cases r with
        | error k => exact SpecRel.error _ _ _ _
        | ok buf' =>
          obtain ⟨hp, hf⟩ := h2 rfl
          have ih' := ih s' buf'
          rw [hp, hf] at ih'
          simp only []
          by_cases c1 : buf'.length = buf.length
          · simp only [c1, if_true]; exact SpecRel.ok _ _ _ _ hp hf
          · simp only [c1, if_false]
            by_cases c2 : (!endsWithLF buf') = true
            · simp only [c2, if_true]; exact SpecRel.ok _ _ _ _ hp hf
            · simp only [c2, Bool.false_eq_true, if_false]
              cases enc with
              | utf8 => exact SpecRel.ok _ _ _ _ hp hf
              | utf16be =>
                simp only []
                split
                · exact SpecRel.ok _ _ _ _ hp hf
                · exact ih'
              | utf16le =>
                simp only []
                split
                · obtain ⟨g1, g2⟩ := nextByte_spec s'
                  rw [hp, hf] at g1; rw [hp, hf] at g2
                  cases hb : nextByte s' with
                  | mk rb sb =>
                    cases hc : nextByteSpec rest s.firstFail with
                    | mk rc restc =>
                      rw [hb, hc] at g1; rw [hb, hc] at g2
                      simp only at g1 g2
                      subst g1
                      cases rb with
                      | error k => exact SpecRel.error _ _ _ _
                      | ok ob =>
                        obtain ⟨gp, gf⟩ := g2 rfl
                        cases ob with
                        | none => exact SpecRel.ok _ _ _ _ gp gf
                        | some b =>
                          simp only []
                          split
                          · exact SpecRel.ok _ _ _ _ gp gf
                          · have := ih sb (buf' ++ [b])
                            rw [gp, gf] at this
                            exact this
                · exact ih'

/-- what the loop returned and what is left are a split of what it was given. -/
theorem rawLoop_conserve (enc : Encoding) (ff : Option IoKind) (f : Nat) (bs buf b rest : List UInt8)
    (h : rawLoop enc ff f bs buf = (.ok b, rest)) : ∃ c, b = buf ++ c ∧ bs = c ++ rest := by
  induction f generalizing bs buf with
  | zero => simp [rawLoop] at h; exact ⟨[], by simp [h.1], by simp [h.2]⟩
  | succ n ih =>
    simp only [rawLoop] at h
    cases hv : untilSpec bs ff buf with
    | mk r2 rest0 =>
      rw [hv] at h
      cases r2 with
      | error k => simp at h
      | ok buf' =>
        obtain ⟨c0, e1, e2⟩ := untilSpec_conserve hv
        have fin : (Except.ok buf', rest0) = ((Except.ok b : Except IoKind (List UInt8)), rest) →
            ∃ c, b = buf ++ c ∧ bs = c ++ rest := by
          intro hh
          simp at hh
          exact ⟨c0, by rw [← hh.1]; exact e1, by rw [← hh.2]; exact e2⟩
        have cont : rawLoop enc ff n rest0 buf' = (Except.ok b, rest) →
            ∃ c, b = buf ++ c ∧ bs = c ++ rest := by
          intro hh
          obtain ⟨c1, d1, d2⟩ := ih rest0 buf' hh
          exact ⟨c0 ++ c1, by rw [d1, e1, List.append_assoc], by rw [e2, d2, List.append_assoc]⟩
        simp only [] at h
        split at h
        · exact fin h
        · split at h
          · exact fin h
          · cases enc with
            | utf8 => exact fin h
            | utf16be =>
              simp only [] at h
              split at h
              · exact fin h
              · exact cont h
            | utf16le =>
              simp only [] at h
              split at h
              · cases hc : nextByteSpec rest0 ff with
                | mk rc restc =>
                  rw [hc] at h
                  unfold nextByteSpec at hc
                  cases rest0 with
                  | nil =>
                    cases ff with
                    | none =>
                      simp at hc
                      obtain ⟨hc1, hc2⟩ := hc
                      subst hc1; subst hc2
                      simp at h
                      exact ⟨c0, by rw [← h.1]; exact e1, by rw [h.2]; exact e2⟩
                    | some k => simp at hc; obtain ⟨hc1, _⟩ := hc; subst hc1; simp at h
                  | cons x xs =>
                    simp at hc
                    obtain ⟨hc1, hc2⟩ := hc
                    subst hc1; subst hc2
                    simp only [] at h
                    split at h
                    · simp at h
                      exact ⟨c0 ++ [x], by rw [← h.1, e1, List.append_assoc],
                        by rw [e2, ← h.2]; simp⟩
                    · obtain ⟨c1, d1, d2⟩ := ih xs (buf' ++ [x]) h
                      exact ⟨c0 ++ x :: c1, by rw [d1, e1]; simp, by rw [e2, d2]; simp⟩
              · exact cont h

theorem rawLoop_fuel (enc : Encoding) (ff : Option IoKind) (f1 f2 : Nat) (bs buf : List UInt8)
    (h1 : bs.length < f1) (h2 : bs.length < f2) : rawLoop enc ff f1 bs buf = rawLoop enc ff f2 bs buf := by
  induction f1 generalizing f2 bs buf with
  | zero => omega
  | succ n ih =>
    cases f2 with
    | zero => omega
    | succ m =>
      simp only [rawLoop]
      cases hv : untilSpec bs ff buf with
      | mk r2 rest0 =>
        cases r2 with
        | error k => rfl
        | ok buf' =>
          obtain ⟨c0, e1, e2⟩ := untilSpec_conserve hv
          simp only []
          by_cases c1 : buf'.length = buf.length
          · simp only [c1, if_true]
          · have hlt : rest0.length < bs.length := by
              have : c0 ≠ [] := by
                intro e; subst e; simp at e1; subst e1; exact c1 rfl
              have := List.length_pos_iff.mpr this
              rw [e2]; simp; omega
            simp only [c1, if_false]
            split
            · rfl
            · cases enc with
              | utf8 => rfl
              | utf16be =>
                simp only []
                split
                · rfl
                · exact ih m rest0 buf' (by omega) (by omega)
              | utf16le =>
                simp only []
                split
                · cases hc : nextByteSpec rest0 ff with
                  | mk rc restc =>
                    cases rc with
                    | error k => rfl
                    | ok ob =>
                      cases ob with
                      | none => rfl
                      | some b =>
                        have : restc.length < rest0.length := by
                          unfold nextByteSpec at hc
                          cases rest0 with
                          | nil => cases ff <;> simp at hc
                          | cons x xs => simp at hc; rw [← hc.2]; simp
                        simp only []
                        split
                        · rfl
                        · exact ih m restc (buf' ++ [b]) (by omega) (by omega)
                · exact ih m rest0 buf' (by omega) (by omega)

/-- `Decoder::read_line` on the byte stream (mirrors `readRaw`). -/
def rawSpec (enc : Encoding) (bs : List UInt8) (ff : Option IoKind) :
    Except IoKind (Option (List UInt8)) × List UInt8 :=
  match rawLoop enc ff (bs.length + 1) bs [] with
  | (.error k, _) => (.error k, [])
  | (.ok buf, rest) => (if buf.isEmpty then .ok none else .ok (some buf), rest)

theorem pre_length_le_size (s : Sched) : (Sched.pre s).length ≤ Sched.size s := by
  induction s with
  | nil => simp [Sched.pre, Sched.size]
  | cons e s ih =>
    cases e <;> simp [Sched.pre, Sched.size, Ev.size] <;> omega

theorem readRawFuel_spec (enc : Encoding) (f : Nat) (s : Sched) (hf : s.pre.length < f) :
    (readRawFuel enc f s).1 = (rawSpec enc s.pre s.firstFail).1 ∧
    (rdIsOk (readRawFuel enc f s).1 = true →
      Sched.pre (readRawFuel enc f s).2 = (rawSpec enc s.pre s.firstFail).2 ∧
      Sched.firstFail (readRawFuel enc f s).2 = s.firstFail) := by
  obtain ⟨h1, h2⟩ := readLineLoop_spec enc f s []
  rw [rawLoop_fuel enc _ f (s.pre.length + 1) _ _ hf (by omega)] at h1 h2
  unfold readRawFuel rawSpec
  cases hu : readLineLoop enc f s [] with
  | mk r s' =>
    cases hv : rawLoop enc s.firstFail (s.pre.length + 1) s.pre [] with
    | mk r2 rest =>
      rw [hu, hv] at h1; rw [hu, hv] at h2
      simp only at h1 h2
      subst h1
      cases r with
      | error k => simp [rdIsOk]
      | ok buf =>
        obtain ⟨hp, hf⟩ := h2 rfl
        simp only []
        by_cases he : buf.isEmpty = true <;> simp [he, hp, hf]

theorem readRaw_spec (enc : Encoding) (s : Sched) :
    (readRaw enc s).1 = (rawSpec enc s.pre s.firstFail).1 ∧
    (rdIsOk (readRaw enc s).1 = true →
      Sched.pre (readRaw enc s).2 = (rawSpec enc s.pre s.firstFail).2 ∧
      Sched.firstFail (readRaw enc s).2 = s.firstFail) :=
  readRawFuel_spec enc _ s (by have := pre_length_le_size s; omega)

theorem rawSpec_some_lt {enc : Encoding} {bs : List UInt8} {ff : Option IoKind} {buf rest : List UInt8}
    (h : rawSpec enc bs ff = (.ok (some buf), rest)) : rest.length < bs.length := by
  unfold rawSpec at h
  cases hv : rawLoop enc ff (bs.length + 1) bs [] with
  | mk r rest0 =>
    rw [hv] at h
    cases r with
    | error k => simp at h
    | ok b =>
      obtain ⟨c, e1, e2⟩ := rawLoop_conserve enc ff _ _ _ _ _ hv
      simp only [] at h
      by_cases he : b.isEmpty = true
      · simp [he] at h
      · simp [he] at h
        obtain ⟨hb, hr⟩ := h
        subst hr
        have : 0 < c.length := by
          simp at e1; subst e1
          cases b with
          | nil => simp at he
          | cons _ _ => simp
        rw [e2]; simp; omega

/-! ### `readAll` as a function of `(pre, firstFail)` -/

def linesSpecFuel (enc : Encoding) (ff : Option IoKind) : Nat → List UInt8 → List Str × Option IoKind
  | 0, _ => ([], none)
  | fuel + 1, bs =>
    match rawSpec enc bs ff with
    | (.error k, _) => ([], some k)
    | (.ok none, _) => ([], none)
    | (.ok (some buf), rest) =>
      let (ls, e) := linesSpecFuel enc ff fuel rest
      (currLine enc buf :: ls, e)

/-- the lines `read_line` yields on a byte stream `bs` that is followed by the fatal error `ff`
(or by end of input if `ff = none`), and the error that ended reading. -/
def linesSpec (enc : Encoding) (ff : Option IoKind) (bs : List UInt8) : List Str × Option IoKind :=
  linesSpecFuel enc ff (bs.length + 1) bs

theorem readAllFuel_spec (enc : Encoding) (f : Nat) (s : Sched) (hf : s.pre.length < f) :
    readAllFuel enc f s = linesSpecFuel enc s.firstFail f s.pre := by
  induction f generalizing s with
  | zero => rfl
  | succ n ih =>
    obtain ⟨h1, h2⟩ := readRawFuel_spec enc (n + 1) s hf
    simp only [readAllFuel, linesSpecFuel]
    cases hr : readRawFuel enc (n + 1) s with
    | mk r s' =>
      cases hq : rawSpec enc s.pre s.firstFail with
      | mk r2 rest =>
        rw [hr, hq] at h1; rw [hr, hq] at h2
        simp only at h1 h2
        subst h1
        cases r with
        | error k => rfl
        | ok o =>
          cases o with
          | none => rfl
          | some buf =>
            obtain ⟨hp, hf'⟩ := h2 rfl
            have hlt := rawSpec_some_lt hq
            simp only []
            rw [ih s' (by rw [hp]; omega), hp, hf']

theorem linesSpecFuel_fuel (enc : Encoding) (ff : Option IoKind) (f1 f2 : Nat) (bs : List UInt8)
    (h1 : bs.length < f1) (h2 : bs.length < f2) :
    linesSpecFuel enc ff f1 bs = linesSpecFuel enc ff f2 bs := by
  induction f1 generalizing f2 bs with
  | zero => omega
  | succ n ih =>
    cases f2 with
    | zero => omega
    | succ m =>
      simp only [linesSpecFuel]
      cases hq : rawSpec enc bs ff with
      | mk r rest =>
        cases r with
        | error k => rfl
        | ok o =>
          cases o with
          | none => rfl
          | some buf =>
            have := rawSpec_some_lt hq
            simp only []
            rw [ih m rest (by omega) (by omega)]

/-- **`readAll` depends on the schedule only through the bytes delivered before the first
fatal error and that error.** -/
theorem readAll_eq_spec (enc : Encoding) (s : Sched) :
    readAll enc s = linesSpec enc s.firstFail s.pre := by
  unfold readAll linesSpec
  rw [readAllFuel_spec enc _ s (by have := pre_length_le_size s; omega)]
  exact linesSpecFuel_fuel enc _ _ _ _ (by have := pre_length_le_size s; omega) (by omega)

/-- one unfolding of `linesSpec`, free of fuel. -/
theorem linesSpec_unfold (enc : Encoding) (ff : Option IoKind) (bs : List UInt8) :
    linesSpec enc ff bs =
      match rawSpec enc bs ff with
      | (.error k, _) => ([], some k)
      | (.ok none, _) => ([], none)
      | (.ok (some buf), rest) =>
        (currLine enc buf :: (linesSpec enc ff rest).1, (linesSpec enc ff rest).2) := by
  unfold linesSpec
  conv => lhs; rw [linesSpecFuel]
  cases hq : rawSpec enc bs ff with
  | mk r rest =>
    cases r with
    | error k => rfl
    | ok o =>
      cases o with
      | none => rfl
      | some buf =>
        have := rawSpec_some_lt hq
        simp only []
        rw [linesSpecFuel_fuel enc ff bs.length (rest.length + 1) rest (by omega) (by omega)]


/-! ### `readBom` -/

/-- `read_bom` on the byte stream: the BOM is looked for in the first three bytes of the stream,
however they are delivered; fewer than three bytes before a fatal error surface that error. -/
def bomSpec (bs : List UInt8) (ff : Option IoKind) : Except IoKind Encoding × List UInt8 :=
  if bs.length < 3 then
    match ff with
    | some k => (.error k, [])
    | none => (.ok (Encoding.fromBom bs).1, bs.drop (Encoding.fromBom bs).2)
  else (.ok (Encoding.fromBom bs).1, bs.drop (Encoding.fromBom bs).2)

theorem fromBom_cons3 (a b c : UInt8) (t t' : List UInt8) :
    Encoding.fromBom (a :: b :: c :: t) = Encoding.fromBom (a :: b :: c :: t') := by
  unfold Encoding.fromBom
  split <;> split <;> simp_all

theorem fromBom_le3 (bs : List UInt8) : (Encoding.fromBom bs).2 ≤ 3 := by
  unfold Encoding.fromBom
  split <;> simp

theorem fromBom_le_length (bs : List UInt8) : (Encoding.fromBom bs).2 ≤ bs.length := by
  unfold Encoding.fromBom
  split <;> simp

theorem fromBom_append (bs x : List UInt8) (h : 3 ≤ bs.length) :
    Encoding.fromBom (bs ++ x) = Encoding.fromBom bs := by
  match bs, h with
  | a :: b :: c :: t, _ => exact fromBom_cons3 a b c _ _

/-- `Decoder::new`: the encoding, and the reader `Cursor::new(prefix).chain(reader)`. -/
def readBomPush (s : Sched) : Except IoKind Encoding × Sched :=
  match readBom s with
  | (.error k, s') => (.error k, s')
  | (.ok (enc, pfx), s') => (.ok enc, pushRest pfx s')

theorem readBomLoop_spec (pfx : List UInt8) (s : Sched) (hp : pfx.length < 3) :
    match readBomLoop pfx s with
    | (.error k, _) => (bomSpec (pfx ++ s.pre) s.firstFail).1 = .error k
    | (.ok (enc, lo), s') =>
      (bomSpec (pfx ++ s.pre) s.firstFail).1 = .ok enc ∧
      lo ++ Sched.pre s' = (bomSpec (pfx ++ s.pre) s.firstFail).2 ∧
      Sched.firstFail s' = s.firstFail := by
  induction s generalizing pfx with
  | nil =>
    simp [readBomLoop, finishBom, bomSpec, Sched.pre, Sched.firstFail, hp]
  | cons e s ih =>
    cases e with
    | intr => simpa [readBomLoop, Sched.pre, Sched.firstFail] using ih pfx hp
    | fail k => simp [readBomLoop, bomSpec, Sched.pre, Sched.firstFail, hp]
    | chunk bs =>
      by_cases h0 : bs.length = 0
      · have : bs = [] := List.eq_nil_of_length_eq_zero h0
        subst this
        simpa [readBomLoop, Sched.pre, Sched.firstFail] using ih pfx hp
      · simp only [readBomLoop, h0, if_false, Sched.pre, Sched.firstFail]
        by_cases hfast : (pfx.isEmpty && decide (bs.length ≥ 3)) = true
        · simp only [hfast, if_true]
          simp only [Bool.and_eq_true, decide_eq_true_eq, List.isEmpty_iff] at hfast
          obtain ⟨he, h3⟩ := hfast
          subst he
          have hl : ¬ (bs ++ Sched.pre s).length < 3 := by simp; omega
          have hle := fromBom_le3 bs
          simp only [List.nil_append, bomSpec, hl, if_false, fromBom_append bs _ h3, pre_pushRest,
            firstFail_pushRest, true_and, and_true]
          rw [List.drop_append_of_le_length (by omega)]
        · simp only [hfast, Bool.false_eq_true, if_false]
          have hlen : (pfx ++ bs.take (min bs.length (3 - pfx.length))).length = pfx.length + min bs.length (3 - pfx.length) := by
            simp only [List.length_append, List.length_take]; omega
          by_cases h3 : (pfx ++ bs.take (min bs.length (3 - pfx.length))).length = 3
          · simp only [h3, if_true, finishBom]
            have hB : pfx ++ (bs ++ Sched.pre s) =
                (pfx ++ bs.take (min bs.length (3 - pfx.length))) ++
                  (bs.drop (min bs.length (3 - pfx.length)) ++ Sched.pre s) := by
              simp only [List.append_assoc]
              rw [← List.append_assoc (bs.take _), List.take_append_drop]
            rw [hB]
            generalize pfx ++ bs.take (min bs.length (3 - pfx.length)) = P at h3
            generalize bs.drop (min bs.length (3 - pfx.length)) = R
            have hl : ¬ (P ++ (R ++ Sched.pre s)).length < 3 := by
              rw [List.length_append, h3]; omega
            have hle := fromBom_le3 P
            simp only [bomSpec, hl, if_false, pre_pushRest, firstFail_pushRest, fromBom_append P _ (Nat.le_of_eq h3.symm)]
            refine ⟨trivial, ?_, trivial⟩
            rw [List.drop_append_of_le_length (by omega)]
          · simp only [h3, if_false]
            have ht : min bs.length (3 - pfx.length) = bs.length := by omega
            rw [ht, List.take_length]
            have := ih (pfx ++ bs) (by simp only [List.length_append]; rw [ht] at hlen; rw [ht, List.take_length] at h3; simp only [List.length_append] at h3; omega)
            simpa only [List.append_assoc] using this

theorem readBomPush_spec (s : Sched) :
    SpecRel s.firstFail (readBomPush s) (bomSpec s.pre s.firstFail) := by
  have := readBomLoop_spec [] s (by simp)
  unfold readBomPush readBom
  cases hb : readBomLoop [] s with
  | mk r s' =>
    rw [hb] at this
    cases r with
    | error k =>
      simp only [List.nil_append] at this
      refine ⟨this.symm, fun h => by simp [rdIsOk] at h⟩
    | ok p =>
      obtain ⟨enc, lo⟩ := p
      simp only [List.nil_append] at this
      obtain ⟨a, b, c⟩ := this
      exact ⟨a.symm, fun _ => ⟨by rw [pre_pushRest]; exact b, by rw [firstFail_pushRest]; exact c⟩⟩

/-! ### `Interrupted` -/

def dropIntr : Sched → Sched
  | [] => []
  | .intr :: s => dropIntr s
  | .chunk bs :: s => .chunk bs :: dropIntr s
  | .fail k :: s => .fail k :: dropIntr s

theorem pre_dropIntr (s : Sched) : Sched.pre (dropIntr s) = Sched.pre s := by
  induction s with
  | nil => rfl
  | cons e s ih => cases e <;> simp [dropIntr, Sched.pre, ih]

theorem firstFail_dropIntr (s : Sched) : Sched.firstFail (dropIntr s) = Sched.firstFail s := by
  induction s with
  | nil => rfl
  | cons e s ih => cases e <;> simp [dropIntr, Sched.firstFail, ih]

theorem dropIntr_pushRest (r : List UInt8) (s : Sched) :
    dropIntr (pushRest r s) = pushRest r (dropIntr s) := by
  cases r <;> simp [pushRest, dropIntr]

theorem readBomLoop_dropIntr (pfx : List UInt8) (s : Sched) :
    readBomLoop pfx (dropIntr s) = ((readBomLoop pfx s).1, dropIntr (readBomLoop pfx s).2) := by
  induction s generalizing pfx with
  | nil => simp [readBomLoop, dropIntr]
  | cons e s ih =>
    cases e with
    | intr => simpa [readBomLoop, dropIntr] using ih pfx
    | fail k => simp [readBomLoop, dropIntr]
    | chunk bs =>
      simp only [readBomLoop, dropIntr]
      by_cases h0 : bs.length = 0
      · simp [h0, ih]
      · simp only [h0, if_false]
        split
        · simp [dropIntr_pushRest]
        · split
          · simp [dropIntr_pushRest]
          · exact ih _

theorem readBom_dropIntr (s : Sched) :
    readBom (dropIntr s) = ((readBom s).1, dropIntr (readBom s).2) := readBomLoop_dropIntr [] s

theorem readUntil_dropIntr (s : Sched) (acc : List UInt8) :
    readUntil (dropIntr s) acc = ((readUntil s acc).1, dropIntr (readUntil s acc).2) := by
  induction s generalizing acc with
  | nil => simp [readUntil, dropIntr]
  | cons e s ih =>
    cases e with
    | intr => simpa [readUntil, dropIntr] using ih acc
    | fail k => simp [readUntil, dropIntr]
    | chunk bs =>
      simp only [readUntil, dropIntr]
      cases hs : splitAtLF bs with
      | mk p o => cases o <;> simp [dropIntr_pushRest, ih]

theorem nextByte_dropIntr (s : Sched) :
    nextByte (dropIntr s) = ((nextByte s).1, dropIntr (nextByte s).2) := by
  induction s with
  | nil => simp [nextByte, dropIntr]
  | cons e s ih =>
    cases e with
    | intr => simpa [nextByte, dropIntr] using ih
    | fail k => simp [nextByte, dropIntr]
    | chunk bs => cases bs <;> simp [nextByte, dropIntr, dropIntr_pushRest, ih]

/-! ### `decodeSched` through the specifications -/

theorem decodeSched_eq {σ : Type} (D : LineDecoder σ) (s : Sched) :
    decodeSched D s =
      match readBomPush s with
      | (.error k, _) => .error k
      | (.ok enc, s1) =>
        match linesSpec enc s1.firstFail s1.pre with
        | (_, some k) => .error k
        | (ls, none) => .ok (frame D ls) := by
  unfold decodeSched readBomPush
  cases readBom s with
  | mk r s1 =>
    cases r with
    | error k => rfl
    | ok p =>
      obtain ⟨enc, pfx⟩ := p
      simp only [readAll_eq_spec]; rfl

/-- `decode` on a byte stream `bs` followed by the fatal error `ff` (or by end of input). -/
def decodeSpec {σ : Type} (D : LineDecoder σ) (bs : List UInt8) (ff : Option IoKind) : Except IoKind σ :=
  match bomSpec bs ff with
  | (.error k, _) => .error k
  | (.ok enc, rest) =>
    match linesSpec enc ff rest with
    | (_, some k) => .error k
    | (ls, none) => .ok (frame D ls)

/-- **`decode` depends on the schedule only through the bytes delivered before the first fatal
error and that error** — no condition on how the bytes are cut into chunks. -/
theorem decodeSched_spec {σ : Type} (D : LineDecoder σ) (s : Sched) :
    decodeSched D s = decodeSpec D s.pre s.firstFail := by
  rw [decodeSched_eq]
  obtain ⟨h1, h2⟩ := readBomPush_spec s
  unfold decodeSpec
  cases hb : readBomPush s with
  | mk r s1 =>
    cases hq : bomSpec s.pre s.firstFail with
    | mk r2 rest =>
      rw [hb, hq] at h1; rw [hb, hq] at h2
      simp only at h1 h2
      subst h1
      cases r with
      | error k => rfl
      | ok enc =>
        obtain ⟨hp, hf⟩ := h2 rfl
        simp only [hp, hf]

end Rosu
